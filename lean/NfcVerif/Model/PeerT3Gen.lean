import NfcVerif.Model.T3Emu
import NfcVerif.Model.PeerPax
/-!
# Property C07: `Type3TagEmulation` (`nfc/tag/tt3.py`) for ANY set of services

`Model/T3Emu.lean` (shared with C01) fixes the services of `examples/tagtool.py` and writes the
response octets as plain lists.  This model generalises it for the robustness property:

* the services are a parameter (`Svc σ`): which service codes `add_service` registered, the read and
  write callbacks as total functions over an application state `σ` (`None`/`False` results included -
  the default callbacks of `add_service(code, None, None)` are the instance `read = none`,
  `write = false`);
* every `bytearray([...])` the code builds from a COMPUTED integer is `mkBytes`, which raises
  `ValueError` unless every element is in `range(256)`: the status flags `1 << (i % 8)` of the
  `xx A2` / `xx A3` error responses, the block count `len(block_data)/16` of the read response and
  the length octets `10 + len(rsp)` / `2 + len(rsp)` of every response;
* `processCommandR` is `process_command` with the `try/except IndexError: return None` of the
  repaired code (fixes/C07/0005).

`block_list` elements of two (`b0 >= 128`) and three octets, service list positions `b0 & 15`,
the per-service block counters behind the `rb`/`re` (`wb`/`we`) flags are those of the code
(`T3Emu.countDict`, `dictGet`, `dictSet` are re-used unchanged).
-/
namespace NfcVerif.PeerT3
open NfcVerif.T3Emu (Step Dict dictGet dictSet countDict Call)

/-- `bytearray([a, b, ..])`: `ValueError: byte must be in range(0, 256)` -/
def mkBytes (l : List Nat) : Py Bytes :=
  if l.all (fun b => decide (b < 256)) then .ok l else .error .value

/-- what `add_service` registered; `σ` is the state the application's callbacks work on -/
structure Svc (σ : Type) where
  /-- `service_code in self.services.keys()` -/
  has : Nat → Bool
  /-- `read_func(block_number, rb, re)` of service `sc`: block data or `None` -/
  read : σ → Nat → Nat → Bool → Bool → Option Bytes × σ
  /-- `write_func(block_number, block_data, wb, we)` of service `sc`: truth value of the result -/
  write : σ → Nat → Nat → Bytes → Bool → Bool → Bool × σ

structure Emu (σ : Type) where
  idm : Bytes
  pmm : Bytes
  sys : Bytes
  svc : Svc σ

variable {σ : Type}

/-- status flag 1 of an error response: `1 << (i % 8)` -/
def flag1 (i : Nat) : Nat := 2 ^ (i % 8)

/-- the `for i in range(len(service_list))` loop -/
def parseServices (has : Nat → Bool) : Nat → Bytes → List Nat → Py (Step (List Nat × Bytes))
  | 0, d, acc => .ok (.cont (acc, d))
  | n + 1, d, acc =>
    idxN d 1 >>= fun hi => idxN d 0 >>= fun lo =>
    if has (hi * 256 + lo) = false then .ok (.done [0xFF, 0xA1])
    else parseServices has n (d.drop 2) (acc ++ [hi * 256 + lo])

/-- the block list loop: elements `(service list index, block number)`; an element whose service
list position does not exist (or that is missing) ends the command with `[1 << (i % 8), 0xA3]` -/
def parseBlocks (nsvc : Nat) : Nat → Nat → Bytes → List (Nat × Nat) → Py (Step (List (Nat × Nat) × Bytes))
  | 0, _, d, acc => .ok (.cont (acc, d))
  | n + 1, i, d, acc =>
    match d with
    | [] => mkBytes [flag1 i, 0xA3] >>= fun r => .ok (.done r)
    | b0 :: _ =>
      if b0 % 16 ≥ nsvc then mkBytes [flag1 i, 0xA3] >>= fun r => .ok (.done r)
      else if b0 ≥ 128 then
        idxN d 1 >>= fun bn => parseBlocks nsvc n (i + 1) (d.drop 2) (acc ++ [(b0 % 16, bn)])
      else
        idxN d 2 >>= fun hi => idxN d 1 >>= fun lo =>
        parseBlocks nsvc n (i + 1) (d.drop 3) (acc ++ [(b0 % 16, hi * 256 + lo)])

/-- the read loop: `[1 << (i % 8), 0xA2]` for the first block the service does not deliver -/
def readLoop (svc : Svc σ) (svcs : List Nat) (d0 : Dict) :
    List (Nat × Nat) → Nat → Dict → Bytes → σ → List Call → Py (Bytes × σ × List Call)
  | [], _, _, acc, s, log => mkBytes [0, 0, acc.length / 16] >>= fun h => .ok (h ++ acc, s, log)
  | (si, bn) :: rest, i, d, acc, s, log =>
    idxN svcs si >>= fun sc =>
    dictGet d0 sc >>= fun bc =>
    dictGet d sc >>= fun cur =>
    let rb := decide (bc = cur)
    let re := decide (cur - 1 = 0)
    let r := svc.read s sc bn rb re
    match r.1 with
    | none => mkBytes [flag1 i, 0xA2] >>= fun f => .ok (f, r.2, log ++ [⟨false, bn, rb, re⟩])
    | some blk =>
      readLoop svc svcs d0 rest (i + 1) (dictSet d sc (cur - 1)) (acc ++ blk) r.2 (log ++ [⟨false, bn, rb, re⟩])

def writeLoop (svc : Svc σ) (svcs : List Nat) (d0 : Dict) (data : Bytes) :
    List (Nat × Nat) → Nat → Dict → σ → List Call → Py (Bytes × σ × List Call)
  | [], _, _, s, log => .ok ([0, 0], s, log)
  | (si, bn) :: rest, i, d, s, log =>
    idxN svcs si >>= fun sc =>
    dictGet d0 sc >>= fun bc =>
    dictGet d sc >>= fun cur =>
    let wb := decide (bc = cur)
    let we := decide (cur - 1 = 0)
    let r := svc.write s sc bn (sliceN data (i * 16) ((i + 1) * 16)) wb we
    if r.1 = false then mkBytes [flag1 i, 0xA2] >>= fun f => .ok (f, r.2, log ++ [⟨true, bn, wb, we⟩])
    else writeLoop svc svcs d0 data rest (i + 1) (dictSet d sc (cur - 1)) r.2 (log ++ [⟨true, bn, wb, we⟩])

/-- `read_without_encryption(cmd_data)` -/
def emuRead (e : Emu σ) (s : σ) (d : Bytes) : Py (Bytes × σ × List Call) :=
  idxN d 0 >>= fun nsvc =>
  parseServices e.svc.has nsvc (d.drop 1) [] >>= fun p =>
  match p with
  | .done r => .ok (r, s, [])
  | .cont (svcs, d1) =>
    idxN d1 0 >>= fun nblk =>
    if nblk > 15 then .ok ([0xFF, 0xA2], s, []) else
    parseBlocks svcs.length nblk 0 (d1.drop 1) [] >>= fun b =>
    match b with
    | .done r => .ok (r, s, [])
    | .cont (blocks, _) =>
      let d0 := countDict svcs blocks
      readLoop e.svc svcs d0 blocks 0 d0 [] s []

/-- `write_without_encryption(cmd_data)` -/
def emuWrite (e : Emu σ) (s : σ) (d : Bytes) : Py (Bytes × σ × List Call) :=
  idxN d 0 >>= fun nsvc =>
  parseServices e.svc.has nsvc (d.drop 1) [] >>= fun p =>
  match p with
  | .done r => .ok (r, s, [])
  | .cont (svcs, d1) =>
    idxN d1 0 >>= fun nblk =>
    parseBlocks svcs.length nblk 0 (d1.drop 1) [] >>= fun b =>
    match b with
    | .done r => .ok (r, s, [])
    | .cont (blocks, data) =>
      if data.length % 16 ≠ 0 then .ok ([0xFF, 0xA2], s, []) else
      let d0 := countDict svcs blocks
      writeLoop e.svc svcs d0 data blocks 0 d0 s []

/-- `bytearray([10 + len(rsp), code]) + self.idm + rsp` -/
def respond (e : Emu σ) (code : Nat) (rsp : Bytes) : Py Bytes :=
  mkBytes [10 + rsp.length, code] >>= fun h => .ok (h ++ e.idm ++ rsp)

/-- `_process_command(cmd)` -> (response or None, application state afterwards, callback invocations) -/
def processCommand (e : Emu σ) (s : σ) (cmd : Bytes) : Py (Option Bytes × σ × List Call) :=
  match cmd with
  | [] => .ok (none, s, [])                      -- `not cmd`
  | l0 :: _ =>
    if cmd.length ≠ l0 then .ok (none, s, [])
    else if cmd.take 4 = [6, 0, 255, 255] ∨ cmd.take 4 = [6, 0] ++ e.sys then
      idxN (cmd.drop 2) 2 >>= fun rc =>
      let rsp := if rc = 1 then e.idm ++ e.pmm ++ e.sys else e.idm ++ e.pmm
      mkBytes [2 + rsp.length, 1] >>= fun h => .ok (some (h ++ rsp), s, [])
    else if sliceN cmd 2 10 = e.idm then
      idxN cmd 1 >>= fun code =>
      if code = 0x04 then respond e 0x05 [0] >>= fun r => .ok (some r, s, [])
      else if code = 0x06 then
        emuRead e s (cmd.drop 10) >>= fun x => respond e 0x07 x.1 >>= fun r => .ok (some r, x.2.1, x.2.2)
      else if code = 0x08 then
        emuWrite e s (cmd.drop 10) >>= fun x => respond e 0x09 x.1 >>= fun r => .ok (some r, x.2.1, x.2.2)
      else if code = 0x0C then respond e 0x0D ([1] ++ e.sys) >>= fun r => .ok (some r, s, [])
      else .ok (none, s, [])
    else .ok (none, s, [])

/-- `process_command`: `try: return self._process_command(cmd)  except IndexError: return None` -/
def processCommandR (e : Emu σ) (s : σ) (cmd : Bytes) : Py (Option Bytes × σ × List Call) :=
  match processCommand e s cmd with
  | .error .index => .ok (none, s, [])
  | r => r

/-! ## the service sets used by the correspondence run (application state = one block store) -/

inductive Mode
  /-- blocks of the store, readable and writable (tagtool's service 0009h) -/
  | rw
  /-- readable, the write callback returns `False` -/
  | ro
  /-- only even block numbers exist -/
  | even
  /-- `add_service(code, None, None)`: the default callbacks (`None` / `False`) -/
  | deflt
  deriving DecidableEq, Repr

def modeOf (tab : List (Nat × Mode)) (sc : Nat) : Option Mode := (tab.find? (fun p => p.1 = sc)).map (·.2)

def storeSvc (tab : List (Nat × Mode)) : Svc Bytes where
  has sc := (modeOf tab sc).isSome
  read store sc bn _ _ :=
    match modeOf tab sc with
    | some .rw | some .ro => (T3Emu.storeRead store bn, store)
    | some .even => (if bn % 2 = 0 then T3Emu.storeRead store bn else none, store)
    | _ => (none, store)
  write store sc bn data _ _ :=
    match modeOf tab sc with
    | some .rw =>
      (match T3Emu.storeWrite store bn data with
       | some s' => (true, s')
       | none => (false, store))
    | some .even =>
      if bn % 2 = 0 then
        (match T3Emu.storeWrite store bn data with
         | some s' => (true, s')
         | none => (false, store))
      else (false, store)
    | _ => (false, store)

/-! ## `_card_connect`: the emulation behind `ContactlessFrontend.connect(card=..)` -/

/-- what `tag.send_response(rsp, None)` ends with: the reader's next command or an exception of `clf.exchange` -/
inductive CardEv
  | cmd (c : Bytes)
  | err (e : Exc)
  deriving DecidableEq, Repr

/-- the `while not terminate()` loop of `_card_connect`: `send_response` and `process_command` are both inside the
`try`; `BrokenLinkError` -> break, any other `CommunicationError` -> `tag_rsp = None`, continue; anything else leaves
`connect()`.  The script ends when `terminate()` turns true (then `on-release`, normal return). -/
def cardLoop (e : Emu σ) : List CardEv → σ → Peer.End
  | [], _ => .returned
  | .err x :: rest, s =>
    if x = .brokenLink then .returned
    else if Peer.isComm x then cardLoop e rest s
    else .raised x
  | .cmd c :: rest, s =>
    match processCommandR e s c with
    | .ok r => cardLoop e rest r.2.1
    | .error x => .raised x

/-- `tag_rsp = tag.process_command(tag.cmd)` (the command that activated the emulation), then the loop -/
def cardSession (e : Emu σ) (s : σ) (first : Bytes) (script : List CardEv) : Peer.End :=
  match processCommandR e s first with
  | .ok r => cardLoop e script r.2.1
  | .error x => .raised x

end NfcVerif.PeerT3
