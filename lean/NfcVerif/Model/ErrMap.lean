import NfcVerif.Model.HostFrame
import NfcVerif.Model.Crc
/-!
# Error mapping of the contactless drivers (property C13)

Transcription of the `try/except` structure and of the status comparisons of

* `nfc.clf.pn53x.Chipset.command` (ACK handling, `while frame == ACK`, cancel on
  `ETIMEDOUT`) on top of `HostFrame.pnAccept`; `acr122.Chipset.command`;
  `rcs380.Chipset.send_command` with `rcs380.Frame.__init__` (received frames),
* the chipset functions an RF exchange uses (`read_register`, `write_register`,
  `rf_configuration`, `in_communicate_thru`, `in_data_exchange`,
  `tg_response_to_initiator`, `tg_get_initiator_command`; `in_set_rf`,
  `in_set_protocol`, `in_comm_rf`, `tg_comm_rf`),
* `Device.send_cmd_recv_rsp` / `send_rsp_recv_cmd` of pn53x (shared by pn531,
  pn532, pn533, rcs956, acr122, arygon), rcs380 and udp,
* `ContactlessFrontend.exchange`.

The host link is a parameter: for the `i`-th host command of an exchange
`w i : Host` says what `transport.write` does and what the successive
`transport.read` calls deliver.  Nothing is assumed about it.
-/
namespace NfcVerif.ErrMap
open HostFrame

/-- `asFound`: the tree before the `fix:` commits of C13; `repaired`: after. -/
inductive Variant | asFound | repaired
  deriving DecidableEq, Repr

/-- what one `transport.read` delivers -/
inductive Ev
  | raise (errno : Nat)          -- IOError(errno)
  | frame (f : Bytes)            -- these octets
  | good (p : Bytes)             -- a well-formed response frame to the pending command with payload `p`
  deriving DecidableEq, Repr

/-- what `transport.write` / `socket.sendto` does -/
inductive Wr
  | ok
  | raise (errno : Nat)
  | short                        -- datagram socket only: fewer octets accepted than given
  deriving DecidableEq, Repr

/-- behaviour of the host link during one host command -/
structure Host where
  wr : Wr
  reads : List Ev
  deriving Repr

def ack : Bytes := [0, 0, 0xFF, 0, 0xFF, 0]
/-- `IOError(errno.EIO)` -/
def eio : Exc := .io 5
def ETIMEDOUT : Nat := 110
def ENODEV : Nat := 19

/-! ## `Chipset.command` of the PN53x family (pn53x.py:134-246) -/

/-- `while frame == self.ACK: frame = self.read_frame(..)`, then validation.
A silent chip (no further event) is `IOError(ETIMEDOUT)`. -/
def pnAwait (cmd : Nat) : List Ev → Py Bytes
  | [] => throw (.io ETIMEDOUT)
  | .raise e :: _ => throw (.io e)
  | .good p :: _ => pure p
  | .frame g :: rest => if g = ack then pnAwait cmd rest else pnAccept cmd g

def pnCommand (cmd : Nat) (h : Host) : Py Bytes :=
  match h.wr with
  | .raise _ => throw eio
  | _ =>
    match h.reads with
    | [] => throw eio
    | .raise _ :: _ => throw eio
    | .good p :: _ => pure p        -- "missing ack frame": the frame is taken as the response
    | .frame f :: rest =>
      if ¬ startsWith f sof then throw eio
      else if f = ack then pnAwait cmd rest
      else pnAccept cmd f

/-! ## `acr122.Chipset.command` (one write, one read, no ACK) -/

def acrCommand (cmd : Nat) (h : Host) : Py Bytes :=
  match h.wr with
  | .raise e => throw (.io e)
  | _ =>
    match h.reads with
    | [] => throw (.io ETIMEDOUT)
    | .raise e :: _ => throw (.io e)
    | .good p :: _ => pure p
    | .frame f :: _ => acrAccept cmd f

/-! ## `rcs380.Frame.__init__` on received octets and `Chipset.send_command` -/

inductive FType | ack | err | data | none
  deriving DecidableEq, Repr

/-- `struct.unpack("<H", b)` -/
def unpackLeH : Bytes → Py Nat
  | [a, b] => pure (a + 256 * b)
  | _ => throw .struct

/-- `struct.unpack("<L", b)` -/
def unpackLeL : Bytes → Py Nat
  | [a, b, c, d] => pure (a + 256 * b + 65536 * c + 16777216 * d)
  | _ => throw .struct

def rcsFrame (f : Bytes) : Py (FType × Bytes) :=
  if sliceN f 0 3 = [0, 0, 0xFF] then
    if f = ack then pure (.ack, [])
    else if f = [0, 0, 0xFF, 0xFF, 0xFF] then pure (.err, [])
    else if sliceN f 3 5 = [0xFF, 0xFF] then
      unpackLeH (sliceN f 5 7) >>= fun len => pure (.data, sliceN f 8 (8 + len))
    else pure (.none, [])
  else pure (.none, [])            -- a command frame is built around the octets, type None

/-- `rsp.data[0] == 0xD7 and rsp.data[1] == cmd_code + 1`, else the log call
`logmsg.format(cmd_code+1, *rsp.data[0:2])` (IndexError with one octet) -/
def rcsRsp (cmd : Nat) (d : Bytes) : Py (Option Bytes) :=
  idxN d 0 >>= fun a =>
  if a ≠ 0xD7 then (if d.length < 2 then throw .index else pure none) else
  idxN d 1 >>= fun b =>
  if b = cmd + 1 then pure (some (d.drop 2)) else pure none

def rcsSend (cmd : Nat) (h : Host) : Py (Option Bytes) :=
  match h.wr with
  | .raise e => throw (.io e)
  | _ =>
    match h.reads with
    | [] => throw (.io ETIMEDOUT)
    | .raise e :: _ => throw (.io e)
    | .good _ :: _ => pure none     -- "expected ack but got data"
    | .frame f :: rest =>
      rcsFrame f >>= fun td =>
      if td.1 ≠ .ack then pure none else
      match rest with
      | [] => throw (.io ETIMEDOUT)
      | .raise e :: _ => throw (.io e)
      | .good p :: _ => pure (some p)
      | .frame g :: _ =>
        rcsFrame g >>= fun td2 =>
        if td2.1 ≠ .data then pure none else rcsRsp cmd td2.2

/-! ## PN53x chipset functions -/

inductive Fam | pn531 | pn532 | pn533 | rcs956
  deriving DecidableEq, Repr

/-- `chipset_error(data)` with a bytearray: `errno = cause[0]` -/
def chipErr {α} (d : Bytes) : Py α := idxN d 0 >>= fun n => throw (.chipsetError n)

/-- result of `read_register`: an int for one register, a list otherwise -/
inductive RegVal | one (v : Nat) | many (l : List Nat)
  deriving Repr

def regResult (d : Bytes) : Py RegVal :=
  if d.length > 1 then pure (.many d) else idxN d 0 >>= fun v => pure (.one v)

def readRegister (fam : Fam) (r : Py Bytes) : Py RegVal :=
  r >>= fun d =>
  match fam with
  | .pn533 => idxN d 0 >>= fun s => if s ≠ 0 then chipErr d else regResult (d.drop 1)
  | _ => regResult d

def writeRegister (fam : Fam) (r : Py Bytes) : Py Unit :=
  r >>= fun d =>
  match fam with
  | .pn533 => idxN d 0 >>= fun s => if s ≠ 0 then chipErr d else pure ()
  | .rcs956 => if HostFrame.sum d ≠ 0 then throw (.chipsetError 0xFE) else pure ()
  | _ => pure ()

def rfConfiguration (r : Py Bytes) : Py Unit := r >>= fun _ => pure ()

/-- `if data and data[0] == 0: return data[1:] else: self.chipset_error(data)` -/
def inCommunicateThru (r : Py Bytes) : Py Bytes :=
  r >>= fun d =>
  match d with
  | 0 :: rest => pure rest
  | _ => chipErr d

def tgGetInitiatorCommand (r : Py Bytes) : Py Bytes := inCommunicateThru r

/-- `if data is None or data[0] & 0x3f != 0: chipset_error(data[0] & 0x3f)`; `[0]` of the result -/
def inDataExchange (r : Py Bytes) : Py Bytes :=
  r >>= fun d => idxN d 0 >>= fun s =>
  if s % 64 ≠ 0 then throw (.chipsetError (s % 64)) else pure (d.drop 1)

/-- `if data is None or data[0] != 0: self.chipset_error(data)` -/
def tgResponseToInitiator (r : Py Bytes) : Py Unit :=
  r >>= fun d => idxN d 0 >>= fun s => if s ≠ 0 then chipErr d else pure ()

/-- `txm, rxm, txa = read_register(..)` -/
def unpack3 : RegVal → Py Unit
  | .one _ => throw .type_
  | .many [_, _, _] => pure ()
  | .many _ => throw .value

/-- `commirq, divirq = read_register(..)` -/
def unpack2 : RegVal → Py (Nat × Nat)
  | .one _ => throw .type_
  | .many [a, b] => pure (a, b)
  | .many _ => throw .value

def checkCrcA (d : Bytes) : Py Bool := Crc.checkCrcA (d.map (BitVec.ofNat 8))

/-- `_tt2_send_cmd_recv_rsp` after the RF command -/
def tt2Crc (d : Bytes) : Py Bytes :=
  if d.length > 2 then
    checkCrcA d >>= fun ok => if ok then pure (d.take (d.length - 2)) else throw .transmission
  else pure d

/-! ## pn53x `Device.send_cmd_recv_rsp` -/

inductive IPath | t1 | t2 | thru
  deriving DecidableEq, Repr

/-- handlers of `send_cmd_recv_rsp` (pn53x.py:673-684) -/
def pnMapI {α} : Py α → Py α
  | .error (.chipsetError n) => if n = 1 then .error .timeout else .error .transmission
  | .error (.io e) => if e = ETIMEDOUT then .error .timeout else .error (.io e)
  | x => x

/-- the repair: a `Chipset.Error` that reaches the caller of the exchange
function becomes `IOError(EIO)` -/
def guardChip {α} : Variant → Py α → Py α
  | .repaired, .error (.chipsetError _) => .error eio
  | _, x => x

def pnPrep (fam : Fam) (r : Nat → Py Bytes) : Py Unit :=
  readRegister fam (r 0) >>= unpack3 >>= fun _ =>
  writeRegister fam (r 1) >>= fun _ =>
  rfConfiguration (r 2)

def pnBodyI (path : IPath) (r : Nat → Py Bytes) : Py Bytes :=
  match path with
  | .t1 => inDataExchange (r 3)
  | .t2 => inCommunicateThru (r 3) >>= tt2Crc
  | .thru => inCommunicateThru (r 3)

def pnSendCmdRecvRsp (v : Variant) (fam : Fam) (path : IPath) (r : Nat → Py Bytes) : Py Bytes :=
  guardChip v (pnPrep fam r >>= fun _ => pnMapI (pnBodyI path r))

/-! ## pn53x `Device.send_rsp_recv_cmd` -/

def pnMapT {α} : Py α → Py α
  | .error (.chipsetError n) =>
    if n = 0x0A ∨ n = 0x29 ∨ n = 0x31 then .error .brokenLink else .error .transmission
  | .error (.io e) => if e = ETIMEDOUT then .error .timeout else .error (.io e)
  | x => x

def pnTgOther (hasData : Bool) (r : Nat → Py Bytes) : Py Bytes :=
  pnMapT ((if hasData then tgResponseToInitiator (r 0) else pure ()) >>= fun _ =>
          tgGetInitiatorCommand (r (if hasData then 1 else 0)))

/-- `fifo_data = bytearray(read_register(*fifo_read))`, length check -/
def fifoData (fam : Fam) (rData : Py Bytes) : Py Bytes :=
  readRegister fam rData >>= fun v =>
  let fifo := match v with
    | .one k => List.replicate k 0   -- `bytearray(int)`
    | .many l => l
  idxN fifo 0 >>= fun l0 =>
  if l0 ≠ fifo.length then throw .transmission else pure fifo

/-- FIFO level and FIFO data reads of `_tt3_send_rsp_recv_cmd` -/
def fifoRead (fam : Fam) (rLevel rData : Py Bytes) : Py Bytes :=
  readRegister fam rLevel >>= fun lv =>
  match lv with
  | .many _ => throw .type_          -- `list * list`
  | .one _ => fifoData fam rData

/-- the polling loop; one list element per iteration the timeout allows -/
def tt3Poll (fam : Fam) (r : Nat → Py Bytes) : List (Py Bytes) → Py Bytes
  | [] => throw .timeout
  | p :: later =>
    readRegister fam p >>= unpack2 >>= fun irq =>
    if irq.2 % 2 = 1 then throw .brokenLink
    else if (irq.1 / 32) % 2 = 1 then
      writeRegister fam (r 2) >>= fun _ => fifoRead fam (r 3) (r 4)
    else tt3Poll fam r later

def pnTgTt3 (v : Variant) (fam : Fam) (r : Nat → Py Bytes) (polls : List (Py Bytes)) : Py Bytes :=
  guardChip v (writeRegister fam (r 0) >>= fun _ => tt3Poll fam r polls)

/-! ## RC-S380 -/

/-- exceptions inside rcs380.py: its `CommunicationError` carries the status word -/
inductive RErr | comm (st : Nat) | py (e : Exc)
  deriving Repr
abbrev RPy := Except RErr

def liftR {α} : Py α → RPy α
  | .ok a => .ok a
  | .error e => .error (.py e)

/-- `if data and data[0] != 0: raise StatusError(data[0])` -/
def statusCheck (r : Py (Option Bytes)) : Py Unit :=
  r >>= fun od =>
  match od with
  | some (s :: _) => if s ≠ 0 then throw .rcsStatus else pure ()
  | _ => pure ()

/-- `in_comm_rf`: `CommunicationError(data[0:4])` unpacks the status word -/
def inCommRf (r : Py (Option Bytes)) : RPy (Option Bytes) :=
  liftR r >>= fun od =>
  match od with
  | none => pure none
  | some [] => pure none
  | some d =>
    if sliceN d 0 4 ≠ [0, 0, 0, 0] then liftR (unpackLeL (sliceN d 0 4)) >>= fun st => throw (.comm st)
    else pure (some (d.drop 5))

def tgCommRf (r : Py (Option Bytes)) : RPy (Option Bytes) :=
  liftR r >>= fun od =>
  match od with
  | none => pure none
  | some [] => pure none
  | some d =>
    if sliceN d 3 7 ≠ [0, 0, 0, 0] then liftR (unpackLeL (sliceN d 3 7)) >>= fun st => throw (.comm st)
    else pure (some (d.drop 7))

/-- `except CommunicationError` of `send_cmd_recv_rsp` (rcs380.py:944-948) -/
def rcsMapI {α} : RPy α → Py α
  | .ok a => .ok a
  | .error (.comm st) => if (st / 128) % 2 = 1 then .error .timeout else .error .transmission
  | .error (.py e) => .error e

/-- `except CommunicationError` of `send_rsp_recv_cmd` (rcs380.py:970-976) -/
def rcsMapT {α} : RPy α → Py α
  | .ok a => .ok a
  | .error (.comm st) =>
    if (st / 1024) % 2 = 1 then .error .brokenLink
    else if (st / 128) % 2 = 1 then .error .timeout
    else .error .transmission
  | .error (.py e) => .error e

def guardStatus {α} : Variant → Py α → Py α
  | .repaired, .error .rcsStatus => .error eio
  | _, x => x

/-- `_tt2_send_cmd_recv_rsp`: `len(data)` of `None` is a TypeError -/
def rcsTt2 : Option Bytes → RPy (Option Bytes)
  | none => throw (.py .type_)
  | some d => liftR (tt2Crc d) >>= fun x => pure (some x)

/-- `settings`: a third `InSetProtocol` is sent (Type A/B framing or the Type 2 CRC switch) -/
def rcsSendCmdRecvRsp (v : Variant) (settings tt2 : Bool) (r : Nat → Py (Option Bytes)) : Py (Option Bytes) :=
  guardStatus v (
    statusCheck (r 0) >>= fun _ =>
    statusCheck (r 1) >>= fun _ =>
    rcsMapI ((if settings then liftR (statusCheck (r 2)) else pure ()) >>= fun _ =>
             inCommRf (r (if settings then 3 else 2)) >>= fun od =>
             if tt2 then rcsTt2 od else pure od))

def rcsSendRspRecvCmd (r : Nat → Py (Option Bytes)) : Py (Option Bytes) :=
  rcsMapT (tgCommRf (r 0))

/-! ## UDP -/

def isWs (b : Nat) : Bool := b = 32 || b = 9 || b = 10 || b = 13 || b = 11 || b = 12

/-- `bytes.split()` -/
def splitWsAux : Bytes → Bytes → List Bytes → List Bytes
  | [], cur, acc => (if cur.isEmpty then acc else cur.reverse :: acc).reverse
  | b :: rest, cur, acc =>
    if isWs b then splitWsAux rest [] (if cur.isEmpty then acc else cur.reverse :: acc)
    else splitWsAux rest (b :: cur) acc
def splitWs (l : Bytes) : List Bytes := splitWsAux l [] []

def hexValN (b : Nat) : Option Nat :=
  if 48 ≤ b ∧ b ≤ 57 then some (b - 48)
  else if 97 ≤ b ∧ b ≤ 102 then some (b - 87)
  else if 65 ≤ b ∧ b ≤ 70 then some (b - 55)
  else none

/-- `binascii.unhexlify` -/
def unhex : Bytes → Option Bytes
  | [] => some []
  | [_] => none
  | a :: b :: rest =>
    match hexValN a, hexValN b, unhex rest with
    | some x, some y, some t => some ((x * 16 + y) :: t)
    | _, _, _ => none

def rfoff : Bytes := [82, 70, 79, 70, 70]

/-- one datagram in `_recv_data`; `none`: other bitrate/type, keep waiting.
As found `brty.decode("ascii")` and `unhexlify` are outside the `try` and
raise `UnicodeDecodeError` / `binascii.Error` (both `ValueError`). -/
def udpParse (v : Variant) (brty : Bytes) (dg : Bytes) : Py (Option Bytes) :=
  if startsWith dg rfoff then throw .brokenLink else
  match splitWs dg with
  | [b, hex] =>
    if b.any (fun x => decide (x ≥ 128)) then
      (match v with | .asFound => throw .value | .repaired => throw .transmission)
    else
      match unhex hex with
      | none => (match v with | .asFound => throw .value | .repaired => throw .transmission)
      | some d => if b = brty then pure (some d) else pure none
  | _ => throw .transmission

/-- `_recv_data`: datagrams until one matches or the time is over -/
def udpRecv (v : Variant) (brty : Bytes) : List Ev → Py Bytes
  | [] => throw .timeout
  | .raise e :: _ => throw (.io e)
  | .good p :: _ => pure p
  | .frame dg :: rest =>
    udpParse v brty dg >>= fun o =>
    match o with
    | some d => pure d
    | none => udpRecv v brty rest

/-- `send_cmd_recv_rsp` / `send_rsp_recv_cmd` of udp.py with data and a positive timeout -/
def udpExchange (v : Variant) (brty : Bytes) (hasData : Bool) (send : Host) (recv : Host) : Py Bytes :=
  (if hasData then
    match send.wr with
    | .raise e => throw (.io e)
    | .short => throw .transmission
    | .ok => pure ()
   else pure ()) >>= fun _ =>
  udpRecv v brty recv.reads

/-! ## `ContactlessFrontend.exchange` -/

inductive TargetSel | remote | local | none
  deriving DecidableEq, Repr

def frontendExchange {α} (deviceOpen : Bool) (t : TargetSel) (ini tgt : Py (Option α)) : Py (Option α) :=
  if ¬ deviceOpen then throw (.io ENODEV) else
  match t with
  | .remote => ini
  | .local => tgt
  | .none => pure none

/-! ## All drivers -/

inductive Drv | pn531 | pn532 | pn533 | rcs956 | acr122 | arygonA | arygonB | rcs380 | udp
  deriving DecidableEq, Repr

inductive Dir | initiator | target
  deriving DecidableEq, Repr

/-- what decides the code path of an exchange -/
structure Cfg where
  drv : Drv
  dir : Dir
  path : IPath          -- initiator: Type 1 / Type 2 / everything else
  settings : Bool       -- rcs380 initiator: Type A or B framing (third InSetProtocol)
  tt3 : Bool            -- target: activated as Type 3 Tag (`target.tt3_cmd`)
  hasData : Bool        -- data to send before receiving
  deriving Repr

def famOf : Drv → Fam
  | .pn531 | .arygonA => .pn531
  | .pn532 | .arygonB | .acr122 => .pn532
  | .pn533 => .pn533
  | _ => .rcs956

/-- host command codes of the logical steps of one exchange -/
def stepCodes (c : Cfg) : List Nat :=
  match c.drv, c.dir with
  | .udp, _ => []
  | .rcs380, .initiator => if c.settings ∨ c.path = .t2 then [0x00, 0x02, 0x02, 0x04] else [0x00, 0x02, 0x04]
  | .rcs380, .target => [0x48]
  | _, .initiator => [0x06, 0x08, 0x32, if c.path = .t1 then 0x40 else 0x42]
  | _, .target =>
    if c.tt3 then [0x08, 0x06, 0x08, 0x06, 0x06]
    else if c.hasData then [0x90, 0x88] else [0x88]

def codeAt (c : Cfg) (i : Nat) : Nat := (stepCodes c).getD i 0

def chipCommand (d : Drv) (cmd : Nat) (h : Host) : Py Bytes :=
  match d with
  | .acr122 => acrCommand cmd h
  | _ => pnCommand cmd h

/-- what the caller of the driver's exchange function sees; `none` is Python's `None` -/
def driverExchange (v : Variant) (c : Cfg) (brty : Bytes) (w : Nat → Host) (polls : List Host) : Py (Option Bytes) :=
  match c.drv, c.dir with
  | .udp, _ => udpExchange v brty c.hasData (w 0) (w 1) >>= fun d => pure (some d)
  | .rcs380, .initiator =>
    rcsSendCmdRecvRsp v (c.settings || c.path == .t2) (c.path == .t2) (fun i => rcsSend (codeAt c i) (w i))
  | .rcs380, .target => rcsSendRspRecvCmd (fun i => rcsSend (codeAt c i) (w i))
  | d, .initiator =>
    pnSendCmdRecvRsp v (famOf d) c.path (fun i => chipCommand d (codeAt c i) (w i)) >>= fun x => pure (some x)
  | d, .target =>
    (if c.tt3 then
      pnTgTt3 v (famOf d) (fun i => chipCommand d (codeAt c i) (w i)) (polls.map (chipCommand d 0x06))
     else pnTgOther c.hasData (fun i => chipCommand d (codeAt c i) (w i))) >>= fun x => pure (some x)

/-- `ContactlessFrontend.exchange` over an open device with an activated target -/
def exchange (v : Variant) (c : Cfg) (brty : Bytes) (w : Nat → Host) (polls : List Host) : Py (Option Bytes) :=
  let r := driverExchange v c brty w polls
  frontendExchange true (match c.dir with | .initiator => .remote | .target => .local) r r

end NfcVerif.ErrMap
