import NfcVerif.Model.PeerDispatch
import NfcVerif.Model.Collect
import NfcVerif.Model.Term
import NfcVerif.Model.Sap
/-!
# Reference definitions for the run-loop decisions of `nfc/llcp/llc.py` without a model counterpart (group LlcRun)

The models of the link controller work on PDU *constructors* (`Pdu.SPdu`, `Collect.Kind`, `Sap.Pdu`); the source
dispatches on the class constant `name` of the PDU object.  `nameOf` / `kindName` are that constant (`pdu.py`: `name =
"SYMM"`, .., an unknown PTYPE prints its four bits).  The remaining definitions are spec-style readings of LLCP 1.3
(section 4.3 link activation / 5.6 / the LLCP security chapter "Data Protection Setup") and of property C07 / C09 for
decisions the models take as given:

* the receive timeout of the symmetry procedure: the peer's link timeout plus a 10 ms margin;
* the key agreement proceeds only with a 64 octet ECPK and an 8 octet RN in the received DPS PDU (anything else is
  answered by an orderly link termination, C07);
* the SYMM counter and the idle back-off of the run loops;
* secure data transfer applies to UI and I PDUs only - on both sides of the link (C10: aggregation transparent).
-/
namespace NfcVerif.FnLlcRunRef
open NfcVerif NfcVerif.Pdu

/-! ## the class constant `name` -/

/-- `"{0:04b}".format(ptype)` for a four bit PTYPE -/
def bin4 (t : Nat) : String :=
  match t % 16 with
  | 0 => "0000" | 1 => "0001" | 2 => "0010" | 3 => "0011" | 4 => "0100" | 5 => "0101" | 6 => "0110" | 7 => "0111"
  | 8 => "1000" | 9 => "1001" | 10 => "1010" | 11 => "1011" | 12 => "1100" | 13 => "1101" | 14 => "1110" | _ => "1111"

/-- `pdu.name` of a PDU object -/
def nameOf : SPdu → String
  | .symm .. => "SYMM" | .pax .. => "PAX" | .ui .. => "UI" | .connect .. => "CONNECT" | .disc .. => "DISC"
  | .cc .. => "CC" | .dm .. => "DM" | .frmr .. => "FRMR" | .snl .. => "SNL" | .dps .. => "DPS" | .info .. => "I"
  | .rr .. => "RR" | .rnr .. => "RNR" | .unknown t _ _ _ => bin4 t

def nameOfPdu : Pdu → String
  | .simple q => nameOf q
  | .agf .. => "AGF"

/-- `pdu.name` of a queued PDU of `Model/Collect.lean` (`other`: an unknown PTYPE) -/
def kindName : Collect.Kind → String
  | .symm => "SYMM" | .pax => "PAX" | .agf => "AGF" | .ui => "UI" | .connect => "CONNECT" | .disc => "DISC"
  | .cc => "CC" | .dm => "DM" | .frmr => "FRMR" | .snl => "SNL" | .dps => "DPS" | .i => "I" | .rr => "RR"
  | .rnr => "RNR" | .other => "0010"

/-- `RAW_ACCESS_POINT, LOGICAL_DATA_LINK, DATA_LINK_CONNECTION = range(3)`; a SAP without sockets reports 0 -/
def modeCode : Collect.Mode → Int
  | .none => 0
  | .raw => 0
  | .ldl => 1
  | .dlc => 2

/-! ## run loops -/

/-- receive timeout of `exchange()` in milliseconds: the link timeout the peer announced plus a margin of 10 ms -/
def recvTimeoutMs (recvLto : Int) : Int := recvLto + 10

/-- the key agreement of secure data transfer proceeds only with a well-formed DPS PDU: ECPK of 64 octets (two
P-256 coordinates), RN of 8 octets -/
def dpsAcceptable (ecpk rn : Bytes) : Bool := decide (ecpk.length = 64) && decide (rn.length = 8)

/-- the SYMM counter of the run loops -/
def symmCount (symm : Int) (isSymm : Bool) : Int := if isSymm then symm + 1 else symm

/-- with nothing to send and ten SYMM PDUs seen the loop waits the long collect delay -/
def idleBackoff (nothing : Bool) (symm : Int) : Bool := nothing && decide (symm ≥ 10)

/-- secure data transfer covers UI and I PDUs only -/
def needsCrypto (sec : Bool) (name : String) : Bool := sec && (decide (name = "UI") || decide (name = "I"))

/-- the order in which `terminate()` visits the address table -/
def shutdownOrder : List Nat := (List.range 64).reverse

end NfcVerif.FnLlcRunRef
