import NfcVerif.Model.IsoDep
/-!
# C08: the ISO-DEP initiator with the three termination repairs of `fixes/C08` (0010 - 0012)

`Model/IsoDep.lean` (shared with C12) transcribes `IsoDepInitiator` with plain fuel for its three
loops: on the tree as found a card can keep each of them running for ever

* `_exchange`: `while` the answer is S(WTX) - no limit,
* command phase: `continue` after an R(ACK) with the other block number - not counted,
* response phase: `while data[0] & 0x10` - no limit on the number / size of chained blocks.

This file transcribes the same functions with one switch per repair (`Fix`), so that the
correspondence run can follow whatever tree it is pointed at:

* `wtx`  : WTXM outside 1..59 is `nfc.clf.ProtocolError`; the multipliers granted for one block are
  summed up and the exchange ends with `TIMEOUT_ERROR` when the sum exceeds
  `max_wtxm_sum = int(MAX_WTX_TIME / fwt) = 59 * 2^(14 - FWI)`,
* `ack`  : a retransmission after R(ACK) is only made while `i <= n_retry_nak + 1`, then `PROTOCOL_ERROR` (an R(NAK) is
  only sent while `i <= n_retry_nak`, so the retransmission that answers the card's R(ACK) to it is always made; only
  an endless sequence of R(ACK) is cut off),
* `chain`: a block with the chaining bit and no INF, or a response of more than 65538 octets, is
  `PROTOCOL_ERROR`.

With all switches off the functions are those of `Model/IsoDep.lean` (`Lemmas/IsoDepC08.lean`:
`xchgW_asFound`, `blockLoop_asFound`, `recvChain_asFound`); with all switches on
`Lemmas/IsoDepC08.lean` proves that no fuel is ever used up and bounds the number of frames.
-/
namespace NfcVerif.IsoDepR
open NfcVerif NfcVerif.IsoDep

/-- which of the repairs the tree contains -/
structure Fix where
  wtx : Bool
  ack : Bool
  chain : Bool
  deriving DecidableEq, Repr

def Fix.all : Fix := ⟨true, true, true⟩
def Fix.none : Fix := ⟨false, false, false⟩

/-- result of the repaired `_exchange`: as `IsoDep.Rx`, plus "too many waiting time extensions" -/
inductive RxW
  | data (b : Bytes) | timeout | transmission | protocol | fuel | waited
  deriving DecidableEq, Repr

/-- `len(data) > 1 and data[0] & 0xFE == 0xF2`: the multiplier `data[1] & 0x3F` of an S(WTX) request -/
def wtxmOf : Bytes → Option Nat
  | a :: b :: _ => if a &&& 0xFE = 0xF2 then some (b &&& 0x3F) else none
  | _ => none

/-- `int(MAX_WTX_TIME / fwt)` for `fwt = 4096 / 13.56E6 * 2**fwi`, FWI 15 read as 4 -/
def wtxLimit (fwi : Nat) : Nat := 59 * 2 ^ (14 - deriveFwi fwi)

/-- `IsoDepInitiator._exchange(data, timeout)`; `lim = none`: as found; `sum` = `wtxm_sum` -/
def xchgW {σ} (P : Peer σ) (lim : Option Nat) : Nat → Nat → World σ → Bytes → World σ × RxW
  | 0, _, w, _ => (w, .fuel)
  | f+1, sum, w, out =>
    match w.xchg P out with
    | (w', .data d) =>
      match wtxmOf d with
      | none => (w', .data d)
      | some m =>
        match lim with
        | none => xchgW P lim f sum w' d
        | some L =>
          if m = 0 ∨ m > 59 then (w', .protocol)
          else if sum + m > L then (w', .waited)
          else xchgW P lim f (sum + m) w' d
    | (w', .timeout) => (w', .timeout)
    | (w', .transmission) => (w', .transmission)
    | (w', .protocol) => (w', .protocol)
    | (w', .fuel) => (w', .fuel)

structure Cfg where
  fx : Fix
  /-- `max_wtxm_sum` -/
  lim : Nat
  /-- fuel of every loop (only the as-found loops can use it up) -/
  F : Nat
  deriving Repr

def Cfg.wlim (c : Cfg) : Option Nat := if c.fx.wtx then some c.lim else none

/-- the `for i in itertools.count(start=1)` loops; see `IsoDep.blockLoop` -/
def blockLoop {σ} (P : Peer σ) (c : Cfg) (n : Nat) (resend : Option Nat) (req rty : Bytes) :
    Nat → Nat → Bytes → World σ → World σ × Py Bytes
  | 0, _, _, w => (w, .error .outOfFuel)
  | f+1, i, out, w =>
    match xchgW P c.wlim c.F 0 w out with
    | (w', .data []) =>
      if i ≤ n then blockLoop P c n resend req rty f (i+1) rty w' else (w', .error (.tagCmd RECEIVE_ERROR))
    | (w', .data (a :: t)) =>
      if resend = some a then
        if c.fx.ack ∧ i > n + 1 then (w', .error (.tagCmd PROTOCOL_ERROR))
        else blockLoop P c n resend req rty f (i+1) req w'
      else (w', .ok (a :: t))
    | (w', .timeout) =>
      if i ≤ n then blockLoop P c n resend req rty f (i+1) rty w' else (w', .error (.tagCmd TIMEOUT_ERROR))
    | (w', .transmission) =>
      if i ≤ n then blockLoop P c n resend req rty f (i+1) rty w' else (w', .error (.tagCmd RECEIVE_ERROR))
    | (w', .protocol) => (w', .error (.tagCmd PROTOCOL_ERROR))
    | (w', .waited) => (w', .error (.tagCmd TIMEOUT_ERROR))
    | (w', .fuel) => (w', .error .outOfFuel)

/-- the loop over the command blocks; see `IsoDep.sendChunks` -/
def sendChunks {σ} (P : Peer σ) (c : Cfg) (nNak : Nat) : List Bytes → Nat → World σ → World σ × Nat × Py Bytes
  | [], pni, w => (w, pni, .error .unbound)
  | ch :: rest, pni, w =>
    let more := !rest.isEmpty
    let iblk := ((if more then 0x12 else 0x02) ||| pni) :: ch
    match blockLoop P c nNak (some (0xA2 ||| ((pni + 1) % 2))) iblk [0xB2 ||| pni] c.F 1 iblk w with
    | (w', .error e) => (w', pni, .error e)
    | (w', .ok []) => (w', pni, .error .index)
    | (w', .ok (a :: t)) =>
      if a &&& 0x01 ≠ pni then (w', pni, .error (.tagCmd PROTOCOL_ERROR))
      else if more then
        if a &&& 0xFE = 0xA2 then sendChunks P c nNak rest ((pni + 1) % 2) w'
        else (w', pni, .error (.tagCmd PROTOCOL_ERROR))
      else
        if a &&& 0xEE = 0x02 then (w', (pni + 1) % 2, .ok (a :: t))
        else (w', pni, .error (.tagCmd PROTOCOL_ERROR))

/-- `while data[0] & 0x10`; see `IsoDep.recvChain` -/
def recvChain {σ} (P : Peer σ) (c : Cfg) (nAck : Nat) : Nat → Nat → Bytes → Bytes → World σ → World σ × Nat × Py Bytes
  | 0, pni, _, _, w => (w, pni, .error .outOfFuel)
  | f+1, pni, data, resp, w =>
    match data with
    | [] => (w, pni, .error .index)
    | a :: inf =>
      if a &&& 0x10 = 0 then (w, pni, .ok resp)
      else if c.fx.chain ∧ (inf = [] ∨ resp.length > 65538) then (w, pni, .error (.tagCmd PROTOCOL_ERROR))
      else
        let ack := [0xA2 ||| pni]
        match blockLoop P c nAck none ack ack c.F 1 ack w with
        | (w', .error e) => (w', pni, .error e)
        | (w', .ok []) => (w', pni, .error .index)
        | (w', .ok (b :: t)) =>
          if b &&& 0x01 ≠ pni then (w', pni, .error (.tagCmd PROTOCOL_ERROR))
          else recvChain P c nAck f ((pni + 1) % 2) (b :: t) (resp ++ t) w'

/-- `IsoDepInitiator._exchange_command(command)` for `command is not None` -/
def exchangeCmd {σ} (P : Peer σ) (c : Cfg) (pcd : Pcd) (cmd : Bytes) (w : World σ) : World σ × Pcd × Py Bytes :=
  if pcd.miu = 0 then (w, pcd, .error .value)
  else if pcd.miu < 0 ∨ cmd = [] then (w, pcd, .error .unbound)
  else
    match sendChunks P c pcd.nNak (chunks pcd.miu.toNat cmd) pcd.pni w with
    | (w1, pni1, .error e) => (w1, { pcd with pni := pni1 }, .error e)
    | (w1, pni1, .ok d) =>
      match recvChain P c pcd.nAck c.F pni1 d (d.drop 1) w1 with
      | (w2, pni2, r) => (w2, { pcd with pni := pni2 }, r)

/-- `IsoDepInitiator.exchange(command)` for `command is not None` -/
def exchange {σ} (P : Peer σ) (c : Cfg) (pcd : Pcd) (cmd : Bytes) (w : World σ) : World σ × Pcd × Py Bytes :=
  match pcd.failed with
  | some e => (w, pcd, .error (.tagCmd e))
  | none =>
    match exchangeCmd P c pcd cmd w with
    | (w', pcd', .error (.tagCmd e)) => (w', { pcd' with failed := some e }, .error (.tagCmd e))
    | r => r

/-- frames needed at most by one `blockLoop` of the repaired initiator: `n + 2` rounds of at most `lim + 1` frames -/
def loopFrames (c : Cfg) (n : Nat) : Nat := (n + 2) * (c.lim + 1)

/-- frames needed at most by one `exchange` of the repaired initiator for a command of `len` octets -/
def exchFrames (c : Cfg) (pcd : Pcd) (len : Nat) : Nat :=
  len * loopFrames c pcd.nNak + 65539 * loopFrames c pcd.nAck

end NfcVerif.IsoDepR
