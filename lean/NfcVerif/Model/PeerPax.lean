import NfcVerif.Model.Pdu
import NfcVerif.Model.T3Emu
/-!
# Property C07, part 2: LLCP parameters in the general bytes, Type 3 Tag commands,
# and the exception flow from the decoders to `connect()`

* `activateGb`      the part of `LogicalLinkController.activate` (`llcp/llc.py`) that handles the
                    general bytes returned by `mac.activate()`: magic `46 66 6D`, minimum length,
                    `pdu.decode(b"\x00\x40" + gb[3:])`, the values copied into `cfg`.
                    `fix = false`: as found, a `DecodeError` of the TLV list leaves `activate()`;
                    `fix = true`: repaired (fixes/C07/0005), activation fails with `False`.
* `processCommandR` `Type3TagEmulation.process_command` (`tag/tt3.py`): `T3Emu.processCommand`
                    (model of the code as found, shared with C01) inside the `try/except
                    IndexError: return None` of the repair (fixes/C07/0006).
* exception flow    `llcExchange`, `runLoop`, `llcpConnect`, `cardConnect`, `connect`:
                    the `try/except` structure of `llc.exchange`, `run_as_initiator/target`,
                    `_llcp_connect`, `_card_connect` and `ContactlessFrontend.connect`
                    transcribed as handler tables (compared with the `ast` of the code on every run).
-/
namespace NfcVerif.Peer
open NfcVerif.Pdu

/-! ## general bytes -/

/-- the values `activate()` stores: rcvd-ver, send-miu, recv-lto, send-wks, send-lsc, llcp-dpc (`sec = False`) -/
structure LinkCfg where
  ver : Nat
  miu : Nat
  lto : Nat
  wks : Nat
  lsc : Nat
  deriving DecidableEq, Repr

def magic : Bytes := [0x46, 0x66, 0x6D]

/-- properties `version/miu/lto/wks/lsc` of the received PAX PDU -/
def cfgOfPax (ver miux wks lto opt : Option Nat) : LinkCfg :=
  { ver := ver.getD 0,
    miu := match miux with | some m => m + 128 | none => 128,
    lto := (lto.getD 10) * 10,
    wks := wks.getD 0,
    lsc := match opt with | some o => o % 4 | none => 0 }

/-- `activate()` after `gb = mac.activate(..)`; `none` = `return False` (link not activated) -/
def activateGb (fix : Bool) (gb : Option Bytes) : Py (Option LinkCfg) :=
  match gb with
  | none => .ok none
  | some gb =>
    if gb.isEmpty ∨ gb.take 3 ≠ magic ∨ gb.length < 6 then .ok none else
    match Impl.decode ([0x00, 0x40] ++ gb.drop 3) with
    | .error e => if fix ∧ e = .decodeError then .ok none else .error e
    | .ok (.simple (.pax _ _ ver miux wks lto opt)) => .ok (some (cfgOfPax ver miux wks lto opt))
    | .ok _ => .error .attr            -- `rcvd_pax.version` of another PDU class (unreachable, `pax_total`)

/-! ## Type 3 Tag emulation -/

/-- repaired `process_command`: `try: return self._process_command(cmd)  except IndexError: return None` -/
def processCommandR (e : T3Emu.Emu) (cmd : Bytes) : Py (Option Bytes × Bytes × List T3Emu.Call) :=
  match T3Emu.processCommand e cmd with
  | .error .index => .ok (none, e.store, [])
  | r => r

/-! ## exception flow -/

/-- subclasses of `nfc.clf.CommunicationError` -/
def isComm : Exc → Bool
  | .timeout | .transmission | .protocol | .brokenLink | .commError => true
  | _ => false

/-- `nfc.llcp.pdu.Error` -/
def isPduError : Exc → Bool
  | .decodeError | .encodeError => true
  | _ => false

/-- `IOError` (incl. `nfc.llcp.Error`) -/
def isIO : Exc → Bool
  | .io _ | .llcp _ | .connectRefused => true
  | _ => false

/-- how a call ends -/
inductive End
  | returned              -- normal return
  | raised (e : Exc)
  deriving DecidableEq, Repr

/-- what is known about the link when `run()` / `connect()` ends -/
structure Flow where
  ending : End
  terminated : Bool       -- `llc.terminate()` ran (MAC deactivated, all SAPs shut down)
  deriving DecidableEq, Repr

/-- `llc.exchange`: `except (nfc.clf.CommunicationError, pdu.Error): log` -> returns `None`;
`x` is the outcome of `pdu.encode` / `mac.exchange` / `pdu.decode`. `none` = the method returned `None`. -/
def llcExchange {α} (x : Py α) : Py (Option α) :=
  match x with
  | .ok a => .ok (some a)
  | .error e => if isComm e || isPduError e then .ok none else .error e

/-- one turn of `run_as_initiator` / `run_as_target` in which the exchange with the peer ended with
`x` and (if a PDU came back) `dispatch`+`collect` ended with `d`: the `try/except/finally` of the run
loop.  `.ok false` = the loop goes on. -/
def runTurn {α} (x : Py α) (d : α → Py Unit) : Py Bool × Bool :=
  -- (result: Ok true = returned after terminate, Ok false = continue; raised e), terminated?
  let body : Py Bool :=
    llcExchange x >>= fun r =>
    match r with
    | none => .ok true                       -- `return self.terminate(reason="link disruption")`
    | some a => d a >>= fun _ => .ok false
  match body with
  | .ok b => (.ok b, b)
  | .error .keyboardInterrupt => (.error .keyboardInterrupt, true)   -- terminate, re-raise
  | .error e => if isIO e then (.error .systemExit, true)            -- terminate, `raise SystemExit`
                else (.error e, false)                               -- no handler: terminate() is NOT reached

/-- `llc.run()` when the turn that ends it is `(x, d)` -/
def runLoop {α} (x : Py α) (d : α → Py Unit) : Option Flow :=
  match runTurn x d with
  | (.ok true, t) => some ⟨.returned, t⟩
  | (.ok false, _) => none                   -- still running
  | (.error e, t) => some ⟨.raised e, t⟩

/-- `ContactlessFrontend.connect`: `except IOError / UnsupportedTargetError / KeyboardInterrupt: return False` -/
def connectCatches (e : Exc) : Bool :=
  isIO e || e == .unsupportedTarget || e == .keyboardInterrupt

/-- `connect(llcp=..)` when `llc.activate` ends with `act` (`some true` = activated) and the run loop with `run` -/
def connectLlcp (act : Py Bool) (run : Option Flow) : Option Flow :=
  match act with
  | .error e => some ⟨if connectCatches e then .returned else .raised e, false⟩
  | .ok false => some ⟨.returned, false⟩      -- next round of the `while not terminate()` loop / returns None
  | .ok true =>
    match run with
    | none => none
    | some f =>
      match f.ending with
      | .returned => some f
      | .raised e => some ⟨if connectCatches e then .returned else .raised e, f.terminated⟩

/-- `_card_connect` loop body: `tag.process_command` outside the `try`, `send_response` inside:
`BrokenLinkError` -> break (on-release, return), other `CommunicationError` -> `tag_rsp = None`, continue -/
def cardTurn {α} (cmd : Py α) (xchg : Py Unit) : Option End :=
  match cmd with
  | .error e => some (if connectCatches e then .returned else .raised e)
  | .ok _ =>
    match xchg with
    | .ok _ => none
    | .error .brokenLink => some .returned
    | .error e => if isComm e then none else some (if connectCatches e then .returned else .raised e)

end NfcVerif.Peer
