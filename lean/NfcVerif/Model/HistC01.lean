import NfcVerif.Model.Tlv
import NfcVerif.Model.T3
import NfcVerif.Model.T4
/-!
# C01: histories of NDEF assignments through ONE tag object, with communication faults

An application assigns `tag.ndef.octets = data`; a state-changing command of the assignment fails
(`Fault`), the `TagCommandError` reaches the application, which assigns again - the same or another
message - through the same object.  The object keeps what it learned at activation (`Layout`, the
attribute / capability values) and, for Type 1 / Type 2 Tags, the memory reader with its two images:

* `_data_in_cache` (`RS.cache`): what the code wants on the tag, including the modifications of an
  attempt that failed;
* `_data_from_tag` (`RS.belief`): what the code believes to be on the tag.  `_write_to_tag` walks the
  write units in ascending order, sends a unit whose cache content differs from the belief and copies
  it into the belief only AFTER the command returned (`syncUnits`).

`RS.tag` is the real tag content (plain memory).  A `Fault ⟨k, late⟩` makes state-changing command
number `k` of the attempt fail: with `late = false` the tag never executes it (command lost, or refused
with an error status), with `late = true` the tag executes it but no answer arrives.

Type 3 and Type 4 Tag writers keep no image: every attempt re-reads the attribute block (Type 3) and
sends the whole message again, so an attempt is `T3.writeNdef` / `T4.writeNdef` with the fault applied to
its command list (`runWF`, `runUF`) on whatever the previous attempt left in memory.

`attempt`/`t3Attempt`/`t4Attempt` with `fault = none` are the writers of `Model/Tlv.lean`, `Model/T3.lean`,
`Model/T4.lean` (theorems `attempt_clean`, `runWF_none`, `runUF_none` in `Lemmas/HistC01*.lean`).
-/
namespace NfcVerif.Hist
open NfcVerif NfcVerif.Tlv NfcVerif.T34

structure Fault where
  k : Nat
  late : Bool
  deriving DecidableEq, Repr

/-- what a failed command raises: `Type<n>TagCommandError` (timeout / error status) -/
def faultErr : Exc := .tagCmd 0

/-! ## Type 1 / Type 2: memory reader with its write-back -/

structure RS where
  tag : Bytes
  belief : Bytes
  cache : Bytes
  deriving DecidableEq, Repr

/-- result of a `synchronize()`: state, commands the tag executed, the fault still pending, raised? -/
structure Sync where
  st : RS
  cmds : List Cmd
  fault : Option Fault
  failed : Bool
  deriving DecidableEq, Repr

/-- `_write_to_tag` over the unit numbers `is` -/
def syncUnits (u : Nat) : List Nat → RS → Option Fault → Sync
  | [], st, f => ⟨st, [], f, false⟩
  | i :: is, st, f =>
    if sliceN st.cache (i * u) (i * u + u) ≠ sliceN st.belief (i * u) (i * u + u) then
      match f with
      | some ⟨0, late⟩ =>
        -- this command fails: the exception leaves `_write_to_tag`, the belief is not updated
        if late then ⟨{ st with tag := writeAt st.tag (i * u) (sliceN st.cache (i * u) (i * u + u)) },
                      [(i * u, sliceN st.cache (i * u) (i * u + u))], none, true⟩
        else ⟨st, [], none, true⟩
      | _ =>
        let r := syncUnits u is
          { tag := writeAt st.tag (i * u) (sliceN st.cache (i * u) (i * u + u)),
            belief := writeAt st.belief (i * u) (sliceN st.cache (i * u) (i * u + u)),
            cache := st.cache }
          (f.map fun x => ⟨x.k - 1, x.late⟩)
        ⟨r.st, (i * u, sliceN st.cache (i * u) (i * u + u)) :: r.cmds, r.fault, r.failed⟩
    else syncUnits u is st f

/-- `synchronize()` -/
def sync (u : Nat) (st : RS) (f : Option Fault) : Sync :=
  syncUnits u (List.range ((st.belief.length + u - 1) / u)) st f

/-- one `tag.ndef.octets = data` -/
structure Att where
  st : RS
  cmds : List Cmd
  res : Py Unit
  deriving DecidableEq, Repr

/-- `_write_ndef_data` on the object's memory reader (an error of the image modification itself - an
address beyond the physical memory - leaves the state of the last `synchronize()`; it cannot happen on
a well-formed layout) -/
def writeFrom (c : Cfg) (L : Layout) (st : RS) (data : Bytes) (f : Option Fault) : Att :=
  match phase1 c st.cache L.off with
  | .error e => ⟨st, [], .error e⟩
  | .ok m1 =>
    let s1 := sync c.unit { st with cache := m1 } f
    if s1.failed then ⟨s1.st, s1.cmds, .error faultErr⟩ else
    match phase2 c m1 L.off L.skip L.areaEnd data with
    | .error e => ⟨s1.st, s1.cmds, .error e⟩
    | .ok m2 =>
      let s2 := sync c.unit { s1.st with cache := m2 } s1.fault
      if s2.failed then ⟨s2.st, s1.cmds ++ s2.cmds, .error faultErr⟩ else
      match phase3a c m2 L.off data.length with
      | .error e => ⟨s2.st, s1.cmds ++ s2.cmds, .error e⟩
      | .ok m3a =>
        -- `synchronize()` between preparation and length field only in the 3-byte format; with the 1-byte
        -- format the image is unchanged and the call (not made) would send nothing
        let s3a := sync c.unit { s2.st with cache := m3a } s2.fault
        if s3a.failed then ⟨s3a.st, s1.cmds ++ s2.cmds ++ s3a.cmds, .error faultErr⟩ else
        match phase3 c m3a L.off data.length with
        | .error e => ⟨s3a.st, s1.cmds ++ s2.cmds ++ s3a.cmds, .error e⟩
        | .ok m3 =>
          let s3 := sync c.unit { s3a.st with cache := m3 } s3a.fault
          ⟨s3.st, s1.cmds ++ s2.cmds ++ s3a.cmds ++ s3.cmds, if s3.failed then .error faultErr else .ok ()⟩

/-- the `octets` setter of `nfc/tag/__init__.py` on the object whose activation found `L` -/
def attempt (c : Cfg) (L : Layout) (st : RS) (data : Bytes) (f : Option Fault) : Att :=
  if ¬ L.writeable then ⟨st, [], .error .attr⟩
  else if (data.length : Int) > L.cap then ⟨st, [], .error .value⟩
  else writeFrom c L st data f

/-- a freshly activated object: all three images are the tag content -/
def fresh (m : Bytes) : RS := ⟨m, m, m⟩

/-- a list of attempts through the same object: final state and the record of every attempt -/
def history (c : Cfg) (L : Layout) : RS → List (Bytes × Option Fault) → RS × List (List Cmd × Py Unit)
  | st, [] => (st, [])
  | st, (d, f) :: rest =>
    let a := attempt c L st d f
    let r := history c L a.st rest
    (r.1, (a.cmds, a.res) :: r.2)



/-! ## Type 1 / Type 2 with the repair of finding `t12-empty-after-unacknowledged-length-write`

The repaired memory readers remember the unit of a write command that did not return (`_unconfirmed`): the unit
is sent again at the next `synchronize()` even when cache and picture agree, and leaves the set when a write of
it has been acknowledged.

    if data != self._data_from_tag[i:i+u] or i in self._unconfirmed:
        self._unconfirmed.add(i); self._tag.write(...); self._data_from_tag[i:i+u] = data
        self._unconfirmed.discard(i)
-/

structure RSR where
  tag : Bytes
  belief : Bytes
  cache : Bytes
  dirty : List Nat
  deriving DecidableEq, Repr

structure SyncR where
  st : RSR
  cmds : List Cmd
  fault : Option Fault
  failed : Bool
  deriving DecidableEq, Repr

def syncUnitsR (u : Nat) : List Nat → RSR → Option Fault → SyncR
  | [], st, f => ⟨st, [], f, false⟩
  | i :: is, st, f =>
    if sliceN st.cache (i * u) (i * u + u) ≠ sliceN st.belief (i * u) (i * u + u) ∨ i ∈ st.dirty then
      match f with
      | some ⟨0, late⟩ =>
        if late then ⟨{ st with tag := writeAt st.tag (i * u) (sliceN st.cache (i * u) (i * u + u)),
                                dirty := i :: st.dirty.filter (· ≠ i) },
                      [(i * u, sliceN st.cache (i * u) (i * u + u))], none, true⟩
        else ⟨{ st with dirty := i :: st.dirty.filter (· ≠ i) }, [], none, true⟩
      | _ =>
        let r := syncUnitsR u is
          { tag := writeAt st.tag (i * u) (sliceN st.cache (i * u) (i * u + u)),
            belief := writeAt st.belief (i * u) (sliceN st.cache (i * u) (i * u + u)),
            cache := st.cache, dirty := st.dirty.filter (· ≠ i) }
          (f.map fun x => ⟨x.k - 1, x.late⟩)
        ⟨r.st, (i * u, sliceN st.cache (i * u) (i * u + u)) :: r.cmds, r.fault, r.failed⟩
    else syncUnitsR u is st f

def syncR (u : Nat) (st : RSR) (f : Option Fault) : SyncR :=
  syncUnitsR u (List.range ((st.belief.length + u - 1) / u)) st f

structure AttR where
  st : RSR
  cmds : List Cmd
  res : Py Unit
  deriving DecidableEq, Repr

def writeFromR (c : Cfg) (L : Layout) (st : RSR) (data : Bytes) (f : Option Fault) : AttR :=
  match phase1 c st.cache L.off with
  | .error e => ⟨st, [], .error e⟩
  | .ok m1 =>
    let s1 := syncR c.unit { st with cache := m1 } f
    if s1.failed then ⟨s1.st, s1.cmds, .error faultErr⟩ else
    match phase2 c m1 L.off L.skip L.areaEnd data with
    | .error e => ⟨s1.st, s1.cmds, .error e⟩
    | .ok m2 =>
      let s2 := syncR c.unit { s1.st with cache := m2 } s1.fault
      if s2.failed then ⟨s2.st, s1.cmds ++ s2.cmds, .error faultErr⟩ else
      match phase3a c m2 L.off data.length with
      | .error e => ⟨s2.st, s1.cmds ++ s2.cmds, .error e⟩
      | .ok m3a =>
        let s3a := syncR c.unit { s2.st with cache := m3a } s2.fault
        if s3a.failed then ⟨s3a.st, s1.cmds ++ s2.cmds ++ s3a.cmds, .error faultErr⟩ else
        match phase3 c m3a L.off data.length with
        | .error e => ⟨s3a.st, s1.cmds ++ s2.cmds ++ s3a.cmds, .error e⟩
        | .ok m3 =>
          let s3 := syncR c.unit { s3a.st with cache := m3 } s3a.fault
          ⟨s3.st, s1.cmds ++ s2.cmds ++ s3a.cmds ++ s3.cmds, if s3.failed then .error faultErr else .ok ()⟩

def attemptR (c : Cfg) (L : Layout) (st : RSR) (data : Bytes) (f : Option Fault) : AttR :=
  if ¬ L.writeable then ⟨st, [], .error .attr⟩
  else if (data.length : Int) > L.cap then ⟨st, [], .error .value⟩
  else writeFromR c L st data f

def freshR (m : Bytes) : RSR := ⟨m, m, m, []⟩

def historyR (c : Cfg) (L : Layout) : RSR → List (Bytes × Option Fault) → RSR × List (List Cmd × Py Unit)
  | st, [] => (st, [])
  | st, (d, f) :: rest =>
    let a := attemptR c L st d f
    let r := historyR c L a.st rest
    (r.1, (a.cmds, a.res) :: r.2)

/-! ## what a fresh reader reports at the end of a history

`Tlv.readNdef` transcribes the readers as they were before the repair "TLVs that exceed the data area are not
accepted": the tree's readers now return `None` when the NDEF TLV's length field or value is not stored
completely inside the data area (Type 2: `head > end or len(ndef) > len(room)`; Type 1: `read_tlv` gives up at
`end`), and the Type 1 reader returns `None` when the tag stops answering in the middle of a TLV.  On the images
the theorems speak about (a completed write on a well-formed layout) the guard is true; it only matters for the
torn images an executed-but-unacknowledged command can leave behind. -/
def readBack (c : Cfg) (m : Bytes) : Py (Option Layout) :=
  match readNdef c m with
  | .error (.tagCmd n) => if c.t1 then .ok none else .error (.tagCmd n)
  | .error e => .error e
  | .ok none => .ok none
  | .ok (some L) =>
    let head := L.off + (if m[L.off + 1]? = some 255 then 4 else 2)
    if head ≤ L.areaEnd ∧ L.ndef.length ≤ countFree L.skip head L.areaEnd then .ok (some L) else .ok none

/-! ## Type 3 -/

/-- `runW` with a fault: the reader-side checks of a command come first (they raise before anything is sent) -/
def runWF (m : Bytes) : List T3.WCmd → Option Fault → T3.Trace
  | [], _ => ⟨[], m, .ok ()⟩
  | c :: cs, f =>
    match T3.sendW m c with
    | .error e => ⟨[], m, .error e⟩
    | .ok m' =>
      match f with
      | some ⟨0, late⟩ => if late then ⟨[c], m', .error faultErr⟩ else ⟨[], m, .error faultErr⟩
      | _ => let t := runWF m' cs (f.map fun x => ⟨x.k - 1, x.late⟩); ⟨c :: t.sent, t.mem, t.res⟩

/-- `Type3Tag.NDEF._write_ndef_data` with a fault -/
def t3Write (m data : Bytes) (f : Option Fault) : T3.Trace :=
  match T3.readBlocks m 0 1 >>= T3.decodeAttr with
  | .ok (some a) => if a.nbw = 0 then T3.writeNdef m data else runWF m (T3.planWrite a data) f
  | _ => T3.writeNdef m data

/-- the setter on the object that saw `seen` at activation; the tag now holds `m` -/
def t3Attempt (seen : Seen) (m data : Bytes) (f : Option Fault) : T3.Trace :=
  if seen.writeable = false then ⟨[], m, .error .attr⟩
  else if (data.length : Int) > seen.capacity then ⟨[], m, .error .value⟩
  else t3Write m data f

def t3History (seen : Seen) : Bytes → List (Bytes × Option Fault) → Bytes × List (List T3.WCmd × Py Unit)
  | m, [] => (m, [])
  | m, (d, f) :: rest =>
    let t := t3Attempt seen m d f
    let r := t3History seen t.mem rest
    (r.1, (t.sent, t.res) :: r.2)

/-! ## Type 4 -/

def runUF (c : T4.Card) (file : Bytes) : List T4.UCmd → Option Fault → T4.Trace
  | [], _ => ⟨[], file, .ok ()⟩
  | u :: us, f =>
    match T4.sendU c file u with
    | .error e => ⟨[], file, .error e⟩
    | .ok file' =>
      match f with
      | some ⟨0, late⟩ => if late then ⟨[u], file', .error faultErr⟩ else ⟨[], file, .error faultErr⟩
      | _ => let t := runUF c file' us (f.map fun x => ⟨x.k - 1, x.late⟩); ⟨u :: t.sent, t.file, t.res⟩

/-- `Type4Tag.NDEF._write_ndef_data` with a fault, on the file content `file` -/
def t4Write (v : T4.Variant) (c : T4.Card) (i : T4.Info) (file data : Bytes) (f : Option Fault) : T4.Trace :=
  if data.length ≥ 256 ^ i.nlenSize then ⟨[], file, .error .struct⟩
  else runUF c file (T4.planWrite v i data) f

def t4Attempt (v : T4.Variant) (c : T4.Card) (nd : T4.Ndef) (file data : Bytes) (f : Option Fault) : T4.Trace :=
  if nd.seen.writeable = false then ⟨[], file, .error .attr⟩
  else if (data.length : Int) > nd.seen.capacity then ⟨[], file, .error .value⟩
  else t4Write v c nd.info file data f

def t4History (v : T4.Variant) (c : T4.Card) (nd : T4.Ndef) :
    Bytes → List (Bytes × Option Fault) → Bytes × List (List T4.UCmd × Py Unit)
  | file, [] => (file, [])
  | file, (d, f) :: rest =>
    let t := t4Attempt v c nd file d f
    let r := t4History v c nd t.file rest
    (r.1, (t.sent, t.res) :: r.2)

end NfcVerif.Hist
