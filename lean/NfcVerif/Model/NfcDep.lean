import NfcVerif.Py
/-!
# NFC-DEP data exchange (property C04)

Transcription of `/repo/src/nfc/dep.py`:

* the PDU codec (`DEP_REQ/DEP_RES`, `DSL`, `RLS`, `ATR`, `PSL` `encode/decode`,
  `encode_frame/decode_frame` of both roles)                    -- section *codec*
* the information-unit sizes computed by `activate()`            -- section *activation*
* `Target.exchange` / `send_dep_res_recv_dep_req` / `send_res_recv_req` as an
  explicit state machine `tRx` that consumes one received frame and produces
  the next response (the Target is always blocked in `clf.exchange` between
  two frames)                                                    -- section *target*
* `Initiator.exchange` / `send_dep_req_recv_dep_res` / `request_attention` /
  `request_retransmission` / `send_req_recv_res` / `deactivate` in direct
  style, generic over the peer (`Peer σ`), so that the same code runs against
  the Target machine or against a scripted responder            -- section *initiator*
* the air: a fault script `List Fault` consumed one element per frame that
  crosses the air (`d` deliver, `l` lose, `c` corrupt, `x` lose and let the
  deadline of the running `send_dep_req_recv_dep_res` expire).

The state machines work on decoded PDUs (`Pdu`); the byte codec is modelled
separately and `decodeFrame (encodeFrame p) = p` is a theorem
(`Lemmas/NfcDepCodec`), the driver prints the encoded frames.

`Variant` selects, per known defect, the behaviour *as found* (`false`) or
*repaired* (`true`): F20 Target MIU ignores the DID byte, F26 ATN without DID,
F27 retransmitted ACK rejected, F40 DSL/RLS during the first Target.exchange, F41 repeated RTOX
request handed to Target.exchange as a new request.
-/
namespace NfcVerif.NfcDep

/-! ## PDUs -/

def fINF : Nat := 0
def fMORE : Nat := 1
def fACK : Nat := 4
def fNAK : Nat := 5
def fATN : Nat := 8
def fTOX : Nat := 9

/-- decoded PDU, the same shape for requests and responses -/
inductive Pdu
  | dep (fmt pni : Nat) (did nad : Option Nat) (data : Bytes)
  | dsl (did : Option Nat)
  | rls (did : Option Nat)
  | atr (body : Bytes)      -- everything after the two code bytes
  | psl (args : Bytes)
  deriving DecidableEq, Repr, Inhabited

inductive Kind | dep | dsl | rls | atr | psl deriving DecidableEq, Repr

def Pdu.kind : Pdu → Kind
  | .dep .. => .dep | .dsl _ => .dsl | .rls _ => .rls | .atr _ => .atr | .psl _ => .psl

/-- the `.did` attribute of the PDU object (`ATR.did = data[12]`, `PSL.did = data[2]`) -/
def Pdu.didAttr : Pdu → Option Nat
  | .dep _ _ did _ _ => did
  | .dsl did => did
  | .rls did => did
  | .atr body => body[10]?
  | .psl args => args[0]?

def optByte : Option Nat → Bytes
  | none => []
  | some b => [b]

def flag (o : Option Nat) (v : Nat) : Nat := if o.isSome then v else 0

/-- `PDU.encode()`; `req = true` for the request classes (D4 xx), else D5 xx -/
def encodePdu (req : Bool) : Pdu → Bytes
  | .dep fmt pni did nad data =>
    [if req then 0xD4 else 0xD5, if req then 6 else 7, fmt * 16 + flag nad 8 + flag did 4 + pni]
      ++ optByte did ++ optByte nad ++ data
  | .dsl did => [if req then 0xD4 else 0xD5, if req then 8 else 9] ++ optByte did
  | .rls did => [if req then 0xD4 else 0xD5, if req then 10 else 11] ++ optByte did
  | .atr body => [if req then 0xD4 else 0xD5, if req then 0 else 1] ++ body
  | .psl args => [if req then 0xD4 else 0xD5, if req then 4 else 5] ++ args

/-- number of transport data bytes of the frame that carries the PDU -/
def Pdu.tlen (p : Pdu) : Nat := (encodePdu true p).length

/-- `encode_frame`: `struct.pack("B", len(frame) + 1)` raises above 255 -/
def encodeFrame (b106 : Bool) (req : Bool) (p : Pdu) : Py Bytes :=
  let body := encodePdu req p
  if body.length + 1 > 255 then .error .struct
  else .ok ((if b106 then [0xF0] else []) ++ [body.length + 1] ++ body)

/-- `DEP_REQ_RES.decode` after the code bytes were recognised; `d` = frame without the code -/
def decodeDep (d : Bytes) : Py Pdu :=
  match d with
  | [] => .error .protocol
  | pfb :: r1 =>
    let fmt := pfb / 16
    let pni := pfb % 4
    let hasNad := (pfb / 8) % 2 = 1
    let hasDid := (pfb / 4) % 2 = 1
    if hasDid then
      match r1 with
      | [] => .error .protocol
      | did :: r2 =>
        if hasNad then
          match r2 with
          | [] => .error .protocol
          | nad :: r3 => .ok (.dep fmt pni (some did) (some nad) r3)
        else .ok (.dep fmt pni (some did) none r2)
    else
      if hasNad then
        match r1 with
        | [] => .error .protocol
        | nad :: r3 => .ok (.dep fmt pni none (some nad) r3)
      else .ok (.dep fmt pni none none r1)

/-- `DSL_REQ_RES.decode`; `d` = frame without the code -/
def decodeDsl (mk : Option Nat → Pdu) (d : Bytes) : Py Pdu :=
  match d with
  | [] => .ok (mk none)
  | [did] => .ok (mk (some did))
  | _ => .error .protocol

/-- `decode_frame` of the Target (`req = true`, codes D4 00/04/06/08/0A) or of the
Initiator (`req = false`, D5 01/05/07/09/0B).  `natr`/`npsl` are the fixed sizes
required by the tuple unpacking of `ATR_*.decode` (14/15) and `PSL_*` (3/1). -/
def decodeFrameAux (b106 : Bool) (req : Bool) (frame : Bytes) : Py Pdu :=
  (if b106 then
    match frame with
    | [] => .error .index
    | sb :: r => if sb ≠ 0xF0 then .error .protocol else .ok r
   else .ok frame) >>= fun f1 =>
  match f1 with
  | [] => .error .index
  | len :: f2 =>
    if f1.length ≠ len then .error .protocol else
    if f2.length < 2 then .error .transmission else
    match f2 with
    | c0 :: c1 :: d =>
      if c0 ≠ (if req then 0xD4 else 0xD5) then .error .protocol else
      let k := if req then c1 else c1 - 1
      if ¬ req ∧ c1 = 0 then .error .protocol else
      if k = 6 then decodeDep d
      else if k = 8 then decodeDsl .dsl d
      else if k = 10 then decodeDsl .rls d
      else if k = 0 then
        -- `nfcid3, (did, bs, br, pp[, to]) = data[2:12], data[12:16|17]`
        -- `if len(data) < 16 | 17: raise ProtocolError`
        if d.length < (if req then 14 else 15) then .error .protocol else .ok (.atr d)
      else if k = 4 then
        -- `cls(*data[2:])`: TypeError -> ProtocolError
        if d.length ≠ (if req then 3 else 1) then .error .protocol else .ok (.psl d)
      else .error .protocol
    | _ => .error .transmission

/-- `decode_frame`: `if len(frame) < (2 if brty == '106A' else 1): raise TransmissionError`, then as above -/
def decodeFrame (b106 : Bool) (req : Bool) (frame : Bytes) : Py Pdu :=
  if frame.length < (if b106 then 2 else 1) then .error .transmission else decodeFrameAux b106 req frame

/-! ## Activation: information unit sizes -/

/-- `ATR_REQ_RES.lr` -/
def lrTable (i : Nat) : Nat :=
  match i % 4 with
  | 0 => 64 | 1 => 128 | 2 => 192 | _ => 254

/-- `Initiator.activate`: `miu = atr_res.lr - 3 - int(did is not None) - int(nad is not None)` -/
def iMiu (lrt : Nat) (did nad : Option Nat) : Nat :=
  lrTable lrt - 3 - flag did 1 - flag nad 1

/-- `Target.activate`: `miu = atr_req.lr - 3` (as found, F20) or `- int(did > 0)` (repaired) -/
def tMiu (f20 : Bool) (lri : Nat) (tdid : Option Nat) : Nat :=
  if f20 then lrTable lri - 3 - flag tdid 1 else lrTable lri - 3

/-- `Target.activate`: `did = atr_req.did if atr_req.did > 0 else None`,
`atr_req.did = 0 if Initiator.did is None else Initiator.did` -/
def tDidOf (idid : Option Nat) : Option Nat :=
  match idid with
  | none => none
  | some 0 => none
  | some d => some d

/-! ## Configuration -/

/-- `true` = repaired behaviour, `false` = as found -/
structure Variant where
  f20 : Bool
  f26 : Bool
  f27 : Bool
  f40 : Bool
  f41 : Bool   -- a repeated RTOX request is answered with the saved response (not handed to `exchange`)
  deriving DecidableEq, Repr

def Variant.repaired : Variant := ⟨true, true, true, true, true⟩
def Variant.asFound : Variant := ⟨false, false, false, false, false⟩

structure Cfg where
  b106 : Bool
  idid : Option Nat
  inad : Option Nat
  tdid : Option Nat
  imiu : Nat
  tmiu : Nat
  v : Variant
  deriving Repr

/-! ## Target -/

inductive Rx
  | frame (p : Pdu)
  | corrupt             -- `clf.exchange` raised TransmissionError
  deriving Repr

inductive TLoc
  | listen                       -- `clf.listen` has not yet seen the first DEP_REQ
  | first                        -- `exchange(None)`: `send_dep_res_recv_dep_req(None)`
  | sending (data : Bytes)       -- send loop, `send_data` still including the chunk in flight
  | receiving (acc : Bytes)      -- receive loop, ACK in flight, `recv_data = acc`
  deriving DecidableEq, Repr

inductive TStatus
  | running
  | ended                        -- the application has no further payload and stopped calling
  | retNone                      -- `exchange` returned None (DSL/RLS)
  | raised (e : Exc)             -- `exchange` raised
  deriving DecidableEq, Repr

structure TState where
  pni : Option Nat
  loc : TLoc
  depRes : Option Pdu            -- `dep_res` of the running `send_dep_res_recv_dep_req`
  tosend : List Bytes            -- payloads the application still wants to send
  got : List Bytes               -- what `exchange` returned so far
  status : TStatus
  deriving Repr

def TState.init (pt : List Bytes) : TState :=
  { pni := none, loc := .listen, depRes := none, tosend := pt, got := [], status := .running }

/-- `dep_res is not None and dep_res.pfb.fmt == DEP_RES.TimeoutExtension` -/
def TState.rtoxPending (t : TState) : Bool :=
  match t.depRes with
  | some (.dep f _ _ _ _) => f == fTOX
  | _ => false

def TState.die (t : TState) (e : Exc) : TState × Option Pdu := ({ t with status := .raised e }, none)

/-- send the next chunk of `data` (`Target.exchange` send loop body up to the call);
`encode_frame` raises `struct.error` when the frame does not fit the length byte -/
def tSendChunk (c : Cfg) (t : TState) (pni : Nat) (data : Bytes) : TState × Option Pdu :=
  let res := Pdu.dep (if data.length > c.tmiu then fMORE else fINF) pni c.tdid none (data.take c.tmiu)
  if res.tlen + 1 > 255 then ({ t with pni := some pni, loc := .sending data, depRes := some res }).die .struct
  else ({ t with pni := some pni, loc := .sending data, depRes := some res }, some res)

/-- `while req.pfb.fmt == MoreInformation` loop head with `recv_data = acc`, then the
application: record the payload, call `exchange(next payload)` -/
def tRecv (c : Cfg) (t : TState) (pni : Nat) (acc : Bytes) (fmt : Nat) (data : Bytes) : TState × Option Pdu :=
  if fmt = fMORE then
    let ack := Pdu.dep fACK pni c.tdid none []
    ({ t with pni := some pni, loc := .receiving (acc ++ data), depRes := some ack }, some ack)
  else
    let t := { t with pni := some pni, got := t.got ++ [acc ++ data] }
    match t.tosend with
    | [] => ({ t with status := .ended }, none)
    | p :: ps =>
      if p = [] then ({ t with tosend := ps }).die .value
      else tSendChunk c { t with tosend := ps } pni p

/-- `send_dep_res_recv_dep_req` returned `req` to `exchange` -/
def tAccept (c : Cfg) (t : TState) (fmt rpni : Nat) (data : Bytes) : TState × Option Pdu :=
  match t.loc with
  | .listen => (t, none)
  | .first => tRecv c t 0 [] fmt data
  | .sending sd =>
    let pni := ((t.pni.getD 0) + 1) % 4
    if sd.length > c.tmiu ∧ fmt ≠ fACK then ({ t with pni := some pni }).die .protocol
    else if rpni ≠ pni then ({ t with pni := some pni }).die .protocol
    else
      let rest := sd.drop c.tmiu
      if rest ≠ [] then tSendChunk c t pni rest
      else tRecv c t pni [] fmt data
  | .receiving acc =>
    let pni := ((t.pni.getD 0) + 1) % 4
    if rpni ≠ pni then ({ t with pni := some pni }).die .protocol
    else tRecv c t pni acc fmt data

/-- one frame received by the Target (it is blocked in `clf.exchange`/`clf.listen`) -/
def tRx (c : Cfg) (t : TState) : Rx → TState × Option Pdu
  | .corrupt => (t, none)
  | .frame req =>
    if t.status ≠ .running then (t, none) else
    match t.loc, req with
    | .listen, .dep .. =>
      -- `listen` returns with the first DEP_REQ, `exchange(None)` starts
      tRxActive { t with loc := .first } req
    | .listen, _ => (t, none)
    | _, _ => tRxActive t req
where
  tRxActive (t : TState) (req : Pdu) : TState × Option Pdu :=
    if req.didAttr ≠ c.tdid then (t, none) else
    match req with
    | .dsl _ =>
      if t.loc = .first ∧ ¬ c.v.f40 then ({ t with status := .raised .attr }, some (.dsl c.tdid))
      else ({ t with status := .retNone }, some (.dsl c.tdid))
    | .rls _ =>
      if t.loc = .first ∧ ¬ c.v.f40 then ({ t with status := .raised .attr }, some (.rls c.tdid))
      else ({ t with status := .retNone }, some (.rls c.tdid))
    | .dep fmt pni _ _ data =>
      if fmt = fATN then (t, some (.dep fATN 0 c.tdid none []))
      else if fmt = fNAK then (t, t.depRes)
      else if fmt = fTOX then
        -- as found the RTOX request is always returned to the caller; repaired (F41): only to
        -- `send_timeout_extension`, a repeated one gets the saved response again
        if c.v.f41 = true ∧ t.rtoxPending = false then (t, t.depRes) else tAccept c t fmt pni data
      else if t.pni = some pni then (t, t.depRes)
      else tAccept c t fmt pni data
    | _ => (t, none)

/-! ## Air and Initiator -/

inductive Fault | d | l | c | x deriving DecidableEq, Repr

/-- the other end of the air as seen by the Initiator -/
structure Peer (σ : Type) where
  rx : σ → Rx → σ × Option Pdu

def targetPeer (c : Cfg) : Peer TState := ⟨tRx c⟩

/-- a responder that answers the n-th delivered frame with the n-th entry -/
def scriptedPeer : Peer (List (Option Pdu)) :=
  ⟨fun s rx => match rx with
    | .corrupt => (s, none)
    | .frame _ => match s with
      | [] => ([], none)
      | r :: rest => (rest, r)⟩

structure Wire where
  req : Bool
  pdu : Pdu
  fault : Fault
  deriving Repr

structure Air (σ : Type) where
  script : List Fault
  peer : σ
  expired : Bool
  wire : List Wire          -- most recent first
  deriving Repr

def Air.next {σ} (a : Air σ) : Fault × Air σ :=
  match a.script with
  | [] => (.d, a)
  | f :: s => (f, { a with script := s })

def isComm : Exc → Bool
  | .timeout | .transmission | .protocol | .brokenLink | .unsupportedTarget | .commError => true
  | _ => false

section initiator
variable {σ : Type} (P : Peer σ) (c : Cfg)

/-- `send_req_recv_res`: one command frame out, one response frame in -/
def xfer (a : Air σ) (req : Pdu) : Air σ × Py Pdu :=
  if req.tlen + 1 > 255 then (a, .error .struct) else
  let f1 := a.next.1
  let a := { a.next.2 with wire := ⟨true, req, f1⟩ :: a.wire }
  match f1 with
  | .l => (a, .error .timeout)
  | .x => ({ a with expired := true }, .error .timeout)
  | .c => ({ a with peer := (P.rx a.peer .corrupt).1 }, .error .timeout)
  | .d =>
    let r := P.rx a.peer (.frame req)
    let a := { a with peer := r.1 }
    match r.2 with
    | none => (a, .error .timeout)
    | some res =>
      let f2 := a.next.1
      let a := { a.next.2 with wire := ⟨false, res, f2⟩ :: a.wire }
      match f2 with
      | .l => (a, .error .timeout)
      | .x => ({ a with expired := true }, .error .timeout)
      | .c => (a, .error .transmission)
      | .d => if res.kind ≠ req.kind then (a, .error .protocol) else (a, .ok res)

def _root_.NfcVerif.NfcDep.Pdu.fmt? : Pdu → Option Nat
  | .dep fmt _ _ _ _ => some fmt
  | _ => none

def atnPdu : Pdu := if c.v.f26 then .dep fATN 0 c.idid none [] else .dep fATN 0 none none []

/-- `request_attention(self, n, rwt, deadline)` -/
def reqAttention : Nat → Air σ → Air σ × Py Unit
  | 0, a => (a, .error .protocol)
  | n+1, a =>
    if a.expired then (a, .error .timeout) else
    match xfer P a (atnPdu c) with
    | (a', .error e) => if isComm e then reqAttention n a' else (a', .error e)
    | (a', .ok (.dep fmt _ _ _ _)) =>
      if fmt = fTOX then (a', .error .protocol)
      else if fmt ≠ fATN then (a', .error .protocol)
      else (a', .ok ())
    | (a', .ok _) => (a', .error .attr)

/-- `request_retransmission(self, n, rwt, deadline)`; NAK carries `self.pni`; `chained`: the
outstanding request `req.pfb.fmt == MoreInformation` (repaired F27: an ACK is then accepted) -/
def reqRetrans (pni : Nat) (chained : Bool) : Nat → Air σ → Air σ × Py Pdu
  | 0, a => (a, .error .protocol)
  | n+1, a =>
    if a.expired then (a, .error .timeout) else
    match xfer P a (.dep fNAK pni c.idid c.inad []) with
    | (a', .error e) => if isComm e then reqRetrans pni chained n a' else (a', .error e)
    | (a', .ok (.dep fmt rp did nad data)) =>
      if fmt = fTOX then (a', .error .protocol)
      else if fmt = fINF ∨ fmt = fMORE ∨ (c.v.f27 ∧ chained ∧ fmt = fACK) then (a', .ok (.dep fmt rp did nad data))
      else (a', .error .protocol)
    | (a', .ok _) => (a', .error .attr)

def nakCheck (a : Air σ) (res : Pdu) : Air σ × Py Pdu :=
  match res with
  | .dep fmt _ _ _ _ => if fmt = fNAK then (a, .error .protocol) else (a, .ok res)
  | _ => (a, .error .attr)

/-- the `while True` loop of `send_dep_req_recv_dep_res` -/
def sendDepLoop (pni : Nat) (req : Pdu) : Nat → Air σ → Air σ × Py Pdu
  | 0, a => (a, .error .outOfFuel)
  | fuel+1, a =>
    if a.expired then (a, .error .timeout) else
    match xfer P a req with
    | (a1, .ok res) => nakCheck a1 res
    | (a1, .error .timeout) =>
      (match reqAttention P c 2 a1 with
       | (a2, .ok ()) => sendDepLoop pni req fuel a2
       | (a2, .error e) => (a2, .error e))
    | (a1, .error .transmission) =>
      (match reqRetrans P c pni (req.fmt? = some fMORE) 2 a1 with
       | (a2, .ok res) => nakCheck a2 res
       | (a2, .error e) => (a2, .error e))
    | (a1, .error e) => (a1, .error e)

/-- `send_dep_req_recv_dep_res(req, rwt, timeout)`: a fresh deadline -/
def sendDep (fuel pni : Nat) (a : Air σ) (req : Pdu) : Air σ × Py Pdu :=
  sendDepLoop P c pni req fuel { a with expired := false }

/-- `for i in range(3): req = RTOX(res.data) ...  else: raise TimeoutError` -/
def rtoxLoop (fuel pni : Nat) : Nat → Air σ → Pdu → Air σ × Py Pdu
  | 0, a, _ => (a, .error .timeout)
  | i+1, a, res =>
    match res with
    | .dep _ _ _ _ data =>
      (match data with
       | [] => (a, .error .protocol)   -- `RTOX(res.data, ...)`: `len(data) == 0` -> ProtocolError
       | rtox :: _ =>
         if ¬ (0 < rtox ∧ rtox < 60) then (a, .error .protocol) else
         match sendDep P c fuel pni a (.dep fTOX 0 c.idid c.inad [rtox]) with
         | (a', .error e) => (a', .error e)
         | (a', .ok res') => if res'.fmt? ≠ some fTOX then (a', .ok res') else rtoxLoop fuel pni i a' res')
    | _ => (a, .error .attr)

/-- `res = send_dep_req_recv_dep_res(req)` followed by the timeout extension handling -/
def transact (fuel pni : Nat) (a : Air σ) (req : Pdu) : Air σ × Py Pdu :=
  match sendDep P c fuel pni a req with
  | (a', .error e) => (a', .error e)
  | (a', .ok res) => if res.fmt? = some fTOX then rtoxLoop P c fuel pni 3 a' res else (a', .ok res)

/-- the `while send_data` loop of `Initiator.exchange`; returns the new PNI and the last response -/
def sendLoop (fuel : Nat) : Nat → Air σ → Nat → Bytes → Air σ × Nat × Py Pdu
  | 0, a, pni, _ => (a, pni, .error .outOfFuel)
  | n+1, a, pni, sd =>
    let rest := sd.drop c.imiu
    let req := Pdu.dep (if rest ≠ [] then fMORE else fINF) pni c.idid c.inad (sd.take c.imiu)
    match transact P c fuel pni a req with
    | (a', .error e) => (a', pni, .error e)
    | (a', .ok (.dep fmt rp did nad data)) =>
      if fmt = fACK ∧ rest = [] then (a', pni, .error .protocol)
      else if rp ≠ pni then (a', pni, .error .protocol)
      else if rest ≠ [] then sendLoop fuel n a' ((pni + 1) % 4) rest
      else (a', (pni + 1) % 4, .ok (.dep fmt rp did nad data))
    | (a', .ok _) => (a', pni, .error .attr)

/-- the `while res.pfb.fmt == MoreInformation` loop of `Initiator.exchange` -/
def recvLoop (fuel : Nat) : Nat → Air σ → Nat → Bytes → Nat → Air σ × Nat × Py Bytes
  | 0, a, pni, _, _ => (a, pni, .error .outOfFuel)
  | n+1, a, pni, acc, fmt =>
    if fmt ≠ fMORE then (a, pni, .ok acc) else
    match transact P c fuel pni a (.dep fACK pni c.idid c.inad []) with
    | (a', .error e) => (a', pni, .error e)
    | (a', .ok (.dep fmt' rp _ _ data)) =>
      if fmt' ≠ fINF ∧ fmt' ≠ fMORE then (a', pni, .error .protocol)
      else if rp ≠ pni then (a', pni, .error .protocol)
      else recvLoop fuel n a' ((pni + 1) % 4) (acc ++ data) fmt'
    | (a', .ok _) => (a', pni, .error .attr)

/-- `Initiator.exchange(send_data, timeout)` -/
def exchange (fuel : Nat) (a : Air σ) (pni : Nat) (p : Bytes) : Air σ × Nat × Py Bytes :=
  if p = [] then (a, pni, .error .unbound) else
  match sendLoop P c fuel fuel a pni p with
  | (a1, pni1, .error e) => (a1, pni1, .error e)
  | (a1, pni1, .ok (.dep fmt _ _ _ data)) =>
    if fmt ≠ fINF ∧ fmt ≠ fMORE then (a1, pni1, .error .protocol)
    else recvLoop P c fuel fuel a1 pni1 data fmt
  | (a1, pni1, .ok _) => (a1, pni1, .error .attr)

/-- the application on the Initiator: one `exchange` per payload, stop at the first exception -/
def iApp (fuel : Nat) : List Bytes → Air σ → Nat → List Bytes → Air σ × List Bytes × Option Exc
  | [], a, _, got => (a, got, none)
  | p :: ps, a, pni, got =>
    match exchange P c fuel a pni p with
    | (a', _, .error e) => (a', got, some e)
    | (a', pni', .ok d) => iApp fuel ps a' pni' (got ++ [d])

/-- `Initiator.deactivate(release)`: returns the exception that leaves it, if any -/
def deactivate (release : Bool) (a : Air σ) : Air σ × Option Exc :=
  match xfer P a (if release then .rls c.idid else .dsl c.idid) with
  | (a', .error e) => if isComm e then (a', none) else (a', some e)
  | (a', .ok _) => (a', none)

end initiator

/-! ## Composed system -/

structure Trace where
  wire : List Wire             -- in the order of transmission
  gotI : List Bytes
  errI : Option Exc
  errD : Option Exc            -- exception out of `deactivate`
  t : TState
  deriving Repr

/-- `rel`: 0 = no deactivation, 1 = `deactivate(release=False)` (DSL), 2 = RLS -/
def run (c : Cfg) (fuel : Nat) (script : List Fault) (rel : Nat) (pi pt : List Bytes) : Trace :=
  let a0 : Air TState := { script := script, peer := TState.init pt, expired := false, wire := [] }
  let r := iApp (targetPeer c) c fuel pi a0 0 []
  let d := if rel = 0 then (r.1, none) else deactivate (targetPeer c) c (rel = 2) r.1
  { wire := d.1.wire.reverse, gotI := r.2.1, errI := r.2.2, errD := d.2, t := d.1.peer }

/-- the Initiator alone against a scripted responder -/
def runScripted (c : Cfg) (fuel : Nat) (script : List Fault) (resp : List (Option Pdu)) (p : Bytes) :
    List Wire × Py Bytes :=
  let a0 : Air (List (Option Pdu)) := { script := script, peer := resp, expired := false, wire := [] }
  let r := exchange scriptedPeer c fuel a0 0 p
  (r.1.wire.reverse, r.2.2)

end NfcVerif.NfcDep
