import NfcVerif.Model.T3
import NfcVerif.Model.T3Emu
/-!
# C01: the Type 3 Tag reader talking to the Type 3 Tag emulation of the library

`Model/T3.lean` runs `Type3Tag.NDEF` against a plain memory.  Here the same reader code runs against
`Type3TagEmulation.process_command` (`Model/T3Emu.lean`, block store and services of
`examples/tagtool.py`), frame by frame:

* `Type3Tag.read_from_ndef_service` / `write_to_ndef_service` build the command frame
  (`T3Emu.encRead` / `encWrite`: service code list, 2- or 3-octet block list elements, length octet),
* the frame is handed to `process_command` (`T3Emu.processCommandR`); no response = a timeout, the reader
  sends the frame again (three attempts) and then raises `Type3TagCommandError(TIMEOUT_ERROR)`,
* `send_cmd_recv_rsp` checks length octet, response code, IDm and the status flags, and
  `read_without_encryption` the amount of data (`checkRsp`, `rdBlocks`).

`readNdef` is `_read_ndef_data` of the tree as it is now (polling for system 12FCh first, `Ln` checked against
`Nmaxb`, `min(Nbr, 15)`), `writeNdef` is `_write_ndef_data` (the command plan is `T3.planWrite`).
-/
namespace NfcVerif.T3Link
open NfcVerif NfcVerif.T34 NfcVerif.T3Emu

/-- hand a frame to the emulation: response and the emulation afterwards -/
def deliver (e : Emu) (cmd : Bytes) : Py (Option Bytes) × Emu :=
  match processCommandR true e cmd with
  | .error x => (.error x, e)
  | .ok (r, st, _) => (.ok r, { e with store := st })

/-- `clf.exchange` in the retry loop of `send_cmd_recv_rsp`: up to three deliveries while there is no response;
the third component counts the deliveries -/
def exchange3 (e : Emu) (cmd : Bytes) : Py Bytes × Emu × Nat :=
  match deliver e cmd with
  | (.error x, e1) => (.error x, e1, 1)
  | (.ok (some r), e1) => (.ok r, e1, 1)
  | (.ok none, e1) =>
    match deliver e1 cmd with
    | (.error x, e2) => (.error x, e2, 2)
    | (.ok (some r), e2) => (.ok r, e2, 2)
    | (.ok none, e2) =>
      match deliver e2 cmd with
      | (.error x, e3) => (.error x, e3, 3)
      | (.ok (some r), e3) => (.ok r, e3, 3)
      | (.ok none, e3) => (.error (.tagCmd 0), e3, 3)

/-- the checks of `send_cmd_recv_rsp(cmd_code, ..., send_idm=True, check_status=True)`; result `rsp[12:]` -/
def checkRsp (idm : Bytes) (code : Nat) (rsp : Bytes) : Py Bytes :=
  if rsp.length < 12 ∨ rsp.head? ≠ some rsp.length then .error (.tagCmd 1)
  else if rsp[1]? ≠ some (code + 1) then .error (.tagCmd 2)
  else if sliceN rsp 2 10 ≠ idm then .error (.tagCmd 3)
  else
    match rsp[10]?, rsp[11]? with
    | some s1, some s2 => if s1 ≠ 0 then .error (.tagCmd (s1 * 256 + s2 : Nat)) else .ok (rsp.drop 12)
    | _, _ => .error (.tagCmd 1)

/-- `polling(0x12FC)`: IDm and PMm of the answering tag -/
def polling (e : Emu) : Py (Bytes × Bytes) :=
  match (exchange3 e [6, 0, 0x12, 0xFC, 0, 0]).1 with
  | .error x => .error x
  | .ok rsp =>
    if rsp.length < 2 ∨ rsp.head? ≠ some rsp.length then .error (.tagCmd 1)
    else if rsp[1]? ≠ some 1 then .error (.tagCmd 2)
    else if (rsp.drop 2).length ≠ 16 then .error (.tagCmd 4)
    else .ok (sliceN rsp 2 10, sliceN rsp 10 18)

/-- `read_from_ndef_service(first, .., first+n-1)` -/
def rdBlocks (e : Emu) (idm : Bytes) (first n : Nat) : Py Bytes :=
  match encRead idm 11 (List.range' first n) with
  | .error x => .error x
  | .ok cmd =>
    match (exchange3 e cmd).1 with
    | .error x => .error x
    | .ok rsp =>
      checkRsp idm 6 rsp >>= fun d =>
      if d.length ≠ 1 + n * 16 then .error (.tagCmd 4) else .ok (d.drop 1)

/-- `_read_attribute_data`: `none` = checksum error -/
def readAttr (e : Emu) (idm : Bytes) : Py (Option T3.Attr) :=
  rdBlocks e idm 0 1 >>= T3.decodeAttr

/-- `for i in range(1, last, nbr)`; `none`: a command failed -/
def readLoop (e : Emu) (idm : Bytes) (nbr last : Nat) : Nat → Nat → Bytes → Py (Option Bytes)
  | 0, _, _ => .error .outOfFuel
  | fuel + 1, i, acc =>
    if i ≥ last then .ok (some acc) else
    match rdBlocks e idm i (min (i + nbr) last - i) with
    | .ok d => readLoop e idm nbr last fuel (i + nbr) (acc ++ d)
    | .error (.tagCmd _) => .ok none
    | .error x => .error x

structure Ndef where
  idm : Bytes
  attr : T3.Attr
  seen : Seen

/-- `Type3Tag.NDEF._read_ndef_data` on a fresh tag object (`tag.sys = FFFFh`, so the tag is polled first) -/
def readNdef (e : Emu) : Py (Option Ndef) :=
  match polling e with
  | .error (.tagCmd _) => .ok none
  | .error x => .error x
  | .ok (idm, _) =>
    match readAttr e idm with
    | .error (.tagCmd _) => .ok none
    | .error x => .error x
    | .ok none => .ok none
    | .ok (some a) =>
      if a.ver / 16 ≠ 1 then .ok none
      else if a.ln > a.nmaxb * 16 then .ok none
      else if min a.nbr 15 = 0 then .ok none
      else
        let last := 1 + (a.ln + 15) / 16
        readLoop e idm (min a.nbr 15) last last 1 [] >>= fun od =>
        match od with
        | none => .ok none
        | some d => .ok (some { idm := idm, attr := a,
                                seen := { capacity := (a.nmaxb * 16 : Nat),
                                          readable := decide (a.writef = 0 ∧ a.nbr > 0),
                                          writeable := decide (a.rwflag ≠ 0 ∧ a.nbw > 0),
                                          data := d.take a.ln } })

def see (e : Emu) : Py (Option Seen) := readNdef e >>= fun o => .ok (o.map (·.seen))

/-- `write_to_ndef_service(data, blk, .., blk+n-1)`: outcome, emulation afterwards, frames delivered -/
def wrBlocks (e : Emu) (idm : Bytes) (c : T3.WCmd) : Py Unit × Emu × Nat :=
  match encWrite idm 9 (List.range' c.blk c.n) c.data with
  | .error x => (.error x, e, 0)
  | .ok cmd =>
    match exchange3 e cmd with
    | (.error x, e', k) => (.error x, e', k)
    | (.ok rsp, e', k) => ((checkRsp idm 8 rsp >>= fun _ => .ok ()), e', k)

structure Trace where
  emu : Emu
  frames : Nat
  res : Py Unit

def runWL (idm : Bytes) : Emu → List T3.WCmd → Trace
  | e, [] => ⟨e, 0, .ok ()⟩
  | e, c :: cs =>
    match wrBlocks e idm c with
    | (.error x, e', k) => ⟨e', k, .error x⟩
    | (.ok _, e', k) => let t := runWL idm e' cs; ⟨t.emu, k + t.frames, t.res⟩

/-- `Type3Tag.NDEF._write_ndef_data` -/
def writeNdef (e : Emu) (idm data : Bytes) : Trace :=
  match readAttr e idm with
  | .ok none => ⟨e, 0, .error (.tagCmd 4)⟩
  | .error x => ⟨e, 0, .error x⟩
  | .ok (some a) =>
    if a.nbw = 0 then
      let t := runWL idm e [⟨0, 1, T3.encodeAttr { a with writef := 0x0F }⟩]
      ⟨t.emu, t.frames, t.res >>= fun _ => .error .value⟩
    else runWL idm e (T3.planWrite a data)

/-- `tag.ndef.octets = data` on a freshly activated tag object -/
def setOctets (e : Emu) (data : Bytes) : Py (Option Trace) :=
  readNdef e >>= fun o =>
  match o with
  | none => .ok none
  | some nd =>
    if nd.seen.writeable = false then .ok (some ⟨e, 0, .error .attr⟩)
    else if (data.length : Int) > nd.seen.capacity then .ok (some ⟨e, 0, .error .value⟩)
    else .ok (some (writeNdef e nd.idm data))

end NfcVerif.T3Link
