import NfcVerif.Py
/-!
# Lock discipline of `ContactlessFrontend` (property C15)

A small statement language into which `harness/translate_lock.py` translates
every method of `nfc.clf.ContactlessFrontend`, a trace semantics with
exceptions/early exits (`Runs`), a syntactic checker (`chk`) and a per-thread
monitor (`mon`).  `Lemmas/Lock.lean` proves: a checked program never violates
the monitor, and under every interleaving of any number of threads with one
non-reentrant mutex no two threads are inside a driver call at the same time
and no driver call runs while `self.device is None`.
-/
namespace NfcVerif.Lock

/-- observable events of one thread -/
inductive Ev
  | acq | rel            -- `with self.lock` entry / exit
  | devB | devE          -- begin / end of a call into `self.device`
  | setDev               -- `self.device = ...`
  | tst (nonNone : Bool) -- outcome of a `self.device is None` style test
  deriving DecidableEq, Repr

inductive Stmt
  | dev (name : String)        -- `self.device.<name>(...)`, also a bare load of a bound method
  | assignDev                  -- `self.device = <expr>`
  | withLock (s : Stmt)        -- `with self.lock: s`
  | ifDev (a b : Stmt)         -- `a` when the device is not None, `b` when it is None
  | seq (a b : Stmt)
  | branch (a b : Stmt)        -- any other `if`, handler choice: either side
  | loop (s : Stmt)            -- zero or more iterations
  | tryc (a b : Stmt)          -- `a`, possibly aborted at any point, then optionally `b`
  | exit                       -- raise / return / break / continue: aborts up to the next `tryc`
  | skip
  | callback                   -- foreign code that may re-enter the frontend: must run unlocked
  | other (src : String)       -- untranslatable source: treated as a violation
  deriving Repr, DecidableEq

/-- `Runs P s tr c`: statement `s` can produce the event sequence `tr`, completing
normally (`c = true`) or aborting by an exception or early exit (`c = false`).
Every driver call, callback and assignment may raise. A callback may run any
sequence of entry points of the program `P` on the same thread. -/
inductive Runs (P : List Stmt) : Stmt → List Ev → Bool → Prop
  | dev {n c} : Runs P (.dev n) [.devB, .devE] c
  | assign : Runs P .assignDev [.setDev] true
  | assignRaise : Runs P .assignDev [] false
  | withLock {s tr c} : Runs P s tr c → Runs P (.withLock s) (.acq :: tr ++ [.rel]) c
  | ifT {a b tr c} : Runs P a tr c → Runs P (.ifDev a b) (.tst true :: tr) c
  | ifF {a b tr c} : Runs P b tr c → Runs P (.ifDev a b) (.tst false :: tr) c
  | seqAbort {a b ta} : Runs P a ta false → Runs P (.seq a b) ta false
  | seq {a b ta tb c} : Runs P a ta true → Runs P b tb c → Runs P (.seq a b) (ta ++ tb) c
  | brL {a b t c} : Runs P a t c → Runs P (.branch a b) t c
  | brR {a b t c} : Runs P b t c → Runs P (.branch a b) t c
  | loop0 {s} : Runs P (.loop s) [] true
  | loopAbort {s t} : Runs P s t false → Runs P (.loop s) t false
  | loopS {s t u c} : Runs P s t true → Runs P (.loop s) u c → Runs P (.loop s) (t ++ u) c
  | tryOk {a b t} : Runs P a t true → Runs P (.tryc a b) t true
  | tryUncaught {a b t} : Runs P a t false → Runs P (.tryc a b) t false
  | tryCaught {a b t u c} : Runs P a t false → Runs P b u c → Runs P (.tryc a b) (t ++ u) c
  | exit : Runs P .exit [] false
  | skip : Runs P .skip [] true
  | cbNil {c} : Runs P .callback [] c
  | cbCons {s t c1 u c} : s ∈ P → Runs P s t c1 → Runs P .callback u c → Runs P .callback (t ++ u) c
  | other {src c} : Runs P (.other src) [.devB, .devE] c

/-- thread-local abstract state of checker and monitor -/
structure St where
  locked : Bool   -- inside `with self.lock`
  known : Bool    -- the device was seen non-None since the lock was taken and not assigned since
  deriving DecidableEq, Repr

/-- does the statement assign `self.device` (knowledge about the device is lost)? -/
def assigns : Stmt → Bool
  | .assignDev => true
  | .withLock s => assigns s
  | .ifDev a b | .seq a b | .branch a b | .tryc a b => assigns a || assigns b
  | .loop s => assigns s
  | .callback => true
  | .other _ => true
  | _ => false

def meet (x y : St) : Option St :=
  if x.locked = y.locked then some ⟨x.locked, x.known && y.known⟩ else none

/-- the syntactic check: `chk st s = some st'` means `s` is safe to run from abstract
state `st` and leaves `st'` on normal completion -/
def chk : St → Stmt → Option St
  | st, .dev _ => if st.locked && st.known then some st else none
  | st, .assignDev => if st.locked then some ⟨true, false⟩ else none
  | st, .withLock s =>
    if st.locked then none else
    match chk ⟨true, false⟩ s with
    | some st' => if st'.locked then some ⟨false, false⟩ else none
    | none => none
  | st, .ifDev a b =>
    match chk ⟨st.locked, st.locked || st.known⟩ a, chk st b with
    | some sa, some sb => meet sa sb
    | _, _ => none
  | st, .seq a b =>
    match chk st a with
    | some st' => chk st' b
    | none => none
  | st, .branch a b =>
    match chk st a, chk st b with
    | some sa, some sb => meet sa sb
    | _, _ => none
  | st, .loop s =>
    match chk st s with
    | some st' => if st'.locked = st.locked && (!st.known || st'.known) then some st else
        (match chk ⟨st.locked, false⟩ s with
         | some st'' => if st''.locked = st.locked then some ⟨st.locked, false⟩ else none
         | none => none)
    | none =>
        (match chk ⟨st.locked, false⟩ s with
         | some st'' => if st''.locked = st.locked then some ⟨st.locked, false⟩ else none
         | none => none)
  | st, .tryc a b =>
    match chk st a, chk ⟨st.locked, st.locked && st.known && !assigns a⟩ b with
    | some sa, some sb => meet sa sb
    | _, _ => none
  | st, .exit => some ⟨st.locked, true⟩
  | st, .skip => some st
  | st, .callback => if st.locked then none else some ⟨false, false⟩
  | _, .other _ => none

/-- an entry point is well locked if it checks from the unlocked state back to the unlocked state -/
def entryOk (s : Stmt) : Bool :=
  match chk ⟨false, false⟩ s with
  | some st => !st.locked
  | none => false

def wellLocked (P : List Stmt) : Bool := P.all entryOk

/-! ## per-thread monitor -/

structure Mon where
  locked : Bool
  known : Bool
  inDev : Bool
  deriving DecidableEq, Repr

def mstep (m : Mon) : Ev → Option Mon
  | .acq => if m.locked then none else some ⟨true, false, false⟩
  | .rel => if m.locked && !m.inDev then some ⟨false, false, false⟩ else none
  | .tst true => some { m with known := m.locked || m.known }
  | .tst false => some m
  | .setDev => if m.locked && !m.inDev then some { m with known := false } else none
  | .devB => if m.locked && m.known && !m.inDev then some { m with inDev := true } else none
  | .devE => if m.inDev then some { m with inDev := false } else none

def mrun : Mon → List Ev → Option Mon
  | m, [] => some m
  | m, e :: es => match mstep m e with
    | some m' => mrun m' es
    | none => none

end NfcVerif.Lock

namespace NfcVerif.Lock

/-! ## global semantics: any number of threads, one non-reentrant mutex, one device slot -/

structure G (n : Nat) where
  holder : Option (Fin n)   -- who holds `self.lock`
  device : Bool             -- `self.device is not None`
  inDev : Fin n → Bool      -- thread is inside a driver call

/-- One step of thread `t`; `v` is the value an assignment stores (`true` = a device object).
`none`: the step is not enabled in this global state (mutex taken, test outcome impossible). -/
def gstep {n} (g : G n) (t : Fin n) (e : Ev) (v : Bool) : Option (G n) :=
  match e with
  | .acq => if g.holder = none then some { g with holder := some t } else none
  | .rel => some { g with holder := none }
  | .tst b => if b = g.device then some g else none
  | .setDev => some { g with device := v }
  | .devB => some { g with inDev := fun i => if i = t then true else g.inDev i }
  | .devE => some { g with inDev := fun i => if i = t then false else g.inDev i }

/-- what must hold whenever a thread enters the driver -/
def SafeAt {n} (g : G n) (t : Fin n) : Prop := g.device = true ∧ ∀ j, j ≠ t → g.inDev j = false

abbrev Sched (n : Nat) := List (Fin n × Ev × Bool)

/-- every driver entry along the schedule is safe (steps that are not enabled end the run) -/
def safeRun {n} : G n → Sched n → Prop
  | _, [] => True
  | g, (t, e, v) :: rest =>
    match gstep g t e v with
    | none => True
    | some g' => (e = .devB → SafeAt g t) ∧ safeRun g' rest

/-- the events of thread `i` in a schedule -/
def proj {n} (σ : Sched n) (i : Fin n) : List Ev :=
  σ.filterMap (fun x => if x.1 = i then some x.2.1 else none)

end NfcVerif.Lock
