import NfcVerif.Py
/-!
# Reference definitions for `nfc/llcp/tco.py` functions without a model counterpart (group Tco)

Spec-style definitions (LLCP 1.3 section 5.6 "Connection-oriented transport": state variables V(S), V(SA),
V(R), V(RA), windows RW(L), RW(R); NFC Forum socket options of nfcpy's `nfc.llcp` module) against which the
regenerated functions of `Gen/FnTco.lean` are bridged where `Model/Dlc.lean` / `Model/Collect.lean` have no
function of their own.
-/
namespace NfcVerif.FnTcoRef

/-! ## sliding window -/

/-- number of I PDUs sent and not yet acknowledged: `(V(S) - V(SA)) mod 16` -/
def outstanding (vs vsa : Nat) : Nat := (vs + 16 - vsa % 16) % 16

/-- free slots of a window of `rw` PDUs of which `used` are in flight, as the code computes it (mod 16) -/
def slotsLeft (rw used : Nat) : Nat := (rw + 16 - used % 16) % 16

/-! ## socket options -/

/-- `nfc.llcp.SO_*` -/
inductive SockOpt | sndmiu | rcvmiu | sndbuf | rcvbuf | sndbsy | rcvbsy
  deriving DecidableEq, Repr

def SockOpt.code : SockOpt → Int
  | .sndmiu => 1 | .rcvmiu => 2 | .sndbuf => 3 | .rcvbuf => 4 | .sndbsy => 5 | .rcvbsy => 6

def SockOpt.ofCode (c : Int) : Option SockOpt :=
  if c = 1 then some .sndmiu else if c = 2 then some .rcvmiu else if c = 3 then some .sndbuf
  else if c = 4 then some .rcvbuf else if c = 5 then some .sndbsy else if c = 6 then some .rcvbsy else none

/-- value of a socket option -/
inductive OptVal | int (n : Int) | bool (b : Bool) | none
  deriving DecidableEq, Repr

/-- the attributes `getsockopt` reads -/
structure SockAttrs where
  sendMiu : Int
  recvMiu : Int
  sendBuf : Int
  recvBuf : Int
  recvWin : Int      -- RW(L), data link connections only
  sendBusy : Bool
  recvBusy : Bool
  deriving DecidableEq, Repr

/-- `getsockopt` of a raw access point / logical data link: the four size options, nothing else -/
def getsockoptBase (a : SockAttrs) : Option SockOpt → OptVal
  | some .sndmiu => .int a.sendMiu
  | some .rcvmiu => .int a.recvMiu
  | some .sndbuf => .int a.sendBuf
  | some .rcvbuf => .int a.recvBuf
  | _ => .none

/-- `getsockopt` of a data link connection: SO_RCVBUF is the receive window RW(L), the two busy flags -/
def getsockoptDlc (a : SockAttrs) : Option SockOpt → OptVal
  | some .rcvbuf => .int a.recvWin
  | some .sndbsy => .bool a.sendBusy
  | some .rcvbsy => .bool a.recvBusy
  | o => getsockoptBase a o

/-! ## connection-less reception -/

/-- `LogicalDataLink.enqueue`: only UI PDUs whose payload fits the local MIU reach the receive queue -/
def ldlAccepts (isUI : Bool) (dataLen recvMiu : Nat) : Bool := isUI && decide (dataLen ≤ recvMiu)

end NfcVerif.FnTcoRef
