import NfcVerif.Model.HostFrame
/-!
# Reference definitions for the hand-built PN532 frames of `pn532.init` (property C14)

`nfc.clf.pn532.init` talks to the chip over a serial line before a `Chipset` object exists and therefore
writes three command frames as literal octet strings (one of them patched at run time) and compares the
answers with literal response frames.  No model existed for them.  What they should be, according to the
PN532 user manual (UM0701-02): ordinary host-link frames (`HostFrame.pnBuild`) of

* `GetFirmwareVersion` (command code 0x02, no parameters),
* `SAMConfiguration` (0x14; mode 0x01 "normal mode", timeout 0x00, IRQ 0x00),
* `SetSerialBaudRate` (0x10; one parameter BR: 0x00 9600 .. 0x04 115200, 0x05 230400, 0x06 460800,
  0x07 921600, 0x08 1288000 baud),

and the responses `D5 code+1` without payload (`ackRsp`), for GetFirmwareVersion the first octets of a
response whose IC octet is 0x32.
-/
namespace NfcVerif.FnPn53xRef
open NfcVerif NfcVerif.HostFrame

/-- PN532 user manual, SetSerialBaudRate: the BR parameter of a baud rate -/
def brCode : Nat → Option Nat
  | 9600 => some 0 | 19200 => some 1 | 38400 => some 2 | 57600 => some 3 | 115200 => some 4
  | 230400 => some 5 | 460800 => some 6 | 921600 => some 7 | 1288000 => some 8
  | _ => none

def getVersionCmd : Bytes := pnBuild 0x02 []
def samConfigurationCmd : Bytes := pnBuild 0x14 [1, 0, 0]
def setBaudrateCmd (baud : Nat) : Option Bytes := (brCode baud).map fun c => pnBuild 0x10 [c]

/-- the response frame `D5 cmd+1` without data -/
def ackRsp (cmd : Nat) : Bytes := [0, 0, 0xFF, 2, 0xFE, 0xD5, cmd + 1, (256 - (0xD5 + cmd + 1) % 256) % 256, 0]

/-- start of a GetFirmwareVersion response (`D5 03 IC Ver Rev Support`, 4 data octets) with IC = 0x32 -/
def getVersionRspPrefix : Bytes := [0, 0, 0xFF, 6, 0xFA, 0xD5, 0x03, 0x32]

end NfcVerif.FnPn53xRef
