import NfcVerif.Model.SnepChannel
/-!
# SNEP client and server (property C06)

Transcription of `nfc/snep/client.py` (`send_request`, `recv_response`,
`SnepClient.put_octets/get_octets`) and `nfc/snep/server.py`
(`SnepServer._serve`, `process_snep_request`) as state machines cut at the
blocking socket calls (see `Model/SnepChannel.lean`).

The NDEF decoder/encoder (third party `ndeflib`) and the application
callbacks are parameters (`Handlers`): `valid octets` says that
`ndef.message_decoder(octets, known_types={})` does not raise, `put`/`get`
are `process_put_request`/`process_get_request` seen at the octet level
(records re-encoded).
-/
namespace NfcVerif.Snep
open NfcVerif NfcVerif.Chan

inductive Op | put | get
  deriving DecidableEq, Repr, Inhabited

/-- application side of the server -/
structure Handlers where
  /-- `ndef.message_decoder(octets, known_types={})` succeeds -/
  valid : Bytes → Bool
  /-- `process_put_request`: response code -/
  put : Bytes → Nat
  /-- `process_get_request`: an `int` response code or the encoded response message -/
  get : Bytes → Nat ⊕ Bytes

structure SCfg where
  /-- `min(max_acceptable_length, 0xFFFFFFFF)` -/
  maxAcc : Nat
  /-- `client_socket.getsockopt(SO_SNDMIU)` on the server side -/
  smiu : Nat
  h : Handlers

/-- `b"\x10\x80\x00\x00\x00\x00"` server → client: Continue -/
def contRsp : Bytes := [0x10, 0x80, 0, 0, 0, 0]
/-- `b"\x10\x00\x00\x00\x00\x00"` client → server: Continue -/
def contReq : Bytes := [0x10, 0x00, 0, 0, 0, 0]
def rejectRsp : Bytes := [0x10, 0xFF, 0, 0, 0, 0]
def unsupRsp : Bytes := [0x10, 0xE1, 0, 0, 0, 0]

/-- `struct.pack(">BBL", 0x10, code, len)` (callers keep `code < 256`, `len < 2^32`) -/
def hdr (code len : Nat) : Bytes := [0x10, code] ++ toBE 4 len

/-! ## Server -/

inductive SState
  /-- `while client_socket.poll('recv')` at the top of the loop -/
  | idle
  /-- `data += client_socket.recv()` in the reassembly loop -/
  | reasm (data : Bytes) (length : Nat)
  /-- `client_socket.recv() == Continue` after the first response fragment -/
  | awaitCont (rest : List Bytes)
  /-- left the loop, socket closed -/
  | closed
  /-- an exception other than `nfc.llcp.Error` left `_serve` -/
  | crashed (e : Exc)
  deriving DecidableEq, Repr, Inhabited

/-- `process_snep_request`: response octets and what reached the application -/
def process (h : Handlers) (data : Bytes) : Py (Bytes × List (Op × Bytes)) :=
  idxN data 1 >>= fun code =>
  if code = 1 ∧ data.length ≥ 10 then
    let acc := beNat ((data.drop 6).take 4)
    let octets := data.drop 10
    if h.valid octets = false then .ok (hdr 0xC2 0, [])
    else
      let r : Nat × Bytes := match h.get octets with
        | .inl c => (c, [])
        | .inr d => (0x81, d)
      let r : Nat × Bytes := if r.2.length > acc then (0xC1, []) else r
      .ok (hdr r.1 r.2.length ++ r.2, [(Op.get, octets)])
  else if code = 2 then
    let octets := data.drop 6
    if h.valid octets = false then .ok (hdr 0xC2 0, [])
    else .ok (hdr (h.put octets) 0, [(Op.put, octets)])
  else .ok (hdr 0xC2 0, [])

/-- "send the snep response, fragment if needed" up to the next blocking point -/
def respond (smiu : Nat) (resp : Bytes) : SState × List Bytes :=
  if resp.length ≤ smiu then (.idle, [resp])
  else (.awaitCont (chunks smiu (resp.drop smiu)), [resp.take smiu])

/-- message complete: handle the request and start the response -/
def srvFinish (cfg : SCfg) (data : Bytes) : SState × List Bytes × List (Op × Bytes) :=
  match process cfg.h data with
  | .error e => (.crashed e, [], [])
  | .ok (resp, dl) => ((respond cfg.smiu resp).1, (respond cfg.smiu resp).2, dl)

def srvOnRecv (cfg : SCfg) : SState → Bytes → SState × List Bytes × List (Op × Bytes)
  | .idle, m =>
    match m with
    | v :: _ :: a :: b :: c :: d :: _ =>
      let length := beNat [a, b, c, d]
      if v / 16 > 1 then (.idle, [unsupRsp], [])
      else if length > cfg.maxAcc then (.idle, [rejectRsp], [])
      else if m.length - 6 < length then (.reasm m length, [contRsp], [])
      else srvFinish cfg m
    | _ => (.closed, [], [])      -- `not data` or `len(data) < 6`: break
  | .reasm data length, m =>
    if (data ++ m).length - 6 < length then (.reasm (data ++ m) length, [], [])
    else srvFinish cfg (data ++ m)
  | .awaitCont rest, m => if m = contReq then (.idle, rest, []) else (.idle, [], [])
  | .closed, _ => (.closed, [], [])
  | .crashed e, _ => (.crashed e, [], [])

/-- the peer closed the connection (`recv()` returns `None`, `poll` returns `False`) -/
def srvOnClose (cfg : SCfg) : SState → SState × List (Op × Bytes)
  | .reasm data _ =>   -- `except TypeError: break`, then the partial data is processed
    match process cfg.h data with
    | .error e => (.crashed e, [])
    | .ok (_, dl) => (.closed, dl)
  | .crashed e => (.crashed e, [])
  | _ => (.closed, [])

def swait : SState → Bool
  | .closed => false
  | .crashed _ => false
  | _ => true

/-! ## Client -/

/-- outcome of `put_octets` / `get_octets` -/
inductive CRes
  | okTrue | okFalse | okNone
  | okData (d : Bytes)
  | snepError (code : Nat)
  | exc (e : Exc)
  /-- blocked in `socket.recv()` (no timeout) with nothing to come -/
  | hang
  deriving DecidableEq, Repr, Inhabited

inductive CState
  | idle
  /-- `socket.recv() != Continue` in `send_request` -/
  | awaitCont (op : Op) (acc : Nat) (rest : List Bytes)
  /-- first `socket.poll("recv", timeout)` of `recv_response` -/
  | awaitResp (op : Op) (acc : Nat)
  /-- the `while len(snep_response) - 6 < length` loop -/
  | reasm (op : Op) (buf : Bytes) (length : Nat)
  | done (r : CRes)
  deriving DecidableEq, Repr, Inhabited

/-- `send_request` returned `False` -/
def sendFailed : Op → CRes
  | .put => .okFalse
  | .get => .okNone

/-- `recv_response` returned `None`: `put_octets` then still returns `True` -/
def noResponse : Op → CRes
  | .put => .okTrue
  | .get => .okNone

/-- the tail of `put_octets` / `get_octets` once `recv_response` returned data -/
def cliFinish (op : Op) (resp : Bytes) : CRes :=
  match idxN resp 1 with
  | .error e => .exc e
  | .ok st =>
    if st ≠ 0x81 then .snepError st
    else match op with
      | .put => .okTrue
      | .get => .okData (resp.drop 6)

/-- the request octets built by `put_octets` / `get_octets` (`struct.error` above 32 bit) -/
def request (acc : Nat) (op : Op) (octets : Bytes) : Py Bytes :=
  match op with
  | .put =>
    if octets.length ≥ 2 ^ 32 then .error .struct
    else .ok ([0x10, 0x02] ++ toBE 4 octets.length ++ octets)
  | .get =>
    if 4 + octets.length ≥ 2 ^ 32 ∨ acc ≥ 2 ^ 32 then .error .struct
    else .ok ([0x10, 0x01] ++ toBE 4 (4 + octets.length) ++ toBE 4 acc ++ octets)

/-- `recv_response` is called with 0 by `put_octets`, with `acceptable_length` by `get_octets` -/
def respAcc (acc : Nat) : Op → Nat
  | .put => 0
  | .get => acc

/-- `send_request` up to its first blocking point (send MIU `miu ≥ 1`) -/
def cliSend (miu acc : Nat) (op : Op) (req : Bytes) : CState × List Bytes :=
  if req.length ≤ miu then (.awaitResp op (respAcc acc op), [req])
  else (.awaitCont op (respAcc acc op) (chunks miu (req.drop miu)), [req.take miu])

def cliStart (miu acc : Nat) (op : Op) (octets : Bytes) : CState × List Bytes :=
  match request acc op octets with
  | .error e => (.done (.exc e), [])
  | .ok req => cliSend miu acc op req

def cliOnRecv : CState → Bytes → CState × List Bytes
  | .awaitCont op acc rest, m =>
    if m ≠ contRsp then (.done (sendFailed op), []) else (.awaitResp op acc, rest)
  | .awaitResp op acc, m =>
    match m with
    | _ :: _ :: a :: b :: c :: d :: _ =>
      let length := beNat [a, b, c, d]
      if length > acc then (.done (noResponse op), [])
      else if m.length - 6 < length then (.reasm op m length, [contReq])
      else (.done (cliFinish op m), [])
    | _ => (.done (noResponse op), [])        -- initial fragment too short
  | .reasm op buf length, m =>
    if (buf ++ m).length - 6 < length then (.reasm op (buf ++ m) length, [])
    else (.done (cliFinish op (buf ++ m)), [])
  | st, _ => (st, [])

def cwait : CState → Bool
  | .awaitCont .. => true
  | .awaitResp .. => true
  | .reasm .. => true
  | _ => false

/-- nothing more will arrive: `poll(timeout)` returns `False`, a bare `recv()` blocks for ever -/
def cliOnTimeout : CState → CRes
  | .awaitCont .. => .hang
  | .awaitResp op _ => noResponse op
  | .reasm op _ _ => noResponse op
  | .done r => r
  | .idle => .okNone

/-! ## Client and server on one connection -/

abbrev SNet := Net CState SState (Op × Bytes)

def proto (cfg : SCfg) : Proto CState SState (Op × Bytes) :=
  { srv := srvOnRecv cfg, cli := cliOnRecv, cwait := cwait, swait := swait }

structure CCfg where
  /-- `socket.getsockopt(SO_SNDMIU)` on the client side -/
  miu : Nat
  /-- `max_ndef_msg_recv_size` -/
  acc : Nat

/-- a fresh connection -/
def init : SNet := { cst := .idle, sst := .idle }

/-- the client application calls `put_octets` / `get_octets` -/
def startOp (cc : CCfg) (n : SNet) (op : Op) (octets : Bytes) : SNet :=
  let r := cliStart cc.miu cc.acc op octets
  { n with cst := r.1, c2s := n.c2s ++ r.2, logC := n.logC ++ r.2 }

/-- one request on an open connection: start it, deliver up to `fuel` messages -/
def runOp (cfg : SCfg) (cc : CCfg) (fuel : Nat) (n : SNet) (op : Op) (octets : Bytes) : SNet :=
  pump (proto cfg) fuel (startOp cc n op octets)

/-- result seen by the client application once the network is quiet -/
def result (n : SNet) : CRes := cliOnTimeout n.cst

/-- several requests, one after the other, on the same connection; results in order -/
def runOps (cfg : SCfg) (cc : CCfg) (fuel : Nat) : SNet → List (Op × Bytes) → List CRes × SNet
  | n, [] => ([], n)
  | n, (op, o) :: rest =>
    let n1 := runOp cfg cc fuel n op o
    let r := runOps cfg cc fuel { n1 with cst := .done (result n1) } rest
    (result n1 :: r.1, r.2)

/-- the client closes the connection -/
def closeConn (cfg : SCfg) (n : SNet) : SNet :=
  let r := srvOnClose cfg n.sst
  { n with sst := r.1, dl := n.dl ++ r.2 }

/-! ## One side alone (the peer is arbitrary)

`srvFeed` runs the server on any sequence of incoming messages - not only the ones a correct
client sends; `cliFeed` runs the client of one request on whatever a peer has queued.  Used by the
correspondence runs that drive the real `SnepServer._serve` / `put_octets` / `get_octets` with
hostile peers (wrong version, wrong length field, short or missing fragments, wrong Continue). -/

/-- messages arrive in order; a server that has terminated drops them (its socket is closed) -/
def srvFeed (cfg : SCfg) : SState → List Bytes → SState × List Bytes × List (Op × Bytes)
  | st, [] => (st, [], [])
  | st, m :: rest =>
    if swait st then
      let r := srvOnRecv cfg st m
      let r2 := srvFeed cfg r.1 rest
      (r2.1, r.2.1 ++ r2.2.1, r.2.2 ++ r2.2.2)
    else srvFeed cfg st rest

/-- the client takes queued messages as long as it waits; returns the state, what it sent and
what it left in the socket -/
def cliFeed : CState → List Bytes → CState × List Bytes × List Bytes
  | st, [] => (st, [], [])
  | st, m :: rest =>
    if cwait st then
      let r := cliOnRecv st m
      let r2 := cliFeed r.1 rest
      (r2.1, r.2 ++ r2.2.1, r2.2.2)
    else (st, [], m :: rest)

/-- one `put_octets` / `get_octets` against a peer that has `script` queued -/
def cliAlone (cc : CCfg) (op : Op) (octets : Bytes) (script : List Bytes) : CRes × List Bytes × List Bytes :=
  let s := cliStart cc.miu cc.acc op octets
  let r := cliFeed s.1 script
  (cliOnTimeout r.1, s.2 ++ r.2.1, r.2.2)

end NfcVerif.Snep
