import NfcVerif.Model.HostFrame
/-!
# Reference semantics of the host transports (`nfc/clf/transport.py`), group Transport of the function translator

`TTY.read` assembles one PN53x host-link frame from a serial line: `tty.read(6)`, the ACK shortcut, a header of fewer than 6 octets is `IOError(EIO)`, `LEN`
(`frame[3]`) or the extended length (`frame[5] << 8 | frame[6]` after three more octets), then `LEN + 1` more
octets.  `USB.write` sends the frame as one bulk transfer and terminates it with a zero-length packet when the
length is a multiple of the endpoint's packet size; `USB.read` turns an empty bulk read into `IOError(EIO)`.
No model existed for this file (the C13 / C14 models start at `transport.read` / `transport.write`: `ErrMap.Ev`,
`ErrMap.Wr`).

The function translator gives the methods of pyserial / libusb1 as *pure* function parameters
(`rd : Int → Py Bytes`), which cannot express that two calls of `tty.read` deliver consecutive octets.  The
reference is therefore a small **program** over the primitive `tty.read(n)` (`RdProg`) with two interpretations:

* `runWith rd` - every `read n` asks the pure function `rd` (this is what the regenerated definition is, for every
  `rd`: bridge theorem `tty_read_bridge`),
* `runLine s` - the serial line is the list `s` of octets still to come (and then silence until the timeout):
  `read n` delivers the first `n` of them (fewer when the line runs dry, as pyserial's `read` with a timeout does)
  and leaves the rest.

The property theorems (`Props/FnBridgeTransport.lean`) are about `ttyRead = ttyReadProg.runLine`.
-/
namespace NfcVerif.FnTransportRef
open NfcVerif NfcVerif.HostFrame

/-! ## the serial line -/

/-- a transport method as a program over `tty.read(n)` -/
inductive RdProg where
  | ret (frame : Bytes)                      -- `return frame`
  | fail (e : Exc)                           -- `raise ..`
  | read (n : Int) (k : Bytes → RdProg)      -- `x = self.tty.read(n)`, continue with `k x`

namespace RdProg

/-- every `tty.read(n)` is answered by the pure function `rd` (an exception of `rd` propagates unchanged) -/
def runWith (rd : Int → Py Bytes) : RdProg → Py Bytes
  | .ret f => .ok f
  | .fail e => .error e
  | .read n k => rd n >>= fun c => (k c).runWith rd

/-- the serial line will deliver the octets `s` and then nothing before the timeout: `read(n)` takes the first
`n` of them (all of them when fewer are left; none for `n <= 0`); result: the value returned and the octets
still on the line -/
def runLine : RdProg → Bytes → Py (Bytes × Bytes)
  | .ret f, s => .ok (f, s)
  | .fail e, _ => .error e
  | .read n k, s => (k (s.take n.toNat)).runLine (s.drop n.toNat)

/-- the successive `tty.read` calls are answered by the chunks of a script (the arguments are ignored; `b''`
once the script is used up) -/
def runScript : RdProg → List Bytes → Py Bytes
  | .ret f, _ => .ok f
  | .fail e, _ => .error e
  | .read _ k, [] => (k []).runScript []
  | .read _ k, c :: cs => (k c).runScript cs

end RdProg

/-- the ACK frame `00 00 FF 00 FF 00` (the literal of `TTY.read`) -/
def ack : Bytes := [0, 0, 0xFF, 0, 0xFF, 0]

/-- `ETIMEDOUT` (Linux) -/
def etimedout : Exc := .io 110

/-- `EIO` -/
def eio : Exc := .io 5

/-- `TTY.read` behind `if self.tty is not None:` (the timeout assignment in front is float arithmetic on the
pyserial object and not part of the frame assembly).  The REPAIRED source (fixes/C13/0004): a header of fewer than 6
octets and an extended header of fewer than 9 are `IOError(EIO)`.  `frame[3]`, `frame[5]`, `frame[6]` are still plain
index expressions and are transcribed as such (`IndexError` when the octet is missing); `read_errors` proves that
behind the two length tests they cannot fail.  (As found, without the tests, a line that ran dry after 1..3 octets
- 4..6 of an extended header - ended in `IndexError`: finding `tty-short-read-internal-error`.) -/
def ttyReadProg : RdProg :=
  .read 6 fun c6 =>
  if c6.length = 0 then .fail etimedout else
  if ack.isPrefixOf c6 = true then .ret c6 else
  if c6.length < 6 then .fail eio else
  match c6[3]? with
  | none => .fail .index
  | some len =>
    if len = 0xFF then
      .read 3 fun c3 =>
        if (c6 ++ c3).length < 9 then .fail eio else
        match (c6 ++ c3)[5]?, (c6 ++ c3)[6]? with
        | some hi, some lo => .read (((hi <<< 8 ||| lo : Nat) : Int) + 1) fun cn => .ret (c6 ++ c3 ++ cn)
        | _, _ => .fail .index
    else .read ((len : Int) + 1) fun cn => .ret (c6 ++ cn)

/-- `TTY.read` with the pyserial `read` as a pure function -/
def ttyReadWith (rd : Int → Py Bytes) : Py Bytes := ttyReadProg.runWith rd

/-- `TTY.read` on a serial line that delivers `s`: the frame returned and what is left on the line -/
def ttyRead (s : Bytes) : Py (Bytes × Bytes) := ttyReadProg.runLine s

/-- `TTY.write` behind `if self.tty is not None:`: stale input is discarded, then the frame is written unchanged;
a `serial.SerialTimeoutException` of the write becomes `IOError(EIO)` (the handler is in the exception-flow
group `transport`, not here) -/
def ttyWriteWith (flush : Py Int) (wr : Bytes → Py Int) (frame : Bytes) : Py Unit :=
  flush >>= fun _ => wr frame >>= fun _ => .ok ()

/-! ## what a frame on the line is (independent of `TTY.read`): the frame grammar of `HostFrame.Spec.parse` -/

/-- an information frame that the independent reading of the PN53x frame format accepts, or the ACK frame,
made of octets -/
def Framed (f : Bytes) : Prop := IsBytes f ∧ (f = ack ∨ ∃ x, Spec.parse f = some x)

/-- a *normal* information frame with `LEN = 0xFF` (TFI + 254 data octets, `LCS = 0x01`): valid under the frame
format (and what `pnBuild` writes for a payload of 253 octets), but `TTY.read` takes `LEN == 0xFF` alone for the
extended-frame marker `FF FF` -/
def Normal255 (f : Bytes) : Prop := f[3]? = some 0xFF ∧ f[4]? ≠ some 0xFF

/-! ## USB -/

/-- `USB.read` behind the `try` statement: a zero-length bulk read is `IOError(EIO)`, anything else is returned -/
def usbReadCheck (frame : Bytes) : Py Bytes := if frame.length = 0 then .error (.io 5) else .ok frame

/-- the body of the `try` statement of `USB.read`: one bulk read of at most 300 octets from the IN endpoint -/
def usbReadXfer (br : Int → Int → Int → Py Bytes) (addr : Py Int) (timeout : Int) : Py Bytes :=
  addr >>= fun ep => br ep 300 timeout

/-- the bulk transfers of `USB.write(frame)` for an OUT endpoint with packet size `mps`: the frame, and a
zero-length packet when the frame fills its last packet (the device sees the end of a transfer by a short packet) -/
def usbPackets (frame : Bytes) (mps : Nat) : List Bytes := if frame.length % mps = 0 then [frame, []] else [frame]

/-- `bulkWrite(ep, p, timeout)` for every transfer of a list -/
def sendAll (bw : Int → Bytes → Int → Py Int) (ep timeout : Int) : List Bytes → Py Unit
  | [] => .ok ()
  | p :: ps => bw ep p timeout >>= fun _ => sendAll bw ep timeout ps

/-- the body of the `try` statement of `USB.write`, libusb1 calls as pure functions.  `getMaxPacketSize()` is
evaluated after the first transfer; `len(frame) % 0` is a `ZeroDivisionError` -/
def usbWriteWith (bw : Int → Bytes → Int → Py Int) (addr mps : Py Int) (frame : Bytes) (timeout : Int) : Py Unit :=
  addr >>= fun ep =>
  bw ep frame timeout >>= fun _ =>
  mps >>= fun m =>
  if m = 0 then .error .zeroDiv else
  if Int.fmod (frame.length : Int) m = 0 then bw ep [] timeout >>= fun _ => .ok () else .ok ()

/-! ## device paths (`TTY.find`, `USB.find`): the tests that do not involve a regular expression -/

def strStartsWith (s t : String) : Bool := t.toList.isPrefixOf s.toList

/-- `TTY.find` returns `None` at once unless the path starts with `tty` or `com` -/
def ttyPathForeign (path : String) : Bool := !(strStartsWith path "tty" || strStartsWith path "com")

/-- `USB.find` returns `None` at once unless the path starts with `usb` -/
def usbPathForeign (path : String) : Bool := !(strStartsWith path "usb")

/-- which kind of device node name the second path component selects (results of the five regular expression
tests of `TTY.find`, in source order), and whether it stands for several nodes (`glob`) -/
inductive TtyKind | numbered | cls | usbserialNamed | usbserial | other | all
  deriving DecidableEq, Repr

def ttyKind (mNum mCls mUsbN mUsb mAny : Bool) : TtyKind :=
  if mNum then .numbered else if mCls then .cls else if mUsbN then .usbserialNamed else if mUsb then .usbserial
  else if mAny then .other else .all

/-- a path that names one node exactly (`tty:USB0`, `tty:usbserial-X`, `tty:<name>`) is not a glob: an `IOError`
on opening it is propagated; a class (`tty:USB`, `tty:usbserial`, `tty`) is a glob -/
def TtyKind.glob : TtyKind → Bool
  | .numbered | .usbserialNamed | .other => false
  | .cls | .usbserial | .all => true

end NfcVerif.FnTransportRef
