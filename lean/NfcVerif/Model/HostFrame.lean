import NfcVerif.Py
/-!
# Host-link frames (property C14)

Transcription of
* `nfc.clf.pn53x.Chipset.command`  (frame construction and response validation),
* `nfc.clf.acr122.Chipset.ccid_xfr_block` / `command`,
* `nfc.clf.rcs380.Frame.__init__` (command frame construction),
and an independent reading (`Spec`) of the frame formats of the PN53x user
manual, the CCID `RDR_to_PC_DataBlock` and the RC-S380 extended frame.
-/
namespace NfcVerif.HostFrame

def sum (l : Bytes) : Nat := l.foldl (· + ·) 0

def sof : Bytes := [0, 0, 0xFF]
def EIO : Exc := .io 5

/-! ## PN53x: implementation -/

/-- `head + data + tail` written by `Chipset.command` (pn53x.py) -/
def pnBuild (cmd : Nat) (d : Bytes) : Bytes :=
  let n := d.length
  let head :=
    if n < 254 then sof ++ [n + 2, 254 - n]
    else
      let hi := (n + 2) / 256
      let lo := (n + 2) % 256
      sof ++ [0xFF, 0xFF, hi, lo] ++ [(512 - (hi + lo)) % 256]
  let data := [0xD4, cmd] ++ d
  let tail := [(256 - sum data % 256) % 256, 0]
  head ++ data ++ tail

/-- `l.startswith(p)` -/
def startsWith (l p : Bytes) : Bool := p.isPrefixOf l

/-- header validation of `Chipset.command` (`del frame[0:8]` / `del frame[0:5]`) -/
def pnStrip (f : Bytes) : Py Bytes :=
  if startsWith f (sof ++ [0xFF, 0xFF]) then
    if sum (sliceN f 5 8) % 256 ≠ 0 then throw EIO
    else if f.length < 10 then throw EIO
    else do
      let l ← unpackH (sliceN f 5 7) 0
      if l + 10 ≠ f.length then throw EIO else pure (f.drop 8)
  else if startsWith f sof then
    if sum (sliceN f 3 5) % 256 ≠ 0 then throw EIO
    else if f.length < 7 then throw EIO
    else do
      let l ← idxN f 3
      if l + 7 ≠ f.length then throw EIO else pure (f.drop 5)
  else throw EIO

/-- validation of `TFI code data DCS postamble` -/
def pnBody (cmd : Nat) (body : Bytes) : Py Bytes :=
  if body.length < 3 then throw EIO else
  idx body (-1) >>= fun last =>
  if last ≠ 0 then throw EIO else
  if sum body % 256 ≠ 0 then throw EIO else
  idxN body 0 >>= fun tfi =>
  if tfi = 0x7F then throw (.chipsetError 0x7F) else
  if body.length < 4 ∨ tfi ≠ 0xD5 then throw EIO else
  idxN body 1 >>= fun code =>
  if code ≠ cmd + 1 then throw EIO else
  pure (slice body 2 (-2))

/-- response validation of `Chipset.command`, `f` is the frame returned by
`read_frame` once it differs from ACK -/
def pnAccept (cmd : Nat) (f : Bytes) : Py Bytes := do
  let body ← pnStrip f
  pnBody cmd body

/-! ## PN53x: independent frame validator -/

/-- `TFI PD0 PD1.. DCS 00` -/
def Spec.body : Bytes → Option (Nat × Nat × Bytes)
  | tfi :: code :: more =>
    match more.reverse with
    | post :: dcs :: rdata =>
      let data := rdata.reverse
      if post = 0 ∧ (tfi + code + sum data + dcs) % 256 = 0 then some (tfi, code, data) else none
    | _ => none
  | _ => none

/-- normal: `00 00 FF LEN LCS <LEN bytes> DCS 00`;
extended: `00 00 FF FF FF LENM LENL LCS <LEN bytes> DCS 00` -/
def Spec.parse : Bytes → Option (Nat × Nat × Bytes)
  | 0 :: 0 :: 0xFF :: 0xFF :: 0xFF :: lm :: ll :: lcs :: rest =>
    if (lm + ll + lcs) % 256 = 0 ∧ rest.length = lm * 256 + ll + 2 then Spec.body rest else none
  | 0 :: 0 :: 0xFF :: len :: lcs :: rest =>
    if (len + lcs) % 256 = 0 ∧ rest.length = len + 2 then Spec.body rest else none
  | _ => none

/-! ## ACR122 -/

def le32 (n : Nat) : Bytes := [n % 256, n / 256 % 256, n / 65536 % 256, n / 16777216 % 256]
def unLe32 : Bytes → Nat
  | [a, b, c, d] => a + 256 * b + 65536 * c + 16777216 * d
  | _ => 0

/-- bytes written by `ccid_xfr_block(data)` -/
def ccidBuild (data : Bytes) : Bytes := [0x6F] ++ le32 data.length ++ [0, 0, 0, 0, 0] ++ data

/-- bytes written by `acr122.Chipset.command`; `bytearray([.., len(frame)])`
raises ValueError when the pseudo APDU body exceeds 255 bytes -/
def acrBuild (cmd : Nat) (d : Bytes) : Py Bytes :=
  let frame := [0xD4, cmd] ++ d
  if frame.length > 255 then throw .value
  else pure (ccidBuild ([0xFF, 0, 0, 0, frame.length] ++ frame))

def ccidAccept (f : Bytes) : Py Bytes :=
  if f.length < 10 then throw EIO else
  idxN f 0 >>= fun t =>
  if t ≠ 0x80 then throw EIO else
  if f.length ≠ 10 + unLe32 (sliceN f 1 5) then throw EIO else
  pure (f.drop 10)

def acrBody (cmd : Nat) (f : Bytes) : Py Bytes :=
  if f.length < 4 then throw EIO else
  idxN f 0 >>= fun a =>
  idxN f 1 >>= fun b =>
  if ¬ (a = 0xD5 ∧ b = cmd + 1) then throw EIO else
  idx f (-2) >>= fun y =>
  idx f (-1) >>= fun z =>
  if ¬ (y = 0x90 ∧ z = 0) then throw EIO else
  pure (slice f 2 (-2))

def acrAccept (cmd : Nat) (raw : Bytes) : Py Bytes :=
  ccidAccept raw >>= acrBody cmd

/-- CCID `PC_to_RDR_Escape` (0x6F): type, dwLength, slot, seq, 3 RFU, abData -/
def Spec.ccidEscape : Bytes → Option Bytes
  | 0x6F :: l0 :: l1 :: l2 :: l3 :: _ :: _ :: _ :: _ :: _ :: data =>
    if data.length = unLe32 [l0, l1, l2, l3] then some data else none
  | _ => none

/-- ACR122 pseudo APDU `FF 00 00 00 Lc <D4 cmd data>` -/
def Spec.acrCommand (f : Bytes) : Option (Nat × Bytes) :=
  match Spec.ccidEscape f with
  | some (0xFF :: 0 :: 0 :: 0 :: lc :: 0xD4 :: cmd :: d) => if lc = d.length + 2 ∧ lc < 256 then some (cmd, d) else none
  | _ => none

/-- CCID `RDR_to_PC_DataBlock` (0x80) carrying `D5 code data 90 00` -/
def Spec.acrResponse : Bytes → Option (Nat × Bytes)
  | 0x80 :: l0 :: l1 :: l2 :: l3 :: _ :: _ :: _ :: _ :: _ :: 0xD5 :: code :: more =>
    if more.length + 2 = unLe32 [l0, l1, l2, l3] then
      match more.reverse with
      | 0 :: 0x90 :: rdata => some (code, rdata.reverse)
      | _ => none
    else none
  | _ => none

/-! ## RC-S380 command frame -/

def rcsBuild (d : Bytes) : Bytes :=
  let lo := d.length % 256
  let hi := d.length / 256
  [0, 0, 255, 255, 255] ++ [lo, hi] ++ [(512 - (lo + hi)) % 256] ++ d ++ [(256 - sum d % 256) % 256, 0]

/-- `00 00 FF FF FF LENL LENM LCS <data> DCS 00` (little endian length) -/
def Spec.rcsParse : Bytes → Option Bytes
  | 0 :: 0 :: 0xFF :: 0xFF :: 0xFF :: ll :: lm :: lcs :: rest =>
    if (ll + lm + lcs) % 256 = 0 ∧ rest.length = lm * 256 + ll + 2 then
      match rest.reverse with
      | 0 :: dcs :: rdata => if (sum rdata.reverse + dcs) % 256 = 0 then some rdata.reverse else none
      | _ => none
    else none
  | _ => none

end NfcVerif.HostFrame
