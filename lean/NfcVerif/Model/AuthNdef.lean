import NfcVerif.Model.AuthHist
/-!
# The public face of the tag object: `tag.ndef`, `Tag.authenticate`, `Tag.format`, `Tag.protect`

`Model/AuthHist.lean` has the methods that talk to the card.  Here the attributes that decide WHAT
`tag.ndef` hands to the application are added to the tag object:

* `ndef`: the cached `Tag._ndef` object (its `_data`), `none` when `_ndef is None`;
* `useMac`: `read_from_ndef_service` is `read_with_mac` (set by a successful `_authenticate`, reset
  when an authentication starts and, for Lite-S, during the external authentication);
* `sys12fc`: `tag.sys == 0x12FC` (otherwise `_read_ndef_data` polls for the NDEF system code first).

Transcribed: `Tag.ndef`, `Tag.NDEF.has_changed`, `Tag.authenticate` (drops the cached NDEF object
after a successful authentication), `Tag.format`, `Tag.protect` (nfc/tag/__init__.py),
`Type3Tag.NDEF._read_attribute_data`, `_read_ndef_data`, `Type3Tag.polling` (tt3.py),
`FelicaLite.NDEF._read_attribute_data` (at most three blocks per read once authenticated),
`FelicaLiteS.NDEF._read_attribute_data` (reads MC once authenticated), `FelicaLite._format`,
`FelicaLite._protect` / `FelicaLiteS._protect` with `protect_from = 0` (tt3_sony.py).

`noneOk`: the two behaviours when `read_with_mac` returns `None` (MAC verification failed) inside
`tag.ndef`: `false` is the code as found - `None` is subscripted / concatenated, a `TypeError`
leaves `tag.ndef` (finding `ndef-mac-failure-typeerror`); `true` is the repair - no NDEF data.
Not modelled: NDEF writes (`tag.ndef.octets = ...`), a polling answer with another IDm.
-/
namespace NfcVerif.AuthNdef
open NfcVerif NfcVerif.Mac NfcVerif.Auth NfcVerif.AuthCard NfcVerif.AuthHist NfcVerif.AuthHist.RW

structure NSt (σ : Type) where
  st : St σ
  /-- `Tag._ndef`: `some data` = an NDEF object with `_data = data` -/
  ndef : Option Bytes
  /-- `read_from_ndef_service is read_with_mac` -/
  useMac : Bool
  /-- `tag.sys == 0x12FC` -/
  sys12fc : Bool

def NRW (σ α : Type) := NSt σ → Py α × NSt σ

namespace NRW
variable {σ α β : Type}

def ret (a : α) : NRW σ α := fun n => (.ok a, n)

def andThen (m : NRW σ α) (f : α → NRW σ β) : NRW σ β := fun n =>
  match m n with
  | (.ok a, n') => f a n'
  | (.error e, n') => (.error e, n')

instance : Monad (NRW σ) where
  pure := NRW.ret
  bind := NRW.andThen

/-- a method of `Model/AuthHist.lean` -/
def up (m : RW σ α) : NRW σ α := fun n =>
  let r := m n.st
  (r.1, { n with st := r.2 })

def fail (e : Exc) : NRW σ α := fun n => (.error e, n)

def get : NRW σ (NSt σ) := fun n => (.ok n, n)

def setNdef (v : Option Bytes) : NRW σ Unit := fun n => (.ok (), { n with ndef := v })
def setUseMac (b : Bool) : NRW σ Unit := fun n => (.ok (), { n with useMac := b })
def setSys : NRW σ Unit := fun n => (.ok (), { n with sys12fc := true })

/-- `try: m  except Type3TagCommandError: return None` -/
def catchTag (m : NRW σ α) : NRW σ (Option α) := fun n =>
  match m n with
  | (.ok a, n') => (.ok (some a), n')
  | (.error (.tagCmd _), n') => (.ok none, n')
  | (.error e, n') => (.error e, n')

end NRW
open NRW

section methods
variable {σ : Type} (C : Cipher) (forget noneOk : Bool) (x : Air σ) (idm : Bytes)

/-- `Type3Tag.polling(0x12FC)` as `_read_ndef_data` uses it: the IDm of the answer is taken over
(an answer with another IDm is outside the model) -/
def pollNdef : NRW σ Unit :=
  up (sendRecv x [6, 0, 0x12, 0xFC, 0, 0]) >>= fun rsp =>
  if rsp.length < 2 then fail (.tagCmd 1) else
  up (lift (idx rsp 0)) >>= fun l =>
  if l ≠ rsp.length then fail (.tagCmd 1) else
  up (lift (idx rsp 1)) >>= fun c =>
  if c ≠ 1 then fail (.tagCmd 2) else
  if (rsp.drop 2).length ≠ 16 then fail (.tagCmd 4) else
  if (rsp.drop 2).take 8 ≠ idm then fail .outOfFuel else
  setSys

/-- `self._tag.read_from_ndef_service(*blocks)`: `read_with_mac` after a successful
authentication, else `read_without_mac`; `none` is Python's `None` (MAC verification failed) -/
def readService (blocks : List Nat) : NRW σ (Option Bytes) :=
  get >>= fun n =>
  if n.useMac then up (readMac C x idm blocks)
  else up (readPlain x idm blocks) >>= fun d => pure (some d)

/-- the read with the `None` result subscripted or concatenated by the caller -/
def readData (blocks : List Nat) : NRW σ (Option Bytes) :=
  catchTag (readService C x idm blocks) >>= fun r =>
  match r with
  | none => pure none                       -- Type3TagCommandError: "return None"
  | some none => if noneOk then pure none else fail .type_
  | some (some d) => pure (some d)

structure Attr where
  ver : Nat
  nbr : Nat
  nbw : Nat
  nmaxb : Nat
  writef : Nat
  rwflag : Nat
  ln : Nat
  deriving DecidableEq, Repr

def sumB (l : Bytes) : Nat := l.foldl (· + ·) 0

/-- the attribute block (16 octets) -/
def parseAttr (d : Bytes) : Option Attr :=
  match d with
  | [a0, a1, a2, a3, a4, _, _, _, _, a9, a10, a11, a12, a13, c0, c1] =>
    if sumB (d.take 14) ≠ c0 * 256 + c1 then none
    else some ⟨a0, a1, a2, a3 * 256 + a4, a9, a10, a11 * 65536 + a12 * 256 + a13⟩
  | _ => none

/-- `FelicaLite.NDEF._read_attribute_data` / `FelicaLiteS.NDEF._read_attribute_data` -/
def readAttr (liteS : Bool) : NRW σ (Option Attr) :=
  readData C noneOk x idm [0] >>= fun d =>
  match d with
  | none => pure none
  | some d =>
    match parseAttr d with
    | none => pure none
    | some a =>
      get >>= fun n =>
      if n.st.rd.authed then
        (if liteS then up (readPlain x idm [0x88]) >>= fun _ => pure () else pure ()) >>= fun _ =>
        pure (some { a with nbr := min a.nbr 3 })
      else pure (some a)

/-- the read loop of `_read_ndef_data`: blocks `i ..< last` in pieces of `nbr` -/
def readChunks (nbr last : Nat) : Nat → Nat → Bytes → NRW σ (Option Bytes)
  | 0, _, acc => pure (some acc)
  | fuel + 1, i, acc =>
    if i ≥ last then pure (some acc) else
    readData C noneOk x idm (List.range' i (min (i + nbr) last - i)) >>= fun d =>
    match d with
    | none => pure none
    | some d => readChunks nbr last fuel (i + nbr) (acc ++ d)

/-- `Type3Tag.NDEF._read_ndef_data` -/
def fetch (liteS : Bool) : NRW σ (Option Bytes) :=
  get >>= fun n =>
  (if n.sys12fc then pure true else
    catchTag (pollNdef x idm) >>= fun r => pure r.isSome) >>= fun ok =>
  if !ok then pure none else
  readAttr C noneOk x idm liteS >>= fun a =>
  match a with
  | none => pure none
  | some a =>
    if a.ver / 16 ≠ 1 then pure none else
    if a.ln > a.nmaxb * 16 then pure none else
    if min a.nbr 15 = 0 then pure none else
    readChunks C noneOk x idm (min a.nbr 15) (1 + (a.ln + 15) / 16) (1 + (a.ln + 15) / 16) 1 [] >>= fun d =>
    match d with
    | none => pure none
    | some d => pure (some (d.take a.ln))

/-- `tag.ndef`: the cached object, or a new `NDEF(tag)` whose `has_changed` fetched data -/
def ndefProp (liteS : Bool) : NRW σ (Option Bytes) :=
  get >>= fun n =>
  match n.ndef with
  | some d => pure (some d)
  | none =>
    fetch C noneOk x idm liteS >>= fun d =>
    setNdef d >>= fun _ => pure d

/-- `tag.ndef.has_changed` (after `tag.ndef` gave an object): `none` when `tag.ndef is None` -/
def hasChanged (liteS : Bool) : NRW σ (Option Bool) :=
  ndefProp C noneOk x idm liteS >>= fun o =>
  match o with
  | none => pure none
  | some old =>
    fetch C noneOk x idm liteS >>= fun d =>
    setNdef d >>= fun _ => pure (some (decide (d ≠ some old)))

/-- `Tag.authenticate` → `FelicaLite._authenticate`: the NDEF read service is `read_without_mac`
from the moment the key is derived, `read_with_mac` after success, and a successful
authentication drops the cached NDEF object -/
def authN (pw rc : Bytes) : NRW σ Bool :=
  up (lift (liteKey pw)) >>= fun _ =>
  setUseMac false >>= fun _ =>
  up (authLite C forget x idm pw rc) >>= fun ok =>
  if ok then setUseMac true >>= fun _ => setNdef none >>= fun _ => pure true
  else pure false

/-- `FelicaLiteS.authenticate`: the inner `Tag.authenticate` as above; during the external
authentication the NDEF services are the plain ones again, `read_with_mac` when it succeeded -/
def authNS (pw rc : Bytes) : NRW σ Bool :=
  authN C forget x idm pw rc >>= fun ok =>
  if !ok then pure false else
  setUseMac false >>= fun _ =>
  up (extAuthS C x idm) >>= fun ok2 =>
  if ok2 then setUseMac true >>= fun _ => pure true else pure false

def auth (liteS : Bool) (pw rc : Bytes) : NRW σ Bool :=
  if liteS then authNS C forget x idm pw rc else authN C forget x idm pw rc

/-- number of writable data blocks: the first `n` in `0..13` with bit `n+1` of the R/W bits clear -/
def nmaxbOf (rw : Nat) : Nat → Nat → Nat
  | 0, n => n
  | fuel + 1, n => if n ≥ 13 then 13 else if (rw >>> (n + 1)) % 2 = 0 then n else nmaxbOf rw fuel (n + 1)

def wipeLoop (v : Nat) : Nat → Nat → NRW σ Unit
  | 0, _ => pure ()
  | k + 1, b => up (writePlain x idm (List.replicate 16 v) b) >>= fun _ => wipeLoop v k (b + 1)

/-- `Tag.format(version=0x10, wipe)` → `FelicaLite._format` -/
def format (wipe : Option Nat) : NRW σ Bool :=
  up (readPlain x idm [0x88]) >>= fun mc =>
  up (lift (idx mc 0)) >>= fun m0 =>
  if m0 % 2 ≠ 1 then pure false else
  up (lift (idx mc 3)) >>= fun m3 =>
  up (lift (idx mc 2)) >>= fun m2 =>
  (if m3 % 2 = 1 then pure (some mc)
   else if m2 = 0xFF then up (writePlain x idm (mc.set 3 (m3 ||| 1)) 0x88) >>= fun _ => pure (some (mc.set 3 (m3 ||| 1)))
   else pure none) >>= fun r =>
  match r with
  | none => pure false
  | some mc =>
    up (lift (idx mc 1)) >>= fun m1 =>
    let nmaxb := nmaxbOf (m0 + 256 * m1) 14 0
    let a : Bytes := [0x10, 4, 1, 0, nmaxb, 0, 0, 0, 0, 0, 1, 0, 0, 0]
    up (writePlain x idm (a ++ [sumB a / 256, sumB a % 256]) 0) >>= fun _ =>
    (match wipe with
     | none => pure ()
     | some v => wipeLoop x idm v nmaxb 1) >>= fun _ =>
    setNdef none >>= fun _ => pure true

/-- the NDEF step of `_protect` for `protect_from = 0`: the RW flag of the attribute block is cleared -/
def protectNdefStep (liteS : Bool) (pf : Nat) : NRW σ Unit :=
  if pf ≠ 0 then pure () else
  ndefProp C noneOk x idm liteS >>= fun o =>
  match o with
  | none => pure ()
  | some _ =>
    up (readPlain x idm [0]) >>= fun a =>
    let a1 := a.set 10 0
    up (writePlain x idm (setSlice a1 14 [sumB (a1.take 14) / 256 % 256, sumB (a1.take 14) % 256]) 0)

/-- `FelicaLiteS._protect` up to the NDEF step (`AuthHist.protectLiteSA` with the tag object's
`authenticate`, which also switches the NDEF read service and drops the cached NDEF object) -/
def protectSA (pw : Option Bytes) (rp : Bool) (pf : Nat) (rc : Bytes) : NRW σ (Option Bytes) :=
  up (lift (pwCheck pw)) >>= fun _ =>
  up (readPlain x idm [0x88]) >>= fun mc =>
  (match pw with
   | none => pure (some mc)
   | some p =>
     up (lift (idx mc 2)) >>= fun m2 =>
     up (lift (idx mc 5)) >>= fun m5 =>
     get >>= fun n =>
     if m2 ≠ 0xFF ∧ (m5 % 2 = 0 ∨ n.st.rd.authed = false) then pure none else
     up (readPlain x idm [0x86]) >>= fun ckv =>
     up (lift (idx ckv 0)) >>= fun v0 =>
     up (lift (idx ckv 1)) >>= fun v1 =>
     up (writePlain x idm (le16 (min (v0 + 256 * v1 + 1) 0xFFFF) ++ zeros 14) 0x86) >>= fun _ =>
     up (writePlain x idm (revHalves (keyOf p)) 0x87) >>= fun _ =>
     authNS C forget x idm (keyOf p) rc >>= fun ok =>
     if !ok then pure none else
     pure (some (if rp ∧ pf < 14 then setSlice mc 6 (le16 (2 ^ 14 - 2 ^ pf)) else mc))) >>= fun r =>
  match r with
  | none => pure none
  | some mc =>
    pure (some (if pf < 14 then setSlice (setSlice mc 8 (le16 (2 ^ 14 - 2 ^ pf))) 10 (le16 (2 ^ 14 - 2 ^ pf)) else mc))

/-- `Tag.protect(password, read_protect, protect_from)` for FelicaLite / FelicaLiteS, any `protect_from` -/
def protect (liteS : Bool) (pw : Option Bytes) (rp : Bool) (pf : Nat) (rc : Bytes) : NRW σ Bool :=
  (if liteS then protectSA C forget x idm pw rp pf rc else up (protectLiteA x idm pw rp pf)) >>= fun r =>
  match r with
  | none => pure false
  | some mc1 =>
    protectNdefStep C noneOk x idm liteS pf >>= fun _ =>
    up (if liteS then protectLiteSB x idm mc1 else protectLiteB x idm mc1) >>= fun _ =>
    setNdef none >>= fun _ => pure true

/-! ## histories over the public attributes -/

inductive NOp (σ : Type) where
  | auth (pw rc : Bytes)
  /-- `tag.ndef` and, when it is an object, its `octets` -/
  | ndef
  /-- `tag.ndef.has_changed` -/
  | changed
  | format (wipe : Option Nat)
  | protect (pw : Option Bytes) (rp : Bool) (pf : Nat) (rc : Bytes)
  /-- a method of `Model/AuthHist.lean` that does not touch the public attributes:
  `read_with_mac`, `write_with_mac`, plain reads and writes, world events -/
  | low (op : Op σ)

inductive NRes where
  | bool (b : Bool)
  | data (d : Option Bytes)
  | obool (b : Option Bool)
  | unit
  deriving DecidableEq, Repr

def ofRes : Res → NRes
  | .bool b => .bool b
  | .data d => .data d
  | .unit => .unit

def nstep (liteS : Bool) : NOp σ → NRW σ NRes
  | .auth pw rc => auth C forget x idm liteS pw rc >>= fun b => pure (.bool b)
  | .ndef => ndefProp C noneOk x idm liteS >>= fun d => pure (.data d)
  | .changed => hasChanged C noneOk x idm liteS >>= fun b => pure (.obool b)
  | .format wipe => format x idm wipe >>= fun b => pure (.bool b)
  | .protect pw rp pf rc => protect C forget noneOk x idm liteS pw rp pf rc >>= fun b => pure (.bool b)
  | .low op => up (step C forget x idm liteS op) >>= fun r => pure (ofRes r)

def nrun (liteS : Bool) : List (NOp σ) → NSt σ → List (Py NRes) × NSt σ
  | [], n => ([], n)
  | op :: ops, n =>
    let r := nstep C forget noneOk x idm liteS op n
    let rest := nrun liteS ops r.2
    (r.1 :: rest.1, rest.2)

end methods
end NfcVerif.AuthNdef

/-! ## the NDEF cache of `nfc.tag.Tag` on its own (every tag type; used for NTAG21x)

`Tag.ndef`, `Tag.authenticate`, `Tag.protect`, `Tag.format` of nfc/tag/__init__.py with the tag type
specific parts as inputs: what `_read_ndef_data` would return, what `_authenticate` / `_protect` /
`_format` return or raise. -/
namespace NfcVerif.TagCache
open NfcVerif

inductive COp where
  /-- `tag.ndef`; `f`: what `_read_ndef_data()` returns should it be called now -/
  | ndef (f : Option Bytes)
  /-- `tag.authenticate(pw)`; `r`: outcome of `self._authenticate(pw)` -/
  | auth (r : Py Bool)
  /-- `tag.protect(...)`; `r`: outcome of `self._protect(...)` -/
  | protect (r : Py Bool)
  /-- `tag.format(...)`; `r`: outcome of `self._format(...)` -/
  | format (r : Py Bool)

structure CRes where
  /-- the value handed to the application -/
  value : Py (Option Bytes)
  /-- `_read_ndef_data` was called (the tag was read) -/
  fetched : Bool
  deriving DecidableEq

/-- `cache`: `Tag._ndef` (the `_data` of the cached NDEF object) -/
def cstep (cache : Option Bytes) : COp → CRes × Option Bytes
  | .ndef f =>
    match cache with
    | some d => (⟨.ok (some d), false⟩, cache)
    | none => (⟨.ok f, true⟩, f)
  | .auth r => (⟨r.map fun _ => none, false⟩, if r = .ok true then none else cache)
  | .protect r => (⟨r.map fun _ => none, false⟩, if r = .ok true then none else cache)
  | .format r => (⟨r.map fun _ => none, false⟩, if r = .ok true then none else cache)

def crun : List COp → Option Bytes → List CRes × Option Bytes
  | [], c => ([], c)
  | op :: ops, c =>
    let r := cstep c op
    let rest := crun ops r.2
    (r.1 :: rest.1, rest.2)

end NfcVerif.TagCache
