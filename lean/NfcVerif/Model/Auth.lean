import NfcVerif.Model.Mac
/-!
# Reader side of tag authentication: FeliCa Lite / Lite-S and NTAG21x

Transcriptions of `FelicaLite._authenticate`, `read_with_mac`, `_protect`
(key provisioning), `FelicaLiteS.authenticate`, `write_with_mac` (tt3_sony.py),
of the response checks of `Type3Tag.send_cmd_recv_rsp` /
`read_without_encryption` (tt3.py) that sit below them, and of
`NTAG21x._authenticate` / `_protect_with_password` (tt2_nxp.py).

The air interface is a parameter: every function takes the response frames as
they ARRIVE at the reader (possibly modified in transit) and returns what the
reader does with them.  Frames lost in transit (retries) are not part of the
model.  Lite-S `authenticate` is modelled with the repair of the finding
`lite-s-auth-mac-failure-typeerror` (a failed MAC check of the state block
yields `False`).

`Tag` (bottom) is the tag of the user manuals, written independently of the
reader functions: all values are little-endian words, i.e. byte-reversed.
-/
namespace NfcVerif.Auth
open NfcVerif NfcVerif.Mac

def zeros (n : Nat) : Bytes := List.replicate n 0

/-! ## Type 3 Tag command / response frames -/

/-- `bytearray([2+len(idm)+len(cmd_data), cmd_code]) + idm + cmd_data` -/
def t3Command (idm : Bytes) (code : Nat) (data : Bytes) : Py Bytes :=
  let n := 2 + idm.length + data.length
  if n > 255 then .error .value else .ok ([n, code] ++ idm ++ data)

/-- the checks of `send_cmd_recv_rsp` (send_idm, check_status) on an arrived frame of any length
(`len(rsp) < 12 or rsp[0] != len(rsp)` is the first check) -/
def t3Response (idm : Bytes) (code : Nat) (rsp : Bytes) : Py Bytes :=
  if rsp.length < 12 then .error (.tagCmd 1) else
  idx rsp 0 >>= fun l =>
  if l ≠ rsp.length then .error (.tagCmd 1) else
  idx rsp 1 >>= fun c =>
  if c ≠ code + 1 then .error (.tagCmd 2) else
  if slice rsp 2 10 ≠ idm then .error (.tagCmd 3) else
  idx rsp 10 >>= fun s1 =>
  if s1 ≠ 0 then
    match slice rsp 10 12 with
    | [a, b] => .error (.tagCmd ((a * 256 + b : Nat) : Int))
    | _ => .error .struct
  else .ok (rsp.drop 12)

/-- block list elements `BlockCode(n).pack()` for block numbers below 256 -/
def blockList (blocks : List Nat) : Bytes := blocks.flatMap fun n => [0x80, n]

def readCmd (idm : Bytes) (blocks : List Nat) : Py Bytes :=
  t3Command idm 6 ([1, 0x0B, 0x00, blocks.length] ++ blockList blocks)

/-- `read_without_encryption`: frame checks, then the size check, then the block data -/
def readRsp (idm : Bytes) (blocks : List Nat) (rsp : Bytes) : Py Bytes :=
  t3Response idm 6 rsp >>= fun d =>
  if d.length ≠ 1 + blocks.length * 16 then .error (.tagCmd 4) else .ok (d.drop 1)

def writeCmd (idm : Bytes) (blocks : List Nat) (data : Bytes) : Py Bytes :=
  t3Command idm 8 ([1, 0x09, 0x00, blocks.length] ++ blockList blocks ++ data)

def writeRsp (idm : Bytes) (rsp : Bytes) : Py Unit :=
  t3Response idm 8 rsp >>= fun _ => .ok ()

/-! ## FeliCa Lite -/

/-- card key from the password: factory key for the empty password, else the first 16 octets -/
def liteKey (pw : Bytes) : Py Bytes :=
  if pw ≠ [] ∧ pw.length < 16 then .error .value
  else .ok (if pw = [] then zeros 16 else pw.take 16)

/-- `x[7::-1] + x[15:7:-1]` -/
def revHalves (x : Bytes) : Bytes := (x.take 8).reverse ++ ((x.drop 8).take 8).reverse

/-- the command that provisions the card key (`_protect`: write block 0x87) -/
def liteProtectKeyCmd (idm pw : Bytes) : Py Bytes :=
  liteKey pw >>= fun key => writeCmd idm [0x87] (revHalves key)

/-- `_protect(password, ...)` on a tag whose system blocks are writable: `password is None` (Lean
`none`) leaves the card key alone, every other password - the EMPTY one included, which selects the
factory key of 16 zero octets - writes the key block -/
def liteProtectKeyWrite (idm : Bytes) (pw : Option Bytes) : Py (Option Bytes) :=
  match pw with
  | none => .ok none
  | some pw => liteProtectKeyCmd idm pw >>= fun c => .ok (some c)

/-- first command of `_authenticate`: the challenge written to the RC block -/
def liteChallengeCmd (idm rc : Bytes) : Py Bytes := writeCmd idm [0x80] (revHalves rc)

structure Session where
  sk : Bytes
  iv : Bytes
  deriving DecidableEq, Repr

/-- `FelicaLite._authenticate(password)` with challenge `rc = os.urandom(16)`; `rsp1`, `rsp2`
are the frames that arrive for the RC write and for the read of blocks 0x82, 0x81.
Result: authenticated?, and the session (`_sk`, `_iv`) that is stored when true. -/
def liteAuthenticate (C : Cipher) (idm pw rc rsp1 rsp2 : Bytes) : Py (Bool × Option Session) :=
  liteKey pw >>= fun key =>
  liteChallengeCmd idm rc >>= fun _ =>
  writeRsp idm rsp1 >>= fun _ =>
  sessionKey C key rc >>= fun sk =>
  readCmd idm [0x82, 0x81] >>= fun _ =>
  readRsp idm [0x82, 0x81] rsp2 >>= fun data =>
  generateMac C (slice data 0 (-16)) sk (rc.take 8) false >>= fun m =>
  if slice data (-16) (-8) = m then .ok (true, some ⟨sk, rc.take 8⟩) else .ok (false, none)

/-- `read_with_mac(*blocks)`: `none` is Python's `None` (MAC verification failed) -/
def readWithMac (C : Cipher) (idm : Bytes) (s : Option Session) (blocks : List Nat) (rsp : Bytes) :
    Py (Option Bytes) :=
  match s with
  | none => .error .runtime
  | some s =>
    readCmd idm (blocks ++ [0x81]) >>= fun _ =>
    readRsp idm (blocks ++ [0x81]) rsp >>= fun data =>
    generateMac C (slice data 0 (-16)) s.sk s.iv false >>= fun m =>
    if slice data (-16) (-8) ≠ m then .ok none else .ok (some (slice data 0 (-16)))

/-! ## FeliCa Lite-S -/

/-- `write_with_mac(data, block)`: the write command sent after the WCNT read answered `rspW` -/
def writeWithMacCmd (C : Cipher) (idm : Bytes) (s : Option Session) (data : Bytes) (block : Nat)
    (rspW : Bytes) : Py Bytes :=
  if data.length ≠ 16 then .error .value else
  match s with
  | none => .error .runtime
  | some s =>
    readCmd idm [0x90] >>= fun _ =>
    readRsp idm [0x90] rspW >>= fun w =>
    let wcnt := w.take 3
    if block > 255 then .error .value else
    let d := wcnt ++ [0, block, 0, 0x91, 0] ++ data
    generateMac C d (s.sk.drop 8 ++ s.sk.take 8) s.iv false >>= fun m =>
    writeCmd idm [block, 0x91] (sliceN d 8 24 ++ (m ++ wcnt ++ zeros 5))

/-- `FelicaLiteS.authenticate`: internal authentication, then external authentication by a
MAC-protected write of 01 to the STATE block (0x92) and a MAC-protected read of it -/
def liteSAuthenticate (C : Cipher) (idm pw rc rsp1 rsp2 rsp3 rsp4 rsp5 : Bytes) : Py Bool :=
  liteAuthenticate C idm pw rc rsp1 rsp2 >>= fun r =>
  if r.1 = false then .ok false else
  writeWithMacCmd C idm r.2 ([1] ++ zeros 15) 0x92 rsp3 >>= fun _ =>
  writeRsp idm rsp4 >>= fun _ =>
  readWithMac C idm r.2 [0x92] rsp5 >>= fun d =>
  match d with
  | none => .ok false
  | some d => idx d 0 >>= fun b => .ok (b == 1)

/-! ## NTAG21x -/

def ntagKey (pw : Bytes) : Py Bytes :=
  if pw ≠ [] ∧ pw.length < 6 then .error .value
  else .ok (if pw = [] then [0xFF, 0xFF, 0xFF, 0xFF, 0, 0] else pw.take 6)

/-- PWD_AUTH command -/
def ntagAuthCmd (key : Bytes) : Bytes := [0x1B] ++ key.take 4

/-- `NTAG21x._authenticate`; `rsp` is what `transceive` gives: the arrived octets or a
`Type2TagCommandError` -/
def ntagAuthenticate (pw : Bytes) (rsp : Py Bytes) : Py Bool :=
  ntagKey pw >>= fun key =>
  match rsp with
  | .ok r => .ok (decide (r = (key.drop 4).take 2))
  | .error (.tagCmd _) => .ok false
  | .error e => .error e

/-- `_protect_with_password`: the four configuration pages written, from the 16 octets `cfg`
read at the configuration page -/
def ntagProtectPages (pw : Bytes) (readProtect : Bool) (protectFrom : Nat) (cfg : Bytes) : Py (List Bytes) :=
  ntagKey pw >>= fun key =>
  if cfg.length ≠ 16 then .error .index else
  let cfg := cfg.take 8 ++ key ++ cfg.drop 14
  let cfg := cfg.set 3 (max 3 (min protectFrom 255))
  let c4 := cfg.getD 4 0
  let cfg := cfg.set 4 (if readProtect then c4 ||| 0x80 else c4 &&& 0x7F)
  .ok [sliceN cfg 0 4, sliceN cfg 4 8, sliceN cfg 8 12, sliceN cfg 12 16]

/-! ## the tags (independent of the reader functions above) -/

/-- little-endian word of eight stored octets, most significant octet first -/
def word (stored : Bytes) (i : Nat) : Bytes := ((stored.drop (8 * i)).take 8).reverse

structure LiteTag where
  ck : Bytes      -- block 0x87: CK1 | CK2
  rc : Bytes      -- block 0x80: RC1 | RC2
  wcnt : Bytes    -- block 0x90

namespace LiteTag
/-- SK1 = E_CK(RC1), SK2 = E_CK(RC2 xor SK1) -/
def sk1 (C : Cipher) (t : LiteTag) : Bytes := C (word t.ck 0 ++ word t.ck 1) (word t.rc 0)
def sk2 (C : Cipher) (t : LiteTag) : Bytes := C (word t.ck 0 ++ word t.ck 1) (xorB (word t.rc 1) (sk1 C t))

def chain (E : Bytes → Bytes) : Bytes → List Bytes → Bytes
  | x, [] => x
  | x, w :: ws => chain E (E (xorB x w)) ws

/-- MAC of a read over the data `words` (8 octets each, as transmitted): start value RC1,
key SK1|SK2, result transmitted least significant octet first -/
def mac (C : Cipher) (t : LiteTag) (halves : List Bytes) : Bytes :=
  (chain (C (sk1 C t ++ sk2 C t)) (word t.rc 0) (halves.map List.reverse)).reverse

/-- MAC_A of a write: key SK2|SK1, first word WCNT,00,block,00,91,00 -/
def macA (C : Cipher) (t : LiteTag) (block : Nat) (data : Bytes) : Bytes :=
  (chain (C (sk2 C t ++ sk1 C t)) (word t.rc 0)
    (([t.wcnt.take 3 ++ [0, block, 0, 0x91, 0]] ++ chunks8 data).map List.reverse)).reverse

/-- response frame to a read of blocks whose data is `data`, followed by the MAC block -/
def readFrame (C : Cipher) (t : LiteTag) (idm : Bytes) (nblocks : Nat) (data : Bytes) : Bytes :=
  let body := data ++ mac C t (chunks8 data) ++ zeros 8
  [13 + body.length, 7] ++ idm ++ [0, 0, nblocks] ++ body
end LiteTag

def writeOk (idm : Bytes) : Bytes := [12, 9] ++ idm ++ [0, 0]

/-- a well-formed response frame (length, response code, IDm, status 00 00) with the given body -/
def rspFrame (idm : Bytes) (code : Nat) (body : Bytes) : Bytes := [12 + body.length, code + 1] ++ idm ++ [0, 0] ++ body

structure NtagTag where
  pwd : Bytes
  pack : Bytes

/-- PWD_AUTH handling of the NTAG21x data sheet: PACK for the right password, else NAK -/
def NtagTag.respond (t : NtagTag) (cmd : Bytes) : Bytes :=
  if cmd = [0x1B] ++ t.pwd then t.pack else [0x00]

/-- PWD and PACK after the four configuration pages were written -/
def NtagTag.ofPages (pages : List Bytes) : NtagTag :=
  ⟨pages.getD 2 [], (pages.getD 3 []).take 2⟩

end NfcVerif.Auth
