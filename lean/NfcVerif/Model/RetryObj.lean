import NfcVerif.Model.Retry
/-!
# C16 - histories on one FeliCa Lite / Lite-S tag object: what the object remembers besides the NDEF cache

`tt3_sony.FelicaLite` / `FelicaLiteS` keep a *session* in the tag object: the session key
(`_sk`, `_iv`), `_authenticated`, and - as instance attributes that shadow the methods - which
accessor `Type3Tag.NDEF` uses to reach the NDEF service: `read_from_ndef_service` is
`read_without_mac` or `read_with_mac`, `write_to_ndef_service` is `write_without_mac` or
`write_with_mac`.  `read_with_mac` / `write_with_mac` raise `RuntimeError` when there is no
session key.  `authenticate()` changes all of this in the middle of a multi-command operation,
so what it leaves behind when one of its commands fails for good decides whether every later
NDEF access still ends in a documented way.

Here the object state is explicit (`Obj`), every public operation is a function
`Obj → World → Outcome × Obj × World` made of command programs of `Model/Retry.lean` (the programs
depend on the object state: which accessor, with or without the MAC block, polling for the NDEF
system code done or not) and of the assignments the code makes between its commands.
`Variant.resetFirst` says where `_authenticate` puts the accessors back to the ones without MAC:
before its first command (the code as it is) or only where it reports a failed MAC comparison (a
variant that is equivalent for every normal return and differs only when a command error leaves
the method - kept in the model to show that the theorem is about this very assignment).
-/
namespace NfcVerif.RetryObj
open NfcVerif NfcVerif.Retry

/-- what a FeliCa Lite / Lite-S tag object carries from one operation to the next -/
structure Obj where
  sk : Bool := false       -- `_sk` / `_iv` hold a session key
  auth : Bool := false     -- `_authenticated`
  rdMac : Bool := false    -- `read_from_ndef_service` is `read_with_mac`
  wrMac : Bool := false    -- `write_to_ndef_service` is `write_with_mac`
  cached : Bool := false   -- `_ndef` holds an NDEF object
  polled : Bool := false   -- `sys` is 0x12FC: the NDEF read does not poll again
  deriving DecidableEq, Repr

structure Variant where
  resetFirst : Bool        -- `_authenticate` installs the accessors without MAC before its first command
  deriving DecidableEq, Repr

def Variant.code : Variant := ⟨true⟩      -- tt3_sony.py as it is
def Variant.late : Variant := ⟨false⟩     -- reset only in the "authentication failed" branch

/-- the accessors with MAC are only installed together with a session key -/
def Obj.Inv (o : Obj) : Prop := (o.rdMac = true → o.sk = true) ∧ (o.wrMac = true → o.sk = true)

instance (o : Obj) : Decidable o.Inv := by unfold Obj.Inv; infer_instance

/-! command sequences of the fault-free runs, by position in a `Phases` list -/
abbrev Cmds := Phases
def Cmds.poll (L : Cmds) := ph L 0
/-- `_read_ndef_data` behind the polling: attribute block (error: None), Lite-S authenticated: memory
configuration block (error: raised), data blocks (error: None); `m`: through the accessors with MAC -/
def Cmds.rdAttr (L : Cmds) (m : Bool) := ph L (if m then 4 else 1)
def Cmds.rdMc (L : Cmds) (m : Bool) := ph L (if m then 5 else 2)
def Cmds.rdData (L : Cmds) (m : Bool) := ph L (if m then 6 else 3)
/-- `_write_ndef_data`: attribute block read, memory configuration block, the writes -/
def Cmds.wrAttr (L : Cmds) (m : Bool) := ph L (if m then 10 else 7)
def Cmds.wrMc (L : Cmds) (m : Bool) := ph L (if m then 11 else 8)
def Cmds.wr (L : Cmds) (m : Bool) := ph L (if m then 12 else 9)
/-- `tag.read_from_ndef_service(1, 2)` / `tag.write_to_ndef_service(data, 1)` called by the application -/
def Cmds.svcRd (L : Cmds) (m : Bool) := ph L (if m then 14 else 13)
def Cmds.svcWr (L : Cmds) (m : Bool) := ph L (if m then 16 else 15)
/-- `FelicaLite._authenticate`: challenge write, ID + MAC read -/
def Cmds.auth1 (L : Cmds) := ph L 17
/-- `FelicaLiteS.authenticate`: write counter read, STATE write with MAC, STATE read with MAC -/
def Cmds.auth2 (L : Cmds) := ph L 18

def c3 (cfg : Cfg) (pol : Pol) (ss : List Step) (k : Unit → Prog) : Prog := chain cfg (t3p true) .tagErr pol ss k
def c3p (cfg : Cfg) (pol : Pol) (ss : List Step) (k : Unit → Prog) : Prog := chain cfg (t3p false) .tagErr pol ss k

/-- a call through `read_from_ndef_service`: `read_with_mac` starts with
`if self._sk is None or self._iv is None: raise RuntimeError("authentication required")` -/
def viaRd (o : Obj) (k : Bool → Prog) : Prog :=
  if o.rdMac then (if o.sk then k true else .crash .runtime) else k false

/-- a call through `write_to_ndef_service`: `write_with_mac` raises RuntimeError("tag must be authenticated first") -/
def viaWr (o : Obj) (k : Bool → Prog) : Prog :=
  if o.wrMac then (if o.sk then k true else .crash .runtime) else k false

/-- `_read_ndef_data` after the polling -/
def readBody (cfg : Cfg) (L : Cmds) (o : Obj) : Prog :=
  viaRd o fun m =>
    c3 cfg (.ret .none) (L.rdAttr m) fun _ => c3 cfg .raise (L.rdMc m) fun _ => c3 cfg (.ret .none) (L.rdData m) (fin .ndef)

/-- `NDEF._read_ndef_data`: polling for the NDEF system code unless `sys` is 0x12FC already (None when
it fails), then attribute and data blocks.  `.ok .ndef`: data, `.ok .none`: None -/
def readNdef (cfg : Cfg) (L : Cmds) (o : Obj) (w : World) : Outcome × Obj × World :=
  let r1 := if o.polled then (Outcome.ok .unit, w) else run cfg (c3p cfg (.ret .none) L.poll (fin .unit)) 0 w
  match r1 with
  | (.ok .unit, w1) =>
    let o1 := { o with polled := true }
    let r2 := run cfg (readBody cfg L o1) 0 w1
    (r2.1, o1, r2.2)
  | (out, w1) => (out, o, w1)

/-- `tag.ndef` -/
def tagNdef (cfg : Cfg) (L : Cmds) (o : Obj) (w : World) : Outcome × Obj × World :=
  if o.cached then (.ok .ndef, o, w) else
  match readNdef cfg L o w with
  | (.ok .ndef, o1, w1) => (.ok .ndef, { o1 with cached := true }, w1)
  | r => r

/-- `tag.ndef.has_changed` (None when there is no NDEF object): reads again, a read that gives None
drops the cached object and counts as a change -/
def opChanged (cfg : Cfg) (L : Cmds) (o : Obj) (w : World) : Outcome × Obj × World :=
  match tagNdef cfg L o w with
  | (.ok .ndef, o1, w1) =>
    match readNdef cfg L o1 w1 with
    | (.ok .ndef, o2, w2) => (.ok .data, o2, w2)
    | (.ok _, o2, w2) => (.ok .data, { o2 with cached := false }, w2)
    | r => r
  | r => r

/-- `_write_ndef_data`: attribute block through the read accessor (F17: its error is raised), the writes
through the write accessor -/
def writeBody (cfg : Cfg) (L : Cmds) (o : Obj) : Prog :=
  viaRd o fun m =>
    c3 cfg (if cfg.fixF17 then .raise else .goto fun _ => .crash .type_) (L.wrAttr m) fun _ =>
    c3 cfg .raise (L.wrMc m) fun _ =>
    viaWr o fun mw => c3 cfg .raise (L.wr mw) (fin .unit)

/-- `tag.ndef.octets = data` (None when there is no NDEF object) -/
def opWrite (cfg : Cfg) (L : Cmds) (o : Obj) (w : World) : Outcome × Obj × World :=
  match tagNdef cfg L o w with
  | (.ok .ndef, o1, w1) =>
    let r := run cfg (writeBody cfg L o1) 0 w1
    (r.1, o1, r.2)
  | r => r

/-- `tag.read_from_ndef_service(...)` / `tag.write_to_ndef_service(...)` called directly -/
def opSvc (cfg : Cfg) (L : Cmds) (wr : Bool) (o : Obj) (w : World) : Outcome × Obj × World :=
  let p := if wr then viaWr o fun m => c3 cfg .raise (L.svcWr m) (fin .data)
           else viaRd o fun m => c3 cfg .raise (L.svcRd m) (fin .data)
  let r := run cfg p 0 w
  (r.1, o, r.2)

/-- `FelicaLite.authenticate` = `Tag.authenticate` around `FelicaLite._authenticate`; `macOk`: the tag
holds the key the application has given.  State is changed before the first command, and after the
second one; when a command error leaves `_authenticate` nothing else is assigned. -/
def liteAuth (cfg : Cfg) (v : Variant) (L : Cmds) (macOk : Bool) (o : Obj) (w : World) : Outcome × Obj × World :=
  let o0 := { o with auth := false, sk := false }
  let o0 := if v.resetFirst then { o0 with rdMac := false, wrMac := false } else o0
  match run cfg (c3 cfg .raise L.auth1 (fin .unit)) 0 w with
  | (.ok _, w1) =>
    if macOk then (.ok .true_, { o0 with sk := true, auth := true, rdMac := true, wrMac := false, cached := false }, w1)
    else (.ok .false_, { o0 with rdMac := false, wrMac := false }, w1)
  | (.exc e, w1) => (.exc e, o0, w1)

/-- `FelicaLiteS.authenticate`: internal authentication as above, then the accessors and `_authenticated`
are reset and STATE is written and read back with MAC (`extOk`: the tag accepts) -/
def litesAuth (cfg : Cfg) (v : Variant) (L : Cmds) (macOk extOk : Bool) (o : Obj) (w : World) : Outcome × Obj × World :=
  match liteAuth cfg v L macOk o w with
  | (.ok .true_, o1, w1) =>
    let o2 := { o1 with auth := false, rdMac := false, wrMac := false }
    -- write_with_mac(0x92), read_with_mac(0x92): both look at the session key themselves
    let p := if o2.sk then c3 cfg .raise L.auth2 (fin .unit) else .crash .runtime
    match run cfg p 0 w1 with
    | (.ok _, w2) =>
      if extOk then (.ok .true_, { o2 with auth := true, rdMac := true, wrMac := true }, w2)
      else (.ok .false_, o2, w2)
    | (.exc e, w2) => (.exc e, o2, w2)
  | r => r

/-- `tag.protect()` (no password, `protect_from = 0`; tt3_sony.py `_protect`): memory configuration block
read, `self.ndef` (cached or read now - through the installed accessors), with NDEF the attribute block is
read and written back read-only, memory configuration block written; all with the commands without MAC.
True drops the NDEF cache -/
def Cmds.protMc (L : Cmds) := ph L 19
def Cmds.protAttr (L : Cmds) := ph L 20
def Cmds.protWr (L : Cmds) := ph L 21

def opProtect (cfg : Cfg) (L : Cmds) (o : Obj) (w : World) : Outcome × Obj × World :=
  match run cfg (c3 cfg .raise L.protMc (fin .unit)) 0 w with
  | (.exc e, w1) => (.exc e, o, w1)
  | (.ok _, w1) =>
    match tagNdef cfg L o w1 with
    | (.exc e, o1, w2) => (.exc e, o1, w2)
    | (.ok v, o1, w2) =>
      match run cfg (c3 cfg .raise ((if v == .ndef then L.protAttr else []) ++ L.protWr) (fin .true_)) 0 w2 with
      | (.ok _, w3) => (.ok .true_, { o1 with cached := false }, w3)
      | (.exc e, w3) => (.exc e, o1, w3)

/-- operations of a history -/
inductive OOp
  | ndef | changed | write | protect
  | svc (wr : Bool)
  | auth (lites macOk extOk : Bool)
  | plain (P : Prog) (clears : Bool)   -- presence check, dump, format: no use of the session, True drops the NDEF cache

def ostep (cfg : Cfg) (v : Variant) (L : Cmds) : OOp → Obj → World → Outcome × Obj × World
  | .ndef, o, w => tagNdef cfg L o w
  | .changed, o, w => opChanged cfg L o w
  | .write, o, w => opWrite cfg L o w
  | .protect, o, w => opProtect cfg L o w
  | .svc wr, o, w => opSvc cfg L wr o w
  | .auth lites macOk extOk, o, w => if lites then litesAuth cfg v L macOk extOk o w else liteAuth cfg v L macOk o w
  | .plain P clears, o, w =>
    let r := run cfg P 0 w
    (r.1, (if clears && r.1 == .ok .true_ then { o with cached := false } else o), r.2)

def history (cfg : Cfg) (v : Variant) (L : Cmds) : List OOp → Obj → World → List Outcome × Obj × World
  | [], o, w => ([], o, w)
  | op :: ops, o, w =>
    let r := ostep cfg v L op o w
    let rest := history cfg v L ops r.2.1 r.2.2
    (r.1 :: rest.1, rest.2)

end NfcVerif.RetryObj
