import NfcVerif.Py
/-!
# Model of `ContactlessFrontend.sense / listen / exchange` (src/nfc/clf/__init__.py)

The frontend talks to a *scripted world*: every interaction with the device
driver (and, in `Model/Connect.lean`, with `llc.activate`, `llc.run`) consumes one
answer `Ans` of an environment script and appends one event to a log.
`nfc.tag.activate` and `nfc.tag.emulate` are modelled themselves (`Model/Connect.lean`):
their call is an event (`act` / `emu`, consuming nothing), the commands they send are
`exchange` / `sense` calls of this file.  The index of the consumed answer is the identity of
the object the answer creates (target, tag), so "which target" is observable.

State `St`: remaining script, number of answers consumed, the event log and
`self.target`.
-/
namespace NfcVerif.Clf

/-- a discovery answer: `sens_res`, `rid_res` (empty = None), peer-to-peer capability
(SEL_RES bit 6 / NFCID2 prefix 01FE), length of the ATR_REQ seen by `listen_dep`;
`var`: platform variant of a Type A answer (bit 0: SEL_RES bit 5 = ISO-DEP / Type 4A,
bit 1: first SDD_RES byte 08h instead of the NXP manufacturer code 04h);
`tech`: the technology that produced the target (0 as scripted; stamped by `drvSense`:
1 `sense_tta`, 2 `sense_ttb`, 3 `sense_ttf`, 4 `sense_dep`).
As the answer of an `exchange()` the field `sens` is the response data. -/
structure Found where
  sens : Bytes
  rid : Bytes
  p2p : Bool
  atrLen : Nat
  var : Nat := 0
  tech : Nat := 0
  deriving DecidableEq, Repr, Inhabited

/-- one answer of the scripted world -/
inductive Ans
  | nothing                 -- None / False / normal return
  | found (f : Found)       -- target found / tag activated / present / link up
  | commErr                 -- nfc.clf.TimeoutError (a CommunicationError)
  | brokenLink              -- nfc.clf.BrokenLinkError
  | transErr                -- nfc.clf.TransmissionError (sense_* and exchange; elsewhere like `nothing`)
  | protoErr                -- nfc.clf.ProtocolError (sense_* and exchange; elsewhere like `nothing`)
  | unsupported             -- nfc.clf.UnsupportedTargetError
  | ioError                 -- IOError(EIO)
  | kbd                     -- KeyboardInterrupt
  | sysExit                 -- SystemExit (only `llc.run`; elsewhere like `nothing`)
  | listenErr               -- BrokenLinkError raised inside `listen_*` (elsewhere like `nothing`)
  | polls (n : Nat)         -- `llc.run`: polls terminate() at most n times, then the peer releases
  deriving DecidableEq, Repr, Inhabited

/-- driver / collaborator call sites -/
inductive Site
  | mute | senseA | senseB | senseF | senseDep
  | listenA | listenB | listenF | listenDep
  | ledOn | ledOff
  | cmdRsp (id : Nat)       -- device.send_cmd_recv_rsp(target id)
  | rspCmd (id : Nat)       -- device.send_rsp_recv_cmd(target id)
  | activate | emulate      -- the calls nfc.tag.activate / nfc.tag.emulate (events only, no answer consumed)
  | llcActivate (initiator : Bool) | llcRun
  deriving DecidableEq, Repr, Inhabited

inductive Role | rdwr | llcp | card
  deriving DecidableEq, Repr, Inhabited
inductive CbKind | startup | discover | connect | release
  deriving DecidableEq, Repr, Inhabited

/-- events of the observable history -/
inductive Ev
  | call (s : Site) (a : Ans)                        -- a driver/collaborator call and the answer it got
  | sleep
  | term (b : Bool)                                   -- terminate() was asked and said b
  | cb (r : Role) (k : CbKind) (code : Nat) (dflt : Bool)  -- callback ran and returned the value with this code
  deriving DecidableEq, Repr, Inhabited

/-- `self.target` -/
inductive Tgt | none | remote (id : Nat) | loc (id : Nat)
  deriving DecidableEq, Repr, Inhabited

structure St where
  env : List Ans
  n : Nat
  log : List Ev
  target : Tgt
  deriving Repr, Inhabited

def St.emit (s : St) (e : Ev) : St := { s with log := s.log ++ [e] }

/-- consume one answer at `site` (logged); exhausted script answers `nothing` -/
def St.ask (s : St) (site : Site) : Ans × St :=
  match s.env with
  | [] => (.nothing, { s with n := s.n + 1, log := s.log ++ [.call site .nothing] })
  | a :: r => (a, { s with env := r, n := s.n + 1, log := s.log ++ [.call site a] })

/-- answers that raise wherever they are consumed -/
def Ans.raises : Ans → Option Exc
  | .ioError => some (.io 5)
  | .kbd => some .keyboardInterrupt
  | _ => none

abbrev R (α : Type) := Py α × St

/-- a call that returns nothing (mute, LEDs) -/
def simpleCall (site : Site) (s : St) : R Unit :=
  let (a, s1) := s.ask site
  match a.raises with
  | some e => (.error e, s1)
  | none => (.ok (), s1)

/-- the technology stamp of a `sense_*` site -/
def Site.tech : Site → Nat
  | .senseA => 1 | .senseB => 2 | .senseF => 3 | .senseDep => 4 | _ => 0

/-- `device.sense_*`: id and data of the target found (a Type B target never shows
peer-to-peer capability) -/
def drvSense (site : Site) (s : St) : R (Option (Nat × Found)) :=
  let (a, s1) := s.ask site
  match a with
  | .found f => (.ok (some (s.n, if site = .senseB then { f with p2p := false, tech := site.tech }
                                 else { f with tech := site.tech })), s1)
  | .commErr => (.error .timeout, s1)
  | .brokenLink => (.error .brokenLink, s1)
  | .transErr => (.error .transmission, s1)
  | .protoErr => (.error .protocol, s1)
  | .unsupported => (.error .unsupportedTarget, s1)
  | .ioError => (.error (.io 5), s1)
  | .kbd => (.error .keyboardInterrupt, s1)
  | _ => (.ok none, s1)

/-- `device.listen_*` -/
def drvListen (site : Site) (s : St) : R (Option (Nat × Found)) :=
  let (a, s1) := s.ask site
  match a with
  | .found f => (.ok (some (s.n, f)), s1)
  | .listenErr => (.error .brokenLink, s1)
  | .unsupported => (.error .unsupportedTarget, s1)
  | .ioError => (.error (.io 5), s1)
  | .kbd => (.error .keyboardInterrupt, s1)
  | _ => (.ok none, s1)

/-- what `sense()` is asked to look for -/
inductive TgtSpec
  | a (selReqLen : Nat)     -- 106A, `sel_req` of that length (0: not set)
  | b | f
  | dep (atrLen : Nat)      -- `atr_req` of that length is set
  | unknown                 -- technology letter not A/B/F
  | notTarget               -- not a RemoteTarget at all
  deriving DecidableEq, Repr, Inhabited

/-- the response checks of the nested `sense_tta` -/
def checkTta (f : Found) : Py Unit :=
  if f.sens.length ≠ 2 then .error .protocol
  else if f.sens.getD 0 0 % 32 = 0 then
    if f.sens.getD 1 0 % 16 ≠ 12 then .error .protocol
    else if f.rid.isEmpty then .error .protocol
    else if f.rid.length ≠ 6 then .error .protocol
    else if f.rid.getD 0 0 / 16 ≠ 1 then .error .protocol
    else .ok ()
  else .ok ()

/-- one target of the inner loop: the dispatch on `atr_req` / technology letter -/
def senseOne (t : TgtSpec) (s : St) : R (Option (Nat × Found)) :=
  match t with
  | .dep n =>
    if n < 16 then (.error .value, s) else if n > 64 then (.error .value, s)
    else drvSense .senseDep s
  | .a n =>
    if n ≠ 0 ∧ n ≠ 4 ∧ n ≠ 7 ∧ n ≠ 10 then (.error .value, s)
    else match drvSense .senseA s with
      | (.ok (some (id, f)), s1) =>
        (match checkTta f with
         | .ok _ => (.ok (some (id, f)), s1)
         | .error e => (.error e, s1))
      | r => r
  | .b => drvSense .senseB s
  | .f => drvSense .senseF s
  | .unknown => (.error .unsupportedTarget, s)
  | .notTarget => (.error .attr, s)      -- unreachable: refused before the loop

/-- exceptions the inner loop of `sense()` logs and ignores (CommunicationError and subclasses) -/
def isCommErr : Exc → Bool
  | .timeout | .transmission | .protocol | .brokenLink | .commError => true
  | _ => false

/-- target errors: UnsupportedTargetError, and (after the repair of F24) ValueError for
invalid attributes - raised only when exactly one target was given -/
def isTargetErr : Exc → Bool
  | .unsupportedTarget | .value => true
  | _ => false

/-- `for target in targets:` of one iteration -/
def senseTargets (single : Bool) : List TgtSpec → St → R (Option (Nat × Found))
  | [], s => (.ok none, s)
  | t :: rest, s =>
    match senseOne t s with
    | (.ok (some x), s1) => (.ok (some x), { s1 with target := .remote x.1 })
    | (.ok none, s1) => senseTargets single rest s1
    | (.error e, s1) =>
      if isTargetErr e then
        (if single then (.error e, s1) else senseTargets single rest s1)
      else if isCommErr e then senseTargets single rest s1
      else (.error e, s1)

/-- `for i in range(max(1, iterations))`; `k` = iterations still to run -/
def senseIters (tl : List TgtSpec) (single : Bool) : Nat → St → R (Option (Nat × Found))
  | 0, s => (.ok none, s)
  | k + 1, s =>
    match senseTargets single tl s with
    | (.ok (some x), s1) => (.ok (some x), s1)
    | (.error e, s1) => (.error e, s1)
    | (.ok none, s1) =>
      match (if tl.isEmpty then (.ok (), s1) else simpleCall .mute s1) with
      | (.error e, s2) => (.error e, s2)
      | (.ok _, s2) => senseIters tl single k (if k = 0 then s2 else s2.emit .sleep)

/-- `ContactlessFrontend.sense(*targets, iterations=iters)` on an open device -/
def sense (tl : List TgtSpec) (iters : Int) (s : St) : R (Option (Nat × Found)) :=
  if tl.any (· == .notTarget) then (.error .value, s)
  else
    match simpleCall .mute { s with target := .none } with
    | (.error e, s1) => (.error e, s1)
    | (.ok _, s1) => senseIters tl (tl.length == 1) (max 1 iters).toNat s1

/-- the LocalTarget given to `listen()` -/
inductive LtSpec | dep | a | b | f | other
  deriving DecidableEq, Repr, Inhabited

/-- `ContactlessFrontend.listen(target, timeout)` on an open device -/
def listen (t : LtSpec) (s : St) : R (Option (Nat × Found)) :=
  match simpleCall .mute { s with target := .none } with
  | (.error e, s1) => (.error e, s1)
  | (.ok _, s1) =>
    match t with
    | .other => (.error .value, s1)
    | .dep =>
      (match drvListen .listenDep s1 with
       | (.ok (some (id, f)), s2) =>
         if 16 ≤ f.atrLen ∧ f.atrLen ≤ 64 then (.ok (some (id, f)), { s2 with target := .loc id })
         else (.ok none, s2)
       | r => r)
    | .a | .b | .f =>
      (match drvListen (match t with | .a => .listenA | .b => .listenB | _ => .listenF) s1 with
       | (.ok (some (id, f)), s2) => (.ok (some (id, f)), { s2 with target := .loc id })
       | r => r)

/-- what the device does with an exchange answer: data, or one of the CommunicationError
classes (anything that is not data or another error is a timeout) -/
def xchgAnswer (a : Ans) (s1 : St) : R (Option Bytes) :=
  match a with
  | .found f => (.ok (some f.sens), s1)
  | .ioError => (.error (.io 5), s1)
  | .kbd => (.error .keyboardInterrupt, s1)
  | .brokenLink => (.error .brokenLink, s1)
  | .transErr => (.error .transmission, s1)
  | .protoErr => (.error .protocol, s1)
  | _ => (.error .timeout, s1)

/-- `ContactlessFrontend.exchange`: `none` = returned None (no target, no driver call);
`some d` = the data `d` came back -/
def exchange (s : St) : R (Option Bytes) :=
  match s.target with
  | .none => (.ok none, s)
  | .remote id =>
    let (a, s1) := s.ask (.cmdRsp id)
    xchgAnswer a s1
  | .loc id =>
    let (a, s1) := s.ask (.rspCmd id)
    xchgAnswer a s1

/-- a history of frontend calls (for `exchange_no_stale_target`) -/
inductive Op
  | sense (tl : List TgtSpec) (iters : Int)
  | listen (t : LtSpec)
  | exchange
  deriving Repr, Inhabited

/-- run one operation, discarding its result (exceptions are caught by the caller) -/
def runOp (o : Op) (s : St) : St :=
  match o with
  | .sense tl it => (sense tl it s).2
  | .listen t => (listen t s).2
  | .exchange => (exchange s).2

def runOps (ops : List Op) (s : St) : St := ops.foldl (fun s o => runOp o s) s

def St.init (env : List Ans) : St := { env := env, n := 0, log := [], target := .none }

end NfcVerif.Clf
