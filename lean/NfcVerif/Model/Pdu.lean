import NfcVerif.Py
/-!
# LLCP protocol data units (property C11; also used by C07, C10)

Transcription of `nfc/llcp/pdu.py` at the level of the `Py` monad:

* `Impl.paramDecode` / `Impl.enc*`      - `Parameter.decode` / `Parameter.encode`
* `Impl.encodeS`, `Impl.encode`         - the `encode()` methods of the 14 PDU classes and of
                                          `UnknownProtocolDataUnit`
* `Impl.lenS`, `Impl.len`               - the `__len__` methods
* `Impl.decodeAt`, `Impl.decode`        - `decode(data, offset, size)` and the `decode` class methods
* `Spec.decode`                         - an independent reading of the LLCP 1.3 frame formats
                                          (list patterns, no offsets, no shared helpers)

The code modelled is the code *with the three repairs* of `fixes/C11/`:
RW = 0 is encoded (F4), `decode()` hands only the octets of the PDU to the
class decoders (F5), an AGF PDU inside an AGF PDU is refused (F6).

Data model.  Integer fields are natural numbers (Python `None` / negative
numbers in integer fields are outside the model; the optional PAX parameters
and the optional octet-string fields are `Option`).  An aggregate holds simple
PDUs: `SPdu` has the 13 non-aggregate classes + `unknown`, `Pdu` adds `agf`.
Masks `x & (2^k-1)` and shifts `x >> k` are written `x % 2^k`, `x / 2^k`.
-/
namespace NfcVerif.Pdu

/-- every PDU that may be carried inside an aggregate -/
inductive SPdu
  | symm (dsap ssap : Nat)
  | pax (dsap ssap : Nat) (version miux wks lto opt : Option Nat)
  | ui (dsap ssap : Nat) (data : Bytes)
  | connect (dsap ssap miu rw : Nat) (sn : Option Bytes)
  | disc (dsap ssap : Nat)
  | cc (dsap ssap miu rw : Nat)
  | dm (dsap ssap reason : Nat)
  | frmr (dsap ssap flags ptype ns nr vs vr vsa vra : Nat)
  | snl (dsap ssap : Nat) (sdreq : List (Nat × Bytes)) (sdres : List (Nat × Nat))
  | dps (dsap ssap : Nat) (ecpk rn : Option Bytes)
  | info (dsap ssap ns nr : Nat) (data : Bytes)
  | rr (dsap ssap nr : Nat)
  | rnr (dsap ssap nr : Nat)
  | unknown (ptype dsap ssap : Nat) (payload : Bytes)
  deriving DecidableEq, Repr, Inhabited

inductive Pdu
  | simple (p : SPdu)
  | agf (dsap ssap : Nat) (items : List SPdu)
  deriving DecidableEq, Repr, Inhabited

/-- `pdu.ptype` as set by the constructors -/
def SPdu.ptype : SPdu → Nat
  | .symm .. => 0 | .pax .. => 1 | .ui .. => 3 | .connect .. => 4 | .disc .. => 5 | .cc .. => 6
  | .dm .. => 7 | .frmr .. => 8 | .snl .. => 9 | .dps .. => 10 | .info .. => 12 | .rr .. => 13
  | .rnr .. => 14 | .unknown t _ _ _ => t

def SPdu.dsap : SPdu → Nat
  | .symm d _ | .pax d _ .. | .ui d _ _ | .connect d .. | .disc d _ | .cc d .. | .dm d .. | .frmr d ..
  | .snl d .. | .dps d .. | .info d .. | .rr d .. | .rnr d .. | .unknown _ d _ _ => d

def SPdu.ssap : SPdu → Nat
  | .symm _ s | .pax _ s .. | .ui _ s _ | .connect _ s .. | .disc _ s | .cc _ s .. | .dm _ s _ | .frmr _ s ..
  | .snl _ s .. | .dps _ s .. | .info _ s .. | .rr _ s _ | .rnr _ s _ | .unknown _ _ s _ => s

/-- `struct.unpack_from("!BBB", d, off)` -/
def unpackBBB (d : Bytes) (off : Nat) : Py (Nat × Nat × Nat) :=
  match d[off]?, d[off+1]?, d[off+2]? with
  | some a, some b, some c => .ok (a, b, c)
  | _, _, _ => .error .struct

/-- `struct.unpack_from("!BBBB", d, off)` -/
def unpackBBBB (d : Bytes) (off : Nat) : Py (Nat × Nat × Nat × Nat) :=
  match d[off]?, d[off+1]?, d[off+2]?, d[off+3]? with
  | some a, some b, some c, some e => .ok (a, b, c, e)
  | _, _, _, _ => .error .struct

/-- `a << k | b` -/
def orShl (a k b : Nat) : Nat := (a <<< k) ||| b

/-- `except struct.error: raise DecodeError` -/
def structToDecode {α} (x : Py α) : Py α := wrapExc (fun e => e == .struct) .decodeError x

/-- value of a decoded TLV (`V` of `Parameter.decode`) -/
inductive TlvV
  | num (v : Nat)                     -- VERSION MIUX WKS LTO RW OPT
  | raw (v : Bytes)                   -- SN ECPK RN and every unknown type
  | sdreq (tid : Nat) (sn : Bytes)
  | sdres (tid sap : Nat)
  deriving DecidableEq, Repr

namespace Impl

/-! ## Parameter.decode -/

/-- `Parameter.decode(data, offset)` returns `(T, L, V)` -/
def paramDecode (d : Bytes) (off : Nat) : Py (Nat × Nat × TlvV) :=
  structToDecode (unpackBB d off >>= fun (t, l) => unpackS l d (off + 2) >>= fun v => pure (t, l, v))
  >>= fun (t, l, v) =>
  if t = 1 then
    if l ≠ 1 then throw .decodeError else unpackB v 0 >>= fun x => pure (t, l, .num x)
  else if t = 2 then
    if l ≠ 2 then throw .decodeError else unpackH v 0 >>= fun x => pure (t, l, .num (x % 2048))
  else if t = 3 then
    if l ≠ 2 then throw .decodeError else unpackH v 0 >>= fun x => pure (t, l, .num x)
  else if t = 4 then
    if l ≠ 1 then throw .decodeError else unpackB v 0 >>= fun x => pure (t, l, .num x)
  else if t = 5 then
    if l ≠ 1 then throw .decodeError else unpackB v 0 >>= fun x => pure (t, l, .num (x % 16))
  else if t = 7 then
    if l ≠ 1 then throw .decodeError else unpackB v 0 >>= fun x => pure (t, l, .num (x % 8))
  else if t = 8 then
    if l = 0 then throw .decodeError else
    unpackB v 0 >>= fun tid => unpackS (l - 1) v 1 >>= fun sn => pure (t, l, .sdreq tid sn)
  else if t = 9 then
    if l ≠ 2 then throw .decodeError else unpackBB v 0 >>= fun (tid, sap) => pure (t, l, .sdres tid sap)
  else pure (t, l, .raw v)

/-- the loop `while size >= 2: T, L, V = Parameter.decode(data, offset); <app>;
offset, size = offset + 2 + L, size - 2 - L` shared by PAX, CONNECT, CC, SNL, DPS.
`size` only ever decreases, so it is a natural number here (Python lets it go
negative, which also ends the loop).  `fuel` bounds the iterations; the loop
is started with `fuel = size`. -/
def tlvLoop {σ : Type} (app : σ → Nat → TlvV → σ) : Nat → Bytes → Nat → Nat → σ → Py σ
  | fuel, d, off, size, st =>
    if size < 2 then pure st else
    match fuel with
    | 0 => throw .outOfFuel
    | fuel + 1 =>
      paramDecode d off >>= fun (t, l, v) =>
      tlvLoop app fuel d (off + 2 + l) (size - 2 - l) (app st t v)

/-! ## headers -/

/-- `ProtocolDataUnit.decode_header(data, offset, size)` -/
def decodeHeader (d : Bytes) (off size : Nat) : Py (Nat × Nat) :=
  if size < 2 then throw .decodeError else
  unpackBB d off >>= fun (a, b) => pure (a / 4, b % 64)

/-- `NumberedProtocolDataUnit.decode_header` -/
def decodeHeaderN (d : Bytes) (off size : Nat) : Py (Nat × Nat × Nat × Nat) :=
  if size < 3 then throw .decodeError else
  unpackBBB d off >>= fun (a, b, c) => pure (a / 4, b % 64, c / 16, c % 16)

/-- `ProtocolDataUnit.encode_header` -/
def encodeHeader (ptype dsap ssap : Nat) : Py Bytes :=
  if dsap > 63 ∨ ssap > 63 then throw .encodeError else
  let h := orShl dsap 10 (orShl ptype 6 ssap)
  if h > 65535 then throw .struct else pure [h / 256, h % 256]

/-- `NumberedProtocolDataUnit.encode_header` -/
def encodeHeaderN (ptype dsap ssap ns nr : Nat) : Py Bytes :=
  encodeHeader ptype dsap ssap >>= fun h =>
  if ns > 15 ∨ nr > 15 then throw .encodeError else pure (h ++ [orShl ns 4 nr])

/-! ## Parameter.encode -/

/-- one-octet value: `struct.pack('BBB', T, 1, V)`, `struct.error` becomes `EncodeError` -/
def encB (t v : Nat) : Py Bytes := if v > 255 then throw .encodeError else pure [t, 1, v]
/-- two-octet value: `struct.pack('>BBH', T, 2, V)` -/
def encH (t v : Nat) : Py Bytes := if v > 65535 then throw .encodeError else pure [t, 2, v / 256, v % 256]
/-- octet string (SN, ECPK, RN) -/
def encS (t : Nat) (v : Bytes) : Py Bytes :=
  if v.length > 255 then throw .encodeError else pure ([t, v.length] ++ v)
def encSdreq (r : Nat × Bytes) : Py Bytes :=
  if r.2.length > 254 then throw .encodeError else
  if r.1 > 255 then throw .encodeError else pure ([8, 1 + r.2.length, r.1] ++ r.2)
def encSdres (r : Nat × Nat) : Py Bytes :=
  if r.1 > 255 ∨ r.2 > 255 then throw .encodeError else pure [9, 2, r.1, r.2]

/-- `if v is not None: data += Parameter.encode(T, v)` -/
def optTlv {α} (enc : α → Py Bytes) : Option α → Py Bytes
  | none => pure []
  | some v => enc v

/-- `if v: data += Parameter.encode(T, v)` for an octet string (None and b'' are false) -/
def truthyTlv (t : Nat) : Option Bytes → Py Bytes
  | none => pure []
  | some v => if v.isEmpty then pure [] else encS t v

/-- `b"".join(Parameter.encode(T, x) for x in l)`, left to right -/
def encList {α} (enc : α → Py Bytes) : List α → Py Bytes
  | [] => pure []
  | x :: xs => enc x >>= fun a => encList enc xs >>= fun b => pure (a ++ b)

/-- `struct.pack('!B', v)` (not guarded in the code: `struct.error` escapes) -/
def packB (v : Nat) : Py Bytes := if v > 255 then throw .struct else pure [v]

/-! ## encode / len -/

def encodeS : SPdu → Py Bytes
  | .symm d s =>
    if d ≠ 0 ∨ s ≠ 0 then throw .encodeError else encodeHeader 0 d s
  | .pax d s ver miux wks lto opt =>
    if d ≠ 0 ∨ s ≠ 0 then throw .encodeError else
    encodeHeader 1 d s >>= fun h =>
    optTlv (encB 1) ver >>= fun a =>
    optTlv (encH 2) miux >>= fun b =>
    optTlv (encH 3) wks >>= fun c =>
    optTlv (encB 4) lto >>= fun e =>
    optTlv (encB 7) opt >>= fun f => pure (h ++ a ++ b ++ c ++ e ++ f)
  | .ui d s data => encodeHeader 3 d s >>= fun h => pure (h ++ data)
  | .connect d s miu rw sn =>
    encodeHeader 4 d s >>= fun h =>
    (if miu ≠ 0 ∧ miu > 128 then encH 2 (miu - 128) else pure []) >>= fun a =>
    (if rw ≠ 1 then encB 5 rw else pure []) >>= fun b =>
    truthyTlv 6 sn >>= fun c => pure (h ++ a ++ b ++ c)
  | .disc d s => encodeHeader 5 d s
  | .cc d s miu rw =>
    encodeHeader 6 d s >>= fun h =>
    (if miu ≠ 0 ∧ miu > 128 then encH 2 (miu - 128) else pure []) >>= fun a =>
    (if rw ≠ 1 then encB 5 rw else pure []) >>= fun b => pure (h ++ a ++ b)
  | .dm d s reason => encodeHeader 7 d s >>= fun h => packB reason >>= fun r => pure (h ++ r)
  | .frmr d s flags ptype ns nr vs vr vsa vra =>
    encodeHeader 8 d s >>= fun h =>
    let b0 := orShl flags 4 ptype
    let b1 := orShl ns 4 nr
    let b2 := orShl vs 4 vr
    let b3 := orShl vsa 4 vra
    if b0 > 255 ∨ b1 > 255 ∨ b2 > 255 ∨ b3 > 255 then throw .struct else pure (h ++ [b0, b1, b2, b3])
  | .snl d s sdreq sdres =>
    encodeHeader 9 d s >>= fun h =>
    encList encSdreq sdreq >>= fun a =>
    encList encSdres sdres >>= fun b => pure (h ++ a ++ b)
  | .dps d s ecpk rn =>
    if d ≠ 0 ∨ s ≠ 0 then throw .encodeError else
    encodeHeader 10 d s >>= fun h =>
    truthyTlv 10 ecpk >>= fun a =>
    truthyTlv 11 rn >>= fun b => pure (h ++ a ++ b)
  | .info d s ns nr data => encodeHeaderN 12 d s ns nr >>= fun h => pure (h ++ data)
  | .rr d s nr => encodeHeaderN 13 d s 0 nr
  | .rnr d s nr => encodeHeaderN 14 d s 0 nr
  | .unknown t d s payload => encodeHeader t d s >>= fun h => pure (h ++ payload)

/-- `for e in encoded: data += struct.pack('!H', len(e)) + e` -/
def agfJoin : List Bytes → Py Bytes
  | [] => pure []
  | e :: es =>
    (if e.length > 65535 then throw .struct else pure [e.length / 256, e.length % 256]) >>= fun l =>
    agfJoin es >>= fun r => pure (l ++ e ++ r)

/-- `[pdu.encode() for pdu in self._aggregate]` -/
def encodeAll : List SPdu → Py (List Bytes)
  | [] => pure []
  | p :: ps => encodeS p >>= fun e => encodeAll ps >>= fun es => pure (e :: es)

def encode : Pdu → Py Bytes
  | .simple p => encodeS p
  | .agf d s items =>
    if d ≠ 0 ∨ s ≠ 0 then throw .encodeError else
    encodeHeader 2 d s >>= fun h =>
    encodeAll items >>= fun es =>
    agfJoin es >>= fun body => pure (h ++ body)

def optLen {α} (n : Nat) : Option α → Nat
  | none => 0
  | some _ => n

def truthyLen : Option Bytes → Nat
  | none => 0
  | some v => if v.isEmpty then 0 else 2 + v.length

def sumMap {α} (f : α → Nat) : List α → Nat
  | [] => 0
  | x :: xs => f x + sumMap f xs

/-- `len(pdu)` -/
def lenS : SPdu → Nat
  | .symm .. => 2
  | .pax _ _ ver miux wks lto opt => 2 + optLen 3 ver + optLen 4 miux + optLen 4 wks + optLen 3 lto + optLen 3 opt
  | .ui _ _ data => 2 + data.length
  | .connect _ _ miu rw sn =>
    2 + (if miu ≠ 0 ∧ miu > 128 then 4 else 0) + (if rw ≠ 1 then 3 else 0) + truthyLen sn
  | .disc .. => 2
  | .cc _ _ miu rw => 2 + (if miu ≠ 0 ∧ miu > 128 then 4 else 0) + (if rw ≠ 1 then 3 else 0)
  | .dm .. => 3
  | .frmr .. => 6
  | .snl _ _ sdreq sdres => 2 + sdres.length * 4 + sumMap (fun r => 3 + r.2.length) sdreq
  | .dps _ _ ecpk rn => 2 + truthyLen ecpk + truthyLen rn
  | .info _ _ _ _ data => 3 + data.length
  | .rr .. => 3
  | .rnr .. => 3
  | .unknown _ _ _ payload => 2 + payload.length

def len : Pdu → Nat
  | .simple p => lenS p
  | .agf _ _ items => 2 + sumMap (fun p => 2 + lenS p) items

/-! ## decode: class methods -/

structure PaxSt where
  version : Option Nat := none
  miux : Option Nat := none
  wks : Option Nat := none
  lto : Option Nat := none
  opt : Option Nat := none

def paxApp (st : PaxSt) (t : Nat) (v : TlvV) : PaxSt :=
  match t, v with
  | 1, .num x => { st with version := some x }
  | 2, .num x => { st with miux := some x }
  | 3, .num x => { st with wks := some x }
  | 4, .num x => { st with lto := some x }
  | 7, .num x => { st with opt := some x }
  | _, _ => st

structure ConnSt where
  miu : Nat := 128
  rw : Nat := 1
  sn : Option Bytes := none

def connApp (st : ConnSt) (t : Nat) (v : TlvV) : ConnSt :=
  match t, v with
  | 2, .num x => { st with miu := 128 + x }
  | 5, .num x => { st with rw := x }
  | 6, .raw x => { st with sn := some x }
  | _, _ => st

def ccApp (st : ConnSt) (t : Nat) (v : TlvV) : ConnSt :=
  match t, v with
  | 2, .num x => { st with miu := 128 + x }
  | 5, .num x => { st with rw := x }
  | _, _ => st

structure SnlSt where
  sdreq : List (Nat × Bytes) := []
  sdres : List (Nat × Nat) := []

def snlApp (st : SnlSt) (t : Nat) (v : TlvV) : SnlSt :=
  match t, v with
  | 8, .sdreq tid sn => { st with sdreq := st.sdreq ++ [(tid, sn)] }
  | 9, .sdres tid sap => { st with sdres := st.sdres ++ [(tid, sap)] }
  | _, _ => st

structure DpsSt where
  ecpk : Option Bytes := none
  rn : Option Bytes := none

def dpsApp (st : DpsSt) (t : Nat) (v : TlvV) : DpsSt :=
  match t, v with
  | 10, .raw x => { st with ecpk := some x }
  | 11, .raw x => { st with rn := some x }
  | _, _ => st

def decSymm (d : Bytes) (off size : Nat) : Py SPdu :=
  decodeHeader d off size >>= fun (dsap, ssap) =>
  if dsap ≠ 0 ∨ ssap ≠ 0 then throw .decodeError else
  if size ≥ 3 then throw .decodeError else pure (.symm dsap ssap)

def decPax (d : Bytes) (off size : Nat) : Py SPdu :=
  decodeHeader d off size >>= fun (dsap, ssap) =>
  if dsap ≠ 0 ∨ ssap ≠ 0 then throw .decodeError else
  tlvLoop paxApp (size - 2) d (off + 2) (size - 2) {} >>= fun st =>
  pure (.pax dsap ssap st.version st.miux st.wks st.lto st.opt)

def decUi (d : Bytes) (off size : Nat) : Py SPdu :=
  decodeHeader d off size >>= fun (dsap, ssap) =>
  pure (.ui dsap ssap (sliceN d (off + 2) (off + size)))

def decConnect (d : Bytes) (off size : Nat) : Py SPdu :=
  decodeHeader d off size >>= fun (dsap, ssap) =>
  tlvLoop connApp (size - 2) d (off + 2) (size - 2) {} >>= fun st =>
  pure (.connect dsap ssap st.miu st.rw st.sn)

def decDisc (d : Bytes) (off size : Nat) : Py SPdu :=
  decodeHeader d off size >>= fun (dsap, ssap) => pure (.disc dsap ssap)

def decCc (d : Bytes) (off size : Nat) : Py SPdu :=
  decodeHeader d off size >>= fun (dsap, ssap) =>
  tlvLoop ccApp (size - 2) d (off + 2) (size - 2) {} >>= fun st =>
  pure (.cc dsap ssap st.miu st.rw)

def decDm (d : Bytes) (off size : Nat) : Py SPdu :=
  if size ≠ 3 then throw .decodeError else
  decodeHeader d off size >>= fun (dsap, ssap) =>
  unpackB d (off + 2) >>= fun reason => pure (.dm dsap ssap reason)

def decFrmr (d : Bytes) (off size : Nat) : Py SPdu :=
  if size ≠ 6 then throw .decodeError else
  decodeHeader d off size >>= fun (dsap, ssap) =>
  unpackBBBB d (off + 2) >>= fun (b0, b1, b2, b3) =>
  pure (.frmr dsap ssap (b0 / 16) (b0 % 16) (b1 / 16) (b1 % 16) (b2 / 16) (b2 % 16) (b3 / 16) (b3 % 16))

def decSnl (d : Bytes) (off size : Nat) : Py SPdu :=
  decodeHeader d off size >>= fun (dsap, ssap) =>
  if dsap ≠ 1 ∨ ssap ≠ 1 then throw .decodeError else
  tlvLoop snlApp (size - 2) d (off + 2) (size - 2) {} >>= fun st =>
  pure (.snl dsap ssap st.sdreq st.sdres)

def decDps (d : Bytes) (off size : Nat) : Py SPdu :=
  decodeHeader d off size >>= fun (dsap, ssap) =>
  if dsap ≠ 0 ∨ ssap ≠ 0 then throw .decodeError else
  tlvLoop dpsApp (size - 2) d (off + 2) (size - 2) {} >>= fun st =>
  pure (.dps dsap ssap st.ecpk st.rn)

def decInfo (d : Bytes) (off size : Nat) : Py SPdu :=
  decodeHeaderN d off size >>= fun (dsap, ssap, ns, nr) =>
  pure (.info dsap ssap ns nr (sliceN d (off + 3) (off + size)))

def decRr (d : Bytes) (off size : Nat) : Py SPdu :=
  decodeHeaderN d off size >>= fun (dsap, ssap, _, nr) => pure (.rr dsap ssap nr)

def decRnr (d : Bytes) (off size : Nat) : Py SPdu :=
  decodeHeaderN d off size >>= fun (dsap, ssap, _, nr) => pure (.rnr dsap ssap nr)

def decUnknown (d : Bytes) (off size : Nat) : Py SPdu :=
  decodeHeader d off size >>= fun (dsap, ssap) =>
  idxN d off >>= fun a => idxN d (off + 1) >>= fun b =>
  pure (.unknown ((a * 4 + b / 64) % 16) dsap ssap (sliceN d (off + 2) (off + size)))

/-- entry of `pdu_type_map.get(ptype, UnknownProtocolDataUnit)` -/
inductive Kind
  | agf
  | simple (dec : Bytes → Nat → Nat → Py SPdu)

def kindOf (ptype : Nat) : Kind :=
  match ptype with
  | 0 => .simple decSymm | 1 => .simple decPax | 2 => .agf | 3 => .simple decUi
  | 4 => .simple decConnect | 5 => .simple decDisc | 6 => .simple decCc | 7 => .simple decDm
  | 8 => .simple decFrmr | 9 => .simple decSnl | 10 => .simple decDps | 12 => .simple decInfo
  | 13 => .simple decRr | 14 => .simple decRnr | _ => .simple decUnknown

/-! ## decode: the module function -/

/-- the part of `decode(data, offset, size, nested)` before the dispatch:
size checks, restriction to the PDU's own octets, PDU type.  Returns `(data', ptype)`. -/
def decodePre (data : Bytes) (off size : Nat) : Py (Bytes × Nat) :=
  if off + size > data.length then throw .decodeError else
  if size < 2 then throw .decodeError else
  let d := sliceN data off (off + size)
  unpackH d 0 >>= fun h => pure (d, h / 64 % 16)

/-- `decode(data, offset, size, nested=True)`: an AGF PDU is refused -/
def decodeNested (data : Bytes) (off size : Nat) : Py SPdu :=
  decodePre data off size >>= fun (d, ptype) =>
  match kindOf ptype with
  | .agf => throw .decodeError
  | .simple dec => dec d 0 size

/-- the loop of `AggregatedFrame.decode`: `while size > 0` -/
def agfLoop : Nat → Bytes → Nat → Nat → List SPdu → Py (List SPdu)
  | fuel, d, off, size, acc =>
    if size = 0 then pure acc else
    match fuel with
    | 0 => throw .outOfFuel
    | fuel + 1 =>
      structToDecode (unpackH d off) >>= fun n =>
      decodeNested d (off + 2) n >>= fun p =>
      agfLoop fuel d (off + 2 + n) (size - 2 - n) (acc ++ [p])

def decAgf (d : Bytes) (off size : Nat) : Py Pdu :=
  decodeHeader d off size >>= fun (dsap, ssap) =>
  if dsap ≠ 0 ∨ ssap ≠ 0 then throw .decodeError else
  agfLoop (size - 2) d (off + 2) (size - 2) [] >>= fun items => pure (.agf dsap ssap items)

/-- `decode(data, offset, size)` -/
def decodeAt (data : Bytes) (off size : Nat) : Py Pdu :=
  decodePre data off size >>= fun (d, ptype) =>
  match kindOf ptype with
  | .agf => decAgf d 0 size
  | .simple dec => dec d 0 size >>= fun p => pure (.simple p)

/-- `decode(data)` -/
def decode (data : Bytes) : Py Pdu := decodeAt data 0 data.length

end Impl

/-! ## Spec: the LLCP 1.3 frame formats read directly

Header: `DSAP(6) PTYPE(4) SSAP(6)`; numbered PDUs carry `N(S)(4) N(R)(4)`.
Information field per PDU type (LLCP 1.3 section 4.3): SYMM none; PAX, CONNECT,
CC, SNL, DPS a TLV list; AGF a list of `length(16) PDU`; UI, I service data;
DM one reason octet; FRMR four octets; RR/RNR none.
TLV: `T(8) L(8) V(L)`; parameter formats of section 4.5.  Reserved bits are
masked, unknown or misplaced parameters are ignored, a TLV list ends when
fewer than two octets remain (receiver leniency of this library, section
"tie" of the check documents that it is part of the compared behaviour). -/
namespace Spec

inductive Param
  | version (v : Nat) | miux (v : Nat) | wks (v : Nat) | lto (v : Nat) | rw (v : Nat)
  | sn (v : Bytes) | opt (v : Nat) | sdreq (tid : Nat) (sn : Bytes) | sdres (tid sap : Nat)
  | ecpk (v : Bytes) | rn (v : Bytes) | other (t : Nat) (v : Bytes)
  deriving DecidableEq, Repr

/-- one parameter from its type and value octets (length already matched);
LLCP 1.3 section 4.5: VERSION, LTO, RW, OPT one octet; MIUX, WKS two octets;
SDREQ TID + name; SDRES TID + SAP; SN, ECPK, RN octet strings; anything else is skipped -/
def param (t : Nat) (v : Bytes) : Option Param :=
  if t = 1 then match v with
    | [x] => some (.version x)
    | _ => none
  else if t = 2 then match v with
    | [a, b] => some (.miux ((a * 256 + b) % 2048))
    | _ => none
  else if t = 3 then match v with
    | [a, b] => some (.wks (a * 256 + b))
    | _ => none
  else if t = 4 then match v with
    | [x] => some (.lto x)
    | _ => none
  else if t = 5 then match v with
    | [x] => some (.rw (x % 16))
    | _ => none
  else if t = 6 then some (.sn v)
  else if t = 7 then match v with
    | [x] => some (.opt (x % 8))
    | _ => none
  else if t = 8 then match v with
    | tid :: sn => some (.sdreq tid sn)
    | [] => none
  else if t = 9 then match v with
    | [tid, sap] => some (.sdres tid sap)
    | _ => none
  else if t = 10 then some (.ecpk v)
  else if t = 11 then some (.rn v)
  else some (.other t v)

/-- TLV list of an information field; `none` = malformed -/
def params : Nat → Bytes → Option (List Param)
  | _, [] => some []
  | _, [_] => some []
  | 0, _ => none
  | fuel + 1, t :: l :: rest =>
    if rest.length < l then none else
    match param t (rest.take l), params fuel (rest.drop l) with
    | some p, some ps => some (p :: ps)
    | _, _ => none

def Param.getVersion : Param → Option Nat | .version v => some v | _ => none
def Param.getMiux : Param → Option Nat | .miux v => some v | _ => none
def Param.getWks : Param → Option Nat | .wks v => some v | _ => none
def Param.getLto : Param → Option Nat | .lto v => some v | _ => none
def Param.getRw : Param → Option Nat | .rw v => some v | _ => none
def Param.getSn : Param → Option Bytes | .sn v => some v | _ => none
def Param.getOpt : Param → Option Nat | .opt v => some v | _ => none
def Param.getSdreq : Param → Option (Nat × Bytes) | .sdreq t n => some (t, n) | _ => none
def Param.getSdres : Param → Option (Nat × Nat) | .sdres t s => some (t, s) | _ => none
def Param.getEcpk : Param → Option Bytes | .ecpk v => some v | _ => none
def Param.getRn : Param → Option Bytes | .rn v => some v | _ => none

/-- the last occurrence of a parameter wins -/
def lastSome {α} (f : Param → Option α) (ps : List Param) : Option α :=
  ps.foldl (fun acc p => match f p with | some v => some v | none => acc) none

/-- list of `length(16) PDU` -/
def aggregate (sub : Bytes → Option SPdu) : Nat → Bytes → Option (List SPdu)
  | _, [] => some []
  | 0, _ => none
  | _, [_] => none
  | fuel + 1, a :: b :: rest =>
    let n := a * 256 + b
    if rest.length < n then none else
    match sub (rest.take n), aggregate sub fuel (rest.drop n) with
    | some p, some ps => some (p :: ps)
    | _, _ => none

/-- a PDU that is not an aggregate, from exactly its octets -/
def decodeS : Bytes → Option SPdu
  | b0 :: b1 :: info =>
    let dsap := b0 / 4
    let ptype := (b0 % 4) * 4 + b1 / 64
    let ssap := b1 % 64
    match ptype with
    | 0 => if dsap = 0 ∧ ssap = 0 ∧ info = [] then some (.symm 0 0) else none
    | 1 =>
      if dsap = 0 ∧ ssap = 0 then
        (params info.length info).map fun ps =>
          .pax 0 0 (lastSome Param.getVersion ps)
            (lastSome Param.getMiux ps)
            (lastSome Param.getWks ps)
            (lastSome Param.getLto ps)
            (lastSome Param.getOpt ps)
      else none
    | 2 => none
    | 3 => some (.ui dsap ssap info)
    | 4 =>
      (params info.length info).map fun ps =>
        .connect dsap ssap (128 + ((lastSome Param.getMiux ps).getD 0))
          ((lastSome Param.getRw ps).getD 1)
          (lastSome Param.getSn ps)
    | 5 => some (.disc dsap ssap)
    | 6 =>
      (params info.length info).map fun ps =>
        .cc dsap ssap (128 + ((lastSome Param.getMiux ps).getD 0))
          ((lastSome Param.getRw ps).getD 1)
    | 7 => match info with
      | [r] => some (.dm dsap ssap r)
      | _ => none
    | 8 => match info with
      | [x0, x1, x2, x3] =>
        some (.frmr dsap ssap (x0 / 16) (x0 % 16) (x1 / 16) (x1 % 16) (x2 / 16) (x2 % 16) (x3 / 16) (x3 % 16))
      | _ => none
    | 9 =>
      if dsap = 1 ∧ ssap = 1 then
        (params info.length info).map fun ps =>
          .snl 1 1 (ps.filterMap Param.getSdreq)
            (ps.filterMap Param.getSdres)
      else none
    | 10 =>
      if dsap = 0 ∧ ssap = 0 then
        (params info.length info).map fun ps =>
          .dps 0 0 (lastSome Param.getEcpk ps)
            (lastSome Param.getRn ps)
      else none
    | 12 => match info with
      | sq :: sdu => some (.info dsap ssap (sq / 16) (sq % 16) sdu)
      | _ => none
    | 13 => match info with
      | sq :: _ => some (.rr dsap ssap (sq % 16))
      | _ => none
    | 14 => match info with
      | sq :: _ => some (.rnr dsap ssap (sq % 16))
      | _ => none
    | t => some (.unknown t dsap ssap info)
  | _ => none

/-- a received LLC PDU; `none` = not well formed -/
def decode : Bytes → Option Pdu
  | b0 :: b1 :: info =>
    if (b0 % 4) * 4 + b1 / 64 = 2 then
      if b0 / 4 = 0 ∧ b1 % 64 = 0 then (aggregate decodeS info.length info).map (.agf 0 0) else none
    else (decodeS (b0 :: b1 :: info)).map .simple
  | _ => none

end Spec

/-! ## text form of PDUs for the line protocol of `drv_c11` -/

def showOptNat : Option Nat → String
  | none => "N"
  | some v => toString v

def showOptBytes : Option Bytes → String
  | none => "N"
  | some v => toHex v

def showList {α} (f : α → String) (l : List α) : String :=
  if l.isEmpty then "." else ",".intercalate (l.map f)

def SPdu.text : SPdu → String
  | .symm d s => s!"symm {d} {s}"
  | .pax d s a b c e f => s!"pax {d} {s} {showOptNat a} {showOptNat b} {showOptNat c} {showOptNat e} {showOptNat f}"
  | .ui d s x => s!"ui {d} {s} {toHex x}"
  | .connect d s m r n => s!"connect {d} {s} {m} {r} {showOptBytes n}"
  | .disc d s => s!"disc {d} {s}"
  | .cc d s m r => s!"cc {d} {s} {m} {r}"
  | .dm d s r => s!"dm {d} {s} {r}"
  | .frmr d s a b c e f g h i => s!"frmr {d} {s} {a} {b} {c} {e} {f} {g} {h} {i}"
  | .snl d s q r =>
    s!"snl {d} {s} {showList (fun (x : Nat × Bytes) => s!"{x.1}:{toHex x.2}") q} {showList (fun (x : Nat × Nat) => s!"{x.1}:{x.2}") r}"
  | .dps d s e r => s!"dps {d} {s} {showOptBytes e} {showOptBytes r}"
  | .info d s a b x => s!"i {d} {s} {a} {b} {toHex x}"
  | .rr d s r => s!"rr {d} {s} {r}"
  | .rnr d s r => s!"rnr {d} {s} {r}"
  | .unknown t d s x => s!"unknown {t} {d} {s} {toHex x}"

def Pdu.text : Pdu → String
  | .simple p => p.text
  | .agf d s items => " / ".intercalate (s!"agf {d} {s}" :: items.map SPdu.text)

def parseOptNat (s : String) : Option (Option Nat) :=
  if s = "N" then some none else s.toNat?.map some

def parseOptBytes (s : String) : Option (Option Bytes) :=
  if s = "N" then some none else (parseHex s).map some

def parseListWith {α} (f : String → Option α) (s : String) : Option (List α) :=
  if s = "." then some [] else (s.splitOn ",").mapM f

def parsePair {α β} (f : String → Option α) (g : String → Option β) (s : String) : Option (α × β) :=
  match s.splitOn ":" with
  | [a, b] => match f a, g b with
    | some x, some y => some (x, y)
    | _, _ => none
  | _ => none

def nats (l : List String) : Option (List Nat) := l.mapM (·.toNat?)

def SPdu.parse (s : String) : Option SPdu :=
  match s.splitOn " " with
  | ["symm", d, s] => match nats [d, s] with
    | some [d, s] => some (.symm d s) | _ => none
  | ["pax", d, s, a, b, c, e, f] =>
    match nats [d, s], parseOptNat a, parseOptNat b, parseOptNat c, parseOptNat e, parseOptNat f with
    | some [d, s], some a, some b, some c, some e, some f => some (.pax d s a b c e f)
    | _, _, _, _, _, _ => none
  | ["ui", d, s, x] => match nats [d, s], parseHex x with
    | some [d, s], some x => some (.ui d s x) | _, _ => none
  | ["connect", d, s, m, r, n] => match nats [d, s, m, r], parseOptBytes n with
    | some [d, s, m, r], some n => some (.connect d s m r n) | _, _ => none
  | ["disc", d, s] => match nats [d, s] with
    | some [d, s] => some (.disc d s) | _ => none
  | ["cc", d, s, m, r] => match nats [d, s, m, r] with
    | some [d, s, m, r] => some (.cc d s m r) | _ => none
  | ["dm", d, s, r] => match nats [d, s, r] with
    | some [d, s, r] => some (.dm d s r) | _ => none
  | ["frmr", d, s, a, b, c, e, f, g, h, i] => match nats [d, s, a, b, c, e, f, g, h, i] with
    | some [d, s, a, b, c, e, f, g, h, i] => some (.frmr d s a b c e f g h i) | _ => none
  | ["snl", d, s, q, r] =>
    match nats [d, s], parseListWith (parsePair (·.toNat?) parseHex) q,
      parseListWith (parsePair (·.toNat?) (·.toNat?)) r with
    | some [d, s], some q, some r => some (.snl d s q r) | _, _, _ => none
  | ["dps", d, s, e, r] => match nats [d, s], parseOptBytes e, parseOptBytes r with
    | some [d, s], some e, some r => some (.dps d s e r) | _, _, _ => none
  | ["i", d, s, a, b, x] => match nats [d, s, a, b], parseHex x with
    | some [d, s, a, b], some x => some (.info d s a b x) | _, _ => none
  | ["rr", d, s, r] => match nats [d, s, r] with
    | some [d, s, r] => some (.rr d s r) | _ => none
  | ["rnr", d, s, r] => match nats [d, s, r] with
    | some [d, s, r] => some (.rnr d s r) | _ => none
  | ["unknown", t, d, s, x] => match nats [t, d, s], parseHex x with
    | some [t, d, s], some x => some (.unknown t d s x) | _, _ => none
  | _ => none

def Pdu.parse (s : String) : Option Pdu :=
  match s.splitOn " / " with
  | [] => none
  | h :: items =>
    match h.splitOn " " with
    | ["agf", d, s] => match nats [d, s], items.mapM SPdu.parse with
      | some [d, s], some l => some (.agf d s l) | _, _ => none
    | _ => if items.isEmpty then (SPdu.parse h).map .simple else none

end NfcVerif.Pdu
