import NfcVerif.Model.Snep
import NfcVerif.Model.SnepObj
import NfcVerif.Model.Handover
/-!
# Reference definitions for the function-translator group SnepHo (`harness/fnspecs/snepho.py`)

SNEP and connection handover are sequential programs around blocking socket calls.  The C06 / C07 / C09 models cut them at
the blocking points (`Model/Snep.lean`, `Model/Handover.lean`, `Model/SnepObj.lean`).  What those state machines do not have
as separate functions is written here spec-style, over ORACLE sockets (`send : Bytes → Py Bool`, `recv : Py Bytes`,
`poll : Py Bool`, `accept : Py Int`: any pure answer or exception; a pure oracle answers every call of one run alike, so
the theorems pin the SEQUENCE of calls and the decisions between them, not the socket's state):

* `recvResponse`: the SNEP client's `recv_response` - header checks, acceptable length, Continue request, reassembly loop;
  `recvResponse_oversize`: a response whose announced length exceeds the acceptable length is never returned, whether it
  arrives complete or as a first fragment, and no Continue request is sent for it (`recvResponse_oversize_silent`);
* `srvRespond` / `hoRespond`: response fragmentation of `SnepServer._serve` / `HandoverServer.serve` by the send MIU:
  the fragments offered are `Chan.fragments` / `Chan.chunks`, whose concatenation is the response (C06 `frag_concat`);
* `listenLoop`: the accept loop of `SnepServer._listen` / `HandoverServer.listen`: it has no handler of its own, so EVERY
  exception of `accept()` ends it (`listenLoop_ends`), and nothing else does (`listenLoop_only_exception`);
* `releaseAfter`: `SnepClient.release_connection` after the connection decision of `put_octets` / `get_octets`: true iff
  that very call opened the connection (`release_iff`); `SnepObj.request` with `sticky := false` is this rule
  (`Props/FnBridgeSnepHo.lean: request_release_bridge`);
* `processDispatch`: GET / PUT dispatch of `process_snep_request` and the acceptable length of a GET response
  (`process_excess`: an over-long GET response is replaced by ExcessData with no data);
* `hoStep`: the decision of `HandoverServer.serve` after a fragment was appended: an empty buffer never reaches the
  completeness test nor `records[0]` (`hoStep_empty`).
-/
namespace NfcVerif.FnSnepHoRef
open NfcVerif NfcVerif.Chan NfcVerif.Snep

/-! ## sending a list of fragments -/

/-- offer the fragments in order; the first exception ends it, the socket's answer is ignored (`SnepServer._serve`) -/
def sendEach (send : Bytes → Py Bool) : List Bytes → Py Unit
  | [] => .ok ()
  | f :: fs =>
    match send f with
    | .error e => .error e
    | .ok _ => sendEach send fs

/-- offer the fragments in order until one is refused (`HandoverServer.serve`): `true` iff all were accepted -/
def sendWhile (send : Bytes → Py Bool) : List Bytes → Py Bool
  | [] => .ok true
  | f :: fs =>
    match send f with
    | .error e => .error e
    | .ok false => .ok false
    | .ok true => sendWhile send fs

/-! ## `recv_response` (nfc/snep/client.py) -/

/-- the length field of a SNEP header (octets 2..5 of the first six) -/
def rspLength (r : Bytes) : Nat := beNat (((r.take 6).drop 2).take 4)

/-- the reassembly loop: `while len(buf) - 6 < length: if poll(): buf += recv() else: return None` -/
def reasm (poll : Py Bool) (recv : Py Bytes) (length : Nat) : Nat → Bytes → Py (Option Bytes)
  | 0, _ => .error .outOfFuel
  | n + 1, buf =>
    if (buf.length : Int) - 6 < (length : Int) then
      match poll with
      | .error e => .error e
      | .ok false => .ok none
      | .ok true =>
        match recv with
        | .error e => .error e
        | .ok m => reasm poll recv length n (buf ++ m)
    else .ok (some buf)

/-- `recv_response(socket, acceptable_length, timeout)`; `poll` is `socket.poll("recv", timeout)` -/
def recvResponse (fuel : Nat) (acc : Int) (poll : Py Bool) (recv : Py Bytes) (send : Bytes → Py Bool) : Py (Option Bytes) :=
  match poll with
  | .error e => .error e
  | .ok false => .ok none
  | .ok true =>
    match recv with
    | .error e => .error e
    | .ok r =>
      if r.length < 6 then .ok none
      else if (rspLength r : Int) > acc then .ok none
      else if (r.length : Int) - 6 < (rspLength r : Int) then
        match send contReq with
        | .error e => .error e
        | .ok _ => reasm poll recv (rspLength r) fuel r
      else .ok (some r)

/-- a response whose header announces more than the acceptable length is never returned - complete or fragmented -/
theorem recvResponse_oversize (fuel : Nat) (acc : Int) (poll : Py Bool) (r : Bytes) (send : Bytes → Py Bool)
    (hp : poll = .ok true) (h : (rspLength r : Int) > acc) :
    recvResponse fuel acc poll (.ok r) send = .ok none := by
  unfold recvResponse
  rw [hp]
  simp only []
  by_cases h6 : r.length < 6
  · rw [if_pos h6]
  · rw [if_neg h6, if_pos h]

/-- ... and the decision does not depend on the socket's `send`: no Continue request goes out for it -/
theorem recvResponse_oversize_silent (fuel : Nat) (acc : Int) (poll : Py Bool) (r : Bytes) (send send' : Bytes → Py Bool)
    (hp : poll = .ok true) (h : (rspLength r : Int) > acc) :
    recvResponse fuel acc poll (.ok r) send = recvResponse fuel acc poll (.ok r) send' := by
  rw [recvResponse_oversize fuel acc poll r send hp h, recvResponse_oversize fuel acc poll r send' hp h]

/-- the loop returns a buffer only when it holds the announced number of octets -/
theorem reasm_complete (poll : Py Bool) (recv : Py Bytes) (length : Nat) :
    ∀ (fuel : Nat) (buf d : Bytes), reasm poll recv length fuel buf = .ok (some d) → ¬ ((d.length : Int) - 6 < (length : Int)) := by
  intro fuel
  induction fuel with
  | zero => intro buf d h; simp [reasm] at h
  | succ n ih =>
    intro buf d h
    unfold reasm at h
    split at h
    · split at h
      · simp at h
      · simp at h
      · split at h
        · simp at h
        · exact ih _ _ h
    · rename_i hc
      simp only [Except.ok.injEq, Option.some.injEq] at h
      subst h
      exact hc

/-! ## response fragmentation -/

/-- `SnepServer._serve`, sending the response: one message when it fits the send MIU; else the first `miu` octets, the
client's answer is read, and only on a Continue request the remaining fragments follow -/
def srvRespond (data : Bytes) (miu : Nat) (recv : Py Bytes) (send : Bytes → Py Bool) : Py Unit :=
  if data.length ≤ miu then
    match send data with
    | .error e => .error e
    | .ok _ => .ok ()
  else
    match send (data.take miu) with
    | .error e => .error e
    | .ok _ =>
      match recv with
      | .error e => .error e
      | .ok m => if m = contReq then sendEach send (chunks miu (data.drop miu)) else .ok ()

/-- `HandoverServer.serve`, sending the response: the fragments in order until the socket refuses one -/
def hoRespond (response : Bytes) (miu : Nat) (send : Bytes → Py Bool) : Py Bool :=
  sendWhile send (chunks miu response)

/-! ## the accept loops -/

/-- `while True: client_socket = accept(); Thread(..).start()` -/
def listenLoop (accept : Py Int) (start : Py Unit) : Nat → Py Unit
  | 0 => .error .outOfFuel
  | n + 1 =>
    match accept with
    | .error e => .error e
    | .ok _ =>
      match start with
      | .error e => .error e
      | .ok _ => listenLoop accept start n

/-- every exception of `accept()` ends the listen loop (it reaches the handler around the loop): in particular every
`nfc.llcp.Error`, whatever its errno - EPIPE from a blocked accept, ESHUTDOWN / EBADF from an accept on a dead socket -/
theorem listenLoop_ends (e : Exc) (start : Py Unit) (fuel : Nat) : listenLoop (.error e) start (fuel + 1) = .error e := rfl

/-- and only an exception ends it: while `accept` and `start` succeed the loop goes on (fuel runs out) -/
theorem listenLoop_only_exception (s : Int) (fuel : Nat) : listenLoop (.ok s) (.ok ()) fuel = .error .outOfFuel := by
  induction fuel with
  | zero => rfl
  | succ n ih => unfold listenLoop; exact ih

/-! ## `release_connection` -/

/-- `self.release_connection` after the connection decision of `put_octets` / `get_octets` (`hadSocket`: the client was
connected when the call began) -/
def releaseAfter (hadSocket : Bool) : Bool := !hadSocket

/-- the connection is released at the end of the request iff it was opened by that very call -/
theorem release_iff (hadSocket : Bool) : releaseAfter hadSocket = true ↔ hadSocket = false := by
  cases hadSocket <;> simp [releaseAfter]

/-! ## `process_snep_request` -/

/-- the `try` body of `process_snep_request`: `records` / `encoded` stand for the ndeflib calls, `isInt` for
`isinstance(response, int)`, `onGet` / `onPut` for the application -/
def processDispatch (d : Bytes) (records : Int) (isInt : Bool) (encoded : Bytes) (onGet onPut : Int → Py Int) : Py (Int × Bytes) :=
  match d with
  | _ :: code :: _ =>
    if code = 1 ∧ 10 ≤ d.length then
      match onGet records with
      | .error e => .error e
      | .ok rsp =>
        let acc := beNat ((d.drop 6).take 4)
        let r : Int × Bytes := if isInt then (rsp, []) else (0x81, encoded)
        .ok (if r.2.length > acc then (0xC1, []) else r)
    else if code = 2 then
      match onPut records with
      | .error e => .error e
      | .ok c => .ok (c, [])
    else .ok (0xC2, [])
  | _ => .error .index

/-- a GET response longer than the client's acceptable length is replaced by ExcessData without data: no octet of it
is sent -/
theorem process_excess (d : Bytes) (a code : Nat) (t : Bytes) (hd : d = a :: code :: t) (hc : code = 1) (hl : 10 ≤ d.length)
    (records rsp : Int) (encoded : Bytes) (onGet onPut : Int → Py Int) (hg : onGet records = .ok rsp)
    (hx : encoded.length > beNat ((d.drop 6).take 4)) :
    processDispatch d records false encoded onGet onPut = .ok (0xC1, []) := by
  subst hd
  unfold processDispatch
  simp only []
  rw [if_pos ⟨hc, hl⟩, hg]
  simp only [Bool.false_eq_true, if_false]
  rw [if_pos hx]

/-! ## `HandoverServer.serve` after `request += socket.recv()` -/

inductive HoStep
  /-- `continue  # need some data` -/
  | needData
  /-- `continue  # need more data` -/
  | needMore
  /-- `_process_request_data(request)`, which reads `records[0]` -/
  | process
  deriving DecidableEq, Repr, Inhabited

def hoStep (complete : Bytes → Bool) (request : Bytes) : HoStep :=
  if request = [] then .needData else if complete request then .process else .needMore

/-- an empty buffer (an I PDU without information as first fragment) never reaches `records[0]`, whatever the decoder
says about zero octets -/
theorem hoStep_empty (complete : Bytes → Bool) : hoStep complete [] = .needData := rfl

/-- the decoder mode of the completeness test and of the processing step -/
def completeMode : String := "strict"
def processMode : String := "relax"

end NfcVerif.FnSnepHoRef
