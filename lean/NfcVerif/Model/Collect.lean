import NfcVerif.Py
/-!
# Outbound PDU collection (property C10)

Transcription of
* `nfc.llcp.tco.TransmissionControlObject.dequeue`, `RawAccessPoint.dequeue`,
  `LogicalDataLink.dequeue`, `DataLinkConnection.dequeue` / `sendack`,
* `nfc.llcp.llc.ServiceAccessPoint.dequeue` / `sendack`, `ServiceDiscovery.dequeue`,
* `nfc.llcp.llc.LogicalLinkController.collect`
at the level of PDU sizes: a queued PDU is `(kind, header size, total length, id)`.
`Pdu.len` of an aggregate and of an SNL PDU follow `pdu.py`
(`2 + Σ (2 + len sub)`, `2 + 4·|sdres| + Σ (3 + |name|)`).
-/
namespace NfcVerif.Collect

inductive Kind | ui | i | rr | dm | frmr | snl | other
  deriving DecidableEq, Repr

structure QPdu where
  kind : Kind
  hdr : Nat      -- `header_size` (2, or 3 for numbered PDUs)
  len : Nat      -- `len(pdu)`
  id : Nat       -- identity for the correspondence (payload marker)
  deriving DecidableEq, Repr

def QPdu.info (p : QPdu) : Nat := p.len - p.hdr

def rrPdu (id : Nat) : QPdu := ⟨.rr, 3, 3, id⟩

/-- `TransmissionControlObject.dequeue(miu_size, icv_size)`; `miu = none` skips the size check -/
def QPdu.size (p : QPdu) (icv : Nat) : Nat :=
  if p.kind = .ui ∨ p.kind = .i then p.len + icv else p.len

def tcoDequeue : List QPdu → Option Int → Nat → Option QPdu × List QPdu
  | [], _, _ => (none, [])
  | p :: rest, none, _ => (some p, rest)
  | p :: rest, some m, icv =>
    if ((p.size icv : Int) - (p.hdr : Int)) > m then (none, p :: rest) else (some p, rest)

inductive Sock
  | raw (q : List QPdu)
  | ldl (q : List QPdu)
  /-- `established`: state ESTABLISHED; `busy`/`busySent`: mode.RECV_BUSY / RECV_BUSY_SENT;
      `rw cnt ack confs`: RW(L), V(R), V(RA), recv_confs -/
  | dlc (established busy busySent : Bool) (rw cnt ack confs : Nat) (q : List QPdu)
  deriving Repr

/-- `recv_window_slots`: (RW(L) - V(R) + V(RA)) mod 16 -/
def slots (rw cnt ack : Nat) : Nat := (rw + 16 - cnt % 16 + ack) % 16

/-- socket `dequeue(miu_size, icv_size)` -/
def Sock.dequeue (s : Sock) (miu : Int) (icv : Nat) : Option QPdu × Sock :=
  match s with
  | .raw q => let r := tcoDequeue q none 0; (r.1, .raw r.2)
  | .ldl q => let r := tcoDequeue q (some miu) icv; (r.1, .ldl r.2)
  | .dlc est busy busySent rw cnt ack confs q =>
    if est ∧ busySent ≠ busy then (some (rrPdu 0), .dlc est busy busy rw cnt ack confs q)
    else
      let r := tcoDequeue q (some miu) icv
      match r.1 with
      | none =>
        -- "necessary ack": nothing to send but the receive window is exhausted
        if est ∧ confs ≠ 0 ∧ slots rw cnt ack = 0 then
          (some (rrPdu 0), .dlc est busy busySent rw cnt ((ack + confs) % 16) 0 r.2)
        else (none, .dlc est busy busySent rw cnt ack confs r.2)
      | some p =>
        if p.kind = .frmr then (some p, .dlc false busy busySent rw cnt ack confs [])   -- SHUTDOWN, close()
        else if p.kind = .i ∧ est then
          -- piggy-backed acknowledgement
          if confs ≠ 0 ∧ cnt ≠ ack then (some p, .dlc est busy busySent rw cnt ((ack + confs) % 16) 0 r.2)
          else (some p, .dlc est busy busySent rw cnt ack confs r.2)
        else (some p, .dlc est busy busySent rw cnt ack confs r.2)

/-- `DataLinkConnection.sendack()`; other socket types have no voluntary ack -/
def Sock.sendack (s : Sock) : Option QPdu × Sock :=
  match s with
  | .dlc est busy busySent rw cnt ack confs q =>
    if est ∧ confs ≠ 0 ∧ cnt ≠ ack then (some (rrPdu 0), .dlc est busy busySent rw cnt ((ack + confs) % 16) 0 q)
    else (none, s)
  | _ => (none, s)

inductive Mode | none | raw | ldl | dlc deriving DecidableEq, Repr

structure Sap where
  socks : List Sock
  sendList : List QPdu
  deriving Repr

def Sap.mode (s : Sap) : Mode :=
  match s.socks with
  | [] => .none
  | .raw _ :: _ => .raw
  | .ldl _ :: _ => .ldl
  | .dlc .. :: _ => .dlc

/-- `for socket in self.sock_list: p = socket.dequeue(..); if p: return p` -/
def socksDequeue : List Sock → Int → Nat → Option QPdu × List Sock
  | [], _, _ => (none, [])
  | s :: rest, miu, icv =>
    let r := s.dequeue miu icv
    match r.1 with
    | some p => (some p, r.2 :: rest)
    | none => let r' := socksDequeue rest miu icv; (r'.1, r.2 :: r'.2)

def socksSendack : List Sock → Option QPdu × List Sock
  | [] => (none, [])
  | s :: rest =>
    let r := s.sendack
    match r.1 with
    | some p => (some p, r.2 :: rest)
    | none => let r' := socksSendack rest; (r'.1, r.2 :: r'.2)

/-- `ServiceAccessPoint.dequeue` -/
def Sap.dequeue (s : Sap) (miu : Int) (icv : Nat) : Option QPdu × Sap :=
  let r := socksDequeue s.socks miu icv
  match r.1 with
  | some p => (some p, { s with socks := r.2 })
  | none =>
    match s.sendList with
    | [] => (none, { s with socks := r.2 })
    | p :: rest => (some p, { socks := r.2, sendList := rest })

def Sap.sendack (s : Sap) : Option QPdu × Sap :=
  let r := socksSendack s.socks
  (r.1, { s with socks := r.2 })

/-- state of `ServiceDiscovery`: pending answers, pending requests (tid, name length), DM PDUs -/
structure Sd where
  sdres : List Nat
  sdreq : List (Nat × Nat)
  dmpdu : List QPdu
  deriving Repr

/-- `while miu_size >= 4: sdres.popleft(); miu_size -= 4` -/
def takeSdres : List Nat → Int → Nat → Nat × List Nat × Int
  | [], m, n => (n, [], m)
  | x :: rest, m, n => if m ≥ 4 then takeSdres rest (m - 4) (n + 1) else (n, x :: rest, m)

/-- the `for i in range(len(self.sdreq))` loop: requests that do not fit are rotated to the end -/
def takeSdreq : Nat → List (Nat × Nat) → Int → Nat → Nat × List (Nat × Nat) × Int
  | 0, q, m, acc => (acc, q, m)
  | _ + 1, [], m, acc => (acc, [], m)
  | k + 1, (tid, nl) :: rest, m, acc =>
    if (3 + (nl : Int)) > m then takeSdreq k (rest ++ [(tid, nl)]) m acc
    else takeSdreq k rest (m - (3 + nl)) (acc + (3 + nl))

/-- `ServiceDiscovery.dequeue(miu_size, icv_size)` -/
def Sd.dequeue (s : Sd) (miu : Int) : Option QPdu × Sd :=
  if s.sdres ≠ [] ∨ s.sdreq ≠ [] then
    let r := takeSdres s.sdres miu 0
    let q := takeSdreq s.sdreq.length s.sdreq r.2.2 0
    (some ⟨.snl, 2, 2 + 4 * r.1 + q.1, 0⟩, { s with sdres := r.2.1, sdreq := q.2.1 })
  else
    match s.dmpdu with
    | p :: rest => if miu > 0 then (some p, { s with dmpdu := rest }) else (none, s)
    | [] => (none, s)

/-- an entry of `llc.sap` (in address order, `None` entries omitted) -/
inductive Ent
  | sap (s : Sap)
  | sd (s : Sd)      -- `llc.sap[1]`, mode LOGICAL_DATA_LINK
  deriving Repr

def Ent.mode : Ent → Mode
  | .sap s => s.mode
  | .sd _ => .ldl

def Ent.dequeue (e : Ent) (miu : Int) (icv : Nat) : Option QPdu × Ent :=
  match e with
  | .sap s => let r := s.dequeue miu icv; (r.1, .sap r.2)
  | .sd s => let r := s.dequeue miu; (r.1, .sd r.2)

def Ent.sendack (e : Ent) : Option QPdu × Ent :=
  match e with
  | .sap s => let r := s.sendack; (r.1, .sap r.2)
  | .sd _ => (none, e)

/-- first loop of `collect`: visit the entries in the given order of positions (raw SAPs
first) until one returns a PDU; entries stay at their address position -/
def firstDequeue (miu : Int) : List Nat → List Ent → Option QPdu × List Ent
  | [], es => (none, es)
  | i :: order, es =>
    match es[i]? with
    | none => firstDequeue miu order es
    | some e =>
      let r := e.dequeue miu 0
      match r.1 with
      | some p => (some p, es.set i r.2)
      | none => firstDequeue miu order (es.set i r.2)

/-- `for sap in ...: if sap.mode == DATA_LINK_CONNECTION: p = sap.sendack(); if p: break` -/
def firstSendack : List Ent → Option QPdu × List Ent
  | [] => (none, [])
  | e :: rest =>
    if e.mode = .dlc then
      let r := e.sendack
      match r.1 with
      | some p => (some p, r.2 :: rest)
      | none => let r' := firstSendack rest; (r'.1, r.2 :: r'.2)
    else let r' := firstSendack rest; (r'.1, e :: r'.2)

def agfLen (subs : List QPdu) : Nat := 2 + (subs.map (fun p => 2 + p.len)).sum

/-- aggregation budget `self.cfg["send-miu"] - len(agf_pdu) - 3` -/
def budget (sendMiu : Nat) (subs : List QPdu) : Int := (sendMiu : Int) - (agfLen subs : Int) - 3

/-- one pass of the inner `for sap in filter(None, self.sap)` loop of the aggregation;
returns (entries, aggregate, nothing dequeued?) and stops as soon as the budget is negative -/
def aggPass (sendMiu icv : Nat) : List Ent → List QPdu → Bool → List Ent × List QPdu × Bool
  | [], subs, none_ => ([], subs, none_)
  | e :: rest, subs, none_ =>
    let r := e.dequeue (budget sendMiu subs) icv
    match r.1 with
    | some p =>
      let subs' := subs ++ [p]
      if budget sendMiu subs' < 0 then (r.2 :: rest, subs', false)
      else
        let r' := aggPass sendMiu icv rest subs' false
        (r.2 :: r'.1, r'.2.1, r'.2.2)
    | none =>
      let r' := aggPass sendMiu icv rest subs none_
      (r.2 :: r'.1, r'.2.1, r'.2.2)

/-- `while miu_size >= 0:` ... repeated passes; `fuel` bounds the number of passes (every
productive pass removes a PDU from some queue) -/
def aggLoop (sendMiu icv : Nat) : Nat → List Ent → List QPdu → List Ent × List QPdu
  | 0, es, subs => (es, subs)
  | fuel + 1, es, subs =>
    if budget sendMiu subs < 0 then (es, subs)
    else
      let r := aggPass sendMiu icv es subs true
      if budget sendMiu r.2.1 < 0 ∨ r.2.2 then (r.1, r.2.1)
      else aggLoop sendMiu icv fuel r.1 r.2.1

/-- voluntary acknowledgements appended while the budget lasts -/
def aggAcks (sendMiu : Nat) : List Ent → List QPdu → List Ent × List QPdu
  | [], subs => ([], subs)
  | e :: rest, subs =>
    if e.mode = .dlc then
      let r := e.sendack
      match r.1 with
      | some p =>
        let subs' := subs ++ [p]
        if budget sendMiu subs' < 0 then (r.2 :: rest, subs')
        else let r' := aggAcks sendMiu rest subs'; (r.2 :: r'.1, r'.2)
      | none => let r' := aggAcks sendMiu rest subs; (r.2 :: r'.1, r'.2)
    else let r' := aggAcks sendMiu rest subs; (e :: r'.1, r'.2)

inductive Frame
  | single (p : QPdu)
  | agf (subs : List QPdu)
  deriving Repr

/-- size of the information field of the transmitted frame -/
def Frame.info : Frame → Nat
  | .single p => p.info
  | .agf subs => agfLen subs - 2

/-- number of queued PDUs (an upper bound for the number of productive passes) -/
def Sock.size : Sock → Nat
  | .raw q | .ldl q => q.length
  | .dlc _ _ _ _ _ _ _ q => q.length + 2
def Ent.size : Ent → Nat
  | .sap s => (s.socks.map Sock.size).sum + s.sendList.length
  | .sd s => s.sdres.length + s.sdreq.length + s.dmpdu.length + 1

/-- positions in the order of `sorted(filter(None, self.sap), reverse=True, key=mode == RAW)`:
stable, raw SAPs first. `RAW_ACCESS_POINT` is 0 and a SAP without sockets also reports mode 0,
so socket-less SAPs (e.g. SAP 0 with pending DM PDUs) sort to the front as well. -/
def rawFirst (es : List Ent) : List Nat :=
  let idx := List.range es.length
  idx.filter (fun i => match es[i]? with | some e => e.mode = .raw ∨ e.mode = .none | none => false) ++
  idx.filter (fun i => match es[i]? with | some e => ¬ (e.mode = .raw ∨ e.mode = .none) | none => false)

/-- the part of `collect` after the first PDU `p` is known (aggregation enabled) -/
def aggregate (es : List Ent) (sendMiu icv : Nat) (p : QPdu) : Option Frame × List Ent :=
  -- every pass that does not end the loop appends at least one PDU (>= 4 octets of the aggregate)
  let fuel := sendMiu + 1
  let l := aggLoop sendMiu icv fuel es [p]
  let a := if budget sendMiu l.2 ≥ 0 then aggAcks sendMiu l.1 l.2 else l
  (some (if a.2.length > 1 then .agf a.2 else .single p), a.1)

/-- `LogicalLinkController.collect()` for `sec = None` -/
def collect (es : List Ent) (sendMiu icv : Nat) (agf : Bool) : Option Frame × List Ent :=
  let first := firstDequeue sendMiu (rawFirst es) es
  match first.1 with
  | some p =>
    if (p.info : Int) ≥ sendMiu then (some (.single p), first.2)
    else if ¬ agf then (some (.single p), first.2)
    else aggregate first.2 sendMiu icv p
  | none =>
    let k := firstSendack first.2
    match k.1 with
    | none => (none, k.2)
    | some p => if ¬ agf then (some (.single p), k.2) else aggregate k.2 sendMiu icv p


/-- the size test of `LogicalDataLink.sendto` (against the link MIU) and of
`DataLinkConnection.send` (against the connection MIU): `EMSGSIZE` (errno 90) when too long -/
def sendCheck (msgLen sendMiu : Nat) : Py Unit :=
  if msgLen > sendMiu then throw (.llcp 90) else pure ()

/-- `llc.connect` / `llc.accept`: the connection send MIU never exceeds the link MIU -/
def clampSendMiu (peerMiu linkMiu : Nat) : Nat := if peerMiu > linkMiu then linkMiu else peerMiu

end NfcVerif.Collect
