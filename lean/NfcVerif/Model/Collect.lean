import NfcVerif.Py
/-!
# Outbound PDU collection (property C10)

Transcription of
* `nfc.llcp.tco.TransmissionControlObject.dequeue`, `RawAccessPoint.dequeue`,
  `LogicalDataLink.dequeue`, `DataLinkConnection.dequeue` / `sendack`,
* `nfc.llcp.llc.ServiceAccessPoint.dequeue` / `sendack`, `ServiceDiscovery.dequeue`,
* `nfc.llcp.llc.LogicalLinkController.collect` including the `encrypt()` step of secure data
  transfer (`self.sec`, `icv_size`),
at the level of PDU sizes: a queued PDU is `(kind, header size, total length, id, icv, lim)`.
`len` of an aggregate and of an SNL PDU follow `pdu.py`
(`2 + Σ (2 + len sub)`, `2 + 4·|sdres| + Σ (3 + |name|)`).

The cipher is abstract: `sec = some n` stands for a cipher suite whose `encrypt(a, p)` returns
`len(p) + n` octets and whose `icv_size` is `n` (`CipherSuite1`: n = 4); `sec = none` is
`llc.sec is None`.
-/
namespace NfcVerif.Collect

/-- the PDU types of `pdu.py` (`other`: an unknown PTYPE, raw access points only) -/
inductive Kind | symm | pax | agf | ui | connect | disc | cc | dm | frmr | snl | dps | i | rr | rnr | other
  deriving DecidableEq, Repr

structure QPdu where
  kind : Kind
  hdr : Nat      -- `header_size` (2, or 3 for numbered PDUs)
  len : Nat      -- `len(pdu)`
  id : Nat       -- identity for the correspondence (payload marker / N(R) / addresses)
  icv : Nat      -- octets appended by `encrypt()` so far (0 for a plaintext PDU)
  lim : Nat      -- ghost: the MIU the payload was checked against by `sendto()` / `send()` (0: none)
  deriving DecidableEq, Repr

/-- size of the information field, `len(pdu) - pdu.header_size` -/
def QPdu.info (p : QPdu) : Nat := p.len - p.hdr

/-- size of the service data unit (the information field without the ICV) -/
def QPdu.payload (p : QPdu) : Nat := p.len - p.hdr - p.icv

/-- `RR_PDU` / `RNR_PDU` `(self.peer, self.addr, self.recv_ack)` -/
def ackPdu (busy : Bool) (nr : Nat) : QPdu := ⟨if busy then .rnr else .rr, 3, 3, nr, 0, 0⟩

/-- `pdu.ServiceNameLookup(dsap=1, ssap=1)` with `len` octets in total -/
def snlPdu (len : Nat) : QPdu := ⟨.snl, 2, len, 65, 0, 0⟩

/-- `self.sec.icv_size if self.sec else 0` -/
def icvOf : Option Nat → Nat
  | none => 0
  | some n => n

/-- `if self.sec and send_pdu.name in ("UI", "I"): send_pdu = encrypt(send_pdu)`:
the same header, the data grown by the ICV -/
def QPdu.encrypt (sec : Option Nat) (p : QPdu) : QPdu :=
  match sec with
  | none => p
  | some n => if p.kind = .ui ∨ p.kind = .i then { p with len := p.len + n, icv := p.icv + n } else p

/-- `pdu_size` of `TransmissionControlObject.dequeue(miu_size, icv_size)` -/
def QPdu.size (p : QPdu) (icv : Nat) : Nat :=
  if p.kind = .ui ∨ p.kind = .i then p.len + icv else p.len

/-- `TransmissionControlObject.dequeue(miu_size, icv_size)`; `miu = none` skips the size check -/
def tcoDequeue : List QPdu → Option Int → Nat → Option QPdu × List QPdu
  | [], _, _ => (none, [])
  | p :: rest, none, _ => (some p, rest)
  | p :: rest, some m, icv =>
    if ((p.size icv : Int) - (p.hdr : Int)) > m then (none, p :: rest) else (some p, rest)

/-- `TransmissionControlObject.State` -/
inductive DlcState | shutdown | closed | listen | connect | established | disconnect | closeWait
  deriving DecidableEq, Repr

/-- the attributes of a `DataLinkConnection` that `dequeue` / `sendack` / `send` read or write -/
structure Dlc where
  state : DlcState
  busy : Bool        -- mode.RECV_BUSY
  busySent : Bool    -- mode.RECV_BUSY_SENT
  rw : Nat           -- RW(L)  recv_win
  cnt : Nat          -- V(R)   recv_cnt
  ack : Nat          -- V(RA)  recv_ack
  confs : Nat        -- recv_confs
  sendMiu : Nat      -- send_miu (connection MIU)
  sendWin : Nat      -- RW(R)  send_win
  sendCnt : Nat      -- V(S)   send_cnt
  sendAck : Nat      -- V(SA)  send_ack
  deriving DecidableEq, Repr

inductive Sock
  | raw (q : List QPdu)
  | ldl (sendMiu : Nat) (q : List QPdu)
  | dlc (d : Dlc) (q : List QPdu)
  deriving Repr

/-- `recv_window_slots`: (RW(L) - V(R) + V(RA)) mod 16 -/
def slots (rw cnt ack : Nat) : Nat := (rw + 16 - cnt % 16 + ack) % 16

/-- socket `dequeue(miu_size, icv_size)` -/
def Sock.dequeue (s : Sock) (miu : Int) (icv : Nat) : Option QPdu × Sock :=
  match s with
  | .raw q => let r := tcoDequeue q none 0; (r.1, .raw r.2)
  | .ldl m q => let r := tcoDequeue q (some miu) icv; (r.1, .ldl m r.2)
  | .dlc d q =>
    if d.state = .established ∧ d.busySent ≠ d.busy then
      (some (ackPdu d.busy d.ack), .dlc { d with busySent := d.busy } q)
    else
      let r := tcoDequeue q (some miu) icv
      match r.1 with
      | none =>
        -- "necessary ack": nothing to send but the receive window is exhausted
        if d.state = .established ∧ d.confs ≠ 0 ∧ slots d.rw d.cnt d.ack = 0 then
          (some (ackPdu d.busy ((d.ack + d.confs) % 16)),
           .dlc { d with ack := (d.ack + d.confs) % 16, confs := 0 } r.2)
        else (none, .dlc d r.2)
      | some p =>
        if p.kind = .frmr then (some p, .dlc { d with state := .shutdown } [])   -- SHUTDOWN, close()
        else if p.kind = .i ∧ d.state = .established ∧ d.confs ≠ 0 ∧ d.cnt ≠ d.ack then
          -- piggy-backed acknowledgement
          (some p, .dlc { d with ack := (d.ack + d.confs) % 16, confs := 0 } r.2)
        else (some p, .dlc d r.2)

/-- `DataLinkConnection.sendack()`; other socket types have no voluntary ack -/
def Sock.sendack (s : Sock) : Option QPdu × Sock :=
  match s with
  | .dlc d q =>
    if d.state = .established ∧ d.confs ≠ 0 ∧ d.cnt ≠ d.ack then
      (some (ackPdu d.busy ((d.ack + d.confs) % 16)), .dlc { d with ack := (d.ack + d.confs) % 16, confs := 0 } q)
    else (none, s)
  | _ => (none, s)

inductive Mode | none | raw | ldl | dlc deriving DecidableEq, Repr

structure Sap where
  socks : List Sock
  sendList : List QPdu
  deriving Repr

def Sap.mode (s : Sap) : Mode :=
  match s.socks with
  | [] => .none
  | .raw _ :: _ => .raw
  | .ldl _ _ :: _ => .ldl
  | .dlc _ _ :: _ => .dlc

/-- `for socket in self.sock_list: p = socket.dequeue(..); if p: return p` -/
def socksDequeue : List Sock → Int → Nat → Option QPdu × List Sock
  | [], _, _ => (none, [])
  | s :: rest, miu, icv =>
    let r := s.dequeue miu icv
    match r.1 with
    | some p => (some p, r.2 :: rest)
    | none => let r' := socksDequeue rest miu icv; (r'.1, r.2 :: r'.2)

def socksSendack : List Sock → Option QPdu × List Sock
  | [] => (none, [])
  | s :: rest =>
    let r := s.sendack
    match r.1 with
    | some p => (some p, r.2 :: rest)
    | none => let r' := socksSendack rest; (r'.1, r.2 :: r'.2)

/-- `ServiceAccessPoint.dequeue` -/
def Sap.dequeue (s : Sap) (miu : Int) (icv : Nat) : Option QPdu × Sap :=
  let r := socksDequeue s.socks miu icv
  match r.1 with
  | some p => (some p, { s with socks := r.2 })
  | none =>
    match s.sendList with
    | [] => (none, { s with socks := r.2 })
    | p :: rest => (some p, { socks := r.2, sendList := rest })

def Sap.sendack (s : Sap) : Option QPdu × Sap :=
  let r := socksSendack s.socks
  (r.1, { s with socks := r.2 })

/-- state of `ServiceDiscovery`: pending answers (tid * 256 + sap), pending requests
(tid, name length), DM PDUs -/
structure Sd where
  sdres : List Nat
  sdreq : List (Nat × Nat)
  dmpdu : List QPdu
  deriving Repr

/-- `while miu_size >= 4: sdres.popleft(); miu_size -= 4` -/
def takeSdres : List Nat → Int → Nat → Nat × List Nat × Int
  | [], m, n => (n, [], m)
  | x :: rest, m, n => if m ≥ 4 then takeSdres rest (m - 4) (n + 1) else (n, x :: rest, m)

/-- the `for i in range(len(self.sdreq))` loop: requests that do not fit are rotated to the end -/
def takeSdreq : Nat → List (Nat × Nat) → Int → Nat → Nat × List (Nat × Nat) × Int
  | 0, q, m, acc => (acc, q, m)
  | _ + 1, [], m, acc => (acc, [], m)
  | k + 1, (tid, nl) :: rest, m, acc =>
    if (3 + (nl : Int)) > m then takeSdreq k (rest ++ [(tid, nl)]) m acc
    else takeSdreq k rest (m - (3 + nl)) (acc + (3 + nl))

/-- `ServiceDiscovery.dequeue(miu_size, icv_size)` -/
def Sd.dequeue (s : Sd) (miu : Int) : Option QPdu × Sd :=
  if s.sdres ≠ [] ∨ s.sdreq ≠ [] then
    let r := takeSdres s.sdres miu 0
    let q := takeSdreq s.sdreq.length s.sdreq r.2.2 0
    (some (snlPdu (2 + 4 * r.1 + q.1)), { s with sdres := r.2.1, sdreq := q.2.1 })
  else
    match s.dmpdu with
    | p :: rest => if miu > 0 then (some p, { s with dmpdu := rest }) else (none, s)
    | [] => (none, s)

/-- an entry of `llc.sap` (in address order, `None` entries omitted) -/
inductive Ent
  | sap (s : Sap)
  | sd (s : Sd)      -- `llc.sap[1]`, mode LOGICAL_DATA_LINK
  deriving Repr

def Ent.mode : Ent → Mode
  | .sap s => s.mode
  | .sd _ => .ldl

def Ent.dequeue (e : Ent) (miu : Int) (icv : Nat) : Option QPdu × Ent :=
  match e with
  | .sap s => let r := s.dequeue miu icv; (r.1, .sap r.2)
  | .sd s => let r := s.dequeue miu; (r.1, .sd r.2)

def Ent.sendack (e : Ent) : Option QPdu × Ent :=
  match e with
  | .sap s => let r := s.sendack; (r.1, .sap r.2)
  | .sd _ => (none, e)

/-- first loop of `collect`: visit the entries in the given order of positions (raw SAPs
first) until one returns a PDU; entries stay at their address position.  The sockets are asked
with `icv_size=0` -/
def firstDequeue (miu : Int) : List Nat → List Ent → Option QPdu × List Ent
  | [], es => (none, es)
  | i :: order, es =>
    match es[i]? with
    | none => firstDequeue miu order es
    | some e =>
      let r := e.dequeue miu 0
      match r.1 with
      | some p => (some p, es.set i r.2)
      | none => firstDequeue miu order (es.set i r.2)

/-- `for sap in ...: if sap.mode == DATA_LINK_CONNECTION: p = sap.sendack(); if p: break` -/
def firstSendack : List Ent → Option QPdu × List Ent
  | [] => (none, [])
  | e :: rest =>
    if e.mode = .dlc then
      let r := e.sendack
      match r.1 with
      | some p => (some p, r.2 :: rest)
      | none => let r' := firstSendack rest; (r'.1, r.2 :: r'.2)
    else let r' := firstSendack rest; (r'.1, e :: r'.2)

def agfLen (subs : List QPdu) : Nat := 2 + (subs.map (fun p => 2 + p.len)).sum

/-- aggregation budget `self.cfg["send-miu"] - len(agf_pdu) - 3` -/
def budget (sendMiu : Nat) (subs : List QPdu) : Int := (sendMiu : Int) - (agfLen subs : Int) - 3

/-- one pass of the inner `for sap in filter(None, self.sap)` loop of the aggregation;
returns (entries, aggregate, nothing dequeued?) and stops as soon as the budget is negative.
A dequeued UI / I PDU is encrypted AFTER the size check of `dequeue` and then appended -/
def aggPass (sendMiu : Nat) (sec : Option Nat) : List Ent → List QPdu → Bool → List Ent × List QPdu × Bool
  | [], subs, none_ => ([], subs, none_)
  | e :: rest, subs, none_ =>
    let r := e.dequeue (budget sendMiu subs) (icvOf sec)
    match r.1 with
    | some p =>
      let subs' := subs ++ [p.encrypt sec]
      if budget sendMiu subs' < 0 then (r.2 :: rest, subs', false)
      else
        let r' := aggPass sendMiu sec rest subs' false
        (r.2 :: r'.1, r'.2.1, r'.2.2)
    | none =>
      let r' := aggPass sendMiu sec rest subs none_
      (r.2 :: r'.1, r'.2.1, r'.2.2)

/-- `while miu_size >= 0:` ... repeated passes; `fuel` bounds the number of passes (every
productive pass appends a PDU to the aggregate, see `Lemmas.Collect.aggLoop_fuel`) -/
def aggLoop (sendMiu : Nat) (sec : Option Nat) : Nat → List Ent → List QPdu → List Ent × List QPdu
  | 0, es, subs => (es, subs)
  | fuel + 1, es, subs =>
    if budget sendMiu subs < 0 then (es, subs)
    else
      let r := aggPass sendMiu sec es subs true
      if budget sendMiu r.2.1 < 0 ∨ r.2.2 then (r.1, r.2.1)
      else aggLoop sendMiu sec fuel r.1 r.2.1

/-- voluntary acknowledgements appended while the budget lasts -/
def aggAcks (sendMiu : Nat) : List Ent → List QPdu → List Ent × List QPdu
  | [], subs => ([], subs)
  | e :: rest, subs =>
    if e.mode = .dlc then
      let r := e.sendack
      match r.1 with
      | some p =>
        let subs' := subs ++ [p]
        if budget sendMiu subs' < 0 then (r.2 :: rest, subs')
        else let r' := aggAcks sendMiu rest subs'; (r.2 :: r'.1, r'.2)
      | none => let r' := aggAcks sendMiu rest subs; (r.2 :: r'.1, r'.2)
    else let r' := aggAcks sendMiu rest subs; (e :: r'.1, r'.2)

inductive Frame
  | single (p : QPdu)
  | agf (subs : List QPdu)
  deriving Repr

/-- size of the information field of the transmitted frame -/
def Frame.info : Frame → Nat
  | .single p => p.info
  | .agf subs => agfLen subs - 2

/-- the PDUs the receiver dispatches -/
def Frame.pdus : Frame → List QPdu
  | .single p => [p]
  | .agf subs => subs

/-- number of queued PDUs (an upper bound for the number of productive passes) -/
def Sock.size : Sock → Nat
  | .raw q | .ldl _ q => q.length
  | .dlc _ q => q.length + 2
def Ent.size : Ent → Nat
  | .sap s => (s.socks.map Sock.size).sum + s.sendList.length
  | .sd s => s.sdres.length + s.sdreq.length + s.dmpdu.length + 1

/-- positions in the order of `sorted(filter(None, self.sap), reverse=True, key=mode == RAW)`:
stable, raw SAPs first. `RAW_ACCESS_POINT` is 0 and a SAP without sockets also reports mode 0,
so socket-less SAPs (e.g. SAP 0 with pending DM PDUs) sort to the front as well. -/
def rawFirst (es : List Ent) : List Nat :=
  let idx := List.range es.length
  idx.filter (fun i => match es[i]? with | some e => e.mode = .raw ∨ e.mode = .none | none => false) ++
  idx.filter (fun i => match es[i]? with | some e => ¬ (e.mode = .raw ∨ e.mode = .none) | none => false)

/-- the part of `collect` after the first PDU `p` is known (aggregation enabled) -/
def aggregate (es : List Ent) (sendMiu : Nat) (sec : Option Nat) (p : QPdu) : Option Frame × List Ent :=
  -- every pass that does not end the loop appends at least one PDU (>= 2 octets of the aggregate)
  let fuel := sendMiu + 1
  let l := aggLoop sendMiu sec fuel es [p]
  let a := if budget sendMiu l.2 ≥ 0 then aggAcks sendMiu l.1 l.2 else l
  (some (if a.2.length > 1 then .agf a.2 else .single p), a.1)

/-- `LogicalLinkController.collect()`: `sec = none` for `self.sec is None`, `some n` for a cipher
suite with `icv_size == n` -/
def collect (es : List Ent) (sendMiu : Nat) (sec : Option Nat) (agf : Bool) : Option Frame × List Ent :=
  let first := firstDequeue sendMiu (rawFirst es) es
  match first.1 with
  | some p0 =>
    let p := p0.encrypt sec
    if (p.info : Int) ≥ sendMiu then (some (.single p), first.2)
    else if ¬ agf then (some (.single p), first.2)
    else aggregate first.2 sendMiu sec p
  | none =>
    let k := firstSendack first.2
    match k.1 with
    | none => (none, k.2)
    | some p => if ¬ agf then (some (.single p), k.2) else aggregate k.2 sendMiu sec p


/-- the size test of `LogicalDataLink.sendto` (against the link MIU) and of
`DataLinkConnection.send` (against the connection MIU): `EMSGSIZE` (errno 90) when too long -/
def sendCheck (msgLen sendMiu : Nat) : Py Unit :=
  if msgLen > sendMiu then throw (.llcp 90) else pure ()

/-- `llc.connect` / `llc.accept`: the connection send MIU never exceeds the link MIU -/
def clampSendMiu (peerMiu linkMiu : Nat) : Nat := if peerMiu > linkMiu then linkMiu else peerMiu

end NfcVerif.Collect
