import NfcVerif.Model.T3
/-!
# Reader side of the Type 3 commit protocol in the vendor classes (`nfc/tag/tt3_sony.py`)

`Type3Tag.NDEF._read_attribute_data` (tt3.py) computes the attribute values and the flags `_readable = WriteF == 0
and Nbr > 0`, `_writeable = RWFlag != 0 and Nbw > 0`.  Two classes override it:

* `FelicaLite.NDEF._read_attribute_data`: when the tag object is authenticated (`authenticate()` returned True: the
  NDEF blocks are read with `read_with_mac`, which appends the MAC block 81h to every block list) `Nbr` becomes
  `min(Nbr, 3)` - a FeliCa Lite answers at most four blocks;
* `FelicaLiteS.NDEF._read_attribute_data`: on top of that, when authenticated, `_writeable` is taken from the
  memory configuration block (`MC_SP_REG_ALL_RW & 3FFh == 3FFh`).

`FelicaStandard`, `FelicaMobile`, `FelicaPlug` do not override anything (product `generic`).

The override is the function `override` of (product, authenticated?, MC bits, base result); `readNdefV` is
`Type3Tag.NDEF._read_ndef_data` of the present tree (length beyond `Nmaxb` blocks and `Nbr = 0` give no NDEF, at most
15 blocks per read) with the override applied and with the reads answered by the card:

* a FeliCa Lite / Lite-S answers at most 4 blocks per Read command (the MAC block counts);
* a FeliCa Lite-S refuses to read a user block whose bit in `MC_SP_REG_R_RESTR` is set unless the reader is
  externally authenticated (= `authenticate()` of `FelicaLiteS` returned True);
* the MAC of an authentic card verifies (what happens when it does not is property C20).
-/
namespace NfcVerif.T3V
open NfcVerif.T34 NfcVerif.T3

inductive Product where
  | generic | lite | liteS
  deriving DecidableEq, Repr

/-- what a reader can learn from the card: the blocks `0 ..` (attribute block, data blocks) and two fields of MC -/
structure Card where
  mem : Bytes
  mcRw : Nat      -- MC octets 0,1 (little endian): MC_SP_REG_ALL_RW
  mcRd : Nat      -- MC octets 6,7 (little endian): MC_SP_REG_R_RESTR (Lite-S)

structure Flags where
  readable : Bool
  writeable : Bool
  deriving DecidableEq, Repr

/-- the flags set by `Type3Tag.NDEF._read_attribute_data` -/
def baseFlags (a : Attr) : Flags :=
  ⟨decide (a.writef = 0 ∧ a.nbr > 0), decide (a.rwflag ≠ 0 ∧ a.nbw > 0)⟩

/-- the overrides of `_read_attribute_data` as a function of the base class result -/
def override (p : Product) (auth : Bool) (mcRw : Nat) (a : Attr) (f : Flags) : Attr × Flags :=
  match p, auth with
  | .lite, true => ({ a with nbr := min a.nbr 3 }, f)
  | .liteS, true => ({ a with nbr := min a.nbr 3 }, { f with writeable := decide (mcRw % 1024 = 1023) })
  | _, _ => (a, f)

/-- is one of the blocks `first .. first+n-1` read restricted (`MC_SP_REG_R_RESTR`, user blocks 0..14)? -/
def anyRestricted (mcRd : Nat) : Nat → Nat → Bool
  | _, 0 => false
  | first, n + 1 => (decide (first < 15) && mcRd.testBit first) || anyRestricted mcRd (first + 1) n

/-- `read_from_ndef_service(first, .., first+n-1)` answered by the card -/
def cardRead (p : Product) (auth : Bool) (c : Card) (first n : Nat) : Py Bytes :=
  if p ≠ .generic ∧ n + (if auth then 1 else 0) > 4 then .error tagStatusErr
  else if p = .liteS ∧ auth = false ∧ anyRestricted c.mcRd first n = true then .error tagStatusErr
  else readBlocks c.mem first n

/-- `for i in range(1, last, nbr)` of `_read_ndef_data` with the reads answered by `rd` -/
def readLoopV (rd : Nat → Nat → Py Bytes) (nbr last : Nat) : Nat → Nat → Bytes → Py (Option Bytes)
  | 0, _, _ => .error .outOfFuel
  | fuel + 1, i, acc =>
    if i ≥ last then .ok (some acc) else
    match rd i (min (i + nbr) last - i) with
    | .ok d => readLoopV rd nbr last fuel (i + nbr) (acc ++ d)
    | .error (.tagCmd _) => .ok none
    | .error e => .error e

/-- a fresh `tag.ndef` of product `p`, read after `authenticate()` (`auth`) or not -/
def readNdefV (p : Product) (auth : Bool) (c : Card) : Py (Option Ndef) :=
  match cardRead p auth c 0 1 with
  | .error (.tagCmd _) => .ok none
  | .error e => .error e
  | .ok blk =>
    decodeAttr blk >>= fun oa =>
    match oa with
    | none => .ok none
    | some a0 =>
      let af := override p auth c.mcRw a0 (baseFlags a0)
      let a := af.1
      if a.ver / 16 ≠ 1 then .ok none else
      if a.ln > a.nmaxb * 16 then .ok none else
      if min a.nbr 15 = 0 then .ok none else
      let last := 1 + (a.ln + 15) / 16
      readLoopV (cardRead p auth c) (min a.nbr 15) last last 1 [] >>= fun od =>
      match od with
      | none => .ok none
      | some d => .ok (some { attr := a,
                              seen := { capacity := (a0.nmaxb * 16 : Nat), readable := af.2.readable,
                                        writeable := af.2.writeable, data := d.take a.ln } })

def seeV (p : Product) (auth : Bool) (c : Card) : Py (Option Seen) :=
  readNdefV p auth c >>= fun o => .ok (o.map (·.seen))

end NfcVerif.T3V
