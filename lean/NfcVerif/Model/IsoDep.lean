import NfcVerif.Py
/-!
# ISO-DEP (ISO/IEC 14443-4) : nfcpy PCD side, a PICC written from the standard, a faulty air interface

* `exchange`, `blockLoop`, `xchgW`, `sendChunks`, `recvChain` transcribe
  `nfc.tag.tt4.IsoDepInitiator.exchange` / `_exchange` (`src/nfc/tag/tt4.py`);
  `sendApdu`, `encodeApdu` transcribe `Type4Tag.send_apdu`; `deriveFsc`, `deriveRetry`,
  `activateA/B` the parameter derivation of `Type4ATag/Type4BTag.__init__`.
* `Card.rx` is a PICC following the block numbering rules C, D, E and the
  block handling rules 2, 3, 9 - 13 of ISO/IEC 14443-4 (no CID, no NAD).
* `World.xchg` is one call of `clf.exchange`: the block travels to the card and the answer
  travels back, each leg consuming one entry of the fault script.

Only core Lean is used so that `Drv/C12.lean` links.
-/
namespace NfcVerif.IsoDep
open NfcVerif

/-! ## the card -/

/-- static behaviour of a card: response block size, where it asks for waiting time, its application -/
structure CardCfg where
  /-- max INF octets per response block (FSD - 3) -/
  chunk : Nat
  /-- number of S(WTX) requests before the first block of a response -/
  wtxI : Nat
  /-- number of S(WTX) requests before an R(ACK) (command chaining) -/
  wtxAck : Nat
  /-- number of S(WTX) requests before a further response block (response chaining) -/
  wtxChain : Nat
  /-- WTXM (1..59) -/
  wtxm : Nat
  /-- response APDU of the execution number `n` (0-based) of command `cmd` -/
  app : Nat → Bytes → Bytes

structure Card where
  /-- current block number (rule C: 1 after activation) -/
  bn : Nat
  /-- last block sent (rule 11) -/
  last : Option Bytes
  /-- INF octets of the command chain received so far -/
  rxbuf : Bytes
  /-- response octets not yet sent -/
  txq : Bytes
  /-- block held back behind S(WTX) requests, and how many more requests follow -/
  pend : Option (Bytes × Nat)
  /-- every command executed, in order -/
  log : List Bytes
  deriving DecidableEq, Repr

def Card.init : Card := { bn := 1, last := none, rxbuf := [], txq := [], pend := none, log := [] }

def wtxBlock (cfg : CardCfg) : Bytes := [0xF2, cfg.wtxm]

def iBlock (bn : Nat) (more : Bool) (inf : Bytes) : Bytes :=
  ((if more then 0x12 else 0x02) ||| bn) :: inf

/-- send `blk`, preceded by `nw` S(WTX) requests (rule 9) -/
def Card.emit (cfg : CardCfg) (c : Card) (blk : Bytes) : Nat → Card × Option Bytes
  | 0 => ({ c with last := some blk, pend := none }, some blk)
  | n+1 => ({ c with last := some (wtxBlock cfg), pend := some (blk, n) }, some (wtxBlock cfg))

/-- reaction of the PICC to one error-free block -/
def Card.rx (cfg : CardCfg) (c : Card) (blk : Bytes) : Card × Option Bytes :=
  match blk with
  | [] => (c, none)
  | pcb :: inf =>
    if pcb &&& 0xEE = 0x02 then
      -- I-block without CID/NAD: rule D
      let bn := (c.bn + 1) % 2
      let buf := c.rxbuf ++ inf
      if pcb &&& 0x10 = 0x10 then
        -- rule 2: chaining, acknowledge
        Card.emit cfg { c with bn := bn, rxbuf := buf, txq := [], pend := none } [0xA2 ||| bn] cfg.wtxAck
      else
        -- rule 10: execute, answer with an I-block
        let rsp := cfg.app c.log.length buf
        Card.emit cfg { c with bn := bn, rxbuf := [], txq := rsp.drop cfg.chunk, pend := none,
                                log := c.log ++ [buf] }
          (iBlock bn (decide (cfg.chunk < rsp.length)) (rsp.take cfg.chunk)) cfg.wtxI
    else if pcb &&& 0xEE = 0xA2 ∧ inf = [] then
      -- R-block without CID; 0x10 = NAK
      if pcb &&& 0x01 = c.bn then (c, c.last)                              -- rule 11
      else if pcb &&& 0x10 = 0x10 then (c, some [0xA2 ||| c.bn])           -- rule 12
      else if c.txq ≠ [] then                                              -- rules E, 13
        let bn := (c.bn + 1) % 2
        Card.emit cfg { c with bn := bn, txq := c.txq.drop cfg.chunk, pend := none }
          (iBlock bn (decide (cfg.chunk < c.txq.length)) (c.txq.take cfg.chunk)) cfg.wtxChain
      else (c, none)
    else if pcb = 0xF2 ∧ inf.length = 1 then
      -- S(WTX) response (rule 3)
      match c.pend with
      | some (b, n) => Card.emit cfg c b n
      | none => (c, none)
    else (c, none)

/-! ## the air interface -/

/-- what happens to one transmitted block: delivered, lost, corrupted (detected by the
receiver), reported as protocol error by the reader driver, delivered as an empty frame -/
inductive Fault | d | l | c | p | e
  deriving DecidableEq, Repr

/-- result of `clf.exchange` -/
inductive Rx
  | data (b : Bytes) | timeout | transmission | protocol | fuel
  deriving DecidableEq, Repr

/-- any card: a state and a reaction to an error-free block -/
structure Peer (σ : Type) where
  rx : σ → Bytes → σ × Option Bytes

def isoPeer (cfg : CardCfg) : Peer Card := ⟨Card.rx cfg⟩

structure World (σ : Type) where
  card : σ
  script : List Fault
  /-- blocks the PCD handed to `clf.exchange`, oldest first -/
  trace : List Bytes

def nextFault : List Fault → Fault × List Fault
  | [] => (.d, [])
  | f :: s => (f, s)

def legBack (f : Fault) (blk : Bytes) : Rx :=
  match f with
  | .d => .data blk
  | .l => .timeout
  | .c => .transmission
  | .p => .protocol
  | .e => .data []

/-- one `clf.exchange(out, timeout)` -/
def World.xchg {σ} (P : Peer σ) (w : World σ) (out : Bytes) : World σ × Rx :=
  let tr := w.trace ++ [out]
  let f1 := nextFault w.script
  if f1.1 ≠ .d then ({ w with script := f1.2, trace := tr }, .timeout)
  else
    let r := P.rx w.card out
    match r.2 with
    | none => ({ card := r.1, script := f1.2, trace := tr }, .timeout)
    | some blk =>
      let f2 := nextFault f1.2
      ({ card := r.1, script := f2.2, trace := tr }, legBack f2.1 blk)

/-! ## the PCD: `IsoDepInitiator` -/

def TIMEOUT_ERROR : Int := 0
def RECEIVE_ERROR : Int := -1
def PROTOCOL_ERROR : Int := -2

/-- `len(data) > 1 and data[0] & 0xFE == 0xF2` -/
def isWtx : Bytes → Bool
  | a :: _ :: _ => a &&& 0xFE == 0xF2
  | _ => false

/-- `IsoDepInitiator._exchange`: send a block, answer S(WTX) requests by echoing them -/
def xchgW {σ} (P : Peer σ) : Nat → World σ → Bytes → World σ × Rx
  | 0, w, _ => (w, .fuel)
  | f+1, w, out =>
    let r := w.xchg P out
    match r.2 with
    | .data d => if isWtx d then xchgW P f r.1 d else (r.1, .data d)
    | e => (r.1, e)

/-- the `for i in itertools.count(start=1)` retry loops (tt4.py command and response phase).
`resend = some pcb`: an answer starting with that octet (R(ACK) with the other block
number) makes the loop send `req` again; `rty` is sent after a timeout / transmission error
while `i ≤ n`. `F` is the fuel of the inner S(WTX) loop. -/
def blockLoop {σ} (P : Peer σ) (F n : Nat) (resend : Option Nat) (req rty : Bytes) :
    Nat → Nat → Bytes → World σ → World σ × Py Bytes
  | 0, _, _, w => (w, .error .outOfFuel)
  | f+1, i, out, w =>
    let r := xchgW P F w out
    match r.2 with
    | .data [] =>
      if i ≤ n then blockLoop P F n resend req rty f (i+1) rty r.1 else (r.1, .error (.tagCmd RECEIVE_ERROR))
    | .data (a :: t) =>
      if resend = some a then blockLoop P F n resend req rty f (i+1) req r.1 else (r.1, .ok (a :: t))
    | .timeout =>
      if i ≤ n then blockLoop P F n resend req rty f (i+1) rty r.1 else (r.1, .error (.tagCmd TIMEOUT_ERROR))
    | .transmission =>
      if i ≤ n then blockLoop P F n resend req rty f (i+1) rty r.1 else (r.1, .error (.tagCmd RECEIVE_ERROR))
    | .protocol => (r.1, .error (.tagCmd PROTOCOL_ERROR))
    | .fuel => (r.1, .error .outOfFuel)

/-- `[command[o:o+miu] for o in range(0, len(command), miu)]` for `miu ≥ 1` -/
def chunksAux (miu : Nat) : Nat → Bytes → List Bytes
  | 0, _ => []
  | f+1, l => if l.length ≤ miu then [l] else l.take miu :: chunksAux miu f (l.drop miu)

def chunks (miu : Nat) (l : Bytes) : List Bytes :=
  if l = [] then [] else chunksAux miu l.length l

structure Pcd where
  pni : Nat
  miu : Int
  nNak : Nat
  nAck : Nat
  /-- `self.errno`: errno of the unrecoverable error that ended the session -/
  failed : Option Int := none
  deriving DecidableEq, Repr

/-- tt4.py:88-141, the loop over the command blocks; returns the first response block -/
def sendChunks {σ} (P : Peer σ) (F nNak : Nat) : List Bytes → Nat → World σ → World σ × Nat × Py Bytes
  | [], pni, w => (w, pni, .error .unbound)
  | c :: rest, pni, w =>
    let more := !rest.isEmpty
    let iblk := ((if more then 0x12 else 0x02) ||| pni) :: c
    let r := blockLoop P F nNak (some (0xA2 ||| ((pni + 1) % 2))) iblk [0xB2 ||| pni] F 1 iblk w
    match r.2 with
    | .error e => (r.1, pni, .error e)
    | .ok [] => (r.1, pni, .error .index)
    | .ok (a :: t) =>
      if a &&& 0x01 ≠ pni then (r.1, pni, .error (.tagCmd PROTOCOL_ERROR))
      else if more then
        if a &&& 0xFE = 0xA2 then sendChunks P F nNak rest ((pni + 1) % 2) r.1
        else (r.1, pni, .error (.tagCmd PROTOCOL_ERROR))
      else
        if a &&& 0xEE = 0x02 then (r.1, (pni + 1) % 2, .ok (a :: t))
        else (r.1, pni, .error (.tagCmd PROTOCOL_ERROR))

/-- tt4.py:143-177, `while data[0] & 0x10` -/
def recvChain {σ} (P : Peer σ) (F nAck : Nat) : Nat → Nat → Bytes → Bytes → World σ → World σ × Nat × Py Bytes
  | 0, pni, _, _, w => (w, pni, .error .outOfFuel)
  | f+1, pni, data, resp, w =>
    match data with
    | [] => (w, pni, .error .index)
    | a :: _ =>
      if a &&& 0x10 = 0 then (w, pni, .ok resp)
      else
        let ack := [0xA2 ||| pni]
        let r := blockLoop P F nAck none ack ack F 1 ack w
        match r.2 with
        | .error e => (r.1, pni, .error e)
        | .ok [] => (r.1, pni, .error .index)
        | .ok (b :: t) =>
          if b &&& 0x01 ≠ pni then (r.1, pni, .error (.tagCmd PROTOCOL_ERROR))
          else recvChain P F nAck f ((pni + 1) % 2) (b :: t) (resp ++ t) r.1

/-- `IsoDepInitiator._exchange_command(command)` for `command is not None` -/
def exchangeCmd {σ} (P : Peer σ) (F : Nat) (pcd : Pcd) (cmd : Bytes) (w : World σ) : World σ × Pcd × Py Bytes :=
  if pcd.miu = 0 then (w, pcd, .error .value)                      -- range() arg 3 must not be zero
  else if pcd.miu < 0 ∨ cmd = [] then (w, pcd, .error .unbound)    -- no iteration: `data` unbound
  else
    let r := sendChunks P F pcd.nNak (chunks pcd.miu.toNat cmd) pcd.pni w
    match r.2.2 with
    | .error e => (r.1, { pcd with pni := r.2.1 }, .error e)
    | .ok d =>
      let q := recvChain P F pcd.nAck F r.2.1 d (d.drop 1) r.1
      (q.1, { pcd with pni := q.2.1 }, q.2.2)

/-- `IsoDepInitiator.exchange(command)` for `command is not None`: after an unrecoverable error no
further command is exchanged, the error is raised again -/
def exchange {σ} (P : Peer σ) (F : Nat) (pcd : Pcd) (cmd : Bytes) (w : World σ) : World σ × Pcd × Py Bytes :=
  match pcd.failed with
  | some e => (w, pcd, .error (.tagCmd e))
  | none =>
    let r := exchangeCmd P F pcd cmd w
    match r.2.2 with
    | .error (.tagCmd e) => (r.1, { r.2.1 with failed := some e }, .error (.tagCmd e))
    | _ => r

/-- `exchange(None)`: presence check with R(NAK), errors are not translated -/
def presence {σ} (P : Peer σ) (pcd : Pcd) (w : World σ) : World σ × Py Unit :=
  let r := w.xchg P [0xB2 ||| pcd.pni]
  match r.2 with
  | .data _ => (r.1, .ok ())
  | .timeout => (r.1, .error .timeout)
  | .transmission => (r.1, .error .transmission)
  | .protocol => (r.1, .error .protocol)
  | .fuel => (r.1, .error .outOfFuel)

/-! ## `Type4Tag.send_apdu` -/

/-- the command APDU built by `send_apdu`; `data = none` is Python `None` -/
def encodeApdu (ext : Bool) (cla ins p1 p2 : Nat) (data : Bytes) (mrl : Nat) : Py Bytes :=
  if cla ≥ 256 ∨ ins ≥ 256 ∨ p1 ≥ 256 ∨ p2 ≥ 256 then .error .value
  else
    let hdr := [cla, ins, p1, p2]
    if !ext then
      if data.length > 255 then .error .value
      else if mrl > 256 then .error .value
      else
        let lc := if data = [] then [] else data.length :: data
        let le := if mrl > 0 then [if mrl = 256 then 0 else mrl] else []
        .ok (hdr ++ lc ++ le)
    else
      if data.length > 65535 then .error .value
      else if mrl > 65536 then .error .value
      else
        let lc := if data = [] then [] else 0 :: toBE 2 data.length ++ data
        let v := if mrl = 65536 then 0 else mrl
        let le := if mrl > 0 then (if data = [] then 0 :: toBE 2 v else toBE 2 v) else []
        .ok (hdr ++ lc ++ le)

/-- status word handling of `send_apdu` -/
def checkStatus (check : Bool) (rsp : Bytes) : Py Bytes :=
  if rsp.length < 2 then .error (.tagCmd PROTOCOL_ERROR)
  else
    let sw := rsp.drop (rsp.length - 2)
    if check ∧ sw ≠ [0x90, 0x00] then .error (.tagCmd (beNat sw))
    else .ok (if check then rsp.take (rsp.length - 2) else rsp)

def sendApdu {σ} (P : Peer σ) (F : Nat) (pcd : Pcd) (ext : Bool) (cla ins p1 p2 : Nat) (data : Bytes)
    (mrl : Nat) (check : Bool) (w : World σ) : World σ × Pcd × Py Bytes :=
  match encodeApdu ext cla ins p1 p2 data mrl with
  | .error e => (w, pcd, .error e)
  | .ok apdu =>
    let r := exchange P F pcd apdu w
    match r.2.2 with
    | .error e => (r.1, r.2.1, .error e)
    | .ok rsp => (r.1, r.2.1, checkStatus check rsp)

/-! ## activation parameters -/

def fscTable : List Nat := [16, 24, 32, 40, 48, 64, 96, 128, 256]

/-- FSCI (RFU values read as 8), clamped to the device's `max_send_data_size` -/
def deriveFsc (fsci maxSend : Nat) : Nat :=
  let fsc := fscTable.getD (if fsci > 8 then 8 else fsci) 256
  if fsc > maxSend then maxSend else fsc

/-- FWI with RFU value 15 read as 4 -/
def deriveFwi (fwi : Nat) : Nat := if fwi > 14 then 4 else fwi

/-- `min(int(1/fwt), 5)` for `fwt = 4096 / 13.56E6 * 2**fwi` -/
def deriveRetry (fwi : Nat) : Nat := min (13560000 / (4096 * 2 ^ deriveFwi fwi)) 5

def mkPcd (fsci fwi maxSend : Nat) : Pcd :=
  let n := deriveRetry fwi
  { pni := 0, miu := (deriveFsc fsci maxSend : Int) - 3, nNak := n, nAck := n, failed := none }

/-- Type 4A (`Type4ATag.__init__`): the format byte T0 (`rats_res[1]`) carries FSCI and tells which interface
bytes follow; TB(1) carries FWI and is preceded by TA(1) only if that is present.  Without T0 or TB(1) the
defaults FSCI = 2 and FWI = 4 apply.  Never raises. -/
def activateA (rats : Bytes) (maxSend : Nat) : Py Pcd :=
  match rats[1]? with
  | none => .ok (mkPcd 2 4 maxSend)
  | some t0 =>
    let tbIndex := if t0 &&& 0x10 ≠ 0 then 3 else 2
    let fwi := if t0 &&& 0x20 ≠ 0 then (match rats[tbIndex]? with | some tb => tb >>> 4 | none => 4) else 4
    .ok (mkPcd (t0 &&& 0x0F) fwi maxSend)

/-- an Answer To Select as ISO/IEC 14443-4 5.2 lays it out: TL, T0 (FSCI and the presence bits of TA(1), TB(1),
TC(1)), the interface bytes that are present, historical bytes -/
def mkAts (fsci : Nat) (ta tb tc : Option Nat) (hist : Bytes) : Bytes :=
  let t0 := fsci ||| (if ta.isSome then 0x10 else 0) ||| (if tb.isSome then 0x20 else 0) ||| (if tc.isSome then 0x40 else 0)
  let body := t0 :: (ta.toList ++ tb.toList ++ tc.toList ++ hist)
  (body.length + 1) :: body

/-- Type 4B: FSCI and FWI from SENSB_RES bytes 10 and 11 -/
def activateB (sensb : Bytes) (maxSend : Nat) : Py Pcd :=
  idxN sensb 10 >>= fun a =>
  idxN sensb 11 >>= fun b =>
  .ok (mkPcd (a >>> 4) (b >>> 4) maxSend)

end NfcVerif.IsoDep
