import NfcVerif.Model.NfcDep
/-!
# Reference definitions for the function-translator group DepPdu (`Props/FnBridgeDepPdu.lean`)

`Model/NfcDep.lean` describes the Target of NFC-DEP as a state machine on decoded PDUs (`tRx`).  The decision
which `Target.send_dep_res_recv_dep_req` (`nfc/dep.py`) takes for a DEP_REQ of the right device identifier is
buried in it (`tRx.tRxActive`, case `.dep`); it is isolated here in spec style so that the regenerated dispatch
chain of the source can be compared with it, and the model with it (`Lemmas/FnBridgeDepPdu.lean`:
`tRxActive_dep_eq`).

NFC Forum Digital Protocol, NFC-DEP target rules: an attention request is answered with an attention response;
a NACK and a request that repeats the packet number of the last answered request are retransmission requests:
the last response is sent again; a timeout extension response (RTOX request of the Initiator) is a new PDU for
the upper layer only while the Target's own RTOX request is outstanding, else it repeats one already answered;
everything else is a new request.
-/
namespace NfcVerif.DepPduRef
open NfcVerif.NfcDep

/-- what the Target does with a received DEP_REQ -/
inductive TgtAct
  /-- answer with an attention response, keep waiting -/
  | atn
  /-- send the saved response again, keep waiting -/
  | resend
  /-- hand the request to `exchange` -/
  | accept
  deriving DecidableEq, Repr

/-- `fmt`, `rpni`: PDU type and packet number of the request; `pni`: the Target's packet number (`None` before the
first exchange); `rtoxPending`: the saved response is the Target's own RTOX request -/
def tgtDecide (fmt rpni : Nat) (pni : Option Nat) (rtoxPending : Bool) : TgtAct :=
  if fmt = fATN then .atn
  else if fmt = fNAK then .resend
  else if fmt = fTOX then (if rtoxPending then .accept else .resend)
  else if pni = some rpni then .resend
  else .accept

/-- a new request is never taken for a retransmission: a request with a packet number different from the Target's
that is neither ATN, NAK nor RTOX is accepted -/
theorem new_request_accepted (fmt rpni : Nat) (pni : Option Nat) (b : Bool)
    (h1 : fmt ≠ fATN) (h2 : fmt ≠ fNAK) (h3 : fmt ≠ fTOX) (h4 : pni ≠ some rpni) :
    tgtDecide fmt rpni pni b = .accept := by
  unfold tgtDecide; simp [h1, h2, h3, h4]

/-- a duplicate is never delivered twice: a request that repeats the Target's packet number (and is not an RTOX
response while RTOX is outstanding) is answered from the saved response -/
theorem duplicate_resent (fmt rpni : Nat) (b : Bool) (h1 : fmt ≠ fATN) (h3 : fmt ≠ fTOX) :
    tgtDecide fmt rpni (some rpni) b = .resend := by
  unfold tgtDecide; simp [h1, h3]

/-- what `send_dep_res_recv_dep_req` does with a received request -/
inductive TgtOuter
  /-- not for this device / not a data exchange PDU: nothing is sent, keep waiting -/
  | ignore
  /-- DSL_REQ / RLS_REQ: answer it and leave `exchange` with None -/
  | leave
  /-- DEP_REQ: see `TgtAct` -/
  | dep (a : TgtAct)
  deriving DecidableEq, Repr

def tgtDispatch (didMismatch isDsl isRls isDep : Bool) (fmt rpni : Nat) (pni : Option Nat) (rtoxPending : Bool) : TgtOuter :=
  if didMismatch then .ignore
  else if isDsl || isRls then .leave
  else if isDep then .dep (tgtDecide fmt rpni pni rtoxPending)
  else .ignore

/-- a request for another device identifier is never handed to `exchange` nor answered -/
theorem other_did_ignored (isDsl isRls isDep : Bool) (fmt rpni : Nat) (pni : Option Nat) (b : Bool) :
    tgtDispatch true isDsl isRls isDep fmt rpni pni b = .ignore := rfl

end NfcVerif.DepPduRef
