import NfcVerif.Py
/-!
# NFC-DEP deactivation under a virtual clock (C09)

`LogicalLinkController.terminate()` calls `mac.deactivate()` BEFORE it shuts the service access
points down; as long as that call has not returned every application thread stays blocked.  This
module is an executable model of both deactivation paths of nfc/dep.py with the clock the code
reads made explicit:

* `Target.deactivate` / `_deactivate` with `send_res_recv_req` (dep.py:489-519, 629-660): answer the
  requests of the initiator until RLS_REQ / DSL_REQ arrives, the driver reports a communication
  error, or one second has passed;
* `Initiator.deactivate` (dep.py:241-252): one DSL_REQ / RLS_REQ exchange with a timeout of 0.1 s,
  communication errors swallowed.

The peer is a script of outcomes of `clf.exchange(frame, timeout)` with arbitrary response times;
time is counted in ticks (the harness uses 1/1024 s).  Driver contract (`xchg`): an exchange called
at `now` with timeout `t` whose scripted outcome arrives after `dt` ticks ends at `now + dt` with
that outcome when `dt ≤ t + lat`, else at `now + t + lat` with nfc.clf.TimeoutError (`lat` = driver
latency); every call consumes one event, an exhausted script is a silent peer.
-/
namespace NfcVerif.Deact

/-- what `decode_frame` made of a received command, as far as `_deactivate` looks at it:
    `inf` = any DEP_REQ that is not an attention request (INF, ACK, NACK, RTOX) -/
inductive Req | inf | atn | dsl | rls | other
  deriving DecidableEq, Repr

/-- outcome of one `clf.exchange` call (and of decoding what it returned) -/
inductive Out
  | frame (r : Req) (didOk : Bool)
  | badFrame        -- decode_frame raises ProtocolError / TransmissionError
  | none            -- exchange returned None or an empty frame
  | timeout | transmission
  | commError       -- ProtocolError / BrokenLinkError raised by the driver
  | escape (e : Exc)  -- anything else the driver raises (IOError of a dead device, ...)
  deriving DecidableEq, Repr

structure Ev where
  out : Out
  dt : Nat
  deriving DecidableEq, Repr

/-- what the local device transmits with an exchange -/
inductive Sent | nothing | atn | inf | rlsRes | dslRes | dslReq | rlsReq
  deriving DecidableEq, Repr

structure Cfg where
  /-- length of the deactivation dialogue, `time.time() + 1.0` -/
  D : Nat
  /-- driver latency: an exchange ends at most `lat` ticks after its timeout -/
  lat : Nat
  /-- proposed repair fixes/C09/0010: `send_res_recv_req` repeats an exchange after a
      TransmissionError only while the deadline has not passed -/
  retryBounded : Bool
  /-- NOT in the code: the deadline is renewed whenever a DEP_REQ has been answered (the class of
      seeded change C09-r5m4); only used for the counter-example -/
  renew : Bool := false
  deriving Repr

inductive End | returned | raised (e : Exc)
  deriving DecidableEq, Repr

structure Res where
  fin : End
  tEnd : Nat
  /-- per exchange: what was sent, the timeout handed to the driver -/
  trace : List (Sent × Nat)
  deriving Repr

/-- the scripted driver -/
def xchg (cfg : Cfg) (now dl : Nat) (ev : Ev) : Out × Nat :=
  if max 1 ev.dt ≤ (dl - now) + cfg.lat then (ev.out, now + max 1 ev.dt)
  else (.timeout, now + ((dl - now) + cfg.lat))

/-- a silent peer: the exchange times out -/
def silentEnd (cfg : Cfg) (now dl : Nat) : Nat := now + ((dl - now) + cfg.lat)

inductive Mode
  | main    -- in the `while time.time() < deadline` loop of `_deactivate`
  | final   -- sending RLS_RES / DSL_RES with deadline 0
  deriving DecidableEq, Repr

/-- state between two exchanges (inside the retry loop of `send_res_recv_req`) -/
structure St where
  mode : Mode
  sent : Sent
  now : Nat
  dl : Nat
  trace : List (Sent × Nat)
  deriving Repr

inductive Step
  | go (s : St)
  | fin (e : End) (t : Nat) (trace : List (Sent × Nat))

/-- `continue` in `_deactivate` with the response `s` for the next exchange -/
def cont (cfg : Cfg) (s : Sent) (dl now : Nat) (tr : List (Sent × Nat)) : Step :=
  let dl' := if cfg.renew && (s == .atn || s == .inf) then now + cfg.D else dl
  if now < dl' then .go ⟨.main, s, now, dl', tr⟩ else .fin .returned now tr

/-- a request has been received and decoded at `now` (main loop) -/
def afterReq (cfg : Cfg) (dl : Nat) (r : Req) (didOk : Bool) (now : Nat) (tr : List (Sent × Nat)) : Step :=
  if didOk then
    match r with
    | .dsl => .go ⟨.final, .dslRes, now, 0, tr⟩
    | .rls => .go ⟨.final, .rlsRes, now, 0, tr⟩
    | .atn => cont cfg .atn dl now tr
    | .inf => cont cfg .inf dl now tr
    | .other => cont cfg .nothing dl now tr
  else cont cfg .nothing dl now tr

/-- one exchange -/
def step (cfg : Cfg) (s : St) (ev : Ev) : Step :=
  let r := xchg cfg s.now s.dl ev
  let tr := s.trace ++ [(s.sent, s.dl - s.now)]
  match r.1 with
  | .transmission =>
    if cfg.retryBounded && decide (s.dl ≤ r.2) then .fin .returned r.2 tr
    else .go { s with sent := .nothing, now := r.2, trace := tr }
  | .escape e => .fin (.raised e) r.2 tr
  | .frame q ok =>
    match s.mode with
    | .main => afterReq cfg s.dl q ok r.2 tr
    | .final => .fin .returned r.2 tr
  | _ => .fin .returned r.2 tr

def tRun (cfg : Cfg) : List Ev → St → Res
  | [], s => ⟨.returned, silentEnd cfg s.now s.dl, s.trace ++ [(s.sent, s.dl - s.now)]⟩
  | ev :: rest, s =>
    match step cfg s ev with
    | .go s' => tRun cfg rest s'
    | .fin e t tr => ⟨e, t, tr⟩

/-- the command frame that `activate()` has stored and no exchange has consumed yet (`self.cmd`, only
    when the link ends before the first exchange): none, a request, or octets `decode_frame` rejects -/
inductive Pending | no | req (r : Req) (didOk : Bool) | bad
  deriving DecidableEq, Repr

/-- `Target._deactivate(data)` called at `t0` -/
def targetDeactivate (cfg : Cfg) (cmd : Pending) (script : List Ev) (t0 : Nat) : Res :=
  if t0 < t0 + cfg.D then
    match cmd with
    | .no => tRun cfg script ⟨.main, .nothing, t0, t0 + cfg.D, []⟩
    | .bad => ⟨.returned, t0, []⟩
    | .req r ok =>
      match afterReq cfg (t0 + cfg.D) r ok t0 [] with
      | .go s => tRun cfg script s
      | .fin e t tr => ⟨e, t, tr⟩
  else ⟨.returned, t0, []⟩

/-- `Initiator.deactivate(release)`: one exchange with timeout `tInit` (0.1 s) -/
def initiatorDeactivate (cfg : Cfg) (tInit : Nat) (release : Bool) (script : List Ev) (t0 : Nat) : Res :=
  let sent := if release then Sent.rlsReq else Sent.dslReq
  match script with
  | [] => ⟨.returned, silentEnd cfg t0 (t0 + tInit), [(sent, tInit)]⟩
  | ev :: _ =>
    let r := xchg cfg t0 (t0 + tInit) ev
    match r.1 with
    | .escape e => ⟨.raised e, r.2, [(sent, tInit)]⟩
    | _ => ⟨.returned, r.2, [(sent, tInit)]⟩

/-- ticks that TransmissionErrors can add: one driver latency per such event of the script (as found) -/
def slack (cfg : Cfg) : List Ev → Nat
  | [] => 0
  | ev :: rest => (if ev.out = .transmission then cfg.lat else 0) + slack cfg rest

def txSlack (cfg : Cfg) (script : List Ev) : Nat := if cfg.retryBounded then 0 else slack cfg script

/-- the moment `terminate()` starts to shut the service access points down (`finally:` - also when the
    deactivation raises) as NFC-DEP Target -/
def targetShutdownAt (cfg : Cfg) (cmd : Pending) (script : List Ev) (t0 : Nat) : Nat :=
  (targetDeactivate cfg cmd script t0).tEnd

end NfcVerif.Deact
