import NfcVerif.Model.Dlc
/-!
# `LogicalLinkController.collect()` / `dispatch()` over the connection model

`collect` of `llc.py:567-649` for a controller whose only active socket is the
data link connection endpoint (SAP 0 and the service discovery SAP have nothing
to send): first `dequeue(send-miu)`, voluntary acknowledgement if nothing was
dequeued, then - with aggregation - further `dequeue(remaining budget)` calls
and a final voluntary acknowledgement.  It is a *composition of atomic steps* of
`Model/Dlc.lean`; `Lemmas/Dlc.lean` proves that (`collect_is_run`), so every
theorem about all step sequences covers every frame boundary too.
-/
namespace NfcVerif.Dlc

def Pdu.len : Pdu → Nat
  | .i _ _ d => 3 + d.length
  | .iNone _ d => 3 + d.length
  | .rr _ => 3
  | .rnr _ => 3
  | .disc => 2
  | .dm _ => 3
  | .frmr .. => 6

def Pdu.headerSize : Pdu → Nat
  | .i .. => 3
  | .iNone .. => 3
  | .rr _ => 3
  | .rnr _ => 3
  | _ => 2

/-- `len(AggregatedFrame(0, 0, frame))` -/
def agfLen (frame : List Pdu) : Nat := 2 + (frame.map fun p => 2 + p.len).sum

/-- result of a link-side step as an optional PDU -/
def Res.toPdu : Res → Option Pdu
  | .pdu p => p
  | _ => Option.none

/-- the aggregation loop `while True:` of `collect`; every pass makes one `dequeue` call -/
def aggLoop (x : Side) (link : Nat) : Nat → Sys → List Pdu → Int → Sys × List Pdu × Int
  | 0, s, frame, budget => (s, frame, budget)
  | fuel + 1, s, frame, budget =>
    let r := step s x (.deq budget)
    match r.2.toPdu with
    | none => (r.1, frame, budget)
    | some q =>
      let frame' := frame ++ [q]
      let budget' : Int := (link : Int) - agfLen frame' - 3
      if budget' < 0 then (r.1, frame', budget') else aggLoop x link fuel r.1 frame' budget'

/-- `collect()`: the new system state and the PDUs put into one link frame (`[]` = nothing to send) -/
def collect (s : Sys) (x : Side) (link : Nat) (agf : Bool) (fuel : Nat) : Sys × List Pdu :=
  let r1 := step s x (.deq link)
  match r1.2.toPdu with
  | some p =>
    if p.len - p.headerSize ≥ link then (r1.1, [p])
    else if agf = false then (r1.1, [p])
    else
      let budget : Int := (link : Int) - agfLen [p] - 3
      let l := aggLoop x link fuel r1.1 [p] budget
      if l.2.2 ≥ 0 then
        let r3 := step l.1 x .ack
        (r3.1, l.2.1 ++ r3.2.toPdu.toList)
      else (l.1, l.2.1)
  | none =>
    let r2 := step r1.1 x .ack
    match r2.2.toPdu with
    | none => (r2.1, [])
    | some p =>
      if agf = false then (r2.1, [p])
      else
        let budget : Int := (link : Int) - agfLen [p] - 3
        let l := aggLoop x link fuel r2.1 [p] budget
        if l.2.2 ≥ 0 then
          let r3 := step l.1 x .ack
          (r3.1, l.2.1 ++ r3.2.toPdu.toList)
        else (l.1, l.2.1)

/-- `dispatch()` of a frame of `n` PDUs: `n` deliveries to endpoint `x` -/
def deliverN (s : Sys) (x : Side) : Nat → Sys
  | 0 => s
  | n + 1 => deliverN (step s x .dlv).1 x n

end NfcVerif.Dlc
