import NfcVerif.Py
/-!
# Model of `nfc.llcp.tco.DataLinkConnection` - two endpoints, two FIFO wires

Transcription of the critical sections (`with self.lock` regions) of
`/repo/src/nfc/llcp/tco.py` class `DataLinkConnection` for an *established*
connection, as seen through `LogicalLinkController.send/recv/poll/setsockopt/close`
(`llc.py`): `send` (non-blocking flag), `recv`, `setsockopt(SO_RCVBSY)`, `poll`,
`dequeue`, `sendack`, `enqueue`/`_enqueue_state_established`, `close` (split at the
`Condition.wait()` into `close` and `closeFin`).

Each endpoint carries ghost fields (`gS gSA gR gRA accepted delivered gFrmr gDiscard
gOverrun`) which never influence a transition; they are unbounded counterparts of the
modulo-16 state variables and logs of what the application saw.

Blocking calls are modelled by an enabledness result: `Res.blocked` means the
real call would wait on a condition variable; the state is then unchanged.

`close()` is modelled with the repairs of fixes/C05: 0001 `discard unsent I PDUs when a
data link connection is closed` (the send queue is cleared before DISC is queued) and 0002
`close() of a data link connection with unread data still sends DISC` (the receive queue is
cleared before the wait, so only the DM can end it).
-/
namespace NfcVerif.Dlc

inductive St | shutdown | established | disconnect | closeWait
  deriving DecidableEq, Repr, Inhabited

/-- PDUs that travel between the two endpoints of one data link connection -/
inductive Pdu
  | i (ns nr : Nat) (data : Bytes)
  | iNone (ns : Nat) (data : Bytes)      -- I PDU whose N(R) was never set (cannot be encoded)
  | rr (nr : Nat)
  | rnr (nr : Nat)
  | disc
  | dm (reason : Nat)
  | frmr (flags ptype ns nr vs vr vsa vra : Nat)
  deriving DecidableEq, Repr, Inhabited

/-- entries of `send_queue` -/
inductive Out
  | i (ns : Nat) (data : Bytes)          -- Information PDU, N(R) still None
  | disc
  | dm (reason : Nat)
  | frmr (flags ptype ns nr vs vr vsa vra : Nat)
  deriving DecidableEq, Repr, Inhabited

/-- entries of `recv_queue` -/
inductive Rq
  | msg (data : Bytes)                   -- a received I PDU
  | disc
  | dm
  deriving DecidableEq, Repr, Inhabited

inductive PollKind | recv | send | acks
  deriving DecidableEq, Repr

/-- outcome of an application call or of a link-side call -/
inductive Res
  | ok
  | data (d : Bytes)
  | none
  | bool (b : Bool)
  | blocked
  | exc (e : Exc)
  | pdu (p : Option Pdu)
  | pending | done | skip
  deriving DecidableEq, Repr, Inhabited

structure Ep where
  st : St
  bound : Bool            -- the socket is still in the SAP table of its controller
  closing : Bool          -- close() waits on recv_ready for the DM
  sendMiu : Nat
  recvMiu : Nat
  sendWin : Nat           -- RW(R)
  recvWin : Nat           -- RW(L) = recv_buf
  vs : Nat
  vsa : Nat
  vr : Nat
  vra : Nat
  confs : Nat             -- recv_confs
  acks : Nat              -- acks_recvd
  busy : Bool             -- mode.RECV_BUSY
  busySent : Bool         -- mode.RECV_BUSY_SENT
  sendBusy : Bool         -- mode.SEND_BUSY
  sq : List Out
  rq : List Rq
  -- ghost
  gS : Nat
  gSA : Nat
  gR : Nat
  gRA : Nat
  accepted : List Bytes
  delivered : List Bytes
  gFrmr : Bool            -- this endpoint generated a FRMR
  gDiscard : Bool         -- TransmissionControlObject.enqueue discarded an I PDU
  gOverrun : Bool         -- recv() raised RuntimeError("recv_confs > recv_win")
  deriving DecidableEq, Repr, Inhabited

/-- `send_window_slots`: (RW(R) - V(S) + V(SA)) mod 16 -/
def Ep.sendSlots (e : Ep) : Int := ((e.sendWin : Int) - e.vs + e.vsa) % 16
/-- `recv_window_slots`: (RW(L) - V(R) + V(RA)) mod 16 -/
def Ep.recvSlots (e : Ep) : Int := ((e.recvWin : Int) - e.vr + e.vra) % 16

def Ep.shut (e : Ep) : Ep := { e with sq := [], rq := [], st := .shutdown }

/-- `DataLinkConnection.send(message, MSG_DONTWAIT)` -/
def Ep.send (e : Ep) (m : Bytes) : Ep × Res :=
  if e.st ≠ .established then
    (e, .exc (if e.st = .closeWait then .llcp 32 else .llcp 107))
  else if m.length > e.sendMiu then (e, .exc (.llcp 90))
  else if e.sendSlots = 0 then (e, .exc (.llcp 11))
  else ({ e with sq := e.sq ++ [.i e.vs m], vs := (e.vs + 1) % 16, gS := e.gS + 1,
                 accepted := e.accepted ++ [m] }, .ok)

/-- `LogicalLinkController.recv(socket)` -> `DataLinkConnection.recv()` -/
def Ep.recv (e : Ep) : Ep × Res :=
  if e.bound = false then (e, .exc (.llcp 9))
  else if e.st ≠ .established ∧ e.st ≠ .closeWait then (e, .exc (.llcp 107))
  else match e.rq with
    | [] => (e, .blocked)
    | .msg d :: rest =>
      if e.confs + 1 > e.recvWin then
        ({ e with rq := rest, confs := e.confs + 1, gOverrun := true }, .exc .runtime)
      else ({ e with rq := rest, confs := e.confs + 1, delivered := e.delivered ++ [d] }, .data d)
    | .disc :: rest => ({ e with rq := rest }.shut, .none)
    | .dm :: rest => ({ e with rq := rest }, .exc .runtime)

/-- `setsockopt(SO_RCVBSY, b)` -/
def Ep.setBusy (e : Ep) (b : Bool) : Ep × Res := ({ e with busy := b }, .ok)

/-- `LogicalLinkController.poll(socket, event, timeout=0)` -/
def Ep.poll (e : Ep) (k : PollKind) : Ep × Res :=
  if e.bound = false then (e, .exc (.llcp 9))
  else if e.st = .shutdown then (e, .exc (.llcp 108))
  else match k with
    | .recv =>
      if e.st = .established ∨ e.st = .closeWait then
        (e, .bool (match e.rq with | .msg _ :: _ => true | _ => false))
      else (e, .none)
    | .send =>
      if e.st = .established then (e, .bool (decide (e.sq.length < 1))) else (e, .none)
    | .acks =>
      if e.acks > 0 then ({ e with acks := e.acks - 1 }, .bool true) else (e, .bool false)

/-- information field size `len(pdu) - header_size` used by the MIU test of `dequeue` -/
def Out.infoSize : Out → Nat
  | .i _ d => d.length
  | .disc => 0
  | .dm _ => 1
  | .frmr .. => 4

def Ep.ackPdu (e : Ep) (nr : Nat) : Pdu := if e.busy then .rnr nr else .rr nr

/-- acknowledge everything the application has consumed: V(RA) := V(RA) + recv_confs -/
def Ep.confirm (e : Ep) : Ep :=
  { e with vra := (e.vra + e.confs) % 16, gRA := e.gRA + e.confs, confs := 0 }

/-- `DataLinkConnection.dequeue(miu_size, icv_size=0)` -/
def Ep.deq (e : Ep) (budget : Int) : Ep × Option Pdu :=
  if e.st = .established ∧ e.busySent ≠ e.busy then
    ({ e with busySent := e.busy }, some (e.ackPdu e.vra))
  else
    let necessary : Ep × Option Pdu :=
      if e.st = .established ∧ e.confs ≠ 0 ∧ e.recvSlots = 0 then
        (e.confirm, some (e.ackPdu e.confirm.vra))
      else (e, none)
    match e.sq with
    | [] => necessary
    | p :: rest =>
      if (p.infoSize : Int) > budget then necessary
      else match p with
        | .frmr f t ns nr vs vr vsa vra => ({ e with sq := rest }.shut, some (.frmr f t ns nr vs vr vsa vra))
        | .i ns d =>
          if e.st = .established then
            let e1 := if e.confs ≠ 0 ∧ e.vr ≠ e.vra then e.confirm else e
            ({ e1 with sq := rest }, some (.i ns e1.vra d))
          else ({ e with sq := rest }, some (.iNone ns d))
        | .dm r =>
          if e.st = .closeWait then ({ e with sq := rest, rq := e.rq ++ [.disc] }, some (.dm r))
          else ({ e with sq := rest }, some (.dm r))
        | .disc => ({ e with sq := rest }, some .disc)

/-- `DataLinkConnection.sendack()` -/
def Ep.sendack (e : Ep) : Ep × Option Pdu :=
  if e.st = .established ∧ e.confs ≠ 0 ∧ e.vr ≠ e.vra then
    (e.confirm, some (e.ackPdu e.confirm.vra))
  else (e, none)

/-- N(R) processing: `acks = (N(R) - V(SA)) % 16` -/
def Ep.ackIn (e : Ep) (nr : Nat) : Ep :=
  let a := (((nr : Int) - e.vsa) % 16).toNat
  if a ≠ 0 then { e with acks := e.acks + a, vsa := nr, gSA := e.gSA + a } else e

def Ep.reject (e : Ep) (flags ns nr : Nat) : Ep :=
  { e with sq := [.frmr flags 12 ns nr e.vs e.vr e.vsa e.vra], gFrmr := true }

/-- `_enqueue_state_established` -/
def Ep.enqEst (e : Ep) : Pdu → Ep
  | .i ns nr d =>
    if d.length > e.recvMiu then e.reject 4 ns nr
    else if ns ≠ e.vr then e.reject 1 ns nr
    else
      let e1 := e.ackIn nr
      let e2 := { e1 with vr := (e1.vr + 1) % 16, gR := e1.gR + 1 }
      if e2.rq.length < e2.recvWin then { e2 with rq := e2.rq ++ [.msg d] }
      else { e2 with gDiscard := true }
  | .iNone _ _ => e
  | .rr nr => { e.ackIn nr with sendBusy := false }
  | .rnr nr => { e.ackIn nr with sendBusy := true }
  | .frmr .. => e.shut
  | .disc => { e with st := .closeWait, sq := [.dm 0] }
  | .dm _ => e

/-- `LogicalLinkController.dispatch` -> `ServiceAccessPoint.enqueue` -> `DataLinkConnection.enqueue` -/
def Ep.enq (e : Ep) (p : Pdu) : Ep :=
  if e.bound = false then e
  else match e.st with
    | .established => e.enqEst p
    | .disconnect => (match p with | .dm _ => { e with rq := e.rq ++ [.dm] } | _ => e)
    | _ => e

/-- end of `close()` and of `ServiceAccessPoint.remove_socket` -/
def Ep.closeEnd (e : Ep) : Ep := { e.shut with bound := false, closing := false }

/-- `LogicalLinkController.close(socket)` up to the point where `close()` waits for the DM -/
def Ep.close (e : Ep) : Ep × Res :=
  if e.bound = false ∨ e.closing = true then (e, .skip)   -- an application closes a socket once
  else if e.st = .established then
    -- DISC replaces whatever was unsent, unread data is discarded, then the wait for the DM begins
    ({ e with st := .disconnect, sq := [.disc], rq := [], closing := true }, .pending)
  else (e.closeEnd, .done)

/-- `close()` after the wait on `recv_ready` returned -/
def Ep.closeFin (e : Ep) : Ep × Res :=
  if e.closing = false then (e, .skip)
  else ({ e with rq := e.rq.tail }.closeEnd, .done)

/-! ## The two-endpoint system -/

structure Sys where
  a : Ep
  b : Ep
  wab : List Pdu
  wba : List Pdu
  deriving DecidableEq, Repr, Inhabited

inductive Side | A | B
  deriving DecidableEq, Repr

inductive Op
  | send (m : Bytes)
  | recv
  | busy (b : Bool)
  | poll (k : PollKind)
  | deq (budget : Int)
  | ack
  | dlv
  | close
  | closeFin
  deriving DecidableEq, Repr

def Sys.swap (s : Sys) : Sys := { a := s.b, b := s.a, wab := s.wba, wba := s.wab }

/-- one step of endpoint A -/
def stepA (s : Sys) : Op → Sys × Res
  | .send m => let r := s.a.send m; ({ s with a := r.1 }, r.2)
  | .recv => let r := s.a.recv; ({ s with a := r.1 }, r.2)
  | .busy b => let r := s.a.setBusy b; ({ s with a := r.1 }, r.2)
  | .poll k => let r := s.a.poll k; ({ s with a := r.1 }, r.2)
  | .deq budget =>
    let r := s.a.deq budget
    ({ s with a := r.1, wab := s.wab ++ r.2.toList }, .pdu r.2)
  | .ack =>
    let r := s.a.sendack
    ({ s with a := r.1, wab := s.wab ++ r.2.toList }, .pdu r.2)
  | .dlv => match s.wba with
    | [] => (s, .blocked)
    | p :: rest => ({ s with a := s.a.enq p, wba := rest }, .ok)
  | .close => let r := s.a.close; ({ s with a := r.1 }, r.2)
  | .closeFin => let r := s.a.closeFin; ({ s with a := r.1 }, r.2)

def step (s : Sys) (x : Side) (op : Op) : Sys × Res :=
  match x with
  | .A => stepA s op
  | .B => let r := stepA s.swap op; (r.1.swap, r.2)

def run (s : Sys) (ops : List (Side × Op)) : Sys :=
  ops.foldl (fun s o => (step s o.1 o.2).1) s

/-- parameters negotiated by CONNECT / CC -/
structure Cfg where
  aSendMiu : Nat
  aRecvMiu : Nat
  aSendWin : Nat
  aRecvWin : Nat
  bSendMiu : Nat
  bRecvMiu : Nat
  bSendWin : Nat
  bRecvWin : Nat
  deriving Repr

def Ep.init (sendMiu recvMiu sendWin recvWin : Nat) : Ep :=
  { st := .established, bound := true, closing := false, sendMiu, recvMiu, sendWin, recvWin,
    vs := 0, vsa := 0, vr := 0, vra := 0, confs := 0, acks := 0, busy := false, busySent := false,
    sendBusy := false, sq := [], rq := [], gS := 0, gSA := 0, gR := 0, gRA := 0,
    accepted := [], delivered := [], gFrmr := false, gDiscard := false, gOverrun := false }

def init (c : Cfg) : Sys :=
  { a := Ep.init c.aSendMiu c.aRecvMiu c.aSendWin c.aRecvWin,
    b := Ep.init c.bSendMiu c.bRecvMiu c.bSendWin c.bRecvWin, wab := [], wba := [] }

/-- what a correct CONNECT / CC handshake guarantees (RW 0 - the peer may never send - up to 15) -/
def Cfg.ok (c : Cfg) : Prop :=
  c.aRecvWin ≤ 15 ∧ c.bRecvWin ≤ 15 ∧
  c.aSendWin = c.bRecvWin ∧ c.bSendWin = c.aRecvWin ∧
  c.aSendMiu ≤ c.bRecvMiu ∧ c.bSendMiu ≤ c.aRecvMiu

instance (c : Cfg) : Decidable c.ok := by unfold Cfg.ok; infer_instance

/-! ## views used by the statements -/

/-- the I PDUs of a wire as (N(S), message) -/
def iPart : List Pdu → List (Nat × Bytes)
  | [] => []
  | .i ns _ d :: rest => (ns, d) :: iPart rest
  | _ :: rest => iPart rest

/-- the N(R) values carried on a wire -/
def nrPart : List Pdu → List Nat
  | [] => []
  | .i _ nr _ :: rest => nr :: nrPart rest
  | .rr nr :: rest => nr :: nrPart rest
  | .rnr nr :: rest => nr :: nrPart rest
  | _ :: rest => nrPart rest

/-- the I PDUs of a send queue -/
def sqI : List Out → List (Nat × Bytes)
  | [] => []
  | .i ns d :: rest => (ns, d) :: sqI rest
  | _ :: rest => sqI rest

/-- the messages of a receive queue -/
def rqMsgs : List Rq → List Bytes
  | [] => []
  | .msg d :: rest => d :: rqMsgs rest
  | _ :: rest => rqMsgs rest

end NfcVerif.Dlc
