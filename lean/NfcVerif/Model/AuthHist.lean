import NfcVerif.Model.AuthCard
/-!
# Histories of operations on ONE tag object

`Model/Auth.lean` has the reader methods as functions of the frames that arrive.  Here the same
methods run against an air interface that is a state machine (`Air σ`: the card and whoever sits
between card and reader), as methods of a tag OBJECT whose attributes (`Reader`: `_sk`, `_iv`,
`_authenticated`) live on from call to call, so that a sequence such as
`protect(pw)`, `authenticate(pw)`, `write_with_mac`, plain write, `authenticate(pw)` is inside the
model:

* every `authenticate` takes ITS OWN challenge (`rc`, the value `os.urandom(16)` returns in that
  call) - nothing is carried over from an earlier session;
* `write_with_mac` reads WCNT from the card each time;
* `read_with_mac` sends ONE command for all requested blocks plus the MAC block;
* `send_cmd_recv_rsp` repeats a command up to three times when nothing arrives (the card may have
  executed a command whose response was lost);
* every exchange is appended to a transcript (command as sent, response as arrived).

Transcribed: `Type3Tag.send_cmd_recv_rsp` (retry loop), `read_without_encryption`,
`write_without_encryption`, `FelicaLite.read_without_mac`, `write_without_mac`, `_authenticate`,
`read_with_mac`, `_protect`, `FelicaLiteS.authenticate`, `write_with_mac`, `_protect`,
`Tag.authenticate`, `Tag.protect`.  Not modelled: block numbers above 255, `protect_from = 0` on a
tag (that makes `_protect` look for NDEF data first: polling and attribute block reads).
-/
namespace NfcVerif.AuthHist
open NfcVerif NfcVerif.Mac NfcVerif.Auth NfcVerif.AuthCard

/-- attributes of the tag object the modelled methods read or write -/
structure Reader where
  /-- `_sk`, `_iv` (both `None` until the first successful internal authentication) -/
  sess : Option Session
  /-- `_authenticated` -/
  authed : Bool
  deriving DecidableEq, Repr

def Reader.init : Reader := ⟨none, false⟩

/-- the air interface: one `clf.exchange(cmd)`; `none`: nothing arrives (`TimeoutError`) -/
abbrev Air (σ : Type) := σ → Bytes → Option Bytes × σ

structure St (σ : Type) where
  rd : Reader
  w : σ
  /-- every exchange so far: the command as sent, the response as arrived -/
  tr : List (Bytes × Option Bytes)

/-- a method body: result or exception, and the state it leaves behind (attribute changes and
exchanges made before an exception are kept) -/
def RW (σ α : Type) := St σ → Py α × St σ

namespace RW
variable {σ α β : Type}

def ret (a : α) : RW σ α := fun s => (.ok a, s)

def andThen (m : RW σ α) (f : α → RW σ β) : RW σ β := fun s =>
  match m s with
  | (.ok a, s') => f a s'
  | (.error e, s') => (.error e, s')

instance : Monad (RW σ) where
  pure := RW.ret
  bind := RW.andThen

/-- a computation without side effects -/
def lift (x : Py α) : RW σ α := fun s => (x, s)

def getRd : RW σ Reader := fun s => (.ok s.rd, s)

def setAuthed (b : Bool) : RW σ Unit := fun s => (.ok (), { s with rd := { s.rd with authed := b } })

def setSess (x : Option Session) : RW σ Unit := fun s => (.ok (), { s with rd := { s.rd with sess := x } })

/-- one `clf.exchange` -/
def exch (x : Air σ) (cmd : Bytes) : RW σ (Option Bytes) := fun s =>
  let r := x s.w cmd
  (.ok r.1, { s with w := r.2, tr := s.tr ++ [(cmd, r.1)] })

/-- the retry loop of `send_cmd_recv_rsp`: up to three attempts, `TagCommandError(TIMEOUT_ERROR)` -/
def sendRecv (x : Air σ) (cmd : Bytes) : RW σ Bytes :=
  exch x cmd >>= fun r1 =>
  match r1 with
  | some r => pure r
  | none =>
    exch x cmd >>= fun r2 =>
    match r2 with
    | some r => pure r
    | none =>
      exch x cmd >>= fun r3 =>
      match r3 with
      | some r => pure r
      | none => lift (.error (.tagCmd 0))

end RW
open RW

section methods
/- `forget`: the two behaviours of `_authenticate` towards the session of an EARLIER authentication.
`false` is the code as found: `_sk`/`_iv` of the last successful authentication survive a later
authentication that fails (finding `stale-session-after-failed-auth`); `true` is the repaired code:
they are reset to `None` where `_authenticated` is reset. -/
variable {σ : Type} (C : Cipher) (forget : Bool) (x : Air σ) (idm : Bytes)

/-- `read_without_mac(*blocks)` -/
def readPlain (blocks : List Nat) : RW σ Bytes :=
  lift (readCmd idm blocks) >>= fun c =>
  sendRecv x c >>= fun rsp =>
  lift (readRsp idm blocks rsp)

/-- `write_without_encryption(sc_list, bc_list, data)` -/
def writeBlocks (blocks : List Nat) (data : Bytes) : RW σ Unit :=
  lift (writeCmd idm blocks data) >>= fun c =>
  sendRecv x c >>= fun rsp =>
  lift (writeRsp idm rsp)

/-- `write_without_mac(data, block)` -/
def writePlain (data : Bytes) (block : Nat) : RW σ Unit :=
  if data.length ≠ 16 then lift (.error .assertion) else writeBlocks x idm [block] data

/-- `Tag.authenticate` → `FelicaLite._authenticate(password)` with `rc = os.urandom(16)` -/
def authLite (pw rc : Bytes) : RW σ Bool :=
  lift (liteKey pw) >>= fun key =>
  setAuthed false >>= fun _ =>
  (if forget then setSess none else pure ()) >>= fun _ =>
  lift (liteChallengeCmd idm rc) >>= fun c1 =>
  sendRecv x c1 >>= fun rsp1 =>
  lift (writeRsp idm rsp1) >>= fun _ =>
  lift (sessionKey C key rc) >>= fun _ =>
  lift (readCmd idm [0x82, 0x81]) >>= fun c2 =>
  sendRecv x c2 >>= fun rsp2 =>
  lift (liteAuthenticate C idm pw rc rsp1 rsp2) >>= fun r =>
  if r.1 then setSess r.2 >>= fun _ => setAuthed true >>= fun _ => pure true
  else pure false

/-- `read_with_mac(*blocks)`: one command for all blocks and the MAC block -/
def readMac (blocks : List Nat) : RW σ (Option Bytes) :=
  getRd >>= fun r =>
  match r.sess with
  | none => lift (.error .runtime)
  | some s =>
    lift (readCmd idm (blocks ++ [0x81])) >>= fun c =>
    sendRecv x c >>= fun rsp =>
    lift (readWithMac C idm (some s) blocks rsp)

/-- `FelicaLiteS.write_with_mac(data, block)`: WCNT is read from the card in every call -/
def writeMac (data : Bytes) (block : Nat) : RW σ Unit :=
  if data.length ≠ 16 then lift (.error .value) else
  getRd >>= fun r =>
  match r.sess with
  | none => lift (.error .runtime)
  | some s =>
    lift (readCmd idm [0x90]) >>= fun c0 =>
    sendRecv x c0 >>= fun rspW =>
    lift (writeWithMacCmd C idm (some s) data block rspW) >>= fun c =>
    sendRecv x c >>= fun rsp =>
    lift (writeRsp idm rsp)

/-- the external half of `FelicaLiteS.authenticate`, after the internal authentication succeeded -/
def extAuthS : RW σ Bool :=
  setAuthed false >>= fun _ =>
  writeMac C x idm ([1] ++ zeros 15) 0x92 >>= fun _ =>
  readMac C x idm [0x92] >>= fun st =>
  match st with
  | none => pure false
  | some d =>
    lift (idx d 0) >>= fun b =>
    if b = 1 then setAuthed true >>= fun _ => pure true else pure false

/-- `FelicaLiteS.authenticate(password)` (with the repair of `lite-s-auth-mac-failure-typeerror`) -/
def authLiteS (pw rc : Bytes) : RW σ Bool :=
  authLite C forget x idm pw rc >>= fun ok =>
  if !ok then pure false else extAuthS C x idm

/-- `bytearray` slice assignment `b[i:i+len(v)] = v` for `i + len(v) <= len(b)` -/
def setSlice (b : Bytes) (i : Nat) (v : Bytes) : Bytes := b.take i ++ v ++ b.drop (i + v.length)

/-- `pack("<H", n)` -/
def le16 (n : Nat) : Bytes := [n % 256, n / 256 % 256]

def pwCheck (pw : Option Bytes) : Py Unit :=
  match pw with
  | some p => if p ≠ [] ∧ p.length < 16 then .error .value else .ok ()
  | none => .ok ()

def keyOf (p : Bytes) : Bytes := if p = [] then zeros 16 else p.take 16

/-- `FelicaLite._protect(password, read_protect, protect_from)` up to the point where the NDEF
attribute block is looked at (`protect_from == 0 and self.ndef is not None`): `none` = the method
returned False, `some mc` = the MC block as prepared so far -/
def protectLiteA (pw : Option Bytes) (rp : Bool) (pf : Nat) : RW σ (Option Bytes) :=
  lift (pwCheck pw) >>= fun _ =>
  if rp then pure none else
  readPlain x idm [0x88] >>= fun mc =>
  (match pw with
   | none => pure true
   | some p =>
     lift (idx mc 2) >>= fun m2 =>
     if m2 ≠ 0xFF then pure false else
     writePlain x idm (revHalves (keyOf p)) 0x87 >>= fun _ => pure true) >>= fun go =>
  if !go then pure none else
  pure (some (if pf < 14 then setSlice mc 0 (le16 (0x7FFF ^^^ (2 ^ 14 - 2 ^ pf))) else mc))

/-- the end of `FelicaLite._protect`: the system blocks are locked -/
def protectLiteB (mc1 : Bytes) : RW σ Bool :=
  writePlain x idm (mc1.set 2 0) 0x88 >>= fun _ => pure true

/-- `FelicaLite._protect(password, read_protect, protect_from)` for `protect_from ≥ 1` (for
`protect_from = 0` the NDEF step of `Model/AuthNdef.lean` sits between the two halves) -/
def protectLite (pw : Option Bytes) (rp : Bool) (pf : Nat) : RW σ Bool :=
  protectLiteA x idm pw rp pf >>= fun r =>
  match r with
  | none => pure false
  | some mc1 => protectLiteB x idm mc1

/-- `FelicaLiteS._protect(password, read_protect, protect_from)` up to the NDEF step; `rc` is the
challenge of the `authenticate(key)` call inside (drawn only when a password is given).  The
authentication is the parameter `auth` (`authLiteS`; `Model/AuthNdef.lean` passes the version
that also keeps the NDEF cache of the tag object). -/
def protectLiteSA (auth : Bytes → Bytes → RW σ Bool) (pw : Option Bytes) (rp : Bool) (pf : Nat) (rc : Bytes) :
    RW σ (Option Bytes) :=
  lift (pwCheck pw) >>= fun _ =>
  readPlain x idm [0x88] >>= fun mc =>
  (match pw with
   | none => pure (some mc)
   | some p =>
     lift (idx mc 2) >>= fun m2 =>
     lift (idx mc 5) >>= fun m5 =>
     getRd >>= fun r =>
     if m2 ≠ 0xFF ∧ (m5 % 2 = 0 ∨ r.authed = false) then pure none else
     readPlain x idm [0x86] >>= fun ckv =>
     lift (idx ckv 0) >>= fun v0 =>
     lift (idx ckv 1) >>= fun v1 =>
     writePlain x idm (le16 (min (v0 + 256 * v1 + 1) 0xFFFF) ++ zeros 14) 0x86 >>= fun _ =>
     writePlain x idm (revHalves (keyOf p)) 0x87 >>= fun _ =>
     auth (keyOf p) rc >>= fun ok =>
     if !ok then pure none else
     pure (some (if rp ∧ pf < 14 then setSlice mc 6 (le16 (2 ^ 14 - 2 ^ pf)) else mc))) >>= fun r =>
  match r with
  | none => pure none
  | some mc =>
    pure (some (if pf < 14 then setSlice (setSlice mc 8 (le16 (2 ^ 14 - 2 ^ pf))) 10 (le16 (2 ^ 14 - 2 ^ pf)) else mc))

def protectLiteSB (mc1 : Bytes) : RW σ Bool :=
  writePlain x idm ((mc1.set 2 0).set 5 1) 0x88 >>= fun _ => pure true

/-- `FelicaLiteS._protect(password, read_protect, protect_from)` for `protect_from ≥ 1` -/
def protectLiteS (pw : Option Bytes) (rp : Bool) (pf : Nat) (rc : Bytes) : RW σ Bool :=
  protectLiteSA x idm (authLiteS C forget x idm) pw rp pf rc >>= fun r =>
  match r with
  | none => pure false
  | some mc1 => protectLiteSB x idm mc1

end methods

/-! ## histories -/

inductive Op (σ : Type) where
  /-- `authenticate(pw)`; `rc`: what `os.urandom(16)` returns in this call -/
  | auth (pw rc : Bytes)
  | readMac (blocks : List Nat)
  | writeMac (data : Bytes) (block : Nat)
  | readPlain (blocks : List Nat)
  | writePlain (data : Bytes) (block : Nat)
  | protect (pw : Option Bytes) (rp : Bool) (pf : Nat) (rc : Bytes)
  /-- not a method call: something happens to the world between two calls (the card is exchanged
  for another device, somebody else writes to it ...) -/
  | world (f : σ → σ)

inductive Res where
  | bool (b : Bool)
  | data (d : Option Bytes)
  | unit
  deriving DecidableEq, Repr

/-- one method call on a `FelicaLite` (`liteS = false`) or `FelicaLiteS` object -/
def step {σ : Type} (C : Cipher) (forget : Bool) (x : Air σ) (idm : Bytes) (liteS : Bool) : Op σ → RW σ Res
  | .auth pw rc => (if liteS then authLiteS C forget x idm pw rc else authLite C forget x idm pw rc) >>= fun b => pure (.bool b)
  | .readMac blocks => readMac C x idm blocks >>= fun d => pure (.data d)
  | .writeMac data block =>
    if liteS then writeMac C x idm data block >>= fun _ => pure .unit else lift (.error .attr)
  | .readPlain blocks => readPlain x idm blocks >>= fun d => pure (.data (some d))
  | .writePlain data block => writePlain x idm data block >>= fun _ => pure .unit
  | .protect pw rp pf rc =>
    (if liteS then protectLiteS C forget x idm pw rp pf rc else protectLite x idm pw rp pf) >>= fun b => pure (.bool b)
  | .world f => fun s => (.ok .unit, { s with w := f s.w })

/-- a history: the outcome of every call (an exception ends the call, not the history) -/
def run {σ : Type} (C : Cipher) (forget : Bool) (x : Air σ) (idm : Bytes) (liteS : Bool) :
    List (Op σ) → St σ → List (Py Res) × St σ
  | [], s => ([], s)
  | op :: ops, s =>
    let r := step C forget x idm liteS op s
    let rest := run C forget x idm liteS ops r.2
    (r.1 :: rest.1, rest.2)

/-! ## the card behind a channel that modifies, drops or replaces frames -/

inductive Action where
  | xor (mask : Bytes)
  | drop
  | replace (frame : Bytes)

/-- a rule applies to the command (`rsp = false`) or the response of exchange number `index` -/
structure Rule where
  rsp : Bool
  index : Nat
  act : Action

/-- `out[i] ^= m` over the common prefix -/
def xorPrefix : Bytes → Bytes → Bytes
  | a :: as, m :: ms => (a ^^^ m) :: xorPrefix as ms
  | as, [] => as
  | [], _ => []

def applyRules (rules : List Rule) (rsp : Bool) (index : Nat) (frame : Bytes) : Option Bytes :=
  match rules.find? (fun r => r.rsp = rsp ∧ r.index = index) with
  | none => some frame
  | some r =>
    match r.act with
    | .xor m => some (xorPrefix frame m)
    | .drop => none
    | .replace f => some f

/-- the world of the correspondence runs: the card and the number of exchanges made -/
def cardAir (C : Cipher) (rules : List Rule) : Air (Card × Nat) := fun w cmd =>
  match applyRules rules false w.2 cmd with
  | none => (none, (w.1, w.2 + 1))
  | some cm =>
    let r := w.1.command C cm
    match r.1 with
    | none => (none, (r.2, w.2 + 1))
    | some rsp => (applyRules rules true w.2 rsp, (r.2, w.2 + 1))

/-- the untouched channel -/
def honest (C : Cipher) : Air Card := fun c cmd => c.command C cmd

end NfcVerif.AuthHist
