import NfcVerif.Model.IsoDep
/-!
# Reference definitions for the function-translator group IsoSm (`Props/FnBridgeIsoSm.lean`)

What `Model/IsoDep.lean` and the Type 4 Tag models leave out because the statements of C12 / C08 do not need it, written
in spec style (ISO/IEC 14443-4, NFC Forum Type 4 Tag) with the facts the properties rest on.
-/
namespace NfcVerif.IsoSmRef
open NfcVerif

/-- ISO/IEC 14443-4 7.3: after an S(WTX) request with multiplier WTXM (6 bits) the card may take WTXM x FWT -/
def wtxTime (pcb2 : Nat) (fwt : Int) : Int := ((pcb2 % 64 : Nat) : Int) * fwt

/-- one S(WTX) request never extends the waiting time beyond 63 FWT -/
theorem wtxTime_bound (pcb2 : Nat) (fwt : Int) (h : 0 ≤ fwt) : 0 ≤ wtxTime pcb2 fwt ∧ wtxTime pcb2 fwt ≤ 63 * fwt := by
  unfold wtxTime
  have h1 : (0 : Int) ≤ ((pcb2 % 64 : Nat) : Int) := by omega
  have h2 : ((pcb2 % 64 : Nat) : Int) ≤ 63 := by omega
  exact ⟨Int.mul_nonneg h1 h, Int.mul_le_mul_of_nonneg_right h2 h⟩

/-- block numbering rule B: the PCD toggles its block number on an I-block / R(ACK) with its own number -/
def toggle (pni : Nat) : Nat := (pni + 1) % 2

theorem toggle_lt (pni : Nat) : toggle pni < 2 := by unfold toggle; omega
theorem toggle_toggle (pni : Nat) (h : pni < 2) : toggle (toggle pni) = pni := by unfold toggle; omega

/-- Type 4 Tag: P2 of SELECT (by file identifier): first or only occurrence, FCI returned for mapping version 1.0 (00h),
no response data for version 2.0 and later (0Ch) -/
def selectP2 (v1 : Bool) : Nat := if v1 then 0x00 else 0x0C

/-- number of capability container octets read behind CCLEN: the rest of the container, at most 15 -/
def ccRead (cclen : Nat) : Int := min ((cclen : Int) - 2) 15

theorem ccRead_le (cclen : Nat) : ccRead cclen ≤ 15 := by unfold ccRead; omega

/-- a transport error (timeout, transmission, protocol: reason codes <= 0) ends the search for the NDEF application,
a status word of the card (> 0) lets it go on with the next AID -/
def selectStops (errno : Int) : Bool := decide (errno ≤ 0)

/-- the NDEF message must lie inside the file and inside what a 16 bit offset addresses -/
def nlenTooLarge (nlen : Nat) (capacity : Int) (nlenSize : Nat) : Bool :=
  decide ((nlen : Int) > capacity ∨ nlenSize + nlen > 0x10000)

/-- every octet of an accepted message is addressable by READ BINARY -/
theorem nlen_addressable (nlen : Nat) (capacity : Int) (nlenSize : Nat) (h : nlenTooLarge nlen capacity nlenSize = false)
    (k : Nat) (hk : k < nlen) : nlenSize + k ≤ 65535 := by
  unfold nlenTooLarge at h
  simp only [decide_eq_false_iff_not, not_or] at h
  omega

end NfcVerif.IsoSmRef
