import NfcVerif.Model.AdvT12
import NfcVerif.Model.IsoDepC08
/-!
# C08: Type 3 / Type 4 NDEF readers and `nfc.tag.activate` against an adversarial tag

Type 3 (`tt3.py`): `send_cmd_recv_rsp`, `polling`, `read_without_encryption`,
`Type3Tag.NDEF._read_attribute_data / _read_ndef_data` with the repairs of
`fixes/C08` (Ln <= Nmaxb*16, Nbr = 0 refused, at most 15 blocks per command).

Type 4 (`tt4.py`): `Type4Tag.NDEF._select_ndef_application / _select_fid /
_read_binary / _discover_ndef / _read_ndef_data` with the repairs (NLEN <=
capacity and below the 16 bit offset range, every READ BINARY must make
progress and not return more than requested).  The reader is generic in the
APDU transport `Xp σ` (`Type4Tag.transceive`); `isoX` instantiates it with the
ISO-DEP initiator of `Model/IsoDep.lean` in front of an adversarial card that
answers every *frame* arbitrarily.

Activation: `nfc.tag.activate`, `tt1.activate` + `tt1_broadcom.activate`,
`tt2.activate` + `tt2_nxp.activate`, `tt3.activate` + `tt3_sony.activate`,
`Type3Tag.__init__`, `Type4ATag.__init__` (RATS / ATS evaluation, repaired),
`Type4BTag.__init__` (ATTRIB).
-/
namespace NfcVerif.Adv
open NfcVerif.IsoDep (Pcd World Peer)

/-! ## Type 3 -/

structure S3 where
  w : W
  idm : Bytes
  pmm : Bytes
  sys : Nat
  deriving Repr

/-- the response checks of `send_cmd_recv_rsp` (`check_status=True`): minimum length 2 without IDm,
12 with IDm and status flags (a two octet list has the minimum length 2 already) -/
def checkRsp3 (code : Nat) (sendIdm : Bool) (idm rsp : Bytes) : Py Bytes :=
  match rsp with
  | r0 :: r1 :: rest =>
    if (sendIdm ∧ rsp.length < 12) ∨ r0 ≠ rsp.length then .error (.tagCmd 1)
    else if r1 ≠ code + 1 then .error (.tagCmd 2)
    else if sendIdm ∧ sliceN rsp 2 10 ≠ idm then .error (.tagCmd 3)
    else if ¬ sendIdm then .ok rest
    else
      match rsp[10]?, rsp[11]? with
      | some a, some b => if a ≠ 0 then .error (.tagCmd (a * 256 + b : Nat)) else .ok (rsp.drop 12)
      | _, _ => .error .index
  | _ => .error (.tagCmd 1)

/-- `Type3Tag.send_cmd_recv_rsp(code, data, timeout, send_idm, check_status=True)` -/
def sendCmd3 (t : Tag) (code : Nat) (data : Bytes) (sendIdm : Bool) (s : S3) : Py Bytes × S3 :=
  if 2 + (if sendIdm then s.idm else []).length + data.length ≥ 256 ∨ code ≥ 256 then (.error .value, s)  -- bytearray([l, code])
  else
    ((match (trx t 3 s.w ([2 + (if sendIdm then s.idm else []).length + data.length, code] ++
          (if sendIdm then s.idm else []) ++ data)).1 with
      | none => .error (.tagCmd 0)
      | some rsp => checkRsp3 code sendIdm s.idm rsp),
     { s with w := (trx t 3 s.w ([2 + (if sendIdm then s.idm else []).length + data.length, code] ++
          (if sendIdm then s.idm else []) ++ data)).2 })

/-- `Type3Tag.polling(system_code, request_code, time_slots=0)`: the tuple `(idm, pmm)` for a 16 octet
answer, `(idm, pmm, request data)` for an 18 octet answer; the answer must have the length that
belongs to the request code -/
def pollingTuple (t : Tag) (sys rc : Nat) (s : S3) : Py (List Bytes) × S3 :=
  if rc ≠ 0 ∧ rc ≠ 1 ∧ rc ≠ 2 then (.error .value, s)
  else if sys ≥ 65536 then (.error .struct, s)                       -- pack(">HBB", system_code, ...)
  else
    match sendCmd3 t 0 [sys / 256, sys % 256, rc, 0] false s with
    | (.error e, s') => (.error e, s')
    | (.ok d, s') =>
      if d.length ≠ (if rc = 0 then 16 else 18) then (.error (.tagCmd 4), s')
      else if d.length = 16 then (.ok [d.take 8, (d.drop 8).take 8], s')
      else (.ok [d.take 8, (d.drop 8).take 8, (d.drop 16).take 2], s')

/-- `idm, pmm = <tuple>`: `ValueError` unless the tuple has exactly two members -/
def unpack2 : List Bytes → Py (Bytes × Bytes)
  | [a, b] => .ok (a, b)
  | _ => .error .value

/-- `self.tag.idm, self.tag.pmm = self._tag.polling(0x12FC); self.tag.sys = 0x12FC` of `_read_ndef_data` -/
def polling3 (t : Tag) (s : S3) : Py Unit × S3 :=
  match pollingTuple t 0x12FC 0 s with
  | (.error e, s') => (.error e, s')
  | (.ok tup, s') =>
    match unpack2 tup with
    | .error e => (.error e, s')
    | .ok (idm, pmm) => (.ok (), { s' with idm := idm, pmm := pmm, sys := 0x12FC })

/-- `BlockCode(n).pack()` -/
def blockCode (bn : Nat) : Py Bytes :=
  if bn < 256 then .ok [0x80, bn]
  else if bn < 65536 then .ok [0x00, bn % 256, bn / 256]
  else .error .struct

def blockCodes : List Nat → Py Bytes
  | [] => .ok []
  | b :: bs => blockCode b >>= fun x => blockCodes bs >>= fun xs => .ok (x ++ xs)

/-- `read_from_ndef_service(*blocks)` = `read_without_encryption([000B], blocks)` -/
def read3 (t : Tag) (blocks : List Nat) (s : S3) : Py Bytes × S3 :=
  match idxN s.pmm 5 with                      -- timeout computation: self.pmm[5]
  | .error e => (.error e, s)
  | .ok _ =>
    if blocks.length ≥ 256 then (.error .value, s)
    else
      match blockCodes blocks with
      | .error e => (.error e, s)
      | .ok bc =>
        match sendCmd3 t 6 ([1, 0x0B, 0x00, blocks.length] ++ bc) true s with
        | (.error e, s') => (.error e, s')
        | (.ok d, s') =>
          if d.length ≠ 1 + blocks.length * 16 then (.error (.tagCmd 4), s') else (.ok (d.drop 1), s')

structure Attr where
  ver : Nat
  nbr : Nat
  nbw : Nat
  nmaxb : Nat
  writef : Nat
  rwflag : Nat
  ln : Nat
  deriving Repr

def parseAttr (d : Bytes) : Py (Option Attr) :=
  match d with
  | [a0, a1, a2, a3, a4, a5, a6, a7, a8, a9, a10, a11, a12, a13, c0, c1] =>
    if a0 + a1 + a2 + a3 + a4 + a5 + a6 + a7 + a8 + a9 + a10 + a11 + a12 + a13 ≠ c0 * 256 + c1 then .ok none
    else .ok (some { ver := a0, nbr := a1, nbw := a2, nmaxb := a3 * 256 + a4, writef := a9, rwflag := a10,
                     ln := (a11 * 256 + a12) * 256 + a13 })
  | _ => .error .struct

/-- the `for i in range(1, last, nbr)` loop; `acc` = the answers so far, newest first (`data += ...`) -/
def blockLoop3 (t : Tag) (last nbr : Nat) : Nat → Nat → List Bytes → S3 → Py (Option Bytes) × S3
  | 0, _, _, s => (.error .outOfFuel, s)
  | f+1, i, acc, s =>
    if i ≥ last then (.ok (some acc.reverse.flatten), s)
    else
      match read3 t (List.range' i (min (i + nbr) last - i)) s with
      | (.error e, s') => if isTagCmd e then (.ok none, s') else (.error e, s')
      | (.ok d, s') => blockLoop3 t last nbr f (i + nbr) (d :: acc) s'

/-- `Type3Tag.NDEF._read_ndef_data()` (repaired) -/
def readNdef3 (t : Tag) (s : S3) : Py (Option Ndef) × S3 :=
  let p : Py Unit × S3 := if s.sys ≠ 0x12FC then polling3 t s else (.ok (), s)
  match p with
  | (.error e, s1) => if isTagCmd e then (.ok none, s1) else (.error e, s1)
  | (.ok _, s1) =>
    match read3 t [0] s1 with
    | (.error e, s2) => if isTagCmd e then (.ok none, s2) else (.error e, s2)
    | (.ok d, s2) =>
      match parseAttr d with
      | .error e => (.error e, s2)
      | .ok none => (.ok none, s2)
      | .ok (some a) =>
        if a.ver / 16 ≠ 1 then (.ok none, s2)
        else if a.ln > a.nmaxb * 16 then (.ok none, s2)
        else
          let last := 1 + (a.ln + 15) / 16
          let nbr := min a.nbr 15
          if nbr = 0 then (.ok none, s2)
          else
            match blockLoop3 t last nbr last 1 [] s2 with
            | (.error e, s3) => (.error e, s3)
            | (.ok none, s3) => (.ok none, s3)
            | (.ok (some data), s3) =>
              (.ok (some { length := (data.take a.ln).length, cap := (a.nmaxb * 16 : Nat),
                           readable := decide (a.writef = 0 ∧ a.nbr > 0),
                           writeable := decide (a.rwflag ≠ 0 ∧ a.nbw > 0),
                           octets := data.take a.ln, addrs := List.range' 16 (data.take a.ln).length,
                           lo := 16, hi := 16 + a.nmaxb * 16 }), s3)

/-! ## Type 4, generic in the APDU transport -/

/-- `Type4Tag.transceive`: command APDU in, response APDU or an exception out -/
structure Xp (σ : Type) where
  run : σ → Bytes → σ × Py Bytes

/-- the command APDU of `send_apdu(0, ins, p1, p2, data, mrl)` -/
def cmd4 (ins p1 p2 : Nat) (data : Bytes) (mrl : Int) : Bytes :=
  [0, ins, p1, p2] ++ (if data = [] then [] else data.length :: data)
    ++ (if mrl > 0 then [if mrl = 256 then 0 else mrl.toNat] else [])

/-- `Type4Tag.send_apdu(0, ins, p1, p2, data, mrl)` without extended length support -/
def apdu4 {σ} (X : Xp σ) (ins p1 p2 : Nat) (data : Bytes) (mrl : Int) (s : σ) : σ × Py Bytes :=
  if mrl > 256 then (s, .error .value)
  else ((X.run s (cmd4 ins p1 p2 data mrl)).1, (X.run s (cmd4 ins p1 p2 data mrl)).2 >>= IsoDep.checkStatus true)

def aidV2 : Bytes := [0xD2, 0x76, 0x00, 0x00, 0x85, 0x01, 0x01]
def aidV1 : Bytes := [0xD2, 0x76, 0x00, 0x00, 0x85, 0x01, 0x00]

structure Info where
  maxLe : Nat
  maxLc : Nat
  capacity : Int
  readable : Bool
  writeable : Bool
  nlenSize : Nat
  fid : Bytes
  /-- `self._aid == ndef_aid_v1` -/
  v1 : Bool
  deriving Repr

/-- `_select_ndef_application`: `some v1` when an application was selected -/
def selectApp {σ} (X : Xp σ) (s : σ) : σ × Py (Option Bool) :=
  match apdu4 X 0xA4 0x04 0x00 aidV2 256 s with
  | (s1, .ok _) => (s1, .ok (some false))
  | (s1, .error (.tagCmd e)) =>
    if e ≤ 0 then (s1, .ok none)
    else
      match apdu4 X 0xA4 0x04 0x00 aidV1 0 s1 with
      | (s2, .ok _) => (s2, .ok (some true))
      | (s2, .error (.tagCmd _)) => (s2, .ok none)
      | (s2, .error e) => (s2, .error e)
  | (s1, .error e) => (s1, .error e)

/-- `_select_fid(fid)` -/
def selectFid {σ} (X : Xp σ) (v1 : Bool) (fid : Bytes) (s : σ) : σ × Py Bool :=
  match apdu4 X 0xA4 0x00 (if v1 then 0x00 else 0x0C) fid 0 s with
  | (s1, .ok _) => (s1, .ok true)
  | (s1, .error (.tagCmd _)) => (s1, .ok false)
  | (s1, .error e) => (s1, .error e)

/-- repaired `_read_binary`: more data than requested is a protocol error -/
def surplus (mrl : Int) (r : Py Bytes) : Py Bytes :=
  r >>= fun d => if (d.length : Int) > max mrl 0 then .error (.tagCmd (-2)) else .ok d

/-- `_read_binary(offset, size)` -/
def readBin {σ} (X : Xp σ) (maxLe : Nat) (off : Nat) (size : Int) (s : σ) : σ × Py Bytes :=
  if off > 65535 then (s, .error .struct)
  else
    ((apdu4 X 0xB0 (off / 256) (off % 256) [] (min (maxLe : Int) size) s).1,
     surplus (min (maxLe : Int) size) (apdu4 X 0xB0 (off / 256) (off % 256) [] (min (maxLe : Int) size) s).2)

/-- evaluation of the capability container octets 2.. (after `cclen`) -/
def parseCC (v1 : Bool) (caps : Bytes) : Py (Option Info) :=
  if caps.length < 13 then .ok none
  else
    match caps ++ List.replicate (15 - caps.length) 0 with
    | [ver, e1, e0, c1, c0, tag, plen, v0, v1', v2, v3, v4, v5, v6, v7] =>
      let val := [v0, v1', v2, v3, v4, v5, v6, v7].take (min plen 8)   -- struct "9p"
      if ¬ (ver / 16 = 1 ∨ ver / 16 = 2 ∨ ver / 16 = 3) then .ok none
      else if ¬ ((tag = 4 ∧ val.length = 6) ∨ (tag = 6 ∧ val.length = 8)) then .ok none
      else
        let mfs : Nat := if tag = 4 then beNat [v2, v3] else beNat [v2, v3, v4, v5]
        let rf := if tag = 4 then v4 else v6
        let wf := if tag = 4 then v5 else v7
        .ok (some { maxLe := min (e1 * 256 + e0) 256, maxLc := min (c1 * 256 + c0) 255,
                    capacity := ((min mfs 0x10000 : Nat) : Int) - tag + 2,   -- 16 bit file offsets (fixes/C01_t34)
                    readable := decide (rf = 0), writeable := decide (wf = 0),
                    nlenSize := tag - 2, fid := [v0, v1'], v1 := v1 })
    | _ => .error .struct

/-- `_discover_ndef` -/
def discover4 {σ} (X : Xp σ) (s : σ) : σ × Py (Option Info) :=
  match selectApp X s with
  | (s1, .error e) => (s1, .error e)
  | (s1, .ok none) => (s1, .ok none)
  | (s1, .ok (some v1)) =>
    match selectFid X v1 [0xE1, 0x03] s1 with
    | (s2, .error e) => (s2, .error e)
    | (s2, .ok false) => (s2, .ok none)
    | (s2, .ok true) =>
      match readBin X 15 0 2 s2 with
      | (s3, .error e) => (s3, .error e)
      | (s3, .ok cclen) =>
        if cclen.length ≠ 2 then (s3, .ok none)
        else
          match readBin X 15 2 (min ((beNat cclen : Int) - 2) 15) s3 with
          | (s4, .error e) => (s4, .error e)
          | (s4, .ok caps) => (s4, parseCC v1 caps)

/-- `while len(data) < nlen` (repaired: every answer must make progress; `readBin` refuses surplus) -/
def readLoop4 {σ} (X : Xp σ) (i : Info) (nlen : Nat) : Nat → Bytes → σ → σ × Py (Option Bytes)
  | 0, _, s => (s, .error .outOfFuel)
  | f+1, acc, s =>
    if acc.length ≥ nlen then (s, .ok (some acc))
    else
      match readBin X i.maxLe (i.nlenSize + acc.length) ((nlen : Int) - acc.length) s with
      | (s1, .error e) => (s1, .error e)
      | (s1, .ok more) =>
        if more.length = 0 then (s1, .ok none)
        else readLoop4 X i nlen f (acc ++ more) s1

def catch4 {σ α} (r : σ × Py (Option α)) : σ × Py (Option α) :=
  match r with
  | (s, .error (.tagCmd _)) => (s, .ok none)
  | r => r

/-- select the NDEF file, read NLEN and the message -/
def readFile4 {σ} (X : Xp σ) (i : Info) (s1 : σ) : σ × Py (Option (Ndef × Info)) :=
      match selectFid X i.v1 i.fid s1 with
      | (s2, .error e) => (s2, .error e)
      | (s2, .ok false) => (s2, .ok none)
      | (s2, .ok true) =>
        match readBin X i.maxLe 0 i.nlenSize s2 with
        | (s3, .error e) => (s3, .error e)
        | (s3, .ok nl) =>
          if nl.length ≠ i.nlenSize then (s3, .ok none)
          else
            let nlen := beNat nl
            if (nlen : Int) > i.capacity ∨ i.nlenSize + nlen > 0x10000 then (s3, .ok none)
            else
              match readLoop4 X i nlen (nlen + 1) [] s3 with
              | (s4, .error e) => (s4, .error e)
              | (s4, .ok none) => (s4, .ok none)
              | (s4, .ok (some data)) =>
                (s4, .ok (some ({ length := data.length, cap := i.capacity, readable := i.readable,
                                  writeable := i.writeable, octets := data,
                                  addrs := List.range' i.nlenSize data.length,
                                  lo := i.nlenSize, hi := i.nlenSize + i.capacity.toNat }, i)))

/-- the `try` block of `_read_ndef_data`: `hasattr(self, "_ndef_file") or self._discover_ndef()` first -/
def readNdef4Body {σ} (X : Xp σ) (known : Option Info) (s : σ) : σ × Py (Option (Ndef × Info)) :=
  match known with
  | some i => readFile4 X i s
  | none =>
    match discover4 X s with
    | (s1, .error e) => (s1, .error e)
    | (s1, .ok none) => (s1, .ok none)
    | (s1, .ok (some i)) => readFile4 X i s1

/-- `Type4Tag.NDEF._read_ndef_data()`; `known` = attributes kept from an earlier `_discover_ndef` -/
def readNdef4 {σ} (X : Xp σ) (known : Option Info) (s : σ) : σ × Py (Option (Ndef × Info)) :=
  catch4 (readNdef4Body X known s)

/-! ### the ISO-DEP transport in front of a frame-level adversary -/

/-- the adversarial card as a `Peer`: its state is the number of frames received -/
def oraclePeer (t : Tag) : Peer Nat := ⟨fun n _ => (n + 1, t n)⟩

/-- what changes in the ISO-DEP initiator from one APDU to the next: the air interface, the block number,
`self.errno` -/
structure S4 where
  world : World Nat
  pni : Nat
  failed : Option Int

/-- `Type4Tag.transceive` = `IsoDepInitiator.exchange` (`Model/IsoDepC08.lean`: with the switches of
`c.fx` for the termination repairs).  `p0` holds what activation fixed (MIU, retry counts).
`sticky`: the tree contains "no further ISO-DEP commands after an unrecoverable error" (fixes/C12). -/
def isoX (t : Tag) (c : IsoDepR.Cfg) (p0 : Pcd) (sticky : Bool) : Xp S4 :=
  ⟨fun s cmd =>
    match IsoDepR.exchange (oraclePeer t) c
        { p0 with pni := s.pni, failed := if sticky then s.failed else none } cmd s.world with
    | (w, pcd, r) => ({ world := w, pni := pcd.pni, failed := pcd.failed }, r)⟩

def toWorld (w : W) : World Nat := { card := w.n, script := [], trace := w.log.reverse }
/-- every `clf.exchange` appends its frame to the trace -/
def ofWorld (x : World Nat) : W := { n := x.trace.length, log := x.trace.reverse }

/-! ## activation -/

structure Target where
  /-- 0: 106A, 1: 106B, 2: 212F/424F -/
  tech : Nat
  sens : Bytes
  sel : Bytes
  sdd : Bytes
  rid : Bytes
  sensb : Bytes
  sensf : Bytes
  deriving Repr

inductive TagObj
  | t1 (cls : String) (uid : Bytes)
  | t2 (cls : String)
  | t3 (cls : String) (idm pmm : Bytes) (sys : Nat)
  /-- `lim` = `max_wtxm_sum` of the ISO-DEP initiator -/
  | t4 (cls : String) (pcd : Pcd) (lim : Nat)
  deriving Repr

def TagObj.cls : TagObj → String
  | .t1 c _ => c | .t2 c => c | .t3 c _ _ _ => c | .t4 c _ _ => c

def versionMap : List (Bytes × String) :=
  [([0x00, 0x04, 0x03, 0x01, 0x01, 0x00, 0x0B, 0x03], "MF0UL11"),
   ([0x00, 0x04, 0x03, 0x02, 0x01, 0x00, 0x0B, 0x03], "MF0ULH11"),
   ([0x00, 0x04, 0x03, 0x01, 0x01, 0x00, 0x0E, 0x03], "MF0UL21"),
   ([0x00, 0x04, 0x03, 0x02, 0x01, 0x00, 0x0E, 0x03], "MF0ULH21"),
   ([0x00, 0x04, 0x04, 0x01, 0x01, 0x00, 0x0B, 0x03], "NTAG210"),
   ([0x00, 0x04, 0x04, 0x01, 0x01, 0x00, 0x0E, 0x03], "NTAG212"),
   ([0x00, 0x04, 0x04, 0x02, 0x01, 0x00, 0x0F, 0x03], "NTAG213"),
   ([0x00, 0x04, 0x04, 0x02, 0x01, 0x00, 0x11, 0x03], "NTAG215"),
   ([0x00, 0x04, 0x04, 0x02, 0x01, 0x00, 0x13, 0x03], "NTAG216"),
   ([0x00, 0x04, 0x04, 0x05, 0x02, 0x01, 0x13, 0x03], "NT3H1101"),
   ([0x00, 0x04, 0x04, 0x05, 0x02, 0x01, 0x15, 0x03], "NT3H1201")]

/-- `rsp.startswith(b"\xAF")` for the answer (if any) to the authenticate probe -/
def isAF : Option Bytes → Bool
  | some (0xAF :: _) => true
  | _ => false

/-- `tt2_nxp.activate`: `some cls` or `none`.  Authenticate probe `1A 00`, sense, GET_VERSION `60`,
sense only after a missing or `00` answer -/
def activateNxp (t : Tag) (w : W) : Option String × W :=
  let w1 := (xchg t w [0x1A, 0x00]).2
  let w2 := (xchg t w1 []).2
  match (xchg t w1 []).1 with
  | none => (none, w2)
  | some _ =>
    if isAF (xchg t w [0x1A, 0x00]).1 then (some "MifareUltralightC", w2)
    else
      let w3 := (xchg t w2 [0x60]).2
      match (xchg t w2 [0x60]).1 with
      | none =>
        ((match (xchg t w3 []).1 with | none => none | some _ => some "MifareUltralight"), (xchg t w3 []).2)
      | some rsp =>
        match versionMap.lookup rsp with
        | some c => (some c, w3)
        | none =>
          if rsp = [0x00] then
            ((match (xchg t w3 []).1 with | none => none | some _ => some "NTAG203"), (xchg t w3 []).2)
          else (none, w3)

def sonyClass (ic : Nat) : Option String :=
  if ic = 0xF0 then some "FelicaLite"
  else if ic = 0xF1 ∨ ic = 0xF2 then some "FelicaLiteS"
  else if ic ∈ [0x00, 0x01, 0x02, 0x08, 0x09, 0x0B, 0x0C, 0x0D, 0x20, 0x32, 0x35] then some "FelicaStandard"
  else if 0x06 ≤ ic ∧ ic ≤ 0x07 ∨ 0x10 ≤ ic ∧ ic ≤ 0x1F then some "FelicaMobile"
  else if ic = 0xE0 ∨ ic = 0xE1 then some "FelicaPlug"
  else none

/-- FSCI / FWI of an ATS (repaired evaluation): defaults 2 / 4 for what is not transmitted -/
def atsParams (ats : Bytes) : Nat × Nat :=
  match ats with
  | _ :: t0 :: _ =>
    let tb := if t0 &&& 0x10 ≠ 0 then 3 else 2
    (t0 &&& 0x0F, if t0 &&& 0x20 ≠ 0 then (match ats[tb]? with | some b => b >>> 4 | none => 4) else 4)
  | _ => (2, 4)

/-- `nfc.tag.activate(clf, target)`; `CommunicationError` (here: no answer) gives `None` -/
def activate (t : Tag) (maxSend maxRecv : Nat) (g : Target) (w : W) : Py (Option TagObj) × W :=
  if g.tech = 0 then
    match idxN g.sens 1 with
    | .error e => (.error e, w)
    | .ok s1 =>
      if s1 &&& 0x0F = 0x0C then
        let hr := g.rid.take 2
        let cls := if hr = [0x11, 0x48] then "Topaz" else if hr = [0x12, 0x4C] then "Topaz512" else "Type1Tag"
        (.ok (some (.t1 cls (sliceN g.rid 2 6))), w)
      else
        match idxN g.sel 0 with
        | .error e => (.error e, w)
        | .ok sl =>
          if (sl >>> 5) &&& 3 = 0 then
            -- tt2.activate
            match idxN g.sdd 0 with
            | .error e => (.error e, w)
            | .ok m =>
              if m = 0x04 then
                match activateNxp t w with
                | (some c, w') => (.ok (some (.t2 c)), w')
                | (none, w') =>
                  match xchg t w' [] with
                  | (some _, w'') => (.ok (some (.t2 "Type2Tag")), w'')
                  | (none, w'') => (.ok none, w'')
              else (.ok (some (.t2 "Type2Tag")), w)
          else if (sl >>> 5) &&& 1 = 1 then
            -- Type4ATag.__init__
            match xchg t w (if maxRecv < 256 then [0xE0, 0x70] else [0xE0, 0x80]) with
            | (none, w') => (.ok none, w')
            | (some ats, w') =>
              let p := atsParams ats
              (.ok (some (.t4 "Type4ATag" (IsoDep.mkPcd p.1 p.2 maxSend) (IsoDepR.wtxLimit p.2))), w')
          else (.ok none, w)
  else if g.tech = 1 then
    -- Type4BTag.__init__
    match xchg t w ([0x1D] ++ sliceN g.sensb 1 5 ++ [0x00, if maxRecv < 256 then 0x07 else 0x08, 0x01, 0x00]) with
    | (none, w') => (.ok none, w')
    | (some _, w') =>
      match IsoDep.activateB g.sensb maxSend with
      | .error e => (.error e, w')
      | .ok pcd =>
        match idxN g.sensb 11 with
        | .error e => (.error e, w')
        | .ok b => (.ok (some (.t4 "Type4BTag" pcd (IsoDepR.wtxLimit (b >>> 4)))), w')
  else
    -- tt3.activate
    if sliceN g.sensf 1 3 = [0x01, 0xFE] then (.ok none, w)
    else
      match idxN g.sensf 10 with
      | .error e => (.error e, w)
      | .ok ic =>
        let sys : Py Nat := if g.sensf.length > 17 then unpackH (sliceN g.sensf 17 19) 0 else .ok 0xFFFF
        match sys with
        | .error e => (.error e, w)
        | .ok sy =>
          (.ok (some (.t3 ((sonyClass ic).getD "Type3Tag") (sliceN g.sensf 1 9) (sliceN g.sensf 9 17) sy)), w)

end NfcVerif.Adv
