import NfcVerif.Model.Tlv
/-!
# C08: NDEF readers of Type 1 / Type 2 tags against an ADVERSARIAL tag

The tag is `Tag = Nat → Option Bytes`: the answer to the `n`-th interaction
(`clf.exchange` or `clf.sense`) the reader makes, whatever the command is;
`none` = no answer (`nfc.clf.TimeoutError`, for `sense`: no target found).
This is more hostile than a function of the command: any tag, with any
internal state, facing this deterministic reader *is* such a sequence.
Answers have any content and any length.

`W` counts the interactions and logs the commands (the log exists only for the
correspondence check).  Loops of the Python code take explicit fuel;
`Lemmas/AdvT12.lean` proves that the fuel handed in by `readNdef1/2` is never
used up, i.e. the loops terminate.

Transcribed: `tt2.py` `Type2Tag.read / sector_select / transceive`,
`Type2TagMemoryReader.__getitem__ / _read_from_tag`, `read_tlv`,
`Type2Tag.NDEF._read_capability_data / _read_ndef_data`; `tt1.py`
`Type1Tag.read_all / read_block / read_segment / transceive`,
`Type1TagMemoryReader`, `read_tlv`, `Type1Tag.NDEF._read_ndef_data` - all WITH the
repairs of `fixes/C08` (control TLV length, command errors -> None, response
lengths, TLVs confined to the data area, length <= capacity).
-/
namespace NfcVerif.Adv
open NfcVerif.Tlv (Skip inSkip nextFree capacity ctlRange)

abbrev Tag := Nat → Option Bytes

structure W where
  /-- interactions so far -/
  n : Nat
  /-- commands, newest first (`[]` = `clf.sense`) -/
  log : List Bytes
  deriving Repr

def W.init : W := ⟨0, []⟩

/-- one `clf.exchange(cmd)` (or `clf.sense` for `cmd = []`) -/
def xchg (t : Tag) (w : W) (cmd : Bytes) : Option Bytes × W := (t w.n, ⟨w.n + 1, cmd :: w.log⟩)

/-- `for retry in range(k): try: return exchange(cmd) except CommunicationError: pass` -/
def trx (t : Tag) : Nat → W → Bytes → Option Bytes × W
  | 0, w, _ => (none, w)
  | k+1, w, cmd =>
    match xchg t w cmd with
    | (some r, w') => (some r, w')
    | (none, w') => trx t k w' cmd

def isTagCmd : Exc → Bool
  | .tagCmd _ => true
  | _ => false

/-! ## a lazily filled memory cache (`Type1TagMemoryReader`, `Type2TagMemoryReader`) -/

structure Mem (σ : Type) where
  cache : σ → Bytes
  /-- `_read_from_tag(stop)` -/
  ensure : Nat → σ → Py Unit × σ

/-- `memory[a]` -/
def getB {σ} (M : Mem σ) (a : Nat) (s : σ) : Py Nat × σ :=
  if a < (M.cache s).length then (idxN (M.cache s) a, s)
  else
    match M.ensure (a + 1) s with
    | (.ok _, s') => (idxN (M.cache s') a, s')
    | (.error e, s') => (.error e, s')

/-- `unpack(">H", memory[o:o+2])[0]` -/
def getH {σ} (M : Mem σ) (o : Nat) (s : σ) : Py Nat × σ :=
  if o + 2 ≤ (M.cache s).length then (unpackH (sliceN (M.cache s) o (o + 2)) 0, s)
  else
    match M.ensure (o + 2) s with
    | (.ok _, s') => (unpackH (sliceN (M.cache s') o (o + 2)) 0, s')
    | (.error e, s') => (.error e, s')

/-! ## `read_tlv`: Type 1 (`confine`, repaired: nothing is read at or behind `end`) and Type 2 (unchanged) -/

inductive TlvR
  /-- `(None, None, None)`: the TLV is not completely below `end` (Type 1: or a command failed) -/
  | beyond
  /-- NULL or terminator TLV, no length field -/
  | nul (t : Nat)
  /-- type, length, value and (ghost) the addresses the value was taken from -/
  | val (t l : Nat) (v : Bytes) (addrs : List Nat) (hdr : Nat)
  deriving Repr

/-- the value loop: `for i in range(l): while offset+i in skip: offset += 1;
if offset+i >= end: return None; v[i] = memory[offset+i]`
(the accumulators are kept in reverse order) -/
def readVal {σ} (M : Mem σ) (confine : Bool) (skip : Skip) (end_ : Nat) :
    Nat → Nat → Bytes → List Nat → σ → Py (Option (Bytes × List Nat)) × σ
  | 0, _, v, as, s => (.ok (some (v.reverse, as.reverse)), s)
  | k+1, pos, v, as, s =>
    let p := nextFree skip pos
    if confine ∧ p ≥ end_ then (.ok none, s)
    else
      match getB M p s with
      | (.error e, s') => (.error e, s')
      | (.ok b, s') => readVal M confine skip end_ k (p + 1) (b :: v) (p :: as) s'

def readTlvBody {σ} (M : Mem σ) (confine : Bool) (skip : Skip) (end_ off : Nat) (s : σ) : Py TlvR × σ :=
  if confine ∧ off ≥ end_ then (.ok .beyond, s)
  else
    match getB M off s with
    | (.error e, s1) => (.error e, s1)
    | (.ok t, s1) =>
      if t = 0 ∨ t = 0xFE then (.ok (.nul t), s1)
      else if confine ∧ off + 1 ≥ end_ then (.ok .beyond, s1)
      else
        match getB M (off + 1) s1 with
        | (.error e, s2) => (.error e, s2)
        | (.ok l0, s2) =>
          if l0 = 255 then
            if confine ∧ off + 4 > end_ then (.ok .beyond, s2)
            else
              match getH M (off + 2) s2 with
              | (.error e, s3) => (.error e, s3)
              | (.ok l, s3) =>
                match readVal M confine skip end_ l (off + 4) [] [] s3 with
                | (.error e, s4) => (.error e, s4)
                | (.ok none, s4) => (.ok .beyond, s4)
                | (.ok (some va), s4) => (.ok (.val t l va.1 va.2 4), s4)
          else
            match readVal M confine skip end_ l0 (off + 2) [] [] s2 with
            | (.error e, s4) => (.error e, s4)
            | (.ok none, s4) => (.ok .beyond, s4)
            | (.ok (some va), s4) => (.ok (.val t l0 va.1 va.2 2), s4)

/-- Type 1: the whole body is inside `try: ... except Type1TagCommandError: return (None, None, None)` -/
def readTlv {σ} (M : Mem σ) (t1 : Bool) (skip : Skip) (end_ off : Nat) (s : σ) : Py TlvR × σ :=
  match readTlvBody M t1 skip end_ off s with
  | (.error e, s') => if t1 ∧ isTagCmd e then (.ok .beyond, s') else (.error e, s')
  | r => r

/-! ## the `while offset < end` loop of `_read_ndef_data` -/

structure Found where
  off : Nat
  skip : Skip
  /-- value of the NDEF message TLV, its addresses, size of the T+L fields -/
  ndef : Option (Bytes × List Nat × Nat)
  deriving Repr

/-- `none` = `return None` from inside the loop -/
def walk {σ} (M : Mem σ) (t1 : Bool) (end_ : Nat) : Nat → Nat → Skip → σ → Py (Option Found) × σ
  | 0, _, _, s => (.error .outOfFuel, s)
  | f+1, off, skip, s =>
    if off ≥ end_ then (.ok (some ⟨off, skip, none⟩), s)
    else if t1 ∧ inSkip skip off then walk M t1 end_ f (off + 1) skip s
    else
      let o := if t1 then off else nextFree skip off
      match readTlv M t1 skip end_ o s with
      | (.error e, s') => if ¬ t1 ∧ isTagCmd e then (.ok none, s') else (.error e, s')
      | (.ok .beyond, s') => (.ok none, s')
      | (.ok (.nul t), s') =>
        if t = 0 then walk M t1 end_ f (o + 1) skip s' else (.ok (some ⟨o, skip, none⟩), s')
      | (.ok (.val t l v as hdr), s') =>
        if t = 3 then (.ok (some ⟨o, skip, some (v, as, hdr)⟩), s')
        else
          let next := o + l + 1 + (if l < 255 then 1 else 3)
          if (t = 1 ∨ t = 2) ∧ l = 3 then
            match ctlRange (t = 1) (if t1 then 0x800 else 0x100000) v with
            | .ok rg => walk M t1 end_ f next (skip ++ [rg]) s'
            | .error e => (.error e, s')
          else walk M t1 end_ f next skip s'

/-- what `tag.ndef` shows -/
structure Ndef where
  length : Nat
  cap : Int
  readable : Bool
  writeable : Bool
  octets : Bytes
  /-- ghost: where the octets were taken from, and the data area `[lo, hi)` -/
  addrs : List Nat
  lo : Nat
  hi : Nat
  deriving Repr

/-- Type 2 (repaired) verifies after the walk that the length field and the value, placed around the
skip bytes, are inside the data area; the Type 1 `read_tlv` has stopped at the end of the area already -/
def fits (t1 : Bool) (skip : Skip) (off hdr end_ len : Nat) : Bool :=
  t1 || (decide (off + hdr ≤ end_) && decide (len ≤ Tlv.countFree skip (off + hdr) end_))

/-- loop + `get_capacity` + the final placement check -/
def finish {σ} (M : Mem σ) (t1 : Bool) (start end_ : Nat) (skip0 : Skip) (rw : Nat) (s : σ) :
    Py (Option Ndef) × σ :=
  match walk M t1 end_ (end_ + 1) start skip0 s with
  | (.error e, s') => (.error e, s')
  | (.ok none, s') => (.ok none, s')
  | (.ok (some fd), s') =>
    match fd.ndef with
    | none => (.ok none, s')
    | some (v, as, hdr) =>
      let cap := capacity fd.skip fd.off end_
      if ¬ fits t1 fd.skip fd.off hdr end_ v.length then (.ok none, s')
      else (.ok (some { length := v.length, cap := cap, readable := decide (rw / 16 = 0),
                        writeable := decide (rw % 16 = 0), octets := v, addrs := as,
                        lo := start, hi := end_ }), s')

/-! ## Type 2 -/

structure S2 where
  w : W
  cache : Bytes
  /-- `tag._current_sector` -/
  sector : Nat
  /-- `bool(tag.target)` -/
  alive : Bool
  deriving Repr

/-- `Type2Tag.transceive(cmd, retries = tries - 1)` -/
def trans2 (t : Tag) (tries : Nat) (cmd : Bytes) (s : S2) : Py Bytes × S2 :=
  if ¬ s.alive then (.error (.tagCmd 0), s)
  else
    match trx t tries s.w cmd with
    | (some r, w') => (.ok r, { s with w := w' })
    | (none, w') => (.error (.tagCmd 0), { s with w := w' })

/-- `Type2Tag.read(page)` -/
def read2 (t : Tag) (page : Nat) (s : S2) : Py Bytes × S2 :=
  match trans2 t 3 [0x30, page % 256] s with
  | (.error e, s') => (.error e, s')
  | (.ok [b], s') =>
    if b &&& 0xFA = 0 then
      -- NAK: sense again, INVALID_PAGE_ERROR or RECEIVE_ERROR
      match xchg t s'.w [] with
      -- (repair 607d752: a tag that was activated again has sector 0 selected, `_current_sector = 0`)
      | (some _, w') => (.error (.tagCmd 2), { s' with w := w', alive := true, sector := 0 })
      | (none, w') => (.error (.tagCmd (-1)), { s' with w := w', alive := false, sector := 0 })
    else (.error (.tagCmd 3), s')
  | (.ok d, s') => if d.length ≠ 16 then (.error (.tagCmd 3), s') else (.ok d, s')

/-- `Type2Tag.sector_select(sector)` -/
def sectorSelect (t : Tag) (sector : Nat) (s : S2) : Py Unit × S2 :=
  if sector = s.sector then (.ok (), s)
  else if sector ≥ 256 then (.error .struct, s)          -- pack('Bxxx', sector)
  else
    match trans2 t 3 [0xC2, 0xFF] s with
    | (.error e, s1) => (.error e, s1)
    | (.ok rsp, s1) =>
      if rsp = [0x0A] then
        match trans2 t 1 [sector, 0, 0, 0] s1 with
        | (.error e, s2) =>
          if e = .tagCmd 0 then (.ok (), { s2 with sector := sector })    -- passive ack
          else (.error e, s2)
        | (.ok _, s2) => (.error (.tagCmd 1), s2)
      else (.error (.tagCmd 1), s1)

/-- `Type2TagMemoryReader._read_from_tag(stop)`, `index` starts at `(len >> 4) << 4` -/
def fill2 (t : Tag) (stop : Nat) : Nat → Nat → S2 → Py Unit × S2
  | 0, _, s => (.error .outOfFuel, s)
  | f+1, index, s =>
    if index ≥ stop then (.ok (), s)
    else
      match sectorSelect t (index / 1024) s with
      | (.error e, s1) => (.error e, s1)
      | (.ok _, s1) =>
        match read2 t (index / 4) s1 with
        | (.error e, s2) => (.error e, s2)
        | (.ok d, s2) => fill2 t stop f (index + 16) { s2 with cache := s2.cache.take index ++ d }

def mem2 (t : Tag) : Mem S2 :=
  { cache := S2.cache,
    ensure := fun stop s => fill2 t stop (stop + 1) (s.cache.length / 16 * 16) s }

/-- `Type2Tag.NDEF._read_ndef_data()`; a fresh memory reader on the tag object's state -/
def readNdef2 (t : Tag) (w : W) (sector : Nat) (alive : Bool) : Py (Option Ndef) × S2 :=
  let s0 : S2 := { w := w, cache := [], sector := sector, alive := alive }
  -- _read_capability_data: the first access reads bytes 0..15
  match getB (mem2 t) 12 s0 with
  | (.error e, s1) => if isTagCmd e then (.ok none, s1) else (.error e, s1)
  | (.ok _, s1) =>
    -- bytes 12..15 are in the cache now
    match idxN s1.cache 12, idxN s1.cache 13, idxN s1.cache 14, idxN s1.cache 15 with
    | .ok c0, .ok c1, .ok c2, .ok c3 =>
      if c0 ≠ 0xE1 then (.ok none, s1)
      else if c1 / 16 ≠ 1 then (.ok none, s1)
      else finish (mem2 t) false 16 (c2 * 8 + 16) [] c3 s1
    | _, _, _, _ => (.error .index, s1)

/-! ## Type 1 -/

structure S1 where
  w : W
  cache : Bytes
  /-- `_header_rom` -/
  hdr : Bytes
  deriving Repr

/-- `Type1Tag.transceive` -/
def trans1 (t : Tag) (cmd : Bytes) (s : S1) : Py Bytes × S1 :=
  match trx t 3 s.w cmd with
  | (some r, w') => (.ok r, { s with w := w' })
  | (none, w') => (.error (.tagCmd 0), { s with w := w' })

def zeros8 : Bytes := [0, 0, 0, 0, 0, 0, 0, 0]

/-- the `while len(self) < stop: read_segment(len(self) >> 7)` part -/
def segLoop (t : Tag) (uid : Bytes) (stop : Nat) : Nat → S1 → Py Unit × S1
  | 0, s => (.error .outOfFuel, s)
  | f+1, s =>
    if s.cache.length ≥ stop then (.ok (), s)
    else
      let seg := s.cache.length / 128
      if seg > 15 then (.error .value, s)
      else
        match trans1 t ([0x10, seg * 16] ++ zeros8 ++ uid) s with
        | (.error e, s1) => (.error e, s1)
        | (.ok rsp, s1) =>
          if rsp.length < 129 then (.error (.tagCmd 2), s1)
          else segLoop t uid stop f { s1 with cache := s1.cache ++ (rsp.drop 1).take 128 }

/-- `if len(self) < 120:` read all static memory (RALL), the answer replaces the cache -/
def stageA (t : Tag) (uid : Bytes) (s : S1) : Py Unit × S1 :=
  if s.cache.length < 120 then
    match trans1 t ([0, 0, 0] ++ uid) s with
    | (.error e, s1) => (.error e, s1)
    | (.ok rsp, s1) =>
      if rsp.length < 2 then (.error (.tagCmd 2), s1)
      else (.ok (), { s1 with hdr := rsp.take 2, cache := rsp.drop 2 })
  else (.ok (), s)

/-- `if stop > 120 and len(self) < 128:` READ8 of block 15, `cache[120:128] = data` -/
def stageB (t : Tag) (uid : Bytes) (stop : Nat) (s1 : S1) : Py Unit × S1 :=
  if stop > 120 ∧ s1.cache.length < 128 then
    match trans1 t ([0x02, 15] ++ zeros8 ++ uid) s1 with
    | (.error e, s2) => (.error e, s2)
    | (.ok rsp, s2) =>
      if rsp.length < 9 then (.error (.tagCmd 2), s2)
      else (.ok (), { s2 with cache := s2.cache.take 120 ++ (rsp.drop 1).take 8 ++ s2.cache.drop 128 })
  else (.ok (), s1)

/-- `Type1TagMemoryReader._read_from_tag(stop)` -/
def fill1 (t : Tag) (uid : Bytes) (stop : Nat) (s : S1) : Py Unit × S1 :=
  match stageA t uid s with
  | (.error e, s1) => (.error e, s1)
  | (.ok _, s1) =>
    match stageB t uid stop s1 with
    | (.error e, s2) => (.error e, s2)
    | (.ok _, s2) => segLoop t uid stop (stop + 1) s2

def mem1 (t : Tag) (uid : Bytes) : Mem S1 := { cache := S1.cache, ensure := fill1 t uid }

/-- `Type1Tag.NDEF._read_ndef_data()` -/
def readNdef1 (t : Tag) (uid : Bytes) (w : W) : Py (Option Ndef) × S1 :=
  let s0 : S1 := { w := w, cache := [], hdr := [] }
  -- Type1TagMemoryReader(tag): _read_from_tag(1)
  match fill1 t uid 1 s0 with
  | (.error e, s1) => if isTagCmd e then (.ok none, s1) else (.error e, s1)
  | (.ok _, s1) =>
    match idxN s1.hdr 0 with
    | .error e => (.error e, s1)
    | .ok h0 =>
      if h0 / 16 ≠ 1 then (.ok none, s1)
      else
        -- tag_memory[8], [9], [11], [10]: each access may read more (a short RALL answer)
        let M := mem1 t uid
        let fail (e : Exc) (s : S1) : Py (Option Ndef) × S1 := if isTagCmd e then (.ok none, s) else (.error e, s)
        match getB M 8 s1 with
        | (.error e, s2) => fail e s2
        | (.ok c0, s2) =>
          if c0 ≠ 0xE1 then (.ok none, s2)
          else
            match getB M 9 s2 with
            | (.error e, s3) => fail e s3
            | (.ok c1, s3) =>
              if c1 / 16 ≠ 1 then (.ok none, s3)
              else
                match getB M 11 s3 with
                | (.error e, s4) => fail e s4
                | (.ok c3, s4) =>
                  match getB M 10 s4 with
                  | (.error e, s5) => fail e s5
                  | (.ok c2, s5) =>
                    let size := (c2 + 1) * 8
                    finish M true 12 size [(104, if size = 120 then 120 else 128)] c3 s5

end NfcVerif.Adv
