import NfcVerif.Model.SnepChannel
/-!
# Connection handover client and server (property C06)

Transcription of `nfc/handover/client.py` (`send_octets`, `recv_octets`) and
`nfc/handover/server.py` (`HandoverServer.serve`) as state machines cut at the
blocking socket calls.  `complete r` stands for "`list(ndef.message_decoder(r,
'strict', {}))` does not raise"; `handler` is `_process_request_data` (decode,
`process_handover_request_message`, encode) at the octet level.

`reset = true` is the repaired server (the reassembly buffer is emptied after
a request was answered); `reset = false` is `serve()` as found, where the
buffer lives as long as the connection (finding F29).
-/
namespace NfcVerif.Handover
open NfcVerif NfcVerif.Chan

structure HCfg where
  /-- server side `socket.getsockopt(SO_SNDMIU)` -/
  smiu : Nat
  complete : Bytes → Bool
  handler : Bytes → Bytes
  reset : Bool := true

/-- structural reading of an NDEF message prefix, used to instantiate `complete` in
the model driver and in the non-vacuity examples: records are walked by their
length fields until the one carrying the ME flag; true iff all of them are
present in full.  The empty string decodes (to no records) without error. -/
def ndefWalk : Nat → Bytes → Bool
  | 0, _ => false
  | fuel + 1, d =>
    match d with
    | [] => false
    | flags :: rest =>
      let sr := (flags / 16) % 2 = 1
      let il := (flags / 8) % 2 = 1
      let me := (flags / 64) % 2 = 1
      let nlen := 1 + (if sr then 1 else 4) + (if il then 1 else 0)
      if rest.length < nlen then false
      else
        let tl := rest.headD 0
        let pl := if sr then (rest.drop 1).headD 0 else beNat ((rest.drop 1).take 4)
        let idl := if il then (rest.drop (if sr then 2 else 5)).headD 0 else 0
        let total := nlen + tl + pl + idl
        if rest.length < total then false
        else if me then true
        else ndefWalk fuel (rest.drop total)

def ndefComplete (d : Bytes) : Bool := d = [] || ndefWalk d.length d

/-! ## Server: `serve()` -/

inductive HS
  /-- waiting in `socket.poll("recv")` with `request` as collected so far -/
  | collecting (request : Bytes)
  | closed
  deriving DecidableEq, Repr, Inhabited

def srvOnRecv (cfg : HCfg) : HS → Bytes → HS × List Bytes × List Bytes
  | .collecting request, m =>
    let r := request ++ m
    if r = [] then (.collecting r, [], [])              -- need some data
    else if cfg.complete r = false then (.collecting r, [], [])   -- need more data
    else
      (.collecting (if cfg.reset then [] else r), chunks cfg.smiu (cfg.handler r), [r])
  | .closed, _ => (.closed, [], [])

def swait : HS → Bool
  | .collecting _ => true
  | .closed => false

/-! ## Client: `send_octets()` then `recv_octets()` -/

inductive HC
  | idle
  /-- in `socket.poll("recv", timeout)` of `recv_octets` with `octets` so far -/
  | collecting (octets : Bytes)
  | done (r : Option Bytes)
  deriving DecidableEq, Repr, Inhabited

def cliOnRecv (complete : Bytes → Bool) : HC → Bytes → HC × List Bytes
  | .collecting octets, m =>
    if complete (octets ++ m) then (.done (some (octets ++ m)), [])
    else (.collecting (octets ++ m), [])
  | st, _ => (st, [])

def cwait : HC → Bool
  | .collecting _ => true
  | _ => false

abbrev HNet := Net HC HS Bytes

def proto (cfg : HCfg) : Proto HC HS Bytes :=
  { srv := srvOnRecv cfg, cli := cliOnRecv cfg.complete, cwait := cwait, swait := swait }

def init : HNet := { cst := .idle, sst := .collecting [] }

/-- `client.send_octets(msg)` (all fragments, no handshake) followed by `client.recv_octets(timeout)` -/
def startReq (cmiu : Nat) (n : HNet) (msg : Bytes) : HNet :=
  { n with cst := .collecting [], c2s := n.c2s ++ chunks cmiu msg, logC := n.logC ++ chunks cmiu msg }

def runReq (cfg : HCfg) (cmiu fuel : Nat) (n : HNet) (msg : Bytes) : HNet :=
  pump (proto cfg) fuel (startReq cmiu n msg)

/-- `recv_octets` result once the network is quiet (`None` = timeout) -/
def result (n : HNet) : Option Bytes :=
  match n.cst with
  | .done r => r
  | _ => none

/-- several handover requests on one connection -/
def runReqs (cfg : HCfg) (cmiu fuel : Nat) : HNet → List Bytes → List (Option Bytes) × HNet
  | n, [] => ([], n)
  | n, m :: rest =>
    let n1 := runReq cfg cmiu fuel n m
    let r := runReqs cfg cmiu fuel { n1 with cst := .idle } rest
    (result n1 :: r.1, r.2)

/-- the handover server on any sequence of incoming messages -/
def srvFeed (cfg : HCfg) : HS → List Bytes → HS × List Bytes × List Bytes
  | st, [] => (st, [], [])
  | st, m :: rest =>
    if swait st then
      let r := srvOnRecv cfg st m
      let r2 := srvFeed cfg r.1 rest
      (r2.1, r.2.1 ++ r2.2.1, r.2.2 ++ r2.2.2)
    else srvFeed cfg st rest

/-- `recv_octets` on whatever a peer has queued: result and what is left in the socket -/
def cliFeed (complete : Bytes → Bool) : HC → List Bytes → HC × List Bytes
  | st, [] => (st, [])
  | st, m :: rest =>
    if cwait st then cliFeed complete (cliOnRecv complete st m).1 rest
    else (st, m :: rest)

/-! ## NDEF messages as record lists

What `ndef.message_encoder` produces, at the level `ndefWalk` reads: a flags octet (MB, ME, CF,
SR, IL, TNF), TYPE LENGTH, PAYLOAD LENGTH (1 octet with SR, else 4), ID LENGTH (only with IL),
then TYPE, ID, PAYLOAD.  MB is set on the first record, ME on the last one only. -/

structure Rec where
  tnf : Nat
  /-- chunk flag (not used by ndeflib's encoder, not looked at by the walk) -/
  cf : Bool := false
  /-- short record: 1-octet payload length -/
  sr : Bool
  typ : Bytes
  /-- `some id`: IL flag set, ID LENGTH and ID present -/
  id : Option Bytes
  payload : Bytes
  deriving DecidableEq, Repr, Inhabited

def Rec.wf (r : Rec) : Prop :=
  r.tnf < 8 ∧ r.typ.length < 256 ∧ (r.id.getD []).length < 256 ∧
  (if r.sr then r.payload.length < 256 else r.payload.length < 2 ^ 32)

instance (r : Rec) : Decidable r.wf := by unfold Rec.wf; infer_instance

def flagsOf (mb me : Bool) (r : Rec) : Nat :=
  (if mb then 128 else 0) + (if me then 64 else 0) + (if r.cf then 32 else 0) +
  (if r.sr then 16 else 0) + (if r.id.isSome then 8 else 0) + r.tnf

def encRec (mb me : Bool) (r : Rec) : Bytes :=
  flagsOf mb me r :: r.typ.length ::
    ((if r.sr then [r.payload.length] else toBE 4 r.payload.length) ++
     (match r.id with | some i => [i.length] | none => []) ++
     (r.typ ++ ((r.id.getD []) ++ r.payload)))

def encMsgAux (mb : Bool) : List Rec → Bytes
  | [] => []
  | [r] => encRec mb true r
  | r :: r' :: rs => encRec mb false r ++ encMsgAux false (r' :: rs)

/-- `b"".join(ndef.message_encoder(records))` -/
def encMsg (rs : List Rec) : Bytes := encMsgAux true rs

end NfcVerif.Handover
