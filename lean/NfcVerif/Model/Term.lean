import NfcVerif.Py
/-!
# C09 - wait structures of the blocking LLCP socket calls and the end of the link

Transcribed from `src/nfc/llcp/tco.py` (RawAccessPoint, LogicalDataLink,
DataLinkConnection, TransmissionControlObject) and `src/nfc/llcp/llc.py`
(the socket API of LogicalLinkController, ServiceDiscovery.resolve,
terminate, ServiceAccessPoint.shutdown) as REPAIRED by fixes/C09.

A call of the socket API is a small state machine over *scheduling points*:
outermost lock acquisitions (where the link thread may run first) and waits on
a condition variable.  `start`/`exec` run one thread from a scheduling point
to the next one or to the end of the call (`Step.done`).  Between two
scheduling points of the thread the world may change (`Act`): the link
terminates, a PDU arrives, a wake-up without change, nothing.
-/
namespace NfcVerif.Term

inductive Kind | raw | ldl | dlc deriving DecidableEq, Repr
inductive St | shutdown | closed | listen | connect | established | disconnect | closeWait
  deriving DecidableEq, Repr
/-- kind of a queued PDU (only the name is looked at by the calls) -/
inductive PduK | i | disc | connect | cc | dm | ui | rr | frmr deriving DecidableEq, Repr
/-- the condition variables: four per socket, `resp` of the service discovery SAP -/
inductive Cv | sendReady | recvReady | acksReady | sendToken | resp deriving DecidableEq, Repr

structure Sock where
  kind : Kind
  st : St
  bound : Bool            -- addr is not None
  recvQ : List PduK
  sendQ : List PduK
  sendBuf : Nat
  recvBuf : Nat
  sendMiu : Nat
  sendWin : Nat
  sendCnt : Nat
  sendAck : Nat
  acks : Nat              -- acks_recvd
  recvConfs : Nat
  recvWin : Nat
  deriving DecidableEq, Repr

/-- one socket and what the calls read of its controller -/
structure World where
  s : Sock
  registered : Bool       -- the socket is in sock_list of llc.sap[addr]
  sapAlive : Bool         -- llc.sap[addr] is not None (for the address of the socket)
  sapOthers : Bool        -- other sockets share the service access point
  terminated : Bool       -- llc.terminated
  sdAlive : Bool          -- llc.sap[1] is not None (then its snl is not None)
  resolved : Bool         -- the name asked for is in the snl of the service discovery SAP
  viaSap : Bool           -- local variable of the calling thread: close() goes through the service access point
  /-- which tree is modelled: DataLinkConnection.close() discards unread data before it waits for the DM
      (fixes/C05/0002); false = the code before that repair.  Every theorem holds for both values. -/
  closeClearsRecv : Bool := true
  deriving DecidableEq, Repr

inductive Ev | recv | send | acks | bogus deriving DecidableEq, Repr

/-- calls of nfc.llcp.Socket -/
inductive Call
  | send (dontwait : Bool) (len : Nat)     -- send (dlc, raw) / sendto (ldl)
  | recv
  | accept | connect | listen | close | bind
  | poll (ev : Ev) (timeout : Bool)
  | resolve
  deriving DecidableEq, Repr

inductive Val | none | bool (b : Bool) | data | sock | nat (n : Nat) deriving DecidableEq, Repr

/-- scheduling points of a thread inside a call -/
inductive Pt
  | bindAcq      -- llc.lock for the implicit or explicit bind
  | sockAcq      -- the socket lock for the body of the call
  | llcAcq       -- llc.lock: resolve body, accept insert, close remove
  | wTcoRecv     -- recv_ready.wait() in TransmissionControlObject.recv
  | wTcoSend     -- send_ready.wait() in TransmissionControlObject.send
  | wWindow      -- send_token.wait() in DataLinkConnection.send
  | wPollRecv | wPollSend | wPollAcks
  | wResolve     -- resp.wait() in ServiceDiscovery.resolve
  deriving DecidableEq, Repr

def Pt.isWait : Pt → Bool
  | .bindAcq | .sockAcq | .llcAcq => false
  | _ => true

/-- the condition variable a waiting point waits on -/
def Pt.cv : Pt → Cv
  | .wTcoRecv | .wPollRecv => .recvReady
  | .wTcoSend | .wPollSend => .sendReady
  | .wWindow => .sendToken
  | .wPollAcks => .acksReady
  | .wResolve => .resp
  | _ => .resp

inductive Step
  | done (r : Py Val) (w : World)
  | at (p : Pt) (w : World)
  deriving Repr

def EBADF := 9
def EAGAIN := 11
def EINVAL := 22
def EPIPE := 32
def EDESTADDRREQ := 89
def EMSGSIZE := 90
def EOPNOTSUPP := 95
def EISCONN := 106
def ENOTCONN := 107
def ESHUTDOWN := 108
def EALREADY := 114

def Sock.isEst (s : Sock) : Bool := s.st == .established
def Sock.estOrCw (s : Sock) : Bool := s.st == .established || s.st == .closeWait
/-- send_window_slots = (RW(R) - V(S) + V(SA)) mod 16 -/
def Sock.slots (s : Sock) : Nat := (((s.sendWin : Int) - s.sendCnt + s.sendAck) % 16).toNat

def raise (n : Nat) (w : World) : Step := .done (.error (.llcp n)) w
def ret (v : Val) (w : World) : Step := .done (.ok v) w
def withS (w : World) (s : Sock) : World := { w with s := s }

/-- TransmissionControlObject.close: queues cleared, state SHUTDOWN -/
def tcoClose (s : Sock) : Sock := { s with sendQ := [], recvQ := [], st := .shutdown }

/-- what `recv` does with a PDU taken from the receive queue (after TransmissionControlObject.recv) -/
def recvGot (w : World) (k : PduK) (rest : List PduK) : Step :=
  let s := { w.s with recvQ := rest }
  match s.kind with
  | .raw | .ldl => ret .data (withS w s)
  | .dlc =>
    if k = .i then
      (let s1 := { s with recvConfs := s.recvConfs + 1 }
       if s1.recvConfs > s1.recvWin then .done (.error .runtime) (withS w s1) else ret .data (withS w s1))
    else if k = .disc then
      -- self.close(); a DISC is only ever queued locally in state CLOSE_WAIT (tco.py:704-706), the
      -- handshake of close() in state ESTABLISHED inside recv() is outside the modelled domain
      (if s.isEst ∧ s.bound then .done (.error .assertion) (withS w s) else ret .none (withS w (tcoClose s)))
    else .done (.error .runtime) (withS w s)

def acceptGot (w : World) (k : PduK) (rest : List PduK) : Step :=
  let s := { w.s with recvQ := rest, recvBuf := w.s.recvBuf - 1 }
  if k = .connect then .at .llcAcq (withS w { s with sendQ := s.sendQ ++ [.cc] })
  else .done (.error .runtime) (withS w s)

def connectGot (w : World) (k : PduK) (rest : List PduK) : Step :=
  let s := { w.s with recvQ := rest }
  if k = .dm then .done (.error .connectRefused) (withS w { s with st := .closed })
  else if k = .cc then ret .none (withS w { s with st := .established, recvBuf := s.recvWin, sendMiu := 128, sendWin := 1 })
  else .done (.error .runtime) (withS w s)

/-- the end of DataLinkConnection.close / the whole of the other close methods; then the
    service access point forgets the socket (ServiceAccessPoint.remove_socket) -/
def closeFinish (w : World) : Step :=
  let w1 := withS w (tcoClose w.s)
  if w.viaSap then .at .llcAcq w1 else ret .none w1

/-- DataLinkConnection.send after the window wait loop -/
def dlcSendTail (dontwait : Bool) (w : World) : Step :=
  if w.s.isEst then
    (let s := { w.s with sendQ := w.s.sendQ ++ [.i], sendCnt := (w.s.sendCnt + 1) % 16 }
     if dontwait then ret (.bool true) (withS w s) else .at .wTcoSend (withS w s))
  else ret (.bool false) w

def dlcSendLoop (dontwait : Bool) (w : World) : Step :=
  if w.s.slots = 0 ∧ w.s.isEst then
    (if dontwait then raise EAGAIN w else .at .wWindow w)
  else dlcSendTail dontwait w

def resolveLoop (w : World) : Step :=
  if w.sdAlive ∧ ¬ w.resolved then .at .wResolve w
  else if w.sdAlive then ret (.nat 17) w else ret .none w

/-- explicit / implicit bind with llc.lock held (address None: always one free in the runs) -/
def doBind (w : World) : Py World :=
  if w.terminated then .error (.llcp ESHUTDOWN)
  else .ok { w with s := { w.s with bound := true }, registered := true, sapAlive := true, sapOthers := false }

def takeRecv (w : World) (got : World → PduK → List PduK → Step) : Step :=
  match w.s.recvQ with
  | k :: r => got w k r
  | [] => .at .wTcoRecv w

def bodyRecv (w : World) : Step :=
  if w.s.kind = .dlc then
    (if ¬ w.s.estOrCw then raise ENOTCONN w else takeRecv w recvGot)
  else
    (if w.s.st = .shutdown then raise ESHUTDOWN w else takeRecv w recvGot)

def bodySend (dw : Bool) (len : Nat) (w : World) : Step :=
  let s := w.s
  if s.kind = .dlc then
    (if ¬ s.isEst then (if s.st = .closeWait then raise EPIPE w else raise ENOTCONN w)
     else if len > s.sendMiu then raise EMSGSIZE w
     else dlcSendLoop dw w)
  else if s.st = .shutdown then raise ESHUTDOWN w
  else if s.kind = .ldl ∧ len > s.sendMiu then raise EMSGSIZE w
  else
    (let s1 := { s with sendQ := s.sendQ ++ [.ui] }
     if dw then ret (.bool s1.isEst) (withS w s1) else .at .wTcoSend (withS w s1))

def bodyAccept (w : World) : Step :=
  if w.s.st = .shutdown then raise ESHUTDOWN w
  else if w.s.st ≠ .listen then raise EINVAL w
  else takeRecv (withS w { w.s with recvBuf := w.s.recvBuf + 1 }) acceptGot

def bodyConnect (w : World) : Step :=
  let s := w.s
  if s.kind = .raw then .done (.error .assertion) w       -- not reached: see `start`
  else if s.kind = .ldl then ret .none w        -- the state was tested before the lock was taken (see `start`)
  else if s.st ≠ .closed then
    (if s.st = .established then raise EISCONN w
     else if s.st = .connect then raise EALREADY w else raise EPIPE w)
  else takeRecv (withS w { s with st := .connect, sendQ := s.sendQ ++ [.connect] }) connectGot

def bodyListen (w : World) : Step :=
  if w.s.st = .shutdown then raise ESHUTDOWN w
  else if w.s.st ≠ .closed then raise EOPNOTSUPP w
  else ret .none (withS w { w.s with st := .listen, recvBuf := 2 })

def closeGot (w : World) (_k : PduK) (r : List PduK) : Step := closeFinish (withS w { w.s with recvQ := r })

def bodyClose (w : World) : Step :=
  if w.s.kind = .dlc ∧ w.s.isEst ∧ w.s.bound then
    -- unsent PDUs are discarded, then the DISC is queued (tco.py: send_queue.clear() before the append);
    -- as repaired by fixes/C05/0002 unread data is discarded too, so that close() always waits for the DM
    takeRecv (withS w { w.s with st := .disconnect, sendQ := [.disc],
                                 recvQ := if w.closeClearsRecv then [] else w.s.recvQ }) closeGot
  else closeFinish w

def pollRecvNow (w : World) : Step :=
  match w.s.recvQ with
  | k :: _ => ret (.bool (w.s.kind ≠ .dlc || k == .i)) w
  | [] => .at .wPollRecv w

def bodyPoll (ev : Ev) (w : World) : Step :=
  let s := w.s
  if s.st = .shutdown then raise ESHUTDOWN w
  else if s.kind = .dlc then
    (match ev with
     | .recv => if s.estOrCw then pollRecvNow w else ret .none w
     | .send =>
       if s.isEst then (if s.sendQ.length ≥ s.sendBuf then .at .wPollSend w else ret (.bool true) w)
       else ret .none w
     | .acks =>
       if s.acks > 0 then ret (.bool true) (withS w { s with acks := s.acks - 1 }) else .at .wPollAcks w
     | .bogus => raise EINVAL w)
  else
    (match ev with
     | .recv => pollRecvNow w
     | .send => if s.sendQ.length ≥ s.sendBuf then .at .wPollSend w else ret (.bool true) w
     | .acks => raise EINVAL w
     | .bogus => raise EINVAL w)

/-- body of a call with the socket lock held (first entry) -/
def body (c : Call) (w : World) : Step :=
  match c with
  | .recv => bodyRecv w
  | .send dw len => bodySend dw len w
  | .accept => bodyAccept w
  | .connect => bodyConnect w
  | .listen => bodyListen w
  | .close => bodyClose w
  | .poll ev _ => bodyPoll ev w
  | .bind => ret .none w
  | .resolve => ret .none w

/-- the call with its checks made before the first lock is taken -/
def start (c : Call) (w : World) : Step :=
  let s := w.s
  match c with
  | .recv => if ¬ (s.bound ∧ w.sapAlive) then raise EBADF w else .at .sockAcq w
  | .poll _ _ => if ¬ (s.bound ∧ w.sapAlive) then raise EBADF w else .at .sockAcq w
  | .send _ _ =>
    (match s.kind with
     | .dlc => .at .sockAcq w
     | _ => if s.bound then .at .sockAcq (withS w { s with sendMiu := 248 }) else .at .bindAcq w)
  | .accept => if s.kind ≠ .dlc then raise EOPNOTSUPP w else .at .sockAcq w
  | .connect =>
    -- RawAccessPoint has no connect method: AttributeError (after the implicit bind)
    -- LogicalDataLink.connect tests for SHUTDOWN before it takes the lock (it never waits)
    if s.bound then
      (if s.kind = .raw then .done (.error .attr) w
       else if s.kind = .ldl ∧ s.st = .shutdown then raise ESHUTDOWN w else .at .sockAcq w)
    else .at .bindAcq w
  | .listen =>
    if s.kind ≠ .dlc then raise EOPNOTSUPP w
    else if s.bound then .at .sockAcq w else .at .bindAcq w
  | .close => .at .sockAcq { w with viaSap := s.bound && w.sapAlive }
  | .bind => if s.bound then raise EINVAL w else .at .bindAcq w
  | .resolve => if w.sdAlive then .at .llcAcq w else ret .none w

/-- continue call `c` of a thread that stands at scheduling point `p`, in the world as it is now -/
def exec (c : Call) (p : Pt) (w : World) : Step :=
  let s := w.s
  match p with
  | .bindAcq =>
    (match doBind w with
     | .error e => .done (.error e) w
     | .ok w1 =>
       match c with
       | .bind => ret .none w1
       | .connect =>
         if s.kind = .raw then .done (.error .attr) w1
         else if s.kind = .ldl ∧ s.st = .shutdown then raise ESHUTDOWN w1 else .at .sockAcq w1
       | .send _ _ => .at .sockAcq (withS w1 { w1.s with sendMiu := 248 })
       | _ => .at .sockAcq w1)
  | .sockAcq => body c w
  | .llcAcq =>
    (match c with
     | .resolve => if ¬ w.sdAlive then ret .none w else if w.resolved then ret (.nat 17) w else resolveLoop w
     | .accept => if w.sapAlive then ret .sock w else raise EPIPE w
     | .close => ret .none { w with registered := false, sapAlive := w.sapOthers && w.sapAlive }
     | _ => .done (.error .assertion) w)
  | .wTcoRecv =>
    (match c with
     | .recv =>
       (match s.recvQ with
        | k :: r => recvGot w k r
        | [] => if s.kind = .dlc then ret .none w else raise EPIPE w)
     | .accept => (match s.recvQ with | k :: r => acceptGot w k r | [] => raise EPIPE w)
     | .connect => (match s.recvQ with | k :: r => connectGot w k r | [] => raise EPIPE w)
     | .close => (match s.recvQ with | k :: r => closeGot w k r | [] => closeFinish w)
     | _ => .done (.error .assertion) w)
  | .wTcoSend => ret (.bool s.isEst) w
  | .wWindow => dlcSendLoop false w
  | .wPollRecv =>
    (match s.kind with
     | .dlc => if s.estOrCw then (match s.recvQ with | k :: _ => ret (.bool (k == .i)) w | [] => ret (.bool false) w)
               else ret .none w
     | _ => ret (.bool (s.recvQ ≠ [])) w)
  | .wPollSend =>
    (match s.kind with
     | .dlc => if s.sendQ.length < s.sendBuf then ret (.bool s.isEst) w else ret (.bool false) w
     | _ => ret (.bool true) w)
  | .wPollAcks =>
    if s.acks > 0 then ret (.bool true) (withS w { s with acks := s.acks - 1 }) else ret (.bool false) w
  | .wResolve => resolveLoop w

/-! ## the end of the link -/

/-- condition variables notified by `close()` of a socket of kind `k` -/
def closeNotifies : Kind → List Cv
  | .dlc => [.sendReady, .recvReady, .acksReady, .sendToken]
  | _ => [.sendReady, .recvReady]

/-- LogicalLinkController.terminate: every service access point is shut down (each socket
    unbound and closed), the table emptied, service discovery shut down (snl None + notify) -/
def terminate (w : World) : World × List Cv :=
  let s1 := if w.registered then tcoClose { w.s with bound := false } else w.s
  ({ w with s := s1, registered := false, sapAlive := false, sapOthers := false, terminated := true,
            sdAlive := false },
   (if w.registered then closeNotifies w.s.kind else []) ++ (if w.sdAlive then [.resp] else []))

/-- what may happen while the thread stands at a scheduling point -/
inductive Act
  | none                 -- nothing ('-' / 'N')
  | term                 -- 'T' the link terminates
  | spurious             -- 'S' every condition variable notified, nothing changed
  | queue (k : PduK)     -- 'Q' a PDU is put into the receive queue, recv_ready.notify
  | ack                  -- 'A' an acknowledgement opens the send window
  | dequeue              -- 'D' the link thread takes a PDU from the send queue, send_ready.notify
  | resolved             -- 'R' the peer answered the service name lookup
  deriving DecidableEq, Repr

def applyAct (a : Act) (w : World) : World × List Cv :=
  match a with
  | .none => (w, [])
  | .term => terminate w
  | .spurious => (w, [.sendReady, .recvReady, .acksReady, .sendToken] ++ (if w.sdAlive then [.resp] else []))
  | .queue k => (withS w { w.s with recvQ := w.s.recvQ ++ [k] }, [.recvReady])
  | .ack => (withS w { w.s with acks := w.s.acks + 1, sendAck := (w.s.sendAck + 1) % 16 }, [.acksReady, .sendToken])
  | .dequeue => (withS w { w.s with sendQ := w.s.sendQ.tail }, [.sendReady])
  | .resolved => if w.sdAlive then ({ w with resolved := true }, [.resp]) else (w, [])

/-- outcome of a whole call under a script of actions -/
inductive Outcome
  | finished (r : Py Val) (w : World)
  | hang (cv : Cv) (w : World)         -- waits without timeout and nothing notified the condition variable
  | fuel
  deriving Repr

def callTimeout : Call → Bool
  | .poll _ t => t
  | _ => false

/-- run call `c` from step `st`; one action of the script happens at each scheduling point -/
def run (c : Call) : Nat → Step → List Act → Outcome
  | _, .done r w, _ => .finished r w
  | 0, .at _ _, _ => .fuel
  | n + 1, .at p w, script =>
    let a := script.headD .none
    let (w1, notified) := applyAct a w
    if p.isWait then
      (if notified.contains p.cv || callTimeout c then run c n (exec c p w1) script.tail
       else .hang p.cv w1)
    else run c n (exec c p w1) script.tail

/-! ## run loops (llc.py run_as_initiator / run_as_target), as repaired -/

inductive Cause
  | remoteDisc            -- DISC(0,0) received
  | exchangeNone          -- exchange() returned None (time-out, broken link, undecodable frame)
  | terminateCb           -- the terminate callback returned true
  | keyboardInterrupt
  | ioError
  | ioErrorPersistent     -- the device is gone: the deactivation inside terminate() raises IOError again
  | keyAgreementError | decryptionError | encryptionError
  | otherException        -- any other exception raised inside the loop
  deriving DecidableEq, Repr

inductive Leave | returns | raisesKeyboardInterrupt | raisesSystemExit | raisesIOError | reraises
  deriving DecidableEq, Repr

structure LoopEnd where
  terminateCalled : Bool
  leave : Leave
  deriving DecidableEq, Repr

inductive Role | initiator | target deriving DecidableEq, Repr

/-- where in the run loop the cause strikes: the DPS exchange(s) of the key agreement, the first
    collect() of the initiator / first exchange of the target (both before `link.ESTABLISHED`),
    or any later exchange -/
inductive LoopPt | dps | first | established deriving DecidableEq, Repr

/-- LogicalLinkController.link -/
inductive Link | connected | established | shutdown deriving DecidableEq, Repr

/-- activate() leaves the link CONNECTED; the loops set ESTABLISHED after the first collect
    (initiator) / first exchange (target) -/
def linkAt : LoopPt → Link
  | .dps => .connected
  | .first => .connected
  | .established => .established

/-- the `finally` clause: `if not self.link.SHUTDOWN: self.terminate(...)` -/
def finallyTerminates (l : Link) : Bool := l != .shutdown

/-- the cause is answered inside the try block (`return self.terminate(...)`, the `else` of the
    while loop) or by an except clause that calls terminate() -/
def handlerTerminates : Cause → Bool
  | .otherException => false
  | _ => true

def leaveOf : Cause → Leave
  | .remoteDisc | .exchangeNone | .terminateCb => .returns
  | .keyboardInterrupt => .raisesKeyboardInterrupt
  | .ioError | .keyAgreementError | .decryptionError | .encryptionError => .raisesSystemExit
  | .ioErrorPersistent => .raisesIOError      -- terminate() raises inside the handler, after the local shutdown
  | .otherException => .reraises

/-- the try/except/finally structure of the run loops: whether `terminate()` is executed and how
    the loop is left, for a cause striking at a point of the loop (same table for both roles) -/
def loopEnd (_r : Role) (pt : LoopPt) (c : Cause) : LoopEnd :=
  ⟨handlerTerminates c || finallyTerminates (linkAt pt), leaveOf c⟩

/-- ContactlessFrontend.connect around llc.run: IOError, UnsupportedTargetError and
    KeyboardInterrupt are caught (return False); everything else passes -/
inductive ConnectEnd | returns | raisesSystemExit | reraises deriving DecidableEq, Repr

def connectEnd (r : Role) (pt : LoopPt) (c : Cause) : ConnectEnd :=
  match (loopEnd r pt c).leave with
  | .returns => .returns
  | .raisesKeyboardInterrupt => .returns
  | .raisesSystemExit => .raisesSystemExit
  | .raisesIOError => .returns
  | .reraises => .reraises

/-! ## terminate() as a sequence of steps, interleaved with a bind() of an application thread -/

inductive TStep | setFlag | shut (i : Nat) deriving DecidableEq, Repr

/-- `with self.lock: self.terminated = True`, then the service access points 63 .. 0 -/
def termSteps : List TStep := .setFlag :: ((List.range 64).reverse.map .shut)

/-- the wrong order (flag after the loop), for the counter-example -/
def termStepsFlagLast : List TStep := ((List.range 64).reverse.map .shut) ++ [.setFlag]

inductive LateBind | refused | shutDown | leaked deriving DecidableEq, Repr

/-- an application thread binds a socket to address `a` after `k` steps of terminate():
    refused (ESHUTDOWN), shut down by the rest of the loop, or never shut down -/
def lateBind (steps : List TStep) (k a : Nat) : LateBind :=
  if (steps.take k).contains .setFlag then .refused
  else if (steps.drop k).contains (.shut a) then .shutDown else .leaked

/-- `terminate()` itself: the deactivation of the MAC may raise (dead device); the local
    shutdown is in a `finally` clause -/
def terminateShutsDown (_deactivateRaises : Bool) : Bool := true

/-! ## service threads (snep/server.py, handover/server.py) -/

/-- result classes of a socket call as seen by the service loops -/
inductive R | value (truthy : Bool) | llcpError | otherExc deriving DecidableEq, Repr

def classify : Py Val → R
  | .ok (.bool b) => .value b
  | .ok .none => .value false
  | .ok _ => .value true
  | .error (.llcp _) => .llcpError
  | .error .connectRefused => .llcpError
  | .error _ => .otherExc

/-- program points of the service threads -/
inductive SPt
  | listenAccept          -- `_listen`/`listen`: client = socket.accept()
  | servePoll             -- `_serve`/`serve`: while socket.poll('recv')
  | serveRecv             -- data = socket.recv()
  | serveSend             -- socket.send(response)
  | finallyClose          -- finally: socket.close()
  | exited
  deriving DecidableEq, Repr

/-- the two servers: `SnepServer._serve` ignores the result of `send()`, `HandoverServer.serve`
    returns when `send()` is false -/
inductive Srv | snep | handover deriving DecidableEq, Repr

/-- one step of a service thread given the result of the socket call it makes at that point -/
def serviceStep (srv : Srv) : SPt → R → SPt
  | .listenAccept, .value _ => .listenAccept     -- start a serve thread, accept again
  | .listenAccept, _ => .finallyClose            -- llcp.Error handled, other exceptions pass the finally
  | .servePoll, .value true => .serveRecv
  | .servePoll, _ => .finallyClose               -- false/None ends the loop, exceptions pass the finally
  | .serveRecv, .value true => .serveSend
  | .serveRecv, _ => .finallyClose               -- None: TypeError (bytearray(None) / request += None); errors
  | .serveSend, .value true => .servePoll
  | .serveSend, .value false =>                  -- the connection is no longer established
    (match srv with
     | .snep => .servePoll                       -- result not looked at: next poll('recv')
     | .handover => .finallyClose)               -- `if not socket.send(fragment): return`
  | .serveSend, _ => .finallyClose
  | .finallyClose, _ => .exited
  | .exited, _ => .exited

/-- the socket call made at a point -/
def SPt.call : SPt → Call
  | .listenAccept => .accept
  | .servePoll => .poll .recv false
  | .serveRecv => .recv
  | .serveSend => .send false 6
  | _ => .close

/-- result of a call started after the link has terminated (no further action happens) -/
def resultAfter (c : Call) (w : World) : Option (Py Val) :=
  match run c 8 (start c w) [] with
  | .finished r _ => some r
  | _ => none

/-- the thread of call `c` makes `k` scheduling steps during which nothing else happens
    (`none` when the call is over or blocks for ever before that) -/
def advance (c : Call) : Nat → Step → Option Step
  | 0, s => some s
  | _ + 1, .done _ _ => none
  | k + 1, .at p w => if p.isWait && !callTimeout c then none else advance c k (exec c p w)

def serviceRun (srv : Srv) (w : World) : Nat → SPt → SPt
  | 0, p => p
  | n + 1, p =>
    match resultAfter p.call w with
    | some r => serviceRun srv w n (serviceStep srv p (classify r))
    | none => p

end NfcVerif.Term
