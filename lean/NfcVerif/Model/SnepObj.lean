import NfcVerif.Model.Snep
import NfcVerif.Model.Handover
/-!
# The client OBJECTS over their life time (property C06)

`Model/Snep.lean` / `Model/Handover.lean` describe one data link connection.  An application
holds one `SnepClient` / `HandoverClient` object and uses it for a whole history of calls:
requests over a *temporary* connection to the default server (`put_octets` / `get_octets` while
`self.socket` is `None`: connect to `urn:nfc:sn:snep`, one request, close), `connect(service)`
to a named service followed by any number of requests, `close()`, and so on.  What the object
carries from call to call is modelled here: `self.socket` (which service the object is connected
to and the state of that connection), `self.send_miu`, `self.acceptable_length` and
`self.release_connection`.

The peer offers a list of SNEP services (`World`, index 0 is the default server
`urn:nfc:sn:snep`); every `connect` gives a fresh connection (a new `_serve` thread in state
`idle`).  Ghost fields record which service application saw which message (`dl`) and the
connections opened and closed.

`sticky = false` is `snep/client.py` as it is: every `put_octets` / `get_octets` sets
`release_connection` (`True` for a temporary connection, `False` otherwise).  `sticky = true` is
the defect class in which the flag is only ever raised (C06-r4m1).

`connect()` to a service the peer does not offer is not part of the histories considered (the
code then leaves an unconnected socket object in `self.socket`); the step function answers
`refused` and leaves the object unconnected.
-/
namespace NfcVerif.SnepObj
open NfcVerif NfcVerif.Chan NfcVerif.Snep

/-- a SNEP service of the peer -/
structure Svc where
  cfg : SCfg
  /-- `SO_SNDMIU` of a client socket connected to this service -/
  cmiu : Nat

abbrev World := List Svc

structure Conn where
  svc : Nat
  net : SNet

structure Obj where
  /-- `self.acceptable_length` -/
  acc : Nat
  /-- `self.socket` -/
  sock : Option Conn := none
  /-- `self.send_miu` (keeps its value after `close()`) -/
  sendMiu : Nat := 0
  /-- `self.release_connection` -/
  release : Bool := false
  /-- ghost: (service, kind, octets) in the order the service applications were called -/
  dl : List (Nat × Op × Bytes) := []
  /-- ghost: services connected to, in order -/
  opened : List Nat := []
  /-- ghost: connections closed by the client, in order -/
  closed : List Nat := []
  /-- ghost: every request so far ran until nothing was deliverable any more (enough fuel) -/
  rest : Bool := true
  /-- ghost: messages handed to sockets so far (shows which `send_miu` the requests were fragmented with) -/
  sent : Nat := 0

inductive HOp
  | connect (svc : Nat)
  | close
  | req (op : Op) (octets : Bytes)
  deriving DecidableEq, Repr, Inhabited

inductive HRes
  | unit
  | refused
  | res (r : CRes)
  deriving DecidableEq, Repr, Inhabited

/-- `SnepClient.close()` -/
def close (w : World) (o : Obj) : Obj :=
  match o.sock with
  | none => o
  | some c =>
    match w[c.svc]? with
    | none => { o with sock := none, closed := o.closed ++ [c.svc] }
    | some s =>
      let r := srvOnClose s.cfg c.net.sst
      { o with sock := none, closed := o.closed ++ [c.svc], dl := o.dl ++ r.2.map (fun e => (c.svc, e.1, e.2)) }

/-- `SnepClient.connect(service)` -/
def connect (w : World) (o : Obj) (svc : Nat) : Obj × HRes :=
  let o1 := close w o
  match w[svc]? with
  | none => (o1, .refused)
  | some s => ({ o1 with sock := some { svc, net := Snep.init }, sendMiu := s.cmiu, opened := o1.opened ++ [svc] }, .unit)

/-- the object after the exchange of one request on its connection `c` (network state `n1`) -/
def settle (o1 : Obj) (c : Conn) (n1 : SNet) (rel : Bool) (atRest : Bool) : Obj :=
  { o1 with sock := some { c with net := { n1 with cst := .done (Snep.result n1), dl := [] } },
            dl := o1.dl ++ n1.dl.map (fun e => (c.svc, e.1, e.2)), release := rel, rest := o1.rest && atRest,
            sent := o1.sent + (n1.logC.length - c.net.logC.length) }

/-- the request itself, on an object that has a socket -/
def exchange (w : World) (fuel : Nat) (o1 : Obj) (rel : Bool) (op : Op) (octets : Bytes) : Obj × HRes :=
  match o1.sock with
  | none => (o1, .res (sendFailed op))
  | some c =>
    match w[c.svc]? with
    | none => (o1, .res (sendFailed op))
    | some s =>
      let n1 := runOp s.cfg { miu := o1.sendMiu, acc := o1.acc } fuel c.net op octets
      let o2 := settle o1 c n1 rel (decide (quiet (proto s.cfg) n1))
      (if rel then close w o2 else o2, .res (Snep.result n1))

/-- `put_octets` / `get_octets` -/
def request (w : World) (fuel : Nat) (sticky : Bool) (o : Obj) (op : Op) (octets : Bytes) : Obj × HRes :=
  match o.sock with
  | some _ => exchange w fuel o (if sticky then o.release else false) op octets
  | none =>
    match connect w o 0 with
    | (o1, .unit) => exchange w fuel o1 true op octets
    | (o1, _) => (o1, .res (sendFailed op))      -- ConnectRefused: `False` / `None`

def hstep (w : World) (fuel : Nat) (sticky : Bool) (o : Obj) : HOp → Obj × HRes
  | .connect svc => connect w o svc
  | .close => (close w o, .unit)
  | .req op octets => request w fuel sticky o op octets

def hrun (w : World) (fuel : Nat) (sticky : Bool) : Obj → List HOp → Obj × List HRes
  | o, [] => (o, [])
  | o, h :: rest =>
    let r := hstep w fuel sticky o h
    let r2 := hrun w fuel sticky r.1 rest
    (r2.1, r.2 :: r2.2)

/-! ## What a history should do -/

/-- the service the object is connected to after the history (`none`: not connected) -/
def specCur : Option Nat → List HOp → Option Nat
  | cur, [] => cur
  | _, .connect s :: r => specCur (some s) r
  | _, .close :: r => specCur none r
  | cur, .req _ _ :: r => specCur cur r

/-- every message goes, once, to the service connected at that time - the default service when
the connection is temporary -/
def specDl : Option Nat → List HOp → List (Nat × Op × Bytes)
  | _, [] => []
  | _, .connect s :: r => specDl (some s) r
  | _, .close :: r => specDl none r
  | cur, .req op m :: r => (cur.getD 0, op, m) :: specDl cur r

/-- connections opened: one per `connect`, one per request made while unconnected -/
def specOpened : Option Nat → List HOp → List Nat
  | _, [] => []
  | _, .connect s :: r => s :: specOpened (some s) r
  | _, .close :: r => specOpened none r
  | some c, .req _ _ :: r => specOpened (some c) r
  | none, .req _ _ :: r => 0 :: specOpened none r

/-! ## HandoverClient -/

structure HObj where
  /-- `self.socket`: the connection to `urn:nfc:sn:handover` -/
  sock : Option Handover.HNet := none
  /-- ghost: requests seen by the server application, in order -/
  dl : List Bytes := []
  /-- ghost: connections opened; connections abandoned by a second `connect()` without `close()` -/
  opened : Nat := 0
  orphaned : Nat := 0

inductive HHOp
  | connect
  | close
  | req (msg : Bytes)
  deriving DecidableEq, Repr, Inhabited

inductive HHRes
  | unit
  | res (r : Option Bytes)
  /-- `send_octets` without a socket: AttributeError -/
  | noSocket
  deriving DecidableEq, Repr, Inhabited

/-- the select message a request returned -/
def HHRes.answer : HHRes → Option (Option Bytes)
  | .res x => some x
  | _ => none

/-- `cmiu`: send MIU of the client socket -/
def hhstep (cfg : Handover.HCfg) (cmiu fuel : Nat) (o : HObj) : HHOp → HObj × HHRes
  | .connect =>
    ({ o with sock := some Handover.init, opened := o.opened + 1,
              orphaned := o.orphaned + (if o.sock.isSome then 1 else 0) }, .unit)
  | .close => ({ o with sock := none }, .unit)
  | .req msg =>
    match o.sock with
    | none => (o, .noSocket)
    | some n =>
      let n1 := Handover.runReq cfg cmiu fuel n msg
      ({ o with sock := some { n1 with cst := .idle, dl := [] }, dl := o.dl ++ n1.dl }, .res (Handover.result n1))

def hhrun (cfg : Handover.HCfg) (cmiu fuel : Nat) : HObj → List HHOp → HObj × List HHRes
  | o, [] => (o, [])
  | o, h :: rest =>
    let r := hhstep cfg cmiu fuel o h
    let r2 := hhrun cfg cmiu fuel r.1 rest
    (r2.1, r.2 :: r2.2)

/-- the requests of a history, provided each one is made while connected -/
def hhSpec : Bool → List HHOp → Option (List Bytes)
  | _, [] => some []
  | _, .connect :: r => hhSpec true r
  | _, .close :: r => hhSpec false r
  | true, .req m :: r => (hhSpec true r).map (m :: ·)
  | false, .req _ :: _ => none

end NfcVerif.SnepObj
