import NfcVerif.Model.AdvT34
/-!
# C08: what an application does with an activated tag - `tag.ndef`, `ndef.has_changed`, `tag.is_present`

* the presence checks `_is_present` of the four tag types (`tt1.py` `read_byte(0)`, `tt2.py` READ of
  page 0, `tt3.py` polling for the acquired system code / `tt3_sony.py` Request Response with the
  polling as fall-back, `tt4.py` R(NAK) presence check),
* `nfc.tag.Tag.ndef` and `Tag.NDEF.has_changed` (`tag/__init__.py`): the NDEF object is created on the
  first successful read, kept, re-read by `has_changed` and dropped when a re-read fails,
* `runOps`: any sequence of those three operations on one tag object (`Op`), against one adversarial
  tag.  `Lemmas/AdvOps.lean` proves that no sequence ever raises and bounds the interactions.
-/
namespace NfcVerif.Adv
open NfcVerif.IsoDep (Pcd World)

/-! ## presence checks -/

/-- `Type1Tag.read_byte(addr)` (repaired, fixes/C08/0013: the answer must carry address and data octet) -/
def readByte1 (t : Tag) (uid : Bytes) (addr : Nat) (w : W) : Py Nat × W :=
  if addr > 127 then (.error .value, w)
  else
    match trx t 3 w ([0x01, addr, 0x00] ++ uid) with
    | (none, w') => (.error (.tagCmd 0), w')
    | (some rsp, w') => if rsp.length < 2 then (.error (.tagCmd 2), w') else (idx rsp (-1), w')

/-- `Type1Tag._is_present`: `read_byte(0) == self.uid[0]`, a command error means "not present" -/
def isPresent1 (t : Tag) (uid : Bytes) (w : W) : Py Bool × W :=
  match readByte1 t uid 0 w with
  | (.error e, w') => if isTagCmd e then (.ok false, w') else (.error e, w')
  | (.ok b, w') =>
    match idxN uid 0 with
    | .error e => (.error e, w')
    | .ok u => (.ok (b == u), w')

/-- `Type2Tag._is_present`: READ of page 0 in whatever sector is selected -/
def isPresent2 (t : Tag) (s : S2) : Py Bool × S2 :=
  match trans2 t 3 [0x30, 0x00] s with
  | (.error e, s') => if isTagCmd e then (.ok false, s') else (.error e, s')
  | (.ok d, s') => (.ok (decide (d.length = 16)), s')

/-- the response checks of `send_cmd_recv_rsp(check_status=False)`: minimum length 10, the answer is `rsp[10:]` -/
def checkRsp3n (code : Nat) (idm rsp : Bytes) : Py Bytes :=
  match rsp with
  | r0 :: r1 :: _ =>
    if rsp.length < 10 ∨ r0 ≠ rsp.length then .error (.tagCmd 1)
    else if r1 ≠ code + 1 then .error (.tagCmd 2)
    else if sliceN rsp 2 10 ≠ idm then .error (.tagCmd 3)
    else .ok (rsp.drop 10)
  | _ => .error (.tagCmd 1)

/-- `send_cmd_recv_rsp(code, data, timeout, send_idm=True, check_status=False)` -/
def sendCmd3n (t : Tag) (code : Nat) (data : Bytes) (s : S3) : Py Bytes × S3 :=
  if 2 + s.idm.length + data.length ≥ 256 ∨ code ≥ 256 then (.error .value, s)
  else
    match trx t 3 s.w ([2 + s.idm.length + data.length, code] ++ s.idm ++ data) with
    | (none, w') => (.error (.tagCmd 0), { s with w := w' })
    | (some rsp, w') => (checkRsp3n code s.idm rsp, { s with w := w' })

/-- `FelicaStandard.request_response()`: the mode octet -/
def requestResponse (t : Tag) (s : S3) : Py Nat × S3 :=
  match idxN s.pmm 3 with                      -- timeout computation: self.pmm[3]
  | .error e => (.error e, s)
  | .ok _ =>
    match sendCmd3n t 4 [] s with
    | (.error e, s') => (.error e, s')
    | (.ok d, s') => if d.length ≠ 1 then (.error (.tagCmd 4), s') else (idxN d 0, s')

/-- `Type3Tag._is_present`: `idm, pmm = self.polling(self.sys); return idm == self.identifier` -/
def isPresent3 (t : Tag) (nfcid : Bytes) (s : S3) : Py Bool × S3 :=
  match pollingTuple t s.sys 0 s with
  | (.error e, s') => if isTagCmd e then (.ok false, s') else (.error e, s')
  | (.ok tup, s') =>
    match unpack2 tup with
    | .error e => (.error e, s')
    | .ok (idm, _) => (.ok (idm == nfcid), s')

/-- `FelicaStandard._is_present` (also FeliCa Mobile): Request Response first, the generic way when that fails -/
def isPresent3rr (t : Tag) (nfcid : Bytes) (s : S3) : Py Bool × S3 :=
  match requestResponse t s with
  | (.ok m, s') => (.ok (decide (m ≤ 3)), s')
  | (.error e, s') => if isTagCmd e then isPresent3 t nfcid s' else (.error e, s')

/-- the Type 3 Tag classes whose `_is_present` is `FelicaStandard._is_present` -/
def usesRequestResponse (cls : String) : Bool := cls == "FelicaStandard" || cls == "FelicaMobile"

def commErr : Exc → Bool
  | .timeout | .transmission | .protocol | .brokenLink | .unsupportedTarget | .commError => true
  | _ => false

/-- `Type4Tag._is_present`: `self._dep.exchange(None)`, `CommunicationError` means "not present" -/
def isPresent4 (t : Tag) (s : S4) : Py Bool × S4 :=
  match IsoDep.presence (oraclePeer t) { pni := s.pni, miu := 0, nNak := 0, nAck := 0 } s.world with
  | (w, .ok _) => (.ok true, { s with world := w })
  | (w, .error e) => if commErr e then (.ok false, { s with world := w }) else (.error e, { s with world := w })

/-! ## `Tag.ndef`, `NDEF.has_changed`, `Tag.is_present` on one tag object -/

/-- a tag type as `nfc.tag.Tag` sees it: the state `σ` of the tag object, the reader (`κ` = what the NDEF
object keeps between reads: the file attributes of a Type 4 Tag) and the presence check -/
structure TagOps (σ κ : Type) where
  read : Option κ → σ → Py (Option (Ndef × κ)) × σ
  present : σ → Py Bool × σ

/-- tag object: its state and `tag._ndef` -/
structure Obj (σ κ : Type) where
  st : σ
  ndef : Option (Ndef × κ)

inductive Op
  /-- `tag.ndef` -/
  | ndef
  /-- `tag.ndef.has_changed` if `tag.ndef` is an object (nothing otherwise) -/
  | changed
  /-- `tag.is_present` -/
  | present
  deriving DecidableEq, Repr

inductive Res
  | ndef (d : Option Ndef)
  | present (b : Bool)
  | skip
  deriving Repr

/-- `_read_ndef_data` through `has_changed`: the object is kept when data are found, dropped otherwise;
an exception leaves `tag._ndef` as it was -/
def readStep {σ κ} (T : TagOps σ κ) (known : Option κ) (o : Obj σ κ) : Py Res × Obj σ κ :=
  match T.read known o.st with
  | (.error e, s) => (.error e, { o with st := s })
  | (.ok r, s) => (.ok (.ndef (r.map (·.1))), { st := s, ndef := r })

/-- one operation -/
def step {σ κ} (T : TagOps σ κ) : Op → Obj σ κ → Py Res × Obj σ κ
  | .ndef, o =>
    match o.ndef with
    | some (d, _) => (.ok (.ndef (some d)), o)
    | none => readStep T none o
  | .changed, o =>
    match o.ndef with
    | none => (.ok .skip, o)
    | some (_, k) => readStep T (some k) o
  | .present, o =>
    match T.present o.st with
    | (.error e, s) => (.error e, { o with st := s })
    | (.ok b, s) => (.ok (.present b), { o with st := s })

/-- a sequence of operations; stops at the first exception (results newest first) -/
def runOps {σ κ} (T : TagOps σ κ) : List Op → Obj σ κ → List Res → Py (List Res) × Obj σ κ
  | [], o, acc => (.ok acc, o)
  | op :: ops, o, acc =>
    match step T op o with
    | (.error e, o') => (.error e, o')
    | (.ok r, o') => runOps T ops o' (r :: acc)

/-! ### the four tag types -/

def ops1 (t : Tag) (uid : Bytes) : TagOps W Unit :=
  { read := fun _ w =>
      match readNdef1 t uid w with
      | (r, s) => (r.map (·.map (·, ())), s.w),
    present := isPresent1 t uid }

/-- the Type 2 Tag object keeps the selected sector and whether the target is still there -/
structure O2 where
  w : W
  sector : Nat
  alive : Bool

def O2.ofS2 (s : S2) : O2 := { w := s.w, sector := s.sector, alive := s.alive }

def ops2 (t : Tag) : TagOps O2 Unit :=
  { read := fun _ o =>
      match readNdef2 t o.w o.sector o.alive with
      | (r, s) => (r.map (·.map (·, ())), O2.ofS2 s),
    present := fun o =>
      match isPresent2 t { w := o.w, cache := [], sector := o.sector, alive := o.alive } with
      | (r, s) => (r, O2.ofS2 s) }

/-- `nfcid` = `tag.identifier` (the IDm of SENSF_RES), `rr` = the class checks presence with Request Response -/
def ops3 (t : Tag) (nfcid : Bytes) (rr : Bool) : TagOps S3 Unit :=
  { read := fun _ s =>
      match readNdef3 t s with
      | (r, s') => (r.map (·.map (·, ())), s'),
    present := fun s => if rr then isPresent3rr t nfcid s else isPresent3 t nfcid s }

def ops4 (t : Tag) (c : IsoDepR.Cfg) (p0 : Pcd) (sticky : Bool) : TagOps S4 Info :=
  { read := fun known s =>
      match readNdef4 (isoX t c p0 sticky) known s with
      | (s', r) => (r, s'),
    present := isPresent4 t }

/-! ## a session: `nfc.tag.activate`, then any operations on the tag object -/

/-- the tag class and the results in the order of the operations -/
def sessionOf {σ κ} (cls : String) (wOf : σ → W) (r : Py (List Res) × Obj σ κ) : Py (Option (String × List Res)) × W :=
  (r.1.map (fun rs => some (cls, rs.reverse)), wOf r.2.st)

/-- `tag = nfc.tag.activate(clf, target)` and, when a tag object is returned, the operations `ops` on it.
`fx`, `F`, `sticky`: which repairs the ISO-DEP initiator contains and the fuel of its loops. -/
def session (t : Tag) (g : Target) (maxSend maxRecv : Nat) (fx : IsoDepR.Fix) (F : Nat) (sticky : Bool)
    (ops : List Op) : Py (Option (String × List Res)) × W :=
  match activate t maxSend maxRecv g W.init with
  | (.error e, w) => (.error e, w)
  | (.ok none, w) => (.ok none, w)
  | (.ok (some (.t1 cls uid)), w) => sessionOf cls id (runOps (ops1 t uid) ops ⟨w, none⟩ [])
  | (.ok (some (.t2 cls)), w) =>
    sessionOf cls (·.w) (runOps (ops2 t) ops ⟨{ w := w, sector := 0, alive := true }, none⟩ [])
  | (.ok (some (.t3 cls idm pmm sys)), w) =>
    sessionOf cls (·.w)
      (runOps (ops3 t idm (usesRequestResponse cls)) ops ⟨{ w := w, idm := idm, pmm := pmm, sys := sys }, none⟩ [])
  | (.ok (some (.t4 cls pcd lim)), w) =>
    sessionOf cls (fun s => ofWorld s.world)
      (runOps (ops4 t { fx := fx, lim := lim, F := F } pcd sticky) ops
        ⟨{ world := toWorld w, pni := pcd.pni, failed := none }, none⟩ [])

end NfcVerif.Adv
