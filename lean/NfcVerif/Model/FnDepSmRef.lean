import NfcVerif.Model.NfcDep
/-!
# Reference definitions for the function-translator group DepSm (`Props/FnBridgeDepSm.lean`)

`Model/NfcDep.lean` abstracts time into one flag (`Air.expired`) and leaves out what the C04 statements do not need:
the waiting time the Initiator grants after a timeout extension request, the time the Target still waits for a frame,
the answers of a Target that is being deactivated, the recognition of the Initiator's RTOX response, the activation
decisions that are not arithmetic.  They are written down here in spec style (NFC Forum Digital Protocol, NFC-DEP;
ISO/IEC 18092), with the facts the properties rest on, so that the regenerated pieces of `nfc/dep.py` can be compared
with them.
-/
namespace NfcVerif.DepSmRef
open NfcVerif.NfcDep

/-! ## time -/

/-- the Initiator grants a timeout extension RTOX (1..59) by waiting RTOX x RWT for the next response -/
def extendedWait (rtox : Nat) (rwt : Int) : Int := (rtox : Int) * rwt

/-- an accepted extension never shortens the waiting time and never exceeds 59 RWT: a Target cannot make the
Initiator wait without bound with one request -/
theorem extendedWait_bound (rtox : Nat) (rwt : Int) (h : 0 < rtox ∧ rtox < 60) (hr : 0 ≤ rwt) :
    rwt ≤ extendedWait rtox rwt ∧ extendedWait rtox rwt ≤ 59 * rwt := by
  unfold extendedWait
  have h1 : (1 : Int) ≤ (rtox : Int) := by omega
  have h2 : (rtox : Int) ≤ 59 := by omega
  constructor
  · have := Int.mul_le_mul_of_nonneg_right h1 hr
    simpa using this
  · exact Int.mul_le_mul_of_nonneg_right h2 hr

/-- a fresh deadline lies in the future: `deadline = now + timeout` with a positive timeout -/
def freshDeadline (now timeout : Int) : Int := now + timeout

theorem freshDeadline_future (now timeout : Int) (h : 0 < timeout) : now < freshDeadline now timeout := by
  unfold freshDeadline; omega

/-- the waiting time of one attempt: the response waiting time, cut at the deadline; `none`: the deadline has passed -/
def attemptTimeout (rwt deadline now : Int) : Option Int :=
  if min rwt (deadline - now) ≤ 0 then none else some (min rwt (deadline - now))

/-- no attempt is started after the deadline, and no attempt waits beyond it -/
theorem attemptTimeout_sound (rwt deadline now : Int) (hr : 0 < rwt) :
    (attemptTimeout rwt deadline now = none ↔ deadline ≤ now)
    ∧ ∀ t, attemptTimeout rwt deadline now = some t → 0 < t ∧ now + t ≤ deadline ∧ t ≤ rwt := by
  unfold attemptTimeout
  constructor
  · constructor
    · intro h; split at h
      · omega
      · cases h
    · intro h; rw [if_pos (by omega)]
  · intro t h
    split at h
    · cases h
    · injection h with h; omega

/-- the time the Target still waits for a frame: what is left until the deadline, never negative -/
def remaining (deadline now : Int) : Int := if deadline > now then deadline - now else 0

theorem remaining_nonneg (deadline now : Int) : 0 ≤ remaining deadline now ∧ now + remaining deadline now ≤ max deadline now := by
  unfold remaining; split <;> omega

/-! ## decisions -/

/-- what a Target that is being deactivated answers to a DEP_REQ -/
inductive DeactAns
  /-- an attention response -/
  | atn
  /-- the final payload as an INF PDU carrying the packet number of the request -/
  | inf (pni : Nat)
  deriving DecidableEq, Repr

/-- an attention request is answered with an attention response, every other DEP_REQ with the final payload under
the request's own packet number (so that the Initiator accepts it whatever it has sent) -/
def deactAnswer (fmt rpni : Nat) : DeactAns := if fmt = fATN then .atn else .inf rpni

theorem deactAnswer_pni (fmt rpni : Nat) (h : fmt ≠ fATN) : deactAnswer fmt rpni = .inf rpni := by
  unfold deactAnswer; rw [if_neg h]

/-- the answer to the Target's own RTOX request: a DEP_REQ of type timeout extension, nothing else -/
def isRtoxResponse (isDep : Bool) (fmt : Nat) : Bool := isDep && decide (fmt = fTOX)

theorem isRtoxResponse_only (isDep : Bool) (fmt : Nat) (h : isRtoxResponse isDep fmt = true) : isDep = true ∧ fmt = fTOX := by
  unfold isRtoxResponse at h
  simpa using h

/-- parameter selection is needed exactly when the requested bit rate (index into 106 / 212 / 424 kbps) lies above the
one the target was found at (`Activate.handshake`: `psl := decide (brs > f.brty)`) -/
def pslNeeded (brs brty : Nat) : Bool := decide (brs > brty)

/-- active communication mode: the driver reports neither SENS_RES nor SENSF_RES (no passive activation happened) -/
def acmOf (sensRes sensfRes : Bytes) : Bool := sensRes.isEmpty && sensfRes.isEmpty

/-- an NFC-DEP capable Type A target: bit 7 (40h) of SEL_RES -/
def selResDep (selRes : Bytes) : Option Bool := selRes.head?.map (fun b => decide (b / 64 % 2 = 1))

/-- an NFC-DEP capable Type F target: NFCID2 starts with 01FEh (behind the response code 01h) -/
def sensfDep (sensfRes : Bytes) : Bool := sensfRes.take 3 == [0x01, 0x01, 0xFE]

/-- the first three letters of `PDU_NAME` -/
def kindName : Kind → String
  | .dep => "DEP" | .dsl => "DSL" | .rls => "RLS" | .atr => "ATR" | .psl => "PSL"

theorem kindName_inj (a b : Kind) : kindName a = kindName b ↔ a = b := by
  cases a <;> cases b <;> decide

end NfcVerif.DepSmRef
