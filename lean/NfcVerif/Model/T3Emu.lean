import NfcVerif.Model.T34Base
/-!
# Emulated Type 3 Tag (`nfc/tag/tt3.py`, class `Type3TagEmulation`) and the reader-side command encoding

* `encRead` / `encWrite`: the frames `Type3Tag.read_without_encryption` / `write_without_encryption`
  + `send_cmd_recv_rsp` build (service list, 2- or 3-octet block list elements, length octet;
  `ValueError` when the frame exceeds 255 octets, `struct.error` for a block number above 65535).
* `processCommand`: transcription of `Type3TagEmulation.process_command` with `polling`,
  `request_response`, `read_without_encryption`, `write_without_encryption`, `request_system_code`,
  including the `IndexError`s of truncated commands (finding F23, property C07).
  The services and the block store are those of `examples/tagtool.py`: service 0009h read+write,
  000Bh read (its write callback `lambda: False` raises `TypeError` when called), a block exists
  iff `block_number < len(store)/16`; every callback invocation is recorded with its begin/end flags.
-/
namespace NfcVerif.T3Emu
open NfcVerif.T34

/-! ## reader side -/

def serviceCode (sc : Nat) : Bytes := [sc % 256, sc / 256 % 256]

/-- `BlockCode(n).pack()` (access mode 0, service list index 0) -/
def blockCode (b : Nat) : Py Bytes :=
  if b < 256 then .ok [0x80, b]
  else if b < 65536 then .ok [0x00, b % 256, b / 256]
  else .error .struct

def blockCodes : List Nat → Py Bytes
  | [] => .ok []
  | b :: bs => blockCode b >>= fun x => blockCodes bs >>= fun xs => .ok (x ++ xs)

/-- `send_cmd_recv_rsp`: `bytearray([2+len(idm)+len(cmd_data), cmd_code]) + idm + cmd_data` -/
def frame (code : Nat) (idm body : Bytes) : Py Bytes :=
  if 2 + idm.length + body.length > 255 then .error .value
  else .ok ([2 + idm.length + body.length, code] ++ idm ++ body)

def encRead (idm : Bytes) (sc : Nat) (bl : List Nat) : Py Bytes :=
  if bl.length > 255 then .error .value else
  blockCodes bl >>= fun bc => frame 6 idm ([1] ++ serviceCode sc ++ [bl.length] ++ bc)

def encWrite (idm : Bytes) (sc : Nat) (bl : List Nat) (data : Bytes) : Py Bytes :=
  if bl.length > 255 then .error .value else
  blockCodes bl >>= fun bc => frame 8 idm ([1] ++ serviceCode sc ++ [bl.length] ++ bc ++ data)

/-! ## emulation side -/

structure Emu where
  idm : Bytes
  pmm : Bytes
  sys : Bytes
  store : Bytes
  deriving DecidableEq, Repr

/-- one callback invocation: read (`w = false`) or write of block `bn` with begin / end flags -/
structure Call where
  w : Bool
  bn : Nat
  b : Bool
  e : Bool
  deriving DecidableEq, Repr

inductive Step (α : Type)
  | done (rsp : Bytes)
  | cont (a : α)

def hasService (sc : Nat) : Bool := sc = 0x0009 || sc = 0x000B

/-- the `for i in range(len(service_list))` loop -/
def parseServices : Nat → Bytes → List Nat → Py (Step (List Nat × Bytes))
  | 0, d, acc => .ok (.cont (acc, d))
  | n + 1, d, acc =>
    idxN d 1 >>= fun hi => idxN d 0 >>= fun lo =>
    if hasService (hi * 256 + lo) = false then .ok (.done [0xFF, 0xA1])
    else parseServices n (d.drop 2) (acc ++ [hi * 256 + lo])

/-- the block list loop: elements `(service list index, block number)` -/
def parseBlocks (nsvc : Nat) : Nat → Nat → Bytes → List (Nat × Nat) → Py (Step (List (Nat × Nat) × Bytes))
  | 0, _, d, acc => .ok (.cont (acc, d))
  | n + 1, i, d, acc =>
    match d with
    | [] => .ok (.done [2 ^ (i % 8), 0xA3])
    | b0 :: _ =>
      if b0 % 16 ≥ nsvc then .ok (.done [2 ^ (i % 8), 0xA3])
      else if b0 ≥ 128 then
        idxN d 1 >>= fun bn => parseBlocks nsvc n (i + 1) (d.drop 2) (acc ++ [(b0 % 16, bn)])
      else
        idxN d 2 >>= fun hi => idxN d 1 >>= fun lo =>
        parseBlocks nsvc n (i + 1) (d.drop 3) (acc ++ [(b0 % 16, hi * 256 + lo)])

abbrev Dict := List (Nat × Int)
def dictGet (d : Dict) (k : Nat) : Py Int :=
  match d.find? (fun p => p.1 = k) with
  | some p => .ok p.2
  | none => .error .key
def dictSet (d : Dict) (k : Nat) (v : Int) : Dict :=
  if d.any (fun p => p.1 = k) then d.map (fun p => if p.1 = k then (k, v) else p) else d ++ [(k, v)]

/-- `dict(service_list)`: service code -> number of block list elements naming that list position -/
def countDict (svcs : List Nat) (blocks : List (Nat × Nat)) : Dict :=
  (svcs.zipIdx).foldl (fun d p => dictSet d p.1 ((blocks.filter (fun b => b.1 = p.2)).length : Int)) []

/-- tagtool's `ndef_read` -/
def storeRead (store : Bytes) (bn : Nat) : Option Bytes :=
  if bn * 16 < store.length then some (sliceN store (bn * 16) ((bn + 1) * 16)) else none

/-- tagtool's `ndef_write`: `store[first:last] = block_data` -/
def storeWrite (store : Bytes) (bn : Nat) (d : Bytes) : Option Bytes :=
  if bn * 16 < store.length then some (store.take (bn * 16) ++ d ++ store.drop ((bn + 1) * 16)) else none

def readLoop (store : Bytes) (svcs : List Nat) (d0 : Dict) :
    List (Nat × Nat) → Nat → Dict → Bytes → List Call → Py (Bytes × List Call)
  | [], _, _, acc, log => .ok ([0, 0, acc.length / 16] ++ acc, log)
  | (si, bn) :: rest, i, d, acc, log =>
    idxN svcs si >>= fun sc =>
    dictGet d0 sc >>= fun bc =>
    dictGet d sc >>= fun cur =>
    let rb := decide (bc = cur)
    let re := decide (cur - 1 = 0)
    match storeRead store bn with
    | none => .ok ([2 ^ (i % 8), 0xA2], log ++ [⟨false, bn, rb, re⟩])
    | some blk => readLoop store svcs d0 rest (i + 1) (dictSet d sc (cur - 1)) (acc ++ blk) (log ++ [⟨false, bn, rb, re⟩])

def writeLoop (svcs : List Nat) (d0 : Dict) (data : Bytes) :
    List (Nat × Nat) → Nat → Dict → Bytes → List Call → Py (Bytes × Bytes × List Call)
  | [], _, _, store, log => .ok ([0, 0], store, log)
  | (si, bn) :: rest, i, d, store, log =>
    idxN svcs si >>= fun sc =>
    dictGet d0 sc >>= fun bc =>
    dictGet d sc >>= fun cur =>
    let wb := decide (bc = cur)
    let we := decide (cur - 1 = 0)
    if sc = 0x000B then .error .type_       -- `lambda: False` called with four arguments
    else match storeWrite store bn (sliceN data (i * 16) ((i + 1) * 16)) with
    | none => .ok ([2 ^ (i % 8), 0xA2], store, log ++ [⟨true, bn, wb, we⟩])
    | some s' => writeLoop svcs d0 data rest (i + 1) (dictSet d sc (cur - 1)) s' (log ++ [⟨true, bn, wb, we⟩])

/-- `read_without_encryption(cmd_data)` -/
def emuRead (e : Emu) (d : Bytes) : Py (Bytes × List Call) :=
  idxN d 0 >>= fun nsvc =>
  parseServices nsvc (d.drop 1) [] >>= fun s =>
  match s with
  | .done r => .ok (r, [])
  | .cont (svcs, d1) =>
    idxN d1 0 >>= fun nblk =>
    if nblk > 15 then .ok ([0xFF, 0xA2], []) else
    parseBlocks svcs.length nblk 0 (d1.drop 1) [] >>= fun b =>
    match b with
    | .done r => .ok (r, [])
    | .cont (blocks, _) =>
      let d0 := countDict svcs blocks
      readLoop e.store svcs d0 blocks 0 d0 [] []

/-- `write_without_encryption(cmd_data)` -/
def emuWrite (e : Emu) (d : Bytes) : Py (Bytes × Bytes × List Call) :=
  idxN d 0 >>= fun nsvc =>
  parseServices nsvc (d.drop 1) [] >>= fun s =>
  match s with
  | .done r => .ok (r, e.store, [])
  | .cont (svcs, d1) =>
    idxN d1 0 >>= fun nblk =>
    parseBlocks svcs.length nblk 0 (d1.drop 1) [] >>= fun b =>
    match b with
    | .done r => .ok (r, e.store, [])
    | .cont (blocks, data) =>
      if data.length % 16 ≠ 0 then .ok ([0xFF, 0xA2], e.store, []) else
      let d0 := countDict svcs blocks
      writeLoop svcs d0 data blocks 0 d0 e.store []

/-- `bytearray([10 + len(rsp), code]) + idm + rsp` -/
def respond (e : Emu) (code : Nat) (rsp : Bytes) : Py Bytes :=
  if 10 + rsp.length > 255 then .error .value else .ok ([10 + rsp.length, code] ++ e.idm ++ rsp)

/-- `process_command(cmd)` -> (response or None, block store afterwards, callback invocations) -/
def processCommand (e : Emu) (cmd : Bytes) : Py (Option Bytes × Bytes × List Call) :=
  idxN cmd 0 >>= fun l0 =>
  if cmd.length ≠ l0 then .ok (none, e.store, [])
  else if cmd.take 4 = [6, 0, 255, 255] ∨ cmd.take 4 = [6, 0] ++ e.sys then
    idxN (cmd.drop 2) 2 >>= fun rc =>
    let rsp := if rc = 1 then e.idm ++ e.pmm ++ e.sys else e.idm ++ e.pmm
    if 2 + rsp.length > 255 then .error .value else .ok (some ([2 + rsp.length, 1] ++ rsp), e.store, [])
  else if sliceN cmd 2 10 = e.idm then
    idxN cmd 1 >>= fun code =>
    if code = 0x04 then respond e 0x05 [0] >>= fun r => .ok (some r, e.store, [])
    else if code = 0x06 then
      emuRead e (cmd.drop 10) >>= fun (rsp, log) => respond e 0x07 rsp >>= fun r => .ok (some r, e.store, log)
    else if code = 0x08 then
      emuWrite e (cmd.drop 10) >>= fun (rsp, store, log) => respond e 0x09 rsp >>= fun r => .ok (some r, store, log)
    else if code = 0x0C then respond e 0x0D ([1] ++ e.sys) >>= fun r => .ok (some r, e.store, [])
    else .ok (none, e.store, [])
  else .ok (none, e.store, [])

/-- `process_command` of a tree with the repair of finding F23 (property C07): an `IndexError` raised while a
truncated command is parsed is caught and the command ignored (no response, store untouched - the parsing
comes before every callback) -/
def processCommandR (f23 : Bool) (e : Emu) (cmd : Bytes) : Py (Option Bytes × Bytes × List Call) :=
  match processCommand e cmd with
  | .error .index => if f23 then .ok (none, e.store, []) else .error .index
  | r => r

end NfcVerif.T3Emu
