import NfcVerif.Model.PeerDep
/-!
# C07: every NFC-DEP frame yields a PDU, ProtocolError or TransmissionError (repaired code)
-/
namespace NfcVerif.Peer
open NfcVerif.NfcDep
theorem decodeDsl_safe (mk : Option Nat → Pdu) (d : Bytes) : Safe FrameErr (decodeDsl mk d) := by
  intro e h
  unfold decodeDsl at h
  split at h <;> simp_all [FrameErr]
theorem decodeDep_safe (d : Bytes) : Safe FrameErr (decodeDep d) := by
  intro e h
  unfold decodeDep at h
  match d, h with
  | [], h => simp_all [FrameErr]
  | pfb :: r1, h =>
    simp only at h
    split at h
    · match r1, h with
      | [], h => simp_all [FrameErr]
      | did :: r2, h =>
        simp only at h
        split at h
        · match r2, h with
          | [], h => simp_all [FrameErr]
          | _ :: _, h => simp at h
        · simp at h
    · split at h
      · match r1, h with
        | [], h => simp_all [FrameErr]
        | _ :: _, h => simp at h
      · simp at h

theorem frameBody_safe (req : Bool) (f2 : Bytes) : Safe FrameErr (frameBody true req f2) := by
  unfold frameBody
  apply Safe.ite
  · exact Safe.throw (Or.inr rfl)
  match f2 with
  | [] => exact Safe.throw (Or.inr rfl)
  | [_] => exact Safe.throw (Or.inr rfl)
  | c0 :: c1 :: d =>
    simp only
    apply Safe.ite
    · exact Safe.throw (Or.inl rfl)
    apply Safe.ite
    · exact Safe.throw (Or.inl rfl)
    apply Safe.ite (decodeDep_safe d)
    apply Safe.ite (decodeDsl_safe _ d)
    apply Safe.ite (decodeDsl_safe _ d)
    apply Safe.ite
    · apply Safe.ite
      · simp only [if_true]; exact Safe.throw (Or.inl rfl)
      · exact Safe.ok _
    apply Safe.ite
    · apply Safe.ite
      · exact Safe.throw (Or.inl rfl)
      · exact Safe.ok _
    · exact Safe.throw (Or.inl rfl)

theorem stripStart_safe (frame : Bytes) (b106 : Bool) (h : ¬ frame.length < (if b106 then 2 else 1)) :
    Safe FrameErr (stripStart b106 frame) ∧ ∀ f1, stripStart b106 frame = .ok f1 → f1 ≠ [] := by
  unfold stripStart
  cases b106 with
  | false =>
    simp only [Bool.false_eq_true, if_false] at h ⊢
    refine ⟨Safe.ok _, ?_⟩
    intro f1 hf; cases hf; intro he; subst he; simp at h
  | true =>
    simp only [if_true] at h ⊢
    match frame, h with
    | [], h => simp at h
    | [_], h => simp at h
    | sb :: x :: r, _ =>
      simp only
      refine ⟨Safe.ite (Safe.throw (Or.inl rfl)) (Safe.ok _), ?_⟩
      intro f1 hf
      split at hf
      · cases hf
      · cases hf; simp

theorem dep_decode_total (b106 req : Bool) (frame : Bytes) : Safe FrameErr (decodeFrameV true b106 req frame) := by
  unfold decodeFrameV
  simp only [true_and]
  by_cases hl : frame.length < (if b106 = true then 2 else 1)
  · simp only [hl, if_true]; exact Safe.throw (Or.inr rfl)
  · simp only [hl, if_false]
    obtain ⟨hs, hne⟩ := stripStart_safe frame b106 hl
    apply Safe.bind hs
    intro f1 hf1
    match f1, hne f1 hf1 with
    | [], h => exact absurd rfl h
    | len :: f2, _ =>
      simp only
      apply Safe.ite
      · exact Safe.throw (Or.inl rfl)
      · exact frameBody_safe req f2

/-- the repaired frame model IS the (repaired) `decodeFrame` of property C04 -/
theorem decodeFrameV_repaired (b106 req : Bool) (frame : Bytes) :
    decodeFrameV true b106 req frame = NfcDep.decodeFrame b106 req frame := by
  unfold decodeFrameV NfcDep.decodeFrame
  simp only [true_and]
  split
  · rfl
  · unfold NfcDep.decodeFrameAux stripStart
    congr 1

theorem rtoxOf_safe (data : Bytes) : Safe (fun e => e = .protocol) (rtoxOf true data) := by
  unfold rtoxOf
  simp only [if_true]
  match data with
  | [] => exact Safe.throw rfl
  | v :: _ => exact Safe.ite (Safe.ok _) (Safe.throw rfl)

theorem tRtoxOf_total (data : Bytes) : ∃ r, tRtoxOf true data = .ok r := by
  unfold tRtoxOf
  match data with
  | [] => exact ⟨_, rfl⟩
  | v :: _ => exact ⟨_, rfl⟩

end NfcVerif.Peer
