import NfcVerif.Lemmas.PduSpec
/-!
# Re-encoding a decoded PDU: `decode b = p → decode (encode p) = norm p`

Normal form `norm`: an optional octet string parameter that is present but
empty (`some []`: CONNECT service name, DPS ECPK and RN) is absent (`none`);
everything else - all other fields, SDREQ names (also empty ones), payloads,
the order and number of aggregated PDUs - is unchanged.
-/
namespace NfcVerif.Pdu
open NfcVerif

def normOpt : Option Bytes → Option Bytes
  | some [] => none
  | o => o

def normS : SPdu → SPdu
  | .connect d s m r sn => .connect d s m r (normOpt sn)
  | .dps d s e r => .dps d s (normOpt e) (normOpt r)
  | p => p

/-- the normal form: empty optional octet strings are absent -/
def norm : Pdu → Pdu
  | .simple p => .simple (normS p)
  | .agf d s items => .agf d s (items.map normS)

namespace Impl

/-! ## encode and len do not see the difference -/

theorem truthyTlv_norm (t : Nat) (o : Option Bytes) : truthyTlv t (normOpt o) = truthyTlv t o := by
  rcases o with _ | ⟨_ | ⟨x, xs⟩⟩ <;> rfl

theorem truthyLen_norm (o : Option Bytes) : truthyLen (normOpt o) = truthyLen o := by
  rcases o with _ | ⟨_ | ⟨x, xs⟩⟩ <;> rfl

theorem encodeS_norm (p : SPdu) : encodeS (normS p) = encodeS p := by
  cases p <;> simp [normS, encodeS, truthyTlv_norm]

theorem lenS_norm (p : SPdu) : lenS (normS p) = lenS p := by
  cases p <;> simp [normS, lenS, truthyLen_norm]

theorem encodeAll_norm (items : List SPdu) : encodeAll (items.map normS) = encodeAll items := by
  induction items with
  | nil => rfl
  | cons p ps ih => simp only [List.map_cons, encodeAll, encodeS_norm, ih]

theorem encode_norm (p : Pdu) : encode (norm p) = encode p := by
  cases p with
  | simple p => exact encodeS_norm p
  | agf d s items => simp only [norm, encode, encodeAll_norm]

/-! ## ranges of the parameters of an octet string -/

def PRange : Spec.Param → Prop
  | .version v => v < 256 | .miux v => v < 2048 | .wks v => v < 65536 | .lto v => v < 256 | .rw v => v < 16
  | .sn v => v.length < 256 | .opt v => v < 8 | .sdreq t n => t < 256 ∧ n.length < 255
  | .sdres t s => t < 256 ∧ s < 256 | .ecpk v => v.length < 256 | .rn v => v.length < 256
  | .other _ _ => True

/-- encoded size of the SDREQ/SDRES parameters (the others do not matter for the bound) -/
def psize : Spec.Param → Nat
  | .sdreq _ n => 3 + n.length
  | .sdres _ _ => 4
  | _ => 0

theorem param_range {t : Nat} {v : Bytes} {p : Spec.Param} (hv : IsBytes v) (hl : v.length < 256)
    (h : Spec.param t v = some p) : PRange p ∧ psize p ≤ 2 + v.length := by
  unfold Spec.param at h
  repeat' split at h
  all_goals first
    | (cases h; done)
    | (cases h
       simp only [PRange, psize, List.length_cons, List.length_nil, IsBytes, List.mem_cons, List.not_mem_nil, or_false,
         forall_eq_or_imp, forall_eq, and_true, true_and] at *
       omega)

theorem params_range (n : Nat) (info : Bytes) (ps : List Spec.Param) (hb : IsBytes info)
    (h : Spec.params n info = some ps) :
    (∀ p ∈ ps, PRange p) ∧ sumMap psize ps ≤ info.length := by
  induction n generalizing info ps with
  | zero =>
    match info, h with
    | [], h => cases h; simp [sumMap]
    | [_], h => cases h; simp [sumMap]
    | _ :: _ :: _, h => cases h
  | succ k ih =>
    match info, hb, h with
    | [], _, h => rw [params_nil] at h; cases h; simp [sumMap]
    | [x], _, h => rw [params_single] at h; cases h; simp [sumMap]
    | t :: l :: rest, hb, h =>
      rw [params_cons] at h
      split at h
      · cases h
      · rename_i hl
        have hbr : IsBytes rest := fun x hx => hb x (by simp [hx])
        have hl256 : l < 256 := hb l (by simp)
        cases hp : Spec.param t (rest.take l) with
        | none => rw [hp] at h; cases h
        | some p =>
          cases hq : Spec.params k (rest.drop l) with
          | none => rw [hp, hq] at h; cases h
          | some qs =>
            rw [hp, hq] at h
            cases h
            have e2 : (rest.take l).length = l := by simp; omega
            obtain ⟨r1, r2⟩ := param_range (isBytes_take hbr l) (by omega) hp
            obtain ⟨i1, i2⟩ := ih (rest.drop l) qs (isBytes_drop hbr l) hq
            refine ⟨?_, ?_⟩
            · intro x hx
              rcases List.mem_cons.mp hx with rfl | hx
              · exact r1
              · exact i1 x hx
            · simp only [sumMap, List.length_cons, List.length_drop] at *
              omega

theorem lastSome_mem {α : Type} (f : Spec.Param → Option α) (ps : List Spec.Param) (v : α)
    (h : Spec.lastSome f ps = some v) : ∃ p ∈ ps, f p = some v := by
  rw [lastSome_eq] at h
  have gen : ∀ (ps : List Spec.Param) (a : Option α),
      ps.foldl (fun acc p => orElse (f p) some acc) a = some v → a = some v ∨ ∃ p ∈ ps, f p = some v := by
    intro ps
    induction ps with
    | nil => intro a ha; exact Or.inl ha
    | cons p ps ih =>
      intro a ha
      simp only [List.foldl_cons] at ha
      rcases ih _ ha with h1 | ⟨q, hq, hf⟩
      · cases hfp : f p with
        | none => rw [hfp] at h1; exact Or.inl h1
        | some w =>
          rw [hfp] at h1
          have : w = v := by simpa [orElse] using h1
          subst this
          exact Or.inr ⟨p, by simp, hfp⟩
      · exact Or.inr ⟨q, by simp [hq], hf⟩
  rcases gen ps none h with h1 | h1
  · cases h1
  · exact h1

theorem lastSome_range {α : Type} (f : Spec.Param → Option α) (P : α → Prop) (ps : List Spec.Param)
    (hr : ∀ p ∈ ps, PRange p) (hf : ∀ p v, PRange p → f p = some v → P v) (v : α)
    (h : Spec.lastSome f ps = some v) : P v := by
  obtain ⟨p, hp, hfp⟩ := lastSome_mem f ps v h
  exact hf p v (hr p hp) hfp

theorem normOpt_valid (o : Option Bytes) (h : ∀ v, o = some v → v.length < 256) :
    ∀ v, normOpt o = some v → v ≠ [] ∧ v.length ≤ 255 := by
  intro v hv
  rcases o with _ | ⟨_ | ⟨x, xs⟩⟩
  · cases hv
  · cases hv
  · simp only [normOpt] at hv
    cases hv
    have := h (x :: xs) rfl
    exact ⟨by simp, by omega⟩

theorem optLen_le {α : Type} (n : Nat) (o : Option α) : optLen n o ≤ n := by cases o <;> simp [optLen]

theorem truthyLen_le (o : Option Bytes) (h : ∀ v, o = some v → v.length < 256) : truthyLen o ≤ 257 := by
  rcases o with _ | v
  · simp [truthyLen]
  · have := h v rfl
    simp only [truthyLen]
    split <;> omega

theorem snl_size (ps : List Spec.Param) :
    (ps.filterMap Spec.Param.getSdres).length * 4
      + sumMap (fun r => 3 + r.2.length) (ps.filterMap Spec.Param.getSdreq) = sumMap psize ps := by
  induction ps with
  | nil => rfl
  | cons p ps ih =>
    cases p <;> simp [List.filterMap_cons, Spec.Param.getSdres, Spec.Param.getSdreq, sumMap, psize] at ih ⊢ <;> omega

/-- a decoded PDU (not an aggregate) has valid fields in normal form, and re-encodes to at most
`max(len, 520)` octets -/
theorem decodeS_valid (b0 b1 : Nat) (info : Bytes) (hb : IsBytes (b0 :: b1 :: info)) (q : SPdu)
    (h : Spec.decodeS (b0 :: b1 :: info) = some q) :
    ValidS (normS q) ∧ (lenS q ≤ info.length + 2 ∨ lenS q ≤ 520) := by
  have h0 : b0 < 256 := hb b0 (by simp)
  have h1 : b1 < 256 := hb b1 (by simp)
  have hinfo : IsBytes info := fun x hx => hb x (by simp [hx])
  have hd : b0 / 4 ≤ 63 := by omega
  have hs : b1 % 64 ≤ 63 := by omega
  have ht : (b0 % 4) * 4 + b1 / 64 = 0 ∨ (b0 % 4) * 4 + b1 / 64 = 1 ∨ (b0 % 4) * 4 + b1 / 64 = 2 ∨
      (b0 % 4) * 4 + b1 / 64 = 3 ∨ (b0 % 4) * 4 + b1 / 64 = 4 ∨ (b0 % 4) * 4 + b1 / 64 = 5 ∨
      (b0 % 4) * 4 + b1 / 64 = 6 ∨ (b0 % 4) * 4 + b1 / 64 = 7 ∨ (b0 % 4) * 4 + b1 / 64 = 8 ∨
      (b0 % 4) * 4 + b1 / 64 = 9 ∨ (b0 % 4) * 4 + b1 / 64 = 10 ∨ (b0 % 4) * 4 + b1 / 64 = 11 ∨
      (b0 % 4) * 4 + b1 / 64 = 12 ∨ (b0 % 4) * 4 + b1 / 64 = 13 ∨ (b0 % 4) * 4 + b1 / 64 = 14 ∨
      (b0 % 4) * 4 + b1 / 64 = 15 := by omega
  have rB : ∀ (f : Spec.Param → Option Nat) (k : Nat) (ps : List Spec.Param), (∀ p ∈ ps, PRange p) →
      (∀ p v, PRange p → f p = some v → v < k) → ∀ v, Spec.lastSome f ps = some v → v < k :=
    fun f k ps hr hf v hv => lastSome_range f (fun v => v < k) ps hr hf v hv
  have rS : ∀ (f : Spec.Param → Option Bytes) (ps : List Spec.Param), (∀ p ∈ ps, PRange p) →
      (∀ p v, PRange p → f p = some v → v.length < 256) → ∀ v, Spec.lastSome f ps = some v → v.length < 256 :=
    fun f ps hr hf v hv => lastSome_range f (fun v => v.length < 256) ps hr hf v hv
  rcases ht with hp | hp | hp | hp | hp | hp | hp | hp | hp | hp | hp | hp | hp | hp | hp | hp
  all_goals simp only [Spec.decodeS, hp] at h
  · -- SYMM
    split at h
    · cases h; exact ⟨⟨rfl, rfl⟩, Or.inr (by simp [lenS])⟩
    · cases h
  · -- PAX
    split at h
    · cases hps : Spec.params info.length info with
      | none => rw [hps] at h; cases h
      | some ps =>
        rw [hps] at h; cases h
        obtain ⟨hr, _⟩ := params_range _ _ _ hinfo hps
        refine ⟨⟨rfl, rfl, ?_, ?_, ?_, ?_, ?_⟩, Or.inr ?_⟩
        · intro v hv
          have := rB Spec.Param.getVersion 256 ps hr
            (by intro p v hp hfp; cases p <;> simp [Spec.Param.getVersion] at hfp; subst hfp; exact hp) v hv
          omega
        · intro v hv
          have := rB Spec.Param.getMiux 2048 ps hr
            (by intro p v hp hfp; cases p <;> simp [Spec.Param.getMiux] at hfp; subst hfp; exact hp) v hv
          omega
        · intro v hv
          have := rB Spec.Param.getWks 65536 ps hr
            (by intro p v hp hfp; cases p <;> simp [Spec.Param.getWks] at hfp; subst hfp; exact hp) v hv
          omega
        · intro v hv
          have := rB Spec.Param.getLto 256 ps hr
            (by intro p v hp hfp; cases p <;> simp [Spec.Param.getLto] at hfp; subst hfp; exact hp) v hv
          omega
        · intro v hv
          have := rB Spec.Param.getOpt 8 ps hr
            (by intro p v hp hfp; cases p <;> simp [Spec.Param.getOpt] at hfp; subst hfp; exact hp) v hv
          omega
        · simp only [lenS]
          have a1 := optLen_le 3 (Spec.lastSome Spec.Param.getVersion ps)
          have a2 := optLen_le 4 (Spec.lastSome Spec.Param.getMiux ps)
          have a3 := optLen_le 4 (Spec.lastSome Spec.Param.getWks ps)
          have a4 := optLen_le 3 (Spec.lastSome Spec.Param.getLto ps)
          have a5 := optLen_le 3 (Spec.lastSome Spec.Param.getOpt ps)
          omega
    · cases h
  · -- AGF is not a simple PDU
    cases h
  · -- UI
    cases h; exact ⟨⟨hd, hs⟩, Or.inl (by simp [lenS]; omega)⟩
  · -- CONNECT
    cases hps : Spec.params info.length info with
    | none => rw [hps] at h; cases h
    | some ps =>
      rw [hps] at h; cases h
      obtain ⟨hr, _⟩ := params_range _ _ _ hinfo hps
      have m := rB Spec.Param.getMiux 2048 ps hr
        (by intro p v hp hfp; cases p <;> simp [Spec.Param.getMiux] at hfp; subst hfp; exact hp)
      have r := rB Spec.Param.getRw 16 ps hr
        (by intro p v hp hfp; cases p <;> simp [Spec.Param.getRw] at hfp; subst hfp; exact hp)
      have n := rS Spec.Param.getSn ps hr
        (by intro p v hp hfp; cases p <;> simp [Spec.Param.getSn] at hfp; subst hfp; exact hp)
      have hm : (Spec.lastSome Spec.Param.getMiux ps).getD 0 < 2048 := by
        cases hx : Spec.lastSome Spec.Param.getMiux ps with
        | none => simp
        | some v => simpa using m v hx
      have hrw : (Spec.lastSome Spec.Param.getRw ps).getD 1 < 16 := by
        cases hx : Spec.lastSome Spec.Param.getRw ps with
        | none => simp
        | some v => simpa using r v hx
      refine ⟨⟨hd, hs, by omega, by omega, by omega, normOpt_valid _ n⟩, Or.inr ?_⟩
      have := truthyLen_le _ n
      simp only [lenS]
      split <;> split <;> omega
  · -- DISC
    cases h; exact ⟨⟨hd, hs⟩, Or.inr (by simp [lenS])⟩
  · -- CC
    cases hps : Spec.params info.length info with
    | none => rw [hps] at h; cases h
    | some ps =>
      rw [hps] at h; cases h
      obtain ⟨hr, _⟩ := params_range _ _ _ hinfo hps
      have m := rB Spec.Param.getMiux 2048 ps hr
        (by intro p v hp hfp; cases p <;> simp [Spec.Param.getMiux] at hfp; subst hfp; exact hp)
      have r := rB Spec.Param.getRw 16 ps hr
        (by intro p v hp hfp; cases p <;> simp [Spec.Param.getRw] at hfp; subst hfp; exact hp)
      have hm : (Spec.lastSome Spec.Param.getMiux ps).getD 0 < 2048 := by
        cases hx : Spec.lastSome Spec.Param.getMiux ps with
        | none => simp
        | some v => simpa using m v hx
      have hrw : (Spec.lastSome Spec.Param.getRw ps).getD 1 < 16 := by
        cases hx : Spec.lastSome Spec.Param.getRw ps with
        | none => simp
        | some v => simpa using r v hx
      refine ⟨⟨hd, hs, by omega, by omega, by omega⟩, Or.inr ?_⟩
      simp only [lenS]
      split <;> split <;> omega
  · -- DM
    rcases info with _ | ⟨r, _ | ⟨x, xs⟩⟩ <;> simp at h
    subst h
    have : r < 256 := hinfo r (by simp)
    exact ⟨⟨hd, hs, by omega⟩, Or.inr (by simp [lenS])⟩
  · -- FRMR
    rcases info with _ | ⟨x0, _ | ⟨x1, _ | ⟨x2, _ | ⟨x3, _ | ⟨x4, xs⟩⟩⟩⟩⟩ <;> simp at h
    subst h
    have a0 : x0 < 256 := hinfo x0 (by simp)
    have a1 : x1 < 256 := hinfo x1 (by simp)
    have a2 : x2 < 256 := hinfo x2 (by simp)
    have a3 : x3 < 256 := hinfo x3 (by simp)
    exact ⟨⟨hd, hs, by omega, by omega, by omega, by omega, by omega, by omega, by omega, by omega⟩,
      Or.inr (by simp [lenS])⟩
  · -- SNL
    split at h
    · cases hps : Spec.params info.length info with
      | none => rw [hps] at h; cases h
      | some ps =>
        rw [hps] at h; cases h
        obtain ⟨hr, hsz⟩ := params_range _ _ _ hinfo hps
        refine ⟨⟨rfl, rfl, ?_, ?_⟩, Or.inl ?_⟩
        · intro x hx
          obtain ⟨p, hp, hfp⟩ := List.mem_filterMap.mp hx
          have := hr p hp
          cases p <;> simp [Spec.Param.getSdreq] at hfp
          subst hfp
          simp only [PRange] at this
          refine ⟨?_, ?_⟩ <;> dsimp only <;> omega
        · intro x hx
          obtain ⟨p, hp, hfp⟩ := List.mem_filterMap.mp hx
          have := hr p hp
          cases p <;> simp [Spec.Param.getSdres] at hfp
          subst hfp
          simp only [PRange] at this
          refine ⟨?_, ?_⟩ <;> dsimp only <;> omega
        · have := snl_size ps
          simp only [lenS]
          omega
    · cases h
  · -- DPS
    split at h
    · cases hps : Spec.params info.length info with
      | none => rw [hps] at h; cases h
      | some ps =>
        rw [hps] at h; cases h
        obtain ⟨hr, _⟩ := params_range _ _ _ hinfo hps
        have e := rS Spec.Param.getEcpk ps hr
          (by intro p v hp hfp; cases p <;> simp [Spec.Param.getEcpk] at hfp; subst hfp; exact hp)
        have n := rS Spec.Param.getRn ps hr
          (by intro p v hp hfp; cases p <;> simp [Spec.Param.getRn] at hfp; subst hfp; exact hp)
        refine ⟨⟨rfl, rfl, normOpt_valid _ e, normOpt_valid _ n⟩, Or.inr ?_⟩
        have := truthyLen_le _ e
        have := truthyLen_le _ n
        simp only [lenS]
        omega
    · cases h
  · -- unknown 1011
    cases h; exact ⟨⟨Or.inl rfl, hd, hs⟩, Or.inl (by simp [lenS]; omega)⟩
  · -- I
    rcases info with _ | ⟨sq, sdu⟩ <;> simp at h
    subst h
    have : sq < 256 := hinfo sq (by simp)
    exact ⟨⟨hd, hs, by omega, by omega⟩, Or.inl (by simp [lenS]; omega)⟩
  · -- RR
    rcases info with _ | ⟨sq, sdu⟩ <;> simp at h
    subst h
    exact ⟨⟨hd, hs, by omega⟩, Or.inr (by simp [lenS])⟩
  · -- RNR
    rcases info with _ | ⟨sq, sdu⟩ <;> simp at h
    subst h
    exact ⟨⟨hd, hs, by omega⟩, Or.inr (by simp [lenS])⟩
  · -- unknown 1111
    cases h; exact ⟨⟨Or.inr rfl, hd, hs⟩, Or.inl (by simp [lenS]; omega)⟩

theorem decodeS_valid' (e : Bytes) (he : IsBytes e) (q : SPdu) (h : Spec.decodeS e = some q) :
    ValidS (normS q) ∧ (lenS q ≤ e.length ∨ lenS q ≤ 520) := by
  match e, he, h with
  | [], _, h => cases h
  | [_], _, h => cases h
  | b0 :: b1 :: info, he, h =>
    have := decodeS_valid b0 b1 info he q h
    simpa using this

theorem aggregate_valid (n : Nat) (info : Bytes) (qs : List SPdu) (hb : IsBytes info)
    (h : Spec.aggregate Spec.decodeS n info = some qs) :
    ∀ q ∈ qs, ValidS (normS q) ∧ lenS q ≤ 65535 := by
  induction n generalizing info qs with
  | zero =>
    match info, h with
    | [], h => rw [aggregate_nil] at h; cases h; simp
    | _ :: _, h => cases h
  | succ k ih =>
    match info, hb, h with
    | [], _, h => rw [aggregate_nil] at h; cases h; simp
    | [x], _, h => rw [aggregate_single] at h; cases h
    | a :: b :: rest, hb, h =>
      rw [aggregate_cons] at h
      split at h
      · cases h
      · rename_i hl
        have hbr : IsBytes rest := fun x hx => hb x (by simp [hx])
        have ha : a < 256 := hb a (by simp)
        have hb' : b < 256 := hb b (by simp)
        cases hp : Spec.decodeS (rest.take (a * 256 + b)) with
        | none => rw [hp] at h; cases h
        | some p =>
          cases hq : Spec.aggregate Spec.decodeS k (rest.drop (a * 256 + b)) with
          | none => rw [hp, hq] at h; cases h
          | some ps =>
            rw [hp, hq] at h
            cases h
            have e2 : (rest.take (a * 256 + b)).length = a * 256 + b := by simp; omega
            obtain ⟨v1, v2⟩ := decodeS_valid' _ (isBytes_take hbr _) p hp
            rw [e2] at v2
            intro q hq'
            rcases List.mem_cons.mp hq' with rfl | hq'
            · exact ⟨v1, by omega⟩
            · exact ih _ ps (isBytes_drop hbr _) hq q hq'

theorem spec_valid (b : Bytes) (hb : IsBytes b) (p : Pdu) (h : Spec.decode b = some p) : Valid (norm p) := by
  match b, hb, h with
  | [], _, h => cases h
  | [_], _, h => cases h
  | b0 :: b1 :: info, hb, h =>
    have hinfo : IsBytes info := fun x hx => hb x (by simp [hx])
    simp only [Spec.decode] at h
    split at h
    · split at h
      · cases hagg : Spec.aggregate Spec.decodeS info.length info with
        | none => rw [hagg] at h; cases h
        | some qs =>
          rw [hagg] at h; cases h
          have hv := aggregate_valid _ _ _ hinfo hagg
          refine ⟨rfl, rfl, ?_⟩
          intro q hq
          obtain ⟨q', hq', rfl⟩ := List.mem_map.mp hq
          obtain ⟨v1, v2⟩ := hv q' hq'
          exact ⟨v1, by rw [lenS_norm]; exact v2⟩
      · cases h
    · cases hq : Spec.decodeS (b0 :: b1 :: info) with
      | none => rw [hq] at h; cases h
      | some q =>
        rw [hq] at h; cases h
        exact (decodeS_valid b0 b1 info hb q hq).1

/-- re-encoding a decoded PDU and decoding again gives the normal form of the PDU -/
theorem reencode (b : Bytes) (hb : IsBytes b) (p : Pdu) (h : decode b = .ok p) :
    ∃ b', encode p = .ok b' ∧ decode b' = .ok (norm p) := by
  have hs : Spec.decode b = some p := by rw [← decode_refines b hb, h]; rfl
  obtain ⟨b', he, hd⟩ := roundtrip (norm p) (spec_valid b hb p hs)
  exact ⟨b', by rw [← encode_norm]; exact he, hd⟩

/-- the normal form is a fixpoint: decoding the re-encoding again changes nothing more -/
theorem norm_idem (p : Pdu) : norm (norm p) = norm p := by
  have hO : ∀ o, normOpt (normOpt o) = normOpt o := by
    intro o; rcases o with _ | ⟨_ | ⟨x, xs⟩⟩ <;> rfl
  have hS : ∀ q, normS (normS q) = normS q := by
    intro q; cases q <;> simp [normS, hO]
  cases p with
  | simple q => simp [norm, hS]
  | agf d s items => simp [norm, hS]

theorem normOpt_of_valid (o : Option Bytes) (h : ∀ v, o = some v → v ≠ [] ∧ v.length ≤ 255) : normOpt o = o := by
  rcases o with _ | ⟨_ | ⟨x, xs⟩⟩
  · rfl
  · exact absurd rfl (h [] rfl).1
  · rfl

theorem normS_of_valid (q : SPdu) (h : ValidS q) : normS q = q := by
  cases q with
  | connect d s m r sn => simp only [normS, normOpt_of_valid sn h.2.2.2.2.2]
  | dps d s e r => simp only [normS, normOpt_of_valid e h.2.2.1, normOpt_of_valid r h.2.2.2]
  | _ => rfl

/-- a valid PDU is in normal form -/
theorem norm_of_valid (p : Pdu) (h : Valid p) : norm p = p := by
  cases p with
  | simple q => simp only [norm, normS_of_valid q h]
  | agf d s items =>
    simp only [norm]
    congr 1
    have hi : ∀ q ∈ items, normS q = q := fun q hq => normS_of_valid q (h.2.2 q hq).1
    clear h
    induction items with
    | nil => rfl
    | cons q qs ih =>
      simp only [List.map_cons, hi q (by simp), ih (fun x hx => hi x (by simp [hx]))]

end Impl
end NfcVerif.Pdu
