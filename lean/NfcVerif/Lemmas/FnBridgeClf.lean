import NfcVerif.Lemmas.FnBridgeBase
import NfcVerif.Gen.FnClf
import NfcVerif.Model.FnClfRef
/-!
# Group Clf: the control skeletons of `Model/Sense.lean` / `Model/Connect.lean` restated with the regenerated decisions

Every definition `<f>Gen` below is the model function `<f>` with each condition / argument check / dispatch chain
replaced by the corresponding definition of `Gen/FnClf.lean` (regenerated from `nfc/clf/__init__.py`).  Hand
written remain: the threading of the scripted world (`St`), the event log, the exception classification of the
`except` clauses (exception-flow tie) and the short-circuit order of `not terminate() and tag.is_present`.
`Props/FnBridgeClf.lean` proves `<f> = <f>Gen`.
-/
namespace NfcVerif.FnBridge.Clf
open NfcVerif NfcVerif.Clf NfcVerif.FnClfRef

/-! ## encodings -/

/-- a callback result as the `int | None` the cuts take: None, False = 0, True = 1, 0, 1; the empty list is
false like 0, a non-empty string true like 1 (only the truth value is read) -/
def encV : Val → Option Int
  | .none => none
  | .false_ => some 0
  | .true_ => some 1
  | .zero => some 0
  | .one => some 1
  | .emptyList => some 0
  | .str => some 1

/-- what a `_xxx_connect` step returned: None, an object (a marker), the on-release value -/
def encRet : RetVal → Option Int
  | .none => none
  | .obj _ => some 1
  | .val _ v => encV v

/-- an option dictionary that survived / did not survive the preparation -/
def mark {α} (o : Option α) : Option Int := o.map (fun _ => 1)

/-- a list of objects as a list of markers (only its length is read) -/
def markers {α} (l : List α) : List Int := l.map (fun _ => 0)

/-- `self.target = None`: the value the regenerated statement stores -/
def tgtOfNone : Unit → Tgt := fun _ => .none

def isRemote : Tgt → Bool
  | .remote _ => true
  | _ => false

def isLocal : Tgt → Bool
  | .loc _ => true
  | _ => false

def tgtId : Tgt → Nat
  | .remote i => i
  | .loc i => i
  | .none => 0

/-! ## sense() -/

/-- the response checks of the nested `sense_tta` on the target the driver returned -/
def checkTtaGen (sens rid : Bytes) : Py Unit :=
  if Gen.Fn.clf_tta_sens_len_bad sens = true then .error .protocol
  else Gen.Fn.clf_tta_is_t1t sens >>= fun t1t =>
    if t1t = true then Gen.Fn.clf_tta_t1t_checks sens rid else .ok ()

/-- an oracle that only says which nested function was called -/
def tagOracle (k : Int) : Int → Py (Option Int) := fun _ => .ok (some k)
def tagOracle2 (k : Int) : Int → Int → Py (Option Int) := fun _ _ => .ok (some k)

/-- the nested function the regenerated dispatch chain of `sense()` calls: 4 `sense_dep`, 1 `sense_tta`,
2 `sense_ttb`, 3 `sense_ttf` -/
def senseChoice (t : RT) : Py (Option Int) :=
  Gen.Fn.clf_sense_dispatch 0 t.atr t.brty (tagOracle 4) (tagOracle 1) (tagOracle 2) (tagOracle 3)

def senseDepGen (atr : Bytes) (s : St) : R (Option (Nat × Found)) :=
  match Gen.Fn.clf_dep_checks atr with
  | .error e => (.error e, s)
  | .ok _ => drvSense .senseDep s

def senseTtaGen (sel : Bytes) (s : St) : R (Option (Nat × Found)) :=
  match Gen.Fn.clf_tta_sel_req sel with
  | .error e => (.error e, s)
  | .ok _ =>
    match drvSense .senseA s with
    | (.ok (some (id, f)), s1) =>
      (match checkTtaGen f.sens f.rid with
       | .ok _ => (.ok (some (id, f)), s1)
       | .error e => (.error e, s1))
    | r => r

def senseOneGen (t : RT) (s : St) : R (Option (Nat × Found)) :=
  match senseChoice t with
  | .error e => (.error e, s)
  | .ok c =>
    if c = some 4 then senseDepGen (t.atr.getD []) s
    else if c = some 1 then senseTtaGen t.sel s
    else if c = some 2 then drvSense .senseB s
    else drvSense .senseF s

/-- `for target in targets:` of one iteration; the `except` clauses by hand -/
def senseTargetsGen (single : Bool) : List RT → St → R (Option (Nat × Found))
  | [], s => (.ok none, s)
  | t :: rest, s =>
    match senseOneGen t s with
    | (.ok r, s1) =>
      (match (if Gen.Fn.clf_sense_found (r.map (fun x => (x.1 : Int))) = true then r else none) with
       | some x => (.ok (some x), { s1 with target := .remote x.1 })
       | none => senseTargetsGen single rest s1)
    | (.error e, s1) =>
      if isTargetErr e then
        (if single then (.error e, s1) else senseTargetsGen single rest s1)
      else if isCommErr e then senseTargetsGen single rest s1
      else (.error e, s1)

/-- `for i in range(max(1, iterations))`, over the regenerated range -/
def senseItersGen (tl : List RT) (iters : Int) : List Int → St → R (Option (Nat × Found))
  | [], s => (.ok none, s)
  | i :: rest, s =>
    match senseTargetsGen (Gen.Fn.clf_sense_single (markers tl)) tl s with
    | (.ok (some x), s1) => (.ok (some x), s1)
    | (.error e, s1) => (.error e, s1)
    | (.ok none, s1) =>
      match (if Gen.Fn.clf_sense_mute (markers tl) = true then simpleCall .mute s1 else (.ok (), s1)) with
      | (.error e, s2) => (.error e, s2)
      | (.ok _, s2) =>
        senseItersGen tl iters rest (if Gen.Fn.clf_sense_sleep i iters = true then s2.emit .sleep else s2)

/-- the argument check loop in front of the lock -/
def argCheckGen : List Bool → Py Unit
  | [] => .ok ()
  | b :: rest =>
    match Gen.Fn.clf_sense_arg_check 0 b with
    | .error e => .error e
    | .ok _ => argCheckGen rest

/-- `ContactlessFrontend.sense(*targets, iterations=iters)`; an argument `none` is not a `RemoteTarget` -/
def senseGen (device : Option Int) (tl : List (Option RT)) (iters : Int) (s : St) : R (Option (Nat × Found)) :=
  match argCheckGen (tl.map Option.isSome) with
  | .error e => (.error e, s)
  | .ok _ =>
    match Gen.Fn.clf_sense_nodev device with
    | .error e => (.error e, s)
    | .ok _ =>
      match simpleCall .mute { s with target := tgtOfNone Gen.Fn.clf_sense_forget } with
      | (.error e, s1) => (.error e, s1)
      | (.ok _, s1) => senseItersGen (tl.filterMap id) iters (Gen.Fn.clf_sense_iters iters) s1

/-! ## listen() -/

/-- the nested function the regenerated dispatch chain of `listen()` calls: 4 `listen_dep`, 1 `listen_tta`,
2 `listen_ttb`, 3 `listen_ttf` -/
def listenChoice (atrRes : Option Bytes) (brty : String) : Py (Option Int) :=
  Gen.Fn.clf_listen_dispatch 0 0 atrRes brty (tagOracle2 4) (tagOracle2 1) (tagOracle2 2) (tagOracle2 3)

def listenGen (device : Option Int) (atrRes : Option Bytes) (brty : String) (s : St) : R (Option (Nat × Found)) :=
  match Gen.Fn.clf_listen_nodev device with
  | .error e => (.error e, s)
  | .ok _ =>
    match simpleCall .mute { s with target := tgtOfNone Gen.Fn.clf_listen_forget } with
    | (.error e, s1) => (.error e, s1)
    | (.ok _, s1) =>
      match listenChoice atrRes brty with
      | .error e => (.error e, s1)
      | .ok c =>
        if c = some 4 then
          (match drvListen .listenDep s1 with
           | (.ok (some (id, f)), s2) =>
             -- the nested `listen_dep`: the two length tests of the ATR_REQ the driver captured
             if Gen.Fn.clf_listen_dep_min (List.replicate f.atrLen 0) = true
                 ∧ Gen.Fn.clf_listen_dep_max (List.replicate f.atrLen 0) = true
             then (.ok (some (id, f)), { s2 with target := .loc id })
             else (.ok none, s2)
           | r => r)
        else
          (match drvListen (if c = some 1 then .listenA else if c = some 2 then .listenB else .listenF) s1 with
           | (.ok (some (id, f)), s2) => (.ok (some (id, f)), { s2 with target := .loc id })
           | r => r)

/-! ## exchange() -/

def exchangeGen (device : Option Int) (s : St) : R (Option Bytes) :=
  match Gen.Fn.clf_exchange_nodev device with
  | .error e => (.error e, s)
  | .ok _ =>
    -- the two driver methods as the markers 1 (`send_cmd_recv_rsp`) and 2 (`send_rsp_recv_cmd`)
    match Gen.Fn.clf_exchange_select (isRemote s.target) (isLocal s.target) 1 2 with
    | none => (.ok none, s)
    | some m =>
      let (a, s1) := s.ask (if m = 1 then .cmdRsp (tgtId s.target) else .rspCmd (tgtId s.target))
      xchgAnswer a s1

/-! ## _rdwr_connect -/

/-- `tag.is_present`: one `exchange()`; a CommunicationError means "gone" -/
def presentNow (s : St) : R Bool :=
  match exchange s with
  | (.ok (some _), s1) => (.ok true, s1)
  | (.ok none, s1) => (.ok false, s1)
  | (.error e, s1) => if isCommErr e then (.ok false, s1) else (.error e, s1)

/-- `while not terminate() and tag.is_present: time.sleep(0.1)`; `tag.is_present` is evaluated only when
`terminate()` was false (short circuit, by hand) -/
def presenceLoopGen : List Bool → St → Py Unit × St × List Bool
  | [], s => (.ok (), s.emit (.term true), [])
  | t :: r, s =>
    match (if t then ((.ok false : Py Bool), s.emit (.term t)) else presentNow (s.emit (.term t))) with
    | (.error e, s1) => (.error e, s1, r)
    | (.ok p, s1) =>
      if Gen.Fn.clf_rdwr_present t p = true then presenceLoopGen r (s1.emit .sleep) else (.ok (), s1, r)

/-- the default `on_discover` on the discovery responses of the target found: Type A answers carry SEL_RES,
Type F answers SENSF_RES (NFCID2 prefix 01FE iff peer-to-peer capable), others neither -/
def discoverBytes (f : Found) : Bytes × Bytes :=
  if f.tech = 1 then ([f.selRes], [])
  else if f.tech = 3 then ([], 1 :: (if f.p2p then [1, 254] else [2, 254]))
  else if f.p2p then ([64], []) else ([], [])

def defaultDiscoverGen (f : Found) : Val :=
  match Gen.Fn.clf_connect_default_discover (discoverBytes f).1 (discoverBytes f).2 with
  | .ok true => .true_
  | _ => .false_

def rdwrStepGen (o : RdwrOpts) (ts : List Bool) (s : St) : StepOut :=
  match sense o.targets o.iters s with
  | (.error e, s1) => (.error e, s1, ts)
  | (.ok r, s1) =>
    match (if Gen.Fn.clf_rdwr_found (r.map (fun x => (x.1 : Int))) = true then r else none) with
    | none => (.ok .none, s1, ts)
    | some (_, f) =>
      let (dv, s2) := o.discover.run (defaultDiscoverGen f) .rdwr .discover s1
      if !Gen.Fn.clf_rdwr_discover (encV dv) then (.ok .none, s2, ts) else
      match tagActivate f s2 with
      | (.error e, s3) => (.error e, s3, ts)
      | (.ok tag, s3) =>
        if !Gen.Fn.clf_rdwr_activated (tag.map (fun _ => 1)) then (.ok .none, s3, ts) else
        let (cv, s4) := o.connect.run .true_ .rdwr .connect s3
        if !Gen.Fn.clf_rdwr_connect (encV cv) then (.ok (.obj .rdwr), s4, ts) else
        (match (if Gen.Fn.clf_rdwr_beep (some (if o.beep then 1 else 0)) = true then simpleCall .ledOn s4 else (.ok (), s4)) with
         | (.error e, s5) => (.error e, s5, ts)
         | (.ok _, s5) =>
           match presenceLoopGen ts s5 with
           | (.error e, s6, ts1) => (.error e, s6, ts1)
           | (.ok _, s6, ts1) =>
             match simpleCall .ledOff s6 with
             | (.error e, s7) => (.error e, s7, ts1)
             | (.ok _, s7) =>
               let (rv, s8) := o.release.run .true_ .rdwr .release s7
               (.ok (.val .rdwr rv), s8, ts1))

/-! ## _llcp_connect -/

/-- one role of `_llcp_connect` with the regenerated decisions on `llc.activate(..)` and on-connect -/
def llcpRoleGen (o : LlcpOpts) (initiator : Bool) (ts : List Bool) (s : St) : Option (Py RetVal) × St × List Bool :=
  let (a, s1) := s.ask (.llcActivate initiator)
  match a with
  | .ioError => (some (.error (.io 5)), s1, ts)
  | .kbd => (some (.error .keyboardInterrupt), s1, ts)
  | _ =>
    -- `llc.activate` returns True for a link, False otherwise
    if !Gen.Fn.clf_llcp_activated (some (match a with | .found _ => 1 | _ => 0)) then (none, s1, ts) else
    let (cv, s2) := o.connect.run .true_ .llcp .connect s1
    if !Gen.Fn.clf_llcp_connect (encV cv) then (some (.ok (.obj .llcp)), s2, ts) else
    let (a2, s3) := s2.ask .llcRun
    (match a2 with
     | .ioError => (some (.error (.io 5)), s3, ts)
     | .kbd => (some (.error .keyboardInterrupt), s3, ts)
     | .sysExit => (some (.error .systemExit), s3, ts)
     | _ =>
       let (s4, ts1) := runPolls (match a2 with | .polls n => n | _ => 0) ts s3
       let (rv, s5) := o.release.run .true_ .llcp .release s4
       (some (.ok (.val .llcp rv)), s5, ts1))

/-- `for role in ('target', 'initiator'):` over the regenerated tuple, with the regenerated role test -/
def llcpRolesGen (o : LlcpOpts) : List String → List Bool → St → StepOut
  | [], ts, s => (.ok .none, s, ts)
  | role :: rest, ts, s =>
    if Gen.Fn.clf_llcp_role_match role (roleNone o.role) (roleName o.role) = true then
      (match llcpRoleGen o (role == "initiator") ts s with
       | (some r, s1, ts1) => (r, s1, ts1)
       | (none, s1, ts1) => llcpRolesGen o rest ts1 s1)
    else llcpRolesGen o rest ts s

def llcpStepGen (o : LlcpOpts) (ts : List Bool) (s : St) : StepOut :=
  llcpRolesGen o [Gen.Fn.clf_llcp_roles.1, Gen.Fn.clf_llcp_roles.2] ts s

/-- the pass-through comprehension `{k: options[k] for k in dep_cfg if k in options}` over the regenerated key
tuple and filter -/
def depCfgGen (options : String → Option Int) : List (String × Int) :=
  let k := Gen.Fn.clf_llcp_dep_keys
  [k.1, k.2.1, k.2.2.1, k.2.2.2.1, k.2.2.2.2].filterMap (fun key =>
    if Gen.Fn.clf_llcp_dep_key_fwd (options key).isSome = true then (options key).map (fun v => (key, v)) else none)

/-! ## _card_connect -/

def cardLoopGen : List Bool → St → Py Unit × St × List Bool
  | [], s => (.ok (), s.emit (.term true), [])
  | t :: r, s =>
    if Gen.Fn.clf_card_go_on t = true then
      (match exchange (s.emit (.term t)) with
       | (.ok _, s1) => cardLoopGen r s1
       | (.error e, s1) =>
         if e = .brokenLink then (.ok (), s1, r)
         else if isCommErr e then cardLoopGen r s1
         else (.error e, s1, r))
    else (.ok (), s.emit (.term t), r)

def cardStepGen (o : CardOpts) (ts : List Bool) (s : St) : StepOut :=
  match listen o.target s with
  | (.error e, s1) =>
    if isCommErr e then (.ok .none, s1, ts) else (.error e, s1, ts)
  | (.ok r, s1) =>
    match r with
    | none =>
      -- `target and ..`: on-discover is not called without a target (short circuit)
      (.ok .none, s1, ts)
    | some (_, f) =>
      let (dv, s2) := o.discover.run .true_ .card .discover s1
      if !Gen.Fn.clf_card_discover true (encV dv) then (.ok .none, s2, ts) else
      let s3 := s2.emit (.call .emulate (.found f))
      if !emulates o.target f then (.ok .none, s3, ts) else
      let (cv, s4) := o.connect.run .true_ .card .connect s3
      if !Gen.Fn.clf_card_connect (encV cv) then (.ok (.obj .card), s4, ts) else
      (match cardLoopGen ts s4 with
       | (.error e, s5, ts1) => (.error e, s5, ts1)
       | (.ok _, s5, ts1) =>
         let (rv, s6) := o.release.run .true_ .card .release s5
         (.ok (.val .card rv), s6, ts1))

/-! ## connect(): main loop and option preparation -/

/-- one `if xxx_options: result = self._xxx_connect(..); if bool(result) is True: return result` -/
def tryStepGen (has done : Option Int → Bool) (f : Option (List Bool → St → StepOut)) (ts : List Bool) (s : St) :
    Option (Py RetVal × St) × St × List Bool :=
  if has (mark f) = true then
    match f with
    | none => (none, s, ts)
    | some g =>
      match g ts s with
      | (.error e, s1, ts1) => (some (.error e, s1), s1, ts1)
      | (.ok v, s1, ts1) => if done (encRet v) = true then (some (.ok v, s1), s1, ts1) else (none, s1, ts1)
  else (none, s, ts)

def mainLoopGen (l : Live) : Nat → List Bool → St → Option (Py RetVal × St)
  | 0, _, _ => none
  | k + 1, ts, s =>
    match askTerm ts s with
    | (t, s0, ts0) =>
      if Gen.Fn.clf_connect_go_on t = true then
        match tryStepGen Gen.Fn.clf_connect_has_rdwr Gen.Fn.clf_connect_rdwr_done (l.rdwr.map rdwrStepGen) ts0 s0 with
        | (some r, _, _) => some r
        | (none, s1, ts1) =>
          match tryStepGen Gen.Fn.clf_connect_has_llcp Gen.Fn.clf_connect_llcp_done (l.llcp.map llcpStepGen) ts1 s1 with
          | (some r, _, _) => some r
          | (none, s2, ts2) =>
            match tryStepGen Gen.Fn.clf_connect_has_card Gen.Fn.clf_connect_card_done (l.card.map cardStepGen) ts2 s2 with
            | (some r, _, _) => some r
            | (none, s3, ts3) => mainLoopGen l k ts3 s3
      else some (.ok .none, s0)

/-- what the rdwr on-startup gave back, as the cut reads it: the list (markers) and the `all(isinstance ..)` test -/
def rdwrReturned (r : RdwrOpts) : List Int × Bool :=
  match r.startup with
  | some (.falsy, _) => ([], true)
  | some (.wrongType, _) => ([0], false)
  | _ => (markers r.targets, true)

/-- pick the option back out of the marker the cut returns -/
def keepIf {α} (m : Option Int) (o : α) : Option α := if m.isSome then some o else none

def startupRestGen (o : Opts) (ll : Option LlcpOpts) (s1 : St) : Py Live × St :=
  match o.rdwr with
  | some r =>
    let s2 := startupEvent .rdwr r.startup s1
    if (match r.startup with | some (.nonIterable, _) => true | _ => false) then (.error .type_, s2)
    else
      let rr := keepIf (Gen.Fn.clf_connect_rdwr_startup (some 1) (rdwrReturned r).1 (rdwrReturned r).2) r
      (match o.card with
       | Option.none => (.ok ⟨rr, ll, Option.none⟩, s2)
       | some c => (.ok ⟨rr, ll, keepIf (Gen.Fn.clf_connect_card_startup (some 1) (keeps .card c.startup)) c⟩,
                    startupEvent .card c.startup s2))
  | Option.none =>
    (match o.card with
     | Option.none => (.ok ⟨Option.none, ll, Option.none⟩, s1)
     | some c => (.ok ⟨Option.none, ll, keepIf (Gen.Fn.clf_connect_card_startup (some 1) (keeps .card c.startup)) c⟩,
                  startupEvent .card c.startup s1))

def startupPhaseGen (o : Opts) (s : St) : Py Live × St :=
  match o.llcp with
  | Option.none => startupRestGen o Option.none s
  | some l =>
    startupRestGen o (keepIf (Gen.Fn.clf_connect_llcp_startup (some 1) (keeps .llcp l.startup)) l)
      (startupEvent .llcp l.startup s)

/-- `ContactlessFrontend.connect(**options)`; `device` is `self.device` -/
def connectGen (device : Option Int) (o : Opts) (env : List Ans) (ts : List Bool) : Outcome × St :=
  match Gen.Fn.clf_connect_nodev device with
  | .error e => (.raised e, St.init env)
  | .ok _ =>
    match startupPhaseGen o (St.init env) with
    | (.error e, s) => (.raised e, s)
    | (.ok l, s) =>
      if Gen.Fn.clf_connect_no_options (mark l.rdwr) (mark l.llcp) (mark l.card) = true then (.ret .none, s)
      else
        match mainLoopGen l (ts.length + 1) ts s with
        | some (.ok v, s1) => (.ret v, s1)
        | some (.error e, s1) => if isCaught e then (.caught e, s1) else (.raised e, s1)
        | none => (.raised .outOfFuel, s)

end NfcVerif.FnBridge.Clf
