import NfcVerif.Gen.FnT12Ops
import NfcVerif.Gen.FnTagCmd
import NfcVerif.Model.FnT12OpsRef
import NfcVerif.Lemmas.FnBridgeBase
/-!
Glue and helper lemmas for `Props/FnBridgeT12Ops.lean`.

`Type2Tag.sector_select` contains a `try / except .. as error: if ..: raise / else:` statement that the function
translator refuses as a whole.  The method is therefore translated in slices (guard, packet 1 + `transceive`,
the ACK test [group TagCmd], the test inside the handler, the two `raise` branches, the statements behind the
`if` = the assignment of `_current_sector`, the `return`), each addressed by its position in the statement
tree, and `genSectorSelect` puts the slices together the way the statement tree nests them.  The nesting itself
(which slice sits in which branch) is fixed by the `path=` of every slice: a slice that moves to another branch
is no longer found at its path and the regenerated definition is refused.
-/
namespace NfcVerif.FnBridge.T12Ops
open NfcVerif NfcVerif.PyFn

/-- the slices of `Type2Tag.sector_select`, nested as in the source; `cur` is `_current_sector` (`none` = Python
`None`: the guard slice is translated for an int, and `sector != None` is true); `p2` is the outcome of the
`transceive` of packet 2 (keyword arguments `timeout=0.001, retries=0`: not translatable).  Result: value /
exception and `_current_sector` afterwards.  `genSelectSend` is the body of `if sector != self._current_sector:`. -/
def genSelectSend (cur : Option Int) (sector : Int) (tx1 : Bytes → Py Bytes) (p2 : Py Bytes) :
    Py (Option Int) × Option Int :=
  match Gen.Fn.t2o_ss_send1 tx1 with
  | .error e => (.error e, cur)
  | .ok rsp =>
    match Gen.Fn.t2_sector_ack rsp with
    | .error e => (.error e, cur)
    | .ok true =>
      (match p2 with
       | .error (.tagCmd code) =>
         -- `except Type2TagCommandError as error: if int(error) != TIMEOUT_ERROR: self._current_sector = None; raise`
         if Gen.Fn.t2o_ss_p2_passive code = true then (.error (.tagCmd code), Gen.Fn.t2o_ss_p2_forget)
         else (.ok (Gen.Fn.t2o_ss_ret (some (Gen.Fn.t2o_ss_commit sector))), some (Gen.Fn.t2o_ss_commit sector))
       | .error e => (.error e, cur)
       | .ok _ =>
         -- `else:` of the try statement
         match Gen.Fn.t2o_ss_no_sector sector with
         | .error e => (.error e, cur)
         | .ok _ => (.ok (Gen.Fn.t2o_ss_ret (some (Gen.Fn.t2o_ss_commit sector))), some (Gen.Fn.t2o_ss_commit sector)))
    | .ok false =>
      match Gen.Fn.t2o_ss_unsupported with
      | .error e => (.error e, cur)
      | .ok _ => (.ok (Gen.Fn.t2o_ss_ret (some (Gen.Fn.t2o_ss_commit sector))), some (Gen.Fn.t2o_ss_commit sector))

/-- the whole method: the guard (for `None` the Python test `sector != None` is true), then the body of the `if`
(`genSelectSend`: the slices nested as in the source) or the plain `return` -/
def genSectorSelect (cur : Option Int) (sector : Int) (tx1 : Bytes → Py Bytes) (p2 : Py Bytes) :
    Py (Option Int) × Option Int :=
  match cur with
  | none => genSelectSend cur sector tx1 p2
  | some c =>
    if Gen.Fn.t2o_ss_guard sector c = true then genSelectSend cur sector tx1 p2
    else (.ok (Gen.Fn.t2o_ss_ret cur), cur)

/-- the two slices of the NAK branch of `Type2Tag.read` behind the re-activation (`self._target = self.clf.sense(..)`,
not translated): statement 3 assigns `_current_sector`, statement 4 raises.  Result: exception, `_current_sector`. -/
def genReadNak (alive : Bool) : Py Unit × Int :=
  (Gen.Fn.t2o_read_nak_exc alive, Gen.Fn.t2o_read_nak_reset)

theorem ack_eq (rsp : Bytes) : Gen.Fn.t2_sector_ack rsp = .ok (decide (rsp = [0x0A])) := by
  unfold Gen.Fn.t2_sector_ack
  match rsp with
  | [] => simp [len]
  | [b] =>
    simp only [len, List.length_singleton, getB_zero]
    by_cases h : b = 10
    · subst h; simp
    · have : ¬ ((b : Int) = 10) := by omega
      simp [h, this]
  | a :: b :: r =>
    have : ¬ ((r.length : Int) + 1 + 1 = 1) := by omega
    simp [len, this]

end NfcVerif.FnBridge.T12Ops
