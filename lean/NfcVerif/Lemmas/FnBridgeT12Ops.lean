import NfcVerif.Gen.FnT12Ops
import NfcVerif.Gen.FnTagCmd
import NfcVerif.Model.FnT12OpsRef
import NfcVerif.Model.SectC03
import NfcVerif.Lemmas.FnBridgeBase
/-!
Glue and helper lemmas for `Props/FnBridgeT12Ops.lean`.

`Type2Tag.sector_select` contains a `try / except .. as error: if ..: raise / else:` statement that the function
translator refuses as a whole.  The method is therefore translated in slices (guard, packet 1 + `transceive`,
the ACK test [group TagCmd], the test inside the handler, the two `raise` branches, the statements behind the
`if` = the assignment of `_current_sector`, the `return`), each addressed by its position in the statement
tree, and `genSectorSelect` puts the slices together the way the statement tree nests them.  The nesting itself
(which slice sits in which branch) is fixed by the `path=` of every slice: a slice that moves to another branch
is no longer found at its path and the regenerated definition is refused.
-/
namespace NfcVerif.FnBridge.T12Ops
open NfcVerif NfcVerif.PyFn

/-- the slices of `Type2Tag.sector_select`, nested as in the source; `p2` is the outcome of the `transceive` of
packet 2 (keyword arguments `timeout=0.001, retries=0`: not translatable).  Result: value / exception and
`_current_sector` afterwards. -/
def genSectorSelect (cur sector : Int) (tx1 : Bytes → Py Bytes) (p2 : Py Bytes) : Py Int × Int :=
  if Gen.Fn.t2o_ss_guard sector cur = true then
    match Gen.Fn.t2o_ss_send1 tx1 with
    | .error e => (.error e, cur)
    | .ok rsp =>
      match Gen.Fn.t2_sector_ack rsp with
      | .error e => (.error e, cur)
      | .ok true =>
        (match p2 with
         | .error (.tagCmd code) =>
           -- `except Type2TagCommandError as error: if int(error) != TIMEOUT_ERROR: raise`
           if Gen.Fn.t2o_ss_p2_passive code = true then (.error (.tagCmd code), cur)
           else (.ok (Gen.Fn.t2o_ss_ret (Gen.Fn.t2o_ss_commit sector)), Gen.Fn.t2o_ss_commit sector)
         | .error e => (.error e, cur)
         | .ok _ =>
           -- `else:` of the try statement
           match Gen.Fn.t2o_ss_no_sector sector with
           | .error e => (.error e, cur)
           | .ok _ => (.ok (Gen.Fn.t2o_ss_ret (Gen.Fn.t2o_ss_commit sector)), Gen.Fn.t2o_ss_commit sector))
      | .ok false =>
        match Gen.Fn.t2o_ss_unsupported with
        | .error e => (.error e, cur)
        | .ok _ => (.ok (Gen.Fn.t2o_ss_ret (Gen.Fn.t2o_ss_commit sector)), Gen.Fn.t2o_ss_commit sector)
  else (.ok (Gen.Fn.t2o_ss_ret cur), cur)

/-- the two slices of the NAK branch of `Type2Tag.read` behind the re-activation (`self._target = self.clf.sense(..)`,
not translated): statement 3 assigns `_current_sector`, statement 4 raises.  Result: exception, `_current_sector`. -/
def genReadNak (alive : Bool) : Py Unit × Int :=
  (Gen.Fn.t2o_read_nak_exc alive, Gen.Fn.t2o_read_nak_reset)

/-- the reader's view of one `clf.exchange` of the sector model as an outcome of `transceive(.., retries=0)` -/
def p2Of : Except SectC03.RErr Bytes → Py Bytes
  | .ok d => .ok d
  | .error e => .error (SectC03.errOf e)

theorem ack_eq (rsp : Bytes) : Gen.Fn.t2_sector_ack rsp = .ok (decide (rsp = [0x0A])) := by
  unfold Gen.Fn.t2_sector_ack
  match rsp with
  | [] => simp [len]
  | [b] =>
    simp only [len, List.length_singleton, getB_zero]
    by_cases h : b = 10
    · subst h; simp
    · have : ¬ ((b : Int) = 10) := by omega
      simp [h, this]
  | a :: b :: r =>
    have : ¬ ((r.length : Int) + 1 + 1 = 1) := by omega
    simp [len, this]

/-! the air interface of the sector model never touches `_current_sector` -/
theorem execute_cur (w : SectC03.W) (mr : Bool) (f : SectC03.Frame) (rest : List SectC03.Air) :
    (SectC03.execute w mr f rest).1.cur = w.cur := rfl

theorem exchange_cur (w : SectC03.W) (mr : Bool) (f : SectC03.Frame) : (SectC03.exchange w mr f).1.cur = w.cur := by
  unfold SectC03.exchange
  split
  · rfl
  · rfl
  · rfl
  · rfl
  · rfl

theorem transceive_cur (mr : Bool) (f : SectC03.Frame) :
    ∀ (n : Nat) (w : SectC03.W) (e : SectC03.RErr), (SectC03.transceive n w mr f e).1.cur = w.cur := by
  intro n
  induction n with
  | zero => intro w e; rfl
  | succ n ih =>
    intro w e
    unfold SectC03.transceive
    have hx := exchange_cur w mr f
    generalize SectC03.exchange w mr f = r at hx
    obtain ⟨w', o⟩ := r
    cases o with
    | ok d => exact hx
    | error e' => simp only; rw [ih w' e']; exact hx

end NfcVerif.FnBridge.T12Ops
