import NfcVerif.Gen.FnPn53x
import NfcVerif.Lemmas.FnBridgePn53xCommon
import NfcVerif.Lemmas.HostFrame
import NfcVerif.Model.FnPn53xRef
import NfcVerif.Model.ErrMap
/-!
Helper lemmas for `Props/FnBridgePn53x.lean` (`pn53x.Chipset.command` against `Model/HostFrame.lean`).
-/
namespace NfcVerif.FnBridge.Pn53x
open NfcVerif NfcVerif.PyFn NfcVerif.HostFrame NfcVerif.FnBridge.HostLink

/-- the two length octets of an extended frame, as `struct.pack(">H", n)` writes them -/
theorem ext_len_sum (n : Nat) (h : n < 65536) :
    (256 - HostFrame.sum [n / 256 % 256, n % 256] % 256) % 256 = (512 - (n / 256 + n % 256)) % 256 := by
  have h6 : n / 256 % 256 = n / 256 := Nat.mod_eq_of_lt (by omega)
  have h7 : HostFrame.sum [n / 256, n % 256] = n / 256 + n % 256 := by simp [HostFrame.sum]
  rw [h6, h7]; omega

end NfcVerif.FnBridge.Pn53x
