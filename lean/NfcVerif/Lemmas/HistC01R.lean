import NfcVerif.Lemmas.HistC01
/-! C01: histories on Type 1 / Type 2 Tags with the repaired memory reader (`syncUnitsR`): the round trip holds for
faults of both kinds -/
namespace NfcVerif.Hist
open NfcVerif NfcVerif.Tlv

structure LenR (st : RSR) (n : Nat) : Prop where
  tag : st.tag.length = n
  belief : st.belief.length = n
  cache : st.cache.length = n

/-- outside the set of unconfirmed units the picture equals the tag -/
def UnitSync (u : Nat) (st : RSR) : Prop :=
  ∀ i, i ∉ st.dirty → sliceN st.tag (i * u) (i * u + u) = sliceN st.belief (i * u) (i * u + u)

theorem slice_writeAt_same (b c : Bytes) (u i : Nat) (hl : b.length = c.length) :
    sliceN (writeAt b (i * u) (sliceN c (i * u) (i * u + u))) (i * u) (i * u + u) = sliceN c (i * u) (i * u + u) := by
  apply sliceN_eq_of
  intro k hk
  rw [writeAt_slice_get _ _ _ _ _ hl, if_pos (by omega)]

theorem syncUnitsR_cache (u : Nat) (is : List Nat) (st : RSR) (f : Option Fault) :
    (syncUnitsR u is st f).st.cache = st.cache := by
  induction is generalizing st f with
  | nil => rfl
  | cons i is ih =>
    simp only [syncUnitsR]
    split
    · split
      · split <;> rfl
      · simp only [ih]
    · exact ih st f

theorem syncUnitsR_len (u : Nat) (is : List Nat) (st : RSR) (f : Option Fault) (n : Nat) (h : LenR st n) :
    LenR (syncUnitsR u is st f).st n := by
  induction is generalizing st f with
  | nil => exact h
  | cons i is ih =>
    simp only [syncUnitsR]
    split
    · split
      · split
        · exact ⟨by simp only [writeAt_length]; exact h.tag, h.belief, h.cache⟩
        · exact ⟨h.tag, h.belief, h.cache⟩
      · exact ih _ _ ⟨by simp only [writeAt_length]; exact h.tag, by simp only [writeAt_length]; exact h.belief, h.cache⟩
    · exact ih st f h

theorem syncUnitsR_none (u : Nat) (is : List Nat) (st : RSR) :
    (syncUnitsR u is st none).failed = false ∧ (syncUnitsR u is st none).fault = none := by
  induction is generalizing st with
  | nil => exact ⟨rfl, rfl⟩
  | cons i is ih =>
    simp only [syncUnitsR]
    split
    · exact ih _
    · exact ih st

theorem syncUnitsR_below (u : Nat) (is : List Nat) (st : RSR) (f : Option Fault) (m : Bytes) (B : Nat)
    (hl : LenR st m.length) (hc : ∀ x, x < B → st.cache[x]? = m[x]?) (ht : ∀ x, x < B → st.tag[x]? = m[x]?) :
    ∀ x, x < B → (syncUnitsR u is st f).st.tag[x]? = m[x]? := by
  induction is generalizing st f with
  | nil => exact ht
  | cons i is ih =>
    have hwt : ∀ x, x < B → (writeAt st.tag (i * u) (sliceN st.cache (i * u) (i * u + u)))[x]? = m[x]? := by
      intro x hx
      rw [writeAt_slice_get _ _ _ _ _ (by rw [hl.tag, hl.cache])]
      split
      · exact hc x hx
      · exact ht x hx
    simp only [syncUnitsR]
    split
    · split
      · split
        · exact hwt
        · exact ht
      · exact ih _ _ ⟨by simp only [writeAt_length]; exact hl.tag, by simp only [writeAt_length]; exact hl.belief, hl.cache⟩
          hc hwt
    · exact ih st f hl hc ht

theorem mem_filter_ne {l : List Nat} {i j : Nat} : j ∈ l.filter (· ≠ i) ↔ j ∈ l ∧ j ≠ i := by
  simp [List.mem_filter]

/-- the state after unit `i` was sent and acknowledged -/
theorem unitSync_step (u : Nat) (st : RSR) (i n : Nat) (hl : LenR st n) (h : UnitSync u st) :
    UnitSync u { tag := writeAt st.tag (i * u) (sliceN st.cache (i * u) (i * u + u)),
                 belief := writeAt st.belief (i * u) (sliceN st.cache (i * u) (i * u + u)),
                 cache := st.cache, dirty := st.dirty.filter (· ≠ i) } := by
  intro j hj
  simp only at hj ⊢
  by_cases hji : j = i
  · subst hji
    rw [slice_writeAt_same _ _ _ _ (by rw [hl.tag, hl.cache]), slice_writeAt_same _ _ _ _ (by rw [hl.belief, hl.cache])]
  · have hjd : j ∉ st.dirty := fun hm => hj (mem_filter_ne.2 ⟨hm, hji⟩)
    rw [slice_writeAt_other _ _ _ _ _ hji (by rw [hl.tag, hl.cache]),
      slice_writeAt_other _ _ _ _ _ hji (by rw [hl.belief, hl.cache])]
    exact h j hjd

/-- the picture equals the tag outside the unconfirmed units after every write-back, failed or not, whatever the fault -/
theorem syncUnitsR_unitSync (u : Nat) (is : List Nat) (st : RSR) (f : Option Fault) (n : Nat) (hl : LenR st n)
    (h : UnitSync u st) : UnitSync u (syncUnitsR u is st f).st := by
  induction is generalizing st f with
  | nil => exact h
  | cons i is ih =>
    have hfail : ∀ t : Bytes, t.length = n → (t = st.tag ∨ t = writeAt st.tag (i * u) (sliceN st.cache (i * u) (i * u + u))) →
        UnitSync u { st with tag := t, dirty := i :: st.dirty.filter (· ≠ i) } := by
      intro t _ ht j hj
      simp only [List.mem_cons, not_or] at hj
      have hjd : j ∉ st.dirty := fun hm => hj.2 (mem_filter_ne.2 ⟨hm, hj.1⟩)
      simp only
      rcases ht with ht | ht
      · rw [ht]; exact h j hjd
      · rw [ht, slice_writeAt_other _ _ _ _ _ hj.1 (by rw [hl.tag, hl.cache])]; exact h j hjd
    by_cases hne : sliceN st.cache (i * u) (i * u + u) ≠ sliceN st.belief (i * u) (i * u + u) ∨ i ∈ st.dirty
    · rcases f with _ | ⟨k, late⟩
      · simp only [syncUnitsR, if_pos hne]
        exact ih _ _ ⟨by simp only [writeAt_length]; exact hl.tag, by simp only [writeAt_length]; exact hl.belief, hl.cache⟩
          (unitSync_step u st i n hl h)
      · cases k with
        | zero =>
          simp only [syncUnitsR, if_pos hne]
          cases late with
          | true => exact hfail _ (by rw [writeAt_length]; exact hl.tag) (Or.inr rfl)
          | false => exact hfail _ hl.tag (Or.inl rfl)
        | succ k =>
          simp only [syncUnitsR, if_pos hne]
          exact ih _ _ ⟨by simp only [writeAt_length]; exact hl.tag, by simp only [writeAt_length]; exact hl.belief, hl.cache⟩
            (unitSync_step u st i n hl h)
    · simp only [syncUnitsR, if_neg hne]
      exact ih st f hl h

/-- the tag after a write-back that did not fail: every handled unit holds the cache content -/
theorem syncUnitsR_done (u : Nat) (is : List Nat) (st : RSR) (f : Option Fault) (n : Nat) (hl : LenR st n)
    (hs : UnitSync u st) (hok : (syncUnitsR u is st f).failed = false) :
    ∀ x, (syncUnitsR u is st f).st.tag[x]? =
      if ∃ i ∈ is, i * u ≤ x ∧ x < i * u + u then st.cache[x]? else st.tag[x]? := by
  induction is generalizing st f with
  | nil => intro x; simp [syncUnitsR]
  | cons i is ih =>
    intro x
    have hl' : LenR ({ tag := writeAt st.tag (i * u) (sliceN st.cache (i * u) (i * u + u)),
                       belief := writeAt st.belief (i * u) (sliceN st.cache (i * u) (i * u + u)),
                       cache := st.cache, dirty := st.dirty.filter (· ≠ i) } : RSR) n :=
      ⟨by simp only [writeAt_length]; exact hl.tag, by simp only [writeAt_length]; exact hl.belief, hl.cache⟩
    have step : ∀ (s1 : RSR) f', s1 = (⟨writeAt st.tag (i * u) (sliceN st.cache (i * u) (i * u + u)),
          writeAt st.belief (i * u) (sliceN st.cache (i * u) (i * u + u)), st.cache, st.dirty.filter (· ≠ i)⟩ : RSR) →
        (syncUnitsR u is s1 f').failed = false →
        (syncUnitsR u is s1 f').st.tag[x]? =
          if ∃ a ∈ i :: is, a * u ≤ x ∧ x < a * u + u then st.cache[x]? else st.tag[x]? := by
      intro s1 f' hs1 hok'
      subst hs1
      rw [ih _ _ hl' (unitSync_step u st i n hl hs) hok' x]
      simp only [List.mem_cons, exists_eq_or_imp]
      by_cases h2 : ∃ a ∈ is, a * u ≤ x ∧ x < a * u + u
      · rw [if_pos h2, if_pos (Or.inr h2)]
      · rw [if_neg h2, writeAt_slice_get _ _ _ _ _ (by rw [hl.tag, hl.cache])]
        by_cases h1 : i * u ≤ x ∧ x < i * u + u
        · rw [if_pos h1, if_pos (Or.inl h1)]
        · rw [if_neg h1, if_neg (by rintro (h | h); exact h1 h; exact h2 h)]
    by_cases hne : sliceN st.cache (i * u) (i * u + u) ≠ sliceN st.belief (i * u) (i * u + u) ∨ i ∈ st.dirty
    · rcases f with _ | ⟨k, late⟩
      · simp only [syncUnitsR, if_pos hne] at hok ⊢
        exact step _ _ rfl hok
      · cases k with
        | zero =>
          simp only [syncUnitsR, if_pos hne] at hok
          split at hok <;> cases hok
        | succ k =>
          simp only [syncUnitsR, if_pos hne] at hok ⊢
          exact step _ _ rfl hok
    · simp only [syncUnitsR, if_neg hne] at hok ⊢
      rw [ih st f hl hs hok x]
      simp only [List.mem_cons, exists_eq_or_imp]
      by_cases h2 : ∃ a ∈ is, a * u ≤ x ∧ x < a * u + u
      · rw [if_pos h2, if_pos (Or.inr h2)]
      · rw [if_neg h2]
        by_cases h1 : i * u ≤ x ∧ x < i * u + u
        · rw [if_pos (Or.inl h1)]
          have hne' : sliceN st.cache (i * u) (i * u + u) = sliceN st.belief (i * u) (i * u + u) ∧ i ∉ st.dirty := by
            constructor
            · apply Classical.byContradiction; intro hc; exact hne (Or.inl hc)
            · intro hc; exact hne (Or.inr hc)
          have heq : sliceN st.tag (i * u) (i * u + u) = sliceN st.cache (i * u) (i * u + u) := by
            rw [hs i hne'.2, hne'.1]
          have := congrArg (fun l => l[x - i * u]?) heq
          simp only [sliceN_get, if_pos (show x - i * u < u by omega)] at this
          have e : i * u + (x - i * u) = x := by omega
          rw [e] at this; exact this
        · rw [if_neg (by rintro (h | h); exact h1 h; exact h2 h)]

theorem syncR_done (u : Nat) (hu : 0 < u) (st : RSR) (f : Option Fault) (n : Nat) (hl : LenR st n) (hs : UnitSync u st)
    (hok : (syncR u st f).failed = false) : (syncR u st f).st.tag = st.cache := by
  apply List.ext_getElem?
  intro x
  unfold syncR at hok ⊢
  rw [syncUnitsR_done u _ st f n hl hs hok x]
  by_cases hx : x < n
  · rw [if_pos]
    refine ⟨x / u, ?_, ?_⟩
    · rw [List.mem_range, hl.belief]
      have h1 := Nat.div_add_mod x u
      have h2 := Nat.mod_lt x hu
      have h3 := Nat.div_add_mod (n + u - 1) u
      have h4 := Nat.mod_lt (n + u - 1) hu
      apply Classical.byContradiction
      intro hge
      have hge : (n + u - 1) / u ≤ x / u := by omega
      have := Nat.mul_le_mul_left u hge
      omega
    · have := div_bounds x u hu; omega
  · have e1 : st.cache[x]? = none := List.getElem?_eq_none (by rw [hl.cache]; omega)
    have e2 : st.tag[x]? = none := List.getElem?_eq_none (by rw [hl.tag]; omega)
    rw [e1, e2]; split <;> rfl

/-! ### one attempt, histories -/

structure InvR (u : Nat) (m : Bytes) (B : Nat) (st : RSR) : Prop where
  len : LenR st m.length
  sync : UnitSync u st
  tag : ∀ x, x < B → st.tag[x]? = m[x]?
  cache : ∀ x, x < B → st.cache[x]? = m[x]?

theorem InvR.withCache {u : Nat} {m : Bytes} {B : Nat} {st : RSR} (hi : InvR u m B st) (C : Bytes) (hl : C.length = m.length)
    (hb : ∀ x, x < B → C[x]? = m[x]?) : InvR u m B { st with cache := C } :=
  ⟨⟨hi.len.tag, hi.len.belief, hl⟩, hi.sync, hi.tag, hb⟩

theorem InvR.fresh (u : Nat) (m : Bytes) (B : Nat) : InvR u m B (freshR m) :=
  ⟨⟨rfl, rfl, rfl⟩, fun _ _ => rfl, fun _ _ => rfl, fun _ _ => rfl⟩

theorem syncR_step (u : Nat) (hu : 0 < u) (m : Bytes) (B : Nat) (s : RSR) (f : Option Fault) (hi : InvR u m B s) :
    InvR u m B (syncR u s f).st ∧ (syncR u s f).st.cache = s.cache ∧
    ((syncR u s f).failed = false → (syncR u s f).st.tag = s.cache) ∧
    (f = none → (syncR u s f).failed = false ∧ (syncR u s f).fault = none) := by
  have hlen := syncUnitsR_len u (List.range ((s.belief.length + u - 1) / u)) s f m.length hi.len
  have hus := syncUnitsR_unitSync u (List.range ((s.belief.length + u - 1) / u)) s f m.length hi.len hi.sync
  have hbel := syncUnitsR_below u (List.range ((s.belief.length + u - 1) / u)) s f m B hi.len hi.cache hi.tag
  have hca := syncUnitsR_cache u (List.range ((s.belief.length + u - 1) / u)) s f
  refine ⟨⟨hlen, hus, hbel, ?_⟩, hca, ?_, ?_⟩
  · intro x hx; unfold syncR; rw [hca]; exact hi.cache x hx
  · intro hok; exact syncR_done u hu s f m.length hi.len hi.sync hok
  · intro hn; subst hn; exact syncUnitsR_none u _ s

theorem writeFromR_spec (c : Cfg) (m : Bytes) (L : Layout) (data : Bytes) (st : RSR) (f : Option Fault)
    (hr : ReadsAs c m L) (hwf : WF c m L) (hcap : (data.length : Int) ≤ L.cap)
    (hi : InvR c.unit m (L.off + 1) st) :
    InvR c.unit m (L.off + 1) (writeFromR c L st data f).st ∧
    ((writeFromR c L st data f).res = .ok () →
      ReadsAs c (writeFromR c L st data f).st.tag { L with ndef := data } ∧
      (writeFromR c L st data f).st.tag[L.off + 1]? = some (if data.length < 255 then data.length else 255)) ∧
    (f = none → (writeFromR c L st data f).res = .ok ()) := by
  have hu : 0 < c.unit := hwf.2.1
  have harea := hwf.2.2.2.1
  have hcap' := hcap
  rw [hr.cap] at hcap'
  have hfit := (endAddr_le_area L.skip L.off L.areaEnd data.length hcap').1
  have hh := hdrLen_ge data.length
  have hCl := hi.len.cache
  have hlt : L.off + 1 < st.cache.length := by omega
  have hC1l : (st.cache.set (L.off + 1) 0).length = m.length := by simp [hCl]
  have hC1b : ∀ x, x < L.off + 1 → (st.cache.set (L.off + 1) 0)[x]? = m[x]? := fun x hx => by
    rw [get_set_ne _ _ _ _ (by omega)]; exact hi.cache x hx
  have hC10 : (st.cache.set (L.off + 1) 0)[L.off + 1]? = some 0 := get_set_eq _ _ _ hlt
  have hr1 : ReadsAs c (st.cache.set (L.off + 1) 0) { L with ndef := [] } := empty_view c m _ L hr hwf hC1b hC10
  have hwf1 : WF c (st.cache.set (L.off + 1) 0) { L with ndef := [] } := wf_transfer c m _ L hwf hC1l hC1b
  obtain ⟨m1, m2, m3a, m3, w, hnew⟩ := roundtrip c (st.cache.set (L.off + 1) 0) { L with ndef := [] } data hr1 hwf1 hcap
  have hm1 : m1 = st.cache.set (L.off + 1) 0 := by rw [w.m1_eq]; simp
  have hp1 : phase1 c st.cache L.off = .ok (st.cache.set (L.off + 1) 0) := wr_ok c _ _ _ hlt
  have hp2 : phase2 c (st.cache.set (L.off + 1) 0) L.off L.skip L.areaEnd data = .ok m2 := by
    have := w.p2; rw [hm1] at this; exact this
  have hp3a : phase3a c m2 L.off data.length = .ok m3a := w.p3a
  have hp3 : phase3 c m3a L.off data.length = .ok m3 := w.p3
  have hl2 : m2.length = m.length := by rw [w.len2, hC1l]
  have hl3 : m3.length = m.length := by rw [w.len3, hC1l]
  have hl3a : m3a.length = m.length := by rw [w.m3a_eq, pre3_length, hl2]
  have b2 : ∀ x, x < L.off + 1 → m2[x]? = m[x]? := fun x hx => by rw [(w.below x hx).2.1]; exact hC1b x hx
  have b3 : ∀ x, x < L.off + 1 → m3[x]? = m[x]? := fun x hx => by rw [(w.below x hx).2.2]; exact hC1b x hx
  have b3a : ∀ x, x < L.off + 1 → m3a[x]? = m[x]? := fun x hx => by
    rw [w.m3a_eq, pre3_get _ _ _ _ x (by show x ≠ L.off + 2; omega) (by show x ≠ L.off + 3; omega)]; exact b2 x hx
  unfold writeFromR
  rw [hp1]
  simp only
  obtain ⟨i1, c1, d1, e1⟩ := syncR_step c.unit hu m (L.off + 1) { st with cache := st.cache.set (L.off + 1) 0 } f
    (hi.withCache _ hC1l hC1b)
  split
  · rename_i hfail
    refine ⟨i1, (fun h => nomatch h), fun hn => ?_⟩
    rw [(e1 hn).1] at hfail; cases hfail
  rw [hp2]
  simp only
  obtain ⟨i2, c2, d2, e2⟩ := syncR_step c.unit hu m (L.off + 1)
    { (syncR c.unit { st with cache := st.cache.set (L.off + 1) 0 } f).st with cache := m2 }
    (syncR c.unit { st with cache := st.cache.set (L.off + 1) 0 } f).fault (i1.withCache _ hl2 b2)
  split
  · rename_i hfail
    refine ⟨i2, (fun h => nomatch h), fun hn => ?_⟩
    rw [(e2 (e1 hn).2).1] at hfail; cases hfail
  rw [hp3a]
  simp only
  obtain ⟨i3a, c3a, d3a, e3a⟩ := syncR_step c.unit hu m (L.off + 1)
    { (syncR c.unit { (syncR c.unit { st with cache := st.cache.set (L.off + 1) 0 } f).st with cache := m2 }
        (syncR c.unit { st with cache := st.cache.set (L.off + 1) 0 } f).fault).st with cache := m3a }
    (syncR c.unit { (syncR c.unit { st with cache := st.cache.set (L.off + 1) 0 } f).st with cache := m2 }
        (syncR c.unit { st with cache := st.cache.set (L.off + 1) 0 } f).fault).fault (i2.withCache _ hl3a b3a)
  split
  · rename_i hfail
    refine ⟨i3a, (fun h => nomatch h), fun hn => ?_⟩
    rw [(e3a (e2 (e1 hn).2).2).1] at hfail; cases hfail
  rw [hp3]
  simp only
  obtain ⟨i3, c3, d3, e3⟩ := syncR_step c.unit hu m (L.off + 1)
    { (syncR c.unit { (syncR c.unit { (syncR c.unit { st with cache := st.cache.set (L.off + 1) 0 } f).st with cache := m2 }
        (syncR c.unit { st with cache := st.cache.set (L.off + 1) 0 } f).fault).st with cache := m3a }
        (syncR c.unit { (syncR c.unit { st with cache := st.cache.set (L.off + 1) 0 } f).st with cache := m2 }
        (syncR c.unit { st with cache := st.cache.set (L.off + 1) 0 } f).fault).fault).st with cache := m3 }
    (syncR c.unit { (syncR c.unit { (syncR c.unit { st with cache := st.cache.set (L.off + 1) 0 } f).st with cache := m2 }
        (syncR c.unit { st with cache := st.cache.set (L.off + 1) 0 } f).fault).st with cache := m3a }
        (syncR c.unit { (syncR c.unit { st with cache := st.cache.set (L.off + 1) 0 } f).st with cache := m2 }
        (syncR c.unit { st with cache := st.cache.set (L.off + 1) 0 } f).fault).fault).fault (i3a.withCache _ hl3 b3)
  refine ⟨i3, ?_, fun hn => ?_⟩
  · intro hres
    split at hres
    · cases hres
    · rename_i hok3
      rw [d3 (by simpa using hok3)]
      refine ⟨hnew, ?_⟩
      have hlt2 : L.off + 1 < m2.length := by omega
      rw [w.m3_eq]
      split
      · exact get_set_eq _ _ _ hlt2
      · rw [get_set_ne _ _ _ _ (by show L.off + 3 ≠ L.off + 1; omega), get_set_ne _ _ _ _ (by show L.off + 2 ≠ L.off + 1; omega)]
        exact get_set_eq _ _ _ hlt2
  · rw [(e3 (e3a (e2 (e1 hn).2).2).2).1]; rfl

theorem attemptR_inv (c : Cfg) (m : Bytes) (L : Layout) (data : Bytes) (st : RSR) (f : Option Fault)
    (hr : ReadsAs c m L) (hwf : WF c m L) (hi : InvR c.unit m (L.off + 1) st) :
    InvR c.unit m (L.off + 1) (attemptR c L st data f).st := by
  unfold attemptR
  split
  · exact hi
  · split
    · exact hi
    · rename_i hc
      exact (writeFromR_spec c m L data st f hr hwf (by omega) hi).1

theorem historyR_inv (c : Cfg) (m : Bytes) (L : Layout) (hr : ReadsAs c m L) (hwf : WF c m L)
    (hs : List (Bytes × Option Fault)) (st : RSR) (hi : InvR c.unit m (L.off + 1) st) :
    InvR c.unit m (L.off + 1) (historyR c L st hs).1 := by
  induction hs generalizing st with
  | nil => exact hi
  | cons a rest ih =>
    obtain ⟨d, f⟩ := a
    simp only [historyR]
    exact ih _ (attemptR_inv c m L d st f hr hwf hi)

/-- **repaired memory reader: a completed assignment is read back after ANY history of faults** -/
theorem historyR_roundtrip (c : Cfg) (m : Bytes) (L : Layout) (hr : ReadsAs c m L) (hwf : WF c m L)
    (hw : L.writeable = true) (hs : List (Bytes × Option Fault)) (data : Bytes) (hcap : (data.length : Int) ≤ L.cap) :
    (attemptR c L (historyR c L (freshR m) hs).1 data none).res = .ok () ∧
    ReadsAs c (attemptR c L (historyR c L (freshR m) hs).1 data none).st.tag { L with ndef := data } ∧
    readBack c (attemptR c L (historyR c L (freshR m) hs).1 data none).st.tag = .ok (some { L with ndef := data }) := by
  have hi := historyR_inv c m L hr hwf hs (freshR m) (InvR.fresh _ m _)
  have hsp := writeFromR_spec c m L data _ none hr hwf hcap hi
  unfold attemptR
  rw [if_neg (by simp [hw]), if_neg (by omega)]
  obtain ⟨hra, hlen⟩ := hsp.2.1 (hsp.2.2 rfl)
  refine ⟨hsp.2.2 rfl, hra, ?_⟩
  unfold readBack
  rw [(readNdef_some c _ _).2 hra]
  simp only [hlen]
  have hcap' := hcap
  rw [hr.cap] at hcap'
  have hfit := cap_fits L.skip L.off L.areaEnd data.length hcap'
  have hend := (endAddr_le_area L.skip L.off L.areaEnd data.length hcap').1
  have hsplit : countFree L.skip L.off L.areaEnd
      = cfree L.skip L.off (hdrLen data.length) + countFree L.skip (L.off + hdrLen data.length) L.areaEnd := by
    unfold countFree
    rw [show L.areaEnd - L.off = hdrLen data.length + (L.areaEnd - (L.off + hdrLen data.length)) by omega]
    exact cfree_split _ _ _ _
  have hle := cfree_le L.skip L.off (hdrLen data.length)
  have hh : (if (if data.length < 255 then data.length else 255) = 255 then 4 else 2) = hdrLen data.length := by
    unfold hdrLen; split <;> simp_all <;> omega
  have hh' : (if some (if data.length < 255 then data.length else 255) = some 255 then 4 else 2) = hdrLen data.length := by
    simpa using hh
  rw [hh']
  rw [if_pos ⟨by omega, by omega⟩]

/-! ### without a fault the repaired reader sends what the reader as found sends -/

def lift (st : RS) : RSR := ⟨st.tag, st.belief, st.cache, []⟩

theorem syncUnitsR_clean (u : Nat) (is : List Nat) : ∀ (st : RS),
    syncUnitsR u is (lift st) none =
      ⟨lift (syncUnits u is st none).st, (syncUnits u is st none).cmds, (syncUnits u is st none).fault,
        (syncUnits u is st none).failed⟩ := by
  induction is with
  | nil => intro st; rfl
  | cons i is ih =>
    intro st
    by_cases hne : sliceN st.cache (i * u) (i * u + u) ≠ sliceN st.belief (i * u) (i * u + u)
    · have hne' : sliceN (lift st).cache (i * u) (i * u + u) ≠ sliceN (lift st).belief (i * u) (i * u + u) ∨ i ∈ (lift st).dirty :=
        Or.inl hne
      simp only [syncUnitsR, if_pos hne', syncUnits, if_pos hne, Option.map_none]
      have := ih ⟨writeAt st.tag (i * u) (sliceN st.cache (i * u) (i * u + u)),
        writeAt st.belief (i * u) (sliceN st.cache (i * u) (i * u + u)), st.cache⟩
      simp only [lift] at this ⊢
      simp only [List.filter_nil]
      rw [this]
    · have hne' : ¬ (sliceN (lift st).cache (i * u) (i * u + u) ≠ sliceN (lift st).belief (i * u) (i * u + u) ∨ i ∈ (lift st).dirty) := by
        simp only [lift, List.not_mem_nil, or_false]; exact hne
      simp only [syncUnitsR, if_neg hne', syncUnits, if_neg hne]
      exact ih st

theorem syncR_clean (u : Nat) (st : RS) :
    syncR u (lift st) none = ⟨lift (sync u st none).st, (sync u st none).cmds, (sync u st none).fault, (sync u st none).failed⟩ := by
  unfold syncR sync
  exact syncUnitsR_clean u _ st

theorem writeFromR_clean (c : Cfg) (L : Layout) (st : RS) (data : Bytes) :
    writeFromR c L (lift st) data none =
      ⟨lift (writeFrom c L st data none).st, (writeFrom c L st data none).cmds, (writeFrom c L st data none).res⟩ := by
  unfold writeFromR writeFrom
  show (match phase1 c st.cache L.off with | .error e => _ | .ok m1 => _) = _
  cases phase1 c st.cache L.off with
  | error e => rfl
  | ok m1 =>
    simp only
    have h1 := syncR_clean c.unit { st with cache := m1 }
    have e1 : ({ lift st with cache := m1 } : RSR) = lift { st with cache := m1 } := rfl
    rw [e1, h1]
    simp only
    have n1 := (syncUnits_none c.unit (List.range (((({ st with cache := m1 } : RS)).belief.length + c.unit - 1) / c.unit))
      { st with cache := m1 })
    have hf1 : (sync c.unit { st with cache := m1 } none).failed = false := n1.1
    have hq1 : (sync c.unit { st with cache := m1 } none).fault = none := n1.2
    simp only [hf1, hq1]
    cases phase2 c m1 L.off L.skip L.areaEnd data with
    | error e => rfl
    | ok m2 =>
      simp only
      have h2 := syncR_clean c.unit { (sync c.unit { st with cache := m1 } none).st with cache := m2 }
      have e2 : ({ lift (sync c.unit { st with cache := m1 } none).st with cache := m2 } : RSR)
          = lift { (sync c.unit { st with cache := m1 } none).st with cache := m2 } := rfl
      rw [e2, h2]
      simp only
      have n2 := (syncUnits_none c.unit (List.range (((({ (sync c.unit { st with cache := m1 } none).st with cache := m2 } : RS)).belief.length + c.unit - 1) / c.unit))
        { (sync c.unit { st with cache := m1 } none).st with cache := m2 })
      have hf2 : (sync c.unit { (sync c.unit { st with cache := m1 } none).st with cache := m2 } none).failed = false := n2.1
      have hq2 : (sync c.unit { (sync c.unit { st with cache := m1 } none).st with cache := m2 } none).fault = none := n2.2
      simp only [hf2, hq2]
      cases phase3a c m2 L.off data.length with
      | error e => rfl
      | ok m3a =>
        simp only
        generalize hs2 : (sync c.unit { (sync c.unit { st with cache := m1 } none).st with cache := m2 } none).st = s2
        have h3a := syncR_clean c.unit { s2 with cache := m3a }
        have e3a : ({ lift s2 with cache := m3a } : RSR) = lift { s2 with cache := m3a } := rfl
        rw [e3a, h3a]
        simp only
        have n3a := (syncUnits_none c.unit (List.range (((({ s2 with cache := m3a } : RS)).belief.length + c.unit - 1) / c.unit))
          { s2 with cache := m3a })
        have hf3a : (sync c.unit { s2 with cache := m3a } none).failed = false := n3a.1
        have hq3a : (sync c.unit { s2 with cache := m3a } none).fault = none := n3a.2
        simp only [hf3a, hq3a]
        cases phase3 c m3a L.off data.length with
        | error e => rfl
        | ok m3 =>
          simp only
          generalize hs3 : (sync c.unit { s2 with cache := m3a } none).st = s3
          have h3 := syncR_clean c.unit { s3 with cache := m3 }
          have e3 : ({ lift s3 with cache := m3 } : RSR) = lift { s3 with cache := m3 } := rfl
          rw [e3, h3]
          simp

theorem attemptR_clean (c : Cfg) (L : Layout) (m : Bytes) (data : Bytes) :
    (attemptR c L (freshR m) data none).cmds = (attempt c L (fresh m) data none).cmds ∧
    (attemptR c L (freshR m) data none).res = (attempt c L (fresh m) data none).res := by
  unfold attemptR attempt
  split
  · exact ⟨rfl, rfl⟩
  · split
    · exact ⟨rfl, rfl⟩
    · have := writeFromR_clean c L (fresh m) data
      have e : lift (fresh m) = freshR m := rfl
      rw [e] at this
      rw [this]
      exact ⟨rfl, rfl⟩

end NfcVerif.Hist
