import NfcVerif.Model.TermMulti
import NfcVerif.Lemmas.Term
/-! proofs for the multi-thread part of C09 (`NfcVerif.TermMulti`) -/
namespace NfcVerif.TermMulti
open NfcVerif NfcVerif.Term

/-- `notify_all` on each of `cvs` -/
def wakeIf (cvs : List Cv) (t : Thread) : Thread :=
  match waitsOn t with
  | some cv => if cvs.contains cv then wake t else t
  | none => t

theorem waitsOn_wake (t : Thread) : waitsOn (wake t) = none := by
  unfold wake waitsOn
  cases h : t.stat <;> simp [h]
  
theorem wakeIf_nil (t : Thread) : wakeIf [] t = t := by
  unfold wakeIf; cases waitsOn t <;> simp

theorem wakeIf_cons (cv : Cv) (cvs : List Cv) (t : Thread) :
    wakeIf (cv :: cvs) t = wakeIf cvs (if waitsOn t == some cv then wake t else t) := by
  unfold wakeIf
  cases h : waitsOn t with
  | none => simp [h]
  | some c =>
    by_cases hc : c = cv
    · subst hc; simp [waitsOn_wake]
    · have : (cv == c) = false := by simp; exact fun h => hc h.symm
      simp [hc, h]
      
def allKind (notes : List (Cv × Nk)) : Prop := ∀ n ∈ notes, n.2 = Nk.all

theorem applyNotes_all (notes : List (Cv × Nk)) (h : allKind notes) (ths : List Thread) (order : List Nat) :
    (applyNotes notes (ths, order)).1 = ths.map (wakeIf (notes.map (·.1))) := by
  induction notes generalizing ths order with
  | nil =>
    have : (wakeIf []) = id := funext wakeIf_nil
    simp [applyNotes, this]
  | cons n rest ih =>
    obtain ⟨cv, k⟩ := n
    have hk : k = .all := h (cv, k) (by simp)
    subst hk
    have hr : allKind rest := fun n hn => h n (by simp [hn])
    simp only [applyNotes, notifyAll]
    rw [ih hr]
    simp [List.map_map, Function.comp_def, wakeIf_cons]

def shutB (w : World) : Bool := w.s.st == .shutdown && w.s.recvQ.isEmpty
def freshB (w : World) : Bool :=
  !w.s.bound && (if w.s.kind == .dlc then w.s.st == .closed else w.s.st == .established)
/-- `After` of Lemmas/Term as a Boolean -/
def afterB (w : World) : Bool :=
  w.terminated && !w.registered && !w.sapAlive && !w.sdAlive && (shutB w || freshB w)

theorem afterB_iff (w : World) : afterB w = true ↔ After w := by
  unfold afterB After shutB freshB
  cases hk : w.s.kind <;> simp [List.isEmpty_iff, and_assoc]

/-- what a step of a thread may change on a terminated link -/
def stableB (w w' : World) : Bool :=
  w'.s.kind == w.s.kind && w'.s.bound == w.s.bound && (!shutB w || shutB w')

def rankP : Pt → Nat
  | .bindAcq => 3 | .sockAcq => 2 | .llcAcq => 1 | _ => 2
def rankS : TStat → Nat
  | .fresh => 4 | .ready p => rankP p | .parked _ _ => 2 | .done _ => 0

/-- per-thread invariant on a terminated link -/
def postB (w : World) (t : Thread) : Bool :=
  match t.stat with
  | .fresh => allowed t.call w
  | .ready p => validAcq t.call p && allowed t.call w && (p != .sockAcq || shutB w || acqInv t.call p w)
  | .parked p n => n && validWait t.call p && allowed t.call w && kindOK w p && (p == .wResolve || shutB w)
  | .done _ => true

def stepGoodB (c : Call) (rk : Nat) (w : World) : Step → Bool
  | .done r w' => good r && afterB w' && stableB w w'
  | .at p w' => !p.isWait && afterB w' && stableB w w' && validAcq c p && decide (rankP p < rk) &&
      (p != .sockAcq || shutB w' || acqInv c p w')

theorem ite_lt_of_le {α : Type} {a b : Nat} (h : b ≤ a) (x y : α) : (if a < b then x else y) = y :=
  if_neg (Nat.not_lt.mpr h)

macro "multi_simp" : tactic =>
  `(tactic| simp_all (config := { failIfUnchanged := false })
      [ite_lt_of_le, stepGoodB, afterB, shutB, freshB, stableB, rankP, postB, allowed, acqInv, validAcq,
       exec, start, body, bodyRecv, bodySend, bodyAccept, bodyConnect, bodyListen, bodyClose, bodyPoll, takeRecv,
       closeGot, pollRecvNow, Pt.isWait, kindOK, good, ret, raise,
       closeFinish, dlcSendLoop, dlcSendTail, Sock.isEst, Sock.estOrCw, resolveLoop, withS, tcoClose,
       doBind, recvGot, acceptGot, connectGot, validWait,
       EBADF, EAGAIN, EINVAL, EPIPE, EMSGSIZE, EOPNOTSUPP, EISCONN, ENOTCONN, ESHUTDOWN, EALREADY])

set_option maxHeartbeats 3200000 in
theorem fresh_step (c : Call) (w : World) (hA : afterB w = true) (hal : allowed c w = true) :
    stepGoodB c 4 w (start c w) = true := by
  rcases c with (⟨dw, len⟩ | _ | _ | _ | _ | _ | _ | ⟨ev, t⟩ | _) <;>
  cases hkind : w.s.kind <;> cases hb : w.s.bound <;> cases hst : w.s.st <;> multi_simp


set_option maxHeartbeats 6400000 in
theorem ready_step (c : Call) (p : Pt) (w : World) (hA : afterB w = true)
    (hP : postB w ⟨c, .ready p, w.viaSap⟩ = true) :
    stepGoodB c (rankP p) w (exec c p w) = true := by
  rcases c with (⟨dw, len⟩ | _ | _ | _ | _ | _ | _ | ⟨ev, t⟩ | _) <;> (try cases dw) <;> (try cases ev) <;>
  cases p <;> (try simp [postB, validAcq] at hP) <;>
  cases hkind : w.s.kind <;> cases hb : w.s.bound <;> cases hst : w.s.st <;> cases hvs : w.viaSap <;> multi_simp

set_option maxHeartbeats 6400000 in
theorem parked_step (c : Call) (p : Pt) (w : World) (hA : afterB w = true)
    (hP : postB w ⟨c, .parked p true, w.viaSap⟩ = true) :
    stepGoodB c 2 w (exec c p w) = true := by
  rcases c with (⟨dw, len⟩ | _ | _ | _ | _ | _ | _ | ⟨ev, t⟩ | _) <;> (try cases dw) <;> (try cases ev) <;>
  cases p <;> (try simp [postB, validWait] at hP) <;>
  cases hkind : w.s.kind <;> cases hb : w.s.bound <;> cases hst : w.s.st <;> cases hvs : w.viaSap <;>
  by_cases hlen : w.s.sendQ.length < w.s.sendBuf <;> by_cases hacks : 0 < w.s.acks <;> multi_simp

theorem stableB_viaSap (w w' : World) (b : Bool) : stableB { w with viaSap := b } w' = stableB w w' := rfl
theorem afterB_viaSap (w : World) (b : Bool) : afterB { w with viaSap := b } = afterB w := rfl

theorem stepGoodB_viaSap (c : Call) (rk : Nat) (w : World) (b : Bool) (s : Step) :
    stepGoodB c rk { w with viaSap := b } s = stepGoodB c rk w s := by
  cases s <;> rfl

theorem postB_viaSap (w : World) (b : Bool) (t : Thread) : postB { w with viaSap := b } t = postB w t := by
  unfold postB; cases t.stat <;> rfl

theorem postB_irrel (w : World) (c : Call) (st : TStat) (b b' : Bool) : postB w ⟨c, st, b⟩ = postB w ⟨c, st, b'⟩ := by
  unfold postB; cases st <;> rfl

/-- one step of any thread on a terminated link: it ends with a value or nfc.llcp.Error, or moves on to a
    lock acquisition of lower rank - never to a wait -/
theorem thread_step (t : Thread) (w : World) (hA : afterB w = true) (hP : postB w t = true) :
    match stepOf t w with
    | none => ∃ r, t.stat = .done r
    | some s => stepGoodB t.call (rankS t.stat) w s = true := by
  obtain ⟨c, st, vs⟩ := t
  have hA0 : afterB { w with viaSap := vs } = true := by rw [afterB_viaSap]; exact hA
  cases st with
  | fresh =>
    have h := fresh_step c { w with viaSap := vs } hA0 (by simpa [postB, allowed] using hP)
    rw [stepGoodB_viaSap] at h
    simpa [stepOf, rankS] using h
  | ready p =>
    have h := ready_step c p { w with viaSap := vs } hA0 (by rw [postB_viaSap]; exact hP)
    rw [stepGoodB_viaSap] at h
    simpa [stepOf, rankS] using h
  | parked p n =>
    have hn : n = true := by cases n <;> simp_all [postB]
    subst hn
    have h := parked_step c p { w with viaSap := vs } hA0 (by rw [postB_viaSap]; exact hP)
    rw [stepGoodB_viaSap] at h
    simpa [stepOf, rankS] using h
  | done r => exact ⟨r, rfl⟩


/-! ### the threads of a terminated link, any number, any schedule -/

theorem waitsOn_of_postB (w : World) (t : Thread) (h : postB w t = true) : waitsOn t = none := by
  unfold waitsOn; unfold postB at h
  cases hs : t.stat with
  | parked p n => cases n <;> simp_all
  | _ => rfl

theorem isWaiter_false (ths : List Thread) (h : ∀ t ∈ ths, waitsOn t = none) (cv : Cv) (i : Nat) :
    isWaiter ths cv i = false := by
  unfold isWaiter
  cases hi : ths[i]? with
  | none => rfl
  | some t => simp [h t (List.mem_of_getElem? hi)]

theorem notifyOne_noWaiters (cv : Cv) (ths : List Thread) (h : ∀ t ∈ ths, waitsOn t = none) (order : List Nat) :
    (notifyOne cv ths order).1 = ths := by
  induction order with
  | nil => rfl
  | cons i rest ih => simp [notifyOne, isWaiter_false ths h, ih]

theorem notifyAll_noWaiters (cv : Cv) (ths : List Thread) (h : ∀ t ∈ ths, waitsOn t = none) (order : List Nat) :
    (notifyAll cv ths order).1 = ths := by
  simp only [notifyAll]
  conv => rhs; rw [← List.map_id ths]
  apply List.map_congr_left
  intro t ht
  simp [h t ht]

theorem applyNotes_noWaiters (notes : List (Cv × Nk)) (ths : List Thread) (h : ∀ t ∈ ths, waitsOn t = none)
    (order : List Nat) : (applyNotes notes (ths, order)).1 = ths := by
  induction notes generalizing order with
  | nil => rfl
  | cons n rest ih =>
    obtain ⟨cv, k⟩ := n
    cases k with
    | one =>
      simp only [applyNotes]
      have h1 := notifyOne_noWaiters cv ths h order
      rw [show notifyOne cv ths order = ((notifyOne cv ths order).1, (notifyOne cv ths order).2) from rfl, h1]
      exact ih _
    | all =>
      simp only [applyNotes]
      have h1 := notifyAll_noWaiters cv ths h order
      rw [show notifyAll cv ths order = ((notifyAll cv ths order).1, (notifyAll cv ths order).2) from rfl, h1]
      exact ih _

/-- the invariant of a terminated link -/
structure Inv (m : MState) : Prop where
  after : afterB m.w = true
  post : ∀ t ∈ m.ths, postB m.w t = true

theorem postB_stable (w w' : World) (t : Thread) (hs : stableB w w' = true) (h : postB w t = true) :
    postB w' t = true := by
  obtain ⟨c, st, vs⟩ := t
  have hk : w'.s.kind = w.s.kind := by simp_all [stableB]
  have hb : w'.s.bound = w.s.bound := by simp_all [stableB]
  have hsh : shutB w = true → shutB w' = true := by
    intro h1; simp_all [stableB]
  cases st with
  | fresh => simpa [postB, allowed, hk] using h
  | done r => rfl
  | ready p =>
    simp only [postB, Bool.and_eq_true, Bool.or_eq_true] at h ⊢
    obtain ⟨⟨h1, h2⟩, h3⟩ := h
    refine ⟨⟨h1, by simpa [allowed, hk] using h2⟩, ?_⟩
    rcases h3 with (h3 | h3) | h3
    · exact Or.inl (Or.inl h3)
    · exact Or.inl (Or.inr (hsh h3))
    · exact Or.inr (by simpa [acqInv, hk, hb] using h3)
  | parked p n =>
    simp only [postB, Bool.and_eq_true, Bool.or_eq_true] at h ⊢
    obtain ⟨⟨⟨⟨h1, h2⟩, h3⟩, h4⟩, h5⟩ := h
    refine ⟨⟨⟨⟨h1, h2⟩, by simpa [allowed, hk] using h3⟩, by simpa [kindOK, hk] using h4⟩, ?_⟩
    rcases h5 with h5 | h5
    · exact Or.inl h5
    · exact Or.inr (hsh h5)


/-- how a thread may change: same call; a result it did not have before is a value or nfc.llcp.Error -/
def StepRel (t t' : Thread) : Prop :=
  t'.call = t.call ∧ ∀ r, t'.stat = .done r → good r = true ∨ t.stat = .done r

theorem StepRel.refl (t : Thread) : StepRel t t := ⟨rfl, fun _ h => Or.inr h⟩

theorem StepRel.trans {a b c : Thread} (h1 : StepRel a b) (h2 : StepRel b c) : StepRel a c :=
  ⟨h2.1.trans h1.1, fun r hr => by
    rcases h2.2 r hr with h | h
    · exact Or.inl h
    · exact h1.2 r h⟩

theorem rankS_settle_done (r : Py Val) (w : World) : (settle (.done r w)) = (.done r, w) := rfl

theorem getElem?_set_self' {α} (l : List α) (i : Nat) (a : α) (h : i < l.length) : (l.set i a)[i]? = some a := by
  simp [h]

theorem allowed_of_postB (w : World) (t : Thread) (s : Step) (h : postB w t = true) (hs : stepOf t w = some s) :
    allowed t.call w = true := by
  unfold postB at h
  cases hts : t.stat <;> simp_all [stepOf]

/-- one step of thread `i` on a terminated link -/
theorem stepThread_spec (m : MState) (hI : Inv m) (i : Nat) :
    Inv (stepThread m i) ∧
    ∀ j t, m.ths[j]? = some t → ∃ t', (stepThread m i).ths[j]? = some t' ∧ StepRel t t' ∧
      (j ≠ i → t' = t) ∧ (j = i → rankS t'.stat ≤ rankS t.stat - 1) := by
  unfold stepThread
  cases hi : m.ths[i]? with
  | none =>
    refine ⟨hI, fun j t hj => ⟨t, hj, StepRel.refl t, fun _ => rfl, fun hji => ?_⟩⟩
    subst hji; simp [hi] at hj
  | some t =>
    have htm : t ∈ m.ths := List.mem_of_getElem? hi
    have hstep := thread_step t m.w hI.after (hI.post t htm)
    cases hso : stepOf t m.w with
    | none =>
      simp only [hso] at hstep ⊢
      obtain ⟨r, hr⟩ := hstep
      refine ⟨hI, fun j t0 hj => ⟨t0, hj, StepRel.refl t0, fun _ => rfl, fun hji => ?_⟩⟩
      subst hji
      have : t0 = t := by simpa [hi] using hj.symm
      subst this; simp [hr, rankS]
    | some s =>
      simp only [hso] at hstep ⊢
      have hnw : ∀ t ∈ m.ths, waitsOn t = none := fun t ht => waitsOn_of_postB m.w t (hI.post t ht)
      have hnotes := applyNotes_noWaiters (threadNotes t m.w) m.ths hnw (m.order.filter (fun j => j != i))
      simp only [hnotes]
      have hilt : i < m.ths.length := (List.getElem?_eq_some_iff.mp hi).1
      have hal := allowed_of_postB m.w t s (hI.post t htm) hso
      -- the other threads
      have others : ∀ (tn : Thread) (j : Nat) (t0 : Thread), m.ths[j]? = some t0 → j ≠ i →
          ∃ t', (m.ths.set i tn)[j]? = some t' ∧ StepRel t0 t' ∧ (j ≠ i → t' = t0) ∧
            (j = i → rankS t'.stat ≤ rankS t0.stat - 1) := by
        intro tn j t0 hj hji
        refine ⟨t0, ?_, StepRel.refl t0, fun _ => rfl, fun h => absurd h hji⟩
        rw [List.getElem?_set_ne (Ne.symm hji)]; exact hj
      cases s with
      | done r w' =>
        simp only [stepGoodB, Bool.and_eq_true] at hstep
        obtain ⟨⟨hg, ha⟩, hst⟩ := hstep
        simp only [settle]
        refine ⟨⟨ha, ?_⟩, ?_⟩
        · intro t2 ht2
          rcases List.mem_or_eq_of_mem_set ht2 with h | h
          · exact postB_stable m.w w' t2 hst (hI.post t2 h)
          · subst h; rfl
        · intro j t0 hj
          by_cases hji : j = i
          · subst hji
            have : t0 = t := by simpa [hi] using hj.symm
            subst this
            refine ⟨_, getElem?_set_self' _ _ _ hilt, ⟨rfl, fun r' hr' => Or.inl ?_⟩, fun h => absurd rfl h, fun _ => ?_⟩
            · have : r = r' := by simpa using hr'
              subst this; exact hg
            · simp [rankS]
          · exact others _ j t0 hj hji
      | «at» p w' =>
        simp only [stepGoodB, Bool.and_eq_true, decide_eq_true_eq] at hstep
        obtain ⟨⟨⟨⟨⟨hnw', ha⟩, hst⟩, hva⟩, hrk⟩, hinv⟩ := hstep
        have hpw : p.isWait = false := by simpa using hnw'
        simp only [settle, hpw]
        refine ⟨⟨ha, ?_⟩, ?_⟩
        · intro t2 ht2
          rcases List.mem_or_eq_of_mem_set ht2 with h | h
          · exact postB_stable m.w w' t2 hst (hI.post t2 h)
          · subst h
            have hk : w'.s.kind = m.w.s.kind := by simp_all [stableB]
            have hal' : allowed t.call w' = true := by simpa [allowed, hk] using hal
            simp [postB, hva, hal', hinv]
        · intro j t0 hj
          by_cases hji : j = i
          · subst hji
            have : t0 = t := by simpa [hi] using hj.symm
            subst this
            refine ⟨_, getElem?_set_self' _ _ _ hilt, ⟨rfl, fun r' hr' => ?_⟩, fun h => absurd rfl h, fun _ => ?_⟩
            · simp at hr'
            · simp only [Bool.false_eq_true, if_false]
              show rankP p ≤ rankS t0.stat - 1
              omega
          · exact others _ j t0 hj hji


theorem runThreads_spec (m : MState) (hI : Inv m) (ds : List Nat) :
    Inv (runThreads m ds) ∧
    ∀ j t, m.ths[j]? = some t → ∃ t', (runThreads m ds).ths[j]? = some t' ∧ StepRel t t' ∧
      rankS t'.stat ≤ rankS t.stat - ds.count j := by
  induction ds generalizing m with
  | nil => exact ⟨hI, fun j t hj => ⟨t, hj, StepRel.refl t, by simp⟩⟩
  | cons d ds ih =>
    obtain ⟨hI1, h1⟩ := stepThread_spec m hI d
    obtain ⟨hI2, h2⟩ := ih (stepThread m d) hI1
    refine ⟨hI2, fun j t hj => ?_⟩
    obtain ⟨t1, hj1, hr1, hne, heq⟩ := h1 j t hj
    obtain ⟨t2, hj2, hr2, hrk⟩ := h2 j t1 hj1
    refine ⟨t2, hj2, hr1.trans hr2, ?_⟩
    by_cases hjd : j = d
    · have := heq hjd
      subst hjd
      simp only [List.count_cons_self]
      omega
    · have := hne hjd
      subst this
      have hdj : (d == j) = false := by simp; exact fun h => hjd h.symm
      simp only [List.count_cons, hdj]
      simpa using hrk

theorem terminate_kind (w : World) : (terminate w).1.s.kind = w.s.kind := by
  unfold terminate; cases w.registered <;> simp [tcoClose]

theorem validWait_isWait (c : Call) (p : Pt) (h : validWait c p = true) : p.isWait = true := by
  cases p <;> simp_all [validWait, Pt.isWait]

/-- the state of a thread when the link terminates (the hypotheses of `blocked_calls_return`,
    `no_lost_wakeup`, `later_calls_return` of Props/C09, per thread) -/
def preB (w : World) (t : Thread) : Bool :=
  match t.stat with
  | .fresh => allowed t.call w
  | .ready p => validAcq t.call p && acqInv t.call p w && allowed t.call w
  | .parked p _ => validWait t.call p && waiter w p && kindOK w p && allowed t.call w
  | .done _ => true

theorem linkStep_term (m : MState) (rest : List Act) (hs : m.script = .term :: rest) :
    (linkStep m).w = (terminate m.w).1 ∧ (linkStep m).ths = m.ths.map (wakeIf (terminate m.w).2) ∧
    (linkStep m).script = rest := by
  unfold linkStep linkStepG
  simp only [hs, applyActN, terminateN, true_and, and_true]
  rw [applyNotes_all _ (by intro n hn; simp at hn; obtain ⟨a, _, rfl⟩ := hn; rfl)]
  simp [List.map_map, Function.comp_def]

theorem shutB_terminate_of_registered (w : World) (h : w.registered = true) : shutB (terminate w).1 = true := by
  simp [terminate, h, tcoClose, shutB]

theorem post_of_pre (w : World) (hwf : WF w) (t : Thread) (h : preB w t = true) :
    postB (terminate w).1 (wakeIf (terminate w).2 t) = true := by
  obtain ⟨c, st, vs⟩ := t
  have hk := terminate_kind w
  cases st with
  | fresh => simpa [wakeIf, waitsOn, postB, preB, allowed, hk] using h
  | done r => simp [wakeIf, waitsOn, postB]
  | ready p =>
    simp only [preB, Bool.and_eq_true] at h
    obtain ⟨⟨h1, h2⟩, h3⟩ := h
    have hal : allowed c (terminate w).1 = true := by simpa [allowed, hk] using h3
    simp only [wakeIf, waitsOn, postB, Bool.and_eq_true, Bool.or_eq_true]
    refine ⟨⟨h1, hal⟩, ?_⟩
    rcases hwf with ⟨hr, _, _⟩ | ⟨hr, ⟨hs1, hs2⟩ | ⟨hb, hf⟩⟩
    · exact Or.inl (Or.inr (shutB_terminate_of_registered w hr))
    · exact Or.inl (Or.inr (by simp [terminate, hr, shutB, hs1, hs2]))
    · exact Or.inr (by simpa [terminate, hr, acqInv] using h2)
  | parked p n =>
    simp only [preB, Bool.and_eq_true] at h
    obtain ⟨⟨⟨h1, h2⟩, h3⟩, h4⟩ := h
    have hal : allowed c (terminate w).1 = true := by simpa [allowed, hk] using h4
    have hko : kindOK (terminate w).1 p = true := by simpa [kindOK, hk] using h3
    have hnot := terminate_notifies w p (validWait_isWait c p h1) h2 h3
    have hres : (p == .wResolve || shutB (terminate w).1) = true := by
      by_cases hp : p = .wResolve
      · simp [hp]
      · have hr : w.registered = true := by simpa [waiter, hp] using h2
        simp [shutB_terminate_of_registered w hr]
    cases n <;> simp_all [wakeIf, waitsOn, wake, postB]


theorem rankS_le (st : TStat) : rankS st ≤ 4 := by
  cases st with
  | ready p => cases p <;> simp [rankS, rankP]
  | _ => simp [rankS]

theorem rankS_eq_zero (st : TStat) (h : rankS st = 0) : ∃ r, st = .done r := by
  cases st with
  | ready p => cases p <;> simp [rankS, rankP] at h
  | done r => exact ⟨r, rfl⟩
  | _ => simp [rankS] at h

theorem wakeIf_rel (cvs : List Cv) (t : Thread) : StepRel t (wakeIf cvs t) ∧ rankS (wakeIf cvs t).stat = rankS t.stat := by
  obtain ⟨c, st, vs⟩ := t
  unfold wakeIf waitsOn
  cases st with
  | parked p n =>
    cases n
    · by_cases h : p.cv ∈ cvs <;> simp [h, wake, StepRel, rankS]
    · simp [StepRel]
  | _ => simp [StepRel]

/-- the state the link thread's `terminate()` leaves behind satisfies the invariant -/
theorem inv_linkStep (m : MState) (rest : List Act) (hs : m.script = .term :: rest) (hwf : WF m.w)
    (hpre : ∀ t ∈ m.ths, preB m.w t = true) : Inv (linkStep m) := by
  obtain ⟨hw, hths, _⟩ := linkStep_term m rest hs
  refine ⟨?_, ?_⟩
  · rw [hw]; exact (afterB_iff _).mpr (wf_terminate_after m.w hwf)
  · intro t' ht'
    rw [hths] at ht'
    obtain ⟨t, ht, rfl⟩ := List.mem_map.mp ht'
    rw [hw]; exact post_of_pre m.w hwf t (hpre t ht)

/-- ... and the socket stays the socket of a terminated link (`After`) whatever the threads do -/
theorem threads_world_after (m : MState) (rest : List Act) (hs : m.script = .term :: rest) (hwf : WF m.w)
    (hpre : ∀ t ∈ m.ths, preB m.w t = true) (ds : List Nat) : After (runThreads (linkStep m) ds).w :=
  (afterB_iff _).mp (runThreads_spec _ (inv_linkStep m rest hs hwf hpre) ds).1.after

/-- **all blocked threads return** - any number of threads, any schedule.  `m`: the moment the link
    thread is about to execute `terminate()`; every thread satisfies `preB` (it has not started its
    call, stands at a lock acquisition of its call, is parked at a wait of its call - notified or
    not -, or has ended).  After the termination, whatever the order `ds` in which the threads
    continue: no thread is ever parked without having been notified, every result obtained is a
    value or nfc.llcp.Error, and a thread that has been given four turns has returned. -/
theorem threads_return (m : MState) (rest : List Act) (hs : m.script = .term :: rest) (hwf : WF m.w)
    (hpre : ∀ t ∈ m.ths, preB m.w t = true) (ds : List Nat) :
    (∀ t' ∈ (runThreads (linkStep m) ds).ths, waitsOn t' = none) ∧
    ∀ i t, m.ths[i]? = some t → ∃ t', (runThreads (linkStep m) ds).ths[i]? = some t' ∧ t'.call = t.call ∧
      (∀ r, t'.stat = .done r → good r = true ∨ t.stat = .done r) ∧
      (4 ≤ ds.count i → ∃ r, t'.stat = .done r) := by
  obtain ⟨hw, hths, _⟩ := linkStep_term m rest hs
  have hI : Inv (linkStep m) := inv_linkStep m rest hs hwf hpre
  obtain ⟨hI2, h2⟩ := runThreads_spec (linkStep m) hI ds
  refine ⟨fun t' ht' => waitsOn_of_postB _ t' (hI2.post t' ht'), fun i t hi => ?_⟩
  have hi1 : (linkStep m).ths[i]? = some (wakeIf (terminate m.w).2 t) := by
    rw [hths, List.getElem?_map, hi]; rfl
  obtain ⟨t', ht', hrel, hrk⟩ := h2 i _ hi1
  obtain ⟨hr0, hrk0⟩ := wakeIf_rel (terminate m.w).2 t
  have hrel' := hr0.trans hrel
  refine ⟨t', ht', hrel'.1, hrel'.2, fun hc => ?_⟩
  have h4 := rankS_le t.stat
  exact rankS_eq_zero _ (by omega)

/-- **terminate() wakes every waiter** of every condition variable, however many threads wait: a thread
    parked at a waiting point (its socket in a service access point, resp. the service discovery
    access point alive) is notified by the link thread's `terminate()` -/
theorem terminate_wakes_all (m : MState) (rest : List Act) (hs : m.script = .term :: rest) (i : Nat) (t : Thread)
    (p : Pt) (hi : m.ths[i]? = some t) (hst : t.stat = .parked p false) (hw : p.isWait = true)
    (hreg : waiter m.w p = true) (hk : kindOK m.w p = true) :
    (linkStep m).ths[i]? = some { t with stat := .parked p true } := by
  obtain ⟨_, hths, _⟩ := linkStep_term m rest hs
  have hnot := terminate_notifies m.w p hw hreg hk
  have hnot' : p.cv ∈ (terminate m.w).2 := by simpa using hnot
  rw [hths, List.getElem?_map, hi]
  simp [wakeIf, waitsOn, hst, hnot', wake]

/-! ### `notify()` instead of `notify_all()` (C09-r2m1): the model tells the difference -/

def stillWaiting (t : Thread) : Bool :=
  match t.stat with
  | .parked _ false => true
  | _ => false

def resolver : Thread := { call := .resolve, stat := .parked .wResolve false }

/-- two threads in resolve() on a controller whose link is up -/
def twoResolvers : MState :=
  { w := { s := ⟨.dlc, .closed, false, [], [], 1, 1, 128, 1, 0, 0, 0, 0, 1⟩, registered := false, sapAlive := false,
           sapOthers := false, terminated := false, sdAlive := true, resolved := false, viaSap := false },
    ths := [resolver, resolver], order := [0, 1], script := [.term] }

theorem notify_one_leaves_a_waiter :
    (linkStepG applyActNotifyOne twoResolvers).ths.map stillWaiting = [false, true] ∧
    (linkStep twoResolvers).ths.map stillWaiting = [false, false] := by decide

/-- ... and that thread is never woken again, whatever the schedule -/
theorem notify_one_waits_forever (ds : List Nat) :
    ((runThreads (linkStepG applyActNotifyOne twoResolvers) ds).ths[1]?).map stillWaiting = some true := by
  have key : ∀ (m : MState), m.ths.length = 2 → m.ths[1]? = some resolver →
      (∀ t ∈ m.ths, t.call = .resolve) →
      ∀ ds, ((runThreads m ds).ths[1]?).map stillWaiting = some true := by
    intro m hl h1 hc ds
    induction ds generalizing m with
    | nil => simp [runThreads, h1, stillWaiting, resolver]
    | cons d ds ih =>
      simp only [runThreads]
      have hstep : (stepThread m d).ths.length = 2 ∧ (stepThread m d).ths[1]? = some resolver ∧
          (∀ t ∈ (stepThread m d).ths, t.call = .resolve) := by
        unfold stepThread
        cases hd : m.ths[d]? with
        | none => exact ⟨hl, h1, hc⟩
        | some t =>
          dsimp only
          have htc : t.call = .resolve := hc t (List.mem_of_getElem? hd)
          cases hso : stepOf t m.w with
          | none => exact ⟨hl, h1, hc⟩
          | some s =>
            dsimp only
            have hd1 : d ≠ 1 := by
              intro h; subst h
              have : t = resolver := by simpa [h1] using hd.symm
              subst this; simp [stepOf, resolver, callTimeout] at hso
            have hn : threadNotes t m.w = [] := by
              unfold threadNotes; rw [htc]
            simp only [hn, applyNotes]
            refine ⟨by simp [hl], ?_, ?_⟩
            · rw [List.getElem?_set_ne hd1]; exact h1
            · intro t2 ht2
              rcases List.mem_or_eq_of_mem_set ht2 with h | h
              · exact hc t2 h
              · subst h; exact htc
      exact ih _ hstep.1 hstep.2.1 hstep.2.2
  have hths : (linkStepG applyActNotifyOne twoResolvers).ths =
      [{ call := .resolve, stat := .parked .wResolve true }, resolver] := by rfl
  refine key _ (by rw [hths]; rfl) (by rw [hths]; rfl) ?_ ds
  intro t ht
  rw [hths] at ht
  simp at ht
  rcases ht with rfl | rfl <;> rfl

/-- once the script of the link thread is exhausted a run of the scheduler is a run of the threads -/
theorem runM_eq_runThreads (m : MState) (h : m.script = []) (ds : List Nat) : runM m ds = runThreads m ds := by
  induction ds generalizing m with
  | nil => rfl
  | cons d ds ih =>
    have hd : decide1 m d = stepThread m d := by
      unfold decide1
      by_cases hlt : d < m.ths.length
      · simp [hlt]
      · simp [hlt, linkStep, linkStepG, h, stepThread]
    have hs : (stepThread m d).script = [] := by
      unfold stepThread
      cases m.ths[d]? with
      | none => exact h
      | some t => dsimp only; split <;> simp [h]
    simp only [runM, runThreads, hd]
    exact ih _ hs


end NfcVerif.TermMulti
