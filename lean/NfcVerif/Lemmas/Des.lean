import NfcVerif.Model.Des
/-!
# DES and triple DES are bijections

No enumeration of blocks: a Feistel network is inverted by the same network
with the round keys reversed, whatever the round function is (`feistel_inv`);
the initial and final permutation tables are inverse to each other (two
64-case `decide`s).
-/
namespace NfcVerif.Des

/-! ## bit permutations -/

theorem perm_perm {n m k : Nat} (a : Vector (Fin n) m) (b : Vector (Fin m) k) (x : Bits n) :
    perm b (perm a x) = perm (Vector.ofFn fun i => a[b[i]]) x := by
  apply Vector.ext
  intro i hi
  simp [perm]

theorem perm_id {n : Nat} (a : Vector (Fin n) n) (h : ∀ i : Fin n, a[i] = i) (x : Bits n) : perm a x = x := by
  apply Vector.ext
  intro i hi
  have := h ⟨i, hi⟩
  simp only [perm, Vector.getElem_ofFn]
  simp only [Fin.getElem_fin] at this ⊢
  simp [this]

theorem ip_fp_tbl : ∀ i : Fin 64, ipTbl[fpTbl[i]] = i := by decide
theorem fp_ip_tbl : ∀ i : Fin 64, fpTbl[ipTbl[i]] = i := by decide

theorem perm_fp_ip (x : Bits 64) : perm fpTbl (perm ipTbl x) = x := by
  rw [perm_perm]
  apply perm_id
  intro i
  have := ip_fp_tbl i
  simpa using this

theorem perm_ip_fp (x : Bits 64) : perm ipTbl (perm fpTbl x) = x := by
  rw [perm_perm]
  apply perm_id
  intro i
  have := fp_ip_tbl i
  simpa using this

theorem xorV_cancel {n : Nat} (a b : Bits n) : xorV (xorV a b) b = a := by
  apply Vector.ext
  intro i hi
  simp [xorV]

/-! ## Feistel networks -/
section Feistel
variable {α κ : Type} (x : α → α → α) (f : α → κ → α)

theorem fswap_fswap (s : α × α) : fswap (fswap s) = s := rfl

theorem fround_inv (hx : ∀ a b, x (x a b) b = a) (k : κ) (s : α × α) :
    fswap (fround x f k (fswap (fround x f k s))) = s := by
  cases s with
  | mk l r => simp [fround, fswap, hx]

theorem frounds_snoc (ks : List κ) (k : κ) (s : α × α) :
    frounds x f (ks ++ [k]) s = fround x f k (frounds x f ks s) := by
  simp [frounds, List.foldl_append]

theorem frounds_cons (ks : List κ) (k : κ) (s : α × α) :
    frounds x f (k :: ks) s = frounds x f ks (fround x f k s) := rfl

/-- the network with the round keys in reverse order undoes the network -/
theorem feistel_inv (hx : ∀ a b, x (x a b) b = a) (ks : List κ) (s : α × α) :
    feistel x f ks.reverse (feistel x f ks s) = s := by
  induction ks generalizing s with
  | nil => rfl
  | cons k t ih =>
    have ih' := ih (fround x f k s)
    simp only [feistel] at ih' ⊢
    have h2 : frounds x f t.reverse (fswap (frounds x f t (fround x f k s))) = fswap (fround x f k s) := by
      have := congrArg fswap ih'
      rwa [fswap_fswap] at this
    rw [List.reverse_cons, frounds_snoc, frounds_cons, h2]
    exact fround_inv x f hx k s

theorem feistel_inv' (hx : ∀ a b, x (x a b) b = a) (ks : List κ) (s : α × α) :
    feistel x f ks (feistel x f ks.reverse s) = s := by
  have := feistel_inv x f hx ks.reverse s
  rwa [List.reverse_reverse] at this

theorem feistel_injective (hx : ∀ a b, x (x a b) b = a) (ks : List κ) :
    Function.Injective (feistel x f ks) := by
  intro a b h
  have := congrArg (feistel x f ks.reverse) h
  rwa [feistel_inv x f hx, feistel_inv x f hx] at this

theorem feistel_surjective (hx : ∀ a b, x (x a b) b = a) (ks : List κ) :
    Function.Surjective (feistel x f ks) :=
  fun y => ⟨feistel x f ks.reverse y, feistel_inv' x f hx ks y⟩
end Feistel

/-! ## halves -/

theorem join_get (s : Bits 32 × Bits 32) (i : Nat) (hi : i < 64) :
    (join s)[i] = if h : i < 32 then s.1[i] else s.2[i - 32]'(by omega) := by
  unfold join
  rw [Vector.getElem_ofFn]
theorem split_fst_get (b : Bits 64) (i : Nat) (hi : i < 32) : (split b).1[i] = b[i] := by
  unfold split
  simp only []
  rw [Vector.getElem_ofFn]
theorem split_snd_get (b : Bits 64) (i : Nat) (hi : i < 32) : (split b).2[i] = b[32 + i] := by
  unfold split
  simp only []
  rw [Vector.getElem_ofFn]
theorem join_split (b : Bits 64) : join (split b) = b := by
  apply Vector.ext
  intro i hi
  rw [join_get]
  split
  · rw [split_fst_get]
  · rw [split_snd_get]; congr 1; omega
theorem split_join (s : Bits 32 × Bits 32) : split (join s) = s := by
  apply Prod.ext
  · apply Vector.ext
    intro i hi
    rw [split_fst_get, join_get]
    simp [hi]
  · apply Vector.ext
    intro i hi
    rw [split_snd_get, join_get]
    have : ¬ (32 + i < 32) := by omega
    simp [this]

/-! ## the cipher -/

theorem desCore_inv (ks : List (Bits 48)) (b : Bits 64) : desCore ks.reverse (desCore ks b) = b := by
  simp only [desCore, perm_ip_fp, split_join, feistel_inv xorV fFun xorV_cancel, join_split, perm_fp_ip]

theorem desCore_inv' (ks : List (Bits 48)) (b : Bits 64) : desCore ks (desCore ks.reverse b) = b := by
  have := desCore_inv ks.reverse b
  rwa [List.reverse_reverse] at this

theorem desDec_desEnc (k b : Bits 64) : desDec k (desEnc k b) = b := desCore_inv _ b
theorem desEnc_desDec (k b : Bits 64) : desEnc k (desDec k b) = b := desCore_inv' _ b

theorem tdesDec_tdesEnc (k1 k2 b : Bits 64) : tdesDec k1 k2 (tdesEnc k1 k2 b) = b := by
  simp [tdesDec, tdesEnc, desDec_desEnc, desEnc_desDec]
theorem tdesEnc_tdesDec (k1 k2 b : Bits 64) : tdesEnc k1 k2 (tdesDec k1 k2 b) = b := by
  simp [tdesDec, tdesEnc, desDec_desEnc, desEnc_desDec]

theorem bijective_of_inverse {α : Type} (e d : α → α) (h1 : ∀ a, d (e a) = a) (h2 : ∀ a, e (d a) = a) :
    Function.Injective e ∧ Function.Surjective e :=
  ⟨fun a b h => by have := congrArg d h; rwa [h1, h1] at this, fun y => ⟨d y, h2 y⟩⟩

end NfcVerif.Des
