import NfcVerif.Model.T3Vendor
import NfcVerif.Lemmas.HistC02T34
/-!
# C02, vendor readers of the Type 3 commit protocol (`Model/T3Vendor.lean`)

Whatever the product class, the authentication state of the reader and the memory configuration of the card, a
vendor reader of a well-formed memory finds no NDEF or the view of the generic reader with (at most) another
`writeable` flag: the overrides of `_read_attribute_data` leave `readable = (WriteF = 0 ∧ Nbr > 0)` alone and read
the same octets in other portions.  Cut safety of the vendor readers follows from `T3.cut_safe`.
-/
namespace NfcVerif.T3V
open NfcVerif NfcVerif.T34 NfcVerif.T3

theorem cardRead_cases (p : Product) (auth : Bool) (c : Card) (first n : Nat) :
    cardRead p auth c first n = readBlocks c.mem first n ∨ cardRead p auth c first n = .error (.tagCmd 0x01A2) := by
  unfold cardRead
  by_cases h1 : p ≠ .generic ∧ n + (if auth then 1 else 0) > 4
  · right; rw [if_pos h1]; rfl
  · rw [if_neg h1]
    by_cases h2 : p = .liteS ∧ auth = false ∧ anyRestricted c.mcRd first n = true
    · right; rw [if_pos h2]; rfl
    · left; rw [if_neg h2]

/-- the reads are answered from the memory or refused by the card: the loop ends like the generic one or without
data -/
theorem readLoopV_cases (rd : Nat → Nat → Py Bytes) (m : Bytes) (nbr last : Nat)
    (hrd : ∀ i n, rd i n = readBlocks m i n ∨ rd i n = .error (.tagCmd 0x01A2)) :
    ∀ fuel i acc, readLoopV rd nbr last fuel i acc = readLoop m nbr last fuel i acc
      ∨ readLoopV rd nbr last fuel i acc = .ok none := by
  intro fuel
  induction fuel with
  | zero => intro i acc; left; rfl
  | succ fuel ih =>
    intro i acc
    unfold readLoopV readLoop
    split
    · left; rfl
    · rcases hrd i (min (i + nbr) last - i) with h | h
      · rw [h]
        cases hb : readBlocks m i (min (i + nbr) last - i) with
        | ok d => exact ih (i + nbr) (acc ++ d)
        | error e => left; cases e <;> rfl
      · rw [h]; right; rfl

/-- when the card answers every read the loop is the generic one -/
theorem readLoopV_eq (rd : Nat → Nat → Py Bytes) (m : Bytes) (nbr last : Nat)
    (hrd : ∀ i n, 1 ≤ i → n ≤ nbr → rd i n = readBlocks m i n) :
    ∀ fuel i acc, 1 ≤ i → readLoopV rd nbr last fuel i acc = readLoop m nbr last fuel i acc := by
  intro fuel
  induction fuel with
  | zero => intro i acc _; rfl
  | succ fuel ih =>
    intro i acc hi
    unfold readLoopV readLoop
    split
    · rfl
    · rw [hrd i (min (i + nbr) last - i) hi (by omega)]
      cases hb : readBlocks m i (min (i + nbr) last - i) with
      | ok d => exact ih (i + nbr) (acc ++ d) (by omega)
      | error e => cases e <;> rfl

theorem override_fields (p : Product) (auth : Bool) (rw : Nat) (a : Attr) (f : Flags) :
    (override p auth rw a f).1.ver = a.ver ∧ (override p auth rw a f).1.ln = a.ln ∧
    (override p auth rw a f).1.nmaxb = a.nmaxb ∧
    ((override p auth rw a f).1.nbr = a.nbr ∨ (override p auth rw a f).1.nbr = min a.nbr 3) ∧
    (override p auth rw a f).2.readable = f.readable := by
  cases p <;> cases auth <;> simp [override]

/-- **the vendor view of a well-formed memory**: no NDEF, or capacity, `readable` and octets of the generic reader -/
theorem seeV_view (p : Product) (auth : Bool) (c : Card) (a : Attr) (wf : WF c.mem a) :
    seeV p auth c = .ok none ∨
    ∃ w, seeV p auth c = .ok (some ⟨(a.nmaxb * 16 : Nat), decide (a.writef = 0 ∧ a.nbr > 0), w,
      (sliceN c.mem 16 (16 * (1 + (a.ln + 15) / 16))).take a.ln⟩) := by
  have hmem := wf.mem
  have hln := wf.ln
  have hnm := wf.range.nmaxb
  unfold seeV readNdefV
  rcases cardRead_cases p auth c 0 1 with h0 | h0
  · rw [h0, readBlocks_ok c.mem 0 1 (by omega) (by omega) (by omega)]
    simp only [Nat.mul_zero, Nat.zero_add, Nat.mul_one, sliceN_zero_take, wf.dec, Py.bind_ok]
    obtain ⟨hv, hl, hn, hb, hr⟩ := override_fields p auth c.mcRw a (baseFlags a)
    rw [hv, hl, hn]
    rw [if_neg (by have := wf.ver; omega), if_neg (by omega)]
    have hnbr : 1 ≤ min (override p auth c.mcRw a (baseFlags a)).1.nbr 15 ∧
        min (override p auth c.mcRw a (baseFlags a)).1.nbr 15 ≤ 80 := by
      have := wf.nbr
      rcases hb with hb | hb <;> rw [hb] <;> omega
    rw [if_neg (by omega)]
    rcases readLoopV_cases (cardRead p auth c) c.mem (min (override p auth c.mcRw a (baseFlags a)).1.nbr 15)
        (1 + (a.ln + 15) / 16) (cardRead_cases p auth c) (1 + (a.ln + 15) / 16) 1 [] with hl | hl
    · right
      rw [hl, readLoop_spec c.mem _ _ hnbr (by omega) (by omega) _ 1 [] (by omega) (by omega) (by omega)]
      refine ⟨(override p auth c.mcRw a (baseFlags a)).2.writeable, ?_⟩
      simp only [Py.bind_ok, Option.map, List.nil_append, hr, Nat.mul_one]
      rfl
    · left
      rw [hl]; rfl
  · left
    rw [h0]; rfl

/-- no NDEF, or the generic view with another `writeable` flag -/
theorem seeV_vs_see (p : Product) (auth : Bool) (c : Card) (a : Attr) (wf : WF c.mem a) :
    seeV p auth c = .ok none ∨
    ∃ s w, T3.see c.mem = .ok (some s) ∧ seeV p auth c = .ok (some { s with writeable := w }) := by
  rcases seeV_view p auth c a wf with h | ⟨w, h⟩
  · exact Or.inl h
  · refine Or.inr ⟨⟨(a.nmaxb * 16 : Nat), decide (a.writef = 0 ∧ a.nbr > 0), true,
      (sliceN c.mem 16 (16 * (1 + (a.ln + 15) / 16))).take a.ln⟩, w, ?_, h⟩
    unfold T3.see
    rw [readNdef_old c.mem a wf]
    rfl

/-- the memory after the complete write is well formed again -/
theorem wf_final (m data : Bytes) (a : Attr) (wf : WF m a) (hlen : data.length ≤ 16 * a.nmaxb) :
    WF (finalMem m a data) { a with writef := 0, ln := data.length } := by
  have hr := wf.range
  have hrange : AttrRange { a with writef := 0, ln := data.length } :=
    ⟨hr.ver, hr.nbr, hr.nbw, hr.nmaxb, by simp, hr.rwflag, by simp only []; have := hr.nmaxb; omega⟩
  refine ⟨?_, hrange, wf.ver, wf.nbr, wf.nbw, wf.fits, wf.rw, ?_, hlen⟩
  · rw [finalMem_attr m data a wf.mem hlen]
    exact decode_encode _ hrange
  · rw [finalMem_length m data a wf.mem hlen]; exact wf.mem

theorem applyW_plan (m data : Bytes) (a : Attr) (wf : WF m a) (hlen : data.length ≤ 16 * a.nmaxb) :
    applyW m (planWrite a data) = finalMem m a data := by
  have hw := writeNdef_spec m data a wf hlen
  unfold writeNdef at hw
  rw [readBlocks_ok m 0 1 (by omega) (by have := wf.mem; omega) (by omega)] at hw
  simp only [Nat.mul_zero, Nat.zero_add, Nat.mul_one, sliceN_zero_take, wf.dec, Py.bind_ok] at hw
  rw [if_neg (by have := wf.nbw; omega)] at hw
  exact runW_mem_applyW _ _ _ hw

/-- after every prefix of the write the memory is a well-formed Type 3 layout -/
theorem wf_prefix (m data : Bytes) (a : Attr) (wf : WF m a) (hlen : data.length ≤ 16 * a.nmaxb) (k : Nat)
    (hk : k ≤ (planWrite a data).length) : ∃ a', WF (applyW m ((planWrite a data).take k)) a' := by
  by_cases h0 : k = 0
  · subst h0; exact ⟨a, by simpa [applyW] using wf⟩
  by_cases hn : k = (planWrite a data).length
  · subst hn
    rw [List.take_length, applyW_plan m data a wf hlen]
    exact ⟨_, wf_final m data a wf hlen⟩
  · exact ⟨_, Hist.t3_prefix_mid m data a wf hlen k (by omega) (by omega)⟩

/-- **C02 for the vendor readers**: product, authentication state and memory configuration arbitrary -/
theorem vendor_cut_safe (p : Product) (auth : Bool) (mcRw mcRd : Nat) (m data : Bytes) (a : Attr) (wf : WF m a)
    (hlen : data.length ≤ 16 * a.nmaxb) (sOld : Seen) (hold : T3.see m = .ok (some sOld)) (k : Nat)
    (hk : k ≤ (planWrite a data).length) :
    ∃ r, seeV p auth ⟨applyW m ((planWrite a data).take k), mcRw, mcRd⟩ = .ok r ∧ Outcome sOld.data data r := by
  obtain ⟨a', wf'⟩ := wf_prefix m data a wf hlen k hk
  obtain ⟨r, hr, ho⟩ := T3.cut_safe m data a wf hlen sOld hold k hk
  rcases seeV_vs_see p auth ⟨applyW m ((planWrite a data).take k), mcRw, mcRd⟩ a' wf' with h | ⟨s, w, hs, h⟩
  · exact ⟨none, h, by simp [Outcome]⟩
  · refine ⟨_, h, ?_⟩
    simp only [] at hs
    rw [hs] at hr
    cases hr
    simpa [Outcome] using ho

/-- a reader the card does not refuse (no read restriction in its way, portions the card answers) sees exactly the
generic view with the `writeable` flag of the override -/
theorem seeV_answered (p : Product) (auth : Bool) (c : Card) (a : Attr) (wf : WF c.mem a)
    (hn : p = .generic ∨ (override p auth c.mcRw a (baseFlags a)).1.nbr + (if auth then 1 else 0) ≤ 4)
    (hr : p = .liteS → auth = false → ∀ first n, anyRestricted c.mcRd first n = false) :
    seeV p auth c = .ok (some ⟨(a.nmaxb * 16 : Nat), decide (a.writef = 0 ∧ a.nbr > 0),
      (override p auth c.mcRw a (baseFlags a)).2.writeable,
      (sliceN c.mem 16 (16 * (1 + (a.ln + 15) / 16))).take a.ln⟩) := by
  have hmem := wf.mem
  have hln := wf.ln
  have hnm := wf.range.nmaxb
  obtain ⟨hv, hl, hnn, hb, hrd⟩ := override_fields p auth c.mcRw a (baseFlags a)
  have hnbr : 1 ≤ min (override p auth c.mcRw a (baseFlags a)).1.nbr 15 ∧
      min (override p auth c.mcRw a (baseFlags a)).1.nbr 15 ≤ 80 := by
    have := wf.nbr
    rcases hb with hb | hb <;> rw [hb] <;> omega
  have hcr : ∀ i n, n ≤ min (override p auth c.mcRw a (baseFlags a)).1.nbr 15 →
      cardRead p auth c i n = readBlocks c.mem i n := by
    intro i n hle
    unfold cardRead
    rw [if_neg (by
      rintro ⟨hp, hgt⟩
      rcases hn with hn | hn
      · exact hp hn
      · omega)]
    rw [if_neg (by
      rintro ⟨hp, ha, hres⟩
      rw [hr hp ha i n] at hres
      cases hres)]
  unfold seeV readNdefV
  rw [hcr 0 1 (by omega), readBlocks_ok c.mem 0 1 (by omega) (by omega) (by omega)]
  simp only [Nat.mul_zero, Nat.zero_add, Nat.mul_one, sliceN_zero_take, wf.dec, Py.bind_ok]
  rw [hv, hl, hnn]
  rw [if_neg (by have := wf.ver; omega), if_neg (by omega), if_neg (by omega)]
  rw [readLoopV_eq (cardRead p auth c) c.mem _ _ (fun i n _ h => hcr i n h) _ 1 [] (by omega)]
  rw [readLoop_spec c.mem _ _ hnbr (by omega) (by omega) _ 1 [] (by omega) (by omega) (by omega)]
  simp only [Py.bind_ok, Option.map, List.nil_append, hrd, Nat.mul_one]
  rfl

end NfcVerif.T3V
