import NfcVerif.Lemmas.PeerPax
/-!
# C07: `process_command` of the emulated Type 3 Tag is total (repaired code)
-/
namespace NfcVerif.Peer
open NfcVerif.T3Emu

/-- exception classes left for the wrapper / the application callback -/
def T3Ok (e : Exc) : Prop := e = .index ∨ e = .type_

def HasKey (d : Dict) (k : Nat) : Prop := d.any (fun p => decide (p.1 = k)) = true

theorem dictGet_of_hasKey {d : Dict} {k : Nat} (h : HasKey d k) : ∃ v, dictGet d k = .ok v := by
  unfold dictGet
  unfold HasKey at h
  cases hf : d.find? (fun p => decide (p.1 = k)) with
  | some p => exact ⟨p.2, rfl⟩
  | none =>
    rw [List.find?_eq_none] at hf
    rw [List.any_eq_true] at h
    obtain ⟨p, hp, hq⟩ := h
    exact absurd hq (hf p hp)

theorem hasKey_dictSet (d : Dict) (k : Nat) (v : Int) (k' : Nat) (h : HasKey d k' ∨ k = k') :
    HasKey (dictSet d k v) k' := by
  unfold dictSet HasKey at *
  split
  · rename_i hany
    rw [List.any_map]
    rcases h with h | h
    · rw [List.any_eq_true] at h ⊢
      obtain ⟨p, hp, hq⟩ := h
      refine ⟨p, hp, ?_⟩
      simp only [Function.comp]
      split
      · rename_i hpk; simp at hq; simp [← hq, hpk]
      · exact hq
    · subst h
      rw [List.any_eq_true] at hany ⊢
      obtain ⟨p, hp, hq⟩ := hany
      refine ⟨p, hp, ?_⟩
      simp only [Function.comp]
      simp at hq
      simp [hq]
  · rw [List.any_append]
    rcases h with h | h
    · simp [h]
    · simp [h]

theorem foldl_keys (g : Nat × Nat → Int) (l : List (Nat × Nat)) (init : Dict) :
    (∀ k, HasKey init k → HasKey (l.foldl (fun d p => dictSet d p.1 (g p)) init) k) ∧
    (∀ p ∈ l, HasKey (l.foldl (fun d p => dictSet d p.1 (g p)) init) p.1) := by
  induction l generalizing init with
  | nil => exact ⟨fun k h => h, fun p hp => by cases hp⟩
  | cons q l ih =>
    simp only [List.foldl_cons]
    obtain ⟨ih1, ih2⟩ := ih (dictSet init q.1 (g q))
    refine ⟨fun k h => ih1 k (hasKey_dictSet _ _ _ _ (Or.inl h)), ?_⟩
    intro p hp
    rcases List.mem_cons.mp hp with rfl | hp
    · exact ih1 _ (hasKey_dictSet _ _ _ _ (Or.inr rfl))
    · exact ih2 p hp

theorem countDict_keys (svcs : List Nat) (blocks : List (Nat × Nat)) (sc : Nat) (h : sc ∈ svcs) :
    HasKey (countDict svcs blocks) sc := by
  unfold countDict
  obtain ⟨i, hi⟩ : ∃ i, (sc, i) ∈ svcs.zipIdx := by
    obtain ⟨i, hi, rfl⟩ := List.mem_iff_getElem.mp h
    exact ⟨i, by rw [List.mem_zipIdx_iff_getElem?]; simp [hi]⟩
  exact (foldl_keys (fun p => ((blocks.filter (fun b => b.1 = p.2)).length : Int)) svcs.zipIdx []).2 (sc, i) hi

theorem idxN_mem {α} {l : List α} {i : Nat} {a : α} (h : idxN l i = .ok a) : a ∈ l := by
  unfold idxN at h
  split at h
  · rename_i x hx; cases h; exact List.mem_of_getElem? hx
  · cases h

theorem idxN_t3ok {α} (l : List α) (i : Nat) : Safe T3Ok (idxN l i) := by
  intro e h; unfold idxN at h; split at h
  · cases h
  · cases h; exact Or.inl rfl

theorem parseServices_t3ok (n : Nat) (d : Bytes) (acc : List Nat) : Safe T3Ok (parseServices n d acc) := by
  induction n generalizing d acc with
  | zero => unfold parseServices; exact Safe.ok _
  | succ n ih =>
    unfold parseServices
    refine Safe.bind' (idxN_t3ok _ _) fun hi => Safe.bind' (idxN_t3ok _ _) fun lo => ?_
    exact Safe.ite (Safe.ok _) (ih _ _)

theorem parseBlocks_t3ok (nsvc n i : Nat) (d : Bytes) (acc : List (Nat × Nat)) : Safe T3Ok (parseBlocks nsvc n i d acc) := by
  induction n generalizing i d acc with
  | zero => unfold parseBlocks; exact Safe.ok _
  | succ n ih =>
    unfold parseBlocks
    match d with
    | [] => exact Safe.ok _
    | b0 :: r =>
      simp only
      apply Safe.ite
      · exact Safe.ok _
      apply Safe.ite
      · exact Safe.bind' (idxN_t3ok _ _) fun bn => ih _ _ _
      · exact Safe.bind' (idxN_t3ok _ _) fun hi => Safe.bind' (idxN_t3ok _ _) fun lo => ih _ _ _

theorem parseBlocks_len (nsvc n i : Nat) (d : Bytes) (acc : List (Nat × Nat)) (bl : List (Nat × Nat)) (rest : Bytes)
    (h : parseBlocks nsvc n i d acc = .ok (.cont (bl, rest))) : bl.length = acc.length + n := by
  induction n generalizing i d acc with
  | zero => unfold parseBlocks at h; cases h; rfl
  | succ n ih =>
    unfold parseBlocks at h
    match d, h with
    | [], h => cases h
    | b0 :: r, h =>
      simp only at h
      split at h
      · cases h
      · split at h
        · obtain ⟨bn, _, h⟩ := Py.bind_eq_ok.mp h
          have := ih _ _ _ h
          simp only [List.length_append, List.length_cons, List.length_nil] at this
          omega
        · obtain ⟨hi, _, h⟩ := Py.bind_eq_ok.mp h
          obtain ⟨lo, _, h⟩ := Py.bind_eq_ok.mp h
          have := ih _ _ _ h
          simp only [List.length_append, List.length_cons, List.length_nil] at this
          omega

theorem storeRead_len {store : Bytes} {bn : Nat} {blk : Bytes} (h : storeRead store bn = some blk) : blk.length ≤ 16 := by
  unfold storeRead at h
  split at h
  · cases h; simp [sliceN, List.length_take]; omega
  · cases h

theorem readLoop_ok (store : Bytes) (svcs : List Nat) (d0 : Dict) (bl : List (Nat × Nat)) (i : Nat) (d : Dict)
    (acc : Bytes) (log : List Call) (hk : ∀ sc ∈ svcs, HasKey d0 sc ∧ HasKey d sc) :
    Safe T3Ok (readLoop store svcs d0 bl i d acc log) ∧
    ∀ rsp lg, readLoop store svcs d0 bl i d acc log = .ok (rsp, lg) → rsp.length ≤ 3 + acc.length + 16 * bl.length := by
  induction bl generalizing i d acc log with
  | nil =>
    unfold readLoop
    refine ⟨Safe.ok _, ?_⟩
    intro rsp lg h; cases h; simp; omega
  | cons b rest ih =>
    obtain ⟨si, bn⟩ := b
    unfold readLoop
    cases hs : idxN svcs si with
    | error e =>
      have := idxN_t3ok svcs si e hs
      simp only [Py.bind_error]
      exact ⟨fun e' he => by cases he; exact this, fun rsp lg h => by cases h⟩
    | ok sc =>
      have hm := idxN_mem hs
      obtain ⟨v0, hv0⟩ := dictGet_of_hasKey (hk sc hm).1
      obtain ⟨v, hv⟩ := dictGet_of_hasKey (hk sc hm).2
      simp only [Py.bind_ok, hv0, hv]
      cases hr : storeRead store bn with
      | none =>
        simp only
        refine ⟨Safe.ok _, ?_⟩
        intro rsp lg h; cases h
        simp only [List.length_cons, List.length_nil]; omega
      | some blk =>
        simp only
        have hb := storeRead_len hr
        obtain ⟨h1, h2⟩ := ih (i + 1) (dictSet d sc (v - 1)) (acc ++ blk)
          (log ++ [⟨false, bn, decide (v0 = v), decide (v - 1 = 0)⟩])
          (fun sc' hsc' => ⟨(hk sc' hsc').1, hasKey_dictSet _ _ _ _ (Or.inl (hk sc' hsc').2)⟩)
        refine ⟨h1, ?_⟩
        intro rsp lg h
        have := h2 rsp lg h
        simp only [List.length_append, List.length_cons] at this ⊢
        omega

theorem writeLoop_ok (svcs : List Nat) (d0 : Dict) (data : Bytes) (bl : List (Nat × Nat)) (i : Nat) (d : Dict)
    (store : Bytes) (log : List Call) (hk : ∀ sc ∈ svcs, HasKey d0 sc ∧ HasKey d sc) :
    Safe T3Ok (writeLoop svcs d0 data bl i d store log) ∧
    ∀ rsp st lg, writeLoop svcs d0 data bl i d store log = .ok (rsp, st, lg) → rsp.length = 2 := by
  induction bl generalizing i d store log with
  | nil =>
    unfold writeLoop
    refine ⟨Safe.ok _, ?_⟩
    intro rsp st lg h; cases h; rfl
  | cons b rest ih =>
    obtain ⟨si, bn⟩ := b
    unfold writeLoop
    cases hs : idxN svcs si with
    | error e =>
      have := idxN_t3ok svcs si e hs
      simp only [Py.bind_error]
      exact ⟨fun e' he => by cases he; exact this, fun rsp st lg h => by cases h⟩
    | ok sc =>
      have hm := idxN_mem hs
      obtain ⟨v0, hv0⟩ := dictGet_of_hasKey (hk sc hm).1
      obtain ⟨v, hv⟩ := dictGet_of_hasKey (hk sc hm).2
      simp only [Py.bind_ok, hv0, hv]
      split
      · exact ⟨Safe.throw (Or.inr rfl), fun rsp st lg h => by cases h⟩
      · cases hw : storeWrite store bn (sliceN data (i * 16) ((i + 1) * 16)) with
        | none =>
          simp only
          exact ⟨Safe.ok _, fun rsp st lg h => by cases h; rfl⟩
        | some s' =>
          simp only
          exact ih (i + 1) (dictSet d sc (v - 1)) s' _
            (fun sc' hsc' => ⟨(hk sc' hsc').1, hasKey_dictSet _ _ _ _ (Or.inl (hk sc' hsc').2)⟩)

theorem parseServices_done (n : Nat) (d : Bytes) (acc : List Nat) (r : Bytes)
    (h : parseServices n d acc = .ok (.done r)) : r.length = 2 := by
  induction n generalizing d acc with
  | zero => unfold parseServices at h; cases h
  | succ n ih =>
    unfold parseServices at h
    obtain ⟨hi, _, h⟩ := Py.bind_eq_ok.mp h
    obtain ⟨lo, _, h⟩ := Py.bind_eq_ok.mp h
    split at h
    · cases h; rfl
    · exact ih _ _ h

theorem parseBlocks_done (nsvc n i : Nat) (d : Bytes) (acc : List (Nat × Nat)) (r : Bytes)
    (h : parseBlocks nsvc n i d acc = .ok (.done r)) : r.length = 2 := by
  induction n generalizing i d acc with
  | zero => unfold parseBlocks at h; cases h
  | succ n ih =>
    unfold parseBlocks at h
    match d, h with
    | [], h => cases h; rfl
    | b0 :: r', h =>
      simp only at h
      split at h
      · cases h; rfl
      · split at h
        · obtain ⟨bn, _, h⟩ := Py.bind_eq_ok.mp h
          exact ih _ _ _ h
        · obtain ⟨hi, _, h⟩ := Py.bind_eq_ok.mp h
          obtain ⟨lo, _, h⟩ := Py.bind_eq_ok.mp h
          exact ih _ _ _ h

theorem emuRead_ok (e : Emu) (d : Bytes) :
    Safe T3Ok (emuRead e d) ∧ ∀ rsp lg, emuRead e d = .ok (rsp, lg) → rsp.length ≤ 243 := by
  unfold emuRead
  cases h0 : idxN d 0 with
  | error x => exact ⟨fun e' he => by cases he; exact idxN_t3ok _ _ _ h0, fun _ _ h => by cases h⟩
  | ok nsvc =>
    simp only [Py.bind_ok]
    cases h1 : parseServices nsvc (d.drop 1) [] with
    | error x => exact ⟨fun e' he => by cases he; exact parseServices_t3ok _ _ _ _ h1, fun _ _ h => by cases h⟩
    | ok s =>
      simp only [Py.bind_ok]
      match s with
      | .done r =>
        refine ⟨Safe.ok _, ?_⟩
        intro rsp lg h; cases h
        have := parseServices_done _ _ _ _ h1; omega
      | .cont (svcs, d1) =>
        simp only
        cases h2 : idxN d1 0 with
        | error x => exact ⟨fun e' he => by cases he; exact idxN_t3ok _ _ _ h2, fun _ _ h => by cases h⟩
        | ok nblk =>
          simp only [Py.bind_ok]
          split
          · exact ⟨Safe.ok _, fun rsp lg h => by cases h; decide⟩
          · rename_i hn
            cases h3 : parseBlocks svcs.length nblk 0 (d1.drop 1) [] with
            | error x => exact ⟨fun e' he => by cases he; exact parseBlocks_t3ok _ _ _ _ _ _ h3, fun _ _ h => by cases h⟩
            | ok b =>
              simp only [Py.bind_ok]
              match b, h3 with
              | .done r, h3 =>
                refine ⟨Safe.ok _, ?_⟩
                intro rsp lg h; cases h
                have := parseBlocks_done _ _ _ _ _ _ h3; omega
              | .cont (blocks, rest), h3 =>
                simp only
                have hl := parseBlocks_len _ _ _ _ _ _ _ h3
                have hk : ∀ sc ∈ svcs, HasKey (countDict svcs blocks) sc ∧ HasKey (countDict svcs blocks) sc :=
                  fun sc hsc => ⟨countDict_keys _ _ _ hsc, countDict_keys _ _ _ hsc⟩
                obtain ⟨g1, g2⟩ := readLoop_ok e.store svcs _ blocks 0 _ [] [] hk
                refine ⟨g1, ?_⟩
                intro rsp lg h
                have := g2 rsp lg h
                simp only [List.length_nil] at this hl
                omega

theorem emuWrite_ok (e : Emu) (d : Bytes) :
    Safe T3Ok (emuWrite e d) ∧ ∀ rsp st lg, emuWrite e d = .ok (rsp, st, lg) → rsp.length = 2 := by
  unfold emuWrite
  cases h0 : idxN d 0 with
  | error x => exact ⟨fun e' he => by cases he; exact idxN_t3ok _ _ _ h0, fun _ _ _ h => by cases h⟩
  | ok nsvc =>
    simp only [Py.bind_ok]
    cases h1 : parseServices nsvc (d.drop 1) [] with
    | error x => exact ⟨fun e' he => by cases he; exact parseServices_t3ok _ _ _ _ h1, fun _ _ _ h => by cases h⟩
    | ok s =>
      simp only [Py.bind_ok]
      match s, h1 with
      | .done r, h1 =>
        refine ⟨Safe.ok _, ?_⟩
        intro rsp st lg h; cases h
        exact parseServices_done _ _ _ _ h1
      | .cont (svcs, d1), _ =>
        simp only
        cases h2 : idxN d1 0 with
        | error x => exact ⟨fun e' he => by cases he; exact idxN_t3ok _ _ _ h2, fun _ _ _ h => by cases h⟩
        | ok nblk =>
          simp only [Py.bind_ok]
          cases h3 : parseBlocks svcs.length nblk 0 (d1.drop 1) [] with
          | error x => exact ⟨fun e' he => by cases he; exact parseBlocks_t3ok _ _ _ _ _ _ h3, fun _ _ _ h => by cases h⟩
          | ok b =>
            simp only [Py.bind_ok]
            match b, h3 with
            | .done r, h3 =>
              refine ⟨Safe.ok _, ?_⟩
              intro rsp st lg h; cases h
              exact parseBlocks_done _ _ _ _ _ _ h3
            | .cont (blocks, data), h3 =>
              simp only
              split
              · exact ⟨Safe.ok _, fun rsp st lg h => by cases h; rfl⟩
              · have hk : ∀ sc ∈ svcs, HasKey (countDict svcs blocks) sc ∧ HasKey (countDict svcs blocks) sc :=
                  fun sc hsc => ⟨countDict_keys _ _ _ hsc, countDict_keys _ _ _ hsc⟩
                exact writeLoop_ok svcs _ data blocks 0 _ e.store [] hk

theorem respond_ok (e : Emu) (c : Nat) (r : Bytes) (h : r.length ≤ 245) : ∃ x, respond e c r = .ok x := by
  unfold respond
  rw [if_neg (by omega)]
  exact ⟨_, rfl⟩

/-- `process_command` as found, ids of the usual sizes: only `IndexError` (truncated command) or the
`TypeError` of tagtool's write callback -/
theorem processCommand_t3ok (e : Emu) (hl : e.idm.length = 8 ∧ e.pmm.length = 8 ∧ e.sys.length = 2) (cmd : Bytes) :
    Safe T3Ok (processCommand e cmd) := by
  unfold processCommand
  refine Safe.bind' (idxN_t3ok _ _) fun l0 => Safe.ite (Safe.ok _) (Safe.ite ?_ (Safe.ite ?_ (Safe.ok _)))
  · refine Safe.bind' (idxN_t3ok _ _) fun rc => ?_
    simp only
    obtain ⟨h1, h2, h3⟩ := hl
    rw [if_neg (by split <;> simp only [List.length_append] <;> omega)]
    exact Safe.ok _
  · refine Safe.bind' (idxN_t3ok _ _) fun code => ?_
    apply Safe.ite
    · obtain ⟨x, hx⟩ := respond_ok e 0x05 [0] (by decide)
      rw [hx]; exact Safe.ok _
    apply Safe.ite
    · obtain ⟨g1, g2⟩ := emuRead_ok e (cmd.drop 10)
      refine Safe.bind g1 ?_
      rintro ⟨rsp, lg⟩ hr
      obtain ⟨x, hx⟩ := respond_ok e 0x07 rsp (by have := g2 rsp lg hr; omega)
      simp only [hx]; exact Safe.ok _
    apply Safe.ite
    · obtain ⟨g1, g2⟩ := emuWrite_ok e (cmd.drop 10)
      refine Safe.bind g1 ?_
      rintro ⟨rsp, st, lg⟩ hr
      obtain ⟨x, hx⟩ := respond_ok e 0x09 rsp (by have := g2 rsp st lg hr; omega)
      simp only [hx]; exact Safe.ok _
    apply Safe.ite
    · obtain ⟨x, hx⟩ := respond_ok e 0x0D ([1] ++ e.sys) (by simp only [List.length_append, List.length_cons, List.length_nil]; have := hl.2.2; omega)
      rw [hx]; exact Safe.ok _
    · exact Safe.ok _

theorem processCommandR_total (e : Emu) (hl : e.idm.length = 8 ∧ e.pmm.length = 8 ∧ e.sys.length = 2) (cmd : Bytes) :
    Safe (fun x => x = .type_) (processCommandR e cmd) := by
  intro x h
  unfold processCommandR at h
  split at h
  · cases h
  · rename_i hne
    rcases processCommand_t3ok e hl cmd x h with h1 | h1
    · subst h1; exact absurd h hne
    · exact h1
end NfcVerif.Peer
