import NfcVerif.Model.T4
import NfcVerif.Lemmas.T34Base
/-! Lemmas for the Type 4 Tag theorems (C01T34, C02T34, C03T34). -/
namespace NfcVerif.T4
open NfcVerif.T34

theorem sliceN_append_drop (l : Bytes) (a b : Nat) (h : a ≤ b) : sliceN l a b ++ l.drop b = l.drop a := by
  unfold sliceN
  have : l.drop b = (l.drop a).drop (b - a) := by rw [List.drop_drop]; congr 1; omega
  rw [this, List.take_append_drop]

theorem sliceN_to_end (l : Bytes) (a b : Nat) (h : l.length ≤ b) : sliceN l a b = l.drop a := by
  unfold sliceN
  apply List.take_of_length_le
  simp [List.length_drop]; omega

theorem sliceN_len' (l : Bytes) (a b : Nat) : (sliceN l a b).length = min (b - a) (l.length - a) := by
  simp [sliceN, List.length_take, List.length_drop]

theorem runU_cons_ok {c : Card} {f f' : Bytes} {u : UCmd} (us : List UCmd) (h : sendU c f u = .ok f') :
    runU c f (u :: us) = ⟨u :: (runU c f' us).sent, (runU c f' us).file, (runU c f' us).res⟩ := by
  simp [runU, h]

theorem runU_append_ok (c : Card) (xs ys : List UCmd) : ∀ (f f' : Bytes), runU c f xs = ⟨xs, f', .ok ()⟩ →
    runU c f (xs ++ ys) = ⟨xs ++ (runU c f' ys).sent, (runU c f' ys).file, (runU c f' ys).res⟩ := by
  induction xs with
  | nil => intro f f' h; simp [runU] at h; subst h; simp
  | cons u us ih =>
    intro f f' h
    cases hs : sendU c f u with
    | error e => simp [runU, hs] at h
    | ok f1 =>
      rw [runU_cons_ok us hs] at h
      have h2 : runU c f1 us = ⟨us, f', .ok ()⟩ := by
        cases hr : runU c f1 us with
        | mk s mm r => rw [hr] at h; simp at h; obtain ⟨h1, h2, h3⟩ := h; subst h1 h2 h3; rfl
      rw [List.cons_append, runU_cons_ok _ hs, ih f1 f' h2]
      simp

theorem sendU_splice {c : Card} {f f' : Bytes} {u : UCmd} (h : sendU c f u = .ok f') : f' = splice f u.off u.data := by
  unfold sendU at h
  repeat (split at h; · simp at h)
  simp at h; exact h.symm

theorem runU_file_applyU (c : Card) (us : List UCmd) : ∀ (f F : Bytes), runU c f us = ⟨us, F, .ok ()⟩ → applyU f us = F := by
  induction us with
  | nil => intro f F h; simp [runU] at h; simpa [applyU] using h
  | cons u us ih =>
    intro f F h
    cases hs : sendU c f u with
    | error e => simp [runU, hs] at h
    | ok f1 =>
      rw [runU_cons_ok us hs] at h
      have h2 : runU c f1 us = ⟨us, F, .ok ()⟩ := by
        cases hr : runU c f1 us with
        | mk s mm r => rw [hr] at h; simp at h; obtain ⟨h1, h2, h3⟩ := h; subst h1 h2 h3; rfl
      simp only [applyU, List.foldl_cons]
      rw [← sendU_splice hs]; exact ih f1 F h2

theorem sendU_ok (c : Card) (f : Bytes) (u : UCmd) (h1 : u.off ≤ 65535) (h2 : 1 ≤ u.data.length ∧ u.data.length ≤ 255)
    (h3 : u.data.length ≤ c.mlc) (h4 : u.off + u.data.length ≤ f.length) : sendU c f u = .ok (splice f u.off u.data) := by
  unfold sendU
  rw [if_neg (by omega), if_neg (by omega), if_neg (by omega), if_neg (by omega), if_neg (by omega)]

/-- running the chunk loop over `buf` from `off` writes `buf[off:]` at `off` -/
theorem chunk_run (c : Card) (lc : Nat) (buf : Bytes) (hlc : 1 ≤ lc ∧ lc ≤ 255 ∧ lc ≤ c.mlc) :
    ∀ fuel off f, 0 < fuel → buf.length < fuel + off → buf.length ≤ f.length → buf.length ≤ 65536 →
      runU c f (chunkCmds lc buf fuel off) = ⟨chunkCmds lc buf fuel off, splice f off (buf.drop off), .ok ()⟩ := by
  intro fuel
  induction fuel with
  | zero => intro off f h; omega
  | succ fuel ih =>
    intro off f _ hf hbl h65
    unfold chunkCmds
    split
    · rw [List.drop_of_length_le (by omega)]; simp [runU]
    · rename_i hlt
      have hlt : off < buf.length := by omega
      have hdl : (sliceN buf off (off + lc)).length = min lc (buf.length - off) := by
        rw [sliceN_len']; congr 1; omega
      have hs := sendU_ok c f ⟨off, sliceN buf off (off + lc)⟩ (by simp only []; omega) (by simp only []; omega)
        (by simp only []; omega) (by simp only []; omega)
      rw [runU_cons_ok _ hs]
      have hfl : (splice f off (sliceN buf off (off + lc))).length = f.length := splice_length _ _ _ (by omega)
      rw [ih (off + min lc (buf.length - off)) _ (by omega) (by omega) (by simp only []; omega) h65]
      simp only [Trace.mk.injEq, true_and, and_true]
      rw [← hdl, splice_adj _ _ _ _ (by rw [List.length_drop]; omega)]
      congr 1
      by_cases hc : off + lc ≤ buf.length
      · rw [hdl, Nat.min_eq_left (by omega)]; exact sliceN_append_drop buf off (off + lc) (by omega)
      · rw [hdl, Nat.min_eq_right (by omega), List.drop_of_length_le (l := buf) (by omega), sliceN_to_end buf _ _ (by omega)]
        simp

theorem chunk_mem (lc : Nat) (buf : Bytes) (hlc : 1 ≤ lc) : ∀ fuel off, ∀ u ∈ chunkCmds lc buf fuel off,
    off ≤ u.off ∧ 1 ≤ u.data.length ∧ u.data.length ≤ lc ∧ u.off + u.data.length ≤ buf.length := by
  intro fuel
  induction fuel with
  | zero => intro off u hu; simp [chunkCmds] at hu
  | succ fuel ih =>
    intro off u hu
    unfold chunkCmds at hu
    split at hu
    · simp at hu
    · simp only [List.mem_cons] at hu
      rcases hu with hu | hu
      · subst hu; simp only []; rw [sliceN_len']; omega
      · have := ih _ u hu; omega

/-- a buffer that fits one UPDATE BINARY is written by exactly one command -/
theorem chunk_single (lc : Nat) (buf : Bytes) (h : buf.length ≤ lc) (hne : 0 < buf.length) (fuel : Nat) (hf : 1 < fuel) :
    chunkCmds lc buf fuel 0 = [⟨0, buf⟩] := by
  obtain ⟨f2, rfl⟩ : ∃ f2, fuel = f2 + 2 := ⟨fuel - 2, by omega⟩
  unfold chunkCmds
  rw [if_neg (by omega)]
  unfold chunkCmds
  rw [if_pos (by omega)]
  simp only [Nat.zero_add]
  rw [sliceN_to_end _ _ _ h]; simp

theorem chunk_head (lc : Nat) (buf : Bytes) (hne : 0 < buf.length) (fuel : Nat) :
    chunkCmds lc buf (fuel + 1) 0 = ⟨0, buf.take lc⟩ :: chunkCmds lc buf fuel (min lc buf.length) := by
  rw [chunkCmds]
  rw [if_neg (by omega)]
  simp [sliceN]

end NfcVerif.T4
