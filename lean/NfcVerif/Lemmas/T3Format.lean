import NfcVerif.Model.T3Format
import NfcVerif.Lemmas.T3
/-! Lemmas for Type 3 `format()` (C03T34.t3_format_confined). -/
namespace NfcVerif.T3
open NfcVerif.T34

theorem readOk_single (t : Phys) (N : Nat) (hm : t.mem.length = 16 * N) (hr : 1 ≤ t.limR) (b : Nat) :
    readOk t [b] = decide (b < N) := by
  simp only [readOk, blockOk, hm, List.isEmpty_cons, Bool.not_false, Bool.true_and, List.length_cons, List.length_nil,
    List.all_cons, List.all_nil, Bool.and_true]
  by_cases h : b < N
  · simp [h, hr]; omega
  · simp [h]; omega

theorem bsearch_spec (t : Phys) (N : Nat) (hm : t.mem.length = 16 * N) (hr : 1 ≤ t.limR) :
    ∀ fuel lo hi, lo < N → N ≤ hi → hi - lo ≤ 2 ^ fuel → bsearch t fuel lo hi = N - 1 := by
  intro fuel
  induction fuel with
  | zero => intro lo hi h1 h2 h3; simp at h3; simp [bsearch]; omega
  | succ fuel ih =>
    intro lo hi h1 h2 h3
    rw [Nat.pow_succ] at h3
    unfold bsearch
    split
    · simp only [readOk_single t N hm hr]
      by_cases hb : lo + (hi - lo) / 2 < N
      · simp only [hb, decide_true, if_true]
        exact ih _ _ hb h2 (by omega)
      · simp only [hb, decide_false]
        exact ih _ _ h1 (by omega) (by omega)
    · omega

theorem probeUp_spec (ok : Nat → Bool) (top lim : Nat) (hok : ∀ k, 1 ≤ k → (ok k = true ↔ k ≤ lim)) :
    ∀ fuel k, 1 ≤ k → k ≤ min lim top + 1 → fuel + k = top + 1 → probeUp ok top fuel k = min lim top := by
  intro fuel
  induction fuel with
  | zero => intro k h1 h2 h3; simp [probeUp]; omega
  | succ fuel ih =>
    intro k h1 h2 h3
    unfold probeUp
    rw [if_neg (by omega)]
    by_cases hk : k ≤ lim
    · rw [if_pos ((hok k h1).mpr hk)]
      exact ih (k + 1) (by omega) (by omega) (by omega)
    · have : ok k = false := by
        cases h : ok k with
        | false => rfl
        | true => exact absurd ((hok k h1).mp h) hk
      simp [this]; omega

theorem slice_repeat (blk : Bytes) (hl : blk.length = 16) : ∀ (K i : Nat), i < K →
    sliceN (repeatBytes K blk) (16 * i) (16 * (i + 1)) = blk := by
  intro K
  induction K with
  | zero => intro i h; omega
  | succ K ih =>
    intro i hi
    have hrep : repeatBytes (K + 1) blk = blk ++ repeatBytes K blk := by
      simp [repeatBytes, List.replicate_succ]
    rw [hrep]
    cases i with
    | zero => simp [sliceN, hl]
    | succ i =>
      have := ih i (by omega)
      unfold sliceN at *
      rw [List.drop_append, List.drop_of_length_le (by omega), hl, List.nil_append,
        show 16 * (i + 1) - 16 = 16 * i by omega, show 16 * (i + 1 + 1) - 16 * (i + 1) = 16 * (i + 1) - 16 * i by omega]
      exact this

theorem splice_self (m : Bytes) (h : 16 ≤ m.length) : splice m 0 (m.take 16) = m := by
  unfold splice
  simp [List.length_take, Nat.min_eq_left h]

theorem probe_fold (m data : Bytes) (hm : 16 ≤ m.length) : ∀ (k n : Nat),
    (∀ i, n ≤ i → i < n + k → sliceN data (16 * i) (16 * (i + 1)) = m.take 16) →
    ((List.replicate k 0).zipIdx n).foldl
      (fun m p => splice m (16 * p.1) (sliceN data (16 * p.2) (16 * (p.2 + 1)))) m = m := by
  intro k
  induction k with
  | zero => intro n _; rfl
  | succ k ih =>
    intro n h
    rw [List.replicate_succ, List.zipIdx_cons, List.foldl_cons]
    simp only [Nat.mul_zero]
    rw [h n (by omega) (by omega), splice_self m hm]
    exact ih (n + 1) (fun i h1 h2 => h i (by omega) (by omega))

theorem probeWrites_fold (m : Bytes) (hm : 16 ≤ m.length) (nbw : Nat) :
    (probeWrites (m.take 16) nbw).foldl applyG m = m := by
  unfold probeWrites
  have hl : (m.take 16).length = 16 := by simp [List.length_take]; omega
  induction nbw with
  | zero => rfl
  | succ n ih =>
    rw [List.range_succ, List.map_append, List.foldl_append, ih]
    simp only [List.map_cons, List.map_nil, List.foldl_cons, List.foldl_nil, applyG]
    exact probe_fold m _ hm (n + 1) 0 (fun i _ h2 => slice_repeat _ hl (n + 1) i (by omega))

theorem applyG_single (m : Bytes) (b : Nat) (d : Bytes) (hd : d.length = 16) :
    applyG m ⟨[b], d⟩ = splice m (16 * b) d := by
  simp [applyG, List.zipIdx, sliceN, ← hd]

theorem wipe_fold (w : Nat) : ∀ (n : Nat) (m : Bytes), 16 * (n + 1) ≤ m.length →
    (wipeCmds w n).foldl applyG m = m.take 16 ++ List.replicate (16 * n) w ++ m.drop (16 * (n + 1)) := by
  intro n
  induction n with
  | zero => intro m _; simp [wipeCmds]
  | succ n ih =>
    intro m hm
    have hl : (List.replicate 16 w).length = 16 := by simp
    have hs : (splice m (16 * (n + 1)) (List.replicate 16 w)).length = m.length :=
      splice_length _ _ _ (by rw [hl]; omega)
    simp only [wipeCmds, List.foldl_cons]
    rw [applyG_single _ _ _ hl, ih _ (by rw [hs]; omega)]
    rw [splice_take_before _ _ _ 16 (by omega) (by rw [hl]; omega)]
    have hd : (splice m (16 * (n + 1)) (List.replicate 16 w)).drop (16 * (n + 1))
        = List.replicate 16 w ++ m.drop (16 * (n + 1 + 1)) := by
      unfold splice
      rw [List.append_assoc, List.drop_append, List.drop_of_length_le (by simp [List.length_take]; omega)]
      simp [List.length_take, Nat.min_eq_left (show 16 * (n + 1) ≤ m.length by omega)]
      congr 1
    rw [hd]
    have hr : List.replicate (16 * (n + 1)) w = List.replicate (16 * n) w ++ List.replicate 16 w := by
      rw [List.replicate_append_replicate]; congr 1
    rw [hr]
    simp [List.append_assoc]

theorem opOk_replicate (lim N k : Nat) (hN : 1 ≤ N) (hk : 1 ≤ k) (mem : Bytes) (hm : mem.length = 16 * N) :
    ((!(List.replicate k 0).isEmpty && decide ((List.replicate k 0).length ≤ lim)
      && (List.replicate k 0).all (fun b => decide (16 * (b + 1) ≤ mem.length))) = true) ↔ k ≤ lim := by
  obtain ⟨k', rfl⟩ : ∃ k', k = k' + 1 := ⟨k - 1, by omega⟩
  simp [List.replicate_succ, hm]
  intro _; omega

theorem wipeCmds_mem (w : Nat) : ∀ n, ∀ c ∈ wipeCmds w n, ∀ b ∈ c.blocks, 1 ≤ b ∧ b ≤ n := by
  intro n
  induction n with
  | zero => intro c hc; simp [wipeCmds] at hc
  | succ n ih =>
    intro c hc b hb
    simp only [wipeCmds, List.mem_cons] at hc
    rcases hc with rfl | hc
    · simp at hb; omega
    · have := ih c hc b hb; omega

/-- the attribute values `format` writes for a tag of `N` blocks -/
def fmtNbw (limW N : Nat) : Nat := if min limW 13 = 13 ∧ N - 1 > 255 then 12 else min limW 13

/-- C03 for Type 3 `format(version, wipe)` (repaired code): on a tag with `N ≥ 1` blocks that accepts at least
one block per read and write command the call succeeds; the memory afterwards is the new attribute block
(given or default version, Nbr = min(limR, 15), Nbw = min(limW, 13) - reduced to 12 when block numbers need
three octets -, Nmaxb = N-1, WriteF 0, RWFlag 1, Ln 0) followed by the untouched data blocks (no wipe) or by
`16·(N-1)` copies of the wipe octet; every command addresses blocks below `N` only. -/
theorem format_spec (t : Phys) (N : Nat) (hm : t.mem.length = 16 * N) (hN : 1 ≤ N ∧ N ≤ 65536)
    (hr : 1 ≤ t.limR) (hw : 1 ≤ t.limW) (version wipe : Option Nat)
    (hv : ∀ v, version = some v → v / 16 = 1) (hwp : ∀ w, wipe = some w → w < 256) :
    (format true t version wipe).res = .ok true ∧
    (format true t version wipe).mem
      = formatAttr (version.getD 0x10) (min t.limR 15) (fmtNbw t.limW N) (N - 1)
          ++ (match wipe with
              | none => t.mem.drop 16
              | some w => List.replicate (16 * (N - 1)) w) ∧
    ∀ c ∈ (format true t version wipe).sent, ∀ b ∈ c.blocks, b < N := by
  have hro : readOk t [0] = true := by rw [readOk_single t N hm hr]; simp; omega
  have hwo : writeOk t [0] = true := by
    simp only [writeOk, blockOk, hm, List.isEmpty_cons, Bool.not_false, Bool.true_and, List.length_cons, List.length_nil,
      List.all_cons, List.all_nil, Bool.and_true]
    simp; omega
  have hbs : bsearch t 17 0 0x10000 = N - 1 := bsearch_spec t N hm hr 17 0 0x10000 (by omega) (by omega) (by decide)
  have hnbr : probeUp (fun k => readOk t (List.replicate k 0)) 15 15 1 = min t.limR 15 :=
    probeUp_spec _ 15 t.limR (fun k hk => by
      simp only [readOk, blockOk]; exact opOk_replicate t.limR N k hN.1 hk t.mem hm) 15 1 (by omega) (by omega) (by omega)
  have hnbw : probeUp (fun k => writeOk t (List.replicate k 0)) 13 13 1 = min t.limW 13 :=
    probeUp_spec _ 13 t.limW (fun k hk => by
      simp only [writeOk, blockOk]; exact opOk_replicate t.limW N k hN.1 hk t.mem hm) 13 1 (by omega) (by omega) (by omega)
  have hm16 : 16 ≤ t.mem.length := by omega
  have hpf := probeWrites_fold t.mem hm16 (min t.limW 13)
  have hvlt : ¬ version.getD 0x10 > 255 := by
    cases version with
    | none => simp
    | some v => have := hv v rfl; simp; omega
  have hal : (formatAttr (version.getD 0x10) (min t.limR 15) (fmtNbw t.limW N) (N - 1)).length = 16 := by
    simp [formatAttr, encodeAttr_length]
  have hm2 : applyG t.mem ⟨[0], formatAttr (version.getD 0x10) (min t.limR 15) (fmtNbw t.limW N) (N - 1)⟩
      = formatAttr (version.getD 0x10) (min t.limR 15) (fmtNbw t.limW N) (N - 1) ++ t.mem.drop 16 := by
    rw [applyG_single _ _ _ hal]; simp [splice, hal]
  have hprobe : ∀ c ∈ probeWrites (t.mem.take 16) (min t.limW 13), ∀ b ∈ c.blocks, b < N := by
    intro c hc b hb
    simp only [probeWrites, List.mem_map, List.mem_range] at hc
    obtain ⟨j, _, rfl⟩ := hc
    simp only [List.mem_replicate] at hb
    omega
  have hfin : (format true t version wipe) = (
      let a : GCmd := ⟨[0], formatAttr (version.getD 0x10) (min t.limR 15) (fmtNbw t.limW N) (N - 1)⟩
      let probes := probeWrites (t.mem.take 16) (min t.limW 13)
      match wipe with
      | none => ⟨probes ++ [a], applyG t.mem a, .ok true⟩
      | some w => if w > 255 then ⟨probes ++ [a], applyG t.mem a, .error .value⟩
          else ⟨probes ++ [a] ++ wipeCmds w (N - 1), (wipeCmds w (N - 1)).foldl applyG (applyG t.mem a), .ok true⟩) := by
    rcases version with _ | v <;> rcases wipe with _ | w
    · simp [format, hro, hbs, hnbr, hnbw, hpf, hwo, fmtNbw]
    · simp [format, hro, hbs, hnbr, hnbw, hpf, hwo, fmtNbw]
    · have h1 := hv v rfl
      have h2 : ¬ 255 < v := by omega
      simp [format, hro, hbs, hnbr, hnbw, hpf, hwo, fmtNbw, h1, h2]
    · have h1 := hv v rfl
      have h2 : ¬ 255 < v := by omega
      simp [format, hro, hbs, hnbr, hnbw, hpf, hwo, fmtNbw, h1, h2]
  rw [hfin]
  cases wipe with
  | none =>
    simp only [hm2]
    refine ⟨by first | rfl | trivial, by first | rfl | trivial, ?_⟩
    intro c hc b hb
    simp only [List.mem_append, List.mem_singleton] at hc
    rcases hc with hc | rfl
    · exact hprobe c hc b hb
    · simp at hb; omega
  | some w =>
    have hw256 := hwp w rfl
    simp only [if_neg (show ¬ w > 255 by omega), hm2]
    refine ⟨by first | rfl | trivial, ?_, ?_⟩
    · rw [wipe_fold w (N - 1) _ (by simp [hal, hm]; omega)]
      rw [List.take_left' hal]
      rw [List.drop_of_length_le (by simp [hal, hm]; omega)]
      simp
    · intro c hc b hb
      simp only [List.mem_append, List.mem_singleton] at hc
      rcases hc with (hc | rfl) | hc
      · exact hprobe c hc b hb
      · simp at hb; omega
      · have := wipeCmds_mem w (N - 1) c hc b hb; omega

end NfcVerif.T3
