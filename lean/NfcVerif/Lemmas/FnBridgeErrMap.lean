import NfcVerif.Gen.FnErrMap
import NfcVerif.Lemmas.ErrMap
import NfcVerif.Lemmas.FnBridgePn53xCommon
/-!
Helper definitions for `Props/FnBridgeErrMap.lean`: the models `pnMapI`, `pnMapT`, `guardChip`,
`guardStatus` of `Model/ErrMap.lean` are functions on `Py α` that change only the exception; the
regenerated handler bodies are functions from the caught `errno` to `Py Unit` that always raise.  The two
meet at `α := Unit`; `pnMapI_error` .. `guardStatus_error` say the choice of `α` does not matter.
-/
namespace NfcVerif.FnBridge.ErrMap
open NfcVerif NfcVerif.PyFn NfcVerif.ErrMap NfcVerif.HostFrame

/-- `pnMapI` on a raised exception, as a function on exceptions -/
def mapI : Exc → Exc
  | .chipsetError n => if n = 1 then .timeout else .transmission
  | .io e => if e = ETIMEDOUT then .timeout else .io e
  | x => x

/-- `pnMapT` on a raised exception -/
def mapT : Exc → Exc
  | .chipsetError n => if n = 0x0A ∨ n = 0x29 ∨ n = 0x31 then .brokenLink else .transmission
  | .io e => if e = ETIMEDOUT then .timeout else .io e
  | x => x

/-- on a raised exception the handler models give the same exception at every result type -/
theorem pnMapI_error {α} (e : Exc) : pnMapI (.error e : Py α) = .error (mapI e) := by
  cases e <;> simp only [pnMapI, mapI] <;> split <;> rfl
theorem pnMapT_error {α} (e : Exc) : pnMapT (.error e : Py α) = .error (mapT e) := by
  cases e <;> simp only [pnMapT, mapT] <;> split <;> rfl
theorem guardChip_error {α} (n : Nat) : guardChip .repaired (.error (.chipsetError n) : Py α) = .error eio := rfl
theorem guardStatus_error {α} : guardStatus .repaired (.error .rcsStatus : Py α) = .error eio := rfl

/-- the part of `udpParse` behind the RFOFF test -/
def udpParseRest (v : Variant) (brty : Bytes) (dg : Bytes) : Py (Option Bytes) :=
  match splitWs dg with
  | [b, hex] =>
    if b.any (fun x => decide (x ≥ 128)) then
      (match v with | .asFound => throw .value | .repaired => throw .transmission)
    else
      match unhex hex with
      | none => (match v with | .asFound => throw .value | .repaired => throw .transmission)
      | some d => if b = brty then pure (some d) else pure none
  | _ => throw .transmission

theorem udpParse_split (v : Variant) (brty dg : Bytes) :
    udpParse v brty dg = if startsWith dg rfoff then throw .brokenLink else udpParseRest v brty dg := rfl

end NfcVerif.FnBridge.ErrMap
