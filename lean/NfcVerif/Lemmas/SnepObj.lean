import NfcVerif.Lemmas.Snep
import NfcVerif.Lemmas.Handover
import NfcVerif.Model.SnepObj
/-!
Histories of one `SnepClient` / `HandoverClient` object (`Model/SnepObj.lean`): whatever the mix of
temporary connections, `connect`, requests and `close`, every message is delivered once to the
service the object is connected to at that time, a temporary connection is released after its
request and an explicit one is kept.  Property C06.
-/
namespace NfcVerif.SnepObj
open NfcVerif NfcVerif.Chan NfcVerif.Snep

/-- what the object carries between two calls -/
structure Inv (w : World) (o : Obj) (cur : Option Nat) : Prop where
  cur_eq : o.sock.map (·.svc) = cur
  ok : ∀ c, o.sock = some c → c.net.sst = .idle ∧ c.net.c2s = [] ∧ c.net.s2c = [] ∧ c.net.dl = [] ∧
    ∃ s, w[c.svc]? = some s ∧ o.sendMiu = s.cmiu
  bal : o.closed ++ cur.toList = o.opened

theorem close_inv (w : World) (o : Obj) (cur : Option Nat) (h : Inv w o cur) :
    Inv w (close w o) none ∧ (close w o).dl = o.dl ∧ (close w o).opened = o.opened ∧
    (close w o).acc = o.acc ∧ (close w o).sendMiu = o.sendMiu ∧ (close w o).sock = none := by
  obtain ⟨h1, h2, h3⟩ := h
  unfold close
  cases hs : o.sock with
  | none =>
    simp only [hs, Option.map_none] at h1
    subst h1
    exact ⟨⟨by simp [hs], by simp [hs], h3⟩, rfl, rfl, rfl, rfl, hs⟩
  | some c =>
    obtain ⟨a1, a2, a3, a4, s, a5, a6⟩ := h2 c hs
    simp only [hs, Option.map_some] at h1
    subst h1
    exact ⟨⟨by simp [a5, a1, srvOnClose], by simp [a5, a1, srvOnClose], by simpa [a5, a1, srvOnClose] using h3⟩,
      by simp [a5, a1, srvOnClose], by simp [a5, a1, srvOnClose], by simp [a5, a1, srvOnClose],
      by simp [a5, a1, srvOnClose], by simp [a5, a1, srvOnClose]⟩

theorem connect_inv (w : World) (o : Obj) (cur : Option Nat) (svc : Nat) (hsvc : svc < w.length) (h : Inv w o cur) :
    Inv w (connect w o svc).1 (some svc) ∧ (connect w o svc).1.dl = o.dl ∧
    (connect w o svc).1.opened = o.opened ++ [svc] ∧ (connect w o svc).1.acc = o.acc ∧ (connect w o svc).2 = .unit := by
  obtain ⟨⟨c1, c2, c3⟩, d1, d2, d3, d4, d5⟩ := close_inv w o cur h
  obtain ⟨s, hs⟩ : ∃ s, w[svc]? = some s := ⟨w[svc], List.getElem?_eq_getElem hsvc⟩
  let o1 := close w o
  have hc : connect w o svc =
      (({ o1 with opened := o1.opened ++ [svc], sock := some { svc := svc, net := Snep.init }, sendMiu := s.cmiu } : Obj),
        HRes.unit) := by
    unfold connect; simp only [hs, o1]
  rw [hc]
  refine ⟨⟨rfl, ?_, ?_⟩, d1, by simp [o1, d2], d3, rfl⟩
  · intro c hc
    simp only [Option.some.injEq] at hc
    subst hc
    exact ⟨rfl, rfl, rfl, rfl, s, hs, rfl⟩
  · simp only [Option.toList_some]
    simp only [Option.toList_none, List.append_nil] at c3
    show (close w o).closed ++ [svc] = (close w o).opened ++ [svc]
    rw [c3]

/-- the requests of a history are acceptable to every service of the peer (so that it does not
matter for the *outcome* which one they reach) and `connect` names an existing service -/
def Good (w : World) (acc : Nat) : HOp → Prop
  | .connect s => s < w.length
  | .close => True
  | .req .put m => ∀ s ∈ w, m.length < 2 ^ 32 ∧ m.length ≤ s.cfg.maxAcc ∧ s.cfg.h.valid m = true
  | .req .get m => acc < 2 ^ 32 ∧ ∀ s ∈ w, 4 + m.length < 2 ^ 32 ∧ 4 + m.length ≤ s.cfg.maxAcc ∧
      s.cfg.h.valid m = true ∧ ∃ rd, s.cfg.h.get m = .inr rd ∧ rd.length < 2 ^ 32

def GoodWorld (w : World) : Prop := 0 < w.length ∧ ∀ s ∈ w, 6 ≤ s.cmiu ∧ 6 ≤ s.cfg.smiu

/-- one request on an idle connection: delivered once, connection idle again -/
theorem net_req (s : Svc) (acc : Nat) (hs : 6 ≤ s.cmiu ∧ 6 ≤ s.cfg.smiu) (op : Op) (m : Bytes)
    (hg : Good [s] acc (.req op m)) (n : SNet) (h1 : n.sst = .idle) (h2 : n.c2s = []) (h3 : n.s2c = []) (h4 : n.dl = []) :
    ∃ N, ∀ fuel, N ≤ fuel →
      (runOp s.cfg { miu := s.cmiu, acc := acc } fuel n op m).sst = .idle ∧
      (runOp s.cfg { miu := s.cmiu, acc := acc } fuel n op m).c2s = [] ∧
      (runOp s.cfg { miu := s.cmiu, acc := acc } fuel n op m).s2c = [] ∧
      (runOp s.cfg { miu := s.cmiu, acc := acc } fuel n op m).dl = [(op, m)] ∧
      runOp s.cfg { miu := s.cmiu, acc := acc } fuel n op m = runOp s.cfg { miu := s.cmiu, acc := acc } N n op m := by
  obtain ⟨c0, st, q1, q2, lc, ls, dl0⟩ := n
  simp only at h1 h2 h3 h4
  subst h1 h2 h3 h4
  cases op with
  | put =>
    obtain ⟨a, b, c⟩ := hg s (by simp)
    obtain ⟨N, hN⟩ := put_run s.cfg { miu := s.cmiu, acc := acc } m c0 lc ls [] hs.1 hs.2 a b c
    exact ⟨N, fun fuel hf => by rw [hN fuel hf, hN N (Nat.le_refl _)]; simp⟩
  | get =>
    obtain ⟨ha, hall⟩ := hg
    obtain ⟨a, b, c, rd, d, e⟩ := hall s (by simp)
    obtain ⟨N, hN⟩ := get_run s.cfg { miu := s.cmiu, acc := acc } m rd c0 lc ls [] hs.1 hs.2 a ha b c d e
    exact ⟨N, fun fuel hf => by rw [hN fuel hf, hN N (Nat.le_refl _)]; simp⟩

theorem good_single (w : World) (acc : Nat) (op : Op) (m : Bytes) (hg : Good w acc (.req op m)) (s : Svc) (hs : s ∈ w) :
    Good [s] acc (.req op m) := by
  cases op with
  | put => intro x hx; simp at hx; rw [hx]; exact hg s hs
  | get => exact ⟨hg.1, fun x hx => by simp at hx; rw [hx]; exact hg.2 s hs⟩

/-- the request itself on an object that has a connection: the message goes, once, to the service
of that connection; the connection is idle again (and closed when it was a temporary one) -/
theorem exchange_inv (w : World) (hw : GoodWorld w) (o : Obj) (c : Conn) (hsock : o.sock = some c)
    (h : Inv w o (some c.svc)) (rel : Bool) (op : Op) (m : Bytes) (hg : Good w o.acc (.req op m)) :
    ∃ N, ∀ fuel, N ≤ fuel →
      Inv w (exchange w fuel o rel op m).1 (if rel then none else some c.svc) ∧
      (exchange w fuel o rel op m).1.dl = o.dl ++ [(c.svc, op, m)] ∧
      (exchange w fuel o rel op m).1.opened = o.opened ∧ (exchange w fuel o rel op m).1.acc = o.acc ∧
      exchange w fuel o rel op m = exchange w N o rel op m := by
  obtain ⟨a1, a2, a3, a4, s, a5, a6⟩ := h.ok c hsock
  have hmem : s ∈ w := List.mem_of_getElem? a5
  obtain ⟨N, hN⟩ := net_req s o.acc (hw.2 s hmem) op m (good_single w o.acc op m hg s hmem) c.net a1 a2 a3 a4
  refine ⟨N, fun fuel hf => ?_⟩
  obtain ⟨b1, b2, b3, b4, b5⟩ := hN fuel hf
  rw [← a6] at b1 b2 b3 b4 b5
  have hst : exchange w fuel o rel op m = exchange w N o rel op m := by
    simp only [exchange, hsock, a5, b5]
  -- the object right after the exchange
  have hset : Inv w (settle o c (runOp s.cfg { miu := o.sendMiu, acc := o.acc } fuel c.net op m) rel
        (decide (quiet (proto s.cfg) (runOp s.cfg { miu := o.sendMiu, acc := o.acc } fuel c.net op m)))) (some c.svc) := by
    refine ⟨rfl, ?_, h.bal⟩
    intro c' hc'
    simp only [settle, Option.some.injEq] at hc'
    subst hc'
    exact ⟨b1, b2, b3, rfl, s, a5, a6⟩
  have hdl : (settle o c (runOp s.cfg { miu := o.sendMiu, acc := o.acc } fuel c.net op m) rel
        (decide (quiet (proto s.cfg) (runOp s.cfg { miu := o.sendMiu, acc := o.acc } fuel c.net op m)))).dl = o.dl ++ [(c.svc, op, m)] := by
    simp [settle, b4]
  have hex : exchange w fuel o rel op m =
      (if rel then close w (settle o c (runOp s.cfg { miu := o.sendMiu, acc := o.acc } fuel c.net op m) rel
        (decide (quiet (proto s.cfg) (runOp s.cfg { miu := o.sendMiu, acc := o.acc } fuel c.net op m))))
       else settle o c (runOp s.cfg { miu := o.sendMiu, acc := o.acc } fuel c.net op m) rel
        (decide (quiet (proto s.cfg) (runOp s.cfg { miu := o.sendMiu, acc := o.acc } fuel c.net op m))),
       HRes.res (Snep.result (runOp s.cfg { miu := o.sendMiu, acc := o.acc } fuel c.net op m))) := by
    simp only [exchange, hsock, a5]
  have main : Inv w (exchange w fuel o rel op m).1 (if rel then none else some c.svc) ∧
      (exchange w fuel o rel op m).1.dl = o.dl ++ [(c.svc, op, m)] ∧
      (exchange w fuel o rel op m).1.opened = o.opened ∧ (exchange w fuel o rel op m).1.acc = o.acc := by
    rw [hex]
    cases rel with
    | false => exact ⟨by simpa using hset, by simpa using hdl, rfl, rfl⟩
    | true =>
      obtain ⟨e1, e2, e3, e4, _, _⟩ := close_inv w _ _ hset
      simp only [if_true]
      exact ⟨e1, by rw [e2, hdl], by rw [e3]; rfl, by rw [e4]; rfl⟩
  exact ⟨main.1, main.2.1, main.2.2.1, main.2.2.2, hst⟩

/-- `put_octets` / `get_octets` of the code as it is -/
theorem request_inv (w : World) (hw : GoodWorld w) (o : Obj) (cur : Option Nat) (h : Inv w o cur)
    (op : Op) (m : Bytes) (hg : Good w o.acc (.req op m)) :
    ∃ N, ∀ fuel, N ≤ fuel →
      Inv w (request w fuel false o op m).1 cur ∧
      (request w fuel false o op m).1.dl = o.dl ++ [(cur.getD 0, op, m)] ∧
      (request w fuel false o op m).1.opened = o.opened ++ (if cur.isSome then [] else [0]) ∧
      (request w fuel false o op m).1.acc = o.acc ∧
      request w fuel false o op m = request w N false o op m := by
  cases hs : o.sock with
  | some c =>
    have hcur : cur = some c.svc := by rw [← h.cur_eq, hs]; rfl
    subst hcur
    obtain ⟨N, hN⟩ := exchange_inv w hw o c hs h false op m hg
    refine ⟨N, fun fuel hf => ?_⟩
    have this : ∀ f, request w f false o op m = exchange w f o false op m := fun f => by simp [request, hs]
    rw [this, this]
    obtain ⟨x1, x2, x3, x4, x5⟩ := hN fuel hf
    exact ⟨by simpa using x1, by simpa using x2, by simpa using x3, x4, x5⟩
  | none =>
    have hcur : cur = none := by rw [← h.cur_eq, hs]; rfl
    subst hcur
    obtain ⟨i1, i2, i3, i4, i5⟩ := connect_inv w o none 0 hw.1 h
    obtain ⟨c, hc⟩ : ∃ c, (connect w o 0).1.sock = some c ∧ c.svc = 0 := by
      have := i1.cur_eq
      cases hx : (connect w o 0).1.sock with
      | none => simp [hx] at this
      | some c => exact ⟨c, rfl, by simpa [hx] using this⟩
    have i1' : Inv w (connect w o 0).1 (some c.svc) := by rw [hc.2]; exact i1
    obtain ⟨N, hN⟩ := exchange_inv w hw (connect w o 0).1 c hc.1 i1' true op m (by rw [i4]; exact hg)
    refine ⟨N, fun fuel hf => ?_⟩
    have this : ∀ f, request w f false o op m = exchange w f (connect w o 0).1 true op m := fun f => by
      have hp : connect w o 0 = ((connect w o 0).1, HRes.unit) := by rw [← i5]
      simp only [request, hs]
      rw [hp]
    rw [this, this]
    obtain ⟨x1, x2, x3, x4, x5⟩ := hN fuel hf
    refine ⟨by simpa using x1, ?_, ?_, by rw [x4, i4], x5⟩
    · rw [x2, i2, hc.2]; rfl
    · rw [x3, i3]; rfl

/-- **histories of one SnepClient object** (any length, any mix of temporary connections,
`connect`, requests and `close`) -/
theorem history_run (w : World) (hw : GoodWorld w) : ∀ (h : List HOp) (o : Obj) (cur : Option Nat), Inv w o cur →
    (∀ x ∈ h, Good w o.acc x) →
    ∃ N, ∀ fuel, N ≤ fuel →
      Inv w (hrun w fuel false o h).1 (specCur cur h) ∧
      (hrun w fuel false o h).1.dl = o.dl ++ specDl cur h ∧
      (hrun w fuel false o h).1.opened = o.opened ++ specOpened cur h := by
  intro h
  induction h with
  | nil => intro o cur hi _; exact ⟨0, fun _ _ => ⟨hi, by simp [hrun, specDl], by simp [hrun, specOpened]⟩⟩
  | cons x rest ih =>
    intro o cur hi hg
    have hgx := hg x (by simp)
    cases x with
    | connect svc =>
      obtain ⟨i1, i2, i3, i4, _⟩ := connect_inv w o cur svc hgx hi
      obtain ⟨N, hN⟩ := ih (connect w o svc).1 (some svc) i1 (fun y hy => by rw [i4]; exact hg y (List.mem_cons_of_mem _ hy))
      refine ⟨N, fun fuel hf => ?_⟩
      obtain ⟨y1, y2, y3⟩ := hN fuel hf
      simp only [hrun, hstep, specCur, specDl, specOpened]
      exact ⟨y1, by rw [y2, i2], by rw [y3, i3]; simp⟩
    | close =>
      obtain ⟨i1, i2, i3, i4, _, _⟩ := close_inv w o cur hi
      obtain ⟨N, hN⟩ := ih (close w o) none i1 (fun y hy => by rw [i4]; exact hg y (List.mem_cons_of_mem _ hy))
      refine ⟨N, fun fuel hf => ?_⟩
      obtain ⟨y1, y2, y3⟩ := hN fuel hf
      simp only [hrun, hstep, specCur, specDl, specOpened]
      exact ⟨y1, by rw [y2, i2], by rw [y3, i3]⟩
    | req op m =>
      obtain ⟨N1, hN1⟩ := request_inv w hw o cur hi op m hgx
      obtain ⟨z1, z2, z3, z4, _⟩ := hN1 N1 (Nat.le_refl _)
      obtain ⟨N2, hN2⟩ := ih (request w N1 false o op m).1 cur z1
        (fun y hy => by rw [z4]; exact hg y (List.mem_cons_of_mem _ hy))
      refine ⟨max N1 N2, fun fuel hf => ?_⟩
      obtain ⟨_, _, _, _, heq⟩ := hN1 fuel (by omega)
      obtain ⟨y1, y2, y3⟩ := hN2 fuel (by omega)
      simp only [hrun, hstep, heq]
      refine ⟨by simpa [specCur] using y1, ?_, ?_⟩
      · rw [y2, z2]; simp [specDl]
      · rw [y3, z3]
        cases cur <;> simp [specOpened]

/-! ## HandoverClient histories -/
open NfcVerif.Handover in
/-- what a HandoverClient object carries between two calls -/
def HInv (o : HObj) (connected : Bool) : Prop :=
  o.sock.isSome = connected ∧
  ∀ n, o.sock = some n → n.sst = Handover.HS.collecting [] ∧ n.c2s = [] ∧ n.s2c = [] ∧ n.dl = []

theorem filterMap_answer_unit (l : List HHRes) :
    List.filterMap HHRes.answer (HHRes.unit :: l) = List.filterMap HHRes.answer l := rfl

open NfcVerif.Handover in
theorem hh_history_run (cfg : HCfg) (cmiu : Nat) (hc : 0 < cmiu) (hs : 0 < cfg.smiu) (hreset : cfg.reset = true) :
    ∀ (h : List HHOp) (o : HObj) (conn : Bool) (msgs : List Bytes), HInv o conn → hhSpec conn h = some msgs →
    (∀ m ∈ msgs, PrefixFree cfg.complete m ∧ PrefixFree cfg.complete (cfg.handler m)) →
    ∃ N, ∀ fuel, N ≤ fuel →
      (hhrun cfg cmiu fuel o h).1.dl = o.dl ++ msgs ∧
      (hhrun cfg cmiu fuel o h).2.filterMap HHRes.answer =
        msgs.map (fun m => some (cfg.handler m)) := by
  intro h
  induction h with
  | nil =>
    intro o conn msgs _ hsp _
    simp only [hhSpec, Option.some.injEq] at hsp
    subst hsp
    exact ⟨0, fun _ _ => by simp [hhrun]⟩
  | cons x rest ih =>
    intro o conn msgs hi hsp hpf
    cases x with
    | connect =>
      simp only [hhSpec] at hsp
      obtain ⟨N, hN⟩ := ih (hhstep cfg cmiu 0 o .connect).1 true msgs
        ⟨rfl, fun n hn => by simp only [hhstep, Option.some.injEq] at hn; subst hn; exact ⟨rfl, rfl, rfl, rfl⟩⟩ hsp hpf
      exact ⟨N, fun fuel hf => by simpa [hhrun, hhstep, filterMap_answer_unit] using hN fuel hf⟩
    | close =>
      simp only [hhSpec] at hsp
      obtain ⟨N, hN⟩ := ih (hhstep cfg cmiu 0 o .close).1 false msgs
        ⟨rfl, fun n hn => by simp [hhstep] at hn⟩ hsp hpf
      exact ⟨N, fun fuel hf => by simpa [hhrun, hhstep, filterMap_answer_unit] using hN fuel hf⟩
    | req m =>
      cases conn with
      | false => simp [hhSpec] at hsp
      | true =>
        simp only [hhSpec, Option.map_eq_some_iff] at hsp
        obtain ⟨tl, htl, rfl⟩ := hsp
        obtain ⟨n, hn⟩ : ∃ n, o.sock = some n := Option.isSome_iff_exists.mp hi.1
        obtain ⟨a1, a2, a3, a4⟩ := hi.2 n hn
        obtain ⟨c0, st, q1, q2, lc, ls, dl0⟩ := n
        simp only at a1 a2 a3 a4
        subst a1 a2 a3 a4
        obtain ⟨hm, hr⟩ := hpf m (by simp)
        obtain ⟨N1, hN1⟩ := req_run cfg cmiu m c0 lc ls [] hc hs hreset hm hr
        have hstep1 : ∀ fuel, N1 ≤ fuel → hhstep cfg cmiu fuel o (.req m) = hhstep cfg cmiu N1 o (.req m) := by
          intro fuel hf
          simp only [hhstep, hn, hN1 fuel hf, hN1 N1 (Nat.le_refl _)]
        have hval : (hhstep cfg cmiu N1 o (.req m)).1.dl = o.dl ++ [m] ∧
            (hhstep cfg cmiu N1 o (.req m)).2 = .res (some (cfg.handler m)) ∧ HInv (hhstep cfg cmiu N1 o (.req m)).1 true := by
          simp only [hhstep, hn, hN1 N1 (Nat.le_refl _), Handover.result, List.nil_append]
          exact ⟨trivial, trivial, rfl, fun n hn' => by
            simp only [Option.some.injEq] at hn'; subst hn'; exact ⟨rfl, rfl, rfl, rfl⟩⟩
        obtain ⟨N2, hN2⟩ := ih (hhstep cfg cmiu N1 o (.req m)).1 true tl hval.2.2 htl
          (fun x hx => hpf x (List.mem_cons_of_mem _ hx))
        refine ⟨max N1 N2, fun fuel hf => ?_⟩
        obtain ⟨y1, y2⟩ := hN2 fuel (by omega)
        simp only [hhrun, hstep1 fuel (by omega)]
        refine ⟨by rw [y1, hval.1]; simp, ?_⟩
        simp only [List.filterMap_cons, hval.2.1, HHRes.answer, List.map_cons]
        rw [y2]

end NfcVerif.SnepObj
