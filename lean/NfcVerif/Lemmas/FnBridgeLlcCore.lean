import NfcVerif.Lemmas.FnBridgeBase
import NfcVerif.Gen.FnLlcCore
import NfcVerif.Model.FnLlcCoreRef
/-!
# Lemmas for the bridge of group LlcCore

* facts about the reference definitions `Model/FnLlcCoreRef.lean`: the SNL PDU built from a budget stays inside
  it (`buildSnl_within`), the aggregation never asks a service access point with negative room
  (`aggPass_room`, `aggLoop_room`);
* the loop simulations that connect the regenerated `Gen.Fn.lc_collect_agg` (`whileC` around `forC`) with
  `FnLlcCoreRef.aggLoop` / `aggPass`.
-/
namespace NfcVerif.FnBridge.LlcCore
open NfcVerif NfcVerif.PyFn NfcVerif.FnLlcCoreRef

/-! ## service discovery -/

def reqSum (l : List (Int × Bytes)) : Int := (l.map fun x => sdreqSize x.2).sum

theorem reqSum_append (a b : List (Int × Bytes)) : reqSum (a ++ b) = reqSum a + reqSum b := by
  simp [reqSum, List.sum_append]

theorem sdreqSize_pos (n : Bytes) : 3 ≤ sdreqSize n := by unfold sdreqSize; omega

/-- responses: 4 octets each are paid, the budget never becomes negative and never grows -/
theorem takeRes_inv : ∀ (q : List (Int × Int)) (m : Int) (out : List (Int × Int)),
    4 * ((takeRes q m out).2.1.length : Int) + (takeRes q m out).1 = 4 * (out.length : Int) + m ∧
    (0 ≤ m → 0 ≤ (takeRes q m out).1) ∧ (takeRes q m out).1 ≤ m := by
  intro q
  induction q with
  | nil => intro m out; simp [takeRes]
  | cons x q ih =>
    intro m out
    simp only [takeRes, sdresSize]
    by_cases h : m ≥ 4
    · simp only [h, if_true]
      have := ih (m - 4) (out ++ [x])
      simp only [List.length_append, List.length_cons, List.length_nil] at this
      refine ⟨by omega, fun _ => this.2.1 (by omega), by omega⟩
    · simp only [h, if_false]
      simp

/-- below the size of one response nothing is taken -/
theorem takeRes_small (q : List (Int × Int)) (m : Int) (out : List (Int × Int)) (h : m < 4) :
    (takeRes q m out).1 = m ∧ (takeRes q m out).2.1 = out := by
  cases q with
  | nil => simp [takeRes]
  | cons x q =>
    have : ¬ m ≥ 4 := by omega
    simp [takeRes, sdresSize, this]

/-- requests: a request taken is paid with `3 + len(name)` octets of the budget left at that moment -/
theorem takeReq_inv : ∀ (k : Nat) (q : List (Int × Bytes)) (m : Int) (out : List (Int × Bytes)),
    reqSum (takeReq k q m out).2.1 + (takeReq k q m out).1 = reqSum out + m ∧
    (0 ≤ m → 0 ≤ (takeReq k q m out).1) ∧ (takeReq k q m out).1 ≤ m := by
  intro k
  induction k with
  | zero => intro q m out; simp [takeReq]
  | succ k ih =>
    intro q m out
    cases q with
    | nil => simp [takeReq]
    | cons x q =>
      simp only [takeReq]
      by_cases h : sdreqSize x.2 > m
      · simp only [h, if_true]; exact ih _ _ _
      · simp only [h, if_false]
        have := ih q (m - sdreqSize x.2) (out ++ [x])
        rw [reqSum_append] at this
        have e : reqSum [x] = sdreqSize x.2 := by simp [reqSum]
        have p := sdreqSize_pos x.2
        refine ⟨by omega, fun _ => this.2.1 (by omega), by omega⟩

/-- below the size of the smallest request nothing is taken -/
theorem takeReq_small : ∀ (k : Nat) (q : List (Int × Bytes)) (m : Int) (out : List (Int × Bytes)), m < 3 →
    (takeReq k q m out).1 = m ∧ (takeReq k q m out).2.1 = out := by
  intro k
  induction k with
  | zero => intro q m out _; simp [takeReq]
  | succ k ih =>
    intro q m out h
    cases q with
    | nil => simp [takeReq]
    | cons x q =>
      have p := sdreqSize_pos x.2
      have : sdreqSize x.2 > m := by omega
      simp only [takeReq, this, if_true]
      exact ih _ _ _ h

/-- **C10, service discovery**: the information field of the SNL PDU that `ServiceDiscovery.dequeue` builds from a
non-negative budget never exceeds that budget - however many responses and requests are pending -/
theorem buildSnl_within (sdres : List (Int × Int)) (sdreq : List (Int × Bytes)) (miu : Int) (h : 0 ≤ miu) :
    snlInfo (buildSnl sdres sdreq miu).1 (buildSnl sdres sdreq miu).2 ≤ miu := by
  unfold buildSnl snlInfo
  have a := takeRes_inv sdres miu []
  have b := takeReq_inv sdreq.length sdreq (takeRes sdres miu []).1 []
  simp only [List.length_nil, reqSum] at a b
  simp only [sdresSize]
  have := b.2.1 (a.2.1 h)
  simp only [List.map_nil, List.sum_nil] at b
  omega

/-- with a negative budget nothing is put into the SNL PDU (but the - empty - PDU is still built: the reason why
`collect` must not ask with negative room) -/
theorem buildSnl_negative (sdres : List (Int × Int)) (sdreq : List (Int × Bytes)) (miu : Int) (h : miu < 0) :
    snlInfo (buildSnl sdres sdreq miu).1 (buildSnl sdres sdreq miu).2 = 0 := by
  unfold buildSnl snlInfo
  have a := takeRes_small sdres miu [] (by omega)
  have b := takeReq_small sdreq.length sdreq (takeRes sdres miu []).1 [] (by rw [a.1]; omega)
  simp only [a.2, b.2]
  simp

/-! ## aggregation -/

/-- the same environment with another `dequeue` -/
def withDeq (E : AggEnv) (d : Int → Int → Option Int) : AggEnv := { E with deq := d }

@[simp] theorem withDeq_deq (E : AggEnv) (d) : (withDeq E d).deq = d := rfl
@[simp] theorem withDeq_icv (E : AggEnv) (d) : (withDeq E d).icv = E.icv := rfl
@[simp] theorem withDeq_doEnc (E : AggEnv) (d) : (withDeq E d).doEnc = E.doEnc := rfl
@[simp] theorem withDeq_enc (E : AggEnv) (d) : (withDeq E d).enc = E.enc := rfl
@[simp] theorem withDeq_room (E : AggEnv) (d) (a : List Int) : (withDeq E d).room a = E.room a := rfl

/-- **C10, aggregation**: a pass that starts with room `m ≥ 0` never asks a service access point with negative
room: the outcome is the same for every `dequeue` that agrees on non-negative budgets.  (The inner `break`:
without it the rest of the pass would go on with the negative room and append whatever is handed out.) -/
theorem aggPass_room (E : AggEnv) (d : Int → Int → Option Int) (h : ∀ m i, 0 ≤ m → E.deq m i = d m i) :
    ∀ (saps : List Int) (dn : Bool) (m : Int) (agg : List Int), 0 ≤ m →
      aggPass E saps (dn, m, agg) = aggPass (withDeq E d) saps (dn, m, agg) := by
  obtain ⟨sm, icv, de, enc, al, dq⟩ := E
  intro saps
  induction saps with
  | nil => intro dn m agg _; simp [aggPass]
  | cons s rest ih =>
    intro dn m agg hm
    simp only [withDeq] at ih ⊢
    simp only [aggPass, AggEnv.room]
    have e : dq m icv = d m icv := h m icv hm
    rw [e]
    cases d m icv with
    | none => exact ih dn m agg hm
    | some p =>
      by_cases hp : p = 0
      · simp only [hp, if_true]; exact ih dn m agg hm
      · simp only [hp, if_false]
        by_cases hr : sm - al (agg ++ [if de = true then enc p else p]) - 3 < 0
        · simp only [hr, if_true]
        · simp only [hr, if_false]
          exact ih false _ _ (by omega)

/-- the room after a pass that started with `m ≥ 0` is the room of the aggregate it built, or `m` when nothing
was dequeued: the aggregate is never extended once its room is negative -/
theorem aggLoop_room (E : AggEnv) (d : Int → Int → Option Int) (h : ∀ m i, 0 ≤ m → E.deq m i = d m i)
    (saps : List Int) : ∀ (fuel : Nat) (m : Int) (agg : List Int),
      aggLoop E saps fuel (m, agg) = aggLoop (withDeq E d) saps fuel (m, agg) := by
  intro fuel
  induction fuel with
  | zero => intro m agg; rfl
  | succ fuel ih =>
    intro m agg
    simp only [aggLoop]
    by_cases hm : m ≥ 0
    · simp only [hm, if_true]
      rw [← aggPass_room E d h saps true m agg hm]
      by_cases hb : (aggPass E saps (true, m, agg)).2.1 < 0 ∨ (aggPass E saps (true, m, agg)).1 = true
      · simp only [hb, if_true]
      · simp only [hb, if_false]; exact ih _ _
    · simp only [hm, if_false]

/-- body of the inner `for sap in filter(None, self.sap)` loop as `Gen.Fn.lc_collect_agg` has it -/
def passBody (E : AggEnv) (st : Bool × Int × List Int) (_sap : Int) : Py (Ctl (Bool × Int × List Int) Empty) :=
  match st with
  | (dn, m, agg) =>
    Except.ok (match E.deq m E.icv with
      | none => Ctl.next (dn, m, agg)
      | some p =>
        if p ≠ 0 then
          (if E.sendMiu - E.agfLen (agg ++ [if E.doEnc = true then E.enc p else p]) - 3 < 0 then
            Ctl.brk (false, E.sendMiu - E.agfLen (agg ++ [if E.doEnc = true then E.enc p else p]) - 3,
                     agg ++ [if E.doEnc = true then E.enc p else p])
           else Ctl.next (false, E.sendMiu - E.agfLen (agg ++ [if E.doEnc = true then E.enc p else p]) - 3,
                          agg ++ [if E.doEnc = true then E.enc p else p]))
        else Ctl.next (dn, m, agg))

theorem forC_pass (E : AggEnv) : ∀ (saps : List Int) (dn : Bool) (m : Int) (agg : List Int),
    forC (ρ := Empty) saps (dn, m, agg) (passBody E) = .ok (.inl (aggPass E saps (dn, m, agg))) := by
  intro saps
  induction saps with
  | nil => intro dn m agg; rfl
  | cons s rest ih =>
    intro dn m agg
    simp only [forC, passBody, aggPass]
    cases E.deq m E.icv with
    | none => exact ih dn m agg
    | some p =>
      by_cases hp : p = 0
      · simp only [hp, ne_eq, not_true_eq_false, if_false, if_true]; exact ih dn m agg
      · simp only [hp, ne_eq, not_false_eq_true, if_true, if_false, AggEnv.room]
        by_cases hr : E.sendMiu - E.agfLen (agg ++ [if E.doEnc = true then E.enc p else p]) - 3 < 0
        · simp only [hr, if_true]
        · simp only [hr, if_false]; exact ih false _ _

/-- condition and body of the outer `while miu_size >= 0` loop as `Gen.Fn.lc_collect_agg` has them -/
def loopCond (st : Int × List Int) : Py Bool := match st with | (m, _) => Except.ok (decide (m ≥ 0))

def loopBody (E : AggEnv) (saps : List Int) (st : Int × List Int) : Py (Ctl (Int × List Int) Empty) :=
  match st with
  | (m, agg) =>
    forC (ρ := Empty) saps (true, m, agg) (passBody E) >>= fun c =>
    match c with
    | .inr r => nomatch r
    | .inl (dn, m', agg') => Except.ok (if (m' < 0) ∨ (dn = true) then Ctl.brk (m', agg') else Ctl.next (m', agg'))

theorem whileC_loop (E : AggEnv) (saps : List Int) : ∀ (fuel : Nat) (m : Int) (agg : List Int),
    whileC (ρ := Empty) fuel (m, agg) loopCond (loopBody E saps) =
      (aggLoop E saps fuel (m, agg)).map Sum.inl := by
  intro fuel
  induction fuel with
  | zero => intro m agg; rfl
  | succ fuel ih =>
    intro m agg
    simp only [whileC, loopCond, aggLoop]
    by_cases hm : m ≥ 0
    · simp only [hm, decide_true, if_true, loopBody, forC_pass, Py.bind_ok]
      by_cases hb : (aggPass E saps (true, m, agg)).2.1 < 0 ∨ (aggPass E saps (true, m, agg)).1 = true
      · simp only [hb, if_true]; rfl
      · simp only [hb, if_false]; exact ih _ _
    · simp only [hm, decide_false, if_false]; rfl

end NfcVerif.FnBridge.LlcCore
