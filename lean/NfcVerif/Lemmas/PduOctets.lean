import NfcVerif.Lemmas.PduSpec
/-!
# The encoding of a valid PDU is an octet string, and the format reading reads it back (C11)

`Impl.encode` works on lists of natural numbers.  For a PDU with valid field values whose payloads and names are
octet strings every element of the encoding is below 256 (`encode_isBytes`), so the theorem
`decode_refines` (decoder = independent reading `Spec.decode` on every octet string) applies to it:
`Spec.decode (encode p) = some p` (`encode_read_by_spec`).
-/
namespace NfcVerif.Pdu
open NfcVerif

/-- the octet-string fields hold octets -/
def OctetsS : SPdu → Prop
  | .ui _ _ x => IsBytes x
  | .info _ _ _ _ x => IsBytes x
  | .unknown _ _ _ x => IsBytes x
  | .connect _ _ _ _ sn => ∀ v, sn = some v → IsBytes v
  | .snl _ _ q _ => ∀ x ∈ q, IsBytes x.2
  | .dps _ _ e r => (∀ v, e = some v → IsBytes v) ∧ (∀ v, r = some v → IsBytes v)
  | _ => True

def Octets : Pdu → Prop
  | .simple p => OctetsS p
  | .agf _ _ items => ∀ p ∈ items, OctetsS p

/-- every successful result satisfies `P` -/
def PyAll {α : Type} (P : α → Prop) (x : Py α) : Prop := ∀ a, x = .ok a → P a

namespace PyAll
variable {α β : Type} {P : α → Prop} {Q : β → Prop}
theorem pure' {a : α} (h : P a) : PyAll P (pure a : Py α) := by intro b hb; cases hb; exact h
theorem ok' {a : α} (h : P a) : PyAll P (.ok a : Py α) := by intro b hb; cases hb; exact h
theorem throw' {e : Exc} : PyAll P (throw e : Py α) := by intro b hb; cases hb
theorem bind' {x : Py α} {f : α → Py β} (hx : PyAll P x) (hf : ∀ a, P a → PyAll Q (f a)) : PyAll Q (x >>= f) := by
  intro b hb
  cases x with
  | error e => cases hb
  | ok a => exact hf a (hx a rfl) b hb
theorem ite' {c : Prop} [Decidable c] {x y : Py α} (hx : PyAll P x) (hy : ¬ c → PyAll P y) :
    PyAll P (if c then x else y) := by
  split
  · exact hx
  · rename_i h; exact hy h
end PyAll

theorem isBytes_nil : IsBytes [] := by intro b hb; cases hb

theorem isBytes_cons {a : Nat} {l : Bytes} (ha : a < 256) (hl : IsBytes l) : IsBytes (a :: l) := by
  intro b hb
  rcases List.mem_cons.mp hb with h | h
  · subst h; exact ha
  · exact hl b h

theorem isBytes_append {a b : Bytes} (ha : IsBytes a) (hb : IsBytes b) : IsBytes (a ++ b) := by
  intro x hx
  rcases List.mem_append.mp hx with h | h
  · exact ha x h
  · exact hb x h

namespace Impl

theorem encodeHeader_bytes (t d s : Nat) : PyAll IsBytes (encodeHeader t d s) := by
  unfold encodeHeader
  refine PyAll.ite' PyAll.throw' fun _ => ?_
  simp only
  refine PyAll.ite' PyAll.throw' fun h => PyAll.pure' ?_
  exact isBytes_cons (by omega) (isBytes_cons (by omega) isBytes_nil)

theorem encodeHeaderN_bytes (t d s ns nr : Nat) : PyAll IsBytes (encodeHeaderN t d s ns nr) := by
  unfold encodeHeaderN
  refine PyAll.bind' (encodeHeader_bytes t d s) fun h hh => PyAll.ite' PyAll.throw' fun c => PyAll.pure' ?_
  have : orShl ns 4 nr = ns * 16 + nr := by rw [orShl_eq _ _ _ (by omega)]
  exact isBytes_append hh (isBytes_cons (by omega) isBytes_nil)

theorem encB_bytes (t v : Nat) (ht : t < 256) : PyAll IsBytes (encB t v) := by
  unfold encB
  exact PyAll.ite' PyAll.throw' fun h =>
    PyAll.pure' (isBytes_cons ht (isBytes_cons (by omega) (isBytes_cons (by omega) isBytes_nil)))

theorem encH_bytes (t v : Nat) (ht : t < 256) : PyAll IsBytes (encH t v) := by
  unfold encH
  exact PyAll.ite' PyAll.throw' fun h =>
    PyAll.pure' (isBytes_cons ht (isBytes_cons (by omega) (isBytes_cons (by omega) (isBytes_cons (by omega) isBytes_nil))))

theorem encS_bytes (t : Nat) (v : Bytes) (ht : t < 256) (hv : IsBytes v) : PyAll IsBytes (encS t v) := by
  unfold encS
  exact PyAll.ite' PyAll.throw' fun h =>
    PyAll.pure' (isBytes_append (isBytes_cons ht (isBytes_cons (by omega) isBytes_nil)) hv)

theorem optTlv_bytes {enc : Nat → Py Bytes} (h : ∀ v, PyAll IsBytes (enc v)) (o : Option Nat) :
    PyAll IsBytes (optTlv enc o) := by
  cases o with
  | none => exact PyAll.pure' isBytes_nil
  | some v => exact h v

theorem truthyTlv_bytes (t : Nat) (ht : t < 256) (o : Option Bytes) (ho : ∀ v, o = some v → IsBytes v) :
    PyAll IsBytes (truthyTlv t o) := by
  cases o with
  | none => exact PyAll.pure' isBytes_nil
  | some v =>
    simp only [truthyTlv]
    exact PyAll.ite' (PyAll.pure' isBytes_nil) fun _ => encS_bytes t v ht (ho v rfl)

theorem encList_bytes {α : Type} {enc : α → Py Bytes} (l : List α) (h : ∀ x ∈ l, PyAll IsBytes (enc x)) :
    PyAll IsBytes (encList enc l) := by
  induction l with
  | nil => exact PyAll.pure' isBytes_nil
  | cons x xs ih =>
    simp only [encList]
    exact PyAll.bind' (h x (by simp)) fun a ha =>
      PyAll.bind' (ih fun y hy => h y (by simp [hy])) fun b hb => PyAll.pure' (isBytes_append ha hb)

theorem encSdreq_bytes (r : Nat × Bytes) (hr : IsBytes r.2) : PyAll IsBytes (encSdreq r) := by
  unfold encSdreq
  refine PyAll.ite' PyAll.throw' fun h1 => PyAll.ite' PyAll.throw' fun h2 => PyAll.pure' ?_
  exact isBytes_append (isBytes_cons (by omega) (isBytes_cons (by omega) (isBytes_cons (by omega) isBytes_nil))) hr

theorem encSdres_bytes (r : Nat × Nat) : PyAll IsBytes (encSdres r) := by
  unfold encSdres
  refine PyAll.ite' PyAll.throw' fun h1 => PyAll.pure' ?_
  exact isBytes_cons (by omega) (isBytes_cons (by omega) (isBytes_cons (by omega) (isBytes_cons (by omega) isBytes_nil)))

/-- every encoding of a PDU whose octet-string fields hold octets is an octet string - valid or not, the range
checks of the encoder (`EncodeError` / `struct.error`) see to the numeric fields -/
theorem encodeS_bytes (p : SPdu) (ho : OctetsS p) : PyAll IsBytes (encodeS p) := by
  cases p with
  | symm d s => exact PyAll.ite' PyAll.throw' fun _ => encodeHeader_bytes 0 d s
  | pax d s ver miux wks lto opt =>
    refine PyAll.ite' PyAll.throw' fun _ => ?_
    refine PyAll.bind' (encodeHeader_bytes 1 d s) fun h hh => ?_
    refine PyAll.bind' (optTlv_bytes (fun v => encB_bytes 1 v (by omega)) ver) fun a ha => ?_
    refine PyAll.bind' (optTlv_bytes (fun v => encH_bytes 2 v (by omega)) miux) fun b hb => ?_
    refine PyAll.bind' (optTlv_bytes (fun v => encH_bytes 3 v (by omega)) wks) fun c hc => ?_
    refine PyAll.bind' (optTlv_bytes (fun v => encB_bytes 4 v (by omega)) lto) fun e he => ?_
    refine PyAll.bind' (optTlv_bytes (fun v => encB_bytes 7 v (by omega)) opt) fun f hf => PyAll.pure' ?_
    exact isBytes_append (isBytes_append (isBytes_append (isBytes_append (isBytes_append hh ha) hb) hc) he) hf
  | ui d s data =>
    exact PyAll.bind' (encodeHeader_bytes 3 d s) fun h hh => PyAll.pure' (isBytes_append hh ho)
  | connect d s miu rw sn =>
    refine PyAll.bind' (encodeHeader_bytes 4 d s) fun h hh => ?_
    refine PyAll.bind' (PyAll.ite' (encH_bytes 2 _ (by omega)) fun _ => PyAll.pure' isBytes_nil) fun a ha => ?_
    refine PyAll.bind' (PyAll.ite' (encB_bytes 5 _ (by omega)) fun _ => PyAll.pure' isBytes_nil) fun b hb => ?_
    refine PyAll.bind' (truthyTlv_bytes 6 (by omega) sn ho) fun c hc => PyAll.pure' ?_
    exact isBytes_append (isBytes_append (isBytes_append hh ha) hb) hc
  | disc d s => exact encodeHeader_bytes 5 d s
  | cc d s miu rw =>
    refine PyAll.bind' (encodeHeader_bytes 6 d s) fun h hh => ?_
    refine PyAll.bind' (PyAll.ite' (encH_bytes 2 _ (by omega)) fun _ => PyAll.pure' isBytes_nil) fun a ha => ?_
    refine PyAll.bind' (PyAll.ite' (encB_bytes 5 _ (by omega)) fun _ => PyAll.pure' isBytes_nil) fun b hb => PyAll.pure' ?_
    exact isBytes_append (isBytes_append hh ha) hb
  | dm d s reason =>
    refine PyAll.bind' (encodeHeader_bytes 7 d s) fun h hh => ?_
    refine PyAll.bind' (?_ : PyAll IsBytes (packB reason)) fun r hr => PyAll.pure' (isBytes_append hh hr)
    unfold packB
    exact PyAll.ite' PyAll.throw' fun c => PyAll.pure' (isBytes_cons (by omega) isBytes_nil)
  | frmr d s flags ptype ns nr vs vr vsa vra =>
    refine PyAll.bind' (encodeHeader_bytes 8 d s) fun h hh => ?_
    simp only
    refine PyAll.ite' PyAll.throw' fun c => PyAll.pure' (isBytes_append hh ?_)
    exact isBytes_cons (by omega) (isBytes_cons (by omega) (isBytes_cons (by omega) (isBytes_cons (by omega) isBytes_nil)))
  | snl d s sdreq sdres =>
    refine PyAll.bind' (encodeHeader_bytes 9 d s) fun h hh => ?_
    refine PyAll.bind' (encList_bytes sdreq fun x hx => encSdreq_bytes x (ho x hx)) fun a ha => ?_
    refine PyAll.bind' (encList_bytes sdres fun x _ => encSdres_bytes x) fun b hb => PyAll.pure' ?_
    exact isBytes_append (isBytes_append hh ha) hb
  | dps d s ecpk rn =>
    refine PyAll.ite' PyAll.throw' fun _ => ?_
    refine PyAll.bind' (encodeHeader_bytes 10 d s) fun h hh => ?_
    refine PyAll.bind' (truthyTlv_bytes 10 (by omega) ecpk ho.1) fun a ha => ?_
    refine PyAll.bind' (truthyTlv_bytes 11 (by omega) rn ho.2) fun b hb => PyAll.pure' ?_
    exact isBytes_append (isBytes_append hh ha) hb
  | info d s ns nr data =>
    exact PyAll.bind' (encodeHeaderN_bytes 12 d s ns nr) fun h hh => PyAll.pure' (isBytes_append hh ho)
  | rr d s nr => exact encodeHeaderN_bytes 13 d s 0 nr
  | rnr d s nr => exact encodeHeaderN_bytes 14 d s 0 nr
  | unknown t d s payload =>
    exact PyAll.bind' (encodeHeader_bytes t d s) fun h hh => PyAll.pure' (isBytes_append hh ho)

theorem encodeAll_bytes (items : List SPdu) (ho : ∀ p ∈ items, OctetsS p) :
    PyAll (fun es : List Bytes => ∀ e ∈ es, IsBytes e) (encodeAll items) := by
  induction items with
  | nil => exact PyAll.pure' (by intro e he; cases he)
  | cons p ps ih =>
    simp only [encodeAll]
    refine PyAll.bind' (encodeS_bytes p (ho p (by simp))) fun e he => ?_
    refine PyAll.bind' (ih fun q hq => ho q (by simp [hq])) fun es hes => PyAll.pure' ?_
    intro x hx
    rcases List.mem_cons.mp hx with h | h
    · subst h; exact he
    · exact hes x h

theorem agfJoin_bytes (es : List Bytes) (h : ∀ e ∈ es, IsBytes e) : PyAll IsBytes (agfJoin es) := by
  induction es with
  | nil => exact PyAll.pure' isBytes_nil
  | cons e es ih =>
    simp only [agfJoin]
    refine PyAll.bind' (?_ : PyAll IsBytes _) fun l hl =>
      PyAll.bind' (ih fun x hx => h x (by simp [hx])) fun r hr =>
        PyAll.pure' (isBytes_append (isBytes_append hl (h e (by simp))) hr)
    exact PyAll.ite' PyAll.throw' fun c => PyAll.pure' (isBytes_cons (by omega) (isBytes_cons (by omega) isBytes_nil))

theorem encode_bytes (p : Pdu) (ho : Octets p) : PyAll IsBytes (encode p) := by
  cases p with
  | simple q => exact encodeS_bytes q ho
  | agf d s items =>
    refine PyAll.ite' PyAll.throw' fun _ => ?_
    refine PyAll.bind' (encodeHeader_bytes 2 d s) fun h hh => ?_
    refine PyAll.bind' (encodeAll_bytes items ho) fun es hes => ?_
    exact PyAll.bind' (agfJoin_bytes es hes) fun body hb => PyAll.pure' (isBytes_append hh hb)

/-- the encoding of a PDU with octet payloads is an octet string -/
theorem encode_isBytes (p : Pdu) (ho : Octets p) (b : Bytes) (he : encode p = .ok b) : IsBytes b :=
  encode_bytes p ho b he

/-- the independent reading of the frame formats reads the encoding of every valid PDU back as that PDU -/
theorem encode_read_by_spec (p : Pdu) (hv : Valid p) (ho : Octets p) :
    ∃ b, encode p = .ok b ∧ IsBytes b ∧ Spec.decode b = some p := by
  obtain ⟨b, he, hd⟩ := roundtrip p hv
  have hb := encode_isBytes p ho b he
  refine ⟨b, he, hb, ?_⟩
  rw [← decode_refines b hb, hd]
  rfl

end Impl
end NfcVerif.Pdu
