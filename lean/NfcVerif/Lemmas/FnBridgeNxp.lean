import NfcVerif.Gen.FnNxp
import NfcVerif.Model.FnNxpRef
import NfcVerif.Props.FnBridgeVendor
/-!
# Helper lemmas for the bridge theorems of group Nxp (`Props/FnBridgeNxp.lean`)
-/
set_option linter.unusedSimpArgs false
namespace NfcVerif.FnBridge.Nxp
open NfcVerif NfcVerif.PyFn NfcVerif.FnBridge.TagCmd NfcVerif.FnBridge.Vendor NfcVerif.VendorRef NfcVerif.NxpRef

/-- a WRITE list in front of a continuation is the chain of WRITE commands in front of it -/
theorem runWrites_cons {β} (wr : Wr) (p : Int) (d : Bytes) (l : List (Int × Bytes)) (k : Unit → Py β) :
    (runWrites wr ((p, d) :: l) >>= k) = (wr p d >>= fun _ => runWrites wr l >>= k) := by
  show ((wr p d >>= fun _ => runWrites wr l) >>= k) = _
  cases wr p d <;> rfl

theorem runWrites_nil {β} (wr : Wr) (k : Unit → Py β) : (runWrites wr [] >>= k) = k () := rfl

/-- the key selection of `MifareUltralightC._authenticate` as the generated text has it -/
theorem ulc_auth_key_gen (pw : Bytes) :
    (if len (if pw ≠ [] then slice pw 0 16 else [73, 69, 77, 75, 65, 69, 82, 66, 33, 78, 65, 67, 85, 79, 89, 70]) ≠ 16
      then (.error .value : Py Bytes)
      else .ok (if pw ≠ [] then slice pw 0 16 else [73, 69, 77, 75, 65, 69, 82, 66, 33, 78, 65, 67, 85, 79, 89, 70])) = ulcKey pw := by
  have h := ulc_auth_key_bridge pw
  unfold Gen.Fn.ulc_auth_key at h
  exact h

/-- the key selection of `MifareUltralightC._protect_with_password` as the generated text has it -/
theorem ulc_protect_key_gen (pw : Bytes) :
    (if (pw ≠ [] ∧ len pw < 16) then (.error .value : Py Bytes)
      else .ok (if pw ≠ [] then slice pw 0 16 else [73, 69, 77, 75, 65, 69, 82, 66, 33, 78, 65, 67, 85, 79, 89, 70])) = ulcKey pw := by
  have h := ulc_protect_key_bridge pw false 0
  unfold Gen.Fn.ulc_protect_key at h
  exact h

/-- the key selection of `NTAG21x._protect_with_password` as the generated text has it -/
theorem ntag_protect_key_gen (pw : Bytes) :
    (if (pw ≠ [] ∧ len pw < 6) then (.error .value : Py Bytes)
      else .ok (if pw ≠ [] then slice pw 0 6 else [255, 255, 255, 255, 0, 0])) = Auth.ntagKey pw := by
  have h := ntag_protect_key_bridge pw false 0
  unfold Gen.Fn.ntag_protect_key at h
  exact h

/-- AUTH0 octet of the Ultralight C as the generated text has it -/
theorem ulc_auth0_gen (pf : Int) : mkBytes [imax 3 (imin pf 48)] = .ok ((ulcAuth0 pf).take 1) ∧ (ulcAuth0 pf).take 1 ++ [0, 0, 0] = ulcAuth0 pf := by
  have h := ulc_auth0_bridge pf
  unfold Gen.Fn.ulc_auth0 at h
  cases hm : mkBytes [imax 3 (imin pf 48)] with
  | error e => rw [hm] at h; cases h
  | ok t =>
    rw [hm] at h
    simp only [Py.bind_ok] at h
    have h' : t ++ [0, 0, 0] = ulcAuth0 pf := Except.ok.inj h
    have hl : t.length = 1 := by
      have := congrArg List.length h'
      simp [ulcAuth0] at this
      omega
    have ht : (ulcAuth0 pf).take 1 = t := by
      rw [← h']
      simp [hl]
    rw [ht]
    exact ⟨rfl, h'⟩

end NfcVerif.FnBridge.Nxp
