import NfcVerif.Gen.FnDep
import NfcVerif.Model.NfcDep
import NfcVerif.Lemmas.PeerDep
import NfcVerif.Lemmas.FnBridgeBase
/-!
Helper definitions for `Props/FnBridgeDep.lean` (`encode_frame` / `decode_frame` of `nfc/dep.py`).
-/
namespace NfcVerif.FnBridge.Dep
open NfcVerif NfcVerif.PyFn NfcVerif.NfcDep

/-- the dispatch `res_name = {1: 'ATR', ..}; return eval(res_name[frame[1]] + "_RES").decode(frame)` that
follows the translated checks.  It does not look at `frame[0]` and raises `KeyError` for a code that is not in
the table (the translated checks exclude both; were one of them weakened in the source, the bridge theorem
would fail on such a frame).  The PDU decoders are the model's. -/
def tail (req : Bool) (f2 : Bytes) : Py Pdu :=
  match f2 with
  | _ :: c1 :: d =>
    let k := if req then c1 else c1 - 1
    if ¬ req ∧ c1 = 0 then .error .key else
    if k = 6 then decodeDep d
    else if k = 8 then decodeDsl .dsl d
    else if k = 10 then decodeDsl .rls d
    else if k = 0 then
      if d.length < (if req then 14 else 15) then .error .protocol else .ok (.atr d)
    else if k = 4 then
      if d.length ≠ (if req then 3 else 1) then .error .protocol else .ok (.psl d)
    else .error .key
  | _ => .error .index

end NfcVerif.FnBridge.Dep
