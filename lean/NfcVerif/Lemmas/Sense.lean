import NfcVerif.Model.Sense
/-!
# Lemmas about the model of `sense()/listen()/exchange()` (C18)

`LoopSpec order single s r s'`: the events appended between `s` and `s'` follow `order`
(prefix; all of it when nothing was found), a returned target is the product of the LAST
driver call and no earlier call produced an acceptable target, errors are device errors
(or, for a single target, the target's own error), `self.target` is the returned target.
-/
namespace NfcVerif.Clf

/-- a driver call that produced a target `sense()` accepts -/
def validFind : Ev → Bool
  | .call .senseA (.found f) => (checkTta f).toBool
  | .call .senseB (.found _) => true
  | .call .senseF (.found _) => true
  | .call .senseDep (.found _) => true
  | _ => false

def sitesOf : List Ev → List Site
  | [] => []
  | .call s _ :: r => s :: sitesOf r
  | _ :: r => sitesOf r

@[simp] theorem sitesOf_append (a b : List Ev) : sitesOf (a ++ b) = sitesOf a ++ sitesOf b := by
  induction a with
  | nil => rfl
  | cons e r ih => cases e <;> simp [sitesOf, ih]

/-- the driver call a target leads to (none for a target refused by the argument checks) -/
def reach1 : TgtSpec → List Site
  | .dep n => if n < 16 then [] else if n > 64 then [] else [.senseDep]
  | .a n => if n ≠ 0 ∧ n ≠ 4 ∧ n ≠ 7 ∧ n ≠ 10 then [] else [.senseA]
  | .b => [.senseB]
  | .f => [.senseF]
  | _ => []

theorem ask_spec (s : St) (site : Site) :
    ∃ a, s.ask site = (a, { s with env := s.env.tail, n := s.n + 1, log := s.log ++ [.call site a] }) := by
  unfold St.ask
  cases h : s.env with
  | nil => exact ⟨.nothing, by simp⟩
  | cons a r => exact ⟨a, by simp⟩

structure OneSpec (t : TgtSpec) (s : St) (r : Py (Option (Nat × Found))) (s' : St) : Prop where
  seg : ∃ seg, s'.log = s.log ++ seg ∧ sitesOf seg = reach1 t ∧ s'.n = s.n + seg.length ∧
    (∀ x, r = .ok (some x) → ∃ e, seg = [e] ∧ validFind e = true ∧ x.1 + 1 = s'.n) ∧
    ((∀ x, r ≠ .ok (some x)) → ∀ e ∈ seg, validFind e = false)
  tgt : s'.target = s.target
  err : ∀ e, r = .error e → e = .io 5 ∨ e = .keyboardInterrupt ∨ isTargetErr e = true ∨ isCommErr e = true

theorem checkTta_err (f : Found) (e : Exc) (h : checkTta f = .error e) : e = .protocol := by
  unfold checkTta at h
  repeat' split at h
  all_goals first | (cases h; rfl) | cases h

@[simp] theorem checkTta_stamp (f : Found) (p : Bool) (t : Nat) :
    checkTta { sens := f.sens, rid := f.rid, p2p := p, atrLen := f.atrLen, var := f.var, tech := t } = checkTta f := rfl

@[simp] theorem xchgAnswer_snd (a : Ans) (s : St) : (xchgAnswer a s).2 = s := by
  cases a <;> rfl

theorem drvSense_eq (site : Site) (s : St) : ∃ a, s.ask site = (a, { s with env := s.env.tail, n := s.n + 1, log := s.log ++ [.call site a] }) := ask_spec s site

theorem senseOne_spec (t : TgtSpec) (s : St) (ht : t ≠ .notTarget) : OneSpec t s (senseOne t s).1 (senseOne t s).2 := by
  cases t with
  | dep n =>
    obtain ⟨a, ha⟩ := ask_spec s .senseDep
    by_cases h1 : n < 16
    · exact ⟨⟨[], by simp [senseOne, reach1, h1, sitesOf]⟩, by simp [senseOne, h1], by simp [senseOne, h1, isTargetErr]⟩
    by_cases h2 : n > 64
    · exact ⟨⟨[], by simp [senseOne, reach1, h1, h2, sitesOf]⟩, by simp [senseOne, h1, h2], by simp [senseOne, h1, h2, isTargetErr]⟩
    refine ⟨⟨[.call .senseDep a], ?_⟩, ?_, ?_⟩ <;> cases a <;>
      simp [senseOne, drvSense, ha, h1, h2, reach1, sitesOf, validFind, isTargetErr, isCommErr]
  | a n =>
    obtain ⟨a, ha⟩ := ask_spec s .senseA
    by_cases h1 : n ≠ 0 ∧ n ≠ 4 ∧ n ≠ 7 ∧ n ≠ 10
    · exact ⟨⟨[], by simp [senseOne, reach1, h1, sitesOf]⟩, by simp [senseOne, h1], by simp [senseOne, h1, isTargetErr]⟩
    refine ⟨⟨[.call .senseA a], ?_⟩, ?_, ?_⟩ <;> cases a <;>
      simp [senseOne, drvSense, ha, h1, reach1, sitesOf, validFind, isTargetErr, isCommErr] <;>
      (split <;> simp_all [Except.toBool]) <;> (rename_i h; cases checkTta_err _ _ h; simp)
  | b =>
    obtain ⟨a, ha⟩ := ask_spec s .senseB
    refine ⟨⟨[.call .senseB a], ?_⟩, ?_, ?_⟩ <;> cases a <;>
      simp [senseOne, drvSense, ha, reach1, sitesOf, validFind, isTargetErr, isCommErr]
  | f =>
    obtain ⟨a, ha⟩ := ask_spec s .senseF
    refine ⟨⟨[.call .senseF a], ?_⟩, ?_, ?_⟩ <;> cases a <;>
      simp [senseOne, drvSense, ha, reach1, sitesOf, validFind, isTargetErr, isCommErr]
  | unknown => exact ⟨⟨[], by simp [senseOne, reach1, sitesOf]⟩, by simp [senseOne], by simp [senseOne, isTargetErr]⟩
  | notTarget => exact absurd rfl ht

def reach (tl : List TgtSpec) : List Site := tl.flatMap reach1

structure LoopSpec (order : List Site) (single : Bool) (s : St) (r : Py (Option (Nat × Found))) (s' : St) : Prop where
  seg : ∃ seg, s'.log = s.log ++ seg ∧ sitesOf seg <+: order ∧ (r = .ok none → sitesOf seg = order) ∧ s.n ≤ s'.n ∧
    (∀ x, r = .ok (some x) → ∃ pre e, seg = pre ++ [e] ∧ validFind e = true ∧ (∀ y ∈ pre, validFind y = false) ∧
        x.1 + 1 = s'.n ∧ s.n ≤ x.1 ∧ s'.target = .remote x.1) ∧
    ((∀ x, r ≠ .ok (some x)) → (∀ e ∈ seg, validFind e = false) ∧ s'.target = s.target)
  err : ∀ e, r = .error e → e = .io 5 ∨ e = .keyboardInterrupt ∨ (single = true ∧ isTargetErr e = true)

theorem LoopSpec.prepend {o1 o2 : List Site} {single : Bool} {s s1 s' : St} {r : Py (Option (Nat × Found))}
    (seg1 : List Ev) (hlog : s1.log = s.log ++ seg1) (hs : sitesOf seg1 = o1) (hn : s.n ≤ s1.n)
    (hv : ∀ e ∈ seg1, validFind e = false) (ht : s1.target = s.target)
    (h : LoopSpec o2 single s1 r s') : LoopSpec (o1 ++ o2) single s r s' := by
  obtain ⟨⟨seg2, h1, h2, h3, h4, h5, h6⟩, herr⟩ := h
  refine ⟨⟨seg1 ++ seg2, by rw [h1, hlog, List.append_assoc], ?_, ?_, by omega, ?_, ?_⟩, herr⟩
  · rw [sitesOf_append, hs]; exact (List.prefix_append_right_inj o1).mpr h2
  · intro hr; rw [sitesOf_append, hs, h3 hr]
  · intro x hx
    obtain ⟨pre, e, hp, hve, hpre, hid, hge, htg⟩ := h5 x hx
    refine ⟨seg1 ++ pre, e, by rw [hp, List.append_assoc], hve, ?_, hid, by omega, htg⟩
    intro y hy
    rcases List.mem_append.mp hy with hy | hy
    · exact hv y hy
    · exact hpre y hy
  · intro hx
    obtain ⟨ha, hb⟩ := h6 hx
    refine ⟨?_, by rw [hb, ht]⟩
    intro e he
    rcases List.mem_append.mp he with he | he
    · exact hv e he
    · exact ha e he

theorem LoopSpec.done_none (single : Bool) (s : St) : LoopSpec [] single s (.ok none) s :=
  ⟨⟨[], by simp, by simp [sitesOf], by simp [sitesOf], Nat.le_refl _, by simp, by simp⟩, by simp⟩

/-- stopping early with an error after a segment without a valid find -/
theorem LoopSpec.stop_err {order : List Site} {single : Bool} {s s1 : St} (e : Exc) (seg1 : List Ev)
    (hlog : s1.log = s.log ++ seg1) (hs : sitesOf seg1 <+: order) (hn : s.n ≤ s1.n)
    (hv : ∀ e ∈ seg1, validFind e = false) (ht : s1.target = s.target)
    (he : e = .io 5 ∨ e = .keyboardInterrupt ∨ (single = true ∧ isTargetErr e = true)) :
    LoopSpec order single s (.error e) s1 :=
  ⟨⟨seg1, hlog, hs, by simp, hn, by simp, fun _ => ⟨hv, ht⟩⟩, by intro e' h; cases h; exact he⟩

theorem senseTargets_spec (single : Bool) (tl : List TgtSpec) (s : St) (hnt : ∀ t ∈ tl, t ≠ .notTarget) :
    LoopSpec (reach tl) single s (senseTargets single tl s).1 (senseTargets single tl s).2 := by
  induction tl generalizing s with
  | nil => exact LoopSpec.done_none single s
  | cons t rest ih =>
    have h1 := senseOne_spec t s (hnt t (by simp))
    have ih' := fun s => ih s (fun t ht => hnt t (by simp [ht]))
    obtain ⟨⟨seg1, hlog, hsites, hn, hsome, hnone⟩, htgt, herr⟩ := h1
    have hreach : reach (t :: rest) = reach1 t ++ reach rest := by simp [reach]
    rw [hreach]
    unfold senseTargets
    rcases hr : senseOne t s with ⟨r1, s1⟩
    rw [hr] at hlog hn hsome hnone htgt herr
    simp only at hlog hn hsome hnone htgt herr
    cases r1 with
    | ok o =>
      cases o with
      | some x =>
        obtain ⟨e, hseg, hve, hid⟩ := hsome x rfl
        subst hseg
        simp only
        refine ⟨⟨[e], by simp [hlog], ?_, by simp, by simp; omega, ?_, ?_⟩, by simp⟩
        · rw [hsites]; exact List.prefix_append _ _
        · intro y hy; cases hy
          exact ⟨[], e, by simp, hve, by simp, by simpa using hid, by simp at hn hid ⊢; omega, rfl⟩
        · intro hx; exact absurd rfl (hx x)
      | none =>
        simp only
        exact LoopSpec.prepend seg1 hlog hsites (by omega) (hnone (by simp)) htgt (ih' s1)
    | error e =>
      have hv := hnone (by simp)
      simp only
      rcases herr e rfl with he | he | he | he
      · subst he
        simp [isTargetErr, isCommErr]
        exact LoopSpec.stop_err _ seg1 hlog (by rw [hsites]; exact List.prefix_append _ _) (by omega) hv htgt (Or.inl rfl)
      · subst he
        simp [isTargetErr, isCommErr]
        exact LoopSpec.stop_err _ seg1 hlog (by rw [hsites]; exact List.prefix_append _ _) (by omega) hv htgt (Or.inr (Or.inl rfl))
      · simp only [he, if_true]
        cases single with
        | true =>
          simp
          exact LoopSpec.stop_err _ seg1 hlog (by rw [hsites]; exact List.prefix_append _ _) (by omega) hv htgt (Or.inr (Or.inr ⟨rfl, he⟩))
        | false =>
          simp
          exact LoopSpec.prepend seg1 hlog hsites (by omega) hv htgt (ih' s1)
      · by_cases hte : isTargetErr e = true
        · cases e <;> simp [isTargetErr, isCommErr] at hte he
        · simp only [hte, he, if_true]
          simp
          exact LoopSpec.prepend seg1 hlog hsites (by omega) hv htgt (ih' s1)

theorem raises_cases (a : Ans) (e : Exc) (h : a.raises = some e) : e = .io 5 ∨ e = .keyboardInterrupt := by
  cases a <;> simp [Ans.raises] at h <;> simp [← h]

theorem simpleCall_spec (site : Site) (s : St) :
    ∃ a, (simpleCall site s).2 = { s with env := s.env.tail, n := s.n + 1, log := s.log ++ [.call site a] } ∧
      (simpleCall site s).1 = (match a.raises with | some e => .error e | none => .ok ()) := by
  obtain ⟨a, ha⟩ := ask_spec s site
  refine ⟨a, ?_, ?_⟩ <;> simp only [simpleCall, ha] <;> cases a.raises <;> rfl

theorem LoopSpec.weaken {o1 : List Site} (o2 : List Site) {single : Bool} {s s' : St} {r : Py (Option (Nat × Found))}
    (h : LoopSpec o1 single s r s') (hr : r ≠ .ok none) : LoopSpec (o1 ++ o2) single s r s' := by
  obtain ⟨⟨seg, h1, h2, h3, h4, h5, h6⟩, herr⟩ := h
  exact ⟨⟨seg, h1, h2.trans (List.prefix_append _ _), fun h => absurd h hr, h4, h5, h6⟩, herr⟩

/-- one iteration: the targets that reach the driver, then `mute` (unless no target was given) -/
def iterOrder (tl : List TgtSpec) : List Site := reach tl ++ (if tl.isEmpty then [] else [.mute])
def callOrder (tl : List TgtSpec) (k : Nat) : List Site := (List.replicate k (iterOrder tl)).flatten

theorem callOrder_succ (tl : List TgtSpec) (k : Nat) : callOrder tl (k + 1) = iterOrder tl ++ callOrder tl k := by
  simp [callOrder, List.replicate_succ]

theorem senseIters_spec (single : Bool) (tl : List TgtSpec) (k : Nat) (s : St) (hnt : ∀ t ∈ tl, t ≠ .notTarget) :
    LoopSpec (callOrder tl k) single s (senseIters tl single k s).1 (senseIters tl single k s).2 := by
  induction k generalizing s with
  | zero => exact LoopSpec.done_none single s
  | succ k ih =>
    have h1 := senseTargets_spec single tl s hnt
    rw [callOrder_succ]
    unfold senseIters
    rcases hr : senseTargets single tl s with ⟨r1, s1⟩
    rw [hr] at h1
    simp only at h1
    cases r1 with
    | error e =>
      simp only
      have := h1.weaken ((if tl.isEmpty then [] else [.mute]) ++ callOrder tl k) (by simp)
      simpa [iterOrder, List.append_assoc] using this
    | ok o =>
      cases o with
      | some x =>
        simp only
        have := h1.weaken ((if tl.isEmpty then [] else [.mute]) ++ callOrder tl k) (by simp)
        simpa [iterOrder, List.append_assoc] using this
      | none =>
        simp only
        obtain ⟨⟨seg1, hlog, _, hsites, hn, _, hnone⟩, _⟩ := h1
        obtain ⟨hv, htg⟩ := hnone (by simp)
        have hs1 := hsites rfl
        by_cases hemp : tl.isEmpty = true
        · simp only [hemp, if_true]
          have hi : iterOrder tl = reach tl := by simp [iterOrder, hemp]
          rw [hi]
          by_cases hk : k = 0
          · simp only [hk, if_true]
            exact LoopSpec.prepend seg1 hlog hs1 hn hv htg (hk ▸ ih s1)
          · simp only [hk, if_false]
            have := ih (s1.emit .sleep)
            refine LoopSpec.prepend (seg1 ++ [.sleep]) (by simp [St.emit, hlog]) (by simp [sitesOf, hs1]) (by simpa [St.emit] using hn) ?_ (by simpa [St.emit] using htg) this
            intro e he
            rcases List.mem_append.mp he with he | he
            · exact hv e he
            · simp at he; subst he; rfl
        · simp only [hemp]
          have hi : iterOrder tl = reach tl ++ [.mute] := by simp [iterOrder, hemp]
          rw [hi]
          obtain ⟨a, hs2, hr2⟩ := simpleCall_spec .mute s1
          rcases hm : simpleCall .mute s1 with ⟨r2, s2⟩
          rw [hm] at hs2 hr2
          simp only at hs2 hr2
          cases hra : a.raises with
          | some e =>
            rw [hra] at hr2
            subst hr2
            simp only
            refine LoopSpec.stop_err e (seg1 ++ [.call .mute a]) (by simp [hs2, hlog]) ?_ (by simp [hs2]; omega) ?_ (by simp [hs2, htg])
              (by rcases raises_cases a e hra with h | h <;> simp [h])
            · simp [sitesOf, hs1]
            · intro e he
              rcases List.mem_append.mp he with he | he
              · exact hv e he
              · simp at he; subst he; rfl
          | none =>
            rw [hra] at hr2
            subst hr2
            simp only
            by_cases hk : k = 0
            · simp only [hk, if_true]
              refine LoopSpec.prepend (seg1 ++ [.call .mute a]) (by simp [hs2, hlog]) (by simp [sitesOf, hs1]) (by simp [hs2]; omega) ?_ (by simp [hs2, htg]) (hk ▸ ih s2)
              intro e he
              rcases List.mem_append.mp he with he | he
              · exact hv e he
              · simp at he; subst he; rfl
            · simp only [hk, if_false]
              refine LoopSpec.prepend (seg1 ++ [.call .mute a, .sleep]) (by simp [St.emit, hs2, hlog]) (by simp [sitesOf, hs1]) (by simp [St.emit, hs2]; omega) ?_ (by simp [St.emit, hs2, htg]) (ih (s2.emit .sleep))
              intro e he
              rcases List.mem_append.mp he with he | he
              · exact hv e he
              · simp at he; rcases he with he | he <;> subst he <;> rfl

/-- the whole call order of `sense()` -/
def senseOrder (tl : List TgtSpec) (iters : Int) : List Site := .mute :: callOrder tl (max 1 iters).toNat

theorem sense_spec (tl : List TgtSpec) (iters : Int) (s : St) (hnt : tl.any (· == .notTarget) = false) :
    LoopSpec (senseOrder tl iters) (tl.length == 1) { s with target := .none } (sense tl iters s).1 (sense tl iters s).2 := by
  have hnt' : ∀ t ∈ tl, t ≠ .notTarget := by
    intro t ht h; subst h
    have : tl.any (· == .notTarget) = true := List.any_eq_true.mpr ⟨_, ht, by simp⟩
    rw [hnt] at this; cases this
  unfold sense
  simp only [hnt, Bool.false_eq_true, if_false]
  obtain ⟨a, hs2, hr2⟩ := simpleCall_spec .mute { s with target := .none }
  rcases hm : simpleCall .mute { s with target := .none } with ⟨r2, s2⟩
  rw [hm] at hs2 hr2
  simp only at hs2 hr2
  have hsplit : senseOrder tl iters = [.mute] ++ callOrder tl (max 1 iters).toNat := rfl
  cases hra : a.raises with
  | some e =>
    rw [hra] at hr2; subst hr2
    simp only
    exact LoopSpec.stop_err e [.call .mute a] (by simp [hs2]) (by simp [sitesOf, senseOrder]) (by simp [hs2]) (by simp [validFind]) (by simp [hs2])
      (by rcases raises_cases a e hra with h | h <;> simp [h])
  | none =>
    rw [hra] at hr2; subst hr2
    simp only
    rw [hsplit]
    exact LoopSpec.prepend [.call .mute a] (by simp [hs2]) (by simp [sitesOf]) (by simp [hs2]) (by simp [validFind]) (by simp [hs2])
      (senseIters_spec _ tl _ s2 hnt')

/-! ## listen / exchange -/

/-- `listen()`: the field is switched off first, `self.target` is forgotten and then is exactly
what this call returns; a returned target is fresh (created by an answer consumed in this call) -/
theorem listen_spec (t : LtSpec) (s : St) :
    (∃ a rest, (listen t s).2.log = s.log ++ .call .mute a :: rest) ∧
    s.n ≤ (listen t s).2.n ∧
    (∀ x, (listen t s).1 = .ok (some x) → (listen t s).2.target = .loc x.1 ∧ s.n ≤ x.1 ∧ x.1 < (listen t s).2.n) ∧
    ((∀ x, (listen t s).1 ≠ .ok (some x)) → (listen t s).2.target = .none) := by
  obtain ⟨a, hs2, hr2⟩ := simpleCall_spec .mute { s with target := .none }
  unfold listen
  rcases hm : simpleCall .mute { s with target := .none } with ⟨r2, s2⟩
  rw [hm] at hs2 hr2
  simp only at hs2 hr2
  cases hra : a.raises with
  | some e =>
    rw [hra] at hr2; subst hr2
    simp only
    exact ⟨⟨a, [], by simp [hs2]⟩, by simp [hs2], by simp, by simp [hs2]⟩
  | none =>
    rw [hra] at hr2; subst hr2
    simp only
    cases t with
    | other => exact ⟨⟨a, [], by simp [hs2]⟩, by simp [hs2], by simp, by simp [hs2]⟩
    | dep =>
      obtain ⟨b, hb⟩ := ask_spec s2 .listenDep
      simp only [drvListen, hb]
      cases b with
      | found f =>
        by_cases hat : 16 ≤ f.atrLen ∧ f.atrLen ≤ 64
        · simp [hat, hs2]; omega
        · simp [hat, hs2]; omega
      | _ => simp [hs2] <;> omega
    | a =>
      obtain ⟨b, hb⟩ := ask_spec s2 .listenA
      simp only [drvListen, hb]
      cases b <;> simp [hs2] <;> omega
    | b =>
      obtain ⟨b, hb⟩ := ask_spec s2 .listenB
      simp only [drvListen, hb]
      cases b <;> simp [hs2] <;> omega
    | f =>
      obtain ⟨b, hb⟩ := ask_spec s2 .listenF
      simp only [drvListen, hb]
      cases b <;> simp [hs2] <;> omega

/-- `exchange()` drives the device only with the current target and never changes it -/
theorem exchange_spec (s : St) :
    (exchange s).2.target = s.target ∧
    (match s.target with
     | .none => (exchange s) = (.ok none, s)
     | .remote id => ∃ a, (exchange s).2.log = s.log ++ [.call (.cmdRsp id) a]
     | .loc id => ∃ a, (exchange s).2.log = s.log ++ [.call (.rspCmd id) a]) := by
  unfold exchange
  cases ht : s.target with
  | none => simp [ht]
  | remote id =>
    obtain ⟨a, ha⟩ := ask_spec s (.cmdRsp id)
    simp only [ha, xchgAnswer_snd]
    exact ⟨ht, a, rfl⟩
  | loc id =>
    obtain ⟨a, ha⟩ := ask_spec s (.rspCmd id)
    simp only [ha, xchgAnswer_snd]
    exact ⟨ht, a, rfl⟩
/-! ## which exceptions leave the pieces -/

theorem simpleCall_err (site : Site) (s : St) (e : Exc) (h : (simpleCall site s).1 = .error e) :
    e = .io 5 ∨ e = .keyboardInterrupt := by
  obtain ⟨a, _, h2⟩ := simpleCall_spec site s
  rw [h2] at h
  cases hr : a.raises with
  | none => rw [hr] at h; cases h
  | some e' => rw [hr] at h; cases h; exact raises_cases a e hr

theorem exchange_err (s : St) (e : Exc) (h : (exchange s).1 = .error e) :
    e = .io 5 ∨ e = .keyboardInterrupt ∨ isCommErr e = true := by
  unfold exchange at h
  cases ht : s.target with
  | none => simp [ht] at h
  | remote id =>
    obtain ⟨a, ha⟩ := ask_spec s (.cmdRsp id)
    simp only [ht, ha] at h
    cases a <;> simp [xchgAnswer] at h <;> subst h <;> simp [isCommErr]
  | loc id =>
    obtain ⟨a, ha⟩ := ask_spec s (.rspCmd id)
    simp only [ht, ha] at h
    cases a <;> simp [xchgAnswer] at h <;> subst h <;> simp [isCommErr]

/-- `sense()` raises only device errors, the error of a single target, or the ValueError for an
argument that is not a RemoteTarget -/
theorem sense_err (tl : List TgtSpec) (iters : Int) (s : St) (e : Exc) (h : (sense tl iters s).1 = .error e) :
    e = .io 5 ∨ e = .keyboardInterrupt ∨ e = .unsupportedTarget ∨
      (e = .value ∧ (tl.length = 1 ∨ tl.any (· == .notTarget) = true)) := by
  by_cases hnt : tl.any (· == .notTarget) = true
  · simp only [sense, hnt, if_true] at h
    cases h; exact Or.inr (Or.inr (Or.inr ⟨rfl, Or.inr hnt⟩))
  · have hnt' : tl.any (· == .notTarget) = false := by
      cases hb : tl.any (· == .notTarget) with
      | true => exact absurd hb hnt
      | false => rfl
    obtain ⟨_, herr⟩ := sense_spec tl iters s hnt'
    rcases herr e h with h1 | h1 | ⟨h1, h2⟩
    · exact Or.inl h1
    · exact Or.inr (Or.inl h1)
    · have hl : tl.length = 1 := by simpa using h1
      cases e <;> simp [isTargetErr] at h2
      · exact Or.inr (Or.inr (Or.inr ⟨rfl, Or.inl hl⟩))
      · exact Or.inr (Or.inr (Or.inl rfl))

theorem drvListen_err (site : Site) (s : St) (e : Exc) (h : (drvListen site s).1 = .error e) :
    e = .io 5 ∨ e = .keyboardInterrupt ∨ e = .unsupportedTarget ∨ e = .brokenLink := by
  obtain ⟨a, ha⟩ := ask_spec s site
  simp only [drvListen, ha] at h
  cases a <;> simp at h <;> subst h <;> simp

/-- `listen()` raises device errors, UnsupportedTargetError, the ValueError for an unknown
technology, or the CommunicationError a driver raised inside `listen_*` (F30) -/
theorem listen_err (t : LtSpec) (s : St) (e : Exc) (h : (listen t s).1 = .error e) :
    e = .io 5 ∨ e = .keyboardInterrupt ∨ e = .unsupportedTarget ∨ e = .brokenLink ∨ (e = .value ∧ t = .other) := by
  unfold listen at h
  have hm := simpleCall_err .mute { s with target := .none }
  rcases hsc : simpleCall .mute { s with target := .none } with ⟨r2, s2⟩
  rw [hsc] at h hm
  cases r2 with
  | error e2 =>
    simp only at h; cases h
    rcases hm e rfl with h1 | h1
    · exact Or.inl h1
    · exact Or.inr (Or.inl h1)
  | ok u =>
    simp only at h
    have lift : ∀ site, (drvListen site s2).1 = .error e →
        e = .io 5 ∨ e = .keyboardInterrupt ∨ e = .unsupportedTarget ∨ e = .brokenLink ∨ (e = .value ∧ t = .other) := by
      intro site hs
      rcases drvListen_err site s2 e hs with h1 | h1 | h1 | h1
      · exact Or.inl h1
      · exact Or.inr (Or.inl h1)
      · exact Or.inr (Or.inr (Or.inl h1))
      · exact Or.inr (Or.inr (Or.inr (Or.inl h1)))
    cases t with
    | other => simp only at h; cases h; exact Or.inr (Or.inr (Or.inr (Or.inr ⟨rfl, rfl⟩)))
    | dep =>
      simp only at h
      rcases hd : drvListen .listenDep s2 with ⟨r3, s3⟩
      rw [hd] at h
      cases r3 with
      | error e3 => simp only at h; cases h; exact lift .listenDep (by rw [hd])
      | ok o => cases o with
        | none => simp at h
        | some x => simp only at h; split at h <;> cases h
    | a =>
      simp only at h
      rcases hd : drvListen .listenA s2 with ⟨r3, s3⟩
      rw [hd] at h
      cases r3 with
      | error e3 => simp only at h; cases h; exact lift .listenA (by rw [hd])
      | ok o => cases o <;> simp at h
    | b =>
      simp only at h
      rcases hd : drvListen .listenB s2 with ⟨r3, s3⟩
      rw [hd] at h
      cases r3 with
      | error e3 => simp only at h; cases h; exact lift .listenB (by rw [hd])
      | ok o => cases o <;> simp at h
    | f =>
      simp only at h
      rcases hd : drvListen .listenF s2 with ⟨r3, s3⟩
      rw [hd] at h
      cases r3 with
      | error e3 => simp only at h; cases h; exact lift .listenF (by rw [hd])
      | ok o => cases o <;> simp at h
end NfcVerif.Clf
