import NfcVerif.Lemmas.SapSrc
import NfcVerif.Lemmas.SapSpec
/-!
# C17: a datagram from `sendto` to `recvfrom`
-/
namespace NfcVerif.Sap
open NfcVerif

theorem sockDequeue_head {s s' : Sock} {q : Pdu} (h : sockDequeue s = some (q, s')) :
    ∃ rest, s.sendq = q :: rest := by
  unfold sockDequeue at h
  split at h
  · cases h
  · rename_i q' rest hq
    refine ⟨rest, ?_⟩
    repeat' split at h
    all_goals (cases h; exact hq)

theorem socksDequeue_origin {c c' : Llc} {q : Pdu} : ∀ {l : List Nat}, socksDequeue c l = some (q, c') →
    ∃ j rest, (c.sock j).sendq = q :: rest
  | [], h => by simp [socksDequeue] at h
  | id :: t, h => by
    unfold socksDequeue at h
    split at h
    · rename_i q' s' hq
      cases h
      obtain ⟨rest, hr⟩ := sockDequeue_head hq
      exact ⟨id, rest, hr⟩
    · exact socksDequeue_origin h

/-- `collect` takes the PDU unchanged from the head of a socket's send queue, or
(SAP send list, service discovery) leaves all sockets alone -/
theorem collectFrom_origin {c c' : Llc} {q : Pdu} : ∀ {l : List Nat}, collectFrom c l = some (q, c') →
    (∃ j rest, (c.sock j).sendq = q :: rest) ∨ c'.sock = c.sock
  | [], h => by simp [collectFrom] at h
  | a :: t, h => by
    unfold collectFrom at h
    repeat' split at h
    all_goals first | (cases h; exact .inr rfl) | exact collectFrom_origin h | skip
    · cases h
      rename_i hq
      unfold sapDequeue at hq
      split at hq
      · cases hq; rename_i hq'; exact .inl (socksDequeue_origin hq')
      · split at hq
        · cases hq
        · cases hq; exact .inr rfl

theorem xfer_parts {p p' : Pair} {x : Side} (h : xfer p x = .ok (p', true)) :
    ∃ q cx, collect (p.get x) = some (q, cx) ∧ dispatch (p.get (!x)) q = .ok (p'.get (!x)) ∧
      p'.get x = cx ∧ p'.wire = (x, q) :: p.wire := by
  unfold xfer at h
  split at h
  · cases h
  · rename_i q cx hc
    simp only [Py.bind_eq_ok] at h
    obtain ⟨cy, hd, h⟩ := h
    cases h
    rw [get_set_other] at hd
    refine ⟨q, cx, hc, ?_, ?_, rfl⟩
    · cases x <;> simpa [Pair.get, Pair.set] using hd
    · cases x <;> simp [Pair.get, Pair.set]

/-- End to end: a UI PDU that crosses the link was taken unchanged from a send queue
of the sender; when that socket is a logical-data-link socket the source address in
the PDU is the address the socket is bound to; at the receiver only a socket bound at
the destination address changes, and a raw/logical-data-link socket gets exactly this
PDU (same payload, same length, same source) appended to its receive queue. -/
theorem datagram_end_to_end (ops : List Op) (x : Side) (p' : Pair) (d s : Nat) (m : Bytes)
    (h : xfer (run Pair.init ops) x = .ok (p', true))
    (hw : p'.wire.head? = some (x, .ui d s m)) :
    ((∃ j rest, (((run Pair.init ops).get x).sock j).sendq = .ui d s m :: rest ∧
        ((((run Pair.init ops).get x).sock j).kind = .ldl →
          (((run Pair.init ops).get x).sock j).addr = some s)) ∨
      (p'.get x).sock = ((run Pair.init ops).get x).sock) ∧
    (∀ k, (p'.get (!x)).sock k ≠ ((run Pair.init ops).get (!x)).sock k →
      (((run Pair.init ops).get (!x)).sock k).addr = some d ∧
      ((((run Pair.init ops).get (!x)).sock k).kind ≠ .dlc →
        (p'.get (!x)).sock k = { ((run Pair.init ops).get (!x)).sock k with
          recvq := (((run Pair.init ops).get (!x)).sock k).recvq ++ [.ui d s m] })) := by
  obtain ⟨q, cx, hc, hd, hx, hwire⟩ := xfer_parts h
  rw [hwire] at hw
  simp only [List.head?_cons, Option.some.injEq, Prod.mk.injEq, true_and] at hw
  subst hw
  constructor
  · rcases collectFrom_origin hc with ⟨j, rest, hj⟩ | hs
    · refine .inl ⟨j, rest, hj, fun hl => ?_⟩
      exact reach_src ops x j hl d s m (by rw [hj]; simp)
    · exact .inr (by rw [hx]; exact hs)
  · intro k hk
    exact ui_delivery ((reach_inv ops).get (!x)) hd hk

/-- `recvfrom` hands the application the payload and the source of the PDU at the
head of the queue -/
theorem recvfrom_returns (p : Pair) (x : Side) (id a d s : Nat) (m : Bytes) (rest : List Pdu) (e : SapEntry)
    (hk : ((p.get x).sock id).kind = .ldl) (ha : ((p.get x).sock id).addr = some a) (ha0 : a ≠ 0)
    (hs : (p.get x).sap a = some e) (hst : ((p.get x).sock id).st ≠ .shutdown)
    (hq : ((p.get x).sock id).recvq = .ui d s m :: rest) :
    ∃ p', apiRecvfrom p x id = .ok (p', .ok (.data (some m) (some s))) := by
  unfold apiRecvfrom
  simp only [ha, badFd, hs, hk, hst, popOrPump, hq]
  simp [ha0, done]
end NfcVerif.Sap
