import NfcVerif.Gen.FnTransport
import NfcVerif.Lemmas.FnBridgeBase
import NfcVerif.Lemmas.HostFrame
import NfcVerif.Model.FnTransportRef
/-!
# Lemmas for the bridge theorems of group Transport (`nfc/clf/transport.py`)

Helper lemmas about the prelude (`getB` at the three literal positions, `hi << 8 | lo`), the two interpretations of
`RdProg` under `if`, the written-out form `ttyReadFlat` of `TTY.read` on a serial line, and the proofs of the
property-relevant facts stated in `Props/FnBridgeTransport.lean` (primed names).
-/
namespace NfcVerif.FnBridge.Transport
open NfcVerif NfcVerif.PyFn NfcVerif.HostFrame NfcVerif.FnTransportRef

theorem getB3 (l : Bytes) : getB l 3 = match l[3]? with | some b => (.ok ((b : Nat) : Int) : Py Int) | none => .error .index := getB_ofNat l 3
theorem getB5 (l : Bytes) : getB l 5 = match l[5]? with | some b => (.ok ((b : Nat) : Int) : Py Int) | none => .error .index := getB_ofNat l 5
theorem getB6 (l : Bytes) : getB l 6 = match l[6]? with | some b => (.ok ((b : Nat) : Int) : Py Int) | none => .error .index := getB_ofNat l 6

theorem runWith_ite (rd : Int → Py Bytes) (c : Prop) [Decidable c] (a b : RdProg) :
    RdProg.runWith rd (if c then a else b) = if c then a.runWith rd else b.runWith rd := apply_ite _ c a b

theorem bor_shl8 (hi lo : Nat) : bor (shl (hi : Int) 8) (lo : Int) = ((hi <<< 8 ||| lo : Nat) : Int) := by
  have h : shl (hi : Int) 8 = ((hi <<< 8 : Nat) : Int) := shl_ofNat hi 8
  rw [h, bor_ofNat]

theorem runScript_ite (cs : List Bytes) (c : Prop) [Decidable c] (a b : RdProg) :
    RdProg.runScript (if c then a else b) cs = if c then a.runScript cs else b.runScript cs := by
  split <;> rfl

theorem runLine_ite (s : Bytes) (c : Prop) [Decidable c] (a b : RdProg) :
    RdProg.runLine (if c then a else b) s = if c then a.runLine s else b.runLine s := by
  split <;> rfl

/-- `TTY.read` on a line, written out -/
def ttyReadFlat (s : Bytes) : Py (Bytes × Bytes) :=
  if (s.take 6).length = 0 then .error etimedout else
  if ack.isPrefixOf (s.take 6) = true then .ok (s.take 6, s.drop 6) else
  if (s.take 6).length < 6 then .error eio else
  match (s.take 6)[3]? with
  | none => .error .index
  | some len =>
    if len = 255 then
      if (s.take 6 ++ (s.drop 6).take 3).length < 9 then .error eio else
      match (s.take 6 ++ (s.drop 6).take 3)[5]?, (s.take 6 ++ (s.drop 6).take 3)[6]? with
      | some hi, some lo =>
        .ok (s.take 6 ++ (s.drop 6).take 3 ++ ((s.drop 6).drop 3).take ((hi <<< 8 ||| lo) + 1),
             ((s.drop 6).drop 3).drop ((hi <<< 8 ||| lo) + 1))
      | _, _ => .error .index
    else .ok (s.take 6 ++ (s.drop 6).take (len + 1), (s.drop 6).drop (len + 1))

theorem toNat_succ (n : Nat) : ((n : Int) + 1).toNat = n + 1 := by omega

theorem ttyRead_flat (s : Bytes) : ttyRead s = ttyReadFlat s := by
  unfold ttyRead ttyReadProg ttyReadFlat
  have e6 : (6 : Int).toNat = 6 := rfl
  have e3 : (3 : Int).toNat = 3 := rfl
  simp only [RdProg.runLine, runLine_ite, e6]
  split
  · rfl
  · split
    · rfl
    · split
      · rfl
      · cases (s.take 6)[3]? with
        | none => rfl
        | some len =>
          simp only [runLine_ite, RdProg.runLine, e3]
          split
          · split
            · rfl
            · cases (List.take 6 s ++ List.take 3 (List.drop 6 s))[5]? with
              | none => rfl
              | some hi =>
                cases (List.take 6 s ++ List.take 3 (List.drop 6 s))[6]? with
                | none => rfl
                | some lo => simp only [RdProg.runLine, toNat_succ]
          · simp only [toNat_succ]

/-- whatever the line delivers: the frame returned and the octets left are the line, in order - nothing is lost,
duplicated or reordered -/
theorem read_splits' (s f r : Bytes) (h : ttyRead s = .ok (f, r)) : f ++ r = s := by
  rw [ttyRead_flat] at h
  unfold ttyReadFlat at h
  split at h
  · cases h
  · split at h
    · cases h; exact List.take_append_drop 6 s
    · split at h
      · cases h
      · split at h
        · cases h
        · split at h
          · split at h
            · cases h
            · split at h
              · cases h
                simp only [List.append_assoc, List.take_append_drop]
              · cases h
          · cases h
            simp only [List.append_assoc, List.take_append_drop]

theorem getElem?_some_of_lt {l : Bytes} {i : Nat} (h : i < l.length) : ∃ a, l[i]? = some a :=
  ⟨l[i], List.getElem?_eq_getElem h⟩

/-- only `IOError`: `ETIMEDOUT` or `EIO`; the index expressions behind the two length tests cannot fail -/
theorem read_errors' (s : Bytes) : Safe (fun e => e = etimedout ∨ e = eio) (ttyRead s) := by
  rw [ttyRead_flat]
  unfold ttyReadFlat
  intro e h
  split at h
  · cases h; exact Or.inl rfl
  · split at h
    · cases h
    · split at h
      · cases h; exact Or.inr rfl
      · rename_i h6
        obtain ⟨a3, ha3⟩ := getElem?_some_of_lt (l := s.take 6) (i := 3) (by omega)
        rw [ha3] at h
        simp only at h
        split at h
        · split at h
          · cases h; exact Or.inr rfl
          · rename_i h9
            obtain ⟨a5, ha5⟩ := getElem?_some_of_lt (l := s.take 6 ++ (s.drop 6).take 3) (i := 5) (by omega)
            obtain ⟨a6, ha6⟩ := getElem?_some_of_lt (l := s.take 6 ++ (s.drop 6).take 3) (i := 6) (by omega)
            rw [ha5, ha6] at h
            cases h
        · cases h

theorem read_timeout_iff' (s : Bytes) : ttyRead s = .error etimedout ↔ s = [] := by
  constructor
  · intro h
    rw [ttyRead_flat] at h
    unfold ttyReadFlat at h
    split at h
    · rename_i h0
      cases s with
      | nil => rfl
      | cons a t => simp at h0
    · exfalso
      rename_i h0
      have hs := read_errors' s
      rw [ttyRead_flat] at hs
      unfold ttyReadFlat at hs
      rw [if_neg h0] at hs
      split at h
      · cases h
      · split at h
        · cases h
        · split at h
          · cases h
          · split at h
            · split at h
              · cases h
              · split at h
                · cases h
                · cases h
            · cases h
  · rintro rfl; rfl

/-- what `Spec.parse` accepts: an extended or a normal information frame whose total length is fixed by its header -/
theorem parse_shape {f : Bytes} {x : Nat × Nat × Bytes} (h : Spec.parse f = some x) :
    (∃ lm ll lcs rest, f = 0 :: 0 :: 255 :: 255 :: 255 :: lm :: ll :: lcs :: rest ∧ rest.length = lm * 256 + ll + 2) ∨
    (∃ len lcs rest, f = 0 :: 0 :: 255 :: len :: lcs :: rest ∧ rest.length = len + 2 ∧ (len + lcs) % 256 = 0 ∧ 2 ≤ len) := by
  unfold Spec.parse at h
  split at h
  · rename_i lm ll lcs rest
    split at h
    · rename_i hc
      exact Or.inl ⟨lm, ll, lcs, rest, rfl, hc.2⟩
    · cases h
  · rename_i len lcs rest hne
    split at h
    · rename_i hc
      obtain ⟨t, c, d⟩ := x
      obtain ⟨dcs, hr, _⟩ := body_some h
      have hl := hc.2
      rw [hr] at hl
      simp at hl
      exact Or.inr ⟨len, lcs, rest, rfl, hc.2, hc.1, by omega⟩
    · cases h
  · cases h

theorem shl8_or (hi lo : Nat) (h : lo < 256) : hi <<< 8 ||| lo = hi * 256 + lo := by
  rw [Nat.shiftLeft_eq]
  have : hi * 2 ^ 8 ||| lo = hi * 2 ^ 8 + lo := by
    rw [Nat.mul_comm]
    exact (Nat.two_pow_add_eq_or_of_lt (i := 8) (by simpa using h) hi).symm
  simpa using this

theorem take_succ_append (rest r : Bytes) (n : Nat) (h : rest.length = n) : (rest ++ r).take n = rest ∧ (rest ++ r).drop n = r := by
  subst h
  simp

theorem read_returns_frame' (f r : Bytes) (hf : Framed f) (hn : ¬ Normal255 f) : ttyRead (f ++ r) = .ok (f, r) := by
  rw [ttyRead_flat]
  obtain ⟨hb, hack | ⟨x, hx⟩⟩ := hf
  · subst hack
    simp [ttyReadFlat, ack]
  · rcases parse_shape hx with ⟨lm, ll, lcs, rest, rfl, hlen⟩ | ⟨len, lcs, rest, rfl, hlen, hsum, h2⟩
    · have hll : ll < 256 := hb ll (by simp)
      rcases rest with _ | ⟨x0, rest'⟩
      · simp at hlen
      · have hl' : rest'.length = (lm <<< 8 ||| ll) + 1 := by
          rw [shl8_or lm ll hll]; simp at hlen; omega
        obtain ⟨ht, hd⟩ := take_succ_append rest' r _ hl'
        simp [ttyReadFlat, ack, ht, hd]
    · have hne : len ≠ 255 := by
        intro e
        subst e
        apply hn
        refine ⟨rfl, ?_⟩
        intro e2
        simp at e2
        subst e2
        simp at hsum
      rcases rest with _ | ⟨x0, rest'⟩
      · simp at hlen
      · have hl' : rest'.length = len + 1 := by simp at hlen; omega
        obtain ⟨ht, hd⟩ := take_succ_append rest' r _ hl'
        have h0 : ¬ (0 = len) := by omega
        simp [ttyReadFlat, ack, ht, hd, hne, h0]

theorem parse_prefix_none {f g u : Bytes} {x : Nat × Nat × Bytes} (h : Spec.parse f = some x) (hfg : f = g ++ u) (hu : u ≠ []) :
    Spec.parse g = none := by
  cases hg : Spec.parse g with
  | none => rfl
  | some y =>
    exfalso
    have hul : 0 < u.length := by
      cases u with
      | nil => exact absurd rfl hu
      | cons a t => simp
    rcases parse_shape h with ⟨lm, ll, lcs, rest, rfl, hlen⟩ | ⟨len, lcs, rest, rfl, hlen, hsum, h2⟩ <;>
    rcases parse_shape hg with ⟨lm', ll', lcs', rest', rfl, hlen'⟩ | ⟨len', lcs', rest', rfl, hlen', hsum', h2'⟩
    · simp at hfg
      obtain ⟨rfl, rfl, rfl, rfl⟩ := hfg
      simp at hlen; omega
    · simp at hfg
      obtain ⟨rfl, rfl, _⟩ := hfg
      simp at hsum'
    · simp at hfg
      obtain ⟨rfl, rfl, _⟩ := hfg
      simp at hsum
    · simp at hfg
      obtain ⟨rfl, rfl, rfl⟩ := hfg
      simp at hlen; omega

theorem parse_min_length {g : Bytes} {x : Nat × Nat × Bytes} (h : Spec.parse g = some x) : 9 ≤ g.length := by
  rcases parse_shape h with ⟨lm, ll, lcs, rest, rfl, hlen⟩ | ⟨len, lcs, rest, rfl, hlen, hsum, h2⟩ <;> simp <;> omega

theorem read_short_rejected' (f s t g r : Bytes) (hf : Framed f) (hs : f = s ++ t) (ht : t ≠ [])
    (h : ttyRead s = .ok (g, r)) (cmd : Nat) (d : Bytes) : pnAccept cmd g ≠ .ok d := by
  intro ha
  have hp := pn_accept_sound cmd g d ha
  have hsp := read_splits' s g r h
  have hfg : f = g ++ (r ++ t) := by rw [hs, ← hsp, List.append_assoc]
  have hne : r ++ t ≠ [] := by simp [ht]
  obtain ⟨_, hack | ⟨x, hx⟩⟩ := hf
  · have h9 := parse_min_length hp
    have : f.length = 6 := by rw [hack]; rfl
    rw [hfg] at this
    simp at this
    omega
  · rw [parse_prefix_none hx hfg hne] at hp
    cases hp

/-- a valid normal frame with LEN = 0xFF: TFI D5, code 01, 253 zero octets -/
def frame255 : Bytes := [0, 0, 255, 255, 1, 0xD5, 1] ++ List.replicate 253 0 ++ [42, 0]

theorem frame255_framed : Framed frame255 ∧ Normal255 frame255 ∧ Spec.parse frame255 = some (0xD5, 1, List.replicate 253 0) := by
  have hp : Spec.parse frame255 = some (0xD5, 1, List.replicate 253 0) := by decide +kernel
  refine ⟨⟨by decide +kernel, Or.inr ⟨_, hp⟩⟩, ⟨by decide +kernel, by decide +kernel⟩, hp⟩

theorem read_normal255' : ttyRead (frame255 ++ [0, 0, 255, 0, 255, 0]) = .ok (frame255 ++ [0, 0, 255, 0, 255, 0], []) := by
  decide +kernel

theorem read_then_accept' (f r : Bytes) (hf : Framed f) (hn : ¬ Normal255 f) (cmd : Nat) (data : Bytes) :
    (ttyRead (f ++ r) >>= fun p => pnAccept cmd p.1) = .ok data ↔ Spec.parse f = some (0xD5, cmd + 1, data) := by
  rw [read_returns_frame' f r hf hn]
  simp only [Py.bind_ok]
  exact ⟨pn_accept_sound cmd f data, pn_accept_complete cmd f data⟩

theorem usb_write_transfers' (bw : Int → Bytes → Int → Py Int) (ep : Int) (m : Nat) (hm : 0 < m) (frame : Bytes) (timeout : Int) :
    usbWriteWith bw (.ok ep) (.ok (m : Int)) frame timeout = sendAll bw ep timeout (usbPackets frame m) := by
  unfold usbWriteWith usbPackets
  have h0 : ¬ ((m : Int) = 0) := by have := hm; omega
  have e : Int.fmod (frame.length : Int) (m : Int) = ((frame.length % m : Nat) : Int) := by
    rw [Int.fmod_eq_emod_of_nonneg _ (by omega)]; rfl
  simp only [Py.bind_ok, h0, if_false, e, Int.natCast_eq_zero]
  split
  · simp only [sendAll]
  · simp only [sendAll]

theorem usb_write_terminated' (frame : Bytes) (m : Nat) :
    (usbPackets frame m).flatten = frame ∧
    ∃ p, (usbPackets frame m).getLast? = some p ∧ (p = [] ∨ p.length % m ≠ 0) := by
  unfold usbPackets
  split
  · exact ⟨by simp, [], rfl, Or.inl rfl⟩
  · rename_i h
    exact ⟨by simp, frame, rfl, Or.inr h⟩

theorem usb_read_nonempty' (x f : Bytes) (h : usbReadCheck x = .ok f) : f = x ∧ f ≠ [] := by
  unfold usbReadCheck at h
  split at h
  · cases h
  · rename_i h0
    cases h
    exact ⟨rfl, fun e => h0 (by rw [e]; rfl)⟩
end NfcVerif.FnBridge.Transport
