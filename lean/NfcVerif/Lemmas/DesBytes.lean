import NfcVerif.Lemmas.Des
import NfcVerif.Model.Mac
/-!
# octets <-> bits, and triple DES as a block cipher on 8-octet blocks
-/
namespace NfcVerif.Des
open NfcVerif NfcVerif.Mac

theorem bitsByte_byteBits_fin : ∀ n : Fin 256, bitsByte (byteBits n.val) = n.val := by decide +kernel
theorem bitsByte_byteBits (n : Nat) (h : n < 256) : bitsByte (byteBits n) = n := bitsByte_byteBits_fin ⟨n, h⟩
theorem byteBits_bitsByte_bools : ∀ a b c d e f g h : Bool, byteBits (bitsByte #v[a,b,c,d,e,f,g,h]) = #v[a,b,c,d,e,f,g,h] := by decide
theorem vec8_eta (v : Bits 8) : v = #v[v[0], v[1], v[2], v[3], v[4], v[5], v[6], v[7]] := by
  apply Vector.ext
  intro i hi
  match i, hi with
  | 0, _ => rfl | 1, _ => rfl | 2, _ => rfl | 3, _ => rfl | 4, _ => rfl | 5, _ => rfl | 6, _ => rfl | 7, _ => rfl
theorem byteBits_bitsByte (v : Bits 8) : byteBits (bitsByte v) = v := by
  rw [vec8_eta v]; exact byteBits_bitsByte_bools _ _ _ _ _ _ _ _
theorem bitsByte_lt (v : Bits 8) : bitsByte v < 256 := by
  unfold bitsByte
  have h : ∀ b : Bool, b.toNat ≤ 1 := fun b => by cases b <;> simp
  have := h v[0]; have := h v[1]; have := h v[2]; have := h v[3]; have := h v[4]; have := h v[5]; have := h v[6]; have := h v[7]
  omega
theorem bitsToBytes_length (v : Bits 64) : (bitsToBytes v).length = 8 := by simp [bitsToBytes]
theorem bitsToBytes_get (v : Bits 64) (j : Nat) (hj : j < 8) :
    (bitsToBytes v).getD j 0 = bitsByte (Vector.ofFn fun t : Fin 8 => v[8 * j + t.val]'(by omega)) := by
  unfold bitsToBytes
  rw [List.getD_eq_getElem?_getD, List.getElem?_eq_getElem (by simp [hj])]
  simp only [Option.getD_some]
  rw [List.getElem_ofFn]
theorem bytesToBits_bitsToBytes (v : Bits 64) : bytesToBits (bitsToBytes v) = v := by
  apply Vector.ext
  intro i hi
  unfold bytesToBits
  rw [Vector.getElem_ofFn]
  simp only []
  have h8 : i / 8 < 8 := by omega
  rw [bitsToBytes_get v (i / 8) h8]
  simp only [byteBits_bitsByte, Vector.getElem_ofFn]
  congr 1
  omega
theorem bitsToBytes_isBytes (v : Bits 64) : IsBytes (bitsToBytes v) := by
  intro b hb
  unfold bitsToBytes at hb
  rw [List.mem_ofFn] at hb
  obtain ⟨j, rfl⟩ := hb
  exact bitsByte_lt _
theorem bitsToBytes_injective : Function.Injective bitsToBytes := by
  intro a b h
  have := congrArg bytesToBits h
  rwa [bytesToBits_bitsToBytes, bytesToBits_bitsToBytes] at this
theorem bitsToBytes_bytesToBits (b : Bytes) (hl : b.length = 8) (hb : IsBytes b) : bitsToBytes (bytesToBits b) = b := by
  apply List.ext_getElem
  · simp [bitsToBytes_length, hl]
  · intro j h1 h2
    have hj : j < 8 := by simpa [bitsToBytes_length] using h1
    have := bitsToBytes_get (bytesToBits b) j hj
    rw [List.getD_eq_getElem?_getD, List.getElem?_eq_getElem h1] at this
    simp only [Option.getD_some] at this
    rw [this]
    have hv : (Vector.ofFn fun t : Fin 8 => (bytesToBits b)[8 * j + t.val]'(by omega)) = byteBits b[j] := by
      apply Vector.ext
      intro t ht
      rw [Vector.getElem_ofFn]
      unfold bytesToBits
      rw [Vector.getElem_ofFn]
      simp only []
      have e1 : (8 * j + t) / 8 = j := by omega
      have e2 : (8 * j + t) % 8 = t := by omega
      simp only [e1, e2]
      have e3 : List.getD b j 0 = b[j] := by simp [List.getD_eq_getElem?_getD, h2]
      exact congrArg (fun n => (byteBits n)[t]) e3
    rw [hv]
    exact bitsByte_byteBits _ (hb _ (List.getElem_mem h2))

theorem bitsToBytes_block (v : Bits 64) : Block (bitsToBytes v) :=
  ⟨bitsToBytes_length v, bitsToBytes_isBytes v⟩

theorem bytesToBits_injOn (a b : Bytes) (ha : Block a) (hb : Block b) (h : bytesToBits a = bytesToBits b) : a = b := by
  have := congrArg bitsToBytes h
  rwa [bitsToBytes_bytesToBits a ha.1 ha.2, bitsToBytes_bytesToBits b hb.1 hb.2] at this

theorem tdesEnc_injective (k1 k2 : Bits 64) : Function.Injective (tdesEnc k1 k2) :=
  (bijective_of_inverse _ _ (tdesDec_tdesEnc k1 k2) (tdesEnc_tdesDec k1 k2)).1

theorem tdesBytes_block (key blk : Bytes) : Block (tdesBytes key blk) := bitsToBytes_block _

theorem tdesBytes_injOn (key a b : Bytes) (ha : Block a) (hb : Block b)
    (h : tdesBytes key a = tdesBytes key b) : a = b :=
  bytesToBits_injOn a b ha hb (tdesEnc_injective _ _ (bitsToBytes_injective h))

/-- decryption undoes encryption on blocks, at the octet level -/
theorem tdesDecBytes_tdesBytes (key blk : Bytes) (h : Block blk) : tdesDecBytes key (tdesBytes key blk) = blk := by
  unfold tdesDecBytes tdesBytes
  rw [bytesToBits_bitsToBytes, tdesDec_tdesEnc, bitsToBytes_bytesToBits blk h.1 h.2]

end NfcVerif.Des
