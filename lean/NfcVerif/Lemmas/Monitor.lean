import NfcVerif.Model.Monitor
/-!
Soundness of the monitor-discipline checker, once for all programs (`monitor_sound`), and the
`notify` vs `notify_all` counter-example.
-/
namespace NfcVerif.Monitor

/-! ## part 1: the checker is sound for the per-thread monitor -/

theorem mrun_append (cfg : Cfg) (m : Mon) (a b : List Ev) :
    mrun cfg m (a ++ b) = (mrun cfg m a).bind (fun m' => mrun cfg m' b) := by
  induction a generalizing m with
  | nil => simp [mrun]
  | cons e es ih => simp only [List.cons_append, mrun]; cases mstep cfg m e <;> simp [ih]

theorem mrun_cons {cfg : Cfg} {m m' : Mon} {e : Ev} (es : List Ev) (h : mstep cfg m e = some m') :
    mrun cfg m (e :: es) = mrun cfg m' es := by rw [mrun, h]

theorem mrun_single {cfg : Cfg} {m m' : Mon} {e : Ev} (h : mstep cfg m e = some m') :
    mrun cfg m [e] = some m' := by rw [mrun, h]; rfl

/-- the monitor state `m` (at lock depth `d`) is at least as good as the abstract state `st` -/
def Le (st : A) (m : Mon) (d : Nat) : Prop :=
  m.depth = d ∧ m.waiting = false ∧ (∀ cv ∈ m.need, cv ∈ st.need) ∧ (∀ cv ∈ st.ntf, cv ∈ m.ntf)

def LeO (o : Option A) (m : Mon) (d : Nat) : Prop := ∃ st, o = some st ∧ Le st m d

theorem Le.mono {x y : A} {m : Mon} {d : Nat} (h : Le x m d) (hxy : x.le y = true) : Le y m d := by
  obtain ⟨h1, h2, h3, h4⟩ := h
  simp only [A.le, Bool.and_eq_true, List.all_eq_true, List.contains_iff_mem] at hxy
  exact ⟨h1, h2, fun cv hc => hxy.1 cv (h3 cv hc), fun cv hc => h4 cv (hxy.2 cv hc)⟩

theorem Le.joinL {x : A} (y : A) {m : Mon} {d : Nat} (h : Le x m d) : Le (x.join y) m d := by
  obtain ⟨h1, h2, h3, h4⟩ := h
  refine ⟨h1, h2, fun cv hc => ?_, fun cv hc => ?_⟩
  · simp only [A.join, List.mem_append]; exact Or.inl (h3 cv hc)
  · simp only [A.join, List.mem_filter] at hc; exact h4 cv hc.1

theorem Le.joinR (x : A) {y : A} {m : Mon} {d : Nat} (h : Le y m d) : Le (x.join y) m d := by
  obtain ⟨h1, h2, h3, h4⟩ := h
  refine ⟨h1, h2, fun cv hc => ?_, fun cv hc => ?_⟩
  · simp only [A.join, List.mem_append]; exact Or.inr (h3 cv hc)
  · simp only [A.join, List.mem_filter, List.contains_iff_mem] at hc; exact h4 cv hc.2

theorem LeO.joinL {x : Option A} (y : Option A) {m : Mon} {d : Nat} (h : LeO x m d) : LeO (joinO x y) m d := by
  obtain ⟨st, rfl, hl⟩ := h
  cases y with
  | none => exact ⟨st, rfl, hl⟩
  | some y => exact ⟨st.join y, rfl, hl.joinL y⟩

theorem LeO.joinR (x : Option A) {y : Option A} {m : Mon} {d : Nat} (h : LeO y m d) : LeO (joinO x y) m d := by
  obtain ⟨st, rfl, hl⟩ := h
  cases x with
  | none => exact ⟨st, rfl, hl⟩
  | some x => exact ⟨x.join st, rfl, hl.joinR x⟩

theorem Le.discharged {st : A} {m : Mon} {d : Nat} (h : Le st m d) (hd : st.discharged = true) :
    m.need.isEmpty = true := by
  obtain ⟨_, _, h3, _⟩ := h
  simp only [A.discharged, List.isEmpty_iff] at hd
  cases hn : m.need with
  | nil => rfl
  | cons c cs => have := h3 c (by simp [hn]); rw [hd] at this; cases this

theorem Le_filter {x y : List Cv} {cv : Cv} (h : ∀ c ∈ x, c ∈ y) :
    ∀ c ∈ x.filter (fun c => c != cv), c ∈ y.filter (fun c => c != cv) := by
  intro c hc
  simp only [List.mem_filter] at hc ⊢
  exact ⟨h c hc.1, hc.2⟩

theorem Le_cons {x y : List Cv} {cv : Cv} (h : ∀ c ∈ x, c ∈ y) : ∀ c ∈ cv :: x, c ∈ cv :: y := by
  intro c hc
  simp only [List.mem_cons] at hc ⊢
  rcases hc with hc | hc
  · exact Or.inl hc
  · exact Or.inr (h c hc)

/-- result of running a checked statement under the monitor -/
def Post (cfg : Cfg) (d : Nat) (r : R) (m : Mon) (tr : List Ev) (c : Bool) : Prop :=
  ∃ m', mrun cfg m tr = some m' ∧ (c = true → LeO r.1 m' d) ∧ (c = false → LeO r.2 m' d)

/-- outside the lock the monitor owes nothing -/
theorem mstep_inv0 {cfg : Cfg} {m m' : Mon} {e : Ev} (h : mstep cfg m e = some m')
    (hi : m.depth = 0 → m.need = []) : m'.depth = 0 → m'.need = [] := by
  cases e with
  | acq =>
    simp only [mstep] at h
    split at h
    · cases h
    split at h <;> (cases h; intro hd; simp at hd)
  | rel =>
    simp only [mstep] at h
    split at h
    · cases h
    rename_i hc
    simp only [Bool.or_eq_true, beq_iff_eq, not_or, Bool.not_eq_true] at hc
    split at h
    · split at h
      · cases h; intro _; rfl
      · cases h
    · rename_i h1; cases h; intro hd; simp at hd; omega
  | waitB mt cv reads =>
    simp only [mstep] at h
    split at h
    · cases h; intro _; rfl
    · cases h
  | wake =>
    simp only [mstep] at h
    split at h
    · cases h; intro _; rfl
    · cases h
  | ntfAll cv =>
    simp only [mstep] at h
    split at h
    · cases h; intro hd; simp [hi hd]
    · cases h
  | ntf mt cv =>
    simp only [mstep] at h
    split at h
    · cases h
      split
      · intro hd; simp [hi hd]
      · exact hi
    · cases h
  | wr mt a =>
    simp only [mstep] at h
    split at h
    · cases h
    split at h
    · cases h; exact hi
    · split at h
      · cases h
      · rename_i hd; cases h; intro hd'; exact absurd hd' hd

theorem mrun_inv0 {cfg : Cfg} {m m' : Mon} {l : List Ev} (h : mrun cfg m l = some m')
    (hi : m.depth = 0 → m.need = []) : m'.depth = 0 → m'.need = [] := by
  induction l generalizing m with
  | nil => simp only [mrun, Option.some.injEq] at h; subst h; exact hi
  | cons e es ih =>
    simp only [mrun] at h
    split at h
    · rename_i m1 h1; exact ih h (mstep_inv0 h1 hi)
    · cases h

theorem hm_need {m : Mon} (h : Le A.empty m 0) : m.need = [] := by
  obtain ⟨_, _, h3, _⟩ := h
  cases hn : m.need with
  | nil => rfl
  | cons c cs => have := h3 c (by simp [hn]); simp [A.empty] at this

theorem chk_call_some {cfg : Cfg} {P : List Stmt} {E : List Meth} {f d : Nat} {st : A} {m : Meth} {s : Stmt}
    (hp : P[m]? = some s) : chk cfg P E (f + 1) d st (.call m) = chk cfg P E f d st s := by
  simp only [chk, hp]

/-- what `chk` guarantees for a loop: an invariant abstract state from which the body checks, and
from which the loop statement itself checks again with the same result -/
theorem chk_loop {cfg : Cfg} {P : List Stmt} {E : List Meth} {f d : Nat} {st : A} {s : Stmt} {r : R}
    (h : chk cfg P E (f + 1) d st (.loop s) = some r) :
    ∃ inv n2 a2, r = (some inv, a2) ∧ chk cfg P E f d inv s = some (n2, a2) ∧ stable n2 inv = true
      ∧ chk cfg P E (f + 1) d inv (.loop s) = some (some inv, a2)
      ∧ (∀ m, Le st m d → Le inv m d) := by
  simp only [chk] at h
  split at h
  · cases h
  rename_i n1 a1 h1
  split at h
  · rename_i hs
    cases h
    exact ⟨st, n1, a1, rfl, h1, hs, by simp [chk, h1, hs], fun _ hm => hm⟩
  · split at h
    · cases h
    rename_i n2 a2 h2
    split at h
    · rename_i hs
      cases h
      refine ⟨_, n2, a2, rfl, h2, hs, by simp [chk, h2, hs], ?_⟩
      intro m hm
      cases n1 with
      | none => exact hm
      | some x => exact hm.joinL x
    · cases h

theorem chk_sound (cfg : Cfg) (P : List Stmt) (E : List Meth) (hE : ∀ m ∈ E, entryOk cfg P E m = true) :
    ∀ s tr c, Runs P s tr c → ∀ f d st r m, chk cfg P E f d st s = some r → Le st m d → Post cfg d r m tr c := by
  intro s tr c hr
  induction hr with
  | @withLock l s0 tr0 c0 hr ih =>
    intro f d st r m h hle
    cases f with
    | zero => simp [chk] at h
    | succ f =>
    simp only [chk] at h
    split at h
    · cases h
    split at h
    · cases h
    rename_i hre
    split at h
    · cases h
    rename_i n a hin
    obtain ⟨hd, hw, hn, hf⟩ := hle
    by_cases hd0 : d = 0
    · subst hd0
      simp only [if_true] at h hin
      split at h
      · rename_i hok
        cases h
        simp only [Bool.and_eq_true] at hok
        have e1 : mstep cfg m .acq = some ⟨1, false, [], []⟩ := by simp [mstep, hw, hd]
        obtain ⟨m1, hrun, hT, hF⟩ := ih f 1 A.empty (n, a) ⟨1, false, [], []⟩ hin
          ⟨rfl, rfl, by simp, by simp [A.empty]⟩
        have key : ∀ o : Option A, okO o = true → LeO o m1 1 →
            mstep cfg m1 .rel = some ⟨0, false, [], []⟩ ∧ LeO (o.map (fun _ => A.empty)) ⟨0, false, [], []⟩ 0 := by
          intro o ho hl
          obtain ⟨st1, rfl, hl1⟩ := hl
          have hs := hl1.discharged ho
          obtain ⟨h1, h2, _, _⟩ := hl1
          refine ⟨by simp [mstep, h1, h2, hs], A.empty, rfl, rfl, rfl, by simp, by simp [A.empty]⟩
        have hrel : mstep cfg m1 .rel = some ⟨0, false, [], []⟩ := by
          cases c0 with
          | true => exact (key n hok.1 (hT rfl)).1
          | false => exact (key a hok.2 (hF rfl)).1
        refine ⟨⟨0, false, [], []⟩, ?_, ?_, ?_⟩
        · show mrun cfg m (Ev.acq :: (tr0 ++ [Ev.rel])) = _
          rw [mrun_cons _ e1, mrun_append, hrun]
          exact mrun_single hrel
        · intro hc; exact (key n hok.1 (hT hc)).2
        · intro hc; exact (key a hok.2 (hF hc)).2
      · cases h
    · simp only [hd0, if_false] at h hin
      cases h
      have e1 : mstep cfg m .acq = some { m with depth := m.depth + 1 } := by
        simp [mstep, hw, hd, hd0]
      obtain ⟨m1, hrun, hT, hF⟩ := ih f (d + 1) st (n, a) { m with depth := m.depth + 1 } hin
        ⟨by simp [hd], hw, hn, hf⟩
      have key : ∀ o : Option A, LeO o m1 (d + 1) →
          mstep cfg m1 .rel = some { m1 with depth := m1.depth - 1 } ∧ LeO o { m1 with depth := m1.depth - 1 } d := by
        intro o hl
        obtain ⟨st1, rfl, h1, h2, h3, h4⟩ := hl
        refine ⟨?_, st1, rfl, by simp [h1], h2, h3, h4⟩
        simp [mstep, h1, h2, hd0]
      have hrel : mstep cfg m1 .rel = some { m1 with depth := m1.depth - 1 } := by
        cases c0 with
        | true => exact (key n (hT rfl)).1
        | false => exact (key a (hF rfl)).1
      refine ⟨{ m1 with depth := m1.depth - 1 }, ?_, ?_, ?_⟩
      · show mrun cfg m (Ev.acq :: (tr0 ++ [Ev.rel])) = _
        rw [mrun_cons _ e1, mrun_append, hrun]
        exact mrun_single hrel
      · intro hc; exact (key n (hT hc)).2
      · intro hc; exact (key a (hF hc)).2
  | @wait mt cv g reads t =>
    intro f d st r m h hle
    cases f with
    | zero => simp [chk] at h
    | succ f =>
    simp only [chk] at h
    split at h
    · cases h
    rename_i hd0
    split at h
    · cases h
    rename_i hwo
    split at h
    · cases h
    rename_i hdis
    cases h
    simp only [Bool.not_eq_false, Bool.not_eq_eq_eq_not, Bool.not_true] at hwo hdis
    have hs := hle.discharged hdis
    obtain ⟨hd, hw, hn, hf⟩ := hle
    simp only [Cfg.waitOk, Bool.and_eq_true] at hwo
    have e1 : mstep cfg m (.waitB mt cv reads) = some ⟨m.depth, true, [], []⟩ := by
      have : m.depth ≠ 0 := by omega
      simp [mstep, hw, this, hs, hwo.1.1, hwo.1.2]
    have e2 : mstep cfg ⟨m.depth, true, [], []⟩ .wake = some ⟨m.depth, false, [], []⟩ := by simp [mstep]
    refine ⟨⟨m.depth, false, [], []⟩, ?_, ?_, by simp⟩
    · rw [mrun_cons _ e1]; exact mrun_single e2
    · intro _; exact ⟨A.empty, rfl, hd, rfl, by simp, by simp [A.empty]⟩
  | @notify mt cv =>
    intro f d st r m h hle
    cases f with
    | zero => simp [chk] at h
    | succ f =>
    simp only [chk] at h
    split at h
    · cases h
    rename_i hd0
    obtain ⟨hd, hw, hn, hf⟩ := hle
    have hne : m.depth ≠ 0 := by omega
    split at h
    · rename_i hex
      cases h
      refine ⟨{ m with need := m.need.filter (fun c => c != cv), ntf := cv :: m.ntf },
        mrun_single (by simp [mstep, hw, hne, hex]), ?_, by simp⟩
      intro _
      exact ⟨_, rfl, hd, hw, Le_filter hn, Le_cons hf⟩
    · rename_i hex
      cases h
      refine ⟨m, mrun_single (by simp [mstep, hw, hne, hex]), ?_, by simp⟩
      intro _; exact ⟨_, rfl, hd, hw, hn, hf⟩
  | @notifyAll mt cv =>
    intro f d st r m h hle
    cases f with
    | zero => simp [chk] at h
    | succ f =>
    simp only [chk] at h
    split at h
    · cases h
    rename_i hd0
    cases h
    obtain ⟨hd, hw, hn, hf⟩ := hle
    have hne : m.depth ≠ 0 := by omega
    refine ⟨{ m with need := m.need.filter (fun c => c != cv), ntf := cv :: m.ntf },
      mrun_single (by simp [mstep, hw, hne]), ?_, by simp⟩
    intro _
    exact ⟨_, rfl, hd, hw, Le_filter hn, Le_cons hf⟩
  | @write mt a =>
    intro f d st r m h hle
    cases f with
    | zero => simp [chk] at h
    | succ f =>
    simp only [chk] at h
    obtain ⟨hd, hw, hn, hf⟩ := hle
    split at h
    · rename_i ho
      cases h
      refine ⟨m, mrun_single (by simp [mstep, hw, ho]), ?_, by simp⟩
      intro _; exact ⟨_, rfl, hd, hw, hn, hf⟩
    · rename_i ho
      split at h
      · cases h
      rename_i hd0
      cases h
      have hne : m.depth ≠ 0 := by omega
      refine ⟨{ m with need := (cfg.owed mt a).filter (fun cv => !m.ntf.contains cv) ++ m.need },
        mrun_single (by simp [mstep, hw, ho, hne]), ?_, by simp⟩
      intro _
      refine ⟨_, rfl, hd, hw, ?_, hf⟩
      intro c hc
      simp only [List.mem_append, List.mem_filter, Bool.not_eq_true', List.contains_eq_mem,
        decide_eq_false_iff_not] at hc ⊢
      rcases hc with ⟨hc1, hc2⟩ | hc
      · exact Or.inl ⟨hc1, fun hx => hc2 (hf c hx)⟩
      · exact Or.inr (hn c hc)
  | @call mt s0 tr0 c0 hp hr ih =>
    intro f d st r m h hle
    cases f with
    | zero => simp [chk] at h
    | succ f =>
    simp only [chk, hp] at h
    exact ih f d st r m h hle
  | @reenter mt s0 tr0 c0 hp hr ih =>
    intro f d st r m h hle
    cases f with
    | zero => simp [chk] at h
    | succ f =>
    simp only [chk] at h
    split at h
    rotate_left
    · cases h
    rename_i hc
    cases h
    simp only [Bool.and_eq_true, decide_eq_true_eq, List.isEmpty_iff, List.contains_iff_mem] at hc
    obtain ⟨⟨rfl, hne⟩, hmem⟩ := hc
    have hok := hE mt hmem
    simp only [entryOk, Option.isSome_iff_exists] at hok
    obtain ⟨r0, hr0⟩ := hok
    rw [show fuel0 = 399 + 1 from rfl, chk_call_some hp] at hr0
    obtain ⟨hd, hw, hn, hf⟩ := hle
    have hmn : m.need = [] := by
      cases hx : m.need with
      | nil => rfl
      | cons c cs => have := hn c (by simp [hx]); rw [hne] at this; cases this
    obtain ⟨m1, hrun, hT, hF⟩ := ih _ 0 A.empty r0 m hr0 ⟨hd, hw, by simp [hmn], by simp [A.empty]⟩
    have hm1 : Le A.empty m1 0 := by
      have : ∃ st, Le st m1 0 := by
        cases c0 with
        | true => obtain ⟨st, _, h⟩ := hT rfl; exact ⟨st, h⟩
        | false => obtain ⟨st, _, h⟩ := hF rfl; exact ⟨st, h⟩
      obtain ⟨st', h1, h2, _, _⟩ := this
      have hi := mrun_inv0 hrun (fun _ => hmn) h1
      exact ⟨h1, h2, by simp [hi], by simp [A.empty]⟩
    exact ⟨m1, hrun, fun _ => ⟨_, rfl, hm1⟩, fun _ => ⟨_, rfl, hm1⟩⟩
  | @seqAbort a b ta hr ih =>
    intro f d st r m h hle
    cases f with
    | zero => simp [chk] at h
    | succ f =>
    simp only [chk] at h
    split at h
    · cases h
    · rename_i aa ha
      cases h
      obtain ⟨m1, hrun, hT, hF⟩ := ih f d st _ m ha hle
      exact ⟨m1, hrun, by simp, fun hc => hF hc⟩
    · rename_i sa aa ha
      split at h
      · cases h
      · rename_i nb ab hb
        cases h
        obtain ⟨m1, hrun, hT, hF⟩ := ih f d st _ m ha hle
        exact ⟨m1, hrun, by simp, fun hc => (hF hc).joinL ab⟩
  | @seq a b ta tb c0 hra hrb iha ihb =>
    intro f d st r m h hle
    cases f with
    | zero => simp [chk] at h
    | succ f =>
    simp only [chk] at h
    split at h
    · cases h
    · rename_i aa ha
      obtain ⟨m1, hrun, hT, hF⟩ := iha f d st _ m ha hle
      obtain ⟨_, hx, _⟩ := hT rfl
      cases hx
    · rename_i sa aa ha
      split at h
      · cases h
      · rename_i nb ab hb
        cases h
        obtain ⟨m1, hrun, hT, hF⟩ := iha f d st _ m ha hle
        obtain ⟨s1, hx, hl1⟩ := hT rfl
        simp only [Option.some.injEq] at hx
        subst hx
        obtain ⟨m2, hrun2, hT2, hF2⟩ := ihb f d _ _ m1 hb hl1
        refine ⟨m2, ?_, hT2, fun hc => (hF2 hc).joinR aa⟩
        rw [mrun_append, hrun]; exact hrun2
  | @brL a b t c0 hr ih =>
    intro f d st r m h hle
    cases f with
    | zero => simp [chk] at h
    | succ f =>
    simp only [chk] at h
    split at h
    · rename_i na aa nb ab ha hb
      cases h
      obtain ⟨m1, hrun, hT, hF⟩ := ih f d st _ m ha hle
      exact ⟨m1, hrun, fun hc => (hT hc).joinL nb, fun hc => (hF hc).joinL ab⟩
    · cases h
  | @brR a b t c0 hr ih =>
    intro f d st r m h hle
    cases f with
    | zero => simp [chk] at h
    | succ f =>
    simp only [chk] at h
    split at h
    · rename_i na aa nb ab ha hb
      cases h
      obtain ⟨m1, hrun, hT, hF⟩ := ih f d st _ m hb hle
      exact ⟨m1, hrun, fun hc => (hT hc).joinR na, fun hc => (hF hc).joinR aa⟩
    · cases h
  | @loop0 s0 =>
    intro f d st r m h hle
    cases f with
    | zero => simp [chk] at h
    | succ f =>
    obtain ⟨inv, n2, a2, rfl, h2, hst, hagain, hmono⟩ := chk_loop h
    exact ⟨m, rfl, fun _ => ⟨_, rfl, hmono m hle⟩, by simp⟩
  | @loopAbort s0 t hr ih =>
    intro f d st r m h hle
    cases f with
    | zero => simp [chk] at h
    | succ f =>
    obtain ⟨inv, n2, a2, rfl, h2, hst, hagain, hmono⟩ := chk_loop h
    obtain ⟨m1, hrun, hT, hF⟩ := ih f d _ _ m h2 (hmono m hle)
    exact ⟨m1, hrun, by simp, hF⟩
  | @loopS s0 t u c0 hrs hrl ihs ihl =>
    intro f d st r m h hle
    cases f with
    | zero => simp [chk] at h
    | succ f =>
    obtain ⟨inv, n2, a2, rfl, h2, hst, hagain, hmono⟩ := chk_loop h
    obtain ⟨m1, hrun, hT, hF⟩ := ihs f d _ _ m h2 (hmono m hle)
    obtain ⟨x, hx, hl1⟩ := hT rfl
    simp only at hx
    subst hx
    have hl1' : Le inv m1 d := hl1.mono (by simpa [stable] using hst)
    obtain ⟨m2, hrun2, hT2, hF2⟩ := ihl (f + 1) d inv _ m1 hagain hl1'
    refine ⟨m2, ?_, hT2, hF2⟩
    rw [mrun_append, hrun]; exact hrun2
  | @tryOk a b t hr ih =>
    intro f d st r m h hle
    cases f with
    | zero => simp [chk] at h
    | succ f =>
    simp only [chk] at h
    split at h
    · cases h
    · rename_i na ha
      cases h
      obtain ⟨m1, hrun, hT, hF⟩ := ih f d st _ m ha hle
      exact ⟨m1, hrun, hT, by simp⟩
    · rename_i na sa ha
      split at h
      · cases h
      · rename_i nb ab hb
        cases h
        obtain ⟨m1, hrun, hT, hF⟩ := ih f d st _ m ha hle
        exact ⟨m1, hrun, fun hc => (hT hc).joinL nb, by simp⟩
  | @tryUncaught a b t hr ih =>
    intro f d st r m h hle
    cases f with
    | zero => simp [chk] at h
    | succ f =>
    simp only [chk] at h
    split at h
    · cases h
    · rename_i na ha
      obtain ⟨m1, hrun, hT, hF⟩ := ih f d st _ m ha hle
      obtain ⟨_, hx, _⟩ := hF rfl
      cases hx
    · rename_i na sa ha
      split at h
      · cases h
      · rename_i nb ab hb
        cases h
        obtain ⟨m1, hrun, hT, hF⟩ := ih f d st _ m ha hle
        exact ⟨m1, hrun, by simp, fun hc => (hF hc).joinL ab⟩
  | @tryCaught a b t u c0 hra hrb iha ihb =>
    intro f d st r m h hle
    cases f with
    | zero => simp [chk] at h
    | succ f =>
    simp only [chk] at h
    split at h
    · cases h
    · rename_i na ha
      obtain ⟨m1, hrun, hT, hF⟩ := iha f d st _ m ha hle
      obtain ⟨_, hx, _⟩ := hF rfl
      cases hx
    · rename_i na sa ha
      split at h
      · cases h
      · rename_i nb ab hb
        cases h
        obtain ⟨m1, hrun, hT, hF⟩ := iha f d st _ m ha hle
        obtain ⟨s1, hx, hl1⟩ := hF rfl
        simp only [Option.some.injEq] at hx
        subst hx
        obtain ⟨m2, hrun2, hT2, hF2⟩ := ihb f d _ _ m1 hb hl1
        refine ⟨m2, ?_, fun hc => (hT2 hc).joinR na, fun hc => (hF2 hc).joinR (some sa)⟩
        rw [mrun_append, hrun]; exact hrun2
  | exit =>
    intro f d st r m h hle
    cases f with
    | zero => simp [chk] at h
    | succ f =>
    simp only [chk] at h
    cases h
    exact ⟨m, rfl, by simp, fun _ => ⟨_, rfl, hle⟩⟩
  | skip =>
    intro f d st r m h hle
    cases f with
    | zero => simp [chk] at h
    | succ f =>
    simp only [chk] at h
    cases h
    exact ⟨m, rfl, fun _ => ⟨_, rfl, hle⟩, by simp⟩

/-! ## part 2: accepted monitors imply the global invariant -/

def upd {n} (ms : Fin n → Mon) (t : Fin n) (m : Mon) : Fin n → Mon := fun i => if i = t then m else ms i

@[simp] theorem upd_same {n} (ms : Fin n → Mon) (t : Fin n) (m : Mon) : upd ms t m t = m := by simp [upd]
theorem upd_other {n} (ms : Fin n → Mon) (t i : Fin n) (m : Mon) (h : i ≠ t) : upd ms t m i = ms i := by simp [upd, h]

theorem blockedOn_true {x : TS} {cv : Cv} (h : blockedOn x cv = true) : ∃ r s d, x = .blocked cv r s d := by
  cases x with
  | blocked c r s d => simp [blockedOn] at h; subst h; exact ⟨r, s, d, rfl⟩
  | run => simp [blockedOn] at h
  | notified d => simp [blockedOn] at h

theorem map_ne {α β} {f g : α → β} {l : List α} (h : l.map f ≠ l.map g) : ∃ a ∈ l, f a ≠ g a := by
  apply Classical.byContradiction
  intro hn
  apply h
  apply List.map_congr_left
  intro a ha
  apply Classical.byContradiction
  intro hne
  exact hn ⟨a, ha, hne⟩

/-- joint invariant of the global state and the ghost monitors -/
structure J {n} (cfg : Cfg) (g : G n) (ms : Fin n → Mon) : Prop where
  hold1 : ∀ i, (ms i).depth ≠ 0 → (ms i).waiting = false → g.holder = some i
  hold2 : ∀ i, g.holder = some i → (ms i).depth ≠ 0 ∧ (ms i).waiting = false ∧ g.depth = (ms i).depth
  run : ∀ i, (ms i).waiting = false → g.ts i = .run
  wait : ∀ i, (ms i).waiting = true →
    (ms i).depth ≠ 0 ∧ ((∃ cv r s, g.ts i = .blocked cv r s (ms i).depth) ∨ g.ts i = .notified (ms i).depth)
  lost : ∀ t cv reads snap d, g.ts t = .blocked cv reads snap d → reads.map (fun a => g.ver a cv) ≠ snap →
    ∃ h, g.holder = some h ∧ cv ∈ (ms h).need
  ntfd : ∀ h, g.holder = some h → ∀ cv ∈ (ms h).ntf, ∀ t, blockedOn (g.ts t) cv = false
  rds : ∀ t cv reads snap d, g.ts t = .blocked cv reads snap d →
    cfg.cvOk cv = true ∧ ∀ a ∈ reads, cfg.reads a cv = true

theorem J.good {n} {cfg : Cfg} {g : G n} {ms : Fin n → Mon} (hj : J cfg g ms) : Good g := by
  intro hfree t cv reads snap d hb
  apply Classical.byContradiction
  intro hne
  obtain ⟨h, hh, _⟩ := hj.lost t cv reads snap d hb hne
  rw [hfree] at hh; cases hh

theorem J.init {n} (cfg : Cfg) : J cfg (G.init n) (fun _ => Mon.init) := by
  refine ⟨?_, ?_, ?_, ?_, ?_, ?_, ?_⟩ <;> simp [G.init, Mon.init]

/-- in a monitor state that holds the lock nobody else can -/
theorem J.others {n} {cfg : Cfg} {g : G n} {ms : Fin n → Mon} (hj : J cfg g ms) {t i : Fin n}
    (ht : g.holder = some t) (hit : i ≠ t) : ¬ ((ms i).depth ≠ 0 ∧ (ms i).waiting = false) := by
  intro ⟨h1, h2⟩
  have := hj.hold1 i h1 h2
  rw [ht] at this
  exact hit (Option.some.inj this).symm

theorem cv_mem_owed {cfg : Cfg} {m : Meth} {a : Attr} {cv : Cv}
    (hok : cfg.cvOk cv = true) (hr : cfg.reads a cv = true) (hx : cfg.wExempt m a cv = false) : cv ∈ cfg.owed m a := by
  simp only [Cfg.owed, List.mem_filter, List.mem_map, Bool.and_eq_true, hr, hx, Bool.not_false, and_self, and_true]
  simp only [Cfg.cvOk, List.any_eq_true, Bool.and_eq_true, beq_iff_eq] at hok
  obtain ⟨x, hx1, hx2, _⟩ := hok
  exact ⟨x, hx1, hx2⟩

theorem step_acq {n} {cfg : Cfg} {g g' : G n} {ms : Fin n → Mon} {t w : Fin n} {m' : Mon}
    (hj : J cfg g ms) (hm : mstep cfg (ms t) .acq = some m') (hg : gstep cfg g t .acq w = some g') :
    J cfg g' (upd ms t m') := by
  simp only [mstep] at hm
  split at hm
  · cases hm
  rename_i hw
  simp only [Bool.not_eq_true] at hw
  simp only [gstep] at hg
  split at hg
  · cases hg
  rename_i hrun
  simp only [ne_eq, Decidable.not_not] at hrun
  by_cases hd : (ms t).depth = 0
  · simp only [hd, if_true] at hm
    cases hm
    have hnh : g.holder ≠ some t := fun hh => (hj.hold2 t hh).1 hd
    split at hg
    · rename_i hfree
      cases hg
      refine ⟨?_, ?_, ?_, ?_, ?_, ?_, ?_⟩
      · intro i h1 h2
        by_cases hit : i = t
        · subst hit; rfl
        · rw [upd_other _ _ _ _ hit] at h1 h2
          have := hj.hold1 i h1 h2
          rw [hfree] at this; cases this
      · intro i hi
        simp only [Option.some.injEq] at hi
        subst hi
        simp
      · intro i h2
        by_cases hit : i = t
        · subst hit; exact hrun
        · rw [upd_other _ _ _ _ hit] at h2; exact hj.run i h2
      · intro i h2
        by_cases hit : i = t
        · subst hit; simp at h2
        · rw [upd_other _ _ _ _ hit] at h2 ⊢; exact hj.wait i h2
      · intro t' cv reads snap d hb hne
        obtain ⟨h, hh, _⟩ := hj.lost t' cv reads snap d hb hne
        rw [hfree] at hh; cases hh
      · intro h hh cv hc
        simp only [Option.some.injEq] at hh
        subst hh
        simp at hc
      · exact hj.rds
    · cases hg
  · simp only [hd, if_false] at hm
    cases hm
    have hh := hj.hold1 t hd hw
    split at hg
    · rename_i hfree; rw [hh] at hfree; cases hfree
    cases hg
    obtain ⟨_, _, hdep⟩ := hj.hold2 t hh
    refine ⟨?_, ?_, ?_, ?_, ?_, ?_, ?_⟩
    · intro i h1 h2
      by_cases hit : i = t
      · subst hit; exact hh
      · rw [upd_other _ _ _ _ hit] at h1 h2; exact hj.hold1 i h1 h2
    · intro i hi
      have hi' : g.holder = some i := hi
      rw [hh] at hi'
      simp only [Option.some.injEq] at hi'
      subst hi'
      simp [hw, hdep]
    · intro i h2
      by_cases hit : i = t
      · subst hit; exact hrun
      · rw [upd_other _ _ _ _ hit] at h2; exact hj.run i h2
    · intro i h2
      by_cases hit : i = t
      · subst hit; simp [hw] at h2
      · rw [upd_other _ _ _ _ hit] at h2 ⊢; exact hj.wait i h2
    · intro t' cv reads snap d hb hne
      obtain ⟨h, hh', hc⟩ := hj.lost t' cv reads snap d hb hne
      refine ⟨h, hh', ?_⟩
      by_cases hit : h = t
      · subst hit; simpa using hc
      · rw [upd_other _ _ _ _ hit]; exact hc
    · intro h hh' cv hc t'
      have hh'' : g.holder = some h := hh'
      by_cases hit : h = t
      · subst hit; simp at hc; exact hj.ntfd h hh'' cv hc t'
      · rw [upd_other _ _ _ _ hit] at hc; exact hj.ntfd h hh'' cv hc t'
    · exact hj.rds

/-- a thread whose obligations are discharged leaves no blocked thread with a changed guard -/
theorem J.no_lost {n} {cfg : Cfg} {g : G n} {ms : Fin n → Mon} (hj : J cfg g ms) {t : Fin n}
    (hh : g.holder = some t) (hs : (ms t).need.isEmpty = true)
    {t' : Fin n} {cv reads snap d} (hb : g.ts t' = .blocked cv reads snap d) :
    reads.map (fun a => g.ver a cv) = snap := by
  apply Classical.byContradiction
  intro hne
  obtain ⟨h, hh', hc⟩ := hj.lost t' cv reads snap d hb hne
  rw [hh] at hh'
  simp only [Option.some.injEq] at hh'
  subst hh'
  simp only [List.isEmpty_iff] at hs
  rw [hs] at hc; cases hc

theorem step_rel {n} {cfg : Cfg} {g g' : G n} {ms : Fin n → Mon} {t w : Fin n} {m' : Mon}
    (hj : J cfg g ms) (hm : mstep cfg (ms t) .rel = some m') (hg : gstep cfg g t .rel w = some g') :
    J cfg g' (upd ms t m') := by
  simp only [mstep] at hm
  split at hm
  · cases hm
  rename_i hwd
  simp only [Bool.or_eq_true, beq_iff_eq, not_or, Bool.not_eq_true] at hwd
  obtain ⟨hw, hd⟩ := hwd
  have hh := hj.hold1 t hd hw
  obtain ⟨_, _, hdep⟩ := hj.hold2 t hh
  simp only [gstep] at hg
  split at hg
  · cases hg
  by_cases hd1 : (ms t).depth = 1
  · simp only [hd1, if_true] at hm
    split at hm
    rotate_left
    · cases hm
    rename_i hs
    cases hm
    have hle : g.depth ≤ 1 := by omega
    simp only [hle, if_true] at hg
    cases hg
    refine ⟨?_, ?_, ?_, ?_, ?_, ?_, ?_⟩
    · intro i h1 h2
      by_cases hit : i = t
      · subst hit; simp at h1
      · rw [upd_other _ _ _ _ hit] at h1 h2
        exact absurd ⟨h1, h2⟩ (hj.others hh hit)
    · intro i hi; cases hi
    · intro i h2
      by_cases hit : i = t
      · subst hit; exact hj.run i hw
      · rw [upd_other _ _ _ _ hit] at h2; exact hj.run i h2
    · intro i h2
      by_cases hit : i = t
      · subst hit; simp at h2
      · rw [upd_other _ _ _ _ hit] at h2 ⊢; exact hj.wait i h2
    · intro t' cv reads snap d hb hne
      exact absurd (hj.no_lost hh hs hb) hne
    · intro h hh'; cases hh'
    · exact hj.rds
  · simp only [hd1, if_false] at hm
    cases hm
    have hle : ¬ g.depth ≤ 1 := by omega
    simp only [hle, if_false] at hg
    cases hg
    refine ⟨?_, ?_, ?_, ?_, ?_, ?_, ?_⟩
    · intro i h1 h2
      by_cases hit : i = t
      · subst hit; exact hh
      · rw [upd_other _ _ _ _ hit] at h1 h2; exact hj.hold1 i h1 h2
    · intro i hi
      have hi' : g.holder = some i := hi
      rw [hh] at hi'
      simp only [Option.some.injEq] at hi'
      subst hi'
      simp only [upd_same]
      exact ⟨by omega, hw, by omega⟩
    · intro i h2
      by_cases hit : i = t
      · subst hit; exact hj.run i hw
      · rw [upd_other _ _ _ _ hit] at h2; exact hj.run i h2
    · intro i h2
      by_cases hit : i = t
      · subst hit; simp [hw] at h2
      · rw [upd_other _ _ _ _ hit] at h2 ⊢; exact hj.wait i h2
    · intro t' cv reads snap d hb hne
      obtain ⟨h, hh', hc⟩ := hj.lost t' cv reads snap d hb hne
      refine ⟨h, hh', ?_⟩
      by_cases hit : h = t
      · subst hit; simpa using hc
      · rw [upd_other _ _ _ _ hit]; exact hc
    · intro h hh' cv hc t'
      have hh'' : g.holder = some h := hh'
      by_cases hit : h = t
      · subst hit; simp at hc; exact hj.ntfd h hh'' cv hc t'
      · rw [upd_other _ _ _ _ hit] at hc; exact hj.ntfd h hh'' cv hc t'
    · exact hj.rds

theorem step_waitB {n} {cfg : Cfg} {g g' : G n} {ms : Fin n → Mon} {t w : Fin n} {m' : Mon} {mt cv reads}
    (hj : J cfg g ms) (hm : mstep cfg (ms t) (.waitB mt cv reads) = some m')
    (hg : gstep cfg g t (.waitB mt cv reads) w = some g') :
    J cfg g' (upd ms t m') := by
  simp only [mstep] at hm
  split at hm
  rotate_left
  · cases hm
  rename_i hc
  cases hm
  simp only [Bool.and_eq_true, Bool.not_eq_true', bne_iff_ne, ne_eq] at hc
  obtain ⟨⟨⟨⟨hw, hd⟩, hs⟩, hok⟩, hrd⟩ := hc
  have hh := hj.hold1 t hd hw
  obtain ⟨_, _, hdep⟩ := hj.hold2 t hh
  simp only [gstep] at hg
  split at hg
  · cases hg
  cases hg
  refine ⟨?_, ?_, ?_, ?_, ?_, ?_, ?_⟩
  · intro i h1 h2
    by_cases hit : i = t
    · subst hit; simp at h2
    · rw [upd_other _ _ _ _ hit] at h1 h2
      exact absurd ⟨h1, h2⟩ (hj.others hh hit)
  · intro i hi; cases hi
  · intro i h2
    by_cases hit : i = t
    · subst hit; simp at h2
    · rw [upd_other _ _ _ _ hit] at h2; simp only [hit, if_false]; exact hj.run i h2
  · intro i h2
    by_cases hit : i = t
    · subst hit
      simp only [upd_same, if_true]
      exact ⟨hd, Or.inl ⟨cv, reads, _, by rw [hdep]⟩⟩
    · rw [upd_other _ _ _ _ hit] at h2 ⊢; simp only [hit, if_false]; exact hj.wait i h2
  · intro t' cv' reads' snap d hb hne
    by_cases hit : t' = t
    · subst hit
      simp only [if_true, TS.blocked.injEq] at hb
      obtain ⟨rfl, rfl, rfl, _⟩ := hb
      exact absurd rfl hne
    · simp only [hit, if_false] at hb
      exact absurd (hj.no_lost hh hs hb) hne
  · intro h hh'; cases hh'
  · intro t' cv' reads' snap d hb
    by_cases hit : t' = t
    · subst hit
      simp only [if_true, TS.blocked.injEq] at hb
      obtain ⟨rfl, rfl, rfl, _⟩ := hb
      simp only [List.all_eq_true] at hrd
      exact ⟨hok, hrd⟩
    · simp only [hit, if_false] at hb
      exact hj.rds t' cv' reads' snap d hb

theorem step_wake {n} {cfg : Cfg} {g g' : G n} {ms : Fin n → Mon} {t w : Fin n} {m' : Mon}
    (hj : J cfg g ms) (hm : mstep cfg (ms t) .wake = some m') (hg : gstep cfg g t .wake w = some g') :
    J cfg g' (upd ms t m') := by
  simp only [mstep] at hm
  split at hm
  rotate_left
  · cases hm
  rename_i hw
  cases hm
  obtain ⟨hd, hts⟩ := hj.wait t hw
  simp only [gstep] at hg
  split at hg
  · cases hg
  rename_i hfree
  simp only [ne_eq, Decidable.not_not] at hfree
  -- in both cases (blocked / notified) the thread resumes at its saved depth
  have key : g' = { g with holder := some t, depth := (ms t).depth, ts := fun i => if i = t then .run else g.ts i } := by
    rcases hts with ⟨cv, r, s, hb⟩ | hb
    · rw [hb] at hg; simp only [Option.some.injEq] at hg; exact hg.symm
    · rw [hb] at hg; simp only [Option.some.injEq] at hg; exact hg.symm
  subst key
  refine ⟨?_, ?_, ?_, ?_, ?_, ?_, ?_⟩
  · intro i h1 h2
    by_cases hit : i = t
    · subst hit; rfl
    · rw [upd_other _ _ _ _ hit] at h1 h2
      have := hj.hold1 i h1 h2
      rw [hfree] at this; cases this
  · intro i hi
    simp only [Option.some.injEq] at hi
    subst hi
    simp only [upd_same]
    exact ⟨hd, trivial, trivial⟩
  · intro i h2
    by_cases hit : i = t
    · subst hit; simp
    · rw [upd_other _ _ _ _ hit] at h2; simp only [hit, if_false]; exact hj.run i h2
  · intro i h2
    by_cases hit : i = t
    · subst hit; simp at h2
    · rw [upd_other _ _ _ _ hit] at h2 ⊢; simp only [hit, if_false]; exact hj.wait i h2
  · intro t' cv reads snap d hb hne
    by_cases hit : t' = t
    · subst hit; simp at hb
    · simp only [hit, if_false] at hb
      obtain ⟨h, hh, _⟩ := hj.lost t' cv reads snap d hb hne
      rw [hfree] at hh; cases hh
  · intro h hh cv hc
    simp only [Option.some.injEq] at hh
    subst hh
    simp at hc
  · intro t' cv reads snap d hb
    by_cases hit : t' = t
    · subst hit; simp at hb
    · simp only [hit, if_false] at hb
      exact hj.rds t' cv reads snap d hb

theorem wakeAll_run {cv : Cv} {x : TS} : wakeAll cv x = .run ↔ x = .run := by
  cases x with
  | blocked c r s d => simp only [wakeAll]; split <;> simp
  | run => simp [wakeAll]
  | notified d => simp [wakeAll]

theorem wakeAll_blocked {cv : Cv} {x : TS} {c r s d} (h : wakeAll cv x = .blocked c r s d) :
    x = .blocked c r s d ∧ c ≠ cv := by
  cases x with
  | blocked c' r' s' d' =>
    simp only [wakeAll] at h
    split at h
    · cases h
    · rename_i hne; cases h; exact ⟨rfl, hne⟩
  | run => simp [wakeAll] at h
  | notified d => simp [wakeAll] at h

theorem wakeAll_waiting {cv : Cv} {x : TS} {dep : Nat}
    (h : (∃ c r s, x = .blocked c r s dep) ∨ x = .notified dep) :
    (∃ c r s, wakeAll cv x = .blocked c r s dep) ∨ wakeAll cv x = .notified dep := by
  rcases h with ⟨c, r, s, rfl⟩ | rfl
  · simp only [wakeAll]
    split
    · exact Or.inr rfl
    · exact Or.inl ⟨c, r, s, rfl⟩
  · exact Or.inr rfl

theorem blockedOn_wakeAll {cv cv' : Cv} {x : TS} (h : blockedOn (wakeAll cv x) cv' = true) :
    blockedOn x cv' = true ∧ cv' ≠ cv := by
  obtain ⟨r, s, d, hb⟩ := blockedOn_true h
  obtain ⟨rfl, hne⟩ := wakeAll_blocked hb
  exact ⟨by simp [blockedOn], hne⟩

/-- common part of `notify` / `notify_all`: some blocked threads become notified -/
theorem step_notify_gen {n} {cfg : Cfg} {g : G n} {ms : Fin n → Mon} {t : Fin n} {cv : Cv}
    (ts' : Fin n → TS) (nt' nd' : List Cv)
    (hj : J cfg g ms) (hw : (ms t).waiting = false) (hd : (ms t).depth ≠ 0)
    (hpt : ∀ i, ts' i = g.ts i ∨ ts' i = wakeAll cv (g.ts i))
    (hnew : ∀ c ∈ nt', c ∈ (ms t).ntf ∨ (c = cv ∧ ∀ t', blockedOn (ts' t') cv = false))
    (hneed : ∀ c ∈ (ms t).need, c ∈ nd' ∨ (c = cv ∧ ∀ t', blockedOn (ts' t') cv = false)) :
    J cfg { g with ts := ts' } (upd ms t { ms t with need := nd', ntf := nt' }) := by
  have hh := hj.hold1 t hd hw
  have hblk : ∀ i c r s d, ts' i = .blocked c r s d → g.ts i = .blocked c r s d := by
    intro i c r s d hb
    rcases hpt i with h | h
    · rw [h] at hb; exact hb
    · rw [h] at hb; exact (wakeAll_blocked hb).1
  refine ⟨?_, ?_, ?_, ?_, ?_, ?_, ?_⟩
  · intro i h1 h2
    by_cases hit : i = t
    · subst hit; exact hh
    · rw [upd_other _ _ _ _ hit] at h1 h2; exact hj.hold1 i h1 h2
  · intro i hi
    have hi' : g.holder = some i := hi
    by_cases hit : i = t
    · subst hit; simpa using hj.hold2 i hi'
    · rw [upd_other _ _ _ _ hit]; exact hj.hold2 i hi'
  · intro i h2
    have hr : g.ts i = .run := by
      by_cases hit : i = t
      · subst hit; exact hj.run i hw
      · rw [upd_other _ _ _ _ hit] at h2; exact hj.run i h2
    rcases hpt i with h | h
    · show ts' i = .run
      rw [h]; exact hr
    · show ts' i = .run
      rw [h]; exact wakeAll_run.mpr hr
  · intro i h2
    by_cases hit : i = t
    · subst hit; simp [hw] at h2
    · rw [upd_other _ _ _ _ hit] at h2 ⊢
      obtain ⟨h1, h3⟩ := hj.wait i h2
      refine ⟨h1, ?_⟩
      rcases hpt i with h | h
      · show (∃ c r s, ts' i = _) ∨ ts' i = _
        rw [h]; exact h3
      · show (∃ c r s, ts' i = _) ∨ ts' i = _
        rw [h]; exact wakeAll_waiting h3
  · intro t' cv' reads snap d hb hne
    obtain ⟨h, hh', hc⟩ := hj.lost t' cv' reads snap d (hblk _ _ _ _ _ hb) hne
    refine ⟨h, hh', ?_⟩
    by_cases hit : h = t
    · subst hit
      simp only [upd_same]
      rcases hneed cv' hc with hc' | ⟨rfl, hall⟩
      · exact hc'
      · have := hall t'
        have hb2 : ts' t' = .blocked cv' reads snap d := hb
        rw [hb2] at this
        simp [blockedOn] at this
    · rw [upd_other _ _ _ _ hit]; exact hc
  · intro h hh' cv' hc t'
    have hh'' : g.holder = some h := hh'
    rw [hh] at hh''
    simp only [Option.some.injEq] at hh''
    subst hh''
    simp only [upd_same] at hc
    rcases hnew cv' hc with hc | ⟨rfl, hall⟩
    · cases hbo : blockedOn (ts' t') cv' with
      | false => rfl
      | true =>
        obtain ⟨r, s, d, hb⟩ := blockedOn_true hbo
        have := hj.ntfd _ hh cv' hc t'
        rw [hblk _ _ _ _ _ hb] at this
        simp [blockedOn] at this
    · exact hall t'
  · intro t' cv' reads snap d hb
    exact hj.rds t' cv' reads snap d (hblk _ _ _ _ _ hb)

theorem anyBlocked_false {n} {g : G n} {cv : Cv} (h : anyBlocked g cv = false) (i : Fin n) :
    blockedOn (g.ts i) cv = false := by
  cases hb : blockedOn (g.ts i) cv with
  | false => rfl
  | true =>
    have : anyBlocked g cv = true := by
      simp only [anyBlocked, List.any_eq_true]
      exact ⟨i, List.mem_finRange i, hb⟩
    rw [h] at this; cases this

theorem all_woken (cv : Cv) (x : TS) : blockedOn (wakeAll cv x) cv = false := by
  cases hbo : blockedOn (wakeAll cv x) cv with
  | false => rfl
  | true => exact absurd rfl (blockedOn_wakeAll hbo).2

theorem need_filter {need : List Cv} {cv : Cv} {P : Prop} (hall : P) :
    ∀ c ∈ need, c ∈ need.filter (fun c => c != cv) ∨ (c = cv ∧ P) := by
  intro c hc
  by_cases hcv : c = cv
  · exact Or.inr ⟨hcv, hall⟩
  · exact Or.inl (by simp [List.mem_filter, hc, hcv])

theorem step_ntfAll {n} {cfg : Cfg} {g g' : G n} {ms : Fin n → Mon} {t w : Fin n} {m' : Mon} {cv}
    (hj : J cfg g ms) (hm : mstep cfg (ms t) (.ntfAll cv) = some m') (hg : gstep cfg g t (.ntfAll cv) w = some g') :
    J cfg g' (upd ms t m') := by
  simp only [mstep] at hm
  split at hm
  rotate_left
  · cases hm
  rename_i hc
  cases hm
  simp only [Bool.and_eq_true, Bool.not_eq_true', bne_iff_ne, ne_eq] at hc
  obtain ⟨hw, hd⟩ := hc
  simp only [gstep] at hg
  split at hg
  · cases hg
  cases hg
  have hall : ∀ t', blockedOn (wakeAll cv (g.ts t')) cv = false := fun t' => all_woken cv _
  apply step_notify_gen (cv := cv) _ _ _ hj hw hd (fun i => Or.inr rfl)
  · intro c hc
    simp only [List.mem_cons] at hc
    rcases hc with rfl | hc
    · exact Or.inr ⟨rfl, hall⟩
    · exact Or.inl hc
  · exact need_filter hall

theorem step_ntf {n} {cfg : Cfg} {g g' : G n} {ms : Fin n → Mon} {t w : Fin n} {m' : Mon} {mt cv}
    (hj : J cfg g ms) (hsingle : Single cfg g)
    (hm : mstep cfg (ms t) (.ntf mt cv) = some m') (hg : gstep cfg g t (.ntf mt cv) w = some g') :
    J cfg g' (upd ms t m') := by
  simp only [mstep] at hm
  split at hm
  rotate_left
  · cases hm
  rename_i hc
  simp only [Bool.and_eq_true, Bool.not_eq_true', bne_iff_ne, ne_eq] at hc
  obtain ⟨hw, hd⟩ := hc
  simp only [Option.some.injEq] at hm
  simp only [gstep] at hg
  split at hg
  · cases hg
  -- the new thread states: at most the picked waiter changes
  obtain ⟨ts', rfl, hpt, hall⟩ : ∃ ts', g' = { g with ts := ts' } ∧
      (∀ i, ts' i = g.ts i ∨ ts' i = wakeAll cv (g.ts i)) ∧
      (cfg.nExempt mt cv = true → ∀ t', blockedOn (ts' t') cv = false) := by
    split at hg
    · rename_i hbw
      cases hg
      refine ⟨_, rfl, ?_, ?_⟩
      · intro i
        by_cases hiw : i = w
        · subst hiw; simp
        · simp [hiw]
      · intro hex t'
        by_cases htw : t' = w
        · subst htw
          simp only [if_true]
          exact all_woken cv _
        · simp only [htw, if_false]
          cases hbo : blockedOn (g.ts t') cv with
          | false => rfl
          | true => exact absurd (hsingle mt cv hex t' w hbo hbw) htw
    · split at hg
      · cases hg
      rename_i hnone
      simp only [Bool.not_eq_true] at hnone
      cases hg
      exact ⟨g.ts, rfl, fun i => Or.inl rfl, fun _ => anyBlocked_false hnone⟩
  by_cases hex : cfg.nExempt mt cv = true
  · simp only [hex, if_true] at hm
    subst hm
    apply step_notify_gen (cv := cv) _ _ _ hj hw hd hpt
    · intro c hc
      simp only [List.mem_cons] at hc
      rcases hc with rfl | hc
      · exact Or.inr ⟨rfl, hall hex⟩
      · exact Or.inl hc
    · exact need_filter (hall hex)
  · simp only [hex] at hm
    subst hm
    have := step_notify_gen (cv := cv) ts' (ms t).ntf (ms t).need hj hw hd hpt
      (fun c hc => Or.inl hc) (fun c hc => Or.inl hc)
    exact this

theorem step_wr {n} {cfg : Cfg} {g g' : G n} {ms : Fin n → Mon} {t w : Fin n} {m' : Mon} {mt a}
    (hj : J cfg g ms) (hm : mstep cfg (ms t) (.wr mt a) = some m') (hg : gstep cfg g t (.wr mt a) w = some g') :
    J cfg g' (upd ms t m') := by
  simp only [gstep] at hg
  split at hg
  · cases hg
  cases hg
  simp only [mstep] at hm
  split at hm
  · cases hm
  rename_i hw
  simp only [Bool.not_eq_true] at hw
  -- the new monitor keeps depth, waiting, ntf and only extends `need`
  have hm' : ∃ nd, m' = { ms t with need := nd } ∧ (∀ c ∈ (ms t).need, c ∈ nd) ∧
      (∀ cv, cv ∈ cfg.owed mt a → (ms t).depth ≠ 0 ∧ (cv ∈ nd ∨ cv ∈ (ms t).ntf)) := by
    split at hm
    · rename_i he
      cases hm
      refine ⟨(ms t).need, rfl, fun _ h => h, ?_⟩
      intro cv hc
      simp only [List.isEmpty_iff] at he
      rw [he] at hc; cases hc
    · split at hm
      · cases hm
      rename_i hd
      cases hm
      refine ⟨_, rfl, fun c h => List.mem_append_right _ h, fun cv hc => ⟨hd, ?_⟩⟩
      by_cases hn : cv ∈ (ms t).ntf
      · exact Or.inr hn
      · exact Or.inl (List.mem_append_left _ (by simp [List.mem_filter, hc, hn]))
  obtain ⟨nd, rfl, hsub, howed⟩ := hm'
  refine ⟨?_, ?_, ?_, ?_, ?_, ?_, ?_⟩
  · intro i h1 h2
    by_cases hit : i = t
    · subst hit; exact hj.hold1 i (by simpa using h1) hw
    · rw [upd_other _ _ _ _ hit] at h1 h2; exact hj.hold1 i h1 h2
  · intro i hi
    have hi' : g.holder = some i := hi
    by_cases hit : i = t
    · subst hit; simpa using hj.hold2 i hi'
    · rw [upd_other _ _ _ _ hit]; exact hj.hold2 i hi'
  · intro i h2
    by_cases hit : i = t
    · subst hit; exact hj.run i hw
    · rw [upd_other _ _ _ _ hit] at h2; exact hj.run i h2
  · intro i h2
    by_cases hit : i = t
    · subst hit; simp [hw] at h2
    · rw [upd_other _ _ _ _ hit] at h2 ⊢; exact hj.wait i h2
  · intro t' cv reads snap d hb hne
    have hb' : g.ts t' = .blocked cv reads snap d := hb
    by_cases hold : reads.map (fun x => g.ver x cv) = snap
    · -- the guard was unchanged before this write: the write is relevant for `cv`
      subst hold
      obtain ⟨x, hx, hxne⟩ := map_ne hne
      have hxa : x = a ∧ cfg.wExempt mt a cv = false := by
        apply Classical.byContradiction
        intro hcon
        apply hxne
        show (if x = a ∧ cfg.wExempt mt a cv = false then g.ver x cv + 1 else g.ver x cv) = g.ver x cv
        rw [if_neg hcon]
      obtain ⟨rfl, hex⟩ := hxa
      obtain ⟨hok, hrd⟩ := hj.rds t' cv reads _ d hb'
      obtain ⟨hd, hc⟩ := howed cv (cv_mem_owed hok (hrd x hx) hex)
      have hht := hj.hold1 t hd hw
      rcases hc with hc | hc
      · exact ⟨t, hht, by simpa using hc⟩
      · have := hj.ntfd t hht cv hc t'
        rw [hb'] at this
        simp [blockedOn] at this
    · obtain ⟨h, hh', hc⟩ := hj.lost t' cv reads snap d hb' hold
      refine ⟨h, hh', ?_⟩
      by_cases hit : h = t
      · subst hit; simpa using hsub cv hc
      · rw [upd_other _ _ _ _ hit]; exact hc
  · intro h hh' cv hc t'
    have hh'' : g.holder = some h := hh'
    by_cases hit : h = t
    · subst hit; simp at hc; exact hj.ntfd h hh'' cv hc t'
    · rw [upd_other _ _ _ _ hit] at hc; exact hj.ntfd h hh'' cv hc t'
  · exact hj.rds

/-- one step preserves the joint invariant; condition operations happen with the lock held -/
theorem step_inv {n} {cfg : Cfg} {g g' : G n} {ms : Fin n → Mon} {t w : Fin n} {e : Ev} {m' : Mon}
    (hj : J cfg g ms) (hsingle : Single cfg g)
    (hm : mstep cfg (ms t) e = some m') (hg : gstep cfg g t e w = some g') : J cfg g' (upd ms t m') := by
  cases e with
  | acq => exact step_acq hj hm hg
  | rel => exact step_rel hj hm hg
  | waitB mt cv reads => exact step_waitB hj hm hg
  | wake => exact step_wake hj hm hg
  | ntf mt cv => exact step_ntf hj hsingle hm hg
  | ntfAll cv => exact step_ntfAll hj hm hg
  | wr mt a => exact step_wr hj hm hg

theorem lock_held {n} {cfg : Cfg} {g : G n} {ms : Fin n → Mon} {t : Fin n} {e : Ev} {m' : Mon}
    (hj : J cfg g ms) (hm : mstep cfg (ms t) e = some m') (hn : needsLock e = true) : g.holder = some t := by
  have key : (ms t).waiting = false ∧ (ms t).depth ≠ 0 := by
    cases e with
    | acq => simp [needsLock] at hn
    | wake => simp [needsLock] at hn
    | wr mt a => simp [needsLock] at hn
    | rel =>
      simp only [mstep] at hm
      split at hm
      · cases hm
      rename_i h
      simp only [Bool.or_eq_true, beq_iff_eq, not_or, Bool.not_eq_true] at h
      exact h
    | waitB mt cv reads =>
      simp only [mstep] at hm
      split at hm
      · rename_i h
        simp only [Bool.and_eq_true, Bool.not_eq_true', bne_iff_ne, ne_eq] at h
        exact h.1.1.1
      · cases hm
    | ntf mt cv =>
      simp only [mstep] at hm
      split at hm
      · rename_i h
        simp only [Bool.and_eq_true, Bool.not_eq_true', bne_iff_ne, ne_eq] at h
        exact h
      · cases hm
    | ntfAll cv =>
      simp only [mstep] at hm
      split at hm
      · rename_i h
        simp only [Bool.and_eq_true, Bool.not_eq_true', bne_iff_ne, ne_eq] at h
        exact h
      · cases hm
  exact hj.hold1 t key.2 key.1

/-- the monitor accepts `l` followed by some continuation -/
def Acc (cfg : Cfg) (m : Mon) (l : List Ev) : Prop := ∃ ext m', mrun cfg m (l ++ ext) = some m'

theorem acc_cons {cfg : Cfg} {m : Mon} {e : Ev} {l : List Ev} (h : Acc cfg m (e :: l)) :
    ∃ m1, mstep cfg m e = some m1 ∧ Acc cfg m1 l := by
  obtain ⟨ext, m', h⟩ := h
  simp only [List.cons_append, mrun] at h
  split at h
  · rename_i m1 h1; exact ⟨m1, h1, ext, m', h⟩
  · cases h

theorem proj_cons_same {n} (t w : Fin n) (e : Ev) (rest : Sched n) :
    proj ((t, e, w) :: rest) t = e :: proj rest t := by simp [proj]

theorem proj_cons_other {n} (t i w : Fin n) (e : Ev) (rest : Sched n) (h : t ≠ i) :
    proj ((t, e, w) :: rest) i = proj rest i := by simp [proj, h]

theorem run_good {n} (cfg : Cfg) (σ : Sched n) : ∀ (g : G n) (ms : Fin n → Mon), J cfg g ms →
    (∀ i, Acc cfg (ms i) (proj σ i)) → runGood cfg g σ := by
  induction σ with
  | nil => intro g ms _ _; trivial
  | cons x rest ih =>
    obtain ⟨t, e, w⟩ := x
    intro g ms hj hacc
    have ht := hacc t
    rw [proj_cons_same] at ht
    obtain ⟨m1, hm1, hacc1⟩ := acc_cons ht
    simp only [runGood]
    refine ⟨lock_held hj hm1, ?_⟩
    split
    · trivial
    · rename_i g' hg
      intro hsingle
      have hj' := step_inv hj hsingle hm1 hg
      refine ⟨hj'.good, ih g' (upd ms t m1) hj' ?_⟩
      intro i
      by_cases hit : i = t
      · subst hit; simpa using hacc1
      · have := hacc i
        rw [proj_cons_other t i w e rest (fun h => hit h.symm)] at this
        rw [upd_other _ _ _ _ hit]; exact this

/-- a thread that runs entry points of a disciplined program is accepted by the monitor -/
theorem thread_accepted (cfg : Cfg) (P : List Stmt) (E : List Meth) (hP : disciplineOk cfg P E = true)
    {tr : List Ev} (h : ThreadRuns P E tr) : ∀ m, Le A.empty m 0 → ∃ m', mrun cfg m tr = some m' ∧ Le A.empty m' 0 := by
  induction h with
  | nil => intro m hm; exact ⟨m, rfl, hm⟩
  | @cons mt t c u hmem hr _ ih =>
    intro m hm
    have hok : entryOk cfg P E mt = true := by
      simp only [disciplineOk, List.all_eq_true] at hP
      exact hP mt hmem
    simp only [entryOk, Option.isSome_iff_exists] at hok
    obtain ⟨r, hr0⟩ := hok
    have hE : ∀ m ∈ E, entryOk cfg P E m = true := by
      simpa [disciplineOk, List.all_eq_true] using hP
    obtain ⟨m1, hrun, hT, hF⟩ := chk_sound cfg P E hE _ _ _ hr _ _ _ _ m hr0 hm
    -- at depth 0 nothing is owed and nothing was notified: the state is `A.empty` again
    have hm1 : Le A.empty m1 0 := by
      have : ∃ st, Le st m1 0 := by
        cases c with
        | true => obtain ⟨st, _, h⟩ := hT rfl; exact ⟨st, h⟩
        | false => obtain ⟨st, _, h⟩ := hF rfl; exact ⟨st, h⟩
      obtain ⟨st, h1, h2, h3, h4⟩ := this
      have hi := mrun_inv0 hrun (fun _ => hm_need hm) h1
      exact ⟨h1, h2, by simp [hi], by simp [A.empty]⟩
    obtain ⟨m2, hrun2, hm2⟩ := ih m1 hm1
    exact ⟨m2, by rw [mrun_append, hrun]; exact hrun2, hm2⟩

/-- **Soundness of the monitor discipline, once for all programs.**  If every entry point of `E`
passes the syntactic check, then for any number of threads, each running any sequence of entry
points (early exits anywhere), under every interleaving with spurious wake-ups, as long as the
single-waiter assumption of the `notifyExempt` table holds: every `wait`/`notify`/`notify_all`/release
happens with the lock held, and whenever the lock is free, no thread blocked in `cv.wait()` has had
an attribute of its guard written (by a non-exempt write) since it started to wait - every change
that could make its guard true has notified it. -/
theorem monitor_sound (cfg : Cfg) (P : List Stmt) (E : List Meth) (hP : disciplineOk cfg P E = true)
    (n : Nat) (σ : Sched n)
    (hthreads : ∀ i, ∃ full, ThreadRuns P E full ∧ ∃ ext, proj σ i ++ ext = full) :
    runGood cfg (G.init n) σ := by
  apply run_good cfg σ _ (fun _ => Mon.init) (J.init cfg)
  intro i
  obtain ⟨full, hr, ext, hext⟩ := hthreads i
  obtain ⟨m', hrun, _⟩ := thread_accepted cfg P E hP hr Mon.init ⟨rfl, rfl, by simp [Mon.init], by simp [A.empty]⟩
  exact ⟨ext, m', by rw [hext]; exact hrun⟩

/-- `runGood` gives `Good` for the state reached by an executable run (under the single-waiter
assumption along the way) -/
theorem runGood_grun {n} (cfg : Cfg) (hS : ∀ g : G n, Single cfg g) :
    ∀ (σ : Sched n) (g g' : G n), runGood cfg g σ → Good g → grun cfg g σ = some g' → Good g' := by
  intro σ
  induction σ with
  | nil => intro g g' _ hg h; simp only [grun, Option.some.injEq] at h; subst h; exact hg
  | cons x rest ih =>
    obtain ⟨t, e, w⟩ := x
    intro g g' hr hg h
    simp only [grun] at h
    simp only [runGood] at hr
    split at h
    · cases h
    · rename_i g1 h1
      rw [h1] at hr
      obtain ⟨hg1, hr1⟩ := hr.2 (hS g)
      exact ih g1 g' hr1 hg1 h

theorem lostB_not_good {n} {g : G n} (h : lostB g = true) : ¬ Good g := by
  intro hg
  simp only [lostB, Bool.and_eq_true, Option.isNone_iff_eq_none, List.any_eq_true] at h
  obtain ⟨hfree, t, _, ht⟩ := h
  split at ht
  · rename_i cv reads snap d hb
    have := hg hfree t cv reads snap d hb
    simp [this] at ht
  · cases ht

theorem good_of_lostB_false {n} {g : G n} (h : lostB g = false) : Good g := by
  intro hfree t cv reads snap d hb
  apply Classical.byContradiction
  intro hne
  have : lostB g = true := by
    simp only [lostB, Bool.and_eq_true, Option.isNone_iff_eq_none, List.any_eq_true]
    refine ⟨hfree, t, List.mem_finRange t, ?_⟩
    rw [hb]
    simpa using hne
  rw [h] at this; cases this

/-! ## `notify` vs `notify_all`: the counter-example as a theorem -/
namespace Demo

/-- one lock 0, one condition 0 on it, whose waiters read attribute 0; no exemptions -/
def cfg : Cfg := ⟨0, true, [(0, 0)], [(0, [0])], [], [], []⟩

/-- method 0: `with lock: while <reads a0>: cv.wait()`; method 1: `with lock: a0 = ..; cv.notify()`;
method 2: the same with `notify_all()` -/
def waiter : Stmt := .withLock 0 (.loop (.tryc (.wait 0 0 .whileG [0] false) .skip))
def writerNotify : Stmt := .withLock 0 (.seq (.write 1 0) (.notify 1 0))
def writerNotifyAll : Stmt := .withLock 0 (.seq (.write 2 0) (.notifyAll 2 0))
def prog : List Stmt := [waiter, writerNotify, writerNotifyAll]

/-- threads 0 and 1 wait, thread 2 writes and wakes ONE waiter (thread 0) -/
def schedNotify : Sched 3 :=
  [(0, .acq, 0), (0, .waitB 0 0 [0], 0), (1, .acq, 0), (1, .waitB 0 0 [0], 0),
   (2, .acq, 0), (2, .wr 1 0, 0), (2, .ntf 1 0, 0), (2, .rel, 0)]

def schedNotifyAll : Sched 3 :=
  [(0, .acq, 0), (0, .waitB 0 0 [0], 0), (1, .acq, 0), (1, .waitB 0 0 [0], 0),
   (2, .acq, 0), (2, .wr 2 0, 0), (2, .ntfAll 0, 0), (2, .rel, 0)]

end Demo

/-- the discipline accepts the `notify_all` writer and rejects the plain `notify` writer -/
theorem demo_check : disciplineOk Demo.cfg Demo.prog [0, 2] = true ∧ disciplineOk Demo.cfg Demo.prog [0, 1] = false := by
  decide

/-- **`notify` with two waiters loses a wake-up**: after the schedule the lock is free, the
attribute has changed, one waiter was notified and the other is still blocked on the old value -/
theorem notify_two_waiters_lost :
    ∃ g, grun Demo.cfg (G.init 3) Demo.schedNotify = some g ∧ ¬ Good g ∧ nBlocked g 0 = 1 ∧ g.ts 0 = .notified 1 := by
  have h : ((grun Demo.cfg (G.init 3) Demo.schedNotify).map (fun g => (lostB g, nBlocked g 0, g.ts 0)))
      = some (true, 1, .notified 1) := by decide
  cases hg : grun Demo.cfg (G.init 3) Demo.schedNotify with
  | none => rw [hg] at h; cases h
  | some g =>
    rw [hg] at h
    simp only [Option.map_some, Option.some.injEq, Prod.mk.injEq] at h
    exact ⟨g, rfl, lostB_not_good h.1, h.2.1, h.2.2⟩

/-- the same schedule with `notify_all`: nobody stays blocked, `Good` holds -/
theorem notifyAll_two_waiters_woken :
    ∃ g, grun Demo.cfg (G.init 3) Demo.schedNotifyAll = some g ∧ Good g ∧ nBlocked g 0 = 0
      ∧ g.ts 0 = .notified 1 ∧ g.ts 1 = .notified 1 := by
  have h : ((grun Demo.cfg (G.init 3) Demo.schedNotifyAll).map (fun g => (lostB g, nBlocked g 0, g.ts 0, g.ts 1)))
      = some (false, 0, .notified 1, .notified 1) := by decide
  cases hg : grun Demo.cfg (G.init 3) Demo.schedNotifyAll with
  | none => rw [hg] at h; cases h
  | some g =>
    rw [hg] at h
    simp only [Option.map_some, Option.some.injEq, Prod.mk.injEq] at h
    exact ⟨g, rfl, good_of_lostB_false h.1, h.2.1, h.2.2.1, h.2.2.2⟩

end NfcVerif.Monitor
