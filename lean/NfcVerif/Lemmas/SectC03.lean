import NfcVerif.Model.SectC03
/-! proofs for `Model/SectC03`: the believed sector equals the real one at every executed page command, for
every history and every fault script, up to the first ambiguous event -/
namespace NfcVerif.SectC03
open NfcVerif

/-- one executed command is consistent: belief = reality (or unknown) while nothing ambiguous happened, and a page command
of the memory reader was sent while the object believed the sector of its linear page -/
def EvOk (e : Ev) : Prop :=
  (e.clean = true → e.bel = none ∨ e.bel = some e.real) ∧
  (e.mr = true → e.kind ≠ .select → e.bel = some (e.page / 256))

def TraceOk (w : W) : Prop := ∀ e ∈ w.trace, EvOk e
def Bel (w : W) : Prop := w.amb = false → w.cur = none ∨ w.cur = some w.tag.sector
def Inv (w : W) : Prop := Bel w ∧ TraceOk w

def Frame.isSs2 : Frame → Bool
  | .ss2 _ => true | _ => false

/-- what the caller guarantees when it sends a page frame on behalf of the memory reader -/
def Pre (w : W) (mr : Bool) (f : Frame) : Prop :=
  mr = true → match f with
    | .read p => w.cur = some (p / 256)
    | .write p _ => w.cur = some (p / 256)
    | _ => True

theorem tagExec_kind (t : Tag) (f : Frame) (k : Kind) (h : (tagExec t f).2.2 = some k) :
    (k = .select ↔ f.isSs2 = true) ∧ (f = .ss1 → False) := by
  unfold tagExec at h
  cases f <;> simp [Frame.isSs2] at h ⊢ <;> (split at h <;> try split at h) <;> (try simp_all) <;>
    (try (subst_vars; simp))

theorem tagExec_sector (t : Tag) (f : Frame) (h : f.isSs2 = false) : (tagExec t f).1.sector = t.sector := by
  unfold tagExec
  cases f <;> simp [Frame.isSs2] at h ⊢ <;> (split <;> try split) <;> simp_all

theorem execute_spec (w : W) (mr : Bool) (f : Frame) (rest : List Air) (hb : Bel w) (ht : TraceOk w)
    (hp : Pre w mr f) :
    TraceOk (execute w mr f rest).1 ∧ (execute w mr f rest).1.cur = w.cur ∧
    (execute w mr f rest).1.amb = w.amb ∧
    (f.isSs2 = false → (execute w mr f rest).1.tag.sector = w.tag.sector) := by
  refine ⟨?_, rfl, rfl, fun h => by simpa [execute] using tagExec_sector w.tag f h⟩
  intro e he
  simp only [execute] at he
  split at he
  · next k hk =>
    rcases List.mem_cons.mp he with rfl | he
    · have hkk := tagExec_kind w.tag f k hk
      refine ⟨fun hc => hb (by simpa using hc), fun hm hsel => ?_⟩
      have hns : f.isSs2 = false := by
        cases hf : f.isSs2
        · rfl
        · exact absurd (hkk.1.mpr hf) hsel
      have := hp hm
      cases f <;> simp_all [Frame.isSs2, framePage]
    · exact ht e he
  · exact ht e he

theorem exchange_spec (w : W) (mr : Bool) (f : Frame) (hb : Bel w) (ht : TraceOk w) (hp : Pre w mr f) :
    TraceOk (exchange w mr f).1 ∧ (exchange w mr f).1.cur = w.cur ∧ (exchange w mr f).1.amb = w.amb ∧
    (f.isSs2 = false → (exchange w mr f).1.tag.sector = w.tag.sector) := by
  unfold exchange
  split
  · exact execute_spec w mr f [] hb ht hp
  · next rest _ => exact execute_spec w mr f rest hb ht hp
  · exact ⟨ht, rfl, rfl, fun _ => rfl⟩
  · exact ⟨ht, rfl, rfl, fun _ => rfl⟩
  · next e rest _ => exact execute_spec w mr f rest hb ht hp

theorem Pre_of_cur {w w' : W} {mr : Bool} {f : Frame} (h : w'.cur = w.cur) (hp : Pre w mr f) : Pre w' mr f := by
  intro hm
  have := hp hm
  cases f <;> simp_all

/-- `transceive` of a frame other than packet 2 keeps the invariant, the belief and the real sector -/
theorem transceive_spec (n : Nat) (w : W) (mr : Bool) (f : Frame) (last : RErr) (hf : f.isSs2 = false)
    (hi : Inv w) (hp : Pre w mr f) :
    Inv (transceive n w mr f last).1 ∧ (transceive n w mr f last).1.cur = w.cur ∧
    (transceive n w mr f last).1.amb = w.amb ∧ (transceive n w mr f last).1.tag.sector = w.tag.sector := by
  induction n generalizing w last with
  | zero => exact ⟨hi, rfl, rfl, rfl⟩
  | succ n ih =>
    have hx := exchange_spec w mr f hi.1 hi.2 hp
    have hinv : Inv (exchange w mr f).1 := by
      refine ⟨fun ha => ?_, hx.1⟩
      rw [hx.2.1, hx.2.2.2 hf]
      exact hi.1 (by rw [← hx.2.2.1]; exact ha)
    unfold transceive
    split
    · next w' d heq =>
      have : w' = (exchange w mr f).1 := by rw [heq]
      subst this
      exact ⟨hinv, hx.2.1, hx.2.2.1, hx.2.2.2 hf⟩
    · next w' e heq =>
      have : w' = (exchange w mr f).1 := by rw [heq]
      subst this
      have := ih (exchange w mr f).1 e hinv (Pre_of_cur hx.2.1 hp)
      exact ⟨this.1, by rw [this.2.1, hx.2.1], by rw [this.2.2.1, hx.2.2.1], by rw [this.2.2.2, hx.2.2.2 hf]⟩

theorem tagExec_ss1 (t : Tag) (h : (tagExec t .ss1).2.1 = some [0x0A]) : (tagExec t .ss1).1.pend = true := by
  unfold tagExec at h ⊢
  by_cases hp : t.pend = true <;> by_cases hl : t.mem.length > 1024 <;> simp_all

theorem execute_ss1 (w : W) (mr : Bool) (rest : List Air) (h : (execute w mr .ss1 rest).2 = some [0x0A]) :
    (execute w mr .ss1 rest).1.tag.pend = true := by
  simp only [execute] at h ⊢
  exact tagExec_ss1 w.tag h

theorem exchange_ss1_ack (w w' : W) (mr : Bool) (h : exchange w mr .ss1 = (w', .ok [0x0A])) : w'.tag.pend = true := by
  unfold exchange at h
  split at h
  · simp only [Prod.mk.injEq] at h
    obtain ⟨rfl, h2⟩ := h
    apply execute_ss1
    cases hr : (execute w mr .ss1 []).2 <;> simp_all
  · next rest _ =>
    simp only [Prod.mk.injEq] at h
    obtain ⟨rfl, h2⟩ := h
    apply execute_ss1
    cases hr : (execute w mr .ss1 rest).2 <;> simp_all
  · simp at h
  · next e rest _ =>
    simp only [Prod.mk.injEq] at h
    obtain ⟨_, h2⟩ := h
    split at h2 <;> simp_all
  · next e rest _ =>
    simp only [Prod.mk.injEq] at h
    obtain ⟨_, h2⟩ := h
    split at h2 <;> simp_all

/-- packet 1 was acknowledged: the tag now waits for packet 2 -/
theorem ss1_ack_pend (n : Nat) (w : W) (mr : Bool) (last : RErr) (w1 : W)
    (h : transceive n w mr .ss1 last = (w1, .ok [0x0A])) : w1.tag.pend = true := by
  induction n generalizing w last with
  | zero => simp [transceive] at h
  | succ n ih =>
    unfold transceive at h
    split at h
    · next w' d heq =>
      simp only [Prod.mk.injEq, Except.ok.injEq] at h
      obtain ⟨rfl, rfl⟩ := h
      exact exchange_ss1_ack w w' mr heq
    · next w' e heq => exact ih w' e h

theorem selectP2_trace (w1 : W) (mr : Bool) (s : Nat) :
    (selectP2 w1 mr s).1.trace = (exchange w1 mr (.ss2 s)).1.trace := by
  unfold selectP2
  split
  · next w2 e heq => rw [heq]; split <;> rfl
  · next w2 d heq => rw [heq]

/-- packet 2: afterwards the belief is right or unknown unless the passive acknowledgement was not faithful -/
theorem selectP2_bel (w1 : W) (mr : Bool) (s : Nat) (hb : Bel w1) (hpend : w1.tag.pend = true) :
    Bel (selectP2 w1 mr s).1 ∧ (∀ v, (selectP2 w1 mr s).2 = .ok v → (selectP2 w1 mr s).1.cur = some s) := by
  unfold Bel at *
  unfold selectP2 exchange
  cases hs : w1.script with
  | nil =>
    by_cases hv : s * 1024 < w1.tag.mem.length <;>
      simp [execute, tagExec, hpend, hv, ss2Faithful] <;> intro h <;> simp_all
  | cons a rest =>
    cases a with
    | ok =>
      by_cases hv : s * 1024 < w1.tag.mem.length <;>
        simp [execute, tagExec, hpend, hv, ss2Faithful] <;> intro h <;> simp_all
    | drop => simp [ss2Faithful]
    | corrupt e => cases e <;> simp [ss2Faithful, errOf] <;> intro h <;> simp_all
    | lost e =>
      by_cases hv : s * 1024 < w1.tag.mem.length <;> cases e <;>
        simp [execute, tagExec, hpend, hv, ss2Faithful, errOf] <;> (try (intro h; simp_all))

theorem selectP2_spec (w1 : W) (mr : Bool) (s : Nat) (hi : Inv w1) (hpend : w1.tag.pend = true) :
    Inv (selectP2 w1 mr s).1 ∧ (∀ v, (selectP2 w1 mr s).2 = .ok v → (selectP2 w1 mr s).1.cur = some s) := by
  have hx := exchange_spec w1 mr (.ss2 s) hi.1 hi.2 (by intro _; trivial)
  have hb := selectP2_bel w1 mr s hi.1 hpend
  refine ⟨⟨hb.1, ?_⟩, hb.2⟩
  intro e he
  rw [selectP2_trace] at he
  exact hx.1 e he

theorem sectorSelect_spec (w : W) (mr : Bool) (s : Nat) (hi : Inv w) :
    Inv (sectorSelect w mr s).1 ∧ (∀ v, (sectorSelect w mr s).2 = .ok v → (sectorSelect w mr s).1.cur = some s) := by
  unfold sectorSelect
  split
  · next h => exact ⟨hi, fun _ _ => h⟩
  · have ht := transceive_spec 3 w mr .ss1 .timeout rfl hi (by intro _; trivial)
    split
    · next w1 e heq =>
      have : w1 = (transceive 3 w mr .ss1 .timeout).1 := by rw [heq]
      subst this
      exact ⟨ht.1, fun v hv => by simp at hv⟩
    · next w1 rsp heq =>
      have hw : w1 = (transceive 3 w mr .ss1 .timeout).1 := by rw [heq]
      split
      · next hr =>
        subst hr
        have hp := ss1_ack_pend 3 w mr .timeout w1 heq
        exact selectP2_spec w1 mr s (hw ▸ ht.1) hp
      · subst hw
        exact ⟨ht.1, fun v hv => by simp at hv⟩

theorem read_spec (w : W) (mr : Bool) (p : Nat) (hi : Inv w) (hp : mr = true → w.cur = some (p / 256)) :
    Inv (read w mr p).1 := by
  have ht := transceive_spec 3 w mr (.read p) .timeout rfl hi (by intro hm; exact hp hm)
  unfold read
  split
  · next w1 e heq =>
    have : w1 = (transceive 3 w mr (.read p) .timeout).1 := by rw [heq]
    subst this
    exact ht.1
  · next w1 d heq =>
    have : w1 = (transceive 3 w mr (.read p) .timeout).1 := by rw [heq]
    subst this
    split
    · exact ⟨fun _ => Or.inr rfl, ht.1.2⟩
    · split
      · exact ht.1
      · exact ht.1

theorem write_spec (w : W) (mr : Bool) (p : Nat) (d : Bytes) (hi : Inv w) (hp : mr = true → w.cur = some (p / 256)) :
    Inv (write w mr p d).1 ∧ (write w mr p d).1.cur = w.cur := by
  unfold write
  split
  · exact ⟨hi, rfl⟩
  · have ht := transceive_spec 3 w mr (.write p d) .timeout rfl hi (by intro hm; exact hp hm)
    split
    · next w1 e heq =>
      have : w1 = (transceive 3 w mr (.write p d) .timeout).1 := by rw [heq]
      subst this
      exact ⟨ht.1, ht.2.1⟩
    · next w1 rsp heq =>
      have : w1 = (transceive 3 w mr (.write p d) .timeout).1 := by rw [heq]
      subst this
      split
      · exact ⟨ht.1, ht.2.1⟩
      · split <;> exact ⟨ht.1, ht.2.1⟩

theorem readFrom_inv (fuel : Nat) (w : W) (m : MR) (index stop : Nat) (hi : Inv w) :
    Inv (readFrom fuel w m index stop).1.1 := by
  induction fuel generalizing w m index with
  | zero => exact hi
  | succ fuel ih =>
    unfold readFrom
    split
    · have hs := sectorSelect_spec w true (index / 1024) hi
      split
      · next w1 e heq =>
        have : w1 = (sectorSelect w true (index / 1024)).1 := by rw [heq]
        subst this
        exact hs.1
      · next w1 v heq =>
        have hw : w1 = (sectorSelect w true (index / 1024)).1 := by rw [heq]
        have hc : w1.cur = some (index / 1024) := by
          subst hw
          exact hs.2 v (by rw [heq])
        have hr := read_spec w1 true (index / 4) (hw ▸ hs.1) (fun _ => by rw [hc]; congr 1; omega)
        split
        · next w2 e heq2 =>
          have : w2 = (read w1 true (index / 4)).1 := by rw [heq2]
          subst this
          exact hr
        · next w2 d heq2 =>
          have : w2 = (read w1 true (index / 4)).1 := by rw [heq2]
          subst this
          exact ih _ _ _ hr
    · exact hi

theorem writeUnits_inv (is : List Nat) (w : W) (m : MR) (hi : Inv w) : Inv (writeUnits is w m).1.1 := by
  induction is generalizing w m with
  | nil => exact hi
  | cons i is ih =>
    unfold writeUnits
    split
    · have hs := sectorSelect_spec w true (i / 1024) hi
      split
      · next w1 e heq =>
        have : w1 = (sectorSelect w true (i / 1024)).1 := by rw [heq]
        subst this
        exact hs.1
      · next w1 v heq =>
        have hw : w1 = (sectorSelect w true (i / 1024)).1 := by rw [heq]
        have hc : w1.cur = some (i / 1024) := by
          subst hw
          exact hs.2 v (by rw [heq])
        have hr := write_spec w1 true (i / 4) (sliceN m.cache i (i + 4)) (hw ▸ hs.1) (fun _ => by rw [hc]; congr 1; omega)
        split
        · next w2 e heq2 =>
          have : w2 = (write w1 true (i / 4) (sliceN m.cache i (i + 4))).1 := by rw [heq2]
          subst this
          exact hr.1
        · next w2 u heq2 =>
          have : w2 = (write w1 true (i / 4) (sliceN m.cache i (i + 4))).1 := by rw [heq2]
          subst this
          exact ih _ _ hr.1
    · exact ih w m hi

theorem getItem_inv (w : W) (m : MR) (a : Nat) (hi : Inv w) : Inv (getItem w m a).1.1 := by
  unfold getItem
  split
  · have := readFrom_inv (((a + 1) / 16) + 1) w m (m.fromTag.length / 16 * 16) (a + 1) hi
    unfold readFromTag
    split
    · next s e heq => rw [heq] at this; exact this
    · next w1 m1 u heq => rw [heq] at this; exact this
  · exact hi

theorem setItem_inv (w : W) (m : MR) (a v : Nat) (hi : Inv w) : Inv (setItem w m a v).1.1 := by
  have := getItem_inv w m a hi
  unfold setItem
  split
  · next s e heq => rw [heq] at this; exact this
  · next w1 m1 u heq => rw [heq] at this; exact this

theorem step_inv (s : W × MR) (o : Op) (hi : Inv s.1) : Inv (step s o).1.1 := by
  cases o with
  | get a => have := getItem_inv s.1 s.2 a hi; simp only [step]; split <;> simp_all
  | set a v => have := setItem_inv s.1 s.2 a v hi; simp only [step]; split <;> simp_all
  | sync =>
    have := writeUnits_inv ((List.range ((s.2.fromTag.length + 3) / 4)).map (· * 4)) s.1 s.2 hi
    simp only [step, synchronize]; split <;> simp_all
  | sel n => have := (sectorSelect_spec s.1 false n hi).1; simp only [step]; split <;> simp_all
  | rd p => have := read_spec s.1 false p hi (by simp); simp only [step]; split <;> simp_all
  | wr p d => have := (write_spec s.1 false p d hi (by simp)).1; simp only [step]; split <;> simp_all

theorem run_inv (ops : List Op) (s : W × MR) (hi : Inv s.1) : Inv (run s ops).1.1 := by
  induction ops generalizing s with
  | nil => exact hi
  | cons o os ih => exact ih _ (step_inv s o hi)

end NfcVerif.SectC03
