import NfcVerif.Model.NfcDep
/-!
# NFC-DEP: proofs (property C04)

* a Hoare-style specification `Spec` of one command/response transfer (`xfer`)
  and its propagation through every loop of the Initiator
  (`request_attention`, `request_retransmission`, `send_dep_req_recv_dep_res`,
  the RTOX loop, the two loops of `exchange`, the application, `deactivate`);
* invariants of the Target machine `tRx`: stored and emitted responses fit the
  announced length and are never timeout extensions;
* instances: frame bound and error kinds of the composed system.
-/
namespace NfcVerif.NfcDep
open NfcVerif
variable {σ : Type}

@[simp] theorem next_peer (a : Air σ) : a.next.2.peer = a.peer := by unfold Air.next; split <;> rfl
@[simp] theorem next_wire (a : Air σ) : a.next.2.wire = a.wire := by unfold Air.next; split <;> rfl
@[simp] theorem next_expired (a : Air σ) : a.next.2.expired = a.expired := by unfold Air.next; split <;> rfl

def AirInv (Qp : σ → Prop) (Gp : Pdu → Prop) (Bi : Nat) (a : Air σ) : Prop :=
  Qp a.peer ∧ ∀ e ∈ a.wire, (e.req = true → e.pdu.tlen ≤ Bi) ∧ (e.req = false → Gp e.pdu)

theorem xfer_step (P : Peer σ) (Qp : σ → Prop) (Gp : Pdu → Prop) (Bi : Nat) (hB : Bi ≤ 254)
    (hrx : ∀ s rx, Qp s → Qp (P.rx s rx).1 ∧ ∀ p, (P.rx s rx).2 = some p → Gp p)
    (a : Air σ) (req : Pdu) (hq : AirInv Qp Gp Bi a) (hr : req.tlen ≤ Bi) :
    AirInv Qp Gp Bi (xfer P a req).1 ∧ (∀ e, (xfer P a req).2 = .error e → isComm e = true)
      ∧ (∀ res, (xfer P a req).2 = .ok res → Gp res ∧ res.kind = req.kind) := by
  obtain ⟨hp, hw⟩ := hq
  have hw1 : ∀ f, ∀ e ∈ (⟨true, req, f⟩ :: a.wire : List Wire),
      (e.req = true → e.pdu.tlen ≤ Bi) ∧ (e.req = false → Gp e.pdu) := by
    intro f e he
    rcases List.mem_cons.mp he with h | h
    · subst h; exact ⟨fun _ => hr, fun h => by cases h⟩
    · exact hw e h
  unfold xfer
  have hn : ¬ (req.tlen + 1 > 255) := by omega
  simp only [hn, if_false, next_peer]
  split
  · exact ⟨⟨hp, hw1 _⟩, (fun e h => by cases h; rfl), (fun r h => by cases h)⟩
  · exact ⟨⟨hp, hw1 _⟩, (fun e h => by cases h; rfl), (fun r h => by cases h)⟩
  · exact ⟨⟨(hrx a.peer .corrupt hp).1, hw1 _⟩, (fun e h => by cases h; rfl), (fun r h => by cases h)⟩
  · have hx := hrx a.peer (.frame req) hp
    generalize P.rx a.peer (.frame req) = r at hx ⊢
    obtain ⟨s', o⟩ := r
    cases o with
    | none =>
      dsimp only
      exact ⟨⟨hx.1, hw1 _⟩, (fun e h => by cases h; rfl), (fun r h => by cases h)⟩
    | some res =>
      have hg := hx.2 res rfl
      have hw2 : ∀ f f2, ∀ e ∈ (⟨false, res, f2⟩ :: ⟨true, req, f⟩ :: a.wire : List Wire),
          (e.req = true → e.pdu.tlen ≤ Bi) ∧ (e.req = false → Gp e.pdu) := by
        intro f f2 e he
        rcases List.mem_cons.mp he with h | h
        · subst h; exact ⟨(fun h => by cases h), (fun _ => hg)⟩
        · exact hw1 f e h
      dsimp only
      split
      · exact ⟨⟨hx.1, hw2 _ _⟩, (fun e h => by cases h; rfl), (fun r h => by cases h)⟩
      · exact ⟨⟨hx.1, hw2 _ _⟩, (fun e h => by cases h; rfl), (fun r h => by cases h)⟩
      · exact ⟨⟨hx.1, hw2 _ _⟩, (fun e h => by cases h; rfl), (fun r h => by cases h)⟩
      · split
        · exact ⟨⟨hx.1, hw2 _ _⟩, (fun e h => by cases h; rfl), (fun r h => by cases h)⟩
        · rename_i hk
          refine ⟨⟨hx.1, hw2 _ _⟩, (fun e h => by cases h), (fun r h => ?_)⟩
          cases h
          exact ⟨hg, by simpa using hk⟩

def SErr (e : Exc) : Prop := isComm e = true ∨ e = .outOfFuel

structure Spec {σ : Type} (P : Peer σ) (c : Cfg) where
  Q : Air σ → Prop
  R : Pdu → Prop
  G : Pdu → Prop
  step : ∀ a req, Q a → R req → Q (xfer P a req).1 ∧ (∀ e, (xfer P a req).2 = .error e → isComm e = true)
    ∧ (∀ res, (xfer P a req).2 = .ok res → G res ∧ res.kind = req.kind)
  reset : ∀ a, Q a → Q { a with expired := false }
  atn : R (atnPdu c)
  nak : ∀ pni, R (.dep fNAK pni c.idid c.inad [])
  tox : ∀ r, R (.dep fTOX 0 c.idid c.inad [r])
  ack : ∀ pni, R (.dep fACK pni c.idid c.inad [])
  inf : ∀ fmt pni data, data.length ≤ c.imiu → R (.dep fmt pni c.idid c.inad data)

variable {σ : Type} {P : Peer σ} {c : Cfg}

theorem atn_kind : (atnPdu c).kind = .dep := by unfold atnPdu; split <;> rfl

theorem reqAttention_spec (S : Spec P c) : ∀ n a, S.Q a →
    S.Q (reqAttention P c n a).1 ∧ Safe SErr (reqAttention P c n a).2
  | 0, a, h => by unfold reqAttention; exact ⟨h, Safe.throw (Or.inl rfl)⟩
  | n+1, a, h => by
    unfold reqAttention
    split
    · exact ⟨h, Safe.throw (Or.inl rfl)⟩
    · have hs := S.step a (atnPdu c) h S.atn
      generalize xfer P a (atnPdu c) = r at hs ⊢
      obtain ⟨a', res⟩ := r
      obtain ⟨hq, he, hk⟩ := hs
      cases res with
      | error e =>
        have := he e rfl
        simp only [this, if_true]
        exact reqAttention_spec S n _ hq
      | ok p =>
        have hkind := (hk p rfl).2
        rw [atn_kind] at hkind
        cases p with
        | dep fmt pni did nad data =>
          dsimp only
          split
          · exact ⟨hq, Safe.throw (Or.inl rfl)⟩
          · split
            · exact ⟨hq, Safe.throw (Or.inl rfl)⟩
            · exact ⟨hq, Safe.ok _⟩
        | _ => simp [Pdu.kind] at hkind

def Post (S : Spec P c) (r : Air σ × Py Pdu) : Prop :=
  S.Q r.1 ∧ Safe SErr r.2 ∧ ∀ res, r.2 = .ok res → S.G res ∧ res.kind = .dep

theorem Post.err (S : Spec P c) {a : Air σ} {e : Exc} (hq : S.Q a) (he : SErr e) : Post S (a, .error e) :=
  ⟨hq, Safe.throw he, fun _ h => by cases h⟩

theorem Post.ok (S : Spec P c) {a : Air σ} {res : Pdu} (hq : S.Q a) (hg : S.G res) (hk : res.kind = .dep) :
    Post S (a, .ok res) :=
  ⟨hq, Safe.ok _, fun _ h => by cases h; exact ⟨hg, hk⟩⟩

theorem comm_protocol : SErr .protocol := Or.inl rfl
theorem comm_timeout : SErr .timeout := Or.inl rfl

theorem reqRetrans_spec (S : Spec P c) (pni : Nat) (ch : Bool) : ∀ n a, S.Q a → Post S (reqRetrans P c pni ch n a)
  | 0, a, h => by unfold reqRetrans; exact Post.err S h comm_protocol
  | n+1, a, h => by
    unfold reqRetrans
    split
    · exact Post.err S h comm_timeout
    · have hs := S.step a _ h (S.nak pni)
      generalize xfer P a (.dep fNAK pni c.idid c.inad []) = r at hs ⊢
      obtain ⟨a', res⟩ := r
      obtain ⟨hq, he, hk⟩ := hs
      cases res with
      | error e =>
        have := he e rfl
        simp only [this, if_true]
        exact reqRetrans_spec S pni ch n _ hq
      | ok p =>
        have hg := (hk p rfl).1
        have hkind := (hk p rfl).2
        cases p with
        | dep fmt rp did nad data =>
          dsimp only
          split
          · exact Post.err S hq comm_protocol
          · split
            · exact Post.ok S hq hg rfl
            · exact Post.err S hq comm_protocol
        | _ => simp [Pdu.kind] at hkind

theorem nakCheck_post (S : Spec P c) {a : Air σ} {res : Pdu} (hq : S.Q a) (hg : S.G res) (hk : res.kind = .dep) :
    Post S (nakCheck a res) := by
  cases res with
  | dep fmt rp did nad data =>
    unfold nakCheck; dsimp only
    split
    · exact Post.err S hq comm_protocol
    · exact Post.ok S hq hg rfl
  | _ => simp [Pdu.kind] at hk

theorem sendDepLoop_spec (S : Spec P c) (pni : Nat) (req : Pdu) (hR : S.R req) (hkr : req.kind = .dep) :
    ∀ fuel a, S.Q a → Post S (sendDepLoop P c pni req fuel a)
  | 0, a, h => by unfold sendDepLoop; exact Post.err S h (Or.inr rfl)
  | fuel+1, a, h => by
    unfold sendDepLoop
    split
    · exact Post.err S h comm_timeout
    · have hs := S.step a req h hR
      generalize xfer P a req = r at hs ⊢
      obtain ⟨a1, res⟩ := r
      obtain ⟨hq, he, hk⟩ := hs
      cases res with
      | ok p =>
        dsimp only
        exact nakCheck_post S hq (hk p rfl).1 ((hk p rfl).2.trans hkr)
      | error e =>
        have hc := he e rfl
        cases e <;> try (exact Post.err S hq (Or.inl hc))
        · -- timeout
          dsimp only
          have ha := reqAttention_spec S 2 a1 hq
          generalize reqAttention P c 2 a1 = r2 at ha ⊢
          obtain ⟨a2, u⟩ := r2
          cases u with
          | ok _ => exact sendDepLoop_spec S pni req hR hkr fuel a2 ha.1
          | error e2 => exact Post.err S ha.1 (ha.2 e2 rfl)
        · -- transmission
          dsimp only
          have ha := reqRetrans_spec S pni (decide (req.fmt? = some fMORE)) 2 a1 hq
          generalize reqRetrans P c pni (decide (req.fmt? = some fMORE)) 2 a1 = r2 at ha ⊢
          obtain ⟨a2, u⟩ := r2
          cases u with
          | ok res => exact nakCheck_post S ha.1 (ha.2.2 res rfl).1 (ha.2.2 res rfl).2
          | error e2 => exact Post.err S ha.1 (ha.2.1 e2 rfl)

theorem sendDep_spec (S : Spec P c) (fuel pni : Nat) (a : Air σ) (req : Pdu) (hq : S.Q a) (hR : S.R req)
    (hkr : req.kind = .dep) : Post S (sendDep P c fuel pni a req) :=
  sendDepLoop_spec S pni req hR hkr fuel _ (S.reset a hq)

theorem rtoxLoop_spec (S : Spec P c) (fuel pni : Nat) : ∀ i a res, S.Q a → S.G res → res.fmt? = some fTOX →
    Post S (rtoxLoop P c fuel pni i a res)
  | 0, a, res, h, _, _ => by unfold rtoxLoop; exact Post.err S h comm_timeout
  | i+1, a, res, h, hg, hf => by
    unfold rtoxLoop
    cases res with
    | dep fmt rp did nad data =>
      dsimp only
      simp only [Pdu.fmt?, Option.some.injEq] at hf
      subst hf
      cases data with
      | nil => exact Post.err S h comm_protocol
      | cons rtox rest =>
        dsimp only
        split
        · exact Post.err S h comm_protocol
        · have hs := sendDep_spec S fuel pni a (.dep fTOX 0 c.idid c.inad [rtox]) h (S.tox rtox) rfl
          generalize sendDep P c fuel pni a (.dep fTOX 0 c.idid c.inad [rtox]) = r at hs ⊢
          obtain ⟨a', u⟩ := r
          cases u with
          | error e => exact Post.err S hs.1 (hs.2.1 e rfl)
          | ok res' =>
            dsimp only
            split
            · exact Post.ok S hs.1 (hs.2.2 res' rfl).1 (hs.2.2 res' rfl).2
            · rename_i hne
              exact rtoxLoop_spec S fuel pni i a' res' hs.1 (hs.2.2 res' rfl).1 (by simpa using hne)
    | _ => simp [Pdu.fmt?] at hf

theorem transact_spec (S : Spec P c) (fuel pni : Nat) (a : Air σ) (req : Pdu) (hq : S.Q a) (hR : S.R req)
    (hkr : req.kind = .dep) : Post S (transact P c fuel pni a req) := by
  unfold transact
  have hs := sendDep_spec S fuel pni a req hq hR hkr
  generalize sendDep P c fuel pni a req = r at hs ⊢
  obtain ⟨a', u⟩ := r
  cases u with
  | error e => exact Post.err S hs.1 (hs.2.1 e rfl)
  | ok res =>
    dsimp only
    split
    · rename_i hf
      exact rtoxLoop_spec S fuel pni 3 a' res hs.1 (hs.2.2 res rfl).1 hf
    · exact Post.ok S hs.1 (hs.2.2 res rfl).1 (hs.2.2 res rfl).2

/-- result of the two loops of `exchange`: invariant kept, only communication errors -/
def Post3 {α : Type} (S : Spec P c) (r : Air σ × Nat × Py α) : Prop := S.Q r.1 ∧ Safe SErr r.2.2

theorem sendLoop_spec (S : Spec P c) (fuel : Nat) : ∀ n a pni sd, S.Q a →
    Post3 S (sendLoop P c fuel n a pni sd) ∧ ∀ res, (sendLoop P c fuel n a pni sd).2.2 = .ok res → res.kind = .dep
  | 0, a, pni, sd, h => by unfold sendLoop; exact ⟨⟨h, Safe.throw (Or.inr rfl)⟩, fun _ h => by cases h⟩
  | n+1, a, pni, sd, h => by
    unfold sendLoop
    dsimp only
    have hs := transact_spec S fuel pni a
      (.dep (if sd.drop c.imiu ≠ [] then fMORE else fINF) pni c.idid c.inad (sd.take c.imiu)) h
      (S.inf _ _ _ (by simp [List.length_take]; omega)) rfl
    generalize transact P c fuel pni a _ = r at hs ⊢
    obtain ⟨a', u⟩ := r
    cases u with
    | error e => exact ⟨⟨hs.1, Safe.throw (hs.2.1 e rfl)⟩, fun _ h => by cases h⟩
    | ok res =>
      have hk := (hs.2.2 res rfl).2
      cases res with
      | dep fmt rp did nad data =>
        dsimp only
        split
        · exact ⟨⟨hs.1, Safe.throw comm_protocol⟩, fun _ h => by cases h⟩
        · split
          · exact ⟨⟨hs.1, Safe.throw comm_protocol⟩, fun _ h => by cases h⟩
          · split
            · exact sendLoop_spec S fuel n a' _ _ hs.1
            · exact ⟨⟨hs.1, Safe.ok _⟩, fun _ h => by cases h; rfl⟩
      | _ => simp [Pdu.kind] at hk

theorem recvLoop_spec (S : Spec P c) (fuel : Nat) : ∀ n a pni acc fmt, S.Q a →
    Post3 S (recvLoop P c fuel n a pni acc fmt)
  | 0, a, pni, acc, fmt, h => by unfold recvLoop; exact ⟨h, Safe.throw (Or.inr rfl)⟩
  | n+1, a, pni, acc, fmt, h => by
    unfold recvLoop
    split
    · exact ⟨h, Safe.ok _⟩
    · have hs := transact_spec S fuel pni a (.dep fACK pni c.idid c.inad []) h (S.ack pni) rfl
      generalize transact P c fuel pni a _ = r at hs ⊢
      obtain ⟨a', u⟩ := r
      cases u with
      | error e => exact ⟨hs.1, Safe.throw (hs.2.1 e rfl)⟩
      | ok res =>
        have hk := (hs.2.2 res rfl).2
        cases res with
        | dep fmt' rp did nad data =>
          dsimp only
          split
          · exact ⟨hs.1, Safe.throw comm_protocol⟩
          · split
            · exact ⟨hs.1, Safe.throw comm_protocol⟩
            · exact recvLoop_spec S fuel n a' _ _ _ hs.1
        | _ => simp [Pdu.kind] at hk

theorem exchange_spec (S : Spec P c) (fuel : Nat) (a : Air σ) (pni : Nat) (p : Bytes) (hq : S.Q a) :
    S.Q (exchange P c fuel a pni p).1 ∧ (p ≠ [] → Safe SErr (exchange P c fuel a pni p).2.2) := by
  unfold exchange
  split
  · rename_i hp; exact ⟨hq, fun h => absurd hp h⟩
  refine (fun (h : Post3 S _) => ⟨h.1, fun _ => h.2⟩) ?_
  have hs := sendLoop_spec S fuel fuel a pni p hq
  generalize sendLoop P c fuel fuel a pni p = r at hs ⊢
  obtain ⟨a1, pni1, u⟩ := r
  cases u with
  | error e => exact ⟨hs.1.1, Safe.throw (hs.1.2 e rfl)⟩
  | ok res =>
    have hk := hs.2 res rfl
    cases res with
    | dep fmt rp did nad data =>
      dsimp only
      split
      · exact ⟨hs.1.1, Safe.throw comm_protocol⟩
      · exact recvLoop_spec S fuel fuel a1 pni1 data fmt hs.1.1
    | _ => simp [Pdu.kind] at hk

theorem iApp_spec (S : Spec P c) (fuel : Nat) : ∀ (pi : List Bytes) a pni got, S.Q a →
    S.Q (iApp P c fuel pi a pni got).1 ∧
      ((∀ p ∈ pi, p ≠ []) → ∀ e, (iApp P c fuel pi a pni got).2.2 = some e → SErr e)
  | [], a, pni, got, h => by unfold iApp; exact ⟨h, fun _ _ h => by cases h⟩
  | p :: ps, a, pni, got, h => by
    unfold iApp
    have hs := exchange_spec S fuel a pni p h
    generalize exchange P c fuel a pni p = r at hs ⊢
    obtain ⟨a', pni', u⟩ := r
    cases u with
    | error e => exact ⟨hs.1, fun hp e' h => by cases h; exact hs.2 (hp p (by simp)) e rfl⟩
    | ok d =>
      have ih := iApp_spec S fuel ps a' pni' (got ++ [d]) hs.1
      exact ⟨ih.1, fun hp => ih.2 (fun q hq => hp q (by simp [hq]))⟩

theorem deactivate_spec (S : Spec P c) (rel : Bool) (a : Air σ) (hq : S.Q a)
    (hR : S.R (if rel then .rls c.idid else .dsl c.idid)) :
    S.Q (deactivate P c rel a).1 ∧ (deactivate P c rel a).2 = none := by
  unfold deactivate
  have hs := S.step a _ hq hR
  generalize xfer P a _ = r at hs ⊢
  obtain ⟨a', u⟩ := r
  cases u with
  | error e => simp only [hs.2.1 e rfl, if_true, and_true]; exact hs.1
  | ok res => exact ⟨hs.1, rfl⟩

theorem optByte_length (o : Option Nat) : (optByte o).length = flag o 1 := by
  cases o <;> rfl

theorem tlen_dep (fmt pni : Nat) (did nad : Option Nat) (data : Bytes) :
    (Pdu.dep fmt pni did nad data).tlen = 3 + flag did 1 + flag nad 1 + data.length := by
  simp [Pdu.tlen, encodePdu, optByte_length]; omega

theorem tlen_dsl (did : Option Nat) : (Pdu.dsl did).tlen = 2 + flag did 1 := by
  simp [Pdu.tlen, encodePdu, optByte_length]; omega

theorem tlen_rls (did : Option Nat) : (Pdu.rls did).tlen = 2 + flag did 1 := by
  simp [Pdu.tlen, encodePdu, optByte_length]; omega

theorem flag_le (o : Option Nat) : flag o 1 ≤ 1 := by unfold flag; split <;> omega

/-- what the Target guarantees about its stored response -/
def TInv (Bt : Nat) (t : TState) : Prop := ∀ p, t.depRes = some p → p.tlen ≤ Bt ∧ p.fmt? ≠ some fTOX

def TOut (Bt : Nat) (p : Pdu) : Prop := p.tlen ≤ Bt ∧ p.fmt? ≠ some fTOX

theorem tSendChunk_inv (c : Cfg) (Bt : Nat) (hm : c.tmiu + 3 + flag c.tdid 1 ≤ Bt) (t : TState) (pni : Nat) (data : Bytes) :
    TInv Bt (tSendChunk c t pni data).1 ∧ ∀ p, (tSendChunk c t pni data).2 = some p → TOut Bt p := by
  have hl : (Pdu.dep (if data.length > c.tmiu then fMORE else fINF) pni c.tdid none (data.take c.tmiu)).tlen ≤ Bt := by
    rw [tlen_dep]; simp [flag, List.length_take]; simp [flag] at hm; omega
  have hf : (Pdu.dep (if data.length > c.tmiu then fMORE else fINF) pni c.tdid none (data.take c.tmiu)).fmt? ≠ some fTOX := by
    simp [Pdu.fmt?]; split <;> decide
  unfold tSendChunk
  dsimp only
  generalize (Pdu.dep (if data.length > c.tmiu then fMORE else fINF) pni c.tdid none (data.take c.tmiu)) = res at hl hf ⊢
  split
  · refine ⟨?_, fun p h => by simp [TState.die] at h⟩
    intro p h; simp [TState.die] at h; subst h; exact ⟨hl, hf⟩
  · refine ⟨?_, ?_⟩
    · intro p h; simp at h; subst h; exact ⟨hl, hf⟩
    · intro p h; simp at h; subst h; exact ⟨hl, hf⟩

theorem tRecv_inv (c : Cfg) (Bt : Nat) (hm : c.tmiu + 3 + flag c.tdid 1 ≤ Bt) (t : TState) (pni : Nat) (acc : Bytes)
    (fmt : Nat) (data : Bytes) (ht : TInv Bt t) :
    TInv Bt (tRecv c t pni acc fmt data).1 ∧ ∀ p, (tRecv c t pni acc fmt data).2 = some p → TOut Bt p := by
  have hack : TOut Bt (Pdu.dep fACK pni c.tdid none []) := by
    refine ⟨?_, by simp [Pdu.fmt?]; decide⟩
    rw [tlen_dep]; simp [flag]; simp [flag] at hm; omega
  unfold tRecv
  split
  · refine ⟨?_, ?_⟩
    · intro p h; simp at h; subst h; exact hack
    · intro p h; simp at h; subst h; exact hack
  · dsimp only
    split
    · refine ⟨?_, fun p h => by simp at h⟩
      intro p h; exact ht p (by simpa using h)
    · split
      · refine ⟨?_, fun p h => by simp [TState.die] at h⟩
        intro p h; exact ht p (by simpa [TState.die] using h)
      · exact tSendChunk_inv c Bt hm _ _ _

theorem tAccept_inv (c : Cfg) (Bt : Nat) (hm : c.tmiu + 3 + flag c.tdid 1 ≤ Bt) (t : TState) (fmt rpni : Nat) (data : Bytes)
    (ht : TInv Bt t) :
    TInv Bt (tAccept c t fmt rpni data).1 ∧ ∀ p, (tAccept c t fmt rpni data).2 = some p → TOut Bt p := by
  unfold tAccept
  split
  · exact ⟨ht, fun p h => by simp at h⟩
  · exact tRecv_inv c Bt hm t _ _ _ _ ht
  · dsimp only
    split
    · exact ⟨fun p h => ht p (by simpa [TState.die] using h), fun p h => by simp [TState.die] at h⟩
    · split
      · exact ⟨fun p h => ht p (by simpa [TState.die] using h), fun p h => by simp [TState.die] at h⟩
      · split
        · exact tSendChunk_inv c Bt hm _ _ _
        · exact tRecv_inv c Bt hm t _ _ _ _ ht
  · dsimp only
    split
    · exact ⟨fun p h => ht p (by simpa [TState.die] using h), fun p h => by simp [TState.die] at h⟩
    · exact tRecv_inv c Bt hm t _ _ _ _ ht

theorem tRxActive_inv (c : Cfg) (Bt : Nat) (hm : c.tmiu + 3 + flag c.tdid 1 ≤ Bt) (t : TState) (req : Pdu)
    (ht : TInv Bt t) :
    TInv Bt (tRx.tRxActive c t req).1 ∧ ∀ p, (tRx.tRxActive c t req).2 = some p → TOut Bt p := by
  have h3 : 3 + flag c.tdid 1 ≤ Bt := by omega
  unfold tRx.tRxActive
  split
  · exact ⟨ht, fun p h => by simp at h⟩
  · split
    · split
      · refine ⟨fun p h => ht p (by simpa using h), fun p h => ?_⟩
        simp at h; subst h; exact ⟨by rw [tlen_dsl]; omega, by simp [Pdu.fmt?]⟩
      · refine ⟨fun p h => ht p (by simpa using h), fun p h => ?_⟩
        simp at h; subst h; exact ⟨by rw [tlen_dsl]; omega, by simp [Pdu.fmt?]⟩
    · split
      · refine ⟨fun p h => ht p (by simpa using h), fun p h => ?_⟩
        simp at h; subst h; exact ⟨by rw [tlen_rls]; omega, by simp [Pdu.fmt?]⟩
      · refine ⟨fun p h => ht p (by simpa using h), fun p h => ?_⟩
        simp at h; subst h; exact ⟨by rw [tlen_rls]; omega, by simp [Pdu.fmt?]⟩
    · split
      · refine ⟨ht, fun p h => ?_⟩
        simp at h; subst h
        exact ⟨by rw [tlen_dep]; simp [flag]; simp [flag] at h3; omega, by simp [Pdu.fmt?]; decide⟩
      · split
        · exact ⟨ht, fun p h => ht p h⟩
        · split
          · split
            · exact ⟨ht, fun p h => ht p h⟩
            · exact tAccept_inv c Bt hm t _ _ _ ht
          · split
            · exact ⟨ht, fun p h => ht p h⟩
            · exact tAccept_inv c Bt hm t _ _ _ ht
    · exact ⟨ht, fun p h => by simp at h⟩

theorem tRx_inv (c : Cfg) (Bt : Nat) (hm : c.tmiu + 3 + flag c.tdid 1 ≤ Bt) (t : TState) (rx : Rx) (ht : TInv Bt t) :
    TInv Bt (tRx c t rx).1 ∧ ∀ p, (tRx c t rx).2 = some p → TOut Bt p := by
  unfold tRx
  split
  · exact ⟨ht, fun p h => by simp at h⟩
  · split
    · exact ⟨ht, fun p h => by simp at h⟩
    · split
      · exact tRxActive_inv c Bt hm _ _ (fun p h => ht p (by simpa using h))
      · exact ⟨ht, fun p h => by simp at h⟩
      · exact tRxActive_inv c Bt hm _ _ ht

theorem lrTable_bounds (i : Nat) : 64 ≤ lrTable i ∧ lrTable i ≤ 254 := by
  unfold lrTable; split <;> omega

/-- `Spec` from an invariant of the peer and a bound on the Initiator's frames -/
def mkSpec (P : Peer σ) (c : Cfg) (Qp : σ → Prop) (Gp : Pdu → Prop) (Bi : Nat) (hB : Bi ≤ 254) (h6 : 6 ≤ Bi)
    (hm : c.imiu + 3 + flag c.idid 1 + flag c.inad 1 ≤ Bi)
    (hrx : ∀ s rx, Qp s → Qp (P.rx s rx).1 ∧ ∀ p, (P.rx s rx).2 = some p → Gp p) : Spec P c where
  Q := AirInv Qp Gp Bi
  R := fun req => req.tlen ≤ Bi
  G := Gp
  step := fun a req hq hr => xfer_step P Qp Gp Bi hB hrx a req hq hr
  reset := fun _ h => h
  atn := by
    have := flag_le c.idid
    unfold atnPdu; split <;> rw [tlen_dep] <;> simp [flag] <;> simp [flag] at this <;> omega
  nak := fun pni => by
    have := flag_le c.idid; have := flag_le c.inad
    rw [tlen_dep]; simp; omega
  tox := fun r => by
    have := flag_le c.idid; have := flag_le c.inad
    rw [tlen_dep]; simp; omega
  ack := fun pni => by
    have := flag_le c.idid; have := flag_le c.inad
    rw [tlen_dep]; simp; omega
  inf := fun fmt pni data hd => by rw [tlen_dep]; omega

theorem tox_not_out (Bt pni : Nat) (did nad : Option Nat) : ¬ TOut Bt (.dep fTOX pni did nad []) := by
  intro h; exact h.2 rfl

/-- the composed system: Initiator against the Target machine -/
def targetSpec (c : Cfg) (Bi Bt : Nat) (hB : Bi ≤ 254) (h6 : 6 ≤ Bi)
    (hm : c.imiu + 3 + flag c.idid 1 + flag c.inad 1 ≤ Bi) (ht : c.tmiu + 3 + flag c.tdid 1 ≤ Bt) :
    Spec (targetPeer c) c :=
  mkSpec (targetPeer c) c (TInv Bt) (TOut Bt) Bi hB h6 hm (fun s rx h => tRx_inv c Bt ht s rx h)

theorem init_inv (c : Cfg) (Bi Bt : Nat) (hB : Bi ≤ 254) (h6 : 6 ≤ Bi)
    (hm : c.imiu + 3 + flag c.idid 1 + flag c.inad 1 ≤ Bi) (ht : c.tmiu + 3 + flag c.tdid 1 ≤ Bt)
    (script : List Fault) (pt : List Bytes) :
    (targetSpec c Bi Bt hB h6 hm ht).Q { script := script, peer := TState.init pt, expired := false, wire := [] } :=
  ⟨fun p h => by simp [TState.init] at h, fun e h => by cases h⟩

theorem run_inv (c : Cfg) (Bi Bt : Nat) (hB : Bi ≤ 254) (h6 : 6 ≤ Bi)
    (hm : c.imiu + 3 + flag c.idid 1 + flag c.inad 1 ≤ Bi) (ht : c.tmiu + 3 + flag c.tdid 1 ≤ Bt)
    (fuel : Nat) (script : List Fault) (rel : Nat) (pi pt : List Bytes) :
    (∀ e ∈ (run c fuel script rel pi pt).wire, (e.req = true → e.pdu.tlen ≤ Bi) ∧ (e.req = false → e.pdu.tlen ≤ Bt))
    ∧ ((∀ p ∈ pi, p ≠ []) → ∀ e, (run c fuel script rel pi pt).errI = some e → SErr e)
    ∧ (run c fuel script rel pi pt).errD = none := by
  let S := targetSpec c Bi Bt hB h6 hm ht
  have h0 := init_inv c Bi Bt hB h6 hm ht script pt
  have h1 := iApp_spec S fuel pi _ 0 [] h0
  unfold run
  dsimp only
  generalize iApp (targetPeer c) c fuel pi _ 0 [] = r at h1 ⊢
  obtain ⟨a1, got, err⟩ := r
  dsimp only at h1 ⊢
  split
  · refine ⟨fun e he => ?_, h1.2, rfl⟩
    have := h1.1.2 e (by simpa using he)
    exact ⟨this.1, fun h => (this.2 h).1⟩
  · have hd := deactivate_spec S (rel = 2) a1 h1.1 (by
      show Pdu.tlen _ ≤ Bi
      have := flag_le c.idid
      split <;> simp [tlen_rls, tlen_dsl] <;> omega)
    refine ⟨fun e he => ?_, h1.2, hd.2⟩
    have := hd.1.2 e (by simpa using he)
    exact ⟨this.1, fun h => (this.2 h).1⟩

/-- the only exception `Target.exchange` raises is ProtocolError; the application has non-empty payloads -/
def TErrInv (t : TState) : Prop := (∀ e, t.status = .raised e → e = .protocol) ∧ (∀ p ∈ t.tosend, p ≠ [])

theorem tSendChunk_err (c : Cfg) (hm : c.tmiu + 3 + flag c.tdid 1 ≤ 254) (t : TState) (pni : Nat) (data : Bytes)
    (ht : TErrInv t) : TErrInv (tSendChunk c t pni data).1 := by
  have hl : (Pdu.dep (if data.length > c.tmiu then fMORE else fINF) pni c.tdid none (data.take c.tmiu)).tlen ≤ 254 := by
    rw [tlen_dep]; simp [flag, List.length_take]; simp [flag] at hm; omega
  unfold tSendChunk
  dsimp only
  generalize (Pdu.dep (if data.length > c.tmiu then fMORE else fINF) pni c.tdid none (data.take c.tmiu)) = res at hl ⊢
  split
  · omega
  · exact ⟨fun e h => ht.1 e (by simpa using h), fun p h => ht.2 p (by simpa using h)⟩

theorem tRecv_err (c : Cfg) (hm : c.tmiu + 3 + flag c.tdid 1 ≤ 254) (t : TState) (pni : Nat) (acc : Bytes)
    (fmt : Nat) (data : Bytes) (ht : TErrInv t) : TErrInv (tRecv c t pni acc fmt data).1 := by
  unfold tRecv
  split
  · exact ⟨fun e h => ht.1 e (by simpa using h), fun p h => ht.2 p (by simpa using h)⟩
  · dsimp only
    split
    · exact ⟨fun e h => by simp at h, fun p h => ht.2 p (by simpa using h)⟩
    · rename_i p ps hps
      have hp : p ≠ [] := ht.2 p (by simp [hps])
      simp only [hp, if_false]
      refine tSendChunk_err c hm _ _ _ ⟨fun e h => ht.1 e (by simpa using h), fun q h => ht.2 q ?_⟩
      simp at h; simp [hps, h]

theorem tAccept_err (c : Cfg) (hm : c.tmiu + 3 + flag c.tdid 1 ≤ 254) (t : TState) (fmt rpni : Nat) (data : Bytes)
    (ht : TErrInv t) : TErrInv (tAccept c t fmt rpni data).1 := by
  unfold tAccept
  split
  · exact ht
  · exact tRecv_err c hm t _ _ _ _ ht
  · dsimp only
    split
    · exact ⟨fun e h => by simp [TState.die] at h; exact h.symm, fun p h => ht.2 p (by simpa [TState.die] using h)⟩
    · split
      · exact ⟨fun e h => by simp [TState.die] at h; exact h.symm, fun p h => ht.2 p (by simpa [TState.die] using h)⟩
      · split
        · exact tSendChunk_err c hm _ _ _ ht
        · exact tRecv_err c hm t _ _ _ _ ht
  · dsimp only
    split
    · exact ⟨fun e h => by simp [TState.die] at h; exact h.symm, fun p h => ht.2 p (by simpa [TState.die] using h)⟩
    · exact tRecv_err c hm t _ _ _ _ ht

theorem tRxActive_err (c : Cfg) (hm : c.tmiu + 3 + flag c.tdid 1 ≤ 254) (hf : c.v.f40 = true) (t : TState) (req : Pdu)
    (ht : TErrInv t) : TErrInv (tRx.tRxActive c t req).1 := by
  unfold tRx.tRxActive
  split
  · exact ht
  · split
    · simp only [hf, not_true_eq_false, and_false, if_false]
      exact ⟨fun e h => by simp at h, fun p h => ht.2 p (by simpa using h)⟩
    · simp only [hf, not_true_eq_false, and_false, if_false]
      exact ⟨fun e h => by simp at h, fun p h => ht.2 p (by simpa using h)⟩
    · split
      · exact ht
      · split
        · exact ht
        · split
          · split
            · exact ht
            · exact tAccept_err c hm t _ _ _ ht
          · split
            · exact ht
            · exact tAccept_err c hm t _ _ _ ht
    · exact ht

theorem tRx_err (c : Cfg) (hm : c.tmiu + 3 + flag c.tdid 1 ≤ 254) (hf : c.v.f40 = true) (t : TState) (rx : Rx)
    (ht : TErrInv t) : TErrInv (tRx c t rx).1 := by
  unfold tRx
  split
  · exact ht
  · split
    · exact ht
    · split
      · exact tRxActive_err c hm hf _ _ ⟨fun e h => ht.1 e (by simpa using h), fun p h => ht.2 p (by simpa using h)⟩
      · exact ht
      · exact tRxActive_err c hm hf _ _ ht

def targetSpecE (c : Cfg) (hm : c.imiu + 3 + flag c.idid 1 + flag c.inad 1 ≤ 254)
    (ht : c.tmiu + 3 + flag c.tdid 1 ≤ 254) (hf : c.v.f40 = true) : Spec (targetPeer c) c :=
  mkSpec (targetPeer c) c (fun t => TInv 254 t ∧ TErrInv t) (TOut 254) 254 (by omega) (by omega) hm
    (fun s rx h => ⟨⟨(tRx_inv c 254 ht s rx h.1).1, tRx_err c ht hf s rx h.2⟩, (tRx_inv c 254 ht s rx h.1).2⟩)

theorem run_target_err (c : Cfg) (hm : c.imiu + 3 + flag c.idid 1 + flag c.inad 1 ≤ 254)
    (ht : c.tmiu + 3 + flag c.tdid 1 ≤ 254) (hf : c.v.f40 = true)
    (fuel : Nat) (script : List Fault) (rel : Nat) (pi pt : List Bytes) (hpt : ∀ p ∈ pt, p ≠ []) :
    ∀ e, (run c fuel script rel pi pt).t.status = .raised e → e = .protocol := by
  let S := targetSpecE c hm ht hf
  have h0 : S.Q { script := script, peer := TState.init pt, expired := false, wire := [] } :=
    ⟨⟨fun p h => by simp [TState.init] at h, fun e h => by simp [TState.init] at h, hpt⟩, fun e h => by cases h⟩
  have h1 := iApp_spec S fuel pi _ 0 [] h0
  unfold run
  dsimp only
  generalize iApp (targetPeer c) c fuel pi _ 0 [] = r at h1 ⊢
  obtain ⟨a1, got, err⟩ := r
  dsimp only at h1 ⊢
  split
  · exact h1.1.1.2.1
  · have hd := deactivate_spec S (rel = 2) a1 h1.1 (by
      show Pdu.tlen _ ≤ 254
      have := flag_le c.idid
      split <;> simp [tlen_rls, tlen_dsl] <;> omega)
    exact hd.1.1.2.1

/-- PDUs of the data exchange phase with in-range header fields -/
def Pdu.WF : Pdu → Prop
  | .dep fmt pni _ _ _ => fmt < 16 ∧ pni < 4
  | .dsl _ => True
  | .rls _ => True
  | _ => False

theorem pfb_fields (fmt pni a b : Nat) (_hf : fmt < 16) (hp : pni < 4) (ha : a = 0 ∨ a = 8) (hb : b = 0 ∨ b = 4) :
    (fmt * 16 + a + b + pni) / 16 = fmt ∧ (fmt * 16 + a + b + pni) % 4 = pni ∧
    ((fmt * 16 + a + b + pni) / 8 % 2 = 1 ↔ a = 8) ∧ ((fmt * 16 + a + b + pni) / 4 % 2 = 1 ↔ b = 4) := by
  rcases ha with rfl | rfl <;> rcases hb with rfl | rfl <;> omega

theorem codec_roundtrip (b106 req : Bool) (p : Pdu) (hw : p.WF) (f : Bytes)
    (h : encodeFrame b106 req p = .ok f) : decodeFrame b106 req f = .ok p := by
  unfold encodeFrame at h
  dsimp only at h
  split at h
  · cases h
  · rename_i hlen
    cases h
    have hshort : ¬ ((if b106 then [0xF0] else []) ++ [(encodePdu req p).length + 1] ++ encodePdu req p).length
        < (if b106 then 2 else 1) := by
      cases b106 <;> cases p <;> simp [encodePdu] <;> omega
    unfold decodeFrame
    simp only [hshort, if_false]
    cases p with
    | dep fmt pni did nad data =>
      obtain ⟨hf, hp⟩ := hw
      have hh := pfb_fields fmt pni (flag nad 8) (flag did 4) hf hp
        (by unfold flag; split <;> simp) (by unfold flag; split <;> simp)
      cases b106 <;> cases req <;> cases did <;> cases nad <;>
        simp [decodeFrameAux, encodePdu, optByte, decodeDep, flag] at hh ⊢ <;> simp_all <;> omega
    | dsl did =>
      cases b106 <;> cases req <;> cases did <;> simp [decodeFrameAux, encodePdu, optByte, decodeDsl]
    | rls did =>
      cases b106 <;> cases req <;> cases did <;> simp [decodeFrameAux, encodePdu, optByte, decodeDsl]
    | atr _ => exact absurd hw id
    | psl _ => exact absurd hw id

/-- a retransmitted request (same PNI), a NAK, an ATN or a corrupted frame never changes the Target:
nothing is accepted or delivered twice -/
theorem tRx_idem (c : Cfg) (t : TState) (hl : t.loc ≠ .listen) (fmt pni : Nat) (did nad : Option Nat) (data : Bytes)
    (h : fmt = fATN ∨ fmt = fNAK ∨ (fmt ≠ fTOX ∧ t.pni = some pni)) :
    (tRx c t (.frame (.dep fmt pni did nad data))).1 = t ∧ (tRx c t .corrupt).1 = t := by
  refine ⟨?_, rfl⟩
  unfold tRx
  dsimp only
  split
  · rfl
  · split
    · rename_i hx _; exact absurd hx hl
    · rename_i hx _; exact absurd hx hl
    · unfold tRx.tRxActive
      split
      · rfl
      · dsimp only
        rcases h with h | h | ⟨h1, h2⟩
        · simp [h]
        · simp [h, fNAK, fATN]
        · simp only [h1, h2, if_true, if_false]
          split
          · rfl
          · split <;> rfl
end NfcVerif.NfcDep
