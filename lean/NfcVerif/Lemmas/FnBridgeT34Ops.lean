import NfcVerif.Model.FnT34OpsRef
import NfcVerif.Lemmas.FnBridgeBase
/-!
# Facts about the reference definitions of group T34Ops (`Model/FnT34OpsRef.lean`)

These are the property-relevant statements; `Props/FnBridgeT34Ops.lean` restates them for the regenerated definitions.
-/
namespace NfcVerif.T34OpsRef
open NfcVerif NfcVerif.PyFn

/-! ## polling -/

/-- a polling response to request code 0 that is accepted has exactly IDm and PMm: `polling` returns a pair (C08) -/
theorem pollingRefused_rc0 {n : Nat} (h : pollingRefused 0 n = false) : n = 16 := by
  simpa [pollingRefused, pollingLen] using h

theorem pollingRefused_len {rc : Int} {n : Nat} (h : pollingRefused rc n = false) : n = 16 ∨ (n = 18 ∧ rc ≠ 0) := by
  unfold pollingRefused pollingLen at h
  by_cases h0 : rc = 0 <;> simp [h0] at h <;> omega

/-! ## Read Without Encryption -/

/-- an accepted Read Without Encryption response carries exactly the requested number of blocks (C20, C08) -/
theorem readCmd_blocks {xchg : Int → Bytes → Int → Py Bytes} {n : Nat} {d r : Bytes} {t : Int}
    (h : readCmd xchg n d t = .ok r) : r.length = 16 * n := by
  unfold readCmd at h
  cases hx : xchg 6 d t with
  | error e => simp [hx] at h
  | ok a =>
    simp only [hx] at h
    by_cases hl : a.length = 1 + 16 * n
    · simp only [hl, if_true, Except.ok.injEq] at h
      subst h; rw [List.length_drop]; omega
    · simp [hl] at h

/-- what is returned is the answer of the ONE command without its count octet -/
theorem readCmd_answer {xchg : Int → Bytes → Int → Py Bytes} {n : Nat} {d r : Bytes} {t : Int}
    (h : readCmd xchg n d t = .ok r) : ∃ a, xchg 6 d t = .ok a ∧ r = a.drop 1 := by
  unfold readCmd at h
  cases hx : xchg 6 d t with
  | error e => simp [hx] at h
  | ok a =>
    simp only [hx] at h
    by_cases hl : a.length = 1 + 16 * n
    · simp only [hl, if_true, Except.ok.injEq] at h
      exact ⟨a, rfl, h.symm⟩
    · simp [hl] at h

/-- an answer without data (12 octet frame) is refused with DATA_SIZE_ERROR, not an internal error (C08) -/
theorem readCmd_empty {xchg : Int → Bytes → Int → Py Bytes} {n : Nat} {d : Bytes} {t : Int}
    (h : xchg 6 d t = .ok []) : readCmd xchg n d t = .error (.tagCmd DATA_SIZE_ERROR) := by
  unfold readCmd; simp [h]; omega

/-! ## block count and padding of the Type 3 NDEF write -/

theorem blocksFor_ceil (n : Nat) : n ≤ 16 * blocksFor n ∧ 16 * blocksFor n < n + 16 := by
  unfold blocksFor; omega

/-- the number of data blocks written is ceil(len/16) and stays inside the Nmaxb data blocks (C03, C01) -/
theorem blocksFor_le {n nmaxb : Nat} (h : n ≤ 16 * nmaxb) : blocksFor n ≤ nmaxb := by
  unfold blocksFor; omega

theorem padded_length (d : Bytes) : (padded d).length = 16 * blocksFor d.length := by
  have := blocksFor_ceil d.length
  simp [padded]; omega

/-- no extra block when the length is a multiple of 16 (seed C03-r5m3) -/
theorem padded_exact {d : Bytes} (h : d.length % 16 = 0) : padded d = d := by
  have : 16 * blocksFor d.length - d.length = 0 := by unfold blocksFor; omega
  simp [padded, this]

theorem padded_prefix (d : Bytes) : (padded d).take d.length = d := by simp [padded]

/-- the last block written is block `blocksFor len`: with block 0 the attribute block, inside `0..Nmaxb` -/
theorem writePlan_last {d : Bytes} {nmaxb : Nat} (h : d.length ≤ 16 * nmaxb) : (writePlan d).1 ≤ nmaxb + 1 := by
  have := blocksFor_le h
  simp [writePlan]; omega

/-! ## batches of the block loops -/

theorem mem_starts {last step s : Nat} : s ∈ starts last step ↔ ∃ i, i < (last + step - 2) / step ∧ s = 1 + i * step := by
  simp [starts, eq_comm]

/-- every command starts at a data block in front of `last` -/
theorem starts_bounds {last step s : Nat} (hs : 0 < step) (h : s ∈ starts last step) : 1 ≤ s ∧ s < last := by
  obtain ⟨i, hi, rfl⟩ := mem_starts.mp h
  refine ⟨by omega, ?_⟩
  have h1 : (i + 1) * step ≤ last + step - 2 := by
    have := (Nat.le_div_iff_mul_le hs).mp (Nat.succ_le_of_lt hi)
    simpa using this
  have : (i + 1) * step = i * step + step := by rw [Nat.add_mul, Nat.one_mul]
  omega

/-- every data block in front of `last` lies in the batch of exactly one start: no block is skipped (C01) -/
theorem starts_cover {last step b : Nat} (hs : 0 < step) (h1 : 1 ≤ b) (h2 : b < last) :
    ∃ s ∈ starts last step, s ≤ b ∧ b < s + step := by
  refine ⟨1 + (b - 1) / step * step, mem_starts.mpr ⟨(b - 1) / step, ?_, rfl⟩, ?_, ?_⟩
  · have h3 : (b - 1) / step ≤ (last - 2) / step := Nat.div_le_div_right (by omega)
    have h4 : (last + step - 2) / step = (last - 2) / step + 1 := by
      have : last + step - 2 = (last - 2) + step := by omega
      rw [this, Nat.add_div_right _ hs]
    omega
  · have := Nat.div_mul_le_self (b - 1) step; omega
  · have := Nat.lt_div_mul_add (a := b - 1) hs
    omega

/-! ## emulation -/

/-- the reader asks for at most min(Nbr, 15) blocks per command: the emulation never refuses such a command for its
block count (seed C01-r5m3) -/
theorem reader_batch_not_refused (nbr : Nat) : emuRefuses (min nbr 15) = false := by
  unfold emuRefuses; simp; omega

theorem emuRefuses_15 : emuRefuses 15 = false := by decide

/-- status flag 1 is one bit of an octet, whatever the position in the block list (seed C07-r5m2: no ValueError) -/
theorem statusFlag_byte (i : Nat) : 0 < statusFlag i ∧ statusFlag i < 256 := by
  unfold statusFlag
  have h : i % 8 < 8 := Nat.mod_lt _ (by omega)
  refine ⟨Nat.pow_pos (by omega), ?_⟩
  calc 2 ^ (i % 8) < 2 ^ 8 := Nat.pow_lt_pow_right (by omega) h
    _ = 256 := by decide

/-! ## Type 4 Tag -/

/-- capacity and length field together never exceed the file nor what a 16 bit offset addresses (seed C01-r5m2) -/
theorem capacity_sound (mfs tag : Int) : capacity mfs tag + nlenSize tag ≤ mfs ∧ capacity mfs tag + nlenSize tag ≤ 65536 := by
  unfold capacity; split <;> omega

theorem firstBuf_length (nlen data : Bytes) (m : Nat) : (firstBuf nlen data m).length = nlen.length + data.length := by
  unfold firstBuf; split <;> simp

/-- a single UPDATE BINARY with the final length field is chosen only when NLEN and data fit MLc (seed C02-r5m1);
otherwise the first loop writes a zero length field -/
theorem firstBuf_zero {nlen data : Bytes} {m : Nat} (h : ¬ nlen.length + data.length ≤ m) :
    (firstBuf nlen data m).take nlen.length = List.replicate nlen.length 0 := by
  simp [firstBuf, singleUpdate, h]

theorem firstBuf_single {nlen data : Bytes} {m : Nat} (h : nlen.length + data.length ≤ m) :
    firstBuf nlen data m = nlen ++ data ∧ (firstBuf nlen data m).length ≤ m := by
  simp [firstBuf, singleUpdate, h]

/-- the chunk sent by one UPDATE BINARY is never longer than MLc and the result is its length -/
theorem updateBinaryVia_le {apdu : Int → Int → Int → Int → Bytes → Py Bytes} {maxLc off : Nat} {data : Bytes} {n : Int}
    (h : updateBinaryVia apdu maxLc off data = .ok n) : 0 ≤ n ∧ n ≤ maxLc ∧ n ≤ data.length := by
  unfold updateBinaryVia at h
  by_cases ho : off > 65535
  · simp [ho] at h
  · simp only [ho, if_false] at h
    split at h
    · cases h
    · cases h; omega

/-- an accepted READ BINARY answer is never longer than what was asked for -/
theorem readBinaryVia_le {apdu : Int → Int → Int → Int → Int → Py Bytes} {maxLe : Int} {off : Nat} {size : Int} {d : Bytes}
    (h : readBinaryVia apdu maxLe off size = .ok d) : (d.length : Int) ≤ max size 0 ∧ (d.length : Int) ≤ max maxLe 0 := by
  unfold readBinaryVia at h
  by_cases ho : off > 65535
  · simp [ho] at h
  · simp only [ho, if_false] at h
    obtain ⟨le, hle⟩ : ∃ le, le = (if size < maxLe then size else maxLe) := ⟨_, rfl⟩
    rw [← hle] at h
    split at h
    · cases h
    · split at h
      · cases h
      · cases h
        rename_i hl
        subst hle
        constructor <;> (split at hl <;> omega)

/-- the latch holds after TIMEOUT_ERROR (errno 0) as after any other error (seed C12-r5m1); a presence check passes -/
theorem latched_any (c : Bytes) (e : Int) : latched (some c) (some e) = true := rfl
theorem latched_presence (e : Option Int) : latched none e = false := rfl
theorem latched_clean (c : Option Bytes) : latched c none = false := by cases c <;> rfl

/-- an ATS of TL and T0 only yields FSCI from T0 (seed C12-r5m2) -/
theorem atsFsciFwi_t0_only (tl t0 : Nat) (h : t0 &&& 0x20 = 0) : atsFsciFwi [tl, t0] = (t0 % 16, 4) := by
  simp [atsFsciFwi, h]

/-- the INF field of a chunk lies inside the command and has at most MIU octets -/
theorem infField_length (c : Bytes) (o m : Nat) : (infField c o m).length ≤ m := by
  simp [infField]; omega

end NfcVerif.T34OpsRef
