import NfcVerif.Lemmas.T4Write
/-! Type 4 Tag: capability container discovery, `setOctets`, round trip, cut safety, confinement. -/
namespace NfcVerif.T4
open NfcVerif.T34

/-- capability container with an NDEF file control TLV (T=4, L=6) -/
def cc4 (ver e1 e0 c1 c0 f1 f0 s1 s0 rf wf : Nat) : Bytes :=
  [0, 15, ver, e1, e0, c1, c0, 4, 6, f1, f0, s1, s0, rf, wf]

/-- capability container with an extended NDEF file control TLV (T=6, L=8) -/
def cc6 (ver e1 e0 c1 c0 f1 f0 s3 s2 s1 s0 rf wf : Nat) : Bytes :=
  [0, 17, ver, e1, e0, c1, c0, 6, 8, f1, f0, s3, s2, s1, s0, rf, wf]

def limitLe (v : Variant) (mle : Nat) : Nat := if v.shortApdu then min mle 256 else mle
def limitLc (v : Variant) (mlc : Nat) : Nat := if v.shortApdu then min mlc 255 else mlc
def limitSize (v : Variant) (mfs : Nat) : Nat := if v.offsetClamp then min mfs 65536 else mfs

theorem discover_cc4 (v : Variant) (c : Card) (ver e1 e0 c1 c0 f1 f0 s1 s0 rf wf : Nat)
    (hcc : c.cc = cc4 ver e1 e0 c1 c0 f1 f0 s1 s0 rf wf) (hmle : 15 ≤ c.mle)
    (hver : ver / 16 = 1 ∨ ver / 16 = 2 ∨ ver / 16 = 3) :
    discover v c = .ok (some { maxLe := limitLe v (e1 * 256 + e0), maxLc := limitLc v (c1 * 256 + c0),
                               capacity := ((limitSize v (s1 * 256 + s0) : Nat) : Int) - 2,
                               readable := decide (rf = 0), writeable := decide (wf = 0),
                               nlenSize := 2, fid := [f1, f0] }) := by
  have r1 : readBinary c c.cc 15 0 2 = .ok [0, 15] := by
    have := readBinary_ok c c.cc 15 0 2 ⟨by omega, by omega, hmle⟩ (by omega) (by simp [hcc, cc4]) (by simp [hcc, cc4])
    simpa [hcc, cc4, sliceN] using this
  have r2 : readBinary c c.cc 15 2 13 = .ok [ver, e1, e0, c1, c0, 4, 6, f1, f0, s1, s0, rf, wf] := by
    have := readBinary_ok c c.cc 15 2 13 ⟨by omega, by omega, hmle⟩ (by omega) (by simp [hcc, cc4]) (by simp [hcc, cc4])
    simpa [hcc, cc4, sliceN] using this
  have hm : min (((beNat [0, 15] : Nat) : Int) - 2) 15 = 13 := by simp [beNat]; omega
  unfold discover
  simp only [r1, Py.bind_ok, hm, r2]
  simp [zeros, hver, limitLe, limitLc, limitSize, beNat]
  split <;> omega

theorem discover_cc6 (v : Variant) (c : Card) (ver e1 e0 c1 c0 f1 f0 s3 s2 s1 s0 rf wf : Nat)
    (hcc : c.cc = cc6 ver e1 e0 c1 c0 f1 f0 s3 s2 s1 s0 rf wf) (hmle : 15 ≤ c.mle)
    (hver : ver / 16 = 1 ∨ ver / 16 = 2 ∨ ver / 16 = 3) :
    discover v c = .ok (some { maxLe := limitLe v (e1 * 256 + e0), maxLc := limitLc v (c1 * 256 + c0),
                               capacity := ((limitSize v (((s3 * 256 + s2) * 256 + s1) * 256 + s0) : Nat) : Int) - 4,
                               readable := decide (rf = 0), writeable := decide (wf = 0),
                               nlenSize := 4, fid := [f1, f0] }) := by
  have r1 : readBinary c c.cc 15 0 2 = .ok [0, 17] := by
    have := readBinary_ok c c.cc 15 0 2 ⟨by omega, by omega, hmle⟩ (by omega) (by simp [hcc, cc6]) (by simp [hcc, cc6])
    simpa [hcc, cc6, sliceN] using this
  have r2 : readBinary c c.cc 15 2 15 = .ok [ver, e1, e0, c1, c0, 6, 8, f1, f0, s3, s2, s1, s0, rf, wf] := by
    have := readBinary_ok c c.cc 15 2 15 ⟨by omega, by omega, hmle⟩ (by omega) (by simp [hcc, cc6]) (by simp [hcc, cc6])
    simpa [hcc, cc6, sliceN] using this
  have hm : min (((beNat [0, 17] : Nat) : Int) - 2) 15 = 15 := by simp [beNat]
  unfold discover
  simp only [r1, Py.bind_ok, hm, r2]
  simp [zeros, hver, limitLe, limitLc, limitSize, beNat]
  split <;> omega

/-- well-formed Type 4 layout, as understood by the reader (`i` = result of `_discover_ndef`) -/
structure WF (v : Variant) (c : Card) (i : Info) : Prop where
  disc : discover v c = .ok (some i)
  fid : i.fid = c.fid
  lim : Lim c i c.file.length
  cap : i.capacity = ((min c.file.length 65536 : Nat) : Int) - i.nlenSize
  rw : i.writeable = true
  old : i.nlenSize + beNat (c.file.take i.nlenSize) ≤ min c.file.length 65536

theorem discover_file (v : Variant) (c : Card) (f : Bytes) : discover v { c with file := f } = discover v c := rfl

theorem beNat_toBE (nl n : Nat) (hnl : nl = 2 ∨ nl = 4) (h : n < 65536) : beNat (toBE nl n) = n := by
  rcases hnl with h2 | h4
  · subst h2; simp [toBE, beNat]; omega
  · subst h4; simp [toBE, beNat]; omega

theorem see_old (v : Variant) (c : Card) (i : Info) (wf : WF v c i) :
    see v c = .ok (some ⟨i.capacity, i.readable, true,
      sliceN c.file i.nlenSize (i.nlenSize + beNat (c.file.take i.nlenSize))⟩) := by
  unfold see
  rw [readNdef_spec v c i wf.disc wf.fid wf.lim (by have := wf.old; omega) (by have := wf.old; omega)]
  simp [wf.rw]

theorem setOctets_spec (v : Variant) (c : Card) (i : Info) (data : Bytes) (wf : WF v c i)
    (hlen : (data.length : Int) ≤ i.capacity) (hv : v.nlenLoop = true ∨ i.nlenSize ≤ i.maxLc) :
    setOctets v c data = .ok (some ⟨planWrite v i data, finalFile c.file i.nlenSize data, .ok ()⟩) := by
  unfold setOctets
  rw [readNdef_spec v c i wf.disc wf.fid wf.lim (by have := wf.old; omega) (by have := wf.old; omega)]
  simp only [Py.bind_ok]
  rw [if_neg (by simp [wf.rw]), if_neg (by omega)]
  have := wf.cap; have := wf.lim.size
  rw [writeNdef_spec v c i data wf.lim (by omega) (by omega) hv]

theorem setOctets_oversize (v : Variant) (c : Card) (i : Info) (data : Bytes) (wf : WF v c i)
    (hlen : (data.length : Int) > i.capacity) :
    setOctets v c data = .ok (some ⟨[], c.file, .error .value⟩) := by
  unfold setOctets
  rw [readNdef_spec v c i wf.disc wf.fid wf.lim (by have := wf.old; omega) (by have := wf.old; omega)]
  simp only [Py.bind_ok]
  rw [if_neg (by simp [wf.rw]), if_pos (by omega)]

/-- a fresh reader of the card after the complete write -/
theorem see_final (v : Variant) (c : Card) (i : Info) (data : Bytes) (wf : WF v c i)
    (hlen : (data.length : Int) ≤ i.capacity) :
    see v { c with file := finalFile c.file i.nlenSize data } = .ok (some ⟨i.capacity, i.readable, true, data⟩) := by
  have hcap := wf.cap; have hsz := wf.lim.size; have hnl := wf.lim.nl
  have hl : i.nlenSize + data.length ≤ c.file.length := by omega
  have hfl := finalFile_length c.file i.nlenSize data hl
  have hnlen : beNat ((finalFile c.file i.nlenSize data).take i.nlenSize) = data.length := by
    rw [finalFile_nlen _ _ _ hl]; exact beNat_toBE _ _ hnl (by rcases hnl with h | h <;> omega)
  unfold see
  rw [readNdef_spec v { c with file := finalFile c.file i.nlenSize data } i wf.disc wf.fid
    ⟨wf.lim.nl, wf.lim.le, wf.lim.lc, by simp only [hfl]; exact hsz⟩ (by simp only [hnlen, hfl]; omega)
    (by simp only [hnlen]; omega)]
  simp only [Py.bind_ok, Option.map, hnlen, finalFile_data _ _ _ hl, wf.rw]

theorem applyU_pres (nl : Nat) : ∀ (cmds : List UCmd) (f : Bytes),
    (∀ u ∈ cmds, nl ≤ u.off ∧ u.off + u.data.length ≤ f.length) →
    (applyU f cmds).take nl = f.take nl ∧ (applyU f cmds).length = f.length := by
  intro cmds
  induction cmds with
  | nil => intro f _; simp [applyU]
  | cons u us ih =>
    intro f h
    have hu := h u (by simp)
    have hl : (splice f u.off u.data).length = f.length := splice_length _ _ _ hu.2
    have := ih (splice f u.off u.data) (by intro u' hu'; rw [hl]; exact h u' (by simp [hu']))
    simp only [applyU, List.foldl_cons] at *
    rw [this.1, this.2, hl, splice_take_before _ _ _ nl hu.1 hu.2]
    simp


theorem planWrite_fit (v : Variant) (i : Info) (data : Bytes) (hnl : 1 ≤ i.nlenSize)
    (hfit : i.nlenSize + data.length ≤ i.maxLc) : planWrite v i data = [⟨0, toBE i.nlenSize data.length ++ data⟩] := by
  unfold planWrite
  simp only []
  rw [if_pos hfit]
  exact chunk_single _ _ (by simp [toBE_length]; omega) (by simp [toBE_length]; omega) _ (by omega)

theorem planWrite_chunked (v : Variant) (i : Info) (data : Bytes) (hnl : 1 ≤ i.nlenSize) (hmlc : i.nlenSize ≤ i.maxLc)
    (hnf : ¬ i.nlenSize + data.length ≤ i.maxLc) :
    planWrite v i data = chunkCmds i.maxLc (zeros i.nlenSize ++ data) (i.nlenSize + data.length + 1) 0
      ++ [⟨0, toBE i.nlenSize data.length⟩] := by
  unfold planWrite
  simp only []
  rw [if_neg hnf]
  congr 1
  split
  · exact chunk_single _ _ (by rw [toBE_length]; exact hmlc) (by rw [toBE_length]; omega) _ (by omega)
  · rw [List.take_of_length_le (by rw [toBE_length]; exact hmlc)]

/-- C02 for Type 4 (MLc at least the NLEN field size): every prefix of the UPDATE BINARY sequence
leaves the old message, an empty message, or the new message -/
theorem cut_safe (v : Variant) (c : Card) (i : Info) (data : Bytes) (wf : WF v c i)
    (hlen : (data.length : Int) ≤ i.capacity) (hmlc : i.nlenSize ≤ i.maxLc)
    (sOld : Seen) (hold : see v c = .ok (some sOld)) (k : Nat) (hk : k ≤ (planWrite v i data).length) :
    ∃ r, see v { c with file := applyU c.file ((planWrite v i data).take k) } = .ok r ∧ Outcome sOld.data data r := by
  have hcap := wf.cap; have hsz := wf.lim.size; have hnl := wf.lim.nl; have hlc := wf.lim.lc
  have hl : i.nlenSize + data.length ≤ c.file.length := by omega
  have hw := writeNdef_spec v c i data wf.lim hl (by omega) (Or.inr hmlc)
  have hrun : runU c c.file (planWrite v i data) = ⟨planWrite v i data, finalFile c.file i.nlenSize data, .ok ()⟩ := by
    unfold writeNdef at hw
    rw [if_neg (by rcases hnl with h | h <;> rw [h] <;> omega)] at hw
    exact hw
  by_cases h0 : k = 0
  · subst h0
    refine ⟨some sOld, ?_, by simp [Outcome]⟩
    simpa [applyU] using hold
  by_cases hfull : k = (planWrite v i data).length
  · subst hfull
    rw [List.take_length, runU_file_applyU c _ _ _ hrun, see_final v c i data wf hlen]
    exact ⟨_, rfl, by simp [Outcome]⟩
  · -- strictly inside the sequence: only possible in the chunked case, NLEN is zero
    have hnl1 : 1 ≤ i.nlenSize := by omega
    by_cases hfit : i.nlenSize + data.length ≤ i.maxLc
    · rw [planWrite_fit v i data hnl1 hfit] at hk hfull
      simp at hk hfull; omega
    have hnf := hfit
    have hplan := planWrite_chunked v i data hnl1 hmlc hfit
    generalize hB : zeros i.nlenSize ++ data = buf at hplan
    have hbl : buf.length = i.nlenSize + data.length := by rw [← hB]; simp [zeros_length]
    rw [hplan] at hk hfull ⊢
    simp only [List.length_append, List.length_singleton] at hk hfull
    rw [List.take_append_of_le_length (by omega)]
    rw [show i.nlenSize + data.length + 1 = (i.nlenSize + data.length) + 1 from rfl,
        chunk_head _ _ (by omega)] at hk hfull ⊢
    obtain ⟨k', rfl⟩ : ∃ k', k = k' + 1 := ⟨k - 1, by omega⟩
    simp only [List.take_succ_cons, applyU, List.foldl_cons]
    have hf1 : (splice c.file 0 (buf.take i.maxLc)).length = c.file.length :=
      splice_length _ _ _ (by simp [List.length_take]; omega)
    have hpres := applyU_pres i.nlenSize
      ((chunkCmds i.maxLc buf (i.nlenSize + data.length) (min i.maxLc buf.length)).take k')
      (splice c.file 0 (buf.take i.maxLc)) (by
        intro u hu
        have := chunk_mem i.maxLc buf hlc.1 _ _ u (List.mem_of_mem_take hu)
        rw [hf1]; omega)
    simp only [applyU] at hpres
    have htake : (splice c.file 0 (buf.take i.maxLc)).take i.nlenSize = zeros i.nlenSize := by
      have := sliceN_splice_same c.file 0 (buf.take i.maxLc) (by simp [List.length_take]; omega)
      simp only [Nat.zero_add, sliceN_zero_take] at this
      have h2 := congrArg (List.take i.nlenSize) this
      rw [List.take_take, Nat.min_eq_left (by simp [List.length_take]; omega)] at h2
      rw [h2, List.take_take, Nat.min_eq_left hmlc, ← hB, List.take_left' (zeros_length _)]
    generalize List.foldl (fun f u => splice f u.off u.data) (splice c.file 0 (buf.take i.maxLc))
      ((chunkCmds i.maxLc buf (i.nlenSize + data.length) (min i.maxLc buf.length)).take k') = F at hpres ⊢
    unfold see
    rw [readNdef_spec v { c with file := F } i wf.disc wf.fid
      ⟨wf.lim.nl, wf.lim.le, wf.lim.lc, by simp only [hpres.2, hf1]; exact hsz⟩
      (by simp only [hpres.1, htake, beNat_zeros, hpres.2, hf1]; omega)
      (by simp only [hpres.1, htake, beNat_zeros]; omega)]
    simp only [Py.bind_ok, Option.map, hpres.1, htake, beNat_zeros, Nat.add_zero]
    refine ⟨_, rfl, ?_⟩
    simp [Outcome, sliceN]

/-- C03 for Type 4 -/
theorem write_confined (v : Variant) (i : Info) (data : Bytes) (f : Bytes) (hlc : 1 ≤ i.maxLc) (hnl : 1 ≤ i.nlenSize)
    (hl : i.nlenSize + data.length ≤ f.length) :
    (∀ u ∈ planWrite v i data, 1 ≤ u.data.length ∧ u.data.length ≤ i.maxLc ∧
        u.off + u.data.length ≤ i.nlenSize + data.length) ∧
    (finalFile f i.nlenSize data).drop (i.nlenSize + data.length) = f.drop (i.nlenSize + data.length) ∧
    (finalFile f i.nlenSize data).length = f.length := by
  refine ⟨?_, finalFile_beyond f _ data hl, finalFile_length f _ data hl⟩
  intro u hu
  unfold planWrite at hu
  simp only [] at hu
  split at hu
  · have := chunk_mem i.maxLc _ hlc _ _ u hu
    simp [toBE_length] at this; omega
  · rw [List.mem_append] at hu
    rcases hu with hu | hu
    · have := chunk_mem i.maxLc _ hlc _ _ u hu
      simp [zeros_length] at this; omega
    · split at hu
      · have := chunk_mem i.maxLc _ hlc _ _ u hu
        simp [toBE_length] at this; omega
      · simp at hu; subst hu
        simp only [List.length_take, toBE_length]
        rename_i hnf _
        have : 0 < i.nlenSize ∨ i.nlenSize = 0 := by omega
        omega

end NfcVerif.T4
