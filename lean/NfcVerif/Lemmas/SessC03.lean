import NfcVerif.Model.SessC03
import NfcVerif.Lemmas.CtlC03
namespace NfcVerif.Tlv
open NfcVerif

/-- the cached NDEF object (if any) is what a new reader would compute on the tag's memory, and its
memory image is the tag's memory -/
def Coherent (k : Klass) (s : Sess) : Prop :=
  ∀ L C, s.ndef = some (L, C) → C = s.tag ∧ k.rdNdef s.tag = .ok (some L)

theorem coherent_fresh (k : Klass) (m : Bytes) : Coherent k ⟨m, none⟩ := by
  intro L C h; cases h

/-- `Tag.ndef` on a coherent session returns what it returns on a fresh tag object -/
theorem getNdef_fresh (k : Klass) (s : Sess) (hc : Coherent k s) :
    (getNdef k s).1 = (getNdef k ⟨s.tag, none⟩).1 ∧ (getNdef k s).2.tag = s.tag
    ∧ (getNdef k ⟨s.tag, none⟩).2.tag = s.tag ∧ Coherent k (getNdef k s).2
    ∧ (∀ L C, (getNdef k s).1 = .ok (some (L, C)) → C = s.tag ∧ k.rdNdef s.tag = .ok (some L)
        ∧ (getNdef k s).2.ndef = some (L, C)) := by
  cases hn : s.ndef with
  | some o =>
    obtain ⟨L, C⟩ := o
    obtain ⟨hC, hr⟩ := hc L C hn
    have e1 : getNdef k s = (.ok (some (L, C)), s) := by unfold getNdef; rw [hn]
    have e2 : getNdef k ⟨s.tag, none⟩ = (.ok (some (L, s.tag)), ⟨s.tag, some (L, s.tag)⟩) := by
      unfold getNdef; simp only; rw [hr]
    rw [e1, e2]
    refine ⟨by rw [hC], rfl, rfl, hc, fun L' C' h => ?_⟩
    injection h with h; injection h with h; injection h with h1 h2
    subst h1; subst h2
    exact ⟨hC, hr, hn⟩
  | none =>
    have es : s = ⟨s.tag, none⟩ := by cases s; simp_all
    refine ⟨by rw [← es], ?_, ?_, ?_, ?_⟩
    · unfold getNdef; rw [hn]; simp only; split <;> rfl
    · unfold getNdef; simp only; split <;> rfl
    · unfold getNdef; rw [hn]; simp only
      split
      · rename_i L hr
        intro L' C' h; injection h with h; injection h with h1 h2; subst h1; subst h2; exact ⟨rfl, hr⟩
      · exact hc
      · exact hc
    · intro L C h
      unfold getNdef at h ⊢; rw [hn] at h ⊢; simp only at h ⊢
      split at h
      · rename_i L' hr
        simp only
        injection h with h; injection h with h; injection h with h1 h2; subst h1; subst h2
        exact ⟨rfl, hr, rfl⟩
      · cases h
      · cases h

/-- **cached state does not show**: on a coherent session every application call sends the same
commands, returns the same and leaves the same tag memory as the same call on a fresh tag object
activated on that memory -/
theorem step_fresh (k : Klass) (s : Sess) (op : Op) (hc : Coherent k s) :
    (step k true s op).1 = (step k true ⟨s.tag, none⟩ op).1
    ∧ (step k true s op).2.tag = (step k true ⟨s.tag, none⟩ op).2.tag := by
  obtain ⟨h1, h2, h3, _, h5⟩ := getNdef_fresh k s hc
  obtain ⟨_, _, _, _, h5'⟩ := getNdef_fresh k ⟨s.tag, none⟩ (coherent_fresh k s.tag)
  rcases hgs : getNdef k s with ⟨g, s'⟩
  rcases hgf : getNdef k ⟨s.tag, none⟩ with ⟨g', f'⟩
  rw [hgs] at h1 h2 h5; rw [hgf] at h1 h3 h5'
  simp only at h1 h2 h3 h5 h5'
  subst h1
  cases op with
  | read =>
    simp only [step, hgs, hgf]
    cases g with
    | error e => exact ⟨rfl, by rw [h2, h3]⟩
    | ok o => cases o with
      | none => exact ⟨rfl, by rw [h2, h3]⟩
      | some p => exact ⟨rfl, by rw [h2, h3]⟩
  | write data =>
    simp only [step, hgs, hgf]
    cases g with
    | error e => exact ⟨rfl, by rw [h2, h3]⟩
    | ok o => cases o with
      | none => exact ⟨rfl, by rw [h2, h3]⟩
      | some p =>
        obtain ⟨L, C⟩ := p
        simp only
        cases (setOctets k.cfg C L data).res with
        | ok _ => exact ⟨rfl, by simp only [h2, h3]⟩
        | error e => exact ⟨rfl, by simp only [h2, h3]⟩
  | format version wipe =>
    cases k with
    | t1 => exact ⟨rfl, rfl⟩
    | topaz => simp only [step]; split <;> exact ⟨rfl, rfl⟩
    | topaz512 => simp only [step]; split <;> exact ⟨rfl, rfl⟩
    | t2 =>
      simp only [step, hgs, hgf]
      cases g with
      | error e => exact ⟨rfl, by rw [h2, h3]⟩
      | ok o => cases o with
        | none => exact ⟨rfl, by rw [h2, h3]⟩
        | some p =>
          obtain ⟨L, C⟩ := p
          simp only
          cases formatT2On L C wipe with
          | error e => exact ⟨rfl, by rw [h2, h3]⟩
          | ok r => cases r with
            | none => exact ⟨rfl, by rw [h2, h3]⟩
            | some m' => exact ⟨rfl, by simp only [h2, h3]⟩
  | protect =>
    cases k with
    | t2 =>
      simp only [step, hgs, hgf]
      cases g with
      | error e => exact ⟨rfl, by rw [h2, h3]⟩
      | ok o => cases o with
        | none => exact ⟨rfl, by rw [h2, h3]⟩
        | some p => obtain ⟨L, C⟩ := p; exact ⟨rfl, by simp only [h2, h3]⟩
    | t1 =>
      simp only [step, hgs, hgf]
      cases g with
      | error e => exact ⟨rfl, by rw [h2, h3]⟩
      | ok o => cases o with
        | none => exact ⟨rfl, by rw [h2, h3]⟩
        | some p => simp only [h2, h3]; first | exact ⟨rfl, rfl⟩ | exact ⟨trivial, rfl⟩ | trivial | simp
    | topaz =>
      simp only [step, hgs, hgf]
      cases g with
      | error e => exact ⟨rfl, by rw [h2, h3]⟩
      | ok o => cases o with
        | none => exact ⟨rfl, by rw [h2, h3]⟩
        | some p => simp only [h2, h3]; first | exact ⟨rfl, rfl⟩ | exact ⟨trivial, rfl⟩ | trivial | simp
    | topaz512 =>
      simp only [step, hgs, hgf]
      cases g with
      | error e => exact ⟨rfl, by rw [h2, h3]⟩
      | ok o => cases o with
        | none => exact ⟨rfl, by rw [h2, h3]⟩
        | some p => simp only [h2, h3]; first | exact ⟨rfl, rfl⟩ | exact ⟨trivial, rfl⟩ | trivial | simp

/-! ### a successful write keeps the session coherent -/

theorem write_state (c : Cfg) (m : Bytes) (L : Layout) (data : Bytes)
    (hread : readNdef c m = .ok (some L)) (hwf : WF c m L) (hcap : (data.length : Int) ≤ L.cap)
    (hw : L.writeable = true) :
    (setOctets c m L data).res = .ok ()
    ∧ readNdef c (apply m (setOctets c m L data).cmds) = .ok (some { L with ndef := data })
    ∧ (apply m (setOctets c m L data).cmds)[L.off + 1]? = some (if data.length < 255 then data.length else 255)
    ∧ L.off + hdrLen data.length + data.length ≤ L.areaEnd := by
  obtain ⟨m1, m2, m3a, m3, w, hnew⟩ := roundtrip c m L data ((readNdef_some c m L).1 hread) hwf hcap
  have hu : 0 < c.unit := hwf.2.1
  have hl1 := w.len1
  have hl2 := w.len2
  have hl3 := w.len3
  have har := w.area
  have hfit := w.fits
  have hh := hdrLen_ge data.length
  have hl3a : m3a.length = m.length := by rw [w.m3a_eq, pre3_length, hl2]
  have hcm : (setOctets c m L data) = ⟨diffUnits c.unit m m1 ++ diffUnits c.unit m1 m2 ++ diffUnits c.unit m2 m3a
      ++ diffUnits c.unit m3a m3, .ok ()⟩ := by
    unfold setOctets
    rw [if_neg (by simp [hw]), if_neg (by omega), writeCmds_eq w]
  have hap : apply m (setOctets c m L data).cmds = m3 := by
    rw [hcm]; simp only
    rw [apply_append, apply_append, apply_append, apply_diff _ hu _ _ hl1.symm, apply_diff _ hu _ _ (by omega),
      apply_diff _ hu _ _ (by omega), apply_diff _ hu _ _ (by omega)]
  refine ⟨by rw [hcm], by rw [hap]; exact (readNdef_some c m3 _).2 hnew, ?_, hfit⟩
  rw [hap, w.m3_eq]
  by_cases hn : data.length < 255
  · rw [if_pos hn, if_pos hn]; exact get_set_eq _ _ _ (by omega)
  · rw [if_neg hn, if_neg hn]
    rw [get_set_ne _ _ _ _ (by omega), get_set_ne _ _ _ _ (by omega)]
    exact get_set_eq _ _ _ (by omega)

theorem countFree_head (s : Skip) (off e n : Nat) (h : (n : Int) ≤ capacity s off e)
    (hfit : off + hdrLen n ≤ e) : n ≤ countFree s (off + hdrLen n) e := by
  have h1 := cap_fits s off e n h
  unfold countFree at h1 ⊢
  have e1 : e - off = hdrLen n + (e - (off + hdrLen n)) := by omega
  rw [e1, cfree_split] at h1
  have := cfree_le s off (hdrLen n)
  omega

/-- the Type 2 reader's "inside the data area" test accepts what the writer stored -/
theorem write_state_t2 (m : Bytes) (L : Layout) (data : Bytes)
    (hread : readNdefT2 m = .ok (some L)) (hwf : WF t2Cfg m L) (hcap : (data.length : Int) ≤ L.cap)
    (hw : L.writeable = true) :
    (setOctets t2Cfg m L data).res = .ok ()
    ∧ readNdefT2 (apply m (setOctets t2Cfg m L data).cmds) = .ok (some { L with ndef := data }) := by
  obtain ⟨hr, _, _⟩ := readNdefT2_some m L hread
  obtain ⟨h1, h2, h3, h4⟩ := write_state t2Cfg m L data hr hwf hcap hw
  refine ⟨h1, ?_⟩
  have hcapeq := ((readNdef_some _ _ _).1 hr).cap
  have hh := hdrLen_ge data.length
  unfold readNdefT2
  rw [h2]
  simp only
  rw [h3]
  have hhead : (L.off + if (some (if data.length < 255 then data.length else 255) : Option Nat) = some 255 then 4 else 2)
      = L.off + hdrLen data.length := by
    unfold hdrLen
    by_cases hn : data.length < 255
    · simp only [if_pos hn]; rw [if_neg (by intro h; injection h with h; omega)]
    · simp only [if_neg hn]; simp
  rw [hhead]
  have hcf := countFree_head L.skip L.off L.areaEnd data.length (by rw [← hcapeq]; exact hcap) (by omega)
  rw [if_neg (by omega)]

theorem rdNdef_readNdef (k : Klass) (m : Bytes) (L : Layout) (h : k.rdNdef m = .ok (some L)) :
    readNdef k.cfg m = .ok (some L) := by
  cases k with
  | t2 => exact (readNdefT2_some m L h).1
  | t1 => exact h
  | topaz => exact h
  | topaz512 => exact h

theorem klass_write_state (k : Klass) (m : Bytes) (L : Layout) (data : Bytes)
    (hread : k.rdNdef m = .ok (some L)) (hwf : WF k.cfg m L) (hcap : (data.length : Int) ≤ L.cap)
    (hw : L.writeable = true) :
    (setOctets k.cfg m L data).res = .ok ()
    ∧ k.rdNdef (apply m (setOctets k.cfg m L data).cmds) = .ok (some { L with ndef := data }) := by
  cases k with
  | t2 => exact write_state_t2 m L data hread hwf hcap hw
  | t1 => obtain ⟨a, b, _⟩ := write_state _ m L data hread hwf hcap hw; exact ⟨a, b⟩
  | topaz => obtain ⟨a, b, _⟩ := write_state _ m L data hread hwf hcap hw; exact ⟨a, b⟩
  | topaz512 => obtain ⟨a, b, _⟩ := write_state _ m L data hread hwf hcap hw; exact ⟨a, b⟩

theorem setOctets_refused (c : Cfg) (m : Bytes) (L : Layout) (data : Bytes)
    (h : ¬ (L.writeable = true ∧ (data.length : Int) ≤ L.cap)) :
    (setOctets c m L data).cmds = [] ∧ ∃ e, (setOctets c m L data).res = .error e := by
  unfold setOctets
  by_cases hw : L.writeable = true
  · have : (data.length : Int) > L.cap := by
      apply Classical.byContradiction; intro hn; exact h ⟨hw, by omega⟩
    rw [if_neg (by simp [hw]), if_pos this]; exact ⟨rfl, _, rfl⟩
  · rw [if_pos (by simpa using hw)]; exact ⟨rfl, _, rfl⟩

/-- what a call needs so that the session stays coherent: the layout on the tag is well-formed (write);
`protect()` does not end in a command error half way -/
def Adm (k : Klass) (m : Bytes) : Op → Prop
  | .write _ => ∀ L, k.rdNdef m = .ok (some L) → WF k.cfg m L
  | .protect => ∀ e, (step k true ⟨m, none⟩ .protect).1.res ≠ .error e
  | _ => True

theorem protectT2_false_cmds (m : Bytes) (h : (protectT2 m).res = .ok false) : (protectT2 m).cmds = [] := by
  unfold protectT2 at h ⊢
  split
  · rfl
  · rfl
  · rename_i L hL
    rw [hL] at h; simp only at h
    split
    · rfl
    · rename_i m1 hm1
      rw [hm1] at h; simp only at h
      split
      · rename_i e he; rw [he] at h; simp only at h; cases h
      · rename_i m2 hm2; rw [hm2] at h; simp only at h; cases h

theorem protectT1_false_cmds (tk : T1Kind) (u : Nat) (m : Bytes) (h : (protectT1 tk u m).res = .ok false) :
    (protectT1 tk u m).cmds = [] := by
  unfold protectT1 at h ⊢
  split
  · rfl
  · rfl
  · rename_i L hL
    rw [hL] at h; simp only at h
    split at h
    · cases h
    · cases h

/-- **the cache stays coherent**: after any admissible call the cached NDEF object (if there is one) is
again what a new reader would compute on the tag's memory -/
theorem step_coherent (k : Klass) (s : Sess) (op : Op) (hc : Coherent k s) (hadm : Adm k s.tag op) :
    Coherent k (step k true s op).2 := by
  obtain ⟨_, h2, _, h4, h5⟩ := getNdef_fresh k s hc
  obtain ⟨hf1, _⟩ := step_fresh k s op hc
  rcases hgs : getNdef k s with ⟨g, s'⟩
  rw [hgs] at h2 h4 h5
  simp only at h2 h4 h5
  cases op with
  | read =>
    simp only [step, hgs]
    cases g with
    | error e => exact h4
    | ok o => cases o <;> exact h4
  | write data =>
    simp only [step, hgs]
    cases g with
    | error e => exact h4
    | ok o => cases o with
      | none => exact h4
      | some p =>
        obtain ⟨L, C⟩ := p
        obtain ⟨hC, hr, _⟩ := h5 L C rfl
        subst hC
        simp only
        by_cases hok : L.writeable = true ∧ (data.length : Int) ≤ L.cap
        · obtain ⟨hres, hrd⟩ := klass_write_state k s.tag L data hr (hadm L hr) hok.2 hok.1
          rw [hres]; simp only
          intro L' C' h
          injection h with h; injection h with h1 h2'
          subst h1; subst h2'
          rw [h2]; exact ⟨rfl, hrd⟩
        · obtain ⟨hcm, e, hres⟩ := setOctets_refused k.cfg s.tag L data hok
          rw [hres]; simp only
          intro L' C' h
          injection h with h; injection h with h1 h2'
          subst h1; subst h2'
          rw [hcm, h2]; exact ⟨rfl, hr⟩
  | format version wipe =>
    cases k with
    | t1 => exact hc
    | topaz =>
      simp only [step]; split
      · intro L C h; simp at h
      · exact hc
      · exact hc
    | topaz512 =>
      simp only [step]; split
      · intro L C h; simp at h
      · exact hc
      · exact hc
    | t2 =>
      simp only [step, hgs]
      cases g with
      | error e => exact h4
      | ok o => cases o with
        | none => exact h4
        | some p =>
          obtain ⟨L, C⟩ := p
          simp only
          cases formatT2On L C wipe with
          | error e => exact h4
          | ok r => cases r with
            | none => exact h4
            | some m' => intro L' C' h; simp at h
  | protect =>
    have hne : ∀ e, (step k true s .protect).1.res ≠ .error e := by rw [hf1]; exact hadm
    cases k with
    | t2 =>
      simp only [step, hgs] at hne ⊢
      cases g with
      | error e => exact h4
      | ok o => cases o with
        | none => exact h4
        | some p =>
          obtain ⟨L, C⟩ := p
          obtain ⟨hC, hr, _⟩ := h5 L C rfl
          subst hC
          simp only at hne ⊢
          cases hres : (protectT2 s.tag).res with
          | error e => exact absurd hres (hne e)
          | ok b => cases b with
            | true => intro L' C' h; simp at h
            | false =>
              have := protectT2_false_cmds s.tag hres
              intro L' C' h
              simp at h
              obtain ⟨h1, h2'⟩ := h
              subst h1; subst h2'
              rw [this, h2]; exact ⟨rfl, hr⟩
    | t1 =>
      simp only [step, hgs] at hne ⊢
      cases g with
      | error e => exact h4
      | ok o => cases o with
        | none => exact h4
        | some p =>
          simp only at hne ⊢
          generalize hk : (protectT1 _ _ s'.tag) = o at hne ⊢
          cases hres : o.res with
          | error e => exact absurd hres (hne e)
          | ok b => cases b with
            | true => intro L' C' h; simp at h
            | false =>
              have hcm : o.cmds = [] := by rw [← hk] at hres ⊢; exact protectT1_false_cmds _ _ _ hres
              have hs' : ({ tag := apply s'.tag o.cmds, ndef := s'.ndef } : Sess) = s' := by
                rw [hcm]; cases s'; rfl
              simp only [Bool.true_and, decide_eq_true_eq]
              rw [if_neg (by intro h; cases h), hs']; exact h4
    | topaz =>
      simp only [step, hgs] at hne ⊢
      cases g with
      | error e => exact h4
      | ok o => cases o with
        | none => exact h4
        | some p =>
          simp only at hne ⊢
          generalize hk : (protectT1 _ _ s'.tag) = o at hne ⊢
          cases hres : o.res with
          | error e => exact absurd hres (hne e)
          | ok b => cases b with
            | true => intro L' C' h; simp at h
            | false =>
              have hcm : o.cmds = [] := by rw [← hk] at hres ⊢; exact protectT1_false_cmds _ _ _ hres
              have hs' : ({ tag := apply s'.tag o.cmds, ndef := s'.ndef } : Sess) = s' := by
                rw [hcm]; cases s'; rfl
              simp only [Bool.true_and, decide_eq_true_eq]
              rw [if_neg (by intro h; cases h), hs']; exact h4
    | topaz512 =>
      simp only [step, hgs] at hne ⊢
      cases g with
      | error e => exact h4
      | ok o => cases o with
        | none => exact h4
        | some p =>
          simp only at hne ⊢
          generalize hk : (protectT1 _ _ s'.tag) = o at hne ⊢
          cases hres : o.res with
          | error e => exact absurd hres (hne e)
          | ok b => cases b with
            | true => intro L' C' h; simp at h
            | false =>
              have hcm : o.cmds = [] := by rw [← hk] at hres ⊢; exact protectT1_false_cmds _ _ _ hres
              have hs' : ({ tag := apply s'.tag o.cmds, ndef := s'.ndef } : Sess) = s' := by
                rw [hcm]; cases s'; rfl
              simp only [Bool.true_and, decide_eq_true_eq]
              rw [if_neg (by intro h; cases h), hs']; exact h4

/-! ### whole sessions -/

/-- the outputs of the calls when every call is made on a NEW tag object activated on the memory the
previous call left -/
def freshOuts (k : Klass) : Bytes → List Op → List OpOut
  | _, [] => []
  | m, op :: ops => (step k true ⟨m, none⟩ op).1 :: freshOuts k (step k true ⟨m, none⟩ op).2.tag ops

def freshTag (k : Klass) : Bytes → List Op → Bytes
  | m, [] => m
  | m, op :: ops => freshTag k (step k true ⟨m, none⟩ op).2.tag ops

/-- every call of the session is admissible on the memory it finds -/
def AdmAll (k : Klass) : Bytes → List Op → Prop
  | _, [] => True
  | m, op :: ops => Adm k m op ∧ AdmAll k (step k true ⟨m, none⟩ op).2.tag ops

theorem run_fresh (k : Klass) (ops : List Op) (s : Sess) (hc : Coherent k s) (ha : AdmAll k s.tag ops) :
    (run k true s ops).1 = freshOuts k s.tag ops ∧ (run k true s ops).2.tag = freshTag k s.tag ops
    ∧ Coherent k (run k true s ops).2 := by
  induction ops generalizing s with
  | nil => exact ⟨rfl, rfl, hc⟩
  | cons op ops ih =>
    obtain ⟨h1, h2⟩ := step_fresh k s op hc
    have hc' := step_coherent k s op hc ha.1
    have ha' : AdmAll k (step k true s op).2.tag ops := by rw [h2]; exact ha.2
    obtain ⟨i1, i2, i3⟩ := ih (step k true s op).2 hc' ha'
    simp only [run, freshOuts, freshTag]
    exact ⟨by rw [i1, h1, h2], by rw [i2, h2], i3⟩

/-! ### the layout a Topaz / Topaz-512 format leaves on the tag -/

theorem writeAt_inside (m : Bytes) (a : Nat) (v : Bytes) (x : Nat) (h1 : a ≤ x) (h2 : x < a + v.length)
    (h3 : a + v.length ≤ m.length) : (writeAt m a v)[x]? = v[x - a]? := by
  rw [writeAt_get, if_pos ⟨h1, h2, by omega⟩]

theorem writeAt_outside (m : Bytes) (a : Nat) (v : Bytes) (x : Nat) (h : x < a) : (writeAt m a v)[x]? = m[x]? := by
  rw [writeAt_get, if_neg (by omega)]

/-- header bytes after `Topaz._format`: the factory capability container (version byte as requested)
and the empty NDEF TLV -/
theorem formatTopazV_hdr (m m' : Bytes) (version wipe : Option Nat) (h : formatTopazV m version wipe = .ok (some m')) :
    m'.length = m.length ∧ 14 ≤ m.length ∧ m'[8]? = some 0xE1 ∧ (∃ b, m'[9]? = some b ∧ b / 16 = 1)
    ∧ m'[10]? = some 0x0E ∧ m'[11]? = some 0 ∧ m'[12]? = some 3 ∧ m'[13]? = some 0 := by
  unfold formatTopazV at h
  obtain ⟨x1, h1, h⟩ := Py.bind_eq_ok.1 h
  obtain ⟨hl1, rfl⟩ := setSlice_inv _ _ _ _ _ h1
  have hl : 14 ≤ m.length := by simpa [topazHdr] using hl1
  have hx : ∀ i, i < 6 → (writeAt m 8 topazHdr)[8 + i]? = topazHdr[i]? := by
    intro i hi
    rw [writeAt_inside m 8 topazHdr (8 + i) (by omega) (by simp [topazHdr]; omega) hl1]
    congr 1; omega
  have e8 : (writeAt m 8 topazHdr)[8]? = some 0xE1 := by have := hx 0 (by omega); simpa [topazHdr] using this
  have e9 : (writeAt m 8 topazHdr)[9]? = some 0x10 := by have := hx 1 (by omega); simpa [topazHdr] using this
  have e10 : (writeAt m 8 topazHdr)[10]? = some 0x0E := by have := hx 2 (by omega); simpa [topazHdr] using this
  have e11 : (writeAt m 8 topazHdr)[11]? = some 0 := by have := hx 3 (by omega); simpa [topazHdr] using this
  have e12 : (writeAt m 8 topazHdr)[12]? = some 3 := by have := hx 4 (by omega); simpa [topazHdr] using this
  have e13 : (writeAt m 8 topazHdr)[13]? = some 0 := by have := hx 5 (by omega); simpa [topazHdr] using this
  -- the wipe step keeps the bytes below 14
  have wipeStep : ∀ (y : Bytes) (r : Option Bytes),
      (match wipe with
         | none => (Except.ok (some y) : Py (Option Bytes))
         | some w => setSlice (t1Cfg 1) y 14 (List.replicate 90 (w % 256)) >>= fun z => .ok (some z)) = .ok r →
      ∃ z, r = some z ∧ z.length = y.length ∧ ∀ x, x < 14 → z[x]? = y[x]? := by
    intro y r hr
    cases wipe with
    | none => simp only at hr; injection hr with hr; exact ⟨y, hr.symm, rfl, fun _ _ => rfl⟩
    | some w =>
      simp only at hr
      generalize List.replicate 90 (w % 256) = v2 at hr
      obtain ⟨z, hz, hr⟩ := Py.bind_eq_ok.1 hr
      injection hr with hr
      obtain ⟨_, rfl⟩ := setSlice_inv _ _ _ _ _ hz
      exact ⟨_, hr.symm, writeAt_length _ _ _, fun x hx => writeAt_outside _ _ _ _ (by omega)⟩
  cases version with
  | none =>
    simp only at h
    obtain ⟨z, hz, hzl, hzx⟩ := wipeStep _ _ h
    injection hz with hz; subst hz
    exact ⟨by rw [hzl, writeAt_length], hl, by rw [hzx 8 (by omega)]; exact e8,
      ⟨0x10, by rw [hzx 9 (by omega)]; exact e9, by decide⟩, by rw [hzx 10 (by omega)]; exact e10,
      by rw [hzx 11 (by omega)]; exact e11, by rw [hzx 12 (by omega)]; exact e12, by rw [hzx 13 (by omega)]; exact e13⟩
  | some v =>
    simp only at h
    split at h
    · rename_i hv16
      obtain ⟨y, hy, h⟩ := Py.bind_eq_ok.1 h
      obtain ⟨hlt, rfl⟩ := wr_inv _ _ _ _ _ hy
      obtain ⟨z, hz, hzl, hzx⟩ := wipeStep _ _ h
      injection hz with hz; subst hz
      refine ⟨by rw [hzl]; simp [writeAt_length], hl, ?_, ⟨v, ?_, hv16⟩, ?_, ?_, ?_, ?_⟩
      · rw [hzx 8 (by omega), get_set_ne _ _ _ _ (by omega)]; exact e8
      · rw [hzx 9 (by omega)]; exact get_set_eq _ _ _ hlt
      · rw [hzx 10 (by omega), get_set_ne _ _ _ _ (by omega)]; exact e10
      · rw [hzx 11 (by omega), get_set_ne _ _ _ _ (by omega)]; exact e11
      · rw [hzx 12 (by omega), get_set_ne _ _ _ _ (by omega)]; exact e12
      · rw [hzx 13 (by omega), get_set_ne _ _ _ _ (by omega)]; exact e13
    · cases h

theorem chainParse_ndef (m : Bytes) (fuel o : Nat) (h : m[o]? = some 3) :
    chainParse m (fuel + 1) o = some ([], o) := by
  simp only [chainParse, h]; simp

theorem chainParse_ctl (m : Bytes) (fuel o : Nat) (lock : Bool) (d0 d1 d2 : Nat) (cs : List Ctl) (off : Nat)
    (ht : m[o]? = some (if lock then 1 else 2)) (hl : m[o + 1]? = some 3) (h0 : m[o + 2]? = some d0)
    (h1 : m[o + 3]? = some d1) (h2 : m[o + 4]? = some d2) (hrec : chainParse m fuel (o + 5) = some (cs, off)) :
    chainParse m (fuel + 1) o = some ((lock, d0, d1, d2) :: cs, off) := by
  simp only [chainParse, ht, hl, h0, h1, h2, hrec]
  cases lock <;> simp

/-- what a reader finds after `Topaz.format()`: the factory layout (NDEF TLV at 12, static lock /
reserved bytes 104..119, capacity 90) - well-formed, whatever was on the tag before -/
theorem topaz_format_layout (m m' : Bytes) (version wipe : Option Nat)
    (h : formatTopazV m version wipe = .ok (some m')) (hlen : 120 ≤ m.length) :
    ∃ L', readNdef (t1Cfg 1) m' = .ok (some L') ∧ L'.off = 12 ∧ L'.skip = [(104, 120)] ∧ L'.areaEnd = 120
      ∧ L'.cap = 90 ∧ L'.writeable = true ∧ L'.ndef = [] ∧ WF (t1Cfg 1) m' L' := by
  obtain ⟨hl, _, h8, ⟨b, h9, hb⟩, h10, h11, h12, h13⟩ := formatTopazV_hdr m m' version wipe h
  have hchain : chainParse m' (120 + 1) 12 = some ([], 12) := chainParse_ndef m' 120 12 h12
  have hfree : ∀ a, 12 ≤ a → a < 12 + 2 → inSkip ([(104, 120)] ++ ([] : List Ctl).map (Ctl.range (t1Cfg 1).limit)) a = false := by
    intro a h1 h2; simp [inSkip]; omega
  have hw := chain_reads (t1Cfg 1) m' 120 13 (120 + 1) 12 [(104, 120)] [] 12 hchain (by omega) (by omega) hfree (120 + 1) (by omega)
  simp only [List.map_nil, List.append_nil] at hw
  have hw' := walkPre_mono (t1Cfg 1) (rdB_le (t1Cfg 1) 13 m') _ _ _ _ _ _ hw
  have hcap : capacity [(104, 120)] 12 120 = 90 := by decide +kernel
  refine ⟨{ off := 12, skip := [(104, 120)], areaEnd := 120, cap := 90, readable := true, writeable := true, ndef := [] },
    (readNdef_some _ _ _).2 ⟨?_, ?_, ?_, ?_, ?_, ?_, hcap.symm⟩, rfl, rfl, rfl, rfl, rfl, rfl, ?_⟩
  · exact (rd_ok_iff _ _ _ _).2 h8
  · exact ⟨b, (rd_ok_iff _ _ _ _).2 h9, hb⟩
  · exact ⟨0, (rd_ok_iff _ _ _ _).2 h11, rfl, rfl⟩
  · exact ⟨0x0E, (rd_ok_iff _ _ _ _).2 h10, rfl⟩
  · exact hw'
  · refine ⟨(0, 14), ?_, rfl⟩
    show readLen (rd (t1Cfg 1) m') (12 + 1) = _
    unfold readLen; rw [(rd_ok_iff _ _ _ _).2 h13, Py.bind_ok, if_neg (by decide)]
  · exact ⟨by decide, by decide, by decide, by show 120 ≤ m'.length; omega, hw, by decide⟩

theorem formatTopaz512V_hdr (m m' : Bytes) (version wipe : Option Nat)
    (h : formatTopaz512V m version wipe = .ok (some m')) :
    m'.length = m.length ∧ ∃ b, b / 16 = 1 ∧
      ∀ i, i < 16 → m'[8 + i]? = if i = 1 then some b else topaz512Hdr[i]? := by
  unfold formatTopaz512V at h
  obtain ⟨x1, h1, h⟩ := Py.bind_eq_ok.1 h
  obtain ⟨hl1, rfl⟩ := setSlice_inv _ _ _ _ _ h1
  have hx : ∀ i, i < 16 → (writeAt m 8 topaz512Hdr)[8 + i]? = topaz512Hdr[i]? := by
    intro i hi
    rw [writeAt_inside m 8 topaz512Hdr (8 + i) (by omega) (by simp [topaz512Hdr]; omega) hl1]
    congr 1; omega
  obtain ⟨oy, hoy, h⟩ := Py.bind_eq_ok.1 h
  have vstep : ∃ y b, oy = some y ∧ y.length = m.length ∧ b / 16 = 1 ∧
      ∀ i, i < 16 → y[8 + i]? = if i = 1 then some b else topaz512Hdr[i]? := by
    cases version with
    | none =>
      simp only at hoy; injection hoy with hoy
      refine ⟨_, 0x10, hoy.symm, writeAt_length _ _ _, by decide, fun i hi => ?_⟩
      rw [hx i hi]; split
      · rename_i h1; subst h1; rfl
      · rfl
    | some v =>
      simp only at hoy
      split at hoy
      · rename_i hv16
        obtain ⟨y, hy, hoy⟩ := Py.bind_eq_ok.1 hoy
        injection hoy with hoy
        obtain ⟨hlt, rfl⟩ := wr_inv _ _ _ _ _ hy
        refine ⟨_, v, hoy.symm, by simp [writeAt_length], hv16, fun i hi => ?_⟩
        split
        · rename_i h1; subst h1; exact get_set_eq _ _ _ hlt
        · rename_i h1; rw [get_set_ne _ _ _ _ (by omega)]; exact hx i hi
      · injection hoy with hoy; subst hoy; simp only at h; cases h
  obtain ⟨y, b, rfl, hyl, hb, hy⟩ := vstep
  simp only at h
  cases wipe with
  | none =>
    simp only at h; injection h with h; injection h with h; subst h
    exact ⟨hyl, b, hb, hy⟩
  | some w =>
    simp only at h
    generalize List.replicate 80 (w % 256) = v2 at h
    generalize List.replicate 384 (w % 256) = v3 at h
    obtain ⟨z, hz, h⟩ := Py.bind_eq_ok.1 h
    obtain ⟨_, rfl⟩ := setSlice_inv _ _ _ _ _ hz
    obtain ⟨z', hz', h⟩ := Py.bind_eq_ok.1 h
    obtain ⟨_, rfl⟩ := setSlice_inv _ _ _ _ _ hz'
    injection h with h; injection h with h; subst h
    refine ⟨by rw [writeAt_length, writeAt_length, hyl], b, hb, fun i hi => ?_⟩
    rw [writeAt_outside _ _ _ _ (by omega), writeAt_outside _ _ _ _ (by omega)]; exact hy i hi

/-- what a reader finds after `Topaz512.format()`: Lock Control TLV (bytes 122..127), Memory Control
TLV (bytes 120..121), NDEF TLV at 22, capacity 462 - well-formed, whatever was on the tag before -/
theorem topaz512_format_layout (m m' : Bytes) (version wipe : Option Nat)
    (h : formatTopaz512V m version wipe = .ok (some m')) (hlen : 512 ≤ m.length) :
    ∃ L', readNdef (t1Cfg 8) m' = .ok (some L') ∧ L'.off = 22 ∧ L'.skip = [(104, 128), (122, 128), (120, 122)]
      ∧ L'.areaEnd = 512 ∧ L'.cap = 462 ∧ L'.writeable = true ∧ L'.ndef = [] ∧ WF (t1Cfg 8) m' L' := by
  obtain ⟨hl, b, hb, H⟩ := formatTopaz512V_hdr m m' version wipe h
  have g : ∀ i v, i < 16 → i ≠ 1 → topaz512Hdr[i]? = some v → m'[8 + i]? = some v := by
    intro i v hi h1 hv; rw [H i hi, if_neg h1]; exact hv
  have h8 : m'[8]? = some 0xE1 := g 0 _ (by omega) (by omega) rfl
  have h9 : m'[9]? = some b := by have := H 1 (by omega); simpa using this
  have h10 : m'[10]? = some 0x3F := g 2 _ (by omega) (by omega) rfl
  have h11 : m'[11]? = some 0 := g 3 _ (by omega) (by omega) rfl
  have h12 : m'[12]? = some 1 := g 4 _ (by omega) (by omega) rfl
  have h13 : m'[13]? = some 3 := g 5 _ (by omega) (by omega) rfl
  have h14 : m'[14]? = some 0xF2 := g 6 _ (by omega) (by omega) rfl
  have h15 : m'[15]? = some 0x30 := g 7 _ (by omega) (by omega) rfl
  have h16 : m'[16]? = some 0x33 := g 8 _ (by omega) (by omega) rfl
  have h17 : m'[17]? = some 2 := g 9 _ (by omega) (by omega) rfl
  have h18 : m'[18]? = some 3 := g 10 _ (by omega) (by omega) rfl
  have h19 : m'[19]? = some 0xF0 := g 11 _ (by omega) (by omega) rfl
  have h20 : m'[20]? = some 2 := g 12 _ (by omega) (by omega) rfl
  have h21 : m'[21]? = some 3 := g 13 _ (by omega) (by omega) rfl
  have h22 : m'[22]? = some 3 := g 14 _ (by omega) (by omega) rfl
  have h23 : m'[23]? = some 0 := g 15 _ (by omega) (by omega) rfl
  have c3 : chainParse m' (510 + 1) 22 = some ([], 22) := chainParse_ndef m' 510 22 h22
  have c2 : chainParse m' (511 + 1) 17 = some ([(false, 0xF0, 2, 3)], 22) :=
    chainParse_ctl m' 511 17 false 0xF0 2 3 [] 22 h17 h18 h19 h20 h21 c3
  have hchain : chainParse m' (512 + 1) 12 = some ([(true, 0xF2, 0x30, 0x33), (false, 0xF0, 2, 3)], 22) :=
    chainParse_ctl m' 512 12 true 0xF2 0x30 0x33 _ 22 h12 h13 h14 h15 h16 c2
  have hmap : ([(true, 0xF2, 0x30, 0x33), (false, 0xF0, 2, 3)] : List Ctl).map (Ctl.range (t1Cfg 8).limit)
      = [(122, 128), (120, 122)] := by decide
  have hfree : ∀ a, 12 ≤ a → a < 22 + 2 →
      inSkip ([(104, 128)] ++ ([(true, 0xF2, 0x30, 0x33), (false, 0xF0, 2, 3)] : List Ctl).map (Ctl.range (t1Cfg 8).limit)) a = false := by
    intro a h1 h2; rw [hmap]; simp [inSkip]; omega
  have hw := chain_reads (t1Cfg 8) m' 512 23 (512 + 1) 12 [(104, 128)] _ 22 hchain (by omega) (by omega) hfree (512 + 1) (by omega)
  rw [hmap] at hw
  have hw' := walkPre_mono (t1Cfg 8) (rdB_le (t1Cfg 8) 23 m') _ _ _ _ _ _ hw
  have hcap : capacity [(104, 128), (122, 128), (120, 122)] 22 512 = 462 := by decide +kernel
  refine ⟨{ off := 22, skip := [(104, 128), (122, 128), (120, 122)], areaEnd := 512, cap := 462, readable := true,
            writeable := true, ndef := [] },
    (readNdef_some _ _ _).2 ⟨?_, ?_, ?_, ?_, ?_, ?_, hcap.symm⟩, rfl, rfl, rfl, rfl, rfl, rfl, ?_⟩
  · exact (rd_ok_iff _ _ _ _).2 h8
  · exact ⟨b, (rd_ok_iff _ _ _ _).2 h9, hb⟩
  · exact ⟨0, (rd_ok_iff _ _ _ _).2 h11, rfl, rfl⟩
  · exact ⟨0x3F, (rd_ok_iff _ _ _ _).2 h10, rfl⟩
  · exact hw'
  · refine ⟨(0, 24), ?_, rfl⟩
    show readLen (rd (t1Cfg 8) m') (22 + 1) = _
    unfold readLen; rw [(rd_ok_iff _ _ _ _).2 h23, Py.bind_ok, if_neg (by decide)]
  · exact ⟨by decide, by decide, by decide, by show 512 ≤ m'.length; omega, hw, by decide⟩

/-! ### a write step inside a session -/

theorem setOctets_apply (c : Cfg) (m : Bytes) (L : Layout) (data : Bytes)
    (hread : readNdef c m = .ok (some L)) (hwf : WF c m L) (hcap : (data.length : Int) ≤ L.cap)
    (hw : L.writeable = true) :
    ∃ ph, writeNdef c m L data = .ok ph ∧ apply m (setOctets c m L data).cmds = ph.m3 := by
  obtain ⟨m1, m2, m3a, m3, w, _⟩ := roundtrip c m L data ((readNdef_some c m L).1 hread) hwf hcap
  have hu : 0 < c.unit := hwf.2.1
  have hl1 := w.len1
  have hl2 := w.len2
  have hl3 := w.len3
  have hl3a : m3a.length = m.length := by rw [w.m3a_eq, pre3_length, hl2]
  refine ⟨⟨m1, m2, m3a, m3⟩, ?_, ?_⟩
  · unfold writeNdef; rw [w.p1, Py.bind_ok, w.p2, Py.bind_ok, w.p3a, Py.bind_ok, w.p3, Py.bind_ok]
  · unfold setOctets
    rw [if_neg (by simp [hw]), if_neg (by omega), writeCmds_eq w]
    simp only
    rw [apply_append, apply_append, apply_append, apply_diff _ hu _ _ hl1.symm, apply_diff _ hu _ _ (by omega),
      apply_diff _ hu _ _ (by omega), apply_diff _ hu _ _ (by omega)]

/-- the write step of a coherent session, spelled out: it is `setOctets` on the tag's memory with the
layout a new reader computes on it -/
theorem step_write_eq (k : Klass) (s : Sess) (data : Bytes) (hc : Coherent k s) (L : Layout)
    (hr : k.rdNdef s.tag = .ok (some L)) :
    (step k true s (.write data)).1.cmds = (setOctets k.cfg s.tag L data).cmds
    ∧ (step k true s (.write data)).2.tag = apply s.tag (setOctets k.cfg s.tag L data).cmds := by
  obtain ⟨h1, h2⟩ := step_fresh k s (.write data) hc
  rw [h1, h2]
  have hg : getNdef k ⟨s.tag, none⟩ = (.ok (some (L, s.tag)), ⟨s.tag, some (L, s.tag)⟩) := by
    unfold getNdef; simp only; rw [hr]
  simp only [step, hg]
  cases (setOctets k.cfg s.tag L data).res <;> exact ⟨rfl, rfl⟩

end NfcVerif.Tlv
