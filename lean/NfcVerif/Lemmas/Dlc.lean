import NfcVerif.Model.DlcLlc
/-!
# Invariant of the two-endpoint data link connection model and its preservation
-/
namespace NfcVerif.Dlc

/-- I PDUs in flight carry consecutive sequence numbers starting at ghost index `g` -/
def numbered (g : Nat) : List (Nat × Bytes) → Prop
  | [] => True
  | (ns, _) :: rest => ns = g % 16 ∧ numbered (g + 1) rest

/-- N(R) values in flight are non-decreasing ghost totals between `lo` (seen by the sender)
and `hi` (issued by the receiver) -/
def acksOk (lo hi : Nat) : List Nat → Prop
  | [] => lo ≤ hi
  | nr :: rest => ∃ mid, lo ≤ mid ∧ mid ≤ hi ∧ nr = mid % 16 ∧ acksOk mid hi rest

/-- invariant of one direction of data flow: `S` sends I PDUs over `wF` to `R`,
`R` returns N(R) values over `wB` -/
structure Dir (S R : Ep) (wF wB : List Pdu) : Prop where
  win : S.sendWin ≤ 15 ∧ S.sendWin = R.recvWin ∧ S.sendMiu ≤ R.recvMiu
  vs : S.vs = S.gS % 16
  vsa : S.vsa = S.gSA % 16
  vr : R.vr = R.gR % 16
  vra : R.vra = R.gRA % 16
  ord : S.gSA ≤ R.gRA ∧ R.gRA ≤ R.gR ∧ R.gR ≤ S.gS ∧ S.gS ≤ S.gSA + S.sendWin
  cnt : R.st = .shutdown ∨ R.st = .disconnect ∨ R.gRA + R.confs + (rqMsgs R.rq).length = R.gR
  rqm : R.st = .established → R.rq.length = (rqMsgs R.rq).length
  bnd : R.bound = false → R.st = .shutdown
  num : R.st = .established → numbered R.gR (iPart wF ++ sqI S.sq) ∧
          R.gR + (iPart wF ++ sqI S.sq).length ≤ S.gS ∧
          (S.st = .established → R.gR + (iPart wF ++ sqI S.sq).length = S.gS)
  ack : acksOk S.gSA R.gRA (nrPart wB)
  miu : ∀ p ∈ iPart wF ++ sqI S.sq, p.2.length ≤ S.sendMiu
  sqe : S.st ≠ .established → sqI S.sq = []
  cons : ∃ tail, S.accepted = R.delivered ++ rqMsgs R.rq ++
            (if R.st = .established then (iPart wF).map Prod.snd else []) ++ tail
           ∧ (S.st = .established → R.st = .established → tail = (sqI S.sq).map Prod.snd)
  flags : R.gFrmr = false ∧ R.gDiscard = false ∧ R.gOverrun = false

/-! ### list views -/
theorem sqI_append (a b : List Out) : sqI (a ++ b) = sqI a ++ sqI b := by
  induction a with
  | nil => rfl
  | cons x a ih => cases x <;> simp [sqI, ih]

theorem iPart_append (a b : List Pdu) : iPart (a ++ b) = iPart a ++ iPart b := by
  induction a with
  | nil => rfl
  | cons x a ih => cases x <;> simp [iPart, ih]

theorem nrPart_append (a b : List Pdu) : nrPart (a ++ b) = nrPart a ++ nrPart b := by
  induction a with
  | nil => rfl
  | cons x a ih => cases x <;> simp [nrPart, ih]

theorem rqMsgs_append (a b : List Rq) : rqMsgs (a ++ b) = rqMsgs a ++ rqMsgs b := by
  induction a with
  | nil => rfl
  | cons x a ih => cases x <;> simp [rqMsgs, ih]

theorem rqMsgs_length_le (a : List Rq) : (rqMsgs a).length ≤ a.length := by
  induction a with
  | nil => simp [rqMsgs]
  | cons x a ih => cases x <;> simp [rqMsgs] <;> omega

theorem numbered_append (g : Nat) (l : List (Nat × Bytes)) (p : Nat × Bytes) :
    numbered g l → p.1 = (g + l.length) % 16 → numbered g (l ++ [p]) := by
  induction l generalizing g with
  | nil => intro _ h; simp [numbered] at *; exact h
  | cons a l ih =>
    obtain ⟨ns, m⟩ := a
    intro h hp
    simp only [numbered] at h
    simp only [List.cons_append, numbered]
    refine ⟨h.1, ih (g+1) h.2 ?_⟩
    simp only [List.length_cons] at hp
    rw [hp]; congr 1; omega

theorem numbered_prefix (g : Nat) (l l' : List (Nat × Bytes)) : numbered g (l ++ l') → numbered g l := by
  induction l generalizing g with
  | nil => intro _; trivial
  | cons a l ih =>
    obtain ⟨ns, m⟩ := a
    intro h
    simp only [List.cons_append, numbered] at h ⊢
    exact ⟨h.1, ih _ h.2⟩

theorem acksOk_le (lo hi : Nat) (l : List Nat) : acksOk lo hi l → lo ≤ hi := by
  induction l generalizing lo with
  | nil => intro h; exact h
  | cons a l ih => intro ⟨mid, h1, _, _, h4⟩; have := ih mid h4; omega

theorem acksOk_mono (lo lo' hi : Nat) (l : List Nat) (h : lo' ≤ lo) : acksOk lo hi l → acksOk lo' hi l := by
  cases l with
  | nil => intro h'; simp only [acksOk] at *; omega
  | cons a l => intro ⟨mid, h1, h2, h3, h4⟩; exact ⟨mid, by omega, h2, h3, h4⟩

theorem acksOk_drop (lo hi nr : Nat) (l : List Nat) : acksOk lo hi (nr :: l) → acksOk lo hi l := by
  intro ⟨mid, h1, _, _, h4⟩; exact acksOk_mono mid lo hi l h1 h4

theorem acksOk_snoc (lo hi : Nat) (l : List Nat) (k : Nat) :
    acksOk lo hi l → acksOk lo (hi + k) (l ++ [(hi + k) % 16]) := by
  induction l generalizing lo with
  | nil =>
    intro h
    simp only [acksOk] at h
    exact ⟨hi + k, by omega, by omega, rfl, by simp [acksOk]⟩
  | cons a l ih =>
    intro ⟨mid, h1, h2, h3, h4⟩
    exact ⟨mid, h1, by omega, h3, ih mid h4⟩

/-! ### frame conditions: what a transition must leave alone -/

/-- `S'` agrees with `S` on everything the sender role reads -/
def SEq (S S' : Ep) : Prop :=
  S'.sendWin = S.sendWin ∧ S'.sendMiu = S.sendMiu ∧ S'.vs = S.vs ∧ S'.vsa = S.vsa ∧ S'.gS = S.gS ∧
  S'.gSA = S.gSA ∧ S'.st = S.st ∧ S'.accepted = S.accepted ∧ sqI S'.sq = sqI S.sq

/-- `R'` agrees with `R` on everything the receiver role reads -/
def REq (R R' : Ep) : Prop :=
  R'.recvWin = R.recvWin ∧ R'.recvMiu = R.recvMiu ∧ R'.vr = R.vr ∧ R'.vra = R.vra ∧ R'.gR = R.gR ∧
  R'.gRA = R.gRA ∧ R'.confs = R.confs ∧ R'.st = R.st ∧ R'.delivered = R.delivered ∧
  R'.gFrmr = R.gFrmr ∧ R'.gDiscard = R.gDiscard ∧ R'.gOverrun = R.gOverrun ∧ R'.bound = R.bound ∧
  rqMsgs R'.rq = rqMsgs R.rq ∧ (R.st = .established → R'.rq.length = R.rq.length)

theorem SEq.rfl' (S : Ep) : SEq S S := ⟨rfl, rfl, rfl, rfl, rfl, rfl, rfl, rfl, rfl⟩
theorem REq.rfl' (R : Ep) : REq R R := ⟨rfl, rfl, rfl, rfl, rfl, rfl, rfl, rfl, rfl, rfl, rfl, rfl, rfl, rfl, fun _ => rfl⟩

theorem Dir.frame {S S' R R' : Ep} {wF wF' wB wB' : List Pdu} (h : Dir S R wF wB)
    (hS : SEq S S') (hR : REq R R') (hF : iPart wF' = iPart wF) (hB : nrPart wB' = nrPart wB) :
    Dir S' R' wF' wB' := by
  obtain ⟨s1, s2, s3, s4, s5, s6, s7, s8, s9⟩ := hS
  obtain ⟨r1, r2, r3, r4, r5, r6, r7, r8, r9, r10, r11, r12, r13, r14, r15⟩ := hR
  obtain ⟨hwin, hvs, hvsa, hvr, hvra, hord, hcnt, hrqm, hbnd, hnum, hack, hmiu, hsqe, hcons, hfl⟩ := h
  refine ⟨?_, ?_, ?_, ?_, ?_, ?_, ?_, ?_, ?_, ?_, ?_, ?_, ?_, ?_, ?_⟩
  · rw [s1, s2, r1, r2]; exact hwin
  · rw [s3, s5]; exact hvs
  · rw [s4, s6]; exact hvsa
  · rw [r3, r5]; exact hvr
  · rw [r4, r6]; exact hvra
  · rw [s6, r6, r5, s5, s1]; exact hord
  · rw [r8, r6, r7, r14, r5]; exact hcnt
  · rw [r8, r14]; intro he; rw [r15 he]; exact hrqm he
  · rw [r13, r8]; exact hbnd
  · rw [r8, r5, hF, s9, s5, s7]; exact hnum
  · rw [s6, r6, hB]; exact hack
  · rw [hF, s9, s2]; exact hmiu
  · rw [s7, s9]; exact hsqe
  · rw [s8, r9, r14, r8, hF, s7, s9]; exact hcons
  · rw [r10, r11, r12]; exact hfl

/-! ### leaving the established state -/

/-- the sender stops sending: its queue holds no I PDU any more -/
theorem Dir.leaveS {S S' R : Ep} {wF wB : List Pdu} (h : Dir S R wF wB)
    (h1 : S'.sendWin = S.sendWin) (h2 : S'.sendMiu = S.sendMiu) (h3 : S'.vs = S.vs) (h4 : S'.vsa = S.vsa)
    (h5 : S'.gS = S.gS) (h6 : S'.gSA = S.gSA) (h7 : S'.accepted = S.accepted)
    (hst : S'.st ≠ .established) (hsq : sqI S'.sq = []) : Dir S' R wF wB := by
  obtain ⟨hwin, hvs, hvsa, hvr, hvra, hord, hcnt, hrqm, hbnd, hnum, hack, hmiu, hsqe, hcons, hfl⟩ := h
  refine ⟨?_, ?_, ?_, hvr, hvra, ?_, hcnt, hrqm, hbnd, ?_, ?_, ?_, ?_, ?_, hfl⟩
  · rw [h1, h2]; exact hwin
  · rw [h3, h5]; exact hvs
  · rw [h4, h6]; exact hvsa
  · rw [h6, h5, h1]; exact hord
  · intro hr
    obtain ⟨n1, n2, _⟩ := hnum hr
    rw [hsq, h5, List.append_nil]
    refine ⟨numbered_prefix _ _ _ n1, ?_, fun he => absurd he hst⟩
    simp only [List.length_append] at n2; omega
  · rw [h6]; exact hack
  · rw [hsq, h2, List.append_nil]; intro p hp; exact hmiu p (List.mem_append_left _ hp)
  · intro _; exact hsq
  · obtain ⟨tail, c1, _⟩ := hcons
    exact ⟨tail, by rw [h7]; exact c1, fun he => absurd he hst⟩

/-- the receiver stops receiving: either its queue survives (CLOSE_WAIT, DISCONNECT) or it is
shut down with an empty queue -/
theorem Dir.leaveR {S R R' : Ep} {wF wB : List Pdu} (h : Dir S R wF wB)
    (h1 : R'.recvWin = R.recvWin) (h2 : R'.recvMiu = R.recvMiu) (h3 : R'.vr = R.vr) (h4 : R'.vra = R.vra)
    (h5 : R'.gR = R.gR) (h6 : R'.gRA = R.gRA) (h7 : R'.delivered = R.delivered)
    (h8 : R'.gFrmr = R.gFrmr ∧ R'.gDiscard = R.gDiscard ∧ R'.gOverrun = R.gOverrun)
    (hst : R'.st ≠ .established)
    (hb : R'.bound = false → R'.st = .shutdown)
    (hrq : ((R'.st = .shutdown ∨ R'.st = .disconnect) ∧ rqMsgs R'.rq = []) ∨
           (R.st = .established ∧ R'.confs = R.confs ∧ rqMsgs R'.rq = rqMsgs R.rq)) : Dir S R' wF wB := by
  obtain ⟨hwin, hvs, hvsa, hvr, hvra, hord, hcnt, hrqm, hbnd, hnum, hack, hmiu, hsqe, hcons, hfl⟩ := h
  refine ⟨?_, hvs, hvsa, ?_, ?_, ?_, ?_, fun he => absurd he hst, hb, fun he => absurd he hst, ?_, hmiu, hsqe, ?_, ?_⟩
  · rw [h1, h2]; exact hwin
  · rw [h3, h5]; exact hvr
  · rw [h4, h6]; exact hvra
  · rw [h6, h5]; exact hord
  · rcases hrq with ⟨hs, _⟩ | ⟨hs, hc, hm⟩
    · rcases hs with hs | hs
      · exact Or.inl hs
      · exact Or.inr (Or.inl hs)
    · rcases hcnt with hc' | hc' | hc'
      · rw [hs] at hc'; cases hc'
      · rw [hs] at hc'; cases hc'
      · right; right; rw [h6, hc, hm, h5]; exact hc'
  · rw [h6]; exact hack
  · obtain ⟨tail, c1, _⟩ := hcons
    rw [h7, if_neg hst]
    rcases hrq with ⟨_, hm⟩ | ⟨_, _, hm⟩
    · exact ⟨rqMsgs R.rq ++ (if R.st = .established then (iPart wF).map Prod.snd else []) ++ tail,
        by rw [hm, c1]; simp, fun _ he => absurd he hst⟩
    · exact ⟨(if R.st = .established then (iPart wF).map Prod.snd else []) ++ tail,
        by rw [hm, c1]; simp, fun _ he => absurd he hst⟩
  · rw [h8.1, h8.2.1, h8.2.2]; exact hfl

/-! ### PDUs that are taken from a wire without effect -/

/-- the sender ignores an acknowledgement (it is no longer established) or the PDU carries none -/
theorem Dir.dropB {S R : Ep} {wF wB wB' : List Pdu} (h : Dir S R wF wB)
    (hB : nrPart wB = nrPart wB' ∨ ∃ nr, nrPart wB = nr :: nrPart wB') : Dir S R wF wB' := by
  obtain ⟨hwin, hvs, hvsa, hvr, hvra, hord, hcnt, hrqm, hbnd, hnum, hack, hmiu, hsqe, hcons, hfl⟩ := h
  refine ⟨hwin, hvs, hvsa, hvr, hvra, hord, hcnt, hrqm, hbnd, hnum, ?_, hmiu, hsqe, hcons, hfl⟩
  rcases hB with hB | ⟨nr, hB⟩
  · rw [← hB]; exact hack
  · rw [hB] at hack; exact acksOk_drop _ _ _ _ hack

/-- a receiver that is not established ignores whatever arrives -/
theorem Dir.dropF {S R : Ep} {wF wF' : List Pdu} {wB : List Pdu} (h : Dir S R wF wB)
    (hst : R.st ≠ .established) (hF : iPart wF = iPart wF' ∨ ∃ x, iPart wF = x :: iPart wF') :
    Dir S R wF' wB := by
  obtain ⟨hwin, hvs, hvsa, hvr, hvra, hord, hcnt, hrqm, hbnd, hnum, hack, hmiu, hsqe, hcons, hfl⟩ := h
  refine ⟨hwin, hvs, hvsa, hvr, hvra, hord, hcnt, hrqm, hbnd, fun he => absurd he hst, hack, ?_, hsqe, ?_, hfl⟩
  · intro p hp
    apply hmiu p
    rcases hF with hF | ⟨x, hF⟩
    · rw [hF]; exact hp
    · rw [hF]; simp only [List.cons_append, List.mem_cons]; exact Or.inr hp
  · simpa [hst] using hcons

/-! ### the transitions that do something -/

theorem Dir.send {S R : Ep} {wF wB : List Pdu} (m : Bytes) (h : Dir S R wF wB) :
    Dir (S.send m).1 R wF wB := by
  unfold Ep.send
  split
  · exact h
  split
  · exact h
  split
  · exact h
  rename_i hst hlen hslots
  obtain ⟨hwin, hvs, hvsa, hvr, hvra, hord, hcnt, hrqm, hbnd, hnum, hack, hmiu, hsqe, hcons, hfl⟩ := h
  have hst' : S.st = .established := by simpa using hst
  have hlt : S.gS < S.gSA + S.sendWin := by
    unfold Ep.sendSlots at hslots
    rw [hvs, hvsa] at hslots
    omega
  refine ⟨hwin, ?_, hvsa, hvr, hvra, ?_, hcnt, hrqm, hbnd, ?_, hack, ?_, ?_, ?_, hfl⟩
  · simp [hvs]
  · simp; omega
  · intro hr
    obtain ⟨n1, n2, n3⟩ := hnum hr
    have n3 := n3 hst'
    simp only [sqI_append, sqI, ← List.append_assoc]
    refine ⟨numbered_append _ _ _ n1 ?_, by simp at n3 ⊢; omega, fun _ => by simp at n3 ⊢; omega⟩
    simp [hvs]; congr 1; simp at n3; omega
  · simp only [sqI_append, sqI, ← List.append_assoc]
    intro p hp
    rcases List.mem_append.1 hp with hp | hp
    · exact hmiu p hp
    · simp at hp; subst hp; simp; omega
  · intro hne; exact absurd hst' hne
  · obtain ⟨tail, h1, h2⟩ := hcons
    refine ⟨tail ++ [m], by simp [h1], ?_⟩
    intro _ hr
    simp [sqI_append, sqI, h2 hst' hr]

/-- the application takes a message from the receive queue -/
theorem Dir.recvMsg {S R : Ep} {wF wB : List Pdu} (d : Bytes) (rest : List Rq) (h : Dir S R wF wB)
    (hst : R.st ≠ .shutdown) (hst2 : R.st ≠ .disconnect) (hrq : R.rq = .msg d :: rest) :
    R.confs + 1 ≤ R.recvWin ∧
    Dir S { R with rq := rest, confs := R.confs + 1, delivered := R.delivered ++ [d] } wF wB := by
  obtain ⟨hwin, hvs, hvsa, hvr, hvra, hord, hcnt, hrqm, hbnd, hnum, hack, hmiu, hsqe, hcons, hfl⟩ := h
  have hc : R.gRA + R.confs + (rqMsgs rest).length + 1 = R.gR := by
    rcases hcnt with hc | hc | hc
    · exact absurd hc hst
    · exact absurd hc hst2
    · rw [hrq] at hc; simp [rqMsgs] at hc; omega
  refine ⟨by omega, ⟨hwin, hvs, hvsa, hvr, hvra, hord, Or.inr (Or.inr (by simp; omega)), ?_, hbnd, hnum, hack, hmiu, hsqe, ?_, hfl⟩⟩
  · intro he; have := hrqm he; rw [hrq] at this; simp [rqMsgs] at this; exact this
  · obtain ⟨tail, c1, c2⟩ := hcons
    refine ⟨tail, ?_, c2⟩
    rw [c1, hrq]; simp [rqMsgs]

/-- the receiver acknowledges everything its application consumed and sends the new N(R) -/
theorem Dir.confirm {S R : Ep} {wF wB wB' : List Pdu} (h : Dir S R wF wB) (hst : R.st = .established)
    (hB : nrPart wB' = nrPart wB ++ [R.confirm.vra]) : Dir S R.confirm wF wB' := by
  obtain ⟨hwin, hvs, hvsa, hvr, hvra, hord, hcnt, hrqm, hbnd, hnum, hack, hmiu, hsqe, hcons, hfl⟩ := h
  have hc : R.gRA + R.confs + (rqMsgs R.rq).length = R.gR := by
    rcases hcnt with hc | hc | hc
    · rw [hst] at hc; cases hc
    · rw [hst] at hc; cases hc
    · exact hc
  have hv : R.confirm.vra = (R.gRA + R.confs) % 16 := by simp [Ep.confirm, hvra]
  refine ⟨hwin, hvs, hvsa, hvr, hv, ?_, Or.inr (Or.inr ?_), hrqm, hbnd, hnum, ?_, hmiu, hsqe, hcons, hfl⟩
  · simp [Ep.confirm]; omega
  · simp [Ep.confirm]; omega
  · rw [hB, hv]; exact acksOk_snoc _ _ _ _ hack

/-- a PDU that repeats the current V(RA) -/
theorem Dir.sameAck {S R : Ep} {wF wB wB' : List Pdu} (h : Dir S R wF wB)
    (hB : nrPart wB' = nrPart wB ++ [R.vra]) : Dir S R wF wB' := by
  obtain ⟨hwin, hvs, hvsa, hvr, hvra, hord, hcnt, hrqm, hbnd, hnum, hack, hmiu, hsqe, hcons, hfl⟩ := h
  refine ⟨hwin, hvs, hvsa, hvr, hvra, hord, hcnt, hrqm, hbnd, hnum, ?_, hmiu, hsqe, hcons, hfl⟩
  rw [hB, hvra]; exact acksOk_snoc _ _ _ 0 hack

/-- the first I PDU of the send queue goes onto the wire -/
theorem Dir.emitI {S R : Ep} {wF wF' wB : List Pdu} (ns : Nat) (d : Bytes) (rest : List Out)
    (h : Dir S R wF wB) (hsq : S.sq = .i ns d :: rest) (hF : iPart wF' = iPart wF ++ [(ns, d)]) :
    S.st = .established ∧ Dir { S with sq := rest } R wF' wB := by
  obtain ⟨hwin, hvs, hvsa, hvr, hvra, hord, hcnt, hrqm, hbnd, hnum, hack, hmiu, hsqe, hcons, hfl⟩ := h
  have hI : sqI S.sq = (ns, d) :: sqI rest := by rw [hsq]; rfl
  have hst : S.st = .established := by
    cases hs : S.st <;> first | rfl | (have := hsqe (by rw [hs]; decide); rw [hI] at this; cases this)
  have hcat : iPart wF' ++ sqI rest = iPart wF ++ sqI S.sq := by rw [hF, hI]; simp
  refine ⟨hst, ⟨hwin, hvs, hvsa, hvr, hvra, hord, hcnt, hrqm, hbnd, ?_, hack, ?_, ?_, ?_, hfl⟩⟩
  · show R.st = .established → numbered R.gR (iPart wF' ++ sqI rest) ∧ _
    rw [hcat]; exact hnum
  · show ∀ p ∈ iPart wF' ++ sqI rest, _
    rw [hcat]; exact hmiu
  · intro hne; exact absurd hst hne
  · obtain ⟨tail, c1, c2⟩ := hcons
    by_cases hr : R.st = .established
    · have ht := c2 hst hr
      refine ⟨(sqI rest).map Prod.snd, ?_, fun _ _ => rfl⟩
      rw [c1, ht, hI, hF]; simp [hr]
    · exact ⟨tail, by simpa [hr] using c1, fun _ he => absurd he hr⟩

/-- N(R) processing at the sender -/
theorem Dir.ackIn {S R : Ep} {wF wB wB' : List Pdu} (nr : Nat) (h : Dir S R wF wB)
    (hB : nrPart wB = nr :: nrPart wB') : Dir (S.ackIn nr) R wF wB' := by
  obtain ⟨hwin, hvs, hvsa, hvr, hvra, hord, hcnt, hrqm, hbnd, hnum, hack, hmiu, hsqe, hcons, hfl⟩ := h
  rw [hB] at hack
  obtain ⟨mid, a1, a2, a3, a4⟩ := hack
  have hle := acksOk_le _ _ _ a4
  have ha : (((nr : Int) - S.vsa) % 16).toNat = mid - S.gSA := by
    rw [a3, hvsa]; omega
  unfold Ep.ackIn
  simp only [ha]
  split
  · rename_i hne
    have hsum : S.gSA + (mid - S.gSA) = mid := by omega
    refine ⟨hwin, hvs, ?_, hvr, hvra, ?_, hcnt, hrqm, hbnd, hnum, ?_, hmiu, hsqe, hcons, hfl⟩
    · dsimp only; rw [hsum]; exact a3
    · dsimp only; rw [hsum]; omega
    · dsimp only; rw [hsum]; exact a4
  · rename_i he
    have : mid = S.gSA := by omega
    subst this
    exact ⟨hwin, hvs, hvsa, hvr, hvra, hord, hcnt, hrqm, hbnd, hnum, a4, hmiu, hsqe, hcons, hfl⟩

/-- an I PDU arrives at an established receiver: it is in sequence, fits the MIU, fits the queue -/
theorem Dir.enqI {S R : Ep} {wF wF' wB : List Pdu} (ns : Nat) (d : Bytes) (h : Dir S R wF wB)
    (hst : R.st = .established) (hF : iPart wF = (ns, d) :: iPart wF') :
    d.length ≤ R.recvMiu ∧ ns = R.vr ∧ R.rq.length < R.recvWin ∧
    Dir S { R with vr := (R.vr + 1) % 16, gR := R.gR + 1, rq := R.rq ++ [.msg d] } wF' wB := by
  obtain ⟨hwin, hvs, hvsa, hvr, hvra, hord, hcnt, hrqm, hbnd, hnum, hack, hmiu, hsqe, hcons, hfl⟩ := h
  obtain ⟨n1, n2, n3⟩ := hnum hst
  rw [hF] at n1 n2 n3
  simp only [List.cons_append, numbered, List.length_cons, List.length_append] at n1 n2 n3
  have hc : R.gRA + R.confs + (rqMsgs R.rq).length = R.gR := by
    rcases hcnt with hc | hc | hc
    · rw [hst] at hc; cases hc
    · rw [hst] at hc; cases hc
    · exact hc
  have hm : d.length ≤ S.sendMiu := hmiu (ns, d) (by rw [hF]; simp)
  have hq := hrqm hst
  refine ⟨by omega, by rw [n1.1, hvr], by omega, ⟨hwin, hvs, hvsa, ?_, hvra, ?_, Or.inr (Or.inr ?_), ?_, hbnd, ?_, hack, ?_, hsqe, ?_, hfl⟩⟩
  · simp [hvr]
  · simp; omega
  · simp [rqMsgs_append, rqMsgs]; omega
  · intro _; simp [rqMsgs_append, rqMsgs]; omega
  · intro _
    refine ⟨n1.2, by simp; omega, fun he => by have := n3 he; simp; omega⟩
  · intro p hp; apply hmiu p; rw [hF]; simp only [List.cons_append, List.mem_cons]; exact Or.inr hp
  · obtain ⟨tail, c1, c2⟩ := hcons
    refine ⟨tail, ?_, c2⟩
    rw [c1, hF]; simp [hst, rqMsgs_append, rqMsgs]

/-! ### both directions at once -/

/-- the invariant of the connection: both directions of data flow -/
def Pair (a b : Ep) (wab wba : List Pdu) : Prop := Dir a b wab wba ∧ Dir b a wba wab

theorem iPart_snoc_ack (w : List Pdu) (e : Ep) (n : Nat) : iPart (w ++ [e.ackPdu n]) = iPart w := by
  unfold Ep.ackPdu; split <;> simp [iPart_append, iPart]

theorem nrPart_snoc_ack (w : List Pdu) (e : Ep) (n : Nat) : nrPart (w ++ [e.ackPdu n]) = nrPart w ++ [n] := by
  unfold Ep.ackPdu; split <;> simp [nrPart_append, nrPart]

theorem Pair.send {a b : Ep} {wab wba : List Pdu} (m : Bytes) (h : Pair a b wab wba) :
    Pair (a.send m).1 b wab wba := by
  refine ⟨h.1.send m, h.2.frame (SEq.rfl' _) ?_ rfl rfl⟩
  unfold Ep.send
  split
  · exact REq.rfl' _
  split
  · exact REq.rfl' _
  split
  · exact REq.rfl' _
  · exact ⟨rfl, rfl, rfl, rfl, rfl, rfl, rfl, rfl, rfl, rfl, rfl, rfl, rfl, rfl, fun _ => rfl⟩

theorem Pair.setBusy {a b : Ep} {wab wba : List Pdu} (x : Bool) (h : Pair a b wab wba) :
    Pair (a.setBusy x).1 b wab wba :=
  ⟨h.1.frame ⟨rfl, rfl, rfl, rfl, rfl, rfl, rfl, rfl, rfl⟩ (REq.rfl' _) rfl rfl,
   h.2.frame (SEq.rfl' _) ⟨rfl, rfl, rfl, rfl, rfl, rfl, rfl, rfl, rfl, rfl, rfl, rfl, rfl, rfl, fun _ => rfl⟩ rfl rfl⟩

theorem Pair.poll {a b : Ep} {wab wba : List Pdu} (k : PollKind) (h : Pair a b wab wba) :
    Pair (a.poll k).1 b wab wba := by
  unfold Ep.poll
  split
  · exact h
  split
  · exact h
  cases k
  · dsimp only; split <;> exact h
  · dsimp only; split <;> exact h
  · dsimp only
    split
    · exact ⟨h.1.frame ⟨rfl, rfl, rfl, rfl, rfl, rfl, rfl, rfl, rfl⟩ (REq.rfl' _) rfl rfl,
        h.2.frame (SEq.rfl' _) ⟨rfl, rfl, rfl, rfl, rfl, rfl, rfl, rfl, rfl, rfl, rfl, rfl, rfl, rfl, fun _ => rfl⟩ rfl rfl⟩
    · exact h

theorem Pair.shutdown {a a' b : Ep} {wab wba : List Pdu} (h : Pair a b wab wba)
    (h1 : a'.sendWin = a.sendWin) (h2 : a'.sendMiu = a.sendMiu) (h3 : a'.vs = a.vs) (h4 : a'.vsa = a.vsa)
    (h5 : a'.gS = a.gS) (h6 : a'.gSA = a.gSA) (h7 : a'.accepted = a.accepted)
    (r1 : a'.recvWin = a.recvWin) (r2 : a'.recvMiu = a.recvMiu) (r3 : a'.vr = a.vr) (r4 : a'.vra = a.vra)
    (r5 : a'.gR = a.gR) (r6 : a'.gRA = a.gRA) (r7 : a'.delivered = a.delivered)
    (r8 : a'.gFrmr = a.gFrmr ∧ a'.gDiscard = a.gDiscard ∧ a'.gOverrun = a.gOverrun)
    (hst : a'.st = .shutdown) (hsq : a'.sq = []) (hrq : a'.rq = []) : Pair a' b wab wba :=
  ⟨h.1.leaveS h1 h2 h3 h4 h5 h6 h7 (by rw [hst]; decide) (by rw [hsq]; rfl),
   h.2.leaveR r1 r2 r3 r4 r5 r6 r7 r8 (by rw [hst]; decide) (fun _ => hst) (Or.inl ⟨Or.inl hst, by rw [hrq]; rfl⟩)⟩

theorem Pair.recv {a b : Ep} {wab wba : List Pdu} (h : Pair a b wab wba) : Pair a.recv.1 b wab wba := by
  unfold Ep.recv
  split
  · exact h
  split
  · exact h
  rename_i hb hst
  have hns : a.st ≠ .shutdown := by
    intro hs; apply hst; rw [hs]; decide
  have hnd : a.st ≠ .disconnect := by
    intro hs; apply hst; rw [hs]; decide
  split
  · exact h
  · rename_i d rest hrq
    obtain ⟨hle, hd⟩ := h.2.recvMsg d rest hns hnd hrq
    split
    · omega
    · exact ⟨h.1.frame ⟨rfl, rfl, rfl, rfl, rfl, rfl, rfl, rfl, rfl⟩ (REq.rfl' _) rfl rfl, hd⟩
  · exact h.shutdown rfl rfl rfl rfl rfl rfl rfl rfl rfl rfl rfl rfl rfl rfl ⟨rfl, rfl, rfl⟩ rfl rfl rfl
  · rename_i rest hrq
    refine ⟨h.1.frame ⟨rfl, rfl, rfl, rfl, rfl, rfl, rfl, rfl, rfl⟩ (REq.rfl' _) rfl rfl,
      h.2.frame (SEq.rfl' _) ⟨rfl, rfl, rfl, rfl, rfl, rfl, rfl, rfl, rfl, rfl, rfl, rfl, rfl, ?_, ?_⟩ rfl rfl⟩
    · rw [hrq]; rfl
    · intro he
      have h1 := h.2.rqm he
      have h2 := rqMsgs_length_le rest
      rw [hrq] at h1; simp [rqMsgs] at h1; omega

theorem Pair.close {a b : Ep} {wab wba : List Pdu} (h : Pair a b wab wba) : Pair a.close.1 b wab wba := by
  unfold Ep.close
  split
  · exact h
  split
  · rename_i hst
    refine ⟨h.1.leaveS rfl rfl rfl rfl rfl rfl rfl (by simp) rfl,
      h.2.leaveR rfl rfl rfl rfl rfl rfl rfl ⟨rfl, rfl, rfl⟩ (by simp) ?_ (Or.inl ⟨Or.inr rfl, rfl⟩)⟩
    intro hb
    have := h.2.bnd hb
    rw [hst] at this; cases this
  · exact h.shutdown rfl rfl rfl rfl rfl rfl rfl rfl rfl rfl rfl rfl rfl rfl ⟨rfl, rfl, rfl⟩ rfl rfl rfl

theorem Pair.closeFin {a b : Ep} {wab wba : List Pdu} (h : Pair a b wab wba) : Pair a.closeFin.1 b wab wba := by
  unfold Ep.closeFin
  split
  · exact h
  · exact h.shutdown rfl rfl rfl rfl rfl rfl rfl rfl rfl rfl rfl rfl rfl rfl ⟨rfl, rfl, rfl⟩ rfl rfl rfl

private theorem seq_confirm (a : Ep) : SEq a a.confirm := ⟨rfl, rfl, rfl, rfl, rfl, rfl, rfl, rfl, rfl⟩

/-- the "necessary acknowledgement" branch of `dequeue` and the whole of `sendack` -/
theorem Pair.ackStep {a b : Ep} {wab wba : List Pdu} (c : Prop) [Decidable c] (h : Pair a b wab wba)
    (hc : c → a.st = .established) :
    let r : Ep × Option Pdu := if c then (a.confirm, some (a.ackPdu a.confirm.vra)) else (a, none)
    Pair r.1 b (wab ++ r.2.toList) wba := by
  intro r
  by_cases hcc : c
  · have hr : r = (a.confirm, some (a.ackPdu a.confirm.vra)) := if_pos hcc
    rw [hr]
    exact ⟨h.1.frame (seq_confirm a) (REq.rfl' _) (iPart_snoc_ack _ _ _) rfl,
      h.2.confirm (hc hcc) (nrPart_snoc_ack _ _ _)⟩
  · have hr : r = (a, none) := if_neg hcc
    rw [hr]
    simpa using h

theorem Pair.sendack {a b : Ep} {wab wba : List Pdu} (h : Pair a b wab wba) :
    Pair a.sendack.1 b (wab ++ a.sendack.2.toList) wba := by
  unfold Ep.sendack
  exact h.ackStep _ (fun hc => hc.1)

theorem Pair.deq {a b : Ep} {wab wba : List Pdu} (budget : Int) (h : Pair a b wab wba) :
    Pair (a.deq budget).1 b (wab ++ (a.deq budget).2.toList) wba := by
  unfold Ep.deq
  split
  · -- RR / RNR announcing a change of the busy condition
    exact ⟨h.1.frame ⟨rfl, rfl, rfl, rfl, rfl, rfl, rfl, rfl, rfl⟩ (REq.rfl' _) (iPart_snoc_ack _ _ _) rfl,
      (h.2.sameAck (nrPart_snoc_ack wab a a.vra)).frame (SEq.rfl' _)
        ⟨rfl, rfl, rfl, rfl, rfl, rfl, rfl, rfl, rfl, rfl, rfl, rfl, rfl, rfl, fun _ => rfl⟩ rfl rfl⟩
  have hnec := h.ackStep (a.st = .established ∧ a.confs ≠ 0 ∧ a.recvSlots = 0) (fun hc => hc.1)
  dsimp only at hnec ⊢
  split
  · exact hnec
  rename_i p rest hsq
  split
  · exact hnec
  split
  · -- FRMR leaves: the connection is shut down
    rename_i f t ns nr vs vr vsa vra _
    have h' : Pair a b (wab ++ [Pdu.frmr f t ns nr vs vr vsa vra]) wba :=
      ⟨h.1.frame (SEq.rfl' _) (REq.rfl' _) (by simp [iPart_append, iPart]) rfl,
       h.2.frame (SEq.rfl' _) (REq.rfl' _) rfl (by simp [nrPart_append, nrPart])⟩
    exact h'.shutdown (a' := { a with sq := rest }.shut)
      rfl rfl rfl rfl rfl rfl rfl rfl rfl rfl rfl rfl rfl rfl ⟨rfl, rfl, rfl⟩ rfl rfl rfl
  · -- I PDU
    rename_i ns d _
    split
    · rename_i hst
      split
      · refine ⟨((h.1.emitI ns d rest hsq (wF' := wab ++ [Pdu.i ns a.confirm.vra d])
            (by simp [iPart_append, iPart])).2).frame ⟨rfl, rfl, rfl, rfl, rfl, rfl, rfl, rfl, rfl⟩ (REq.rfl' _) rfl rfl,
          (h.2.confirm hst (wB' := wab ++ [Pdu.i ns a.confirm.vra d]) (by simp [nrPart_append, nrPart])).frame
            (SEq.rfl' _) ⟨rfl, rfl, rfl, rfl, rfl, rfl, rfl, rfl, rfl, rfl, rfl, rfl, rfl, rfl, fun _ => rfl⟩ rfl rfl⟩
      · refine ⟨(h.1.emitI ns d rest hsq (wF' := wab ++ [Pdu.i ns a.vra d]) (by simp [iPart_append, iPart])).2,
          (h.2.sameAck (wB' := wab ++ [Pdu.i ns a.vra d]) (by simp [nrPart_append, nrPart])).frame
            (SEq.rfl' _) ⟨rfl, rfl, rfl, rfl, rfl, rfl, rfl, rfl, rfl, rfl, rfl, rfl, rfl, rfl, fun _ => rfl⟩ rfl rfl⟩
    · rename_i hst
      exact absurd (h.1.emitI ns d rest hsq (wF' := wab ++ [Pdu.i ns 0 d]) (by simp [iPart_append, iPart])).1 hst
  · -- DM
    rename_i r _
    split
    · rename_i hst
      refine ⟨h.1.frame ⟨rfl, rfl, rfl, rfl, rfl, rfl, rfl, rfl, by rw [hsq]; rfl⟩ (REq.rfl' _)
          (by simp [iPart_append, iPart]) rfl,
        h.2.frame (SEq.rfl' _) ⟨rfl, rfl, rfl, rfl, rfl, rfl, rfl, rfl, rfl, rfl, rfl, rfl, rfl, ?_, ?_⟩ rfl
          (by simp [nrPart_append, nrPart])⟩
      · simp [rqMsgs_append, rqMsgs]
      · intro he; rw [hst] at he; cases he
    · exact ⟨h.1.frame ⟨rfl, rfl, rfl, rfl, rfl, rfl, rfl, rfl, by rw [hsq]; rfl⟩ (REq.rfl' _)
          (by simp [iPart_append, iPart]) rfl,
        h.2.frame (SEq.rfl' _) ⟨rfl, rfl, rfl, rfl, rfl, rfl, rfl, rfl, rfl, rfl, rfl, rfl, rfl, rfl, fun _ => rfl⟩ rfl
          (by simp [nrPart_append, nrPart])⟩
  · -- DISC
    exact ⟨h.1.frame ⟨rfl, rfl, rfl, rfl, rfl, rfl, rfl, rfl, by rw [hsq]; rfl⟩ (REq.rfl' _)
        (by simp [iPart_append, iPart]) rfl,
      h.2.frame (SEq.rfl' _) ⟨rfl, rfl, rfl, rfl, rfl, rfl, rfl, rfl, rfl, rfl, rfl, rfl, rfl, rfl, fun _ => rfl⟩ rfl
        (by simp [nrPart_append, nrPart])⟩

/-! ### delivery of one PDU -/

theorem nrPart_cons_cases (p : Pdu) (rest : List Pdu) :
    nrPart (p :: rest) = nrPart rest ∨ ∃ nr, nrPart (p :: rest) = nr :: nrPart rest := by
  cases p <;> simp [nrPart]

theorem iPart_cons_cases (p : Pdu) (rest : List Pdu) :
    iPart (p :: rest) = iPart rest ∨ ∃ x, iPart (p :: rest) = x :: iPart rest := by
  cases p <;> simp [iPart]

/-- an endpoint that is not established ignores what arrives -/
theorem Pair.drop {a b : Ep} {wab : List Pdu} {p : Pdu} {rest : List Pdu} (h : Pair a b wab (p :: rest))
    (hst : a.st ≠ .established) : Pair a b wab rest :=
  ⟨h.1.dropB (nrPart_cons_cases p rest), h.2.dropF hst (iPart_cons_cases p rest)⟩

section ackIn
variable (e : Ep) (nr : Nat)
@[simp] theorem ackIn_recvWin : (e.ackIn nr).recvWin = e.recvWin := by simp only [Ep.ackIn]; split <;> rfl
@[simp] theorem ackIn_recvMiu : (e.ackIn nr).recvMiu = e.recvMiu := by simp only [Ep.ackIn]; split <;> rfl
@[simp] theorem ackIn_vr : (e.ackIn nr).vr = e.vr := by simp only [Ep.ackIn]; split <;> rfl
@[simp] theorem ackIn_vra : (e.ackIn nr).vra = e.vra := by simp only [Ep.ackIn]; split <;> rfl
@[simp] theorem ackIn_gR : (e.ackIn nr).gR = e.gR := by simp only [Ep.ackIn]; split <;> rfl
@[simp] theorem ackIn_gRA : (e.ackIn nr).gRA = e.gRA := by simp only [Ep.ackIn]; split <;> rfl
@[simp] theorem ackIn_confs : (e.ackIn nr).confs = e.confs := by simp only [Ep.ackIn]; split <;> rfl
@[simp] theorem ackIn_st : (e.ackIn nr).st = e.st := by simp only [Ep.ackIn]; split <;> rfl
@[simp] theorem ackIn_delivered : (e.ackIn nr).delivered = e.delivered := by simp only [Ep.ackIn]; split <;> rfl
@[simp] theorem ackIn_gFrmr : (e.ackIn nr).gFrmr = e.gFrmr := by simp only [Ep.ackIn]; split <;> rfl
@[simp] theorem ackIn_gDiscard : (e.ackIn nr).gDiscard = e.gDiscard := by simp only [Ep.ackIn]; split <;> rfl
@[simp] theorem ackIn_gOverrun : (e.ackIn nr).gOverrun = e.gOverrun := by simp only [Ep.ackIn]; split <;> rfl
@[simp] theorem ackIn_bound : (e.ackIn nr).bound = e.bound := by simp only [Ep.ackIn]; split <;> rfl
@[simp] theorem ackIn_rq : (e.ackIn nr).rq = e.rq := by simp only [Ep.ackIn]; split <;> rfl
theorem ackIn_REq : REq e (e.ackIn nr) := by simp [REq]
end ackIn

theorem Pair.enq {a b : Ep} {wab : List Pdu} {p : Pdu} {rest : List Pdu} (h : Pair a b wab (p :: rest)) :
    Pair (a.enq p) b wab rest := by
  unfold Ep.enq
  split
  · rename_i hb
    refine h.drop ?_
    rw [h.2.bnd hb]; decide
  split
  · rename_i hst
    -- established
    cases p with
    | i ns nr d =>
      obtain ⟨hlen, hns, hq, hd⟩ := h.2.enqI (wF' := rest) ns d hst rfl
      have hab := h.1.ackIn (wB' := rest) nr rfl
      simp only [Ep.enqEst]
      rw [if_neg (by omega), if_neg (by simp [hns])]
      simp only [ackIn_rq, ackIn_recvWin, ackIn_vr, ackIn_gR]
      rw [if_pos hq]
      exact ⟨hab.frame ⟨rfl, rfl, rfl, rfl, rfl, rfl, rfl, rfl, rfl⟩ (REq.rfl' _) rfl rfl,
        hd.frame (SEq.rfl' _) (by simp [REq]) rfl rfl⟩
    | iNone ns d =>
      exact ⟨h.1.frame (SEq.rfl' _) (REq.rfl' _) rfl rfl, h.2.frame (SEq.rfl' _) (REq.rfl' _) rfl rfl⟩
    | rr nr =>
      exact ⟨(h.1.ackIn (wB' := rest) nr rfl).frame ⟨rfl, rfl, rfl, rfl, rfl, rfl, rfl, rfl, rfl⟩ (REq.rfl' _) rfl rfl,
        h.2.frame (SEq.rfl' _) (by simp [REq, Ep.enqEst]) rfl rfl⟩
    | rnr nr =>
      exact ⟨(h.1.ackIn (wB' := rest) nr rfl).frame ⟨rfl, rfl, rfl, rfl, rfl, rfl, rfl, rfl, rfl⟩ (REq.rfl' _) rfl rfl,
        h.2.frame (SEq.rfl' _) (by simp [REq, Ep.enqEst]) rfl rfl⟩
    | disc =>
      have h' : Pair a b wab rest :=
        ⟨h.1.frame (SEq.rfl' _) (REq.rfl' _) rfl rfl, h.2.frame (SEq.rfl' _) (REq.rfl' _) rfl rfl⟩
      refine ⟨h'.1.leaveS rfl rfl rfl rfl rfl rfl rfl (by simp [Ep.enqEst]) rfl,
        h'.2.leaveR rfl rfl rfl rfl rfl rfl rfl ⟨rfl, rfl, rfl⟩ (by simp [Ep.enqEst]) ?_
          (Or.inr ⟨hst, rfl, rfl⟩)⟩
      intro hb
      have := h.2.bnd hb
      rw [hst] at this; cases this
    | dm r =>
      exact ⟨h.1.frame (SEq.rfl' _) (REq.rfl' _) rfl rfl, h.2.frame (SEq.rfl' _) (REq.rfl' _) rfl rfl⟩
    | frmr f t ns nr vs vr vsa vra =>
      have h' : Pair a b wab rest :=
        ⟨h.1.frame (SEq.rfl' _) (REq.rfl' _) rfl rfl, h.2.frame (SEq.rfl' _) (REq.rfl' _) rfl rfl⟩
      exact h'.shutdown (a' := a.shut) rfl rfl rfl rfl rfl rfl rfl rfl rfl rfl rfl rfl rfl rfl ⟨rfl, rfl, rfl⟩ rfl rfl rfl
  · rename_i hst
    have hne : a.st ≠ .established := by rw [hst]; decide
    have h' := h.drop hne
    split
    · exact ⟨h'.1.frame ⟨rfl, rfl, rfl, rfl, rfl, rfl, rfl, rfl, rfl⟩ (REq.rfl' _) rfl rfl,
        h'.2.frame (SEq.rfl' _) ⟨rfl, rfl, rfl, rfl, rfl, rfl, rfl, rfl, rfl, rfl, rfl, rfl, rfl,
          by simp [rqMsgs_append, rqMsgs], fun he => absurd he hne⟩ rfl rfl⟩
    · exact h'
  · rename_i hne1 hne2
    refine h.drop ?_
    intro he; exact hne1 he

/-! ### the system invariant -/

def Inv (s : Sys) : Prop := Pair s.a s.b s.wab s.wba

theorem Inv.swap {s : Sys} (h : Inv s) : Inv s.swap := ⟨h.2, h.1⟩

theorem stepA_inv (s : Sys) (op : Op) (h : Inv s) : Inv (stepA s op).1 := by
  cases op with
  | send m => exact Pair.send m h
  | recv => exact Pair.recv h
  | busy x => exact Pair.setBusy x h
  | poll k => exact Pair.poll k h
  | deq budget => exact Pair.deq budget h
  | ack => exact Pair.sendack h
  | close => exact Pair.close h
  | closeFin => exact Pair.closeFin h
  | dlv =>
    simp only [stepA]
    split
    · exact h
    · rename_i p rest hw
      have h' : Pair s.a s.b s.wab (p :: rest) := hw ▸ h
      exact h'.enq

theorem step_inv (s : Sys) (x : Side) (op : Op) (h : Inv s) : Inv (step s x op).1 := by
  cases x with
  | A => exact stepA_inv s op h
  | B => exact (stepA_inv s.swap op h.swap).swap

theorem run_inv (s : Sys) (ops : List (Side × Op)) (h : Inv s) : Inv (run s ops) := by
  induction ops generalizing s with
  | nil => exact h
  | cons o ops ih => exact ih _ (step_inv s o.1 o.2 h)

theorem init_dir (sm rm sw rw sm' rm' sw' rw' : Nat) (h2 : sw ≤ 15) (h3 : sw = rw') (h4 : sm ≤ rm') :
    Dir (Ep.init sm rm sw rw) (Ep.init sm' rm' sw' rw') [] [] := by
  refine ⟨⟨h2, h3, h4⟩, rfl, rfl, rfl, rfl, ?_, Or.inr (Or.inr rfl), fun _ => rfl, ?_, ?_, ?_, ?_, ?_, ?_, ⟨rfl, rfl, rfl⟩⟩
  · simp [Ep.init]
  · intro hb; simp [Ep.init] at hb
  · intro _; simp [Ep.init, iPart, sqI, numbered]
  · simp [Ep.init, nrPart, acksOk]
  · simp [Ep.init, iPart, sqI]
  · intro _; rfl
  · exact ⟨[], by simp [Ep.init, rqMsgs, iPart], fun _ _ => by simp [Ep.init, sqI]⟩

theorem init_inv (c : Cfg) (h : c.ok) : Inv (init c) := by
  obtain ⟨a2, b2, e1, e2, m1, m2⟩ := h
  exact ⟨init_dir _ _ _ _ _ _ _ _ (by omega) e1 m1, init_dir _ _ _ _ _ _ _ _ (by omega) e2 m2⟩

theorem reach_inv (c : Cfg) (h : c.ok) (ops : List (Side × Op)) : Inv (run (init c) ops) :=
  run_inv _ ops (init_inv c h)

/-! ### local bookkeeping of one endpoint: ghost totals are the lengths of the logs -/

def EpLen (e : Ep) : Prop :=
  e.gS = e.accepted.length ∧ (e.gOverrun = false → e.gRA + e.confs = e.delivered.length)

theorem EpLen.send {e : Ep} (m : Bytes) (h : EpLen e) : EpLen (e.send m).1 := by
  unfold Ep.send; repeat' split
  all_goals first | exact h | (obtain ⟨h1, h2⟩ := h; exact ⟨by simp [h1], h2⟩)

theorem EpLen.recv {e : Ep} (h : EpLen e) : EpLen e.recv.1 := by
  unfold Ep.recv; repeat' split
  all_goals first | exact h | (obtain ⟨h1, h2⟩ := h; refine ⟨h1, ?_⟩; intro ho; first | (simp at ho; done) | (have := h2 ho; simp; omega))

theorem EpLen.poll {e : Ep} (k : PollKind) (h : EpLen e) : EpLen (e.poll k).1 := by
  unfold Ep.poll; cases k <;> (repeat' split) <;> exact h

theorem EpLen.confirm {e : Ep} (h : EpLen e) : EpLen e.confirm := by
  obtain ⟨h1, h2⟩ := h; exact ⟨h1, fun ho => by have := h2 ho; simp [Ep.confirm]; omega⟩

theorem EpLen.deq {e : Ep} (b : Int) (h : EpLen e) : EpLen (e.deq b).1 := by
  have hc := h.confirm
  unfold Ep.deq; repeat' split
  all_goals first | exact h | exact hc

theorem EpLen.sendack {e : Ep} (h : EpLen e) : EpLen e.sendack.1 := by
  have hc := h.confirm
  unfold Ep.sendack; split
  · exact hc
  · exact h

theorem EpLen.ackIn {e : Ep} (nr : Nat) (h : EpLen e) : EpLen (e.ackIn nr) := by
  simp only [Ep.ackIn]; split
  · exact h
  · exact h

theorem EpLen.enq {e : Ep} (p : Pdu) (h : EpLen e) : EpLen (e.enq p) := by
  have ha := fun nr => h.ackIn (e := e) nr
  unfold Ep.enq; split
  · exact h
  split
  · cases p <;> simp only [Ep.enqEst]
    · repeat' split
      all_goals first | exact h | exact ha _
    all_goals first | exact h | exact ha _
  · split <;> exact h
  · exact h

theorem EpLen.close {e : Ep} (h : EpLen e) : EpLen e.close.1 := by
  unfold Ep.close
  split
  · exact h
  split
  · exact h
  · exact h

theorem EpLen.closeFin {e : Ep} (h : EpLen e) : EpLen e.closeFin.1 := by
  unfold Ep.closeFin; split <;> exact h

theorem stepA_len (s : Sys) (op : Op) (h : EpLen s.a ∧ EpLen s.b) : EpLen (stepA s op).1.a ∧ EpLen (stepA s op).1.b := by
  cases op with
  | send m => exact ⟨h.1.send m, h.2⟩
  | recv => exact ⟨h.1.recv, h.2⟩
  | busy x => exact h
  | poll k => exact ⟨h.1.poll k, h.2⟩
  | deq budget => exact ⟨h.1.deq budget, h.2⟩
  | ack => exact ⟨h.1.sendack, h.2⟩
  | close => exact ⟨h.1.close, h.2⟩
  | closeFin => exact ⟨h.1.closeFin, h.2⟩
  | dlv =>
    simp only [stepA]
    split
    · exact h
    · exact ⟨h.1.enq _, h.2⟩

theorem run_len (s : Sys) (ops : List (Side × Op)) (h : EpLen s.a ∧ EpLen s.b) :
    EpLen (run s ops).a ∧ EpLen (run s ops).b := by
  induction ops generalizing s with
  | nil => exact h
  | cons o ops ih =>
    apply ih
    obtain ⟨x, op⟩ := o
    cases x with
    | A => exact stepA_len s op h
    | B => exact (stepA_len s.swap op ⟨h.2, h.1⟩).symm

theorem reach_len (c : Cfg) (ops : List (Side × Op)) :
    EpLen (run (init c) ops).a ∧ EpLen (run (init c) ops).b :=
  run_len _ ops ⟨⟨rfl, fun _ => rfl⟩, ⟨rfl, fun _ => rfl⟩⟩

end NfcVerif.Dlc
