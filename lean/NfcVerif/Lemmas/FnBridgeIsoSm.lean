import NfcVerif.Gen.FnIsoSm
import NfcVerif.Model.Retry
import NfcVerif.Model.AdvT34
import NfcVerif.Model.FnIsoSmRef
import NfcVerif.Props.FnBridgeT4
/-!
Auxiliary definitions for `Props/FnBridgeIsoSm.lean`: the functions of `Model/IsoDep.lean` (ISO-DEP initiator),
`Model/AdvT34.lean` (Type 4 Tag NDEF read against an arbitrary card) and `Model/T4.lean` (NDEF write plan) rebuilt from
regenerated pieces (`Gen/FnIsoSm.lean`, `Gen/FnT4.lean`).

In the `..Gen` functions every condition, block, counter comparison, error reason and every arithmetic expression is a
call of a regenerated definition.  Hand-written remain

* `clf.exchange` (`World.xchg`, `Xp.run`) and the mapping of its outcome to the exception class that enters the `try`
  statement (`Rx.timeout` -> `TimeoutError`, `Rx.transmission` -> `TransmissionError`, `Rx.protocol` -> `ProtocolError`);
* the `try` statement itself: `tried` is the body as a `Py` computation, the `match` behind it selects the handler by
  exception class in the order of the source (`TransmissionError`, `TimeoutError`, `ProtocolError`);
* the order of the pieces, and what follows a check that passed.
-/
/-! VARIANT for a tree with fixes/C08/0010-0012 applied: the ISO-DEP twins follow `Model/IsoDepC08.lean` (`IsoDepR`, all
repairs on). -/
namespace NfcVerif.FnBridge.IsoSm
open NfcVerif NfcVerif.PyFn NfcVerif.IsoDep

/-- the exception that leaves `_exchange` for an outcome of the air (`.fuel` is an artefact of the model's fuel; `.waited`:
`_exchange` itself raised Type4TagCommandError(TIMEOUT_ERROR) for too many waiting time extensions) -/
def rxTry : IsoDepR.RxW → Py Bytes
  | .data d => .ok d
  | .timeout => .error .timeout
  | .transmission => .error .transmission
  | .protocol => .error .protocol
  | .fuel => .error .outOfFuel
  | .waited => .error (.tagCmd TIMEOUT_ERROR)

/-- `clf.exchange` of the presence check (no S(WTX) handling there) -/
def rxTry0 : Rx → Py Bytes
  | .data d => .ok d
  | .timeout => .error .timeout
  | .transmission => .error .transmission
  | .protocol => .error .protocol
  | .fuel => .error .outOfFuel

/-- a handler that ends in `raise`: the exception it raises -/
def raised {α} (x : Py Unit) : Py α :=
  match x with
  | .error e => .error e
  | .ok _ => .error .runtime

section isodep
variable {σ : Type} (P : Peer σ)

/-- `IsoDepInitiator._exchange`: loop condition, WTXM range check and the sum of the granted multipliers regenerated;
`lim` is `self.max_wtxm_sum`, `sum` is `wtxm_sum`.  A ProtocolError leaves `_exchange` as such (`.protocol`), the
Type4TagCommandError as `.waited`; the index expression cannot raise behind the loop condition. -/
def xchgWGen (lim : Nat) : Nat → Nat → World σ → Bytes → World σ × IsoDepR.RxW
  | 0, _, w, _ => (w, .fuel)
  | f+1, sum, w, out =>
    match w.xchg P out with
    | (w', .data d) =>
      (match Gen.Fn.iso_wtx_test d with
       | .ok true =>
         (match Gen.Fn.iso_wtx_step d (sum : Int) (lim : Int) with
          | .ok st => xchgWGen lim f st.2.toNat w' d
          | .error (.tagCmd _) => (w', .waited)
          | .error _ => (w', .protocol))
       | _ => (w', .data d))
    | (w', .timeout) => (w', .timeout)
    | (w', .transmission) => (w', .transmission)
    | (w', .protocol) => (w', .protocol)
    | (w', .fuel) => (w', .fuel)

/-- the retry loop of the command phase for the I-block `pfb + command[offset:offset+miu]` -/
def cmdLoopGen (lim F n pni : Nat) (pfb cmd : Bytes) (offset miu : Int) : Nat → Nat → Bytes → World σ → World σ × Py Bytes
  | 0, _, _, w => (w, .error .outOfFuel)
  | f+1, i, out, w =>
    let r := xchgWGen P lim F 0 w out
    let tried : Py (Bool × Bytes) :=
      rxTry r.2 >>= fun d =>
      Gen.Fn.iso_empty_chk d >>= fun _ =>
      Gen.Fn.iso_resend_test d (pni : Int) >>= fun again =>
      if again = true then Gen.Fn.iso_resend_budget (i : Int) (n : Int) >>= fun _ => .ok (true, d) else .ok (false, d)
    match tried with
    | .ok (true, _) => cmdLoopGen lim F n pni pfb cmd offset miu f (i+1) (Gen.Fn.iso_resend_blk pfb cmd offset miu) r.1
    | .ok (false, d) => (r.1, .ok d)
    | .error .transmission =>
      (match Gen.Fn.iso_nak_on_transmission (i : Int) (n : Int) (pni : Int) with
       | .ok blk => cmdLoopGen lim F n pni pfb cmd offset miu f (i+1) blk r.1
       | .error e => (r.1, .error e))
    | .error .timeout =>
      (match Gen.Fn.iso_nak_on_timeout (i : Int) (n : Int) (pni : Int) with
       | .ok blk => cmdLoopGen lim F n pni pfb cmd offset miu f (i+1) blk r.1
       | .error e => (r.1, .error e))
    | .error .protocol => (r.1, raised Gen.Fn.iso_cmd_on_protocol)
    | .error e => (r.1, .error e)

/-- the retry loop of the response phase (R(ACK) sent, the next block awaited) -/
def rspLoopGen (lim F n pni : Nat) : Nat → Nat → Bytes → World σ → World σ × Py Bytes
  | 0, _, _, w => (w, .error .outOfFuel)
  | f+1, i, out, w =>
    let r := xchgWGen P lim F 0 w out
    let tried : Py Bytes := rxTry r.2 >>= fun d => Gen.Fn.iso_empty_chk_r d >>= fun _ => .ok d
    match tried with
    | .ok d => (r.1, .ok d)
    | .error .transmission =>
      (match Gen.Fn.iso_ack_on_transmission (i : Int) (n : Int) (pni : Int) with
       | .ok blk => rspLoopGen lim F n pni f (i+1) blk r.1
       | .error e => (r.1, .error e))
    | .error .timeout =>
      (match Gen.Fn.iso_ack_on_timeout (i : Int) (n : Int) (pni : Int) with
       | .ok blk => rspLoopGen lim F n pni f (i+1) blk r.1
       | .error e => (r.1, .error e))
    | .error .protocol => (r.1, raised Gen.Fn.iso_rsp_on_protocol)
    | .error e => (r.1, .error e)

/-- the loop over the command blocks, by offsets; returns the last answer and `response = data[1:]`.  The source leaves
the loop when the offsets are used up; `more` is false exactly at the last offset (`iblock_more_iff`). -/
def sendOffsetsGen (lim F nNak : Nat) (cmd : Bytes) (miu : Int) : List Int → Nat → World σ → World σ × Nat × Py (Bytes × Bytes)
  | [], pni, w => (w, pni, .error .unbound)
  | o :: os, pni, w =>
    match Gen.Fn.iso_iblock cmd o miu (pni : Int) with
    | .error e => (w, pni, .error e)
    | .ok (more, pfb, blk) =>
      let r := cmdLoopGen P lim F nNak pni pfb cmd o miu F 1 blk w
      match r.2 with
      | .error e => (r.1, pni, .error e)
      | .ok d =>
        match Gen.Fn.iso_bn_chk_cmd d (pni : Int) with
        | .error e => (r.1, pni, .error e)
        | .ok _ =>
          if more = true then
            (match Gen.Fn.iso_ack_step d (pni : Int) with
             | .error e => (r.1, pni, .error e)
             | .ok pni' => sendOffsetsGen lim F nNak cmd miu os pni'.toNat r.1)
          else
            (match Gen.Fn.iso_inf_step d (pni : Int) with
             | .error e => (r.1, pni, .error e)
             | .ok (pni', response) => (r.1, pni'.toNat, .ok (d, response)))

/-- `while bool(data[0] & 0x10)` -/
def recvChainGen (lim F nAck : Nat) : Nat → Nat → Bytes → Bytes → World σ → World σ × Nat × Py Bytes
  | 0, pni, _, _, w => (w, pni, .error .outOfFuel)
  | f+1, pni, data, resp, w =>
    match Gen.Fn.iso_chain_test data with
    | .error e => (w, pni, .error e)
    | .ok false => (w, pni, .ok resp)
    | .ok true =>
      match Gen.Fn.iso_chain_chk data resp with
      | .error e => (w, pni, .error e)
      | .ok _ =>
      match Gen.Fn.iso_ack_blk (pni : Int) with
      | .error e => (w, pni, .error e)
      | .ok ack =>
        let r := rspLoopGen P lim F nAck pni F 1 ack w
        match r.2 with
        | .error e => (r.1, pni, .error e)
        | .ok d =>
          match Gen.Fn.iso_bn_chk_rsp d (pni : Int) with
          | .error e => (r.1, pni, .error e)
          | .ok _ =>
            let acc := Gen.Fn.iso_chain_acc resp d (pni : Int)
            recvChainGen lim F nAck f acc.2.toNat d acc.1 r.1

/-- `IsoDepInitiator._exchange_command(command)` for `command is not None`; an empty offset list leaves `data` unbound -/
def exchangeCmdGen (lim F : Nat) (pcd : Pcd) (cmd : Bytes) (w : World σ) : World σ × Pcd × Py Bytes :=
  match Gen.Fn.iso_offsets cmd pcd.miu with
  | .error e => (w, pcd, .error e)
  | .ok [] => (w, pcd, .error .unbound)
  | .ok offs =>
    let r := sendOffsetsGen P lim F pcd.nNak cmd pcd.miu offs pcd.pni w
    match r.2.2 with
    | .error e => (r.1, { pcd with pni := r.2.1 }, .error e)
    | .ok (d, response) =>
      let q := recvChainGen P lim F pcd.nAck F r.2.1 d response r.1
      (q.1, { pcd with pni := q.2.1 }, q.2.2)

/-- `IsoDepInitiator.exchange(command)` for `command is not None`: the error latch -/
def exchangeGen (lim F : Nat) (pcd : Pcd) (cmd : Bytes) (w : World σ) : World σ × Pcd × Py Bytes :=
  match Gen.Fn.iso_latch_chk (some cmd) pcd.failed.isSome (pcd.failed.getD 0) with
  | .error e => (w, pcd, .error e)
  | .ok _ =>
    let r := exchangeCmdGen P lim F pcd cmd w
    match r.2.2 with
    | .error (.tagCmd e) => (r.1, { r.2.1 with failed := some (Gen.Fn.iso_latch_set e) }, .error (.tagCmd e))
    | _ => r

/-- `exchange(None)`: the presence check -/
def presenceGen (pcd : Pcd) (w : World σ) : World σ × Py Unit :=
  match Gen.Fn.iso_presence_blk (pcd.pni : Int) with
  | .error e => (w, .error e)
  | .ok blk =>
    let r := w.xchg P blk
    (r.1, rxTry0 r.2 >>= fun _ => .ok ())

end isodep

/-! ## the `except` clauses against `Model/Retry.lean` (C16) -/

/-- the handler of the command phase entered for a fault class: `.ok` = the block sent next -/
def cmdHandlerGen (i n pni : Nat) : Retry.Fault → Py Bytes
  | .transmission => Gen.Fn.iso_nak_on_transmission (i : Int) (n : Int) (pni : Int)
  | .timeout => Gen.Fn.iso_nak_on_timeout (i : Int) (n : Int) (pni : Int)
  | .protocol => raised Gen.Fn.iso_cmd_on_protocol
  | _ => raised Gen.Fn.iso_cmd_on_other

/-- the same for the response phase -/
def rspHandlerGen (i n pni : Nat) : Retry.Fault → Py Bytes
  | .transmission => Gen.Fn.iso_ack_on_transmission (i : Int) (n : Int) (pni : Int)
  | .timeout => Gen.Fn.iso_ack_on_timeout (i : Int) (n : Int) (pni : Int)
  | .protocol => raised Gen.Fn.iso_rsp_on_protocol
  | _ => raised Gen.Fn.iso_rsp_on_other

/-! ## Type 4 Tag NDEF read (`Model/AdvT34.lean`) -/

section ndef
open NfcVerif.Adv
variable {σ : Type} (X : Xp σ)

/-- `_read_binary(offset, size)`: the regenerated argument slice of group T4, `send_apdu`, the regenerated surplus check -/
def readBinGen (maxLe : Nat) (off : Nat) (size : Int) (s : σ) : σ × Py Bytes :=
  match Gen.Fn.t4_read_binary_args (off : Int) size (maxLe : Int) with
  | .error e => (s, .error e)
  | .ok (p1, p2, max_data) =>
    let r := apdu4 X 0xB0 p1.toNat p2.toNat [] max_data s
    (r.1, r.2 >>= fun d => Gen.Fn.iso_read_surplus d max_data >>= fun _ => .ok d)

/-- `_select_fid(fid)`: P2 regenerated -/
def selectFidGen (v1 : Bool) (fid : Bytes) (s : σ) : σ × Py Bool :=
  match apdu4 X 0xA4 0x00 (Gen.Fn.iso_sel_fid_p2 (if v1 then aidV1 else aidV2)).toNat fid 0 s with
  | (s1, .ok _) => (s1, .ok true)
  | (s1, .error (.tagCmd _)) => (s1, .ok false)
  | (s1, .error e) => (s1, .error e)

/-- `_select_ndef_application`: the (AID, Le) table and the stop rule regenerated -/
def selectAppGen (s : σ) : σ × Py (Option Bool) :=
  let tbl := Gen.Fn.iso_sel_app_table
  match apdu4 X 0xA4 0x04 0x00 tbl.1.1 tbl.1.2 s with
  | (s1, .ok _) => (s1, .ok (some false))
  | (s1, .error (.tagCmd e)) =>
    if Gen.Fn.iso_sel_app_stop e = true then (s1, .ok none)
    else
      match apdu4 X 0xA4 0x04 0x00 tbl.2.1 tbl.2.2 s1 with
      | (s2, .ok _) => (s2, .ok (some true))
      | (s2, .error (.tagCmd _)) => (s2, .ok none)
      | (s2, .error e) => (s2, .error e)
  | (s1, .error e) => (s1, .error e)

/-- `_discover_ndef`: limits, CCLEN checks and the size of the capability read regenerated; the evaluation of the
capability container is `parseCC` (group T4 bridges it for `Model/T4.lean`) -/
def discover4Gen (s : σ) : σ × Py (Option Info) :=
  match selectAppGen X s with
  | (s1, .error e) => (s1, .error e)
  | (s1, .ok none) => (s1, .ok none)
  | (s1, .ok (some v1)) =>
    match selectFidGen X v1 [0xE1, 0x03] s1 with
    | (s2, .error e) => (s2, .error e)
    | (s2, .ok false) => (s2, .ok none)
    | (s2, .ok true) =>
      match readBinGen X Gen.Fn.iso_disc_init.2.toNat 0 2 s2 with
      | (s3, .error e) => (s3, .error e)
      | (s3, .ok cclen) =>
        if Gen.Fn.iso_disc_cclen_bad cclen = true then (s3, .ok none)
        else
          match Gen.Fn.iso_disc_cclen cclen with
          | .error e => (s3, .error e)
          | .ok n =>
            match readBinGen X Gen.Fn.iso_disc_init.2.toNat 2 (Gen.Fn.iso_disc_cc_size n) s3 with
            | (s4, .error e) => (s4, .error e)
            | (s4, .ok caps) => (s4, parseCC v1 caps)

/-- the read loop of `_read_ndef_data` -/
def readLoop4Gen (i : Info) (nlen : Nat) : Nat → Bytes → σ → σ × Py (Option Bytes)
  | 0, _, s => (s, .error .outOfFuel)
  | f+1, acc, s =>
    if Gen.Fn.iso_read_more acc (nlen : Int) = false then (s, .ok (some acc))
    else
      let args := Gen.Fn.iso_read_args acc (nlen : Int) (i.nlenSize : Int) (fun o n => (o, n))
      match readBinGen X i.maxLe args.1.toNat args.2 s with
      | (s1, .error e) => (s1, .error e)
      | (s1, .ok more) =>
        if Gen.Fn.iso_read_stuck more = true then (s1, .ok none)
        else readLoop4Gen i nlen f (Gen.Fn.iso_read_acc acc more) s1

/-- `_read_ndef_data` behind the discovery: select the file, read and check NLEN, read the message -/
def readFile4Gen (i : Info) (s1 : σ) : σ × Py (Option (Ndef × Info)) :=
  match selectFidGen X i.v1 i.fid s1 with
  | (s2, .error e) => (s2, .error e)
  | (s2, .ok false) => (s2, .ok none)
  | (s2, .ok true) =>
    match readBinGen X i.maxLe 0 i.nlenSize s2 with
    | (s3, .error e) => (s3, .error e)
    | (s3, .ok nl) =>
      if Gen.Fn.iso_nlen_len_bad nl (i.nlenSize : Int) = true then (s3, .ok none)
      else
        match Gen.Fn.iso_nlen_parse nl (i.nlenSize : Int) with
        | .error e => (s3, .error e)
        | .ok nlen =>
          if Gen.Fn.iso_nlen_limit nlen i.capacity (i.nlenSize : Int) = true then (s3, .ok none)
          else
            match readLoop4Gen X i nlen.toNat (nlen.toNat + 1) Gen.Fn.iso_read_init s3 with
            | (s4, .error e) => (s4, .error e)
            | (s4, .ok none) => (s4, .ok none)
            | (s4, .ok (some data)) =>
              (s4, .ok (some ({ length := data.length, cap := i.capacity, readable := i.readable,
                                writeable := i.writeable, octets := data,
                                addrs := List.range' i.nlenSize data.length,
                                lo := i.nlenSize, hi := i.nlenSize + i.capacity.toNat }, i)))

/-- the `try` block of `_read_ndef_data`: `hasattr(self, "_ndef_file") or self._discover_ndef()` first -/
def readNdef4BodyGen (known : Option Info) (s : σ) : σ × Py (Option (Ndef × Info)) :=
  match known with
  | some i => readFile4Gen X i s
  | none =>
    match discover4Gen X s with
    | (s1, .error e) => (s1, .error e)
    | (s1, .ok none) => (s1, .ok none)
    | (s1, .ok (some i)) => readFile4Gen X i s1

/-- `Type4Tag.NDEF._read_ndef_data()`; hand-written: `except Type4TagCommandError: return None` (`catch4`) -/
def readNdef4Gen (known : Option Info) (s : σ) : σ × Py (Option (Ndef × Info)) :=
  catch4 (readNdef4BodyGen X known s)

end ndef

/-! ## Type 4 Tag NDEF write plan (`Model/T4.lean`) -/

section write
open NfcVerif.T4

/-- what `_update_binary(offset, data)` returns: `max_data` of the regenerated argument slice of group T4 (0 when the
offset does not fit P1-P2 and `pack` raises; `chunkCmds_bridge` assumes a buffer a 16 bit offset can address) -/
def ubGen (lc : Nat) (o : Int) (d : Bytes) : Int :=
  match Gen.Fn.t4_update_binary_args o d (lc : Int) with
  | .ok r => r.2.2
  | .error _ => 0

/-- the pieces of one of the two update loops of `_write_ndef_data` -/
structure WriteCut where
  more : Int → Bytes → Bool
  step : Int → Bytes → (Int → Bytes → Int) → Int

def cutData : WriteCut := ⟨Gen.Fn.iso_write_more, Gen.Fn.iso_write_step⟩
def cutNlen : WriteCut := ⟨Gen.Fn.iso_write_nlen_more, Gen.Fn.iso_write_nlen_step⟩

/-- `while offset < len(buf): offset += self._update_binary(offset, buf[offset:])`: the UPDATE BINARY commands sent -/
def chunkCmdsGen (q : WriteCut) (lc : Nat) (buf : Bytes) : Nat → Nat → List UCmd
  | 0, _ => []
  | fuel + 1, off =>
    if q.more (off : Int) buf = false then []
    else
      ⟨off, Gen.Fn.iso_update_chunk (PyFn.sliceFrom buf (off : Int)) (ubGen lc (off : Int) (PyFn.sliceFrom buf (off : Int)))⟩
        :: chunkCmdsGen q lc buf fuel (q.step (off : Int) buf (ubGen lc)).toNat

/-- `_write_ndef_data`: the plan of the regenerated layout decision, then the two update loops -/
def planWriteGen (i : Info) (data : Bytes) : Py (List UCmd) :=
  Gen.Fn.iso_write_plan data (i.nlenSize : Int) (i.maxLc : Int) >>= fun pl =>
  let first := chunkCmdsGen cutData i.maxLc pl.1 (pl.1.length + 1) pl.2.2.toNat
  if Gen.Fn.iso_write_nlen_test pl.2.1 = true then
    .ok (first ++ chunkCmdsGen cutNlen i.maxLc (pl.2.1.getD []) ((pl.2.1.getD []).length + 1) 0)
  else .ok first

end write

end NfcVerif.FnBridge.IsoSm
