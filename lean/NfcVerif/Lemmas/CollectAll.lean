import NfcVerif.Lemmas.Collect
/-! Lemmas for C10: `collect()` neither invents nor alters PDUs.  For every pair of predicates `P` (queued
PDUs) and `Q` (transmitted PDUs) such that `P` holds for all queued PDUs and for the RR / RNR and SNL PDUs
that the dequeue paths generate, `Q` holds for RR / RNR, and `encrypt()` turns a `P` PDU into a `Q` PDU:
`Q` holds for every PDU of the returned frame and `P` for everything left in the queues.
(Raw access point sockets included.)  A predicate `R` on the state variables of a data link connection that
survives the updates of `dequeue` / `sendack` is carried along. -/
namespace NfcVerif.Collect

section
variable (P Q : QPdu → Prop) (R : Dlc → Prop)

def SockAll : Sock → Prop
  | .raw q => ∀ p ∈ q, P p
  | .ldl _ q => ∀ p ∈ q, P p
  | .dlc d q => R d ∧ ∀ p ∈ q, P p

def EntAll : Ent → Prop
  | .sap s => (∀ k ∈ s.socks, SockAll P R k) ∧ (∀ p ∈ s.sendList, P p)
  | .sd s => ∀ p ∈ s.dmpdu, P p

def EntsAll (es : List Ent) : Prop := ∀ e ∈ es, EntAll P R e

/-- `P` holds for what the dequeue paths generate, `Q` for acknowledgements and for what `encrypt()`
makes of a `P` PDU (every dequeued PDU passes through `encrypt()`, which changes UI / I PDUs only) -/
structure Gen (sec : Option Nat) : Prop where
  ack : ∀ b n, P (ackPdu b n)
  ackQ : ∀ b n, Q (ackPdu b n)
  snl : ∀ l, P (snlPdu l)
  enc : ∀ p, P p → Q (p.encrypt sec)
  /-- the socket predicate `R` survives what `dequeue` / `sendack` do to a data link connection -/
  rBusy : ∀ d : Dlc, R d → R { d with busySent := d.busy }
  rAck : ∀ d : Dlc, R d → R { d with ack := (d.ack + d.confs) % 16, confs := 0 }
  rShut : ∀ d : Dlc, R d → R { d with state := .shutdown }
end

variable {P Q : QPdu → Prop} {R : Dlc → Prop}

theorem tco_mem {q q' : List QPdu} {mo : Option Int} {icv : Nat} {r : Option QPdu}
    (h : tcoDequeue q mo icv = (r, q')) : (∀ x ∈ q', x ∈ q) ∧ ∀ p, r = some p → p ∈ q := by
  cases q with
  | nil => simp [tcoDequeue] at h; obtain ⟨rfl, rfl⟩ := h; simp
  | cons p0 rest =>
    cases mo with
    | none =>
      simp only [tcoDequeue] at h; cases h
      exact ⟨fun x hx => by simp [hx], by intro p hp; cases hp; simp⟩
    | some m =>
      simp only [tcoDequeue] at h
      split at h
      · cases h; exact ⟨fun x hx => hx, by simp⟩
      · cases h; exact ⟨fun x hx => by simp [hx], by intro p hp; cases hp; simp⟩

theorem sock_dequeue_all {sec : Option Nat} (g : Gen P Q R sec) {s s' : Sock} {m : Int} {icv : Nat} {r : Option QPdu}
    (hs : SockAll P R s) (h : s.dequeue m icv = (r, s')) : SockAll P R s' ∧ ∀ p, r = some p → P p := by
  cases s with
  | raw q =>
    simp only [Sock.dequeue] at h
    cases hr : tcoDequeue q none 0 with
    | mk a b =>
      rw [hr] at h; cases h
      obtain ⟨h1, h2⟩ := tco_mem hr
      exact ⟨fun x hx => hs x (h1 x hx), fun p hp => hs p (h2 p hp)⟩
  | ldl sm q =>
    simp only [Sock.dequeue] at h
    cases hr : tcoDequeue q (some m) icv with
    | mk a b =>
      rw [hr] at h; cases h
      obtain ⟨h1, h2⟩ := tco_mem hr
      exact ⟨fun x hx => hs x (h1 x hx), fun p hp => hs p (h2 p hp)⟩
  | dlc d q =>
    simp only [Sock.dequeue] at h
    split at h
    · cases h
      exact ⟨⟨g.rBusy d hs.1, hs.2⟩, by intro p hp; cases hp; exact g.ack _ _⟩
    · cases hr : tcoDequeue q (some m) icv with
      | mk a b =>
        rw [hr] at h
        obtain ⟨h1, h2⟩ := tco_mem hr
        have hb : ∀ x ∈ b, P x := fun x hx => hs.2 x (h1 x hx)
        cases a with
        | none =>
          simp only at h
          split at h
          · cases h; exact ⟨⟨g.rAck d hs.1, hb⟩, by intro p hp; cases hp; exact g.ack _ _⟩
          · cases h; exact ⟨⟨hs.1, hb⟩, by simp⟩
        | some p =>
          simp only at h
          have hp : P p := hs.2 p (h2 p rfl)
          split at h
          · cases h; exact ⟨⟨g.rShut d hs.1, by simp⟩, by intro p' hp'; cases hp'; exact hp⟩
          · split at h
            · cases h; exact ⟨⟨g.rAck d hs.1, hb⟩, by intro p' hp'; cases hp'; exact hp⟩
            · cases h; exact ⟨⟨hs.1, hb⟩, by intro p' hp'; cases hp'; exact hp⟩

theorem sock_sendack_all {sec : Option Nat} (g : Gen P Q R sec) {s s' : Sock} {r : Option QPdu}
    (hs : SockAll P R s) (h : s.sendack = (r, s')) : SockAll P R s' ∧ ∀ p, r = some p → Q p := by
  cases s with
  | raw q => simp only [Sock.sendack] at h; cases h; exact ⟨hs, by simp⟩
  | ldl sm q => simp only [Sock.sendack] at h; cases h; exact ⟨hs, by simp⟩
  | dlc d q =>
    simp only [Sock.sendack] at h
    split at h
    · cases h; exact ⟨⟨g.rAck d hs.1, hs.2⟩, by intro p hp; cases hp; exact g.ackQ _ _⟩
    · cases h; exact ⟨hs, by simp⟩

theorem socks_dequeue_all {sec : Option Nat} (g : Gen P Q R sec) (l : List Sock) (m : Int) (icv : Nat)
    (hl : ∀ k ∈ l, SockAll P R k) :
    (∀ k ∈ (socksDequeue l m icv).2, SockAll P R k) ∧ ∀ p, (socksDequeue l m icv).1 = some p → P p := by
  induction l with
  | nil => simp [socksDequeue]
  | cons s rest ih =>
    simp only [socksDequeue]
    cases hr : s.dequeue m icv with
    | mk a b =>
      obtain ⟨hb, hfit⟩ := sock_dequeue_all g (hl s (by simp)) hr
      have ihr := ih (fun k hk => hl k (by simp [hk]))
      cases a with
      | some p =>
        simp only
        refine ⟨?_, by intro p' hp'; exact hfit p' hp'⟩
        intro k hk; simp at hk
        rcases hk with rfl | hk
        · exact hb
        · exact hl k (by simp [hk])
      | none =>
        simp only
        refine ⟨?_, ihr.2⟩
        intro k hk; simp at hk
        rcases hk with rfl | hk
        · exact hb
        · exact ihr.1 k hk

theorem socks_sendack_all {sec : Option Nat} (g : Gen P Q R sec) (l : List Sock) (hl : ∀ k ∈ l, SockAll P R k) :
    (∀ k ∈ (socksSendack l).2, SockAll P R k) ∧ ∀ p, (socksSendack l).1 = some p → Q p := by
  induction l with
  | nil => simp [socksSendack]
  | cons s rest ih =>
    simp only [socksSendack]
    cases hr : s.sendack with
    | mk a b =>
      obtain ⟨hb, hfit⟩ := sock_sendack_all g (hl s (by simp)) hr
      have ihr := ih (fun k hk => hl k (by simp [hk]))
      cases a with
      | some p =>
        simp only
        refine ⟨?_, by intro p' hp'; exact hfit p' hp'⟩
        intro k hk; simp at hk
        rcases hk with rfl | hk
        · exact hb
        · exact hl k (by simp [hk])
      | none =>
        simp only
        refine ⟨?_, ihr.2⟩
        intro k hk; simp at hk
        rcases hk with rfl | hk
        · exact hb
        · exact ihr.1 k hk

theorem sd_dequeue_all {sec : Option Nat} (g : Gen P Q R sec) {s s' : Sd} {m : Int} {r : Option QPdu}
    (hs : ∀ p ∈ s.dmpdu, P p) (h : s.dequeue m = (r, s')) :
    (∀ p ∈ s'.dmpdu, P p) ∧ ∀ p, r = some p → P p := by
  unfold Sd.dequeue at h
  split at h
  · simp only at h
    cases h
    exact ⟨hs, by intro p hp; cases hp; exact g.snl _⟩
  · split at h
    · rename_i p rest hd
      split at h
      · cases h
        refine ⟨fun x hx => hs x (by rw [hd]; simp [hx]), ?_⟩
        intro p' hp'; cases hp'
        exact hs p (by rw [hd]; simp)
      · cases h; exact ⟨hs, by simp⟩
    · cases h; exact ⟨hs, by simp⟩

theorem ent_dequeue_all {sec : Option Nat} (g : Gen P Q R sec) {e e' : Ent} {m : Int} {icv : Nat} {r : Option QPdu}
    (he : EntAll P R e) (h : e.dequeue m icv = (r, e')) : EntAll P R e' ∧ ∀ p, r = some p → P p := by
  cases e with
  | sd s =>
    simp only [Ent.dequeue] at h
    cases hr : s.dequeue m with
    | mk a b =>
      rw [hr] at h; cases h
      exact sd_dequeue_all g he hr
  | sap s =>
    simp only [Ent.dequeue, Sap.dequeue] at h
    have hsd := socks_dequeue_all g s.socks m icv he.1
    cases hr : socksDequeue s.socks m icv with
    | mk a b =>
      rw [hr] at h hsd
      cases a with
      | some p =>
        simp only at h; cases h
        exact ⟨⟨hsd.1, he.2⟩, hsd.2⟩
      | none =>
        simp only at h
        split at h
        · cases h; exact ⟨⟨hsd.1, he.2⟩, by simp⟩
        · rename_i p rest hsl
          cases h
          refine ⟨⟨hsd.1, fun x hx => he.2 x (by rw [hsl]; simp [hx])⟩, ?_⟩
          intro p' hp'; cases hp'
          exact he.2 p (by rw [hsl]; simp)

theorem ent_sendack_all {sec : Option Nat} (g : Gen P Q R sec) {e e' : Ent} {r : Option QPdu}
    (he : EntAll P R e) (h : e.sendack = (r, e')) : EntAll P R e' ∧ ∀ p, r = some p → Q p := by
  cases e with
  | sd s => simp only [Ent.sendack] at h; cases h; exact ⟨he, by simp⟩
  | sap s =>
    simp only [Ent.sendack, Sap.sendack] at h
    cases h
    have := socks_sendack_all g s.socks he.1
    exact ⟨⟨this.1, he.2⟩, this.2⟩

theorem entsAll_cons {e : Ent} {es : List Ent} : EntsAll P R (e :: es) ↔ EntAll P R e ∧ EntsAll P R es := by
  simp [EntsAll]

theorem entsAll_set {es : List Ent} {i : Nat} {e : Ent} (h : EntsAll P R es) (he : EntAll P R e) :
    EntsAll P R (es.set i e) := by
  intro x hx
  rcases List.mem_or_eq_of_mem_set hx with h1 | h1
  · exact h x h1
  · rw [h1]; exact he

def ListAll (P : QPdu → Prop) (l : List QPdu) : Prop := ∀ p ∈ l, P p

theorem listAll_append {P : QPdu → Prop} {l : List QPdu} {p : QPdu} (h : ListAll P l) (hp : P p) :
    ListAll P (l ++ [p]) := by
  intro x hx; simp at hx
  rcases hx with hx | rfl
  · exact h x hx
  · exact hp

theorem aggPass_all {sec : Option Nat} (g : Gen P Q R sec) (M : Nat) (es : List Ent) :
    ∀ (subs : List QPdu) (nf : Bool), EntsAll P R es → ListAll Q subs →
    EntsAll P R (aggPass M sec es subs nf).1 ∧ ListAll Q (aggPass M sec es subs nf).2.1 := by
  induction es with
  | nil => intro subs nf _ hs; simp [aggPass, EntsAll]; exact hs
  | cons e rest ih =>
    intro subs nf hes hs
    rw [entsAll_cons] at hes
    simp only [aggPass]
    cases hr : e.dequeue (budget M subs) (icvOf sec) with
    | mk a e' =>
      obtain ⟨he', hp⟩ := ent_dequeue_all g hes.1 hr
      cases a with
      | some p =>
        simp only
        have hs' := listAll_append hs (g.enc p (hp p rfl))
        split
        · exact ⟨entsAll_cons.2 ⟨he', hes.2⟩, hs'⟩
        · have := ih (subs ++ [p.encrypt sec]) false hes.2 hs'
          exact ⟨entsAll_cons.2 ⟨he', this.1⟩, this.2⟩
      | none =>
        simp only
        have := ih subs nf hes.2 hs
        exact ⟨entsAll_cons.2 ⟨he', this.1⟩, this.2⟩

theorem aggLoop_all {sec : Option Nat} (g : Gen P Q R sec) (M : Nat) (fuel : Nat) :
    ∀ (es : List Ent) (subs : List QPdu), EntsAll P R es → ListAll Q subs →
    EntsAll P R (aggLoop M sec fuel es subs).1 ∧ ListAll Q (aggLoop M sec fuel es subs).2 := by
  induction fuel with
  | zero => intro es subs h hs; simp [aggLoop, h]; exact hs
  | succ fuel ih =>
    intro es subs hes hs
    simp only [aggLoop]
    split
    · exact ⟨hes, hs⟩
    · have hp := aggPass_all g M es subs true hes hs
      split
      · exact hp
      · exact ih _ _ hp.1 hp.2

theorem aggAcks_all {sec : Option Nat} (g : Gen P Q R sec) (M : Nat) (es : List Ent) :
    ∀ (subs : List QPdu), EntsAll P R es → ListAll Q subs →
    EntsAll P R (aggAcks M es subs).1 ∧ ListAll Q (aggAcks M es subs).2 := by
  induction es with
  | nil => intro subs _ hs; simp [aggAcks, EntsAll]; exact hs
  | cons e rest ih =>
    intro subs hes hs
    rw [entsAll_cons] at hes
    simp only [aggAcks]
    split
    · cases hr : e.sendack with
      | mk a e' =>
        obtain ⟨he', hp⟩ := ent_sendack_all g hes.1 hr
        cases a with
        | some p =>
          simp only
          have hs' := listAll_append hs (hp p rfl)
          split
          · exact ⟨entsAll_cons.2 ⟨he', hes.2⟩, hs'⟩
          · have := ih (subs ++ [p]) hes.2 hs'
            exact ⟨entsAll_cons.2 ⟨he', this.1⟩, this.2⟩
        | none =>
          simp only
          have := ih subs hes.2 hs
          exact ⟨entsAll_cons.2 ⟨he', this.1⟩, this.2⟩
    · have := ih subs hes.2 hs
      exact ⟨entsAll_cons.2 ⟨hes.1, this.1⟩, this.2⟩

theorem firstDequeue_all {sec : Option Nat} (g : Gen P Q R sec) (m : Int) (order : List Nat) :
    ∀ (es : List Ent), EntsAll P R es →
    EntsAll P R (firstDequeue m order es).2 ∧ ∀ p, (firstDequeue m order es).1 = some p → P p := by
  induction order with
  | nil => intro es h; simp [firstDequeue, h]
  | cons i rest ih =>
    intro es hes
    simp only [firstDequeue]
    split
    · exact ih es hes
    · rename_i e hget
      have hmem : e ∈ es := List.mem_of_getElem? hget
      cases hr : e.dequeue m 0 with
      | mk a e' =>
        obtain ⟨he', hp⟩ := ent_dequeue_all g (hes e hmem) hr
        cases a with
        | some p => simp only; exact ⟨entsAll_set hes he', hp⟩
        | none => simp only; exact ih _ (entsAll_set hes he')

theorem firstSendack_all {sec : Option Nat} (g : Gen P Q R sec) (es : List Ent) (hes : EntsAll P R es) :
    EntsAll P R (firstSendack es).2 ∧ ∀ p, (firstSendack es).1 = some p → Q p := by
  induction es with
  | nil => simp [firstSendack, EntsAll]
  | cons e rest ih =>
    rw [entsAll_cons] at hes
    have ihr := ih hes.2
    simp only [firstSendack]
    split
    · cases hr : e.sendack with
      | mk a e' =>
        obtain ⟨he', hp⟩ := ent_sendack_all g hes.1 hr
        cases a with
        | some p => simp only; exact ⟨entsAll_cons.2 ⟨he', hes.2⟩, hp⟩
        | none => simp only; exact ⟨entsAll_cons.2 ⟨he', ihr.1⟩, ihr.2⟩
    · exact ⟨entsAll_cons.2 ⟨hes.1, ihr.1⟩, ihr.2⟩

theorem aggregate_all {sec : Option Nat} (g : Gen P Q R sec) (es : List Ent) (M : Nat) (p : QPdu)
    (hes : EntsAll P R es) (hp : Q p) (f : Frame) (es' : List Ent) (h : aggregate es M sec p = (some f, es')) :
    EntsAll P R es' ∧ ListAll Q f.pdus := by
  unfold aggregate at h
  simp only at h
  have hl := aggLoop_all g M (M + 1) es [p] hes (by intro x hx; simp at hx; rw [hx]; exact hp)
  generalize aggLoop M sec (M + 1) es [p] = l at h hl
  have ha : EntsAll P R (if budget M l.2 ≥ 0 then aggAcks M l.1 l.2 else l).1 ∧
      ListAll Q (if budget M l.2 ≥ 0 then aggAcks M l.1 l.2 else l).2 := by
    split
    · exact aggAcks_all g M l.1 l.2 hl.1 hl.2
    · exact hl
  generalize (if budget M l.2 ≥ 0 then aggAcks M l.1 l.2 else l) = a at h ha
  cases h
  refine ⟨ha.1, ?_⟩
  split
  · exact ha.2
  · intro x hx; simp [Frame.pdus] at hx; rw [hx]; exact hp

/-- `collect()` returns only PDUs that satisfy `Q`, and leaves only `P` PDUs in the queues -/
theorem collect_all {sec : Option Nat} (g : Gen P Q R sec) (es : List Ent) (M : Nat) (agf : Bool)
    (hes : EntsAll P R es) (fo : Option Frame) (es' : List Ent) (h : collect es M sec agf = (fo, es')) :
    EntsAll P R es' ∧ ∀ f, fo = some f → ListAll Q f.pdus := by
  unfold collect at h
  simp only at h
  have hf := firstDequeue_all g (M : Int) (rawFirst es) es hes
  generalize firstDequeue (M : Int) (rawFirst es) es = first at h hf
  obtain ⟨fo1, fes⟩ := first
  cases fo1 with
  | some p =>
    have hp := g.enc p (hf.2 p rfl)
    have hsingle : ListAll Q (Frame.single (p.encrypt sec)).pdus := by
      intro x hx; simp [Frame.pdus] at hx; rw [hx]; exact hp
    simp only at h
    split at h
    · cases h; exact ⟨hf.1, by intro f hf'; cases hf'; exact hsingle⟩
    · split at h
      · cases h; exact ⟨hf.1, by intro f hf'; cases hf'; exact hsingle⟩
      · cases fo with
        | none => simp [aggregate] at h
        | some f =>
          have := aggregate_all g _ M _ hf.1 hp f es' h
          exact ⟨this.1, by intro f' hf'; cases hf'; exact this.2⟩
  | none =>
    simp only at h
    have hk := firstSendack_all g fes hf.1
    generalize firstSendack fes = k at h hk
    obtain ⟨ko, kes⟩ := k
    cases ko with
    | none => simp only at h; cases h; exact ⟨hk.1, by simp⟩
    | some p =>
      have hp := hk.2 p rfl
      simp only at h
      split at h
      · cases h
        exact ⟨hk.1, by intro f hf'; cases hf'; intro x hx; simp [Frame.pdus] at hx; rw [hx]; exact hp⟩
      · cases fo with
        | none => simp [aggregate] at h
        | some f =>
          have := aggregate_all g _ M _ hk.1 hp f es' h
          exact ⟨this.1, by intro f' hf'; cases hf'; exact this.2⟩

end NfcVerif.Collect
