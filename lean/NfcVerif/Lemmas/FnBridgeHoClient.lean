import NfcVerif.Lemmas.FnBridgeSnep
import NfcVerif.Gen.FnHoClient
import NfcVerif.Model.Handover
import NfcVerif.Model.Term
/-!
# Group HoClient: `Handover.srvOnRecv`, `Handover.cliOnRecv` and the reassembly step of `Snep.cliOnRecv` restated with
the regenerated pieces of `Gen/FnHoClient.lean` (and, for the response fragment slice and the SNEP conditions, of
`Gen/FnSnep.lean`)

Hand written remain: the cut of the sequential programs at their blocking socket calls (`Model/SnepChannel.lean`), the
parameters `complete` / `handler` (ndeflib), the control skeleton.  `Props/FnBridgeHoClient.lean` proves the equalities.
-/
namespace NfcVerif.FnBridge.HoClient
open NfcVerif NfcVerif.Chan NfcVerif.Handover

/-- `for offset in range(0, len(response), send_miu): fragment = response[offset:offset + send_miu]`: the regenerated
offsets, the regenerated slice (`ho_srv_frag`, group Snep); a send MIU of 0 would be ValueError (no fragment) -/
def responseFragsGen (response : Bytes) (sendMiu : Nat) : List Bytes :=
  match Gen.Fn.hc_srv_offsets response (sendMiu : Int) with
  | .ok offs => offs.map (fun o => Gen.Fn.ho_srv_frag response o (sendMiu : Int))
  | .error _ => []

/-- `HandoverServer.serve` from one blocking `poll("recv")` to the next -/
def srvOnRecvGen (cfg : HCfg) : HS → Bytes → HS × List Bytes × List Bytes
  | .collecting request, m =>
    let r := Gen.Fn.hc_srv_append request m
    if Gen.Fn.hc_srv_need_data r = true then (.collecting r, [], [])
    else if cfg.complete r = false then (.collecting r, [], [])
    else (.collecting (if cfg.reset then Gen.Fn.hc_srv_new_request else r), responseFragsGen (cfg.handler r) cfg.smiu, [r])
  | .closed, _ => (.closed, [], [])

/-- `HandoverClient.recv_octets` from one blocking `poll("recv")` to the next -/
def cliOnRecvGen (complete : Bytes → Bool) : HC → Bytes → HC × List Bytes
  | .collecting octets, m =>
    let o := Gen.Fn.hc_cli_append octets m
    if complete o then (.done (some (Gen.Fn.hc_cli_result o)), [])
    else (.collecting o, [])
  | st, _ => (st, [])

/-- the reassembly loop of the SNEP client's `recv_response`: the regenerated `+=`, loop condition (`snep_cli_more_loop`,
group Snep) and result -/
def snepReasmGen (op : Snep.Op) (buf : Bytes) (length : Nat) (m : Bytes) : Snep.CState × List Bytes :=
  let b := Gen.Fn.hc_snep_append buf m
  if Gen.Fn.snep_cli_more_loop b (length : Int) = true then (.reasm op b length, [])
  else (.done (FnBridge.Snep.cliFinishGen op (Gen.Fn.hc_snep_result b)), [])

/-- the NDEF message with one empty record (`Model/Handover.lean`: record encoding) -/
def emptyRecord : Rec := { tnf := 0, sr := true, typ := [], id := none, payload := [] }

end NfcVerif.FnBridge.HoClient
