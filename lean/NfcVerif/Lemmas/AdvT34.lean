import NfcVerif.Model.AdvT34
/-!
# C08 lemmas: the Type 4 NDEF reader against every APDU level card
-/
namespace NfcVerif.Adv
open NfcVerif.IsoDep

def countX {σ} (X : Xp σ) : Xp (σ × Nat) :=
  ⟨fun s c => (((X.run s.1 c).1, s.2 + 1), (X.run s.1 c).2)⟩

/-- the command APDUs the NDEF reader builds: not empty, at most 13 octets (header, Lc, an application or file
identifier of at most 7 octets, Le) -/
def CmdOk (c : Bytes) : Prop := c ≠ [] ∧ c.length ≤ 13

theorem cmd4_ok (ins p1 p2 : Nat) (data : Bytes) (mrl : Int) (hd : data.length ≤ 7) : CmdOk (cmd4 ins p1 p2 data mrl) := by
  unfold cmd4 CmdOk
  refine ⟨by simp, ?_⟩
  simp only [List.length_append, List.length_cons, List.length_nil]
  split <;> split <;> simp <;> omega

/-- the transport fails only with `Type4TagCommandError` (for the commands the reader builds) -/
def XOk {σ} (X : Xp σ) : Prop := ∀ s c e, CmdOk c → (X.run s c).2 = .error e → isTagCmd e = true

/-- what the NDEF object keeps between reads: MLe clamped, a file identifier as `parseCC` produces it -/
def InfoOk (i : Info) : Prop := i.maxLe ≤ 256 ∧ i.fid.length ≤ 7

theorem checkStatus_err (rsp : Bytes) (e : Exc) (h : checkStatus true rsp = .error e) : isTagCmd e = true := by
  simp only [checkStatus] at h
  split at h
  · cases h; rfl
  · split at h
    · cases h; rfl
    · cases h

theorem apdu4_cnt {σ} (X : Xp σ) (ins p1 p2 : Nat) (data : Bytes) (mrl : Int) (s : σ × Nat) :
    (apdu4 (countX X) ins p1 p2 data mrl s).1.2 ≤ s.2 + 1 ∧ s.2 ≤ (apdu4 (countX X) ins p1 p2 data mrl s).1.2 := by
  unfold apdu4; split <;> simp [countX]

theorem apdu4_err {σ} {X : Xp σ} (hX : XOk X) (ins p1 p2 : Nat) (data : Bytes) (mrl : Int) (s : σ × Nat)
    (hm : mrl ≤ 256) (hd : data.length ≤ 7) (e : Exc) (he : (apdu4 (countX X) ins p1 p2 data mrl s).2 = .error e) :
    isTagCmd e = true := by
  unfold apdu4 at he
  rw [if_neg (by omega)] at he
  simp only [countX] at he
  cases hr : (X.run s.1 (cmd4 ins p1 p2 data mrl)).2 with
  | error e' =>
    rw [hr] at he; simp at he; subst he; exact hX _ _ _ (cmd4_ok _ _ _ _ _ hd) hr
  | ok rsp =>
    rw [hr] at he; simp at he; exact checkStatus_err rsp e he

theorem readBin_cnt {σ} (X : Xp σ) (maxLe off : Nat) (size : Int) (s : σ × Nat) :
    (readBin (countX X) maxLe off size s).1.2 ≤ s.2 + 1 ∧ s.2 ≤ (readBin (countX X) maxLe off size s).1.2 := by
  unfold readBin; split
  · simp
  · exact apdu4_cnt X _ _ _ _ _ s

theorem readBin_err {σ} {X : Xp σ} (hX : XOk X) (maxLe off : Nat) (size : Int) (s : σ × Nat)
    (ho : off ≤ 65535) (hm : maxLe ≤ 256) (e : Exc) (he : (readBin (countX X) maxLe off size s).2 = .error e) :
    isTagCmd e = true := by
  unfold readBin at he
  rw [if_neg (by omega)] at he
  simp only [surplus] at he
  cases hr : (apdu4 (countX X) 0xB0 (off / 256) (off % 256) [] (min (maxLe : Int) size) s).2 with
  | error e' =>
    rw [hr] at he; simp at he; subst he
    exact apdu4_err hX _ _ _ _ _ s (by omega) (by simp) _ hr
  | ok d =>
    rw [hr] at he; simp at he
    split at he
    · cases he; rfl
    · cases he

theorem readBin_len {σ} (X : Xp σ) (maxLe off : Nat) (size : Int) (s : σ × Nat) (d : Bytes)
    (h : (readBin (countX X) maxLe off size s).2 = .ok d) : (d.length : Int) ≤ max (min (maxLe : Int) size) 0 := by
  unfold readBin at h
  split at h
  · cases h
  · simp only [surplus] at h
    cases hr : (apdu4 (countX X) 0xB0 (off / 256) (off % 256) [] (min (maxLe : Int) size) s).2 with
    | error e' => rw [hr] at h; simp at h
    | ok d' =>
      rw [hr] at h; simp at h
      split at h
      · cases h
      · cases h; omega

theorem readLoop4_spec {σ} {X : Xp σ} (hX : XOk X) (i : Info) (nlen : Nat) (hm : i.maxLe ≤ 256)
    (ho : i.nlenSize + nlen ≤ 65536) :
    ∀ (fuel : Nat) (acc : Bytes) (s : σ × Nat), acc.length ≤ nlen → nlen < acc.length + fuel →
      (readLoop4 (countX X) i nlen fuel acc s).1.2 ≤ s.2 + (nlen - acc.length) ∧
      (∀ e, (readLoop4 (countX X) i nlen fuel acc s).2 = .error e → isTagCmd e = true) ∧
      (∀ d, (readLoop4 (countX X) i nlen fuel acc s).2 = .ok (some d) → d.length = nlen) := by
  intro fuel
  induction fuel with
  | zero => intro acc s h1 h2; omega
  | succ f ih =>
    intro acc s h1 h2
    unfold readLoop4
    split
    · refine ⟨by simp, by simp, ?_⟩
      intro d hd; simp at hd; subst hd; omega
    · rename_i hlt
      have hlt' : acc.length < nlen := by omega
      have hc := readBin_cnt X i.maxLe (i.nlenSize + acc.length) ((nlen : Int) - acc.length) s
      rcases hr : readBin (countX X) i.maxLe (i.nlenSize + acc.length) ((nlen : Int) - acc.length) s with ⟨s1, r⟩
      rw [hr] at hc
      cases r with
      | error e =>
        refine ⟨by simp at hc ⊢; omega, ?_, by simp⟩
        intro e' he'; simp at he'; subst he'
        exact readBin_err hX i.maxLe (i.nlenSize + acc.length) _ s (by omega) hm _ (by rw [hr])
      | ok more =>
        have hl := readBin_len X _ _ _ s more (by rw [hr])
        simp only
        split
        · refine ⟨by simp at hc ⊢; omega, by simp, by simp⟩
        · rename_i hne
          have hml : more.length ≤ nlen - acc.length := by omega
          have := ih (acc ++ more) s1 (by simp; omega) (by simp; omega)
          simp only [List.length_append] at this
          refine ⟨?_, this.2.1, this.2.2⟩
          simp at hc
          omega

theorem selectFid_spec {σ} {X : Xp σ} (hX : XOk X) (v1 : Bool) (fid : Bytes) (hfid : fid.length ≤ 7) (s : σ × Nat) :
    (selectFid (countX X) v1 fid s).1.2 ≤ s.2 + 1 ∧ ∀ e, (selectFid (countX X) v1 fid s).2 ≠ .error e := by
  unfold selectFid
  have hc := apdu4_cnt X 0xA4 0x00 (if v1 then 0x00 else 0x0C) fid 0 s
  have he := apdu4_err hX 0xA4 0x00 (if v1 then 0x00 else 0x0C) fid 0 s (by omega) hfid
  rcases hr : apdu4 (countX X) 0xA4 0x00 (if v1 then 0x00 else 0x0C) fid 0 s with ⟨s1, r⟩
  rw [hr] at hc he
  cases r with
  | ok d => exact ⟨hc.1, by simp⟩
  | error e =>
    have := he e rfl
    cases e <;> simp [isTagCmd] at this
    exact ⟨hc.1, by simp⟩

theorem selectApp_spec {σ} {X : Xp σ} (hX : XOk X) (s : σ × Nat) :
    (selectApp (countX X) s).1.2 ≤ s.2 + 2 ∧ ∀ e, (selectApp (countX X) s).2 ≠ .error e := by
  unfold selectApp
  have hc := apdu4_cnt X 0xA4 0x04 0x00 aidV2 256 s
  have he := apdu4_err hX 0xA4 0x04 0x00 aidV2 256 s (by omega) (by simp [aidV2])
  rcases hr : apdu4 (countX X) 0xA4 0x04 0x00 aidV2 256 s with ⟨s1, r⟩
  rw [hr] at hc he
  cases r with
  | ok d => exact ⟨by simp at hc ⊢; omega, by simp⟩
  | error e =>
    have := he e rfl
    cases e <;> simp [isTagCmd] at this
    rename_i n
    simp only
    split
    · exact ⟨by simp at hc ⊢; omega, by simp⟩
    · have hc2 := apdu4_cnt X 0xA4 0x04 0x00 aidV1 0 s1
      have he2 := apdu4_err hX 0xA4 0x04 0x00 aidV1 0 s1 (by omega) (by simp [aidV1])
      rcases hr2 : apdu4 (countX X) 0xA4 0x04 0x00 aidV1 0 s1 with ⟨s2, r2⟩
      rw [hr2] at hc2 he2
      cases r2 with
      | ok d => exact ⟨by simp at hc hc2 ⊢; omega, by simp⟩
      | error e2 =>
        have := he2 e2 rfl
        cases e2 <;> simp [isTagCmd] at this
        exact ⟨by simp at hc hc2 ⊢; omega, by simp⟩

theorem parseCC_spec (v1 : Bool) (caps : Bytes) (h : caps.length ≤ 15) :
    (∀ e, parseCC v1 caps ≠ .error e) ∧ ∀ i, parseCC v1 caps = .ok (some i) → InfoOk i := by
  unfold parseCC
  split
  · simp
  · rename_i h13
    have hl : (caps ++ List.replicate (15 - caps.length) 0).length = 15 := by simp; omega
    generalize caps ++ List.replicate (15 - caps.length) 0 = l at hl
    match l, hl with
    | [ver, e1, e0, c1, c0, tag, plen, v0, v1', v2, v3, v4, v5, v6, v7], _ =>
      simp only
      split
      · simp
      · split
        · simp
        · refine ⟨by simp, ?_⟩
          intro i hi
          simp at hi
          subst hi
          exact ⟨Nat.min_le_right _ _, by simp⟩

theorem discover4_spec {σ} {X : Xp σ} (hX : XOk X) (s : σ × Nat) :
    (discover4 (countX X) s).1.2 ≤ s.2 + 5 ∧
    (∀ e, (discover4 (countX X) s).2 = .error e → isTagCmd e = true) ∧
    (∀ i, (discover4 (countX X) s).2 = .ok (some i) → InfoOk i) := by
  unfold discover4
  have ha := selectApp_spec hX s
  rcases hr : selectApp (countX X) s with ⟨s1, r⟩
  rw [hr] at ha
  cases r with
  | error e => exact absurd rfl (ha.2 e)
  | ok o =>
    cases o with
    | none => exact ⟨by simp at ha ⊢; omega, by simp, by simp⟩
    | some v1 =>
      simp only
      have hf := selectFid_spec hX v1 [0xE1, 0x03] (by simp) s1
      rcases hr2 : selectFid (countX X) v1 [0xE1, 0x03] s1 with ⟨s2, r2⟩
      rw [hr2] at hf
      cases r2 with
      | error e => exact absurd rfl (hf.2 e)
      | ok b =>
        cases b with
        | false => exact ⟨by simp at ha hf ⊢; omega, by simp, by simp⟩
        | true =>
          simp only
          have hc3 := readBin_cnt X 15 0 2 s2
          rcases hr3 : readBin (countX X) 15 0 2 s2 with ⟨s3, r3⟩
          rw [hr3] at hc3
          cases r3 with
          | error e =>
            refine ⟨by simp at ha hf hc3 ⊢; omega, ?_, by simp⟩
            intro e' he'; simp at he'; subst he'
            exact readBin_err hX 15 0 2 s2 (by omega) (by omega) _ (by rw [hr3])
          | ok cclen =>
            simp only
            split
            · exact ⟨by simp at ha hf hc3 ⊢; omega, by simp, by simp⟩
            · have hc4 := readBin_cnt X 15 2 (min ((beNat cclen : Int) - 2) 15) s3
              rcases hr4 : readBin (countX X) 15 2 (min ((beNat cclen : Int) - 2) 15) s3 with ⟨s4, r4⟩
              rw [hr4] at hc4
              cases r4 with
              | error e =>
                refine ⟨by simp at ha hf hc3 hc4 ⊢; omega, ?_, by simp⟩
                intro e' he'; simp at he'; subst he'
                exact readBin_err hX 15 2 _ s3 (by omega) (by omega) _ (by rw [hr4])
              | ok caps =>
                have hl := readBin_len X 15 2 _ s3 caps (by rw [hr4])
                have hp := parseCC_spec v1 caps (by omega)
                refine ⟨by simp at ha hf hc3 hc4 ⊢; omega, ?_, ?_⟩
                · intro e he; exact absurd he (hp.1 e)
                · intro i hi; exact hp.2 i hi

/-- what the property demands of a returned NDEF object -/
def SafeNdef (d : Ndef) : Prop :=
  (d.length : Int) ≤ d.cap ∧ d.octets.length = d.length ∧ d.addrs.length = d.length ∧
  ∀ a ∈ d.addrs, d.lo ≤ a ∧ a < d.hi

theorem readFile4_spec {σ} {X : Xp σ} (hX : XOk X) (i : Info) (hi : InfoOk i) (s1 : σ × Nat) :
    (readFile4 (countX X) i s1).1.2 ≤ s1.2 + 2 + 65536 ∧
    (∀ e, (readFile4 (countX X) i s1).2 = .error e → isTagCmd e = true) ∧
    (∀ d i', (readFile4 (countX X) i s1).2 = .ok (some (d, i')) → SafeNdef d ∧ InfoOk i') := by
  have hm : i.maxLe ≤ 256 := hi.1
  unfold readFile4
  have hf := selectFid_spec hX i.v1 i.fid hi.2 s1
  rcases hr2 : selectFid (countX X) i.v1 i.fid s1 with ⟨s2, r2⟩
  rw [hr2] at hf
  cases r2 with
  | error e => exact absurd rfl (hf.2 e)
  | ok b =>
    cases b with
    | false => exact ⟨by simp at hf ⊢; omega, by simp, by simp⟩
    | true =>
      simp only
      have hc3 := readBin_cnt X i.maxLe 0 i.nlenSize s2
      rcases hr3 : readBin (countX X) i.maxLe 0 i.nlenSize s2 with ⟨s3, r3⟩
      rw [hr3] at hc3
      cases r3 with
      | error e =>
        refine ⟨by simp at hf hc3 ⊢; omega, ?_, by simp⟩
        intro e' he'; simp at he'; subst he'
        exact readBin_err hX i.maxLe 0 _ s2 (by omega) hm _ (by rw [hr3])
      | ok nl =>
        simp only
        split
        · exact ⟨by simp at hf hc3 ⊢; omega, by simp, by simp⟩
        · split
          · exact ⟨by simp at hf hc3 ⊢; omega, by simp, by simp⟩
          · rename_i hnl hcap
            have hcap' : ¬ ((beNat nl : Int) > i.capacity) ∧ i.nlenSize + beNat nl ≤ 0x10000 := by
              constructor
              · intro h; exact hcap (Or.inl h)
              · apply Nat.le_of_not_gt; intro h; exact hcap (Or.inr h)
            have hl := readLoop4_spec hX i (beNat nl) hm (by omega) (beNat nl + 1) [] s3 (by simp) (by simp)
            rcases hr4 : readLoop4 (countX X) i (beNat nl) (beNat nl + 1) [] s3 with ⟨s4, r4⟩
            rw [hr4] at hl
            cases r4 with
            | error e =>
              refine ⟨by simp at hf hc3 hl ⊢; omega, ?_, by simp⟩
              intro e' he'; simp at he'; subst he'; exact hl.2.1 e rfl
            | ok o4 =>
              cases o4 with
              | none => exact ⟨by simp at hf hc3 hl ⊢; omega, by simp, by simp⟩
              | some data =>
                have hlen : data.length = beNat nl := hl.2.2 data rfl
                refine ⟨by simp at hf hc3 hl ⊢; omega, by simp, ?_⟩
                intro d i' h
                simp at h
                obtain ⟨h1, h2⟩ := h
                subst h1; subst h2
                refine ⟨⟨?_, rfl, by simp, ?_⟩, hi⟩
                · simp only; omega
                · intro a ha
                  simp only [List.mem_range'_1] at ha
                  simp only
                  omega

theorem readNdef4Body_spec {σ} {X : Xp σ} (hX : XOk X) (known : Option Info)
    (hk : ∀ i, known = some i → InfoOk i) (s : σ × Nat) :
    (readNdef4Body (countX X) known s).1.2 ≤ s.2 + 7 + 65536 ∧
    (∀ e, (readNdef4Body (countX X) known s).2 = .error e → isTagCmd e = true) ∧
    (∀ d i, (readNdef4Body (countX X) known s).2 = .ok (some (d, i)) → SafeNdef d ∧ InfoOk i) := by
  unfold readNdef4Body
  cases known with
  | some i =>
    have := readFile4_spec hX i (hk i rfl) s
    simp only
    exact ⟨by omega, this.2.1, this.2.2⟩
  | none =>
    simp only
    have hd := discover4_spec hX s
    rcases hr : discover4 (countX X) s with ⟨s1, r⟩
    rw [hr] at hd
    cases r with
    | error e => exact ⟨by simp at hd ⊢; omega, by intro e' h; simp at h; subst h; exact hd.2.1 e rfl, by simp⟩
    | ok o =>
      cases o with
      | none => exact ⟨by simp at hd ⊢; omega, by simp, by simp⟩
      | some i =>
        have := readFile4_spec hX i (hd.2.2 i rfl) s1
        simp only
        exact ⟨by simp at hd; omega, this.2.1, this.2.2⟩

theorem catch4_spec {σ α} (x : σ × Py (Option α)) (h : ∀ e, x.2 = .error e → isTagCmd e = true) :
    (catch4 x).1 = x.1 ∧ ((catch4 x).2 = .ok none ∨ ∃ v, x.2 = .ok (some v) ∧ (catch4 x).2 = .ok (some v)) := by
  obtain ⟨s, r⟩ := x
  cases r with
  | error e =>
    have := h e rfl
    cases e <;> simp [isTagCmd] at this
    simp [catch4]
  | ok o =>
    cases o with
    | none => simp [catch4]
    | some v => simp [catch4]

/-- APDU level: whatever the card answers, `_read_ndef_data` sends at most 7 + 65536 APDUs and returns
`None` or a consistent object; it never raises -/
theorem readNdef4_safe {σ} {X : Xp σ} (hX : XOk X) (known : Option Info)
    (hk : ∀ i, known = some i → InfoOk i) (s : σ × Nat) :
    (readNdef4 (countX X) known s).1.2 ≤ s.2 + 7 + 65536 ∧
    ((readNdef4 (countX X) known s).2 = .ok none ∨
     ∃ d i, (readNdef4 (countX X) known s).2 = .ok (some (d, i)) ∧ SafeNdef d ∧ InfoOk i) := by
  have hb := readNdef4Body_spec hX known hk s
  have hc := catch4_spec (readNdef4Body (countX X) known s) hb.2.1
  unfold readNdef4
  refine ⟨by rw [hc.1]; exact hb.1, ?_⟩
  rcases hc.2 with h | ⟨v, hv, hv'⟩
  · exact Or.inl h
  · obtain ⟨d, i⟩ := v
    exact Or.inr ⟨d, i, hv', hb.2.2 d i hv⟩

/-! ## the reader under two related transports

The NDEF reader uses its transport only through `run`; two transports whose `run` keeps a relation between
their states and gives equal answers (for the commands the reader builds) make the reader go the same way.
Used twice: to forget the APDU counter of `countX`, and to carry an invariant of the transport state (the
number of frames of the ISO-DEP initiator) through the reader. -/

def Rel {σ τ} (X : Xp σ) (Y : Xp τ) (R : σ → τ → Prop) : Prop :=
  ∀ s t c, CmdOk c → R s t → R (X.run s c).1 (Y.run t c).1 ∧ (X.run s c).2 = (Y.run t c).2

section rel
variable {σ τ : Type} {X : Xp σ} {Y : Xp τ} {R : σ → τ → Prop}

theorem apdu4_rel (h : Rel X Y R) (ins p1 p2 : Nat) (data : Bytes) (mrl : Int) (hd : data.length ≤ 7)
    (s : σ) (t : τ) (hs : R s t) :
    R (apdu4 X ins p1 p2 data mrl s).1 (apdu4 Y ins p1 p2 data mrl t).1 ∧
    (apdu4 X ins p1 p2 data mrl s).2 = (apdu4 Y ins p1 p2 data mrl t).2 := by
  unfold apdu4
  split
  · exact ⟨hs, rfl⟩
  · have := h s t _ (cmd4_ok ins p1 p2 data mrl hd) hs
    exact ⟨this.1, by simp only [this.2]⟩

theorem selectApp_rel (h : Rel X Y R) (s : σ) (t : τ) (hs : R s t) :
    R (selectApp X s).1 (selectApp Y t).1 ∧ (selectApp X s).2 = (selectApp Y t).2 := by
  unfold selectApp
  have h1 := apdu4_rel h 0xA4 0x04 0x00 aidV2 256 (by simp [aidV2]) s t hs
  rcases hx : apdu4 X 0xA4 0x04 0x00 aidV2 256 s with ⟨s1, r⟩
  rcases hy : apdu4 Y 0xA4 0x04 0x00 aidV2 256 t with ⟨t1, r'⟩
  rw [hx, hy] at h1
  obtain ⟨hr1, he⟩ := h1
  simp only at he hr1
  subst he
  cases r with
  | ok d => exact ⟨hr1, rfl⟩
  | error e =>
    cases e with
    | tagCmd n =>
      simp only
      split
      · exact ⟨hr1, rfl⟩
      · have h2 := apdu4_rel h 0xA4 0x04 0x00 aidV1 0 (by simp [aidV1]) s1 t1 hr1
        rcases hx2 : apdu4 X 0xA4 0x04 0x00 aidV1 0 s1 with ⟨s2, r2⟩
        rcases hy2 : apdu4 Y 0xA4 0x04 0x00 aidV1 0 t1 with ⟨t2, r2'⟩
        rw [hx2, hy2] at h2
        obtain ⟨hr2, he2⟩ := h2
        simp only at he2 hr2
        subst he2
        cases r2 with
        | ok d => exact ⟨hr2, rfl⟩
        | error e2 => cases e2 <;> exact ⟨hr2, rfl⟩
    | _ => exact ⟨hr1, rfl⟩

theorem selectFid_rel (h : Rel X Y R) (v1 : Bool) (fid : Bytes) (hf : fid.length ≤ 7) (s : σ) (t : τ) (hs : R s t) :
    R (selectFid X v1 fid s).1 (selectFid Y v1 fid t).1 ∧ (selectFid X v1 fid s).2 = (selectFid Y v1 fid t).2 := by
  unfold selectFid
  have h1 := apdu4_rel h 0xA4 0x00 (if v1 then 0x00 else 0x0C) fid 0 hf s t hs
  rcases hx : apdu4 X 0xA4 0x00 (if v1 then 0x00 else 0x0C) fid 0 s with ⟨s1, r⟩
  rcases hy : apdu4 Y 0xA4 0x00 (if v1 then 0x00 else 0x0C) fid 0 t with ⟨t1, r'⟩
  rw [hx, hy] at h1
  obtain ⟨hr1, he⟩ := h1
  simp only at he hr1
  subst he
  cases r with
  | ok d => exact ⟨hr1, rfl⟩
  | error e => cases e <;> exact ⟨hr1, rfl⟩

theorem readBin_rel (h : Rel X Y R) (maxLe off : Nat) (size : Int) (s : σ) (t : τ) (hs : R s t) :
    R (readBin X maxLe off size s).1 (readBin Y maxLe off size t).1 ∧
    (readBin X maxLe off size s).2 = (readBin Y maxLe off size t).2 := by
  unfold readBin
  split
  · exact ⟨hs, rfl⟩
  · have := apdu4_rel h 0xB0 (off / 256) (off % 256) [] (min (maxLe : Int) size) (by simp) s t hs
    exact ⟨this.1, by simp only [this.2]⟩

theorem discover4_rel (h : Rel X Y R) (s : σ) (t : τ) (hs : R s t) :
    R (discover4 X s).1 (discover4 Y t).1 ∧ (discover4 X s).2 = (discover4 Y t).2 := by
  unfold discover4
  have h1 := selectApp_rel h s t hs
  rcases hx : selectApp X s with ⟨s1, r⟩
  rcases hy : selectApp Y t with ⟨t1, r'⟩
  rw [hx, hy] at h1
  obtain ⟨hr1, he⟩ := h1
  simp only at he hr1
  subst he
  cases r with
  | error e => exact ⟨hr1, rfl⟩
  | ok o =>
    cases o with
    | none => exact ⟨hr1, rfl⟩
    | some v1 =>
      simp only
      have h2 := selectFid_rel h v1 [0xE1, 0x03] (by simp) s1 t1 hr1
      rcases hx2 : selectFid X v1 [0xE1, 0x03] s1 with ⟨s2, r2⟩
      rcases hy2 : selectFid Y v1 [0xE1, 0x03] t1 with ⟨t2, r2'⟩
      rw [hx2, hy2] at h2
      obtain ⟨hr2, he2⟩ := h2
      simp only at he2 hr2
      subst he2
      cases r2 with
      | error e => exact ⟨hr2, rfl⟩
      | ok b =>
        cases b with
        | false => exact ⟨hr2, rfl⟩
        | true =>
          simp only
          have h3 := readBin_rel h 15 0 2 s2 t2 hr2
          rcases hx3 : readBin X 15 0 2 s2 with ⟨s3, r3⟩
          rcases hy3 : readBin Y 15 0 2 t2 with ⟨t3, r3'⟩
          rw [hx3, hy3] at h3
          obtain ⟨hr3, he3⟩ := h3
          simp only at he3 hr3
          subst he3
          cases r3 with
          | error e => exact ⟨hr3, rfl⟩
          | ok cclen =>
            simp only
            split
            · exact ⟨hr3, rfl⟩
            · have h4 := readBin_rel h 15 2 (min ((beNat cclen : Int) - 2) 15) s3 t3 hr3
              rcases hx4 : readBin X 15 2 (min ((beNat cclen : Int) - 2) 15) s3 with ⟨s4, r4⟩
              rcases hy4 : readBin Y 15 2 (min ((beNat cclen : Int) - 2) 15) t3 with ⟨t4, r4'⟩
              rw [hx4, hy4] at h4
              obtain ⟨hr4, he4⟩ := h4
              simp only at he4 hr4
              subst he4
              cases r4 with
              | error e => exact ⟨hr4, rfl⟩
              | ok caps => exact ⟨hr4, rfl⟩

theorem readLoop4_rel (h : Rel X Y R) (i : Info) (nlen : Nat) :
    ∀ (fuel : Nat) (acc : Bytes) (s : σ) (t : τ), R s t →
      R (readLoop4 X i nlen fuel acc s).1 (readLoop4 Y i nlen fuel acc t).1 ∧
      (readLoop4 X i nlen fuel acc s).2 = (readLoop4 Y i nlen fuel acc t).2 := by
  intro fuel
  induction fuel with
  | zero => intro acc s t hs; exact ⟨hs, rfl⟩
  | succ f ih =>
    intro acc s t hs
    unfold readLoop4
    split
    · exact ⟨hs, rfl⟩
    · have h1 := readBin_rel h i.maxLe (i.nlenSize + acc.length) ((nlen : Int) - acc.length) s t hs
      rcases hx : readBin X i.maxLe (i.nlenSize + acc.length) ((nlen : Int) - acc.length) s with ⟨s1, r⟩
      rcases hy : readBin Y i.maxLe (i.nlenSize + acc.length) ((nlen : Int) - acc.length) t with ⟨t1, r'⟩
      rw [hx, hy] at h1
      obtain ⟨hr1, he⟩ := h1
      simp only at he hr1
      subst he
      cases r with
      | error e => exact ⟨hr1, rfl⟩
      | ok more =>
        simp only
        split
        · exact ⟨hr1, rfl⟩
        · exact ih _ s1 t1 hr1

theorem readFile4_rel (h : Rel X Y R) (i : Info) (hf : i.fid.length ≤ 7) (s : σ) (t : τ) (hs : R s t) :
    R (readFile4 X i s).1 (readFile4 Y i t).1 ∧ (readFile4 X i s).2 = (readFile4 Y i t).2 := by
  unfold readFile4
  have h2 := selectFid_rel h i.v1 i.fid hf s t hs
  rcases hx2 : selectFid X i.v1 i.fid s with ⟨s2, r2⟩
  rcases hy2 : selectFid Y i.v1 i.fid t with ⟨t2, r2'⟩
  rw [hx2, hy2] at h2
  obtain ⟨hr2, he2⟩ := h2
  simp only at he2 hr2
  subst he2
  cases r2 with
  | error e => exact ⟨hr2, rfl⟩
  | ok b =>
    cases b with
    | false => exact ⟨hr2, rfl⟩
    | true =>
      simp only
      have h3 := readBin_rel h i.maxLe 0 i.nlenSize s2 t2 hr2
      rcases hx3 : readBin X i.maxLe 0 i.nlenSize s2 with ⟨s3, r3⟩
      rcases hy3 : readBin Y i.maxLe 0 i.nlenSize t2 with ⟨t3, r3'⟩
      rw [hx3, hy3] at h3
      obtain ⟨hr3, he3⟩ := h3
      simp only at he3 hr3
      subst he3
      cases r3 with
      | error e => exact ⟨hr3, rfl⟩
      | ok nl =>
        simp only
        split
        · exact ⟨hr3, rfl⟩
        · split
          · exact ⟨hr3, rfl⟩
          · have h4 := readLoop4_rel h i (beNat nl) (beNat nl + 1) [] s3 t3 hr3
            rcases hx4 : readLoop4 X i (beNat nl) (beNat nl + 1) [] s3 with ⟨s4, r4⟩
            rcases hy4 : readLoop4 Y i (beNat nl) (beNat nl + 1) [] t3 with ⟨t4, r4'⟩
            rw [hx4, hy4] at h4
            obtain ⟨hr4, he4⟩ := h4
            simp only at he4 hr4
            subst he4
            cases r4 with
            | error e => exact ⟨hr4, rfl⟩
            | ok o =>
              cases o with
              | none => exact ⟨hr4, rfl⟩
              | some data => exact ⟨hr4, rfl⟩

theorem parseCC_fid (v1 : Bool) (caps : Bytes) (i : Info) (h : parseCC v1 caps = .ok (some i)) : i.fid.length ≤ 7 := by
  unfold parseCC at h
  split at h
  · cases h
  · split at h
    · simp only at h
      repeat' split at h
      all_goals (simp at h; try (subst h; simp))
    · cases h

theorem discover4_fid (X : Xp σ) (s : σ) (i : Info) (h : (discover4 X s).2 = .ok (some i)) : i.fid.length ≤ 7 := by
  unfold discover4 at h
  generalize selectApp X s = q at h
  obtain ⟨s1, r⟩ := q
  cases r with
  | error e => simp at h
  | ok o =>
    cases o with
    | none => simp at h
    | some v1 =>
      simp only at h
      generalize selectFid X v1 [0xE1, 0x03] s1 = q2 at h
      obtain ⟨s2, r2⟩ := q2
      cases r2 with
      | error e => simp at h
      | ok b =>
        cases b with
        | false => simp at h
        | true =>
          simp only at h
          generalize readBin X 15 0 2 s2 = q3 at h
          obtain ⟨s3, r3⟩ := q3
          cases r3 with
          | error e => simp at h
          | ok cclen =>
            simp only at h
            split at h
            · simp at h
            · generalize readBin X 15 2 (min ((beNat cclen : Int) - 2) 15) s3 = q4 at h
              obtain ⟨s4, r4⟩ := q4
              cases r4 with
              | error e => simp at h
              | ok caps => exact parseCC_fid v1 caps i h

/-- two related transports take `_read_ndef_data` the same way -/
theorem readNdef4_rel (h : Rel X Y R) (known : Option Info) (hk : ∀ i, known = some i → i.fid.length ≤ 7)
    (s : σ) (t : τ) (hs : R s t) :
    R (readNdef4 X known s).1 (readNdef4 Y known t).1 ∧ (readNdef4 X known s).2 = (readNdef4 Y known t).2 := by
  have hb : R (readNdef4Body X known s).1 (readNdef4Body Y known t).1 ∧
      (readNdef4Body X known s).2 = (readNdef4Body Y known t).2 := by
    unfold readNdef4Body
    cases known with
    | some i => exact readFile4_rel h i (hk i rfl) s t hs
    | none =>
      simp only
      have h1 := discover4_rel h s t hs
      have hfid := discover4_fid X s
      rcases hx : discover4 X s with ⟨s1, r⟩
      rcases hy : discover4 Y t with ⟨t1, r'⟩
      rw [hx, hy] at h1
      rw [hx] at hfid
      obtain ⟨hr1, he⟩ := h1
      simp only at he hr1 hfid
      subst he
      cases r with
      | error e => exact ⟨hr1, rfl⟩
      | ok o =>
        cases o with
        | none => exact ⟨hr1, rfl⟩
        | some i => exact readFile4_rel h i (hfid i rfl) s1 t1 hr1
  unfold readNdef4
  rcases hx : readNdef4Body X known s with ⟨s1, r⟩
  rcases hy : readNdef4Body Y known t with ⟨t1, r'⟩
  rw [hx, hy] at hb
  obtain ⟨hr, he⟩ := hb
  simp only at he hr
  subst he
  cases r with
  | ok o => exact ⟨hr, rfl⟩
  | error e => cases e <;> exact ⟨hr, rfl⟩

end rel
end NfcVerif.Adv
