import NfcVerif.Model.AdvT34
/-!
# C08 lemmas: the Type 4 NDEF reader against every APDU level card
-/
namespace NfcVerif.Adv
open NfcVerif.IsoDep

def countX {σ} (X : Xp σ) : Xp (σ × Nat) :=
  ⟨fun s c => (((X.run s.1 c).1, s.2 + 1), (X.run s.1 c).2)⟩

def XOk {σ} (X : Xp σ) : Prop := ∀ s c e, (X.run s c).2 = .error e → isTagCmd e = true

theorem checkStatus_err (rsp : Bytes) (e : Exc) (h : checkStatus true rsp = .error e) : isTagCmd e = true := by
  simp only [checkStatus] at h
  split at h
  · cases h; rfl
  · split at h
    · cases h; rfl
    · cases h

theorem apdu4_cnt {σ} (X : Xp σ) (ins p1 p2 : Nat) (data : Bytes) (mrl : Int) (s : σ × Nat) :
    (apdu4 (countX X) ins p1 p2 data mrl s).1.2 ≤ s.2 + 1 ∧ s.2 ≤ (apdu4 (countX X) ins p1 p2 data mrl s).1.2 := by
  unfold apdu4; split <;> simp [countX]

theorem apdu4_err {σ} {X : Xp σ} (hX : XOk X) (ins p1 p2 : Nat) (data : Bytes) (mrl : Int) (s : σ × Nat)
    (hm : mrl ≤ 256) (e : Exc) (he : (apdu4 (countX X) ins p1 p2 data mrl s).2 = .error e) : isTagCmd e = true := by
  unfold apdu4 at he
  rw [if_neg (by omega)] at he
  simp only [countX] at he
  cases hr : (X.run s.1 (cmd4 ins p1 p2 data mrl)).2 with
  | error e' =>
    rw [hr] at he; simp at he; subst he; exact hX _ _ _ hr
  | ok rsp =>
    rw [hr] at he; simp at he; exact checkStatus_err rsp e he

theorem readBin_cnt {σ} (X : Xp σ) (maxLe off : Nat) (size : Int) (s : σ × Nat) :
    (readBin (countX X) maxLe off size s).1.2 ≤ s.2 + 1 ∧ s.2 ≤ (readBin (countX X) maxLe off size s).1.2 := by
  unfold readBin; split
  · simp
  · exact apdu4_cnt X _ _ _ _ _ s

theorem readBin_err {σ} {X : Xp σ} (hX : XOk X) (maxLe off : Nat) (size : Int) (s : σ × Nat)
    (ho : off ≤ 65535) (hm : maxLe ≤ 256) (e : Exc) (he : (readBin (countX X) maxLe off size s).2 = .error e) :
    isTagCmd e = true := by
  unfold readBin at he
  rw [if_neg (by omega)] at he
  simp only [surplus] at he
  cases hr : (apdu4 (countX X) 0xB0 (off / 256) (off % 256) [] (min (maxLe : Int) size) s).2 with
  | error e' =>
    rw [hr] at he; simp at he; subst he
    exact apdu4_err hX _ _ _ _ _ s (by omega) _ hr
  | ok d =>
    rw [hr] at he; simp at he
    split at he
    · cases he; rfl
    · cases he

theorem readBin_len {σ} (X : Xp σ) (maxLe off : Nat) (size : Int) (s : σ × Nat) (d : Bytes)
    (h : (readBin (countX X) maxLe off size s).2 = .ok d) : (d.length : Int) ≤ max (min (maxLe : Int) size) 0 := by
  unfold readBin at h
  split at h
  · cases h
  · simp only [surplus] at h
    cases hr : (apdu4 (countX X) 0xB0 (off / 256) (off % 256) [] (min (maxLe : Int) size) s).2 with
    | error e' => rw [hr] at h; simp at h
    | ok d' =>
      rw [hr] at h; simp at h
      split at h
      · cases h
      · cases h; omega

theorem readLoop4_spec {σ} {X : Xp σ} (hX : XOk X) (i : Info) (nlen : Nat) (hm : i.maxLe ≤ 256)
    (ho : i.nlenSize + nlen ≤ 65536) :
    ∀ (fuel : Nat) (acc : Bytes) (s : σ × Nat), acc.length ≤ nlen → nlen < acc.length + fuel →
      (readLoop4 (countX X) i nlen fuel acc s).1.2 ≤ s.2 + (nlen - acc.length) ∧
      (∀ e, (readLoop4 (countX X) i nlen fuel acc s).2 = .error e → isTagCmd e = true) ∧
      (∀ d, (readLoop4 (countX X) i nlen fuel acc s).2 = .ok (some d) → d.length = nlen) := by
  intro fuel
  induction fuel with
  | zero => intro acc s h1 h2; omega
  | succ f ih =>
    intro acc s h1 h2
    unfold readLoop4
    split
    · refine ⟨by simp, by simp, ?_⟩
      intro d hd; simp at hd; subst hd; omega
    · rename_i hlt
      have hlt' : acc.length < nlen := by omega
      have hc := readBin_cnt X i.maxLe (i.nlenSize + acc.length) ((nlen : Int) - acc.length) s
      rcases hr : readBin (countX X) i.maxLe (i.nlenSize + acc.length) ((nlen : Int) - acc.length) s with ⟨s1, r⟩
      rw [hr] at hc
      cases r with
      | error e =>
        refine ⟨by simp at hc ⊢; omega, ?_, by simp⟩
        intro e' he'; simp at he'; subst he'
        exact readBin_err hX i.maxLe (i.nlenSize + acc.length) _ s (by omega) hm _ (by rw [hr])
      | ok more =>
        have hl := readBin_len X _ _ _ s more (by rw [hr])
        simp only
        split
        · refine ⟨by simp at hc ⊢; omega, by simp, by simp⟩
        · rename_i hne
          have hml : more.length ≤ nlen - acc.length := by omega
          have := ih (acc ++ more) s1 (by simp; omega) (by simp; omega)
          simp only [List.length_append] at this
          refine ⟨?_, this.2.1, this.2.2⟩
          simp at hc
          omega

theorem selectFid_spec {σ} {X : Xp σ} (hX : XOk X) (v1 : Bool) (fid : Bytes) (s : σ × Nat) :
    (selectFid (countX X) v1 fid s).1.2 ≤ s.2 + 1 ∧ ∀ e, (selectFid (countX X) v1 fid s).2 ≠ .error e := by
  unfold selectFid
  have hc := apdu4_cnt X 0xA4 0x00 (if v1 then 0x00 else 0x0C) fid 0 s
  have he := apdu4_err hX 0xA4 0x00 (if v1 then 0x00 else 0x0C) fid 0 s (by omega)
  rcases hr : apdu4 (countX X) 0xA4 0x00 (if v1 then 0x00 else 0x0C) fid 0 s with ⟨s1, r⟩
  rw [hr] at hc he
  cases r with
  | ok d => exact ⟨hc.1, by simp⟩
  | error e =>
    have := he e rfl
    cases e <;> simp [isTagCmd] at this
    exact ⟨hc.1, by simp⟩

theorem selectApp_spec {σ} {X : Xp σ} (hX : XOk X) (s : σ × Nat) :
    (selectApp (countX X) s).1.2 ≤ s.2 + 2 ∧ ∀ e, (selectApp (countX X) s).2 ≠ .error e := by
  unfold selectApp
  have hc := apdu4_cnt X 0xA4 0x04 0x00 aidV2 256 s
  have he := apdu4_err hX 0xA4 0x04 0x00 aidV2 256 s (by omega)
  rcases hr : apdu4 (countX X) 0xA4 0x04 0x00 aidV2 256 s with ⟨s1, r⟩
  rw [hr] at hc he
  cases r with
  | ok d => exact ⟨by simp at hc ⊢; omega, by simp⟩
  | error e =>
    have := he e rfl
    cases e <;> simp [isTagCmd] at this
    rename_i n
    simp only
    split
    · exact ⟨by simp at hc ⊢; omega, by simp⟩
    · have hc2 := apdu4_cnt X 0xA4 0x04 0x00 aidV1 0 s1
      have he2 := apdu4_err hX 0xA4 0x04 0x00 aidV1 0 s1 (by omega)
      rcases hr2 : apdu4 (countX X) 0xA4 0x04 0x00 aidV1 0 s1 with ⟨s2, r2⟩
      rw [hr2] at hc2 he2
      cases r2 with
      | ok d => exact ⟨by simp at hc hc2 ⊢; omega, by simp⟩
      | error e2 =>
        have := he2 e2 rfl
        cases e2 <;> simp [isTagCmd] at this
        exact ⟨by simp at hc hc2 ⊢; omega, by simp⟩

theorem parseCC_spec (v1 : Bool) (caps : Bytes) (h : caps.length ≤ 15) :
    (∀ e, parseCC v1 caps ≠ .error e) ∧ ∀ i, parseCC v1 caps = .ok (some i) → i.maxLe ≤ 256 := by
  unfold parseCC
  split
  · simp
  · rename_i h13
    have hl : (caps ++ List.replicate (15 - caps.length) 0).length = 15 := by simp; omega
    generalize caps ++ List.replicate (15 - caps.length) 0 = l at hl
    match l, hl with
    | [ver, e1, e0, c1, c0, tag, plen, v0, v1', v2, v3, v4, v5, v6, v7], _ =>
      simp only
      split
      · simp
      · split
        · simp
        · refine ⟨by simp, ?_⟩
          intro i hi
          simp at hi
          subst hi
          exact Nat.min_le_right _ _

theorem discover4_spec {σ} {X : Xp σ} (hX : XOk X) (s : σ × Nat) :
    (discover4 (countX X) s).1.2 ≤ s.2 + 5 ∧
    (∀ e, (discover4 (countX X) s).2 = .error e → isTagCmd e = true) ∧
    (∀ i, (discover4 (countX X) s).2 = .ok (some i) → i.maxLe ≤ 256) := by
  unfold discover4
  have ha := selectApp_spec hX s
  rcases hr : selectApp (countX X) s with ⟨s1, r⟩
  rw [hr] at ha
  cases r with
  | error e => exact absurd rfl (ha.2 e)
  | ok o =>
    cases o with
    | none => exact ⟨by simp at ha ⊢; omega, by simp, by simp⟩
    | some v1 =>
      simp only
      have hf := selectFid_spec hX v1 [0xE1, 0x03] s1
      rcases hr2 : selectFid (countX X) v1 [0xE1, 0x03] s1 with ⟨s2, r2⟩
      rw [hr2] at hf
      cases r2 with
      | error e => exact absurd rfl (hf.2 e)
      | ok b =>
        cases b with
        | false => exact ⟨by simp at ha hf ⊢; omega, by simp, by simp⟩
        | true =>
          simp only
          have hc3 := readBin_cnt X 15 0 2 s2
          rcases hr3 : readBin (countX X) 15 0 2 s2 with ⟨s3, r3⟩
          rw [hr3] at hc3
          cases r3 with
          | error e =>
            refine ⟨by simp at ha hf hc3 ⊢; omega, ?_, by simp⟩
            intro e' he'; simp at he'; subst he'
            exact readBin_err hX 15 0 2 s2 (by omega) (by omega) _ (by rw [hr3])
          | ok cclen =>
            simp only
            split
            · exact ⟨by simp at ha hf hc3 ⊢; omega, by simp, by simp⟩
            · have hc4 := readBin_cnt X 15 2 (min ((beNat cclen : Int) - 2) 15) s3
              rcases hr4 : readBin (countX X) 15 2 (min ((beNat cclen : Int) - 2) 15) s3 with ⟨s4, r4⟩
              rw [hr4] at hc4
              cases r4 with
              | error e =>
                refine ⟨by simp at ha hf hc3 hc4 ⊢; omega, ?_, by simp⟩
                intro e' he'; simp at he'; subst he'
                exact readBin_err hX 15 2 _ s3 (by omega) (by omega) _ (by rw [hr4])
              | ok caps =>
                have hl := readBin_len X 15 2 _ s3 caps (by rw [hr4])
                have hp := parseCC_spec v1 caps (by omega)
                refine ⟨by simp at ha hf hc3 hc4 ⊢; omega, ?_, ?_⟩
                · intro e he; exact absurd he (hp.1 e)
                · intro i hi; exact hp.2 i hi

/-- what the property demands of a returned NDEF object -/
def SafeNdef (d : Ndef) : Prop :=
  (d.length : Int) ≤ d.cap ∧ d.octets.length = d.length ∧ d.addrs.length = d.length ∧
  ∀ a ∈ d.addrs, d.lo ≤ a ∧ a < d.hi

theorem readFile4_spec {σ} {X : Xp σ} (hX : XOk X) (i : Info) (hm : i.maxLe ≤ 256) (s1 : σ × Nat) :
    (readFile4 (countX X) i s1).1.2 ≤ s1.2 + 2 + 65536 ∧
    (∀ e, (readFile4 (countX X) i s1).2 = .error e → isTagCmd e = true) ∧
    (∀ d i', (readFile4 (countX X) i s1).2 = .ok (some (d, i')) → SafeNdef d ∧ i'.maxLe ≤ 256) := by
  unfold readFile4
  have hf := selectFid_spec hX i.v1 i.fid s1
  rcases hr2 : selectFid (countX X) i.v1 i.fid s1 with ⟨s2, r2⟩
  rw [hr2] at hf
  cases r2 with
  | error e => exact absurd rfl (hf.2 e)
  | ok b =>
    cases b with
    | false => exact ⟨by simp at hf ⊢; omega, by simp, by simp⟩
    | true =>
      simp only
      have hc3 := readBin_cnt X i.maxLe 0 i.nlenSize s2
      rcases hr3 : readBin (countX X) i.maxLe 0 i.nlenSize s2 with ⟨s3, r3⟩
      rw [hr3] at hc3
      cases r3 with
      | error e =>
        refine ⟨by simp at hf hc3 ⊢; omega, ?_, by simp⟩
        intro e' he'; simp at he'; subst he'
        exact readBin_err hX i.maxLe 0 _ s2 (by omega) hm _ (by rw [hr3])
      | ok nl =>
        simp only
        split
        · exact ⟨by simp at hf hc3 ⊢; omega, by simp, by simp⟩
        · split
          · exact ⟨by simp at hf hc3 ⊢; omega, by simp, by simp⟩
          · rename_i hnl hcap
            have hcap' : ¬ ((beNat nl : Int) > i.capacity) ∧ i.nlenSize + beNat nl ≤ 0x10000 := by
              constructor
              · intro h; exact hcap (Or.inl h)
              · apply Nat.le_of_not_gt; intro h; exact hcap (Or.inr h)
            have hl := readLoop4_spec hX i (beNat nl) hm (by omega) (beNat nl + 1) [] s3 (by simp) (by simp)
            rcases hr4 : readLoop4 (countX X) i (beNat nl) (beNat nl + 1) [] s3 with ⟨s4, r4⟩
            rw [hr4] at hl
            cases r4 with
            | error e =>
              refine ⟨by simp at hf hc3 hl ⊢; omega, ?_, by simp⟩
              intro e' he'; simp at he'; subst he'; exact hl.2.1 e rfl
            | ok o4 =>
              cases o4 with
              | none => exact ⟨by simp at hf hc3 hl ⊢; omega, by simp, by simp⟩
              | some data =>
                have hlen : data.length = beNat nl := hl.2.2 data rfl
                refine ⟨by simp at hf hc3 hl ⊢; omega, by simp, ?_⟩
                intro d i' h
                simp at h
                obtain ⟨h1, h2⟩ := h
                subst h1; subst h2
                refine ⟨⟨?_, rfl, by simp, ?_⟩, hm⟩
                · simp only; omega
                · intro a ha
                  simp only [List.mem_range'_1] at ha
                  simp only
                  omega

theorem readNdef4Body_spec {σ} {X : Xp σ} (hX : XOk X) (known : Option Info)
    (hk : ∀ i, known = some i → i.maxLe ≤ 256) (s : σ × Nat) :
    (readNdef4Body (countX X) known s).1.2 ≤ s.2 + 7 + 65536 ∧
    (∀ e, (readNdef4Body (countX X) known s).2 = .error e → isTagCmd e = true) ∧
    (∀ d i, (readNdef4Body (countX X) known s).2 = .ok (some (d, i)) → SafeNdef d ∧ i.maxLe ≤ 256) := by
  unfold readNdef4Body
  cases known with
  | some i =>
    have := readFile4_spec hX i (hk i rfl) s
    simp only
    exact ⟨by omega, this.2.1, this.2.2⟩
  | none =>
    simp only
    have hd := discover4_spec hX s
    rcases hr : discover4 (countX X) s with ⟨s1, r⟩
    rw [hr] at hd
    cases r with
    | error e => exact ⟨by simp at hd ⊢; omega, by intro e' h; simp at h; subst h; exact hd.2.1 e rfl, by simp⟩
    | ok o =>
      cases o with
      | none => exact ⟨by simp at hd ⊢; omega, by simp, by simp⟩
      | some i =>
        have := readFile4_spec hX i (hd.2.2 i rfl) s1
        simp only
        exact ⟨by simp at hd; omega, this.2.1, this.2.2⟩

theorem catch4_spec {σ α} (x : σ × Py (Option α)) (h : ∀ e, x.2 = .error e → isTagCmd e = true) :
    (catch4 x).1 = x.1 ∧ ((catch4 x).2 = .ok none ∨ ∃ v, x.2 = .ok (some v) ∧ (catch4 x).2 = .ok (some v)) := by
  obtain ⟨s, r⟩ := x
  cases r with
  | error e =>
    have := h e rfl
    cases e <;> simp [isTagCmd] at this
    simp [catch4]
  | ok o =>
    cases o with
    | none => simp [catch4]
    | some v => simp [catch4]

/-- APDU level: whatever the card answers, `_read_ndef_data` sends at most 7 + 65536 APDUs and returns
`None` or a consistent object; it never raises -/
theorem readNdef4_safe {σ} {X : Xp σ} (hX : XOk X) (known : Option Info)
    (hk : ∀ i, known = some i → i.maxLe ≤ 256) (s : σ × Nat) :
    (readNdef4 (countX X) known s).1.2 ≤ s.2 + 7 + 65536 ∧
    ((readNdef4 (countX X) known s).2 = .ok none ∨
     ∃ d i, (readNdef4 (countX X) known s).2 = .ok (some (d, i)) ∧ SafeNdef d ∧ i.maxLe ≤ 256) := by
  have hb := readNdef4Body_spec hX known hk s
  have hc := catch4_spec (readNdef4Body (countX X) known s) hb.2.1
  unfold readNdef4
  refine ⟨by rw [hc.1]; exact hb.1, ?_⟩
  rcases hc.2 with h | ⟨v, hv, hv'⟩
  · exact Or.inl h
  · obtain ⟨d, i⟩ := v
    exact Or.inr ⟨d, i, hv', hb.2.2 d i hv⟩
end NfcVerif.Adv
