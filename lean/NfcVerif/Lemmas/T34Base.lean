import NfcVerif.Model.T34Base
/-! Lemmas about `splice` / `sliceN` shared by the Type 3 and Type 4 proofs. -/
namespace NfcVerif.T34

theorem splice_length (m : Bytes) (off : Nat) (d : Bytes) (h : off + d.length ≤ m.length) :
    (splice m off d).length = m.length := by
  simp [splice, List.length_append, List.length_take, List.length_drop]; omega

@[simp] theorem splice_nil (m : Bytes) (off : Nat) : splice m off [] = m := by
  simp [splice]

theorem getElem?_splice (m : Bytes) (off : Nat) (d : Bytes) (h : off + d.length ≤ m.length) (i : Nat) :
    (splice m off d)[i]? = if i < off then m[i]? else if i < off + d.length then d[i - off]? else m[i]? := by
  unfold splice
  rw [List.append_assoc, List.getElem?_append]
  simp only [List.length_take, Nat.min_eq_left (show off ≤ m.length by omega)]
  split
  · simp [*]
  · rw [List.getElem?_append]
    split
    · rw [if_pos (by omega)]
    · rw [if_neg (by omega), List.getElem?_drop]; congr 1; omega

theorem splice_take_before (m : Bytes) (off : Nat) (d : Bytes) (n : Nat) (hn : n ≤ off) (h : off + d.length ≤ m.length) :
    (splice m off d).take n = m.take n := by
  apply List.ext_getElem?; intro i
  simp only [List.getElem?_take, getElem?_splice m off d h]
  split
  · rw [if_pos (by omega)]
  · rfl

theorem splice_drop_after (m : Bytes) (off : Nat) (d : Bytes) (n : Nat) (hn : off + d.length ≤ n)
    (h : off + d.length ≤ m.length) : (splice m off d).drop n = m.drop n := by
  apply List.ext_getElem?; intro i
  simp only [List.getElem?_drop, getElem?_splice m off d h]
  rw [if_neg (by omega), if_neg (by omega)]

theorem sliceN_splice_same (m : Bytes) (off : Nat) (d : Bytes) (h : off + d.length ≤ m.length) :
    sliceN (splice m off d) off (off + d.length) = d := by
  apply List.ext_getElem?; intro i
  simp only [sliceN, List.getElem?_take, List.getElem?_drop, getElem?_splice m off d h]
  split
  · rw [if_neg (by omega), if_pos (by omega)]; congr 1; omega
  · rename_i hi; simp at hi; rw [List.getElem?_eq_none (by omega)]

theorem splice_adj (m : Bytes) (off : Nat) (a b : Bytes) (h : off + a.length + b.length ≤ m.length) :
    splice (splice m off a) (off + a.length) b = splice m off (a ++ b) := by
  have h1 : off + a.length ≤ m.length := by omega
  have hl := splice_length m off a h1
  apply List.ext_getElem?; intro i
  rw [getElem?_splice _ _ _ (by rw [hl]; omega), getElem?_splice _ _ _ h1,
      getElem?_splice _ _ _ (by simp [List.length_append]; omega)]
  simp only [List.length_append, List.getElem?_append]
  by_cases h1 : i < off
  · simp [h1, show i < off + a.length by omega]
  · by_cases h2 : i < off + a.length
    · simp [h1, h2, show i < off + (a.length + b.length) by omega, show i - off < a.length by omega]
    · by_cases h3 : i < off + a.length + b.length
      · simp [h1, h2, h3, show i < off + (a.length + b.length) by omega, show ¬ i - off < a.length by omega]
        congr 1; omega
      · simp [h1, h2, h3, show ¬ i < off + (a.length + b.length) by omega]

theorem sliceN_append (m : Bytes) (a b c : Nat) (hab : a ≤ b) (hbc : b ≤ c) :
    sliceN m a b ++ sliceN m b c = sliceN m a c := by
  unfold sliceN
  have : c - a = (b - a) + (c - b) := by omega
  rw [this, List.take_add, List.drop_drop]
  congr 3; omega

theorem sliceN_length (m : Bytes) (a b : Nat) (h : b ≤ m.length) : (sliceN m a b).length = b - a := by
  simp [sliceN, List.length_take, List.length_drop]; omega

theorem sliceN_empty (m : Bytes) (a b : Nat) (h : b ≤ a) : sliceN m a b = [] := by
  simp [sliceN, show b - a = 0 by omega]

theorem sliceN_zero_take (m : Bytes) (b : Nat) : sliceN m 0 b = m.take b := by simp [sliceN]

theorem zeros_length (n : Nat) : (zeros n).length = n := by simp [zeros]

end NfcVerif.T34
