import NfcVerif.Lemmas.Retry
import NfcVerif.Model.RetryObj
/-!
# C16 - histories on one FeliCa Lite / Lite-S tag object: proofs

Invariant of the tag object (`Obj.Inv`: an accessor with MAC is installed only together with a
session key) + soundness of the world are preserved by every operation for every fault script, and
under the invariant every operation ends with a value or a TagCommandError.
-/
namespace NfcVerif.RetryObj
open NfcVerif NfcVerif.Retry

/-- only the Type 3 retry loop: a robust primitive and a retry loop at the same time -/
def T3 (k : PrimKind) : Prop := k = .t3

/-- what a world carries through a history: the tag object knows when the frontend has dropped its target,
and in the exchange log every primitive call is unanswered attempts followed by at most one more (three at most) -/
def WOK (w : World) : Prop := Sound w ∧ LogOK w.log

theorem c3_clean (pol : Pol) (hpol : PolClean T3 pol) (ss : List Step) (k : Unit → Prog)
    (h : Clean T3 (k ())) : Clean T3 (c3 Cfg.repaired pol ss k) :=
  chain_clean_loop T3 (t3p true) .tagErr pol (Or.inr rfl) rfl (by decide) (by decide) hpol ss k h

theorem c3p_clean (pol : Pol) (hpol : PolClean T3 pol) (ss : List Step) (k : Unit → Prog)
    (h : Clean T3 (k ())) : Clean T3 (c3p Cfg.repaired pol ss k) :=
  chain_clean_loop T3 (t3p false) .tagErr pol (Or.inr rfl) rfl (by decide) (by decide) hpol ss k h

theorem c3_raise (ss : List Step) (k : Unit → Prog) (h : Clean T3 (k ())) :
    Clean T3 (c3 Cfg.repaired .raise ss k) := c3_clean .raise trivial ss k h
theorem c3_none (ss : List Step) (k : Unit → Prog) (h : Clean T3 (k ())) :
    Clean T3 (c3 Cfg.repaired (.ret .none) ss k) := c3_clean (.ret .none) trivial ss k h

/-- a clean Type 3 program: documented outcome for EVERY fault script, the world stays sound -/
theorem run_ok (P : Prog) (cur : Int) (w : World) (hc : Clean T3 P) (hs : WOK w) :
    Documented (run Cfg.repaired P cur w).1 ∧ WOK (run Cfg.repaired P cur w).2 :=
  have h := run_inv T3 True (fun _ _ hk => Or.inl hk) P cur w hc (Or.inl trivial) hs.1
  ⟨h.1, h.2.2, run_log Cfg.repaired T3 (fun _ hk => Or.inr hk) P cur w hc hs.2⟩

theorem viaRd_clean (o : Obj) (k : Bool → Prog) (hI : o.Inv) (hk : ∀ m, Clean T3 (k m)) :
    Clean T3 (viaRd o k) := by
  unfold viaRd
  split
  · rename_i h; rw [hI.1 h]; exact hk true
  · exact hk false

theorem viaWr_clean (o : Obj) (k : Bool → Prog) (hI : o.Inv) (hk : ∀ m, Clean T3 (k m)) :
    Clean T3 (viaWr o k) := by
  unfold viaWr
  split
  · rename_i h; rw [hI.2 h]; exact hk true
  · exact hk false

theorem readBody_clean (L : Cmds) (o : Obj) (hI : o.Inv) : Clean T3 (readBody Cfg.repaired L o) :=
  viaRd_clean o _ hI fun _ =>
    c3_none _ _ (c3_raise _ _ (c3_none _ _ trivial))

theorem writeBody_clean (L : Cmds) (o : Obj) (hI : o.Inv) : Clean T3 (writeBody Cfg.repaired L o) :=
  viaRd_clean o _ hI fun _ =>
    (by simp only [fixF17_rep, if_true]
        exact c3_raise _ _ (c3_raise _ _ (viaWr_clean o _ hI fun _ => c3_raise _ _ trivial)))

/-- what every operation guarantees -/
def Good (r : Outcome × Obj × World) : Prop := Documented r.1 ∧ r.2.1.Inv ∧ WOK r.2.2

theorem readNdef_good (L : Cmds) (o : Obj) (w : World) (hI : o.Inv) (hs : WOK w) :
    Good (readNdef Cfg.repaired L o w) := by
  unfold readNdef
  have h1 : Documented (if o.polled then (Outcome.ok .unit, w)
      else run Cfg.repaired (c3p Cfg.repaired (.ret .none) L.poll (fin .unit)) 0 w).1
      ∧ WOK (if o.polled then (Outcome.ok .unit, w)
      else run Cfg.repaired (c3p Cfg.repaired (.ret .none) L.poll (fin .unit)) 0 w).2 := by
    split
    · exact ⟨trivial, hs⟩
    · exact run_ok _ 0 w (c3p_clean (.ret .none) trivial _ _ trivial) hs
  generalize (if o.polled then (Outcome.ok Val.unit, w)
      else run Cfg.repaired (c3p Cfg.repaired (.ret .none) L.poll (fin .unit)) 0 w) = r1 at h1
  obtain ⟨out, w1⟩ := r1
  simp only []
  split
  · rename_i heq
    cases heq
    have hI' : ({ o with polled := true } : Obj).Inv := hI
    have h2 := run_ok _ 0 w1 (readBody_clean L _ hI') h1.2
    exact ⟨h2.1, hI', h2.2⟩
  · rename_i heq
    cases heq
    exact ⟨h1.1, hI, h1.2⟩

theorem tagNdef_good (L : Cmds) (o : Obj) (w : World) (hI : o.Inv) (hs : WOK w) :
    Good (tagNdef Cfg.repaired L o w) := by
  unfold tagNdef
  split
  · exact ⟨trivial, hI, hs⟩
  · have h := readNdef_good L o w hI hs
    generalize readNdef Cfg.repaired L o w = r at h
    split
    · exact ⟨trivial, h.2.1, h.2.2⟩
    · exact h

theorem opChanged_good (L : Cmds) (o : Obj) (w : World) (hI : o.Inv) (hs : WOK w) :
    Good (opChanged Cfg.repaired L o w) := by
  unfold opChanged
  have h := tagNdef_good L o w hI hs
  generalize tagNdef Cfg.repaired L o w = r at h
  split
  · rename_i o1 w1
    have h2 := readNdef_good L o1 w1 h.2.1 h.2.2
    generalize readNdef Cfg.repaired L o1 w1 = r2 at h2
    split
    · exact ⟨trivial, h2.2.1, h2.2.2⟩
    · exact ⟨trivial, h2.2.1, h2.2.2⟩
    · exact h2
  · exact h

theorem opWrite_good (L : Cmds) (o : Obj) (w : World) (hI : o.Inv) (hs : WOK w) :
    Good (opWrite Cfg.repaired L o w) := by
  unfold opWrite
  have h := tagNdef_good L o w hI hs
  generalize tagNdef Cfg.repaired L o w = r at h
  split
  · rename_i o1 w1
    have h2 := run_ok _ 0 w1 (writeBody_clean L o1 h.2.1) h.2.2
    exact ⟨h2.1, h.2.1, h2.2⟩
  · exact h

theorem opProtect_good (L : Cmds) (o : Obj) (w : World) (hI : o.Inv) (hs : WOK w) :
    Good (opProtect Cfg.repaired L o w) := by
  unfold opProtect
  have h1 := run_ok _ 0 w (c3_raise L.protMc (fin .unit) trivial) hs
  generalize run Cfg.repaired (c3 Cfg.repaired .raise L.protMc (fin .unit)) 0 w = r1 at h1
  obtain ⟨out1, w1⟩ := r1
  cases out1 with
  | exc e => exact ⟨h1.1, hI, h1.2⟩
  | ok v1 =>
    simp only []
    have h2 := tagNdef_good L o w1 hI h1.2
    generalize tagNdef Cfg.repaired L o w1 = r2 at h2
    obtain ⟨out2, o1, w2⟩ := r2
    cases out2 with
    | exc e => exact h2
    | ok v =>
      simp only []
      have h3 := run_ok _ 0 w2
        (c3_raise ((if v == .ndef then L.protAttr else []) ++ L.protWr) (fin .true_) trivial) h2.2.2
      generalize run Cfg.repaired (c3 Cfg.repaired .raise ((if v == .ndef then L.protAttr else []) ++ L.protWr)
        (fin .true_)) 0 w2 = r3 at h3
      obtain ⟨out3, w3⟩ := r3
      cases out3 with
      | ok v3 => exact ⟨trivial, h2.2.1, h3.2⟩
      | exc e => exact ⟨h3.1, h2.2.1, h3.2⟩

theorem opSvc_good (L : Cmds) (wr : Bool) (o : Obj) (w : World) (hI : o.Inv) (hs : WOK w) :
    Good (opSvc Cfg.repaired L wr o w) := by
  unfold opSvc
  have hc : Clean T3 (if wr then viaWr o fun m => c3 Cfg.repaired .raise (L.svcWr m) (fin .data)
           else viaRd o fun m => c3 Cfg.repaired .raise (L.svcRd m) (fin .data)) := by
    split
    · exact viaWr_clean o _ hI fun _ => c3_raise _ _ trivial
    · exact viaRd_clean o _ hI fun _ => c3_raise _ _ trivial
  have h2 := run_ok _ 0 w hc hs
  exact ⟨h2.1, hI, h2.2⟩

/-- the internal authentication of the code as it is: whatever it was given, it leaves an object
that satisfies the invariant - and with the result True a session key -/
theorem liteAuth_good (L : Cmds) (macOk : Bool) (o : Obj) (w : World) (hs : WOK w) :
    Good (liteAuth Cfg.repaired Variant.code L macOk o w)
    ∧ ((liteAuth Cfg.repaired Variant.code L macOk o w).1 = .ok .true_ →
        (liteAuth Cfg.repaired Variant.code L macOk o w).2.1.sk = true) := by
  unfold liteAuth
  have h := run_ok _ 0 w (c3_clean .raise trivial L.auth1 (fin .unit) trivial) hs
  generalize run Cfg.repaired (c3 Cfg.repaired .raise L.auth1 (fin .unit)) 0 w = r at h
  obtain ⟨out, w1⟩ := r
  cases out with
  | ok v =>
    cases macOk <;> simp [Good, Obj.Inv, Variant.code, Documented] <;> exact h.2
  | exc e =>
    refine ⟨⟨h.1, ?_, h.2⟩, ?_⟩
    · simp [Obj.Inv, Variant.code]
    · intro h'; cases h'

/-- when a command error leaves the internal authentication, no key, no accessor with MAC and no
`_authenticated` are left in the object - whatever an earlier authentication had installed -/
theorem liteAuth_exc (L : Cmds) (macOk : Bool) (o : Obj) (w : World) (e : Exc)
    (h : (liteAuth Cfg.repaired Variant.code L macOk o w).1 = .exc e) :
    (liteAuth Cfg.repaired Variant.code L macOk o w).2.1.sk = false
    ∧ (liteAuth Cfg.repaired Variant.code L macOk o w).2.1.rdMac = false
    ∧ (liteAuth Cfg.repaired Variant.code L macOk o w).2.1.wrMac = false
    ∧ (liteAuth Cfg.repaired Variant.code L macOk o w).2.1.auth = false := by
  unfold liteAuth at h ⊢
  generalize run Cfg.repaired (c3 Cfg.repaired .raise L.auth1 (fin .unit)) 0 w = r at h ⊢
  obtain ⟨out, w1⟩ := r
  cases out with
  | ok v => cases macOk <;> simp at h
  | exc e' => simp [Variant.code]

theorem litesAuth_good (L : Cmds) (macOk extOk : Bool) (o : Obj) (w : World) (hs : WOK w) :
    Good (litesAuth Cfg.repaired Variant.code L macOk extOk o w) := by
  unfold litesAuth
  have h := liteAuth_good L macOk o w hs
  generalize liteAuth Cfg.repaired Variant.code L macOk o w = r at h
  split
  · rename_i o1 w1
    have hsk : o1.sk = true := h.2 rfl
    simp only [hsk, if_true]
    have h2 := run_ok _ 0 w1 (c3_raise L.auth2 (fin .unit) trivial) h.1.2.2
    generalize run Cfg.repaired (c3 Cfg.repaired .raise L.auth2 (fin .unit)) 0 w1 = r2 at h2
    obtain ⟨out2, w2⟩ := r2
    cases out2 with
    | ok v2 =>
      cases extOk <;> simp [Good, Obj.Inv, Documented] <;> exact h2.2
    | exc e =>
      refine ⟨h2.1, ?_, h2.2⟩
      simp [Obj.Inv]
  · exact h.1

/-- side condition of an operation of a history: a session-free operation is a clean program -/
def OOp.Ok : OOp → Prop
  | .plain P _ => Clean T3 P
  | _ => True

theorem ostep_good (L : Cmds) (op : OOp) (o : Obj) (w : World) (hop : op.Ok) (hI : o.Inv) (hs : WOK w) :
    Good (ostep Cfg.repaired Variant.code L op o w) := by
  cases op with
  | ndef => exact tagNdef_good L o w hI hs
  | changed => exact opChanged_good L o w hI hs
  | write => exact opWrite_good L o w hI hs
  | protect => exact opProtect_good L o w hI hs
  | svc wr => exact opSvc_good L wr o w hI hs
  | auth lites macOk extOk =>
    simp only [ostep]
    split
    · exact litesAuth_good L macOk extOk o w hs
    · exact (liteAuth_good L macOk o w hs).1
  | plain P clears =>
    simp only [ostep]
    have h := run_ok P 0 w hop hs
    refine ⟨h.1, ?_, h.2⟩
    split <;> exact hI

theorem history_good (L : Cmds) : ∀ (ops : List OOp) (o : Obj) (w : World),
    (∀ op ∈ ops, op.Ok) → o.Inv → WOK w →
    (∀ out ∈ (history Cfg.repaired Variant.code L ops o w).1, Documented out)
    ∧ (history Cfg.repaired Variant.code L ops o w).2.1.Inv
    ∧ WOK (history Cfg.repaired Variant.code L ops o w).2.2 := by
  intro ops
  induction ops with
  | nil => intro o w _ hI hs; exact ⟨by simp [history], hI, hs⟩
  | cons op ops ih =>
    intro o w hops hI hs
    have h1 := ostep_good L op o w (hops op List.mem_cons_self) hI hs
    have h2 := ih _ _ (fun op' hm => hops op' (List.mem_cons_of_mem _ hm)) h1.2.1 h1.2.2
    unfold history
    refine ⟨?_, h2.2.1, h2.2.2⟩
    intro out hm
    simp only [List.mem_cons] at hm
    rcases hm with hm | hm
    · rw [hm]; exact h1.1
    · exact h2.1 out hm

/-- the operation table of the Type 3 families only uses the Type 3 retry loop -/
theorem prog_clean_t3 (tlv : Bool) (fam op : String) (l : Phases) (v : Val) (nret : Nat) (P : Prog)
    (h : prog Cfg.repaired tlv fam op l v nret = some P)
    (hf : fam = "t3" ∨ fam = "t3p" ∨ fam = "t3std" ∨ fam = "lite" ∨ fam = "lites") : Clean T3 P := by
  cases tlv <;>
  (unfold prog at h
   simp only [fixF17_rep, if_true, Bool.false_eq_true, if_false] at h
   split at h <;> first
     | (exfalso; revert hf; decide)
     | (cases h; clean_tac))
end NfcVerif.RetryObj
