import NfcVerif.Model.Deact
/-!
# Lemmas about the virtual-clock model of NFC-DEP deactivation (C09)

`target_time`: the end time of `Target._deactivate` for every peer script; `tx_run` / `renew_run`:
the scripts that keep the as-found retry loop, resp. a renewed deadline, busy for as long as wanted.
-/
namespace NfcVerif.Deact

def base (cfg : Cfg) (s : St) : Nat :=
  match s.mode with
  | .main => max s.now s.dl + 2 * cfg.lat
  | .final => s.now + cfg.lat

theorem xchg_le (cfg : Cfg) (now dl : Nat) (ev : Ev) : (xchg cfg now dl ev).2 ≤ max now dl + cfg.lat := by
  unfold xchg; split <;> simp <;> omega

theorem xchg_transmission (cfg : Cfg) (now dl : Nat) (ev : Ev) (h : (xchg cfg now dl ev).1 = .transmission) :
    ev.out = .transmission := by
  unfold xchg at h; split at h <;> simp_all

theorem txSlack_cons_le (cfg : Cfg) (ev : Ev) (rest : List Ev) : txSlack cfg rest ≤ txSlack cfg (ev :: rest) := by
  unfold txSlack; split <;> simp [slack]

theorem txSlack_cons_tx (cfg : Cfg) (ev : Ev) (rest : List Ev) (h : ev.out = .transmission)
    (hb : cfg.retryBounded = false) : txSlack cfg (ev :: rest) = cfg.lat + txSlack cfg rest := by
  simp [txSlack, hb, slack, h]

theorem cont_bound (cfg : Cfg) (hr : cfg.renew = false) (x : Sent) (dl now : Nat) (tr) :
    (∀ s, cont cfg x dl now tr = .go s → s.mode = .main ∧ s.dl = dl ∧ s.now = now ∧ now < dl) ∧
    (∀ e t tr', cont cfg x dl now tr = .fin e t tr' → t = now) := by
  simp only [cont, hr, Bool.false_and, Bool.false_eq_true, if_false]
  constructor
  · intro s h; split at h
    · cases h; simp; assumption
    · cases h
  · intro e t tr' h; split at h
    · cases h
    · cases h; rfl

theorem afterReq_bound (cfg : Cfg) (hr : cfg.renew = false) (dl : Nat) (r : Req) (ok : Bool) (now : Nat) (tr) :
    (∀ s, afterReq cfg dl r ok now tr = .go s →
        (s.mode = .main ∧ s.dl = dl ∧ s.now = now ∧ now < dl) ∨ (s.mode = .final ∧ s.dl = 0 ∧ s.now = now)) ∧
    (∀ e t tr', afterReq cfg dl r ok now tr = .fin e t tr' → t = now) := by
  unfold afterReq
  cases ok <;> cases r <;> simp only [if_true, if_false, Bool.false_eq_true] <;>
    first
    | (constructor
       · intro s h; exact Or.inl ((cont_bound cfg hr _ dl now tr).1 s h)
       · exact (cont_bound cfg hr _ dl now tr).2)
    | (constructor
       · intro s h; cases h; exact Or.inr ⟨rfl, rfl, rfl⟩
       · intro e t tr' h; cases h)


theorem step_spec (cfg : Cfg) (hr : cfg.renew = false) (s : St) (hf : s.mode = .final → s.dl = 0) (ev : Ev)
    (rest : List Ev) :
    (∀ s', step cfg s ev = .go s' → (s'.mode = .final → s'.dl = 0) ∧
        base cfg s' + txSlack cfg rest ≤ base cfg s + txSlack cfg (ev :: rest)) ∧
    (∀ e t tr, step cfg s ev = .fin e t tr → t ≤ base cfg s) := by
  have hx := xchg_le cfg s.now s.dl ev
  have hsl := txSlack_cons_le cfg ev rest
  have htx := xchg_transmission cfg s.now s.dl ev
  have hfin : max s.now s.dl + cfg.lat ≤ base cfg s := by
    unfold base; cases hm : s.mode <;> simp
    · omega
    · simp [hf hm]
  unfold step
  generalize xchg cfg s.now s.dl ev = r at hx htx
  obtain ⟨o, t⟩ := r
  simp only at hx htx ⊢
  cases o with
  | transmission =>
    have hev := htx rfl
    simp only
    cases hb : cfg.retryBounded
    · simp only [Bool.false_and, Bool.false_eq_true, if_false]
      constructor
      · intro s' h; cases h
        refine ⟨hf, ?_⟩
        rw [txSlack_cons_tx cfg ev rest hev hb]
        unfold base; cases hm : s.mode <;> simp only
        · omega
        · have := hf hm; omega
      · intro e t' tr h; cases h
    · simp only [Bool.true_and, decide_eq_true_eq]
      split
      · constructor
        · intro s' h; cases h
        · intro e t' tr h; cases h; omega
      · rename_i hlt
        constructor
        · intro s' h; cases h
          refine ⟨hf, ?_⟩
          unfold base; cases hm : s.mode <;> simp only
          · omega
          · have := hf hm; omega
        · intro e t' tr h; cases h
  | frame q ok =>
    simp only
    cases hm : s.mode with
    | main =>
      simp only
      have ha := afterReq_bound cfg hr s.dl q ok t (s.trace ++ [(s.sent, s.dl - s.now)])
      constructor
      · intro s' h
        rcases ha.1 s' h with ⟨h1, h2, h3, h4⟩ | ⟨h1, h2, h3⟩
        · refine ⟨fun h => (by rw [h1] at h; cases h), ?_⟩
          unfold base; rw [h1, hm]; simp only; omega
        · refine ⟨fun _ => h2, ?_⟩
          unfold base; rw [h1, hm]; simp only; omega
      · intro e t' tr h
        have := ha.2 e t' tr h
        omega
    | final =>
      simp only
      constructor
      · intro s' h; cases h
      · intro e t' tr h; cases h; omega
  | escape e =>
    simp only
    exact ⟨fun s' h => (by cases h), fun e t' tr h => (by cases h; omega)⟩
  | badFrame | none | timeout | commError =>
    simp only
    exact ⟨fun s' h => (by cases h), fun e t' tr h => (by cases h; omega)⟩

theorem tRun_bound (cfg : Cfg) (hr : cfg.renew = false) : ∀ (script : List Ev) (s : St),
    (s.mode = .final → s.dl = 0) → (tRun cfg script s).tEnd ≤ base cfg s + txSlack cfg script := by
  intro script
  induction script with
  | nil =>
    intro s hf
    simp only [tRun, silentEnd, base]
    cases hm : s.mode
    · simp; omega
    · simp [hf hm]
  | cons ev rest ih =>
    intro s hf
    have hs := step_spec cfg hr s hf ev rest
    simp only [tRun]
    split
    · rename_i s' hstep
      have := hs.1 s' hstep
      have := ih s' this.1
      omega
    · rename_i e t tr hstep
      have := hs.2 e t tr hstep
      simp only; omega

theorem target_time (cfg : Cfg) (hr : cfg.renew = false) (cmd : Pending) (script : List Ev) (t0 : Nat) :
    (targetDeactivate cfg cmd script t0).tEnd ≤ t0 + cfg.D + 2 * cfg.lat + txSlack cfg script := by
  unfold targetDeactivate
  split
  · rename_i hD
    cases cmd with
    | bad => simp only; omega
    | no =>
      have := tRun_bound cfg hr script ⟨.main, .nothing, t0, t0 + cfg.D, []⟩ (by intro h; cases h)
      simp only [base] at this ⊢; omega
    | req r ok =>
      simp only
      have ha := afterReq_bound cfg hr (t0 + cfg.D) r ok t0 []
      split
      · rename_i s hs
        rcases ha.1 s hs with ⟨h1, h2, h3, h4⟩ | ⟨h1, h2, h3⟩
        · have := tRun_bound cfg hr script s (by intro h; rw [h1] at h; cases h)
          unfold base at this; rw [h1] at this; simp only at this; omega
        · have := tRun_bound cfg hr script s (fun _ => h2)
          unfold base at this; rw [h1] at this; simp only at this; omega
      · rename_i e t tr hs
        have := ha.2 e t tr hs
        simp only; omega
  · simp only; omega
def txEv : Ev := ⟨.transmission, 1⟩
def infEv : Ev := ⟨.frame .inf true, 1⟩

theorem tx_run (cfg : Cfg) (hb : cfg.retryBounded = false) (hl : 1 ≤ cfg.lat) : ∀ (n : Nat) (s : St),
    s.now + n ≤ (tRun cfg (List.replicate n txEv) s).tEnd := by
  intro n
  induction n with
  | zero => intro s; simp [tRun, silentEnd]
  | succ n ih =>
    intro s
    have hstep : step cfg s txEv = .go { s with sent := .nothing, now := s.now + 1, trace := s.trace ++ [(s.sent, s.dl - s.now)] } := by
      have hx : xchg cfg s.now s.dl txEv = (.transmission, s.now + 1) := by
        unfold xchg txEv; simp; omega
      simp [step, hx, hb]
    simp only [List.replicate_succ, tRun, hstep]
    have := ih { s with sent := .nothing, now := s.now + 1, trace := s.trace ++ [(s.sent, s.dl - s.now)] }
    simp only at this; omega

theorem renew_run (cfg : Cfg) (hn : cfg.renew = true) (hD : 0 < cfg.D) (hl : 1 ≤ cfg.lat) : ∀ (n : Nat) (s : St),
    s.mode = .main → s.now + n ≤ (tRun cfg (List.replicate n infEv) s).tEnd := by
  intro n
  induction n with
  | zero => intro s _; simp [tRun, silentEnd]
  | succ n ih =>
    intro s hm
    have hx : xchg cfg s.now s.dl infEv = (.frame .inf true, s.now + 1) := by
      unfold xchg infEv; simp; omega
    have hstep : step cfg s infEv = .go ⟨.main, .inf, s.now + 1, s.now + 1 + cfg.D, s.trace ++ [(s.sent, s.dl - s.now)]⟩ := by
      simp [step, hx, hm, afterReq, cont, hn]; omega
    simp only [List.replicate_succ, tRun, hstep]
    have := ih ⟨.main, .inf, s.now + 1, s.now + 1 + cfg.D, s.trace ++ [(s.sent, s.dl - s.now)]⟩ rfl
    simp only at this; omega

theorem target_unbounded (cfg : Cfg) (hb : cfg.retryBounded = false) (hl : 1 ≤ cfg.lat) (hD : 0 < cfg.D) (t0 B : Nat) :
    ∃ script, B < (targetDeactivate cfg .no script t0).tEnd := by
  refine ⟨List.replicate (B + 1) txEv, ?_⟩
  unfold targetDeactivate
  rw [if_pos (by omega)]
  have := tx_run cfg hb hl (B + 1) ⟨.main, .nothing, t0, t0 + cfg.D, []⟩
  simp only at this ⊢; omega

theorem renew_unbounded (cfg : Cfg) (hn : cfg.renew = true) (hl : 1 ≤ cfg.lat) (hD : 0 < cfg.D) (t0 B : Nat) :
    ∃ script, (∀ ev ∈ script, ev = infEv) ∧ B < (targetDeactivate cfg .no script t0).tEnd := by
  refine ⟨List.replicate (B + 1) infEv, fun ev h => (List.mem_replicate.1 h).2, ?_⟩
  unfold targetDeactivate
  rw [if_pos (by omega)]
  have := renew_run cfg hn hD hl (B + 1) ⟨.main, .nothing, t0, t0 + cfg.D, []⟩ rfl
  simp only at this ⊢; omega

theorem slack_no_tx (cfg : Cfg) (script : List Ev) (h : ∀ ev ∈ script, ev.out ≠ .transmission) : slack cfg script = 0 := by
  induction script with
  | nil => rfl
  | cons ev rest ih =>
    have h1 : ev.out ≠ .transmission := h ev (by simp)
    simp [slack, h1, ih (fun e he => h e (by simp [he]))]

theorem initiator_time (cfg : Cfg) (tInit : Nat) (release : Bool) (script : List Ev) (t0 : Nat) :
    (initiatorDeactivate cfg tInit release script t0).tEnd ≤ t0 + tInit + cfg.lat ∧
    (initiatorDeactivate cfg tInit release script t0).trace.length = 1 := by
  unfold initiatorDeactivate
  cases script with
  | nil => simp [silentEnd]; omega
  | cons ev rest =>
    simp only
    have hx : (xchg cfg t0 (t0 + tInit) ev).2 ≤ t0 + tInit + cfg.lat := by
      unfold xchg; split <;> simp <;> omega
    split <;> simp <;> omega
end NfcVerif.Deact
