import NfcVerif.Gen.FnSnep
import NfcVerif.Model.Snep
import NfcVerif.Model.Handover
import NfcVerif.Model.PeerSnep
import NfcVerif.Lemmas.SnepChannel
import NfcVerif.Lemmas.FnBridgeBase
/-!
Helper lemmas and auxiliary definitions for `Props/FnBridgeSnep.lean` (pure slices of `nfc/snep/client.py`,
`nfc/snep/server.py`, `nfc/handover/client.py`).

Two layers of auxiliary functions.  `processMid`, `srvIdleMid`, `cliAwaitMid`, `cliAwaitHdrMid`: the model transitions
rebuilt from the regenerated header slices with the surrounding conditions still written by hand (stepping stones of
the proofs).  `processGen`, `respondGen`, `srvOnRecvGen`, `cliOnRecvGen`, `cliSendGen`, `cliStartGen`, `cliFinishGen`: the
same transitions with EVERY condition, slice and protocol constant taken from `Gen/FnSnep.lean` (`expr=` cuts pinned to
their statement); only the control skeleton (which check comes first, which state follows) and the offsets
`range(miu, len, miu)` of the fragment loops are written by hand.  `Props/FnBridgeSnep.lean` proves them equal to the
model functions.
-/
namespace NfcVerif.FnBridge.Snep
open NfcVerif NfcVerif.PyFn NfcVerif.Chan

/-! ## struct -/

theorem packField_B (n : Nat) : packField .B (n : Int) = if n > 255 then .error .struct else .ok [n] := by
  unfold packField
  by_cases h : n > 255
  · have : ((n : Int) < 0 ∨ (n : Int) ≥ 256 ^ Fmt.B.size) := by simp [Fmt.size]; omega
    simp [this, h]
  · have : ¬ ((n : Int) < 0 ∨ (n : Int) ≥ 256 ^ Fmt.B.size) := by simp [Fmt.size]; omega
    simp [this, h]

theorem packField_Ibe (n : Nat) :
    packField .Ibe (n : Int) = if n ≥ 2 ^ 32 then .error .struct else .ok (toBE 4 n) := by
  unfold packField
  by_cases h : n ≥ 2 ^ 32
  · have : ((n : Int) < 0 ∨ (n : Int) ≥ 256 ^ Fmt.Ibe.size) := by simp [Fmt.size]; omega
    simp [this, h]
  · have : ¬ ((n : Int) < 0 ∨ (n : Int) ≥ 256 ^ Fmt.Ibe.size) := by simp [Fmt.size]; omega
    simp [this, h]

/-- `struct.pack(">BBL", a, b, n)` -/
theorem pack_BBL (a b n : Nat) :
    PyFn.pack [.B, .B, .Ibe] [(a : Int), (b : Int), (n : Int)]
      = if a > 255 ∨ b > 255 ∨ n ≥ 2 ^ 32 then .error .struct else .ok ([a, b] ++ toBE 4 n) := by
  simp only [PyFn.pack, packField_B, packField_Ibe]
  by_cases ha : a > 255 <;> by_cases hb : b > 255 <;> by_cases hn : n ≥ 2 ^ 32 <;> simp [ha, hb, hn]

/-- `struct.pack(">BBLL", a, b, n, m)` -/
theorem pack_BBLL (a b n m : Nat) :
    PyFn.pack [.B, .B, .Ibe, .Ibe] [(a : Int), (b : Int), (n : Int), (m : Int)]
      = if a > 255 ∨ b > 255 ∨ n ≥ 2 ^ 32 ∨ m ≥ 2 ^ 32 then .error .struct
        else .ok ([a, b] ++ toBE 4 n ++ toBE 4 m) := by
  simp only [PyFn.pack, packField_B, packField_Ibe]
  by_cases ha : a > 255 <;> by_cases hb : b > 255 <;> by_cases hn : n ≥ 2 ^ 32 <;> by_cases hm : m ≥ 2 ^ 32 <;>
    simp [ha, hb, hn, hm]

/-- a negative value in an unsigned field is `struct.error` -/
theorem packField_neg (f : Fmt) (v : Int) (h : v < 0) : packField f v = .error .struct := by
  unfold packField; simp [h]

/-- unsigned big-endian field of `w` octets at a natural offset -/
theorem ube_nat (d : Bytes) (off w : Nat) : ube d (off : Int) w = ((beNat ((d.drop off).take w) : Nat) : Int) := by
  unfold ube; rw [Int.toNat_natCast]

theorem slice_nat {α} (l : List α) (a b : Nat) : slice l (a : Int) (b : Int) = (l.drop a).take (b - a) := by
  unfold slice
  simp only [clampBound_ofNat]
  rcases Nat.le_total a l.length with ha | ha
  · rcases Nat.le_total b l.length with hb | hb
    · rw [Nat.min_eq_left ha, Nat.min_eq_left hb]
    · rw [Nat.min_eq_left ha, Nat.min_eq_right hb, List.take_of_length_le (by rw [List.length_drop]; omega),
        List.take_of_length_le (by rw [List.length_drop]; omega)]
  · rw [Nat.min_eq_right ha, List.drop_of_length_le (Nat.le_refl _), List.drop_of_length_le ha]
    simp

theorem slice_zero_nat {α} (l : List α) (n : Nat) : slice l 0 (n : Int) = l.take n := by
  have := slice_nat l 0 n
  simpa using this

/-! ## fragments -/

/-- `chunksF` does not depend on the fuel once it covers the length -/
theorem chunksF_fuel (miu : Nat) (hm : 0 < miu) :
    ∀ n m (d : Bytes), d.length ≤ n → d.length ≤ m → chunksF miu n d = chunksF miu m d := by
  intro n
  induction n with
  | zero =>
    intro m d h _; have : d = [] := List.eq_nil_of_length_eq_zero (by omega); subst this
    cases m <;> simp [chunksF]
  | succ n ih =>
    intro m d h h'
    cases d with
    | nil => cases m <;> simp [chunksF]
    | cons a t =>
      cases m with
      | zero => simp at h'
      | succ m =>
        have h1 : ((a :: t).drop miu).length ≤ n := by simp at h ⊢; omega
        have h2 : ((a :: t).drop miu).length ≤ m := by simp at h' ⊢; omega
        simp only [chunksF, reduceCtorEq, if_false]
        rw [ih _ _ h1 h2]

theorem chunks_cons (miu : Nat) (hm : 0 < miu) (d : Bytes) (h : d ≠ []) :
    chunks miu d = d.take miu :: chunks miu (d.drop miu) := by
  cases d with
  | nil => exact absurd rfl h
  | cons a t =>
    have h2 : ((a :: t).drop miu).length ≤ t.length := by simp; omega
    unfold chunks
    simp only [chunksF, List.length_cons, reduceCtorEq, if_false]
    rw [chunksF_fuel miu hm _ _ _ h2 (Nat.le_refl _)]

/-- the `while len(octets) > 0` loop of `HandoverClient.send_octets` (normalised to `take`/`drop`): it offers the
MIU-sized chunks in order and stops at the first refused one; what is left is empty iff every chunk was accepted -/
theorem ho_loop (miu : Nat) (hm : 0 < miu) (send : Bytes → Bool) :
    ∀ (fuel : Nat) (d : Bytes), d.length < fuel →
      ∃ d', PyFn.whileC (ρ := Empty) fuel d
          (fun (o : Bytes) => Except.ok (decide ((PyFn.len o) > 0)))
          (fun (o : Bytes) => Except.ok (if ((send (o.take miu)) = true) then
              (PyFn.Ctl.next (o.drop miu)) else (PyFn.Ctl.brk o))) = .ok (.inl d')
        ∧ decide (PyFn.len d' = 0) = (chunks miu d).all send := by
  intro fuel
  induction fuel with
  | zero => intro d h; omega
  | succ fuel ih =>
    intro d h
    cases d with
    | nil => exact ⟨[], by simp [whileC, len_eq], by simp [chunks_nil, len_eq]⟩
    | cons a t =>
      have hc : decide (PyFn.len (a :: t) > 0) = true := by simp [len_eq]
      have hl : (a :: t).length = t.length + 1 := rfl
      rw [chunks_cons miu hm _ (by simp)]
      simp only [whileC, hc, List.all_cons]
      cases hs : send ((a :: t).take miu) with
      | false =>
        refine ⟨a :: t, by simp, ?_⟩
        simp only [len_eq, hl]; simp; omega
      | true =>
        simp only [if_true, Bool.true_and]
        exact ih _ (by rw [List.length_drop]; omega)

/-! ## model transitions rebuilt from the regenerated slices -/

open NfcVerif.Snep in
/-- `SnepServer.process_snep_request` = the hand-written dispatch (`request_data[1] == 1 and len(request_data) >= 10`,
`== 2`), the application callbacks `h`, and the regenerated slices `snep_get_fields`, `snep_get_excess`,
`snep_put_fields`, `snep_response_pack` -/
def processMid (h : Handlers) (data : Bytes) : Py (Bytes × List (Op × Bytes)) :=
  getB data 1 >>= fun code =>
  if code = 1 ∧ PyFn.len data ≥ 10 then
    Gen.Fn.snep_get_fields data >>= fun (acc, octets) =>
    if h.valid octets = false then
      Gen.Fn.snep_response_pack 0xC2 [] >>= fun r => .ok (r, [])
    else
      let r : Int × Bytes := match h.get octets with
        | .inl c => ((c : Int), [])
        | .inr d => (0x81, d)
      let r := Gen.Fn.snep_get_excess r.1 r.2 acc
      Gen.Fn.snep_response_pack r.1 r.2 >>= fun resp => .ok (resp, [(Op.get, octets)])
  else if code = 2 then
    let octets := Gen.Fn.snep_put_fields data
    if h.valid octets = false then
      Gen.Fn.snep_response_pack 0xC2 [] >>= fun r => .ok (r, [])
    else
      Gen.Fn.snep_response_pack ((h.put octets : Nat) : Int) [] >>= fun resp => .ok (resp, [(Op.put, octets)])
  else Gen.Fn.snep_response_pack 0xC2 [] >>= fun r => .ok (r, [])

open NfcVerif.Snep in
/-- the head of the `_serve` loop on one received message `m` (`data = bytearray(client_socket.recv())`): the
hand-written conditions around the regenerated `struct.unpack_from(">BxL", data)` -/
def srvIdleMid (cfg : SCfg) (m : Bytes) : SState × List Bytes × List (Op × Bytes) :=
  if m = [] then (.closed, [], [])
  else if PyFn.len m < 6 then (.closed, [], [])
  else match Gen.Fn.snep_serve_header m with
    | .error e => (.crashed e, [], [])
    | .ok (version, length) =>
      if PyFn.shr version 4 > 1 then (.idle, [unsupRsp], [])
      else if length > (cfg.maxAcc : Int) then (.idle, [rejectRsp], [])
      else if PyFn.len m - 6 < length then (.reasm m length.toNat, [contRsp], [])
      else srvFinish cfg m

open NfcVerif.Snep in
/-- `recv_response` on the first received fragment `m`: the hand-written conditions around the regenerated
`struct.unpack(">BBL", snep_response[:6])` -/
def cliAwaitMid (op : Op) (acc : Nat) (m : Bytes) : CState × List Bytes :=
  if PyFn.len m < 6 then (.done (noResponse op), [])
  else match Gen.Fn.snep_recv_unpack m with
    | .error e => (.done (.exc e), [])
    | .ok (_version, _status, length) =>
      if length > (acc : Int) then (.done (noResponse op), [])
      else if PyFn.len m - 6 < length then (.reasm op m length.toNat, [contReq])
      else (.done (cliFinish op m), [])

open NfcVerif.Snep in
/-- `recv_response` on the first received fragment, with the regenerated slice `snep_recv_header` (the length
check, the header unpack and the acceptable-length check of the source); only the reassembly condition
`len(snep_response) - 6 < length` is restated by hand -/
def cliAwaitHdrMid (op : Op) (acc : Nat) (m : Bytes) : CState × List Bytes :=
  match Gen.Fn.snep_recv_header m (acc : Int) with
  | .error e => (.done (.exc e), [])
  | .ok none => (.done (noResponse op), [])
  | .ok (some length) =>
    if PyFn.len m - 6 < length then (.reasm op m length.toNat, [contReq]) else (.done (cliFinish op m), [])

/-! ## fragments by offset -/

/-- number of fragments of `n` octets at MIU `miu` -/
def nfrag (miu n : Nat) : Nat := (n + miu - 1) / miu

theorem nfrag_zero (miu : Nat) (hm : 0 < miu) : nfrag miu 0 = 0 := by
  unfold nfrag; exact Nat.div_eq_of_lt (by omega)

theorem nfrag_pos (miu n : Nat) (hm : 0 < miu) (hn : 0 < n) : nfrag miu n = nfrag miu (n - miu) + 1 := by
  unfold nfrag
  by_cases h : miu ≤ n
  · have : n + miu - 1 = (n - miu + miu - 1) + miu := by omega
    rw [this, Nat.add_div_right _ hm]
  · have h1 : n - miu = 0 := by omega
    rw [h1]
    have e0 : (0 + miu - 1) / miu = 0 := Nat.div_eq_of_lt (by omega)
    rw [e0]
    have : n + miu - 1 = (n - 1) + miu := by omega
    rw [this, Nat.add_div_right _ hm, Nat.div_eq_of_lt (by omega)]

/-- `[d[o:o+miu] for o in range(0, len(d), miu)]`: the i-th fragment starts at `i * miu` -/
theorem chunks_eq_offsets (miu : Nat) (hm : 0 < miu) :
    ∀ (n : Nat) (d : Bytes), d.length ≤ n →
      chunks miu d = (List.range (nfrag miu d.length)).map (fun i => (d.drop (i * miu)).take miu) := by
  intro n
  induction n with
  | zero =>
    intro d h
    have : d = [] := List.eq_nil_of_length_eq_zero (by omega)
    subst this
    simp [chunks_nil, nfrag_zero miu hm]
  | succ n ih =>
    intro d h
    cases d with
    | nil => simp [chunks_nil, nfrag_zero miu hm]
    | cons a t =>
      rw [chunks_cons miu hm _ (by simp), nfrag_pos miu _ hm (by simp), List.range_succ_eq_map, List.map_cons, List.map_map]
      have hl : ((a :: t).drop miu).length ≤ n := by rw [List.length_drop]; simp at h ⊢; omega
      rw [ih _ hl, List.length_drop]
      congr 1
      · simp
      · apply List.map_congr_left
        intro i _
        simp only [Function.comp, List.drop_drop]
        congr 2
        rw [Nat.succ_mul]; omega

/-- the fragments a sender puts on the wire after the first one: `frag data o miu` for `o` in
`range(miu, len(data), miu)` (the offsets are written out by hand: `range` with a step is not translated) -/
def fragsGen (frag : Bytes → Int → Int → Bytes) (data : Bytes) (miu : Nat) : List Bytes :=
  (List.range (nfrag miu (data.length - miu))).map
    (fun i => frag data (((i + 1) * miu : Nat) : Int) (miu : Int))

theorem fragsGen_eq (frag : Bytes → Int → Int → Bytes) (hf : ∀ d (a m : Nat), frag d a m = slice d (a : Int) ((a : Int) + (m : Int)))
    (data : Bytes) (miu : Nat) (hm : 0 < miu) :
    fragsGen frag data miu = chunks miu (data.drop miu) := by
  unfold fragsGen
  rw [chunks_eq_offsets miu hm _ _ (Nat.le_refl _), List.length_drop]
  apply List.map_congr_left
  intro i _
  rw [hf, ← Int.natCast_add, slice_nat, List.drop_drop]
  congr 2
  · omega
  · rw [Nat.succ_mul]; omega


/-! ## the server of the C06 model rebuilt from the regenerated pieces -/
section server
open NfcVerif.Snep

/-- `process_snep_request`: regenerated dispatch conditions, field slices, ExcessData rule and response header
around the application callbacks `h` -/
def processGen (h : Handlers) (data : Bytes) : Py (Bytes × List (Op × Bytes)) :=
  Gen.Fn.snep_srv_is_get data >>= fun isGet =>
  if isGet = true then
    Gen.Fn.snep_get_fields data >>= fun (acc, octets) =>
    if h.valid octets = false then
      Gen.Fn.snep_response_pack 0xC2 [] >>= fun r => .ok (r, [])
    else
      let r : Int × Bytes := match h.get octets with
        | .inl c => ((c : Int), [])
        | .inr d => (0x81, d)
      let r := Gen.Fn.snep_get_excess r.1 r.2 acc
      Gen.Fn.snep_response_pack r.1 r.2 >>= fun resp => .ok (resp, [(Op.get, octets)])
  else
    Gen.Fn.snep_srv_is_put data >>= fun isPut =>
    if isPut = true then
      let octets := Gen.Fn.snep_put_fields data
      if h.valid octets = false then
        Gen.Fn.snep_response_pack 0xC2 [] >>= fun r => .ok (r, [])
      else
        Gen.Fn.snep_response_pack ((h.put octets : Nat) : Int) [] >>= fun resp => .ok (resp, [(Op.put, octets)])
    else Gen.Fn.snep_response_pack 0xC2 [] >>= fun r => .ok (r, [])

/-- "send the snep response, fragment if needed" -/
def respondGen (smiu : Nat) (resp : Bytes) : SState × List Bytes :=
  if Gen.Fn.snep_srv_fits resp (smiu : Int) = true then (.idle, [resp])
  else (.awaitCont (fragsGen Gen.Fn.snep_srv_frag resp smiu), [Gen.Fn.snep_srv_first resp (smiu : Int)])

def srvFinishGen (cfg : SCfg) (data : Bytes) : SState × List Bytes × List (Op × Bytes) :=
  match processGen cfg.h data with
  | .error e => (.crashed e, [], [])
  | .ok (resp, dl) => ((respondGen cfg.smiu resp).1, (respondGen cfg.smiu resp).2, dl)

/-- `SnepServer._serve` cut at its blocking points, every condition / slice / constant regenerated -/
def srvOnRecvGen (cfg : SCfg) : SState → Bytes → SState × List Bytes × List (Op × Bytes)
  | .idle, m =>
    if Gen.Fn.snep_srv_empty m = true then (.closed, [], [])
    else if Gen.Fn.snep_srv_short m = true then (.closed, [], [])
    else match Gen.Fn.snep_serve_header m with
      | .error e => (.crashed e, [], [])
      | .ok (version, length) =>
        if Gen.Fn.snep_srv_bad_version version = true then (.idle, [Gen.Fn.snep_srv_unsup_rsp], [])
        else if Gen.Fn.snep_srv_too_long length (cfg.maxAcc : Int) = true then (.idle, [Gen.Fn.snep_srv_reject_rsp], [])
        else if Gen.Fn.snep_srv_more m length = true then (.reasm m length.toNat, [Gen.Fn.snep_srv_cont_rsp], [])
        else srvFinishGen cfg m
  | .reasm data length, m =>
    if Gen.Fn.snep_srv_more_loop (data ++ m) (length : Int) = true then (.reasm (data ++ m) length, [], [])
    else srvFinishGen cfg (data ++ m)
  | .awaitCont rest, m => if m = Gen.Fn.snep_srv_cont_req then (.idle, rest, []) else (.idle, [], [])
  | .closed, _ => (.closed, [], [])
  | .crashed e, _ => (.crashed e, [], [])

end server

/-- the application callbacks answer with a one-octet code / a message that fits the 32 bit length field -/
structure HandlersOk (h : Snep.Handlers) : Prop where
  put : ∀ o, h.put o < 256
  getCode : ∀ o c, h.get o = .inl c → c < 256
  getLen : ∀ o d, h.get o = .inr d → d.length < 2 ^ 32

/-! ## the client of the C06 model rebuilt from the regenerated pieces -/
section client
open NfcVerif.Snep

/-- tail of `get_octets` / `put_octets` once `recv_response` returned data: `if response[1] != 0x81: raise
SnepError(response[1])`, `return response[6:]` / `return True` -/
def cliFinishGen (op : Op) (resp : Bytes) : CRes :=
  match (match op with | .get => Gen.Fn.snep_cli_get_status resp | .put => Gen.Fn.snep_cli_put_status resp) with
  | .error e => .exc e
  | .ok true => (match getB resp 1 with | .ok st => .snepError st.toNat | .error e => .exc e)
  | .ok false => (match op with | .put => .okTrue | .get => .okData (Gen.Fn.snep_cli_get_data resp))

/-- `recv_response` on the first received fragment -/
def cliAwaitGen (op : Op) (acc : Nat) (m : Bytes) : CState × List Bytes :=
  match Gen.Fn.snep_recv_header m (acc : Int) with
  | .error e => (.done (.exc e), [])
  | .ok none => (.done (noResponse op), [])
  | .ok (some length) =>
    if Gen.Fn.snep_cli_more m length = true then (.reasm op m length.toNat, [Gen.Fn.snep_cli_cont_req])
    else (.done (cliFinishGen op m), [])

/-- `send_request` after its first fragment, `recv_response`, and the tails of `put_octets` / `get_octets`, cut at the
blocking points; every condition / slice / constant regenerated -/
def cliOnRecvGen : CState → Bytes → CState × List Bytes
  | .awaitCont op acc rest, m =>
    if m ≠ Gen.Fn.snep_cli_cont_rsp then (.done (sendFailed op), []) else (.awaitResp op acc, rest)
  | .awaitResp op acc, m => cliAwaitGen op acc m
  | .reasm op buf length, m =>
    if Gen.Fn.snep_cli_more_loop (buf ++ m) (length : Int) = true then (.reasm op (buf ++ m) length, [])
    else (.done (cliFinishGen op (buf ++ m)), [])
  | st, _ => (st, [])

/-- `send_request` up to its first blocking point -/
def cliSendGen (miu acc : Nat) (op : Op) (req : Bytes) : CState × List Bytes :=
  if Gen.Fn.snep_cli_fits req (miu : Int) = true then (.awaitResp op (respAcc acc op), [req])
  else (.awaitCont op (respAcc acc op) (fragsGen Gen.Fn.snep_cli_frag req miu), [Gen.Fn.snep_cli_first req (miu : Int)])

/-- `put_octets` / `get_octets` up to the first blocking point of `send_request` -/
def cliStartGen (miu acc : Nat) (op : Op) (octets : Bytes) : CState × List Bytes :=
  match (match op with
         | .put => Gen.Fn.snep_put_request octets
         | .get => Gen.Fn.snep_get_request octets (acc : Int)) with
  | .error e => (.done (.exc e), [])
  | .ok req => cliSendGen miu acc op req

end client

end NfcVerif.FnBridge.Snep
