import NfcVerif.Lemmas.FnBridgeBase
import NfcVerif.Gen.FnLlcRun
import NfcVerif.Gen.FnLlc
import NfcVerif.Model.FnLlcRunRef
/-!
# Group LlcRun: `Peer.dispatch`, `Peer.sapEnqueue`, `Collect.collect` restated with the regenerated decisions

Every definition `<f>Gen` is the model function `<f>` with each condition / table lookup / constant replaced by the
corresponding definition of `Gen/FnLlcRun.lean` (and, for the arithmetic of `collect` and connect-by-name, of
`Gen/FnLlc.lean`), regenerated from `nfc/llcp/llc.py`.  Hand written remain: the pattern matches that take the
fields out of a PDU, the `for .. else` socket loops (`Peer.firstMatch`), the socket level (`Peer.sockEnqueue`,
`Collect.Sock.dequeue`: group Tco) and the short circuit of `not addr or self.sap[addr] is None`.
`Props/FnBridgeLlcRun.lean` proves `<f> = <f>Gen`.
-/
namespace NfcVerif.FnBridge.LlcRun
open NfcVerif NfcVerif.Pdu NfcVerif.FnLlcRunRef

/-! ## received PDUs: `dispatch`, `ServiceAccessPoint.enqueue` (C07) -/

/-- the address table as the lookup cut sees it: None or a marker -/
def encTab (tab : List Peer.Entry) : List (Option Int) :=
  tab.map (fun e => match e with | .empty => none | _ => some 1)

/-- the socket selected for a PDU that is not a CONNECT -/
def peerSel (p : SPdu) (s : Peer.Sock) : Bool :=
  Gen.Fn.lr_enqueue_peer_sel (p.ssap : Int) s.peer.isNone ((s.peer.getD 0 : Nat) : Int)

/-- `pdu.DisconnectedMode(*args)` -/
def dmOf (a : Int × Int × Int) : SPdu := .dm a.1.toNat a.2.1.toNat a.2.2.toNat

def sapEnqueueGen (f : Peer.Fix) (sap : Peer.Sap) (p : SPdu) : Option Peer.Sap :=
  match p with
  | .connect .. =>
    (Peer.firstMatch f (fun s => s.st = .listen) p sap.socks).map fun r =>
      match r with
      | some l => { sap with socks := l }
      | none => { sap with sendList := sap.sendList ++ [dmOf (Gen.Fn.lr_enqueue_dm_no_listener p.ssap p.dsap)] }
  | _ =>
    (Peer.firstMatch f (peerSel p) p sap.socks).map fun r =>
      match r with
      | some l => { sap with socks := l }
      | none =>
        if Peer.isDlcPdu p then { sap with sendList := sap.sendList ++ [dmOf (Gen.Fn.lr_enqueue_dm_no_peer p.ssap p.dsap)] }
        else sap

/-- the `with self.lock:` block at the end of `dispatch` -/
def deliverGen (f : Peer.Fix) (w : Peer.Llc) (p : SPdu) : Py (Option Peer.Llc) :=
  Gen.Fn.lr_dispatch_sap_at (encTab w.tab) (p.dsap : Int) >>= fun m =>
  if Gen.Fn.lr_dispatch_sap_ok m = true then
    match w.tab[p.dsap]? with
    | some (.sdp dm nres) =>
      (match p with
       | .snl _ _ sdreq _ => .ok (some { w with tab := Peer.setEntry w.tab p.dsap (.sdp dm (nres + sdreq.length)) })
       | _ => .ok (some w))
    | some (.sap s) =>
      .ok ((sapEnqueueGen f s p).map fun s' => { w with tab := Peer.setEntry w.tab p.dsap (.sap s') })
    | _ => .ok (some w)
  else .ok (some w)

/-- connect-by-name without a service; the DM reason is `Gen.Fn.llc_dispatch_dm_reason` (group Llc) -/
def rejectByNameGen (w : Peer.Llc) (ssap : Nat) (sn : Option Bytes) : Py (Option Peer.Llc) :=
  idxN w.tab 1 >>= fun e1 =>
  match e1 with
  | .sdp dm nres =>
    let dmpdu := dm ++ [.dm ssap 1 (Gen.Fn.llc_dispatch_dm_reason sn).toNat]
    .ok (some { w with tab := Peer.setEntry w.tab 1 (.sdp dmpdu nres) })
  | _ => .error .attr

/-- `dispatch(rcvd_pdu)` for a PDU that is not an aggregate -/
def dispatchSGen (f : Peer.Fix) (w : Peer.Llc) (p : SPdu) : Py (Option Peer.Llc) :=
  if Gen.Fn.lr_dispatch_ignore false (nameOf p) = true then .ok (some w)
  else if Gen.Fn.lr_dispatch_by_name (nameOf p) (p.dsap : Int) = true then
    match p with
    | .connect _ ssap miu rw sn =>
      let addr := Peer.lookupName w.snl sn
      -- `not addr or self.sap[addr] is None`: the table is read only for a true `addr` (short circuit, by hand)
      (match addr with
       | some a => if a = 0 then (.ok none : Py (Option Int)) else idxN (encTab w.tab) a
       | none => .ok none) >>= fun sapAt =>
      if Gen.Fn.llc_dispatch_unknown (addr.map (fun a => (a : Int))) sapAt = true then rejectByNameGen w ssap sn
      else deliverGen f w (.connect (addr.getD 0) ssap miu rw none)
    | _ => deliverGen f w p
  else deliverGen f w p

def dispatchAllGen (f : Peer.Fix) : Peer.Llc → List SPdu → Py (Option Peer.Llc)
  | w, [] => .ok (some w)
  | w, p :: ps =>
    dispatchSGen f w p >>= fun r =>
    match r with
    | none => .ok none
    | some w' => dispatchAllGen f w' ps

/-- `LogicalLinkController.dispatch` -/
def dispatchGen (f : Peer.Fix) (w : Peer.Llc) (p : Pdu) : Py (Option Peer.Llc) :=
  if Gen.Fn.lr_dispatch_ignore false (nameOfPdu p) = true then .ok (some w)
  else if Gen.Fn.lr_dispatch_is_agf (nameOfPdu p) = true then
    match p with
    | .agf d s items =>
      if Gen.Fn.lr_dispatch_agf_ok (d : Int) (s : Int) = true then dispatchAllGen f w items else .ok (some w)
    | .simple q => dispatchSGen f w q
  else
    match p with
    | .simple q => dispatchSGen f w q
    | .agf .. => .ok (some w)

/-! ## the address table model of C17 (`Model/Sap.lean`): the same decisions -/

def sapPeerSel (c : Sap.Llc) (p : Sap.Pdu) (id : Nat) : Bool :=
  Gen.Fn.lr_enqueue_peer_sel (p.ssap : Int) (c.sock id).peer.isNone (((c.sock id).peer.getD 0 : Nat) : Int)

def sapTargetGen (c : Sap.Llc) (e : Sap.SapEntry) (p : Sap.Pdu) : Option Nat :=
  if p.isConn then e.socks.find? (fun id => (c.sock id).st = .listen)
  else e.socks.find? (sapPeerSel c p)

/-! ## `collect()` (C10) -/
open NfcVerif.Collect

/-- `sorted(.., reverse=True, key=lambda sap: sap.mode == RAW_ACCESS_POINT)`: positions, raw first, stable -/
def rawFirstGen (es : List Ent) : List Nat :=
  let idx := List.range es.length
  idx.filter (fun i => match es[i]? with | some e => Gen.Fn.lr_collect_raw_key (modeCode e.mode) | none => false) ++
  idx.filter (fun i => match es[i]? with | some e => !Gen.Fn.lr_collect_raw_key (modeCode e.mode) | none => false)

def firstSendackGen : List Ent → Option QPdu × List Ent
  | [] => (none, [])
  | e :: rest =>
    if Gen.Fn.lr_collect_dlc_mode0 (modeCode e.mode) = true then
      let r := e.sendack
      match r.1 with
      | some p => (some p, r.2 :: rest)
      | none => let r' := firstSendackGen rest; (r'.1, r.2 :: r'.2)
    else let r' := firstSendackGen rest; (r'.1, e :: r'.2)

/-- `if self.sec and send_pdu.name in ("UI", "I"): send_pdu = encrypt(send_pdu)`: the condition is the regenerated
one (`enc` = which of the two occurrences), the ICV size `Gen.Fn.llc_collect_icv` (group Llc) -/
def encryptGen (enc : Bool → String → Bool) (sec : Option Nat) (p : QPdu) : QPdu :=
  if enc sec.isSome (kindName p.kind) = true then
    let n := (Gen.Fn.llc_collect_icv sec.isSome ((sec.getD 0 : Nat) : Int)).toNat
    { p with len := p.len + n, icv := p.icv + n }
  else p

/-- the aggregation budget, occurrence `k` of `self.cfg["send-miu"] - len(agf_pdu) - 3` (group Llc) -/
def budgetGen (k : Nat) (sendMiu : Nat) (subs : List QPdu) : Int :=
  match k with
  | 0 => Gen.Fn.llc_collect_budget0 sendMiu (agfLen subs)
  | 1 => Gen.Fn.llc_collect_budget1 sendMiu (agfLen subs)
  | _ => Gen.Fn.llc_collect_budget2 sendMiu (agfLen subs)

def aggPassGen (sendMiu : Nat) (sec : Option Nat) : List Ent → List QPdu → Bool → List Ent × List QPdu × Bool
  | [], subs, none_ => ([], subs, none_)
  | e :: rest, subs, none_ =>
    let r := e.dequeue (budget sendMiu subs) (Gen.Fn.llc_collect_icv sec.isSome ((sec.getD 0 : Nat) : Int)).toNat
    match r.1 with
    | some p =>
      let subs' := subs ++ [encryptGen Gen.Fn.lr_collect_encrypt1 sec p]
      if Gen.Fn.lr_collect_pass_stop (budgetGen 1 sendMiu subs') = true then (r.2 :: rest, subs', false)
      else
        let r' := aggPassGen sendMiu sec rest subs' false
        (r.2 :: r'.1, r'.2.1, r'.2.2)
    | none =>
      let r' := aggPassGen sendMiu sec rest subs none_
      (r.2 :: r'.1, r'.2.1, r'.2.2)

def aggLoopGen (sendMiu : Nat) (sec : Option Nat) : Nat → List Ent → List QPdu → List Ent × List QPdu
  | 0, es, subs => (es, subs)
  | fuel + 1, es, subs =>
    if Gen.Fn.lr_collect_loop_go (budget sendMiu subs) = true then
      let r := aggPassGen sendMiu sec es subs true
      if Gen.Fn.lr_collect_loop_stop (budget sendMiu r.2.1) r.2.2 = true then (r.1, r.2.1)
      else aggLoopGen sendMiu sec fuel r.1 r.2.1
    else (es, subs)

def aggAcksGen (sendMiu : Nat) : List Ent → List QPdu → List Ent × List QPdu
  | [], subs => ([], subs)
  | e :: rest, subs =>
    if Gen.Fn.lr_collect_dlc_mode1 (modeCode e.mode) = true then
      let r := e.sendack
      match r.1 with
      | some p =>
        let subs' := subs ++ [p]
        if Gen.Fn.lr_collect_acks_stop (budgetGen 2 sendMiu subs') = true then (r.2 :: rest, subs')
        else let r' := aggAcksGen sendMiu rest subs'; (r.2 :: r'.1, r'.2)
      | none => let r' := aggAcksGen sendMiu rest subs; (r.2 :: r'.1, r'.2)
    else let r' := aggAcksGen sendMiu rest subs; (e :: r'.1, r'.2)

/-- `return agf_pdu if agf_pdu.count > 1 else agf_pdu.first` with the regenerated count test -/
def resultGen (subs : List QPdu) (p : QPdu) : Frame :=
  if Gen.Fn.lr_collect_result (subs.length : Int) = true then .agf subs else .single p

def aggregateGen (es : List Ent) (sendMiu : Nat) (sec : Option Nat) (p : QPdu) : Option Frame × List Ent :=
  let fuel := sendMiu + 1
  let l := aggLoopGen sendMiu sec fuel es [p]
  let a := if Gen.Fn.lr_collect_acks_go (budget sendMiu l.2) = true then aggAcksGen sendMiu l.1 l.2 else l
  (some (resultGen a.2 p), a.1)

/-- `LogicalLinkController.collect()` -/
def collectGen (es : List Ent) (sendMiu : Nat) (sec : Option Nat) (agf : Bool) : Option Frame × List Ent :=
  let first := firstDequeue sendMiu (rawFirstGen es) es
  match first.1 with
  | some p0 =>
    let p := encryptGen Gen.Fn.lr_collect_encrypt0 sec p0
    if Gen.Fn.llc_collect_first_full sendMiu p.len p.hdr = true then (some (.single p), first.2)
    else if Gen.Fn.lr_collect_no_agf false agf = true then (some (.single p), first.2)
    else aggregateGen first.2 sendMiu sec p
  | none =>
    let k := firstSendackGen first.2
    if Gen.Fn.lr_collect_no_agf k.1.isNone agf = true then (k.1.map Frame.single, k.2)
    else
      match k.1 with
      | some p => aggregateGen k.2 sendMiu sec p
      | none => (none, k.2)

end NfcVerif.FnBridge.LlcRun
